//go:build verif

package dhcpd

import (
	"encoding/json"
	"fmt"
	"net"
	"net/netip"
	"os"
	"path/filepath"
	"sort"
	"strings"
	"testing"
	"time"

	"github.com/AdguardTeam/AdGuardHome/internal/dhcpsvc"
	"github.com/AdguardTeam/AdGuardHome/internal/verifc14"
)

// c14Server builds a real server with a v4 server over 10.0.0.0/8 and n
// dynamic leases whose host names are about hostLen bytes long.
func c14Server(t *testing.T, dbPath string, n, hostLen int, gen uint64) (s *server) {
	s = &server{conf: &ServerConfig{dbFilePath: dbPath}}
	srv4, err := v4Create(&V4ServerConf{
		Enabled:    true,
		RangeStart: netip.MustParseAddr("10.0.0.2"),
		RangeEnd:   netip.MustParseAddr("10.255.255.254"),
		GatewayIP:  netip.MustParseAddr("10.0.0.1"),
		SubnetMask: netip.MustParseAddr("255.0.0.0"),
		notify:     func(uint32) {},
	})
	if err != nil {
		t.Fatal(err)
	}
	s.srv4 = srv4
	c14AddLeases(t, s, 0, n, hostLen, gen)
	return s
}

func c14AddLeases(t *testing.T, s *server, from, n, hostLen int, gen uint64) {
	srv4 := s.srv4.(*v4Server)
	for i := from; i < from+n; i++ {
		host := fmt.Sprintf("h%d-g%d", i, gen)
		for len(host) < hostLen {
			lbl := strings.Repeat("x", min(50, hostLen-len(host)))
			host += "." + lbl
		}
		ip := netip.AddrFrom4([4]byte{10, byte(i >> 16), byte(i >> 8), byte(i)}).Next().Next()
		l := &dhcpsvc.Lease{
			Expiry:   time.Unix(1900000000+int64(i), 0),
			Hostname: host,
			HWAddr:   net.HardwareAddr{0x02, byte(gen), byte(i >> 24), byte(i >> 16), byte(i >> 8), byte(i)},
			IP:       ip,
			IsStatic: i%7 == 0,
		}
		if err := srv4.addLease(l); err != nil {
			t.Fatalf("addLease %d: %v", i, err)
		}
	}
}

// c14Expected states what dbStore must leave on disk for this server,
// without going through the file system: the lease table as JSON, sorted by
// host name (host names are unique here, so the order is determined).
func c14Expected(t *testing.T, s *server) []byte {
	leases := []*dbLease{}
	for _, l := range s.srv4.getLeasesRef() {
		leases = append(leases, fromLease(l))
	}
	sort.SliceStable(leases, func(i, j int) bool { return leases[i].Hostname < leases[j].Hostname })
	b, err := json.Marshal(&dataLeases{Version: dataVersion, Leases: leases})
	if err != nil {
		t.Fatal(err)
	}
	return b
}

// c14Store is one dbStore with the intended content stated first.
func c14Store(t *testing.T, c *verifc14.Case, label string, srv *server) {
	c.Want(c14Expected(t, srv))
	c.Save(label, srv.dbStore)
}

func TestVerifC14(t *testing.T) {
	s := verifc14.Start(t, "dhcpd")
	if s == nil {
		return
	}
	r := vfNewRand(s.Seed)
	n := 0
	dir := func() string { n++; return s.Dir(fmt.Sprintf("d%d/data", n)) }

	// ---- prelude: one constructed representative per class
	s.TmpInDstDir()
	db := filepath.Join(dir(), dataFilename)
	s.Case("first-save", db, nil, []string{"dhcpd", "dst-absent", "tmp-in-dstdir", "bytes"}, func(c *verifc14.Case) {
		srv := c14Server(t, db, 2, 4, 1)
		c14Store(t, c, "dbStore", srv)
	})
	s.Case("replace", db, nil, []string{"dhcpd", "dst-present", "tmp-in-dstdir", "bytes"}, func(c *verifc14.Case) {
		srv := c14Server(t, db, 3, 6, 2)
		c14Store(t, c, "dbStore", srv)
	})
	s.TmpShared()
	s.Case("replace-tmpdir", db, nil, []string{"dhcpd", "dst-present", "tmp-in-tmpdir", "bytes"}, func(c *verifc14.Case) {
		srv := c14Server(t, db, 1, 6, 3)
		c14Store(t, c, "dbStore", srv)
	})
	s.Case("no-leases", db, nil, []string{"dhcpd", "dst-present", "tmp-in-tmpdir", "bytes", "empty-table"}, func(c *verifc14.Case) {
		srv := c14Server(t, db, 0, 0, 4)
		c14Store(t, c, "dbStore", srv)
	})
	s.TmpInDstDir()
	s.Case("successive", db, nil, []string{"dhcpd", "dst-present", "tmp-in-dstdir", "multi-save"}, func(c *verifc14.Case) {
		srv := c14Server(t, db, 1, 5, 5)
		for k := 0; k < 6; k++ {
			c14Store(t, c, fmt.Sprintf("dbStore-%d", k), srv)
			c14AddLeases(t, srv, 1+k*40, 40, 20+k, 5)
		}
	})
	// two goroutines storing at the same time (in production: the v4 and the v6
	// server both call onNotify -> dbStore, which takes no lock): interleaved
	// rename-based saves must still only ever publish complete versions
	dbc := filepath.Join(dir(), dataFilename)
	s.Case("concurrent-stores", dbc, nil, []string{"dhcpd", "dst-absent", "tmp-in-dstdir", "bytes"}, func(c *verifc14.Case) {
		a, b := c14Server(t, dbc, 2, 5, 21), c14Server(t, dbc, 3, 7, 22)
		for k := 0; k < 4; k++ {
			c.SaveConcurrent(fmt.Sprintf("pair-%d", k), []verifc14.Job{
				{Want: c14Expected(t, a), F: a.dbStore}, {Want: c14Expected(t, b), F: b.dbStore},
			})
		}
	})
	s.TmpShared()
	s.Case("concurrent-stores-big", db, nil, []string{"dhcpd", "dst-present", "tmp-in-tmpdir"}, func(c *verifc14.Case) {
		srvs := []*server{c14Server(t, db, 900, 120, 23), c14Server(t, db, 500, 200, 24), c14Server(t, db, 1300, 60, 25)}
		for k := 0; k < 3; k++ {
			var jobs []verifc14.Job
			for _, sv := range srvs {
				jobs = append(jobs, verifc14.Job{Want: c14Expected(t, sv), F: sv.dbStore})
			}
			c.SaveConcurrent(fmt.Sprintf("triple-%d", k), jobs)
		}
	})
	s.TmpInDstDir()
	// migration of the old leases.db: writeDB(data/leases.json) then the old file is removed
	{
		work := s.Dir("mig")
		data := s.Dir("mig/data")
		old := []*leaseJSON{{HWAddr: []byte{1, 2, 3, 4, 5, 6}, IP: []byte{10, 0, 0, 9}, Hostname: "old", Expiry: 1900000000}}
		b, _ := json.Marshal(old)
		if err := os.WriteFile(filepath.Join(work, dbFilename), b, 0o644); err != nil {
			t.Fatal(err)
		}
		dst := filepath.Join(data, dataFilename)
		s.Case("migrate-db", dst, nil, []string{"dhcpd", "dst-absent", "tmp-in-dstdir", "bytes", "migrateDB"}, func(c *verifc14.Case) {
			c.Save("migrateDB", func() error { return migrateDB(&ServerConfig{WorkDir: work, DataDir: data}) })
		})
	}

	// ---- sizes
	sizes := []int{1 << 10, 64 << 10, 1 << 20}
	if s.Tier == "thorough" {
		sizes = append(sizes, 8<<20, 32<<20)
	}
	for _, sz := range sizes {
		db := filepath.Join(dir(), dataFilename)
		per := 300
		cnt := sz/per + 1
		s.Case(fmt.Sprintf("size-%d", sz), db, nil, []string{"dhcpd", "tmp-in-dstdir", "multi-save", fmt.Sprintf("size>=%dKiB", sz>>10)}, func(c *verifc14.Case) {
			srv := c14Server(t, db, cnt, 200, 6)
			c14Store(t, c, "dbStore-big", srv)
			c.Info["leases"] = cnt
			srv2 := c14Server(t, db, cnt/2+1, 200, 7)
			c14Store(t, c, "dbStore-half", srv2)
			c14Store(t, c, "dbStore-big-again", srv)
		})
	}

	// ---- random histories
	for k := 0; k < s.Scale(12, 60); k++ {
		db := filepath.Join(dir(), dataFilename)
		cls := []string{"dhcpd", "random"}
		if r.Bool() {
			s.TmpShared()
			cls = append(cls, "tmp-in-tmpdir")
		} else {
			s.TmpInDstDir()
			cls = append(cls, "tmp-in-dstdir")
		}
		saves := 1 + r.Intn(5)
		if saves > 1 {
			cls = append(cls, "multi-save")
		}
		small := r.Chance(1, 2)
		if small {
			cls = append(cls, "bytes")
		}
		s.Case(fmt.Sprintf("random-%d", k), db, nil, cls, func(c *verifc14.Case) {
			for j := 0; j < saves; j++ {
				cnt, hl := r.Intn(4), r.Intn(30)
				if !small {
					cnt, hl = r.Intn(s.Scale(3000, 30000)), r.Intn(250)
				}
				srv := c14Server(t, db, cnt, hl, uint64(j))
				c14Store(t, c, fmt.Sprintf("dbStore-%d(%d leases)", j, cnt), srv)
			}
		})
	}
}

//go:build verif

package dhcpd

import (
	"encoding/json"
	"fmt"
	"net"
	"net/netip"
	"os"
	"path/filepath"
	"sort"
	"strings"
	"testing"
	"time"

	"github.com/AdguardTeam/AdGuardHome/internal/dhcpsvc"
	"github.com/AdguardTeam/AdGuardHome/internal/verifc14"
)

// c14Server builds a real server with a v4 server over 10.0.0.0/8 and n
// dynamic leases whose host names are about hostLen bytes long.
func c14Server(t *testing.T, dbPath string, n, hostLen int, gen uint64) (s *server) {
	s = &server{conf: &ServerConfig{dbFilePath: dbPath}}
	srv4, err := v4Create(&V4ServerConf{
		Enabled:    true,
		RangeStart: netip.MustParseAddr("10.0.0.2"),
		RangeEnd:   netip.MustParseAddr("10.255.255.254"),
		GatewayIP:  netip.MustParseAddr("10.0.0.1"),
		SubnetMask: netip.MustParseAddr("255.0.0.0"),
		notify:     func(uint32) {},
	})
	if err != nil {
		t.Fatal(err)
	}
	s.srv4 = srv4
	c14AddLeases(t, s, 0, n, hostLen, gen)
	return s
}

func c14Lease(i, hostLen int, gen uint64) *dhcpsvc.Lease {
	host := fmt.Sprintf("h%d-g%d", i, gen)
	for len(host) < hostLen {
		lbl := strings.Repeat("x", min(50, hostLen-len(host)))
		host += "." + lbl
	}
	ip := netip.AddrFrom4([4]byte{10, byte(i >> 16), byte(i >> 8), byte(i)}).Next().Next()
	return &dhcpsvc.Lease{
		Expiry:   time.Unix(1900000000+int64(i), 0),
		Hostname: host,
		HWAddr:   net.HardwareAddr{0x02, byte(gen), byte(i >> 24), byte(i >> 16), byte(i >> 8), byte(i)},
		IP:       ip,
		IsStatic: i%7 == 0,
	}
}

func c14AddLeases(t *testing.T, s *server, from, n, hostLen int, gen uint64) {
	srv4 := s.srv4.(*v4Server)
	for i := from; i < from+n; i++ {
		if err := srv4.addLease(c14Lease(i, hostLen, gen)); err != nil {
			t.Fatalf("addLease %d: %v", i, err)
		}
	}
}

// c14Expected states what dbStore must leave on disk for this server,
// without going through the file system: the lease table as JSON, sorted by
// host name (host names are unique here, so the order is determined).
func c14Expected(t *testing.T, s *server) []byte {
	leases := []*dbLease{}
	for _, l := range s.srv4.getLeasesRef() {
		leases = append(leases, fromLease(l))
	}
	sort.SliceStable(leases, func(i, j int) bool { return leases[i].Hostname < leases[j].Hostname })
	b, err := json.Marshal(&dataLeases{Version: dataVersion, Leases: leases})
	if err != nil {
		t.Fatal(err)
	}
	return b
}

// c14Store is one dbStore with the intended content stated first.
func c14Store(t *testing.T, c *verifc14.Case, label string, srv *server) {
	c.Want(c14Expected(t, srv))
	c.Kind = "writefile"
	c.Save(label, srv.dbStore)
}

// c14ServerExact builds a server whose lease table serialises to EXACTLY size
// bytes (size >= 400): numbered leases (h0-g.., h1-g..) with host names of
// about 100 bytes, the last host name stretched or shortened to fit.
func c14ServerExact(t *testing.T, dbPath string, size int, gen uint64) (s *server, n int) {
	s = c14Server(t, dbPath, 0, 0, gen)
	jsonLen := func(i, hostLen int) int {
		b, err := json.Marshal(fromLease(c14Lease(i, hostLen, gen)))
		if err != nil {
			t.Fatal(err)
		}
		return len(b)
	}
	cur := len(c14Expected(t, s)) // the empty table
	sep := func() int {
		if n > 0 {
			return 1
		}
		return 0
	}
	for cur+350 < size {
		cur += jsonLen(n, 100) + sep()
		c14AddLeases(t, s, n, 1, 100, gen)
		n++
	}
	hl := 12 + (size - cur - sep() - jsonLen(n, 12))
	if hl < 12 || hl > 250 {
		t.Fatalf("c14ServerExact(%d): no host name length fits the last lease (%d)", size, hl)
	}
	c14AddLeases(t, s, n, 1, hl, gen)
	n++
	if got := len(c14Expected(t, s)); got != size {
		t.Fatalf("c14ServerExact(%d): built %d bytes", size, got)
	}
	return s, n
}

// c14OldDB writes a legacy leases.db with n leases into work and returns what
// its migration must leave in leases.json, stated without the code under test.
func c14OldDB(t *testing.T, work string, n int) (want []byte) {
	old := []*leaseJSON{}
	leases := []*dbLease{}
	for i := 0; i < n; i++ {
		host := fmt.Sprintf("old%03d", i)
		old = append(old, &leaseJSON{HWAddr: []byte{1, 2, 3, 4, 5, byte(i)}, IP: []byte{10, 0, 0, byte(9 + i)}, Hostname: host, Expiry: 1900000000 + int64(i)})
		leases = append(leases, &dbLease{
			Expiry:   time.Unix(1900000000+int64(i), 0).Format(time.RFC3339),
			Hostname: host,
			HWAddr:   net.HardwareAddr{1, 2, 3, 4, 5, byte(i)}.String(),
			IP:       netip.AddrFrom4([4]byte{10, 0, 0, byte(9 + i)}),
		})
	}
	b, _ := json.Marshal(old)
	if err := os.WriteFile(filepath.Join(work, dbFilename), b, 0o644); err != nil {
		t.Fatal(err)
	}
	want, err := json.Marshal(&dataLeases{Version: dataVersion, Leases: leases})
	if err != nil {
		t.Fatal(err)
	}
	return want
}

func TestVerifC14(t *testing.T) {
	s := verifc14.Start(t, "dhcpd")
	if s == nil {
		return
	}
	r := vfNewRand(s.Seed)
	n := 0
	dir := func() string { n++; return s.Dir(fmt.Sprintf("d%d/data", n)) }

	if s.Inject != "" {
		// ---- every fsync (resp. every rename) of the process fails: dbStore must
		// report the error and leave leases.json as it was (put there directly:
		// no save can succeed in this run)
		for i, present := range []bool{true, false, true} {
			db := filepath.Join(dir(), dataFilename)
			cls := []string{"dhcpd", "failed-save", "fail-" + s.Inject}
			if present {
				if err := os.WriteFile(db, []byte(`{"version":1,"leases":[]}`), 0o644); err != nil {
					t.Fatal(err)
				}
				cls = append(cls, "dst-present")
			} else {
				cls = append(cls, "dst-absent")
			}
			if i == 2 {
				s.TmpShared()
				cls = append(cls, "tmp-in-tmpdir")
			} else {
				s.TmpInDstDir()
				cls = append(cls, "tmp-in-dstdir")
			}
			s.Case(fmt.Sprintf("inject-%s-%d", s.Inject, i), db, nil, cls, func(c *verifc14.Case) {
				srv := c14Server(t, db, 2+300*i, 30, uint64(70+i))
				c.Kind = "writefile"
				c.SaveInjected("dbStore", srv.dbStore)
			})
		}
		// ... and the migration of the legacy database: the write of leases.json
		// fails at its fsync resp. rename, the legacy leases.db must stay
		s.TmpInDstDir()
		for i, n := range []int{2, 40} {
			work := s.Dir(fmt.Sprintf("imig%d", i))
			data := s.Dir(fmt.Sprintf("imig%d/data", i))
			want := c14OldDB(t, work, n)
			s.Case(fmt.Sprintf("inject-%s-migrate-%d", s.Inject, i), filepath.Join(data, dataFilename), nil,
				[]string{"dhcpd", "failed-save", "fail-" + s.Inject, "dst-absent", "tmp-in-dstdir", "migrateDB", "upgrade-on-start"}, func(c *verifc14.Case) {
					c.SaveMigrate("migrateDB", filepath.Join(work, dbFilename), verifc14.MigPresent, "", 0, want, func() error {
						return migrateDB(&ServerConfig{WorkDir: work, DataDir: data})
					})
				})
		}
		return
	}

	// ---- prelude: one constructed representative per class
	s.TmpInDstDir()
	db := filepath.Join(dir(), dataFilename)
	s.Case("first-save", db, nil, []string{"dhcpd", "dst-absent", "tmp-in-dstdir", "bytes"}, func(c *verifc14.Case) {
		srv := c14Server(t, db, 2, 4, 1)
		c14Store(t, c, "dbStore", srv)
	})
	s.Case("replace", db, nil, []string{"dhcpd", "dst-present", "tmp-in-dstdir", "bytes"}, func(c *verifc14.Case) {
		srv := c14Server(t, db, 3, 6, 2)
		c14Store(t, c, "dbStore", srv)
	})
	s.TmpShared()
	s.Case("replace-tmpdir", db, nil, []string{"dhcpd", "dst-present", "tmp-in-tmpdir", "bytes"}, func(c *verifc14.Case) {
		srv := c14Server(t, db, 1, 6, 3)
		c14Store(t, c, "dbStore", srv)
	})
	s.Case("no-leases", db, nil, []string{"dhcpd", "dst-present", "tmp-in-tmpdir", "bytes", "empty-table"}, func(c *verifc14.Case) {
		srv := c14Server(t, db, 0, 0, 4)
		c14Store(t, c, "dbStore", srv)
	})
	s.TmpInDstDir()
	s.Case("successive", db, nil, []string{"dhcpd", "dst-present", "tmp-in-dstdir", "multi-save"}, func(c *verifc14.Case) {
		srv := c14Server(t, db, 1, 5, 5)
		for k := 0; k < 6; k++ {
			c14Store(t, c, fmt.Sprintf("dbStore-%d", k), srv)
			c14AddLeases(t, srv, 1+k*40, 40, 20+k, 5)
		}
	})
	// several goroutines storing at the same time (in production: the v4 server,
	// the v6 server and the HTTP handlers for static leases each hold only their
	// own lock around onNotify -> dbStore, which takes none): every save needs
	// a temporary file of its own; interleaved saves must still only ever
	// publish complete versions.  Writers have distinct table sizes, so a file
	// assembled from two saves cannot pass for one of the intended versions.
	dbc := filepath.Join(dir(), dataFilename)
	s.Case("concurrent-stores", dbc, nil, []string{"dhcpd", "dst-absent", "tmp-in-dstdir", "bytes"}, func(c *verifc14.Case) {
		a, b := c14Server(t, dbc, 2, 5, 21), c14Server(t, dbc, 3, 7, 22)
		for k := 0; k < 4; k++ {
			c.SaveConcurrent(fmt.Sprintf("pair-%d", k), []verifc14.Job{
				{Want: c14Expected(t, a), F: a.dbStore}, {Want: c14Expected(t, b), F: b.dbStore},
			})
		}
	})
	s.TmpShared()
	s.Case("concurrent-stores-big", db, nil, []string{"dhcpd", "dst-present", "tmp-in-tmpdir"}, func(c *verifc14.Case) {
		srvs := []*server{c14Server(t, db, 900, 120, 23), c14Server(t, db, 500, 200, 24), c14Server(t, db, 1300, 60, 25),
			c14Server(t, db, 40, 30, 26)}
		for k := 0; k < s.Scale(4, 12); k++ {
			var jobs []verifc14.Job
			for _, sv := range srvs {
				jobs = append(jobs, verifc14.Job{Want: c14Expected(t, sv), F: sv.dbStore})
			}
			c.SaveConcurrent(fmt.Sprintf("quad-%d", k), jobs)
		}
	})
	s.TmpInDstDir()
	// the production shape of the same thing: ONE server object, the store is
	// requested through onNotify by several goroutines at once (error swallowed
	// there, so only the file and the trace can tell)
	dbn := filepath.Join(dir(), dataFilename)
	s.Case("concurrent-onNotify", dbn, nil, []string{"dhcpd", "dst-absent", "tmp-in-dstdir", "onNotify"}, func(c *verifc14.Case) {
		srv := c14Server(t, dbn, 700, 90, 27)
		srv.onLeaseChanged = nil
		want := c14Expected(t, srv)
		for k := 0; k < s.Scale(3, 10); k++ {
			var jobs []verifc14.Job
			for w := 0; w < 4; w++ {
				jobs = append(jobs, verifc14.Job{Want: want, F: func() error { srv.onNotify(LeaseChangedDBStore); return nil }})
			}
			c.SaveConcurrent(fmt.Sprintf("notify-%d", k), jobs)
		}
	})
	// migration of the old leases.db (what runs at every start, in Create):
	// writeDB(data/leases.json), then, only if that succeeded, the old file is
	// removed.  The lease data live in two paths: every call goes through
	// SaveMigrate (monitor on BOTH paths; described to the migration model).
	oldDB := func(work string, n int) (want []byte) { return c14OldDB(t, work, n) }
	nm := 0
	migDirs := func() (work, data, dst string) {
		nm++
		work = s.Dir(fmt.Sprintf("mig%d", nm))
		data = s.Dir(fmt.Sprintf("mig%d/data", nm))
		return work, data, filepath.Join(data, dataFilename)
	}
	mig := func(work, data string) func() error {
		return func() error { return migrateDB(&ServerConfig{WorkDir: work, DataDir: data}) }
	}
	migCls := func(extra ...string) []string {
		return append([]string{"dhcpd", "tmp-in-dstdir", "migrateDB", "upgrade-on-start"}, extra...)
	}
	{
		work, data, dst := migDirs()
		legacy := filepath.Join(work, dbFilename)
		want := oldDB(work, 1)
		s.Case("migrate-db", dst, nil, migCls("dst-absent", "bytes"), func(c *verifc14.Case) {
			c.SaveMigrate("migrateDB", legacy, verifc14.MigPresent, "", 0, want, mig(work, data))
			// the next start finds nothing to migrate
			c.SaveMigrate("migrateDB-again", legacy, verifc14.MigAbsent, "", 0, nil, mig(work, data))
		})
		// start-up with BOTH files present (an earlier start was interrupted
		// between the write and the removal): leases.json is replaced, atomically
		want = oldDB(work, 2)
		s.Case("migrate-db-present", dst, nil, migCls("dst-present", "bytes"), func(c *verifc14.Case) {
			c.SaveMigrate("migrateDB", legacy, verifc14.MigPresent, "", 0, want, mig(work, data))
		})
		// start-up as a whole: migrate, load what was migrated, first store
		want = oldDB(work, 3)
		s.Case("start-up", dst, nil, migCls("dst-present", "multi-save"), func(c *verifc14.Case) {
			c.SaveMigrate("migrateDB", legacy, verifc14.MigPresent, "", 0, want, mig(work, data))
			srv := c14Server(t, dst, 0, 0, 30)
			if err := srv.dbLoad(); err != nil {
				t.Errorf("start-up: dbLoad: %v", err)
			}
			if n := len(srv.srv4.getLeasesRef()); n != 3 {
				c.Fail("dbLoad after the migration found %d leases, want 3", n)
			}
			c14AddLeases(t, srv, 100, 5, 12, 30)
			c14Store(t, c, "dbStore-after-load", srv)
		})
	}
	// legacy files there is nothing to take from: an empty table (migrated: an
	// empty leases.json), "null" (no table: nothing to do, the file stays), not
	// JSON (error, the file stays), no descriptor to open it with (error)
	for _, sc := range []struct {
		name    string
		content string
		state   int
		fault   string
	}{
		{"migrate-empty-table", "[]", verifc14.MigPresent, ""},
		{"migrate-null", "null", verifc14.MigNull, ""},
		{"migrate-garbage", "{\"leases\": 1", verifc14.MigGarbage, ""},
		{"migrate-legacy-unreadable", "", verifc14.MigUnreadable, "nofile"},
	} {
		work, data, dst := migDirs()
		legacy := filepath.Join(work, dbFilename)
		var want, want4 []byte
		if sc.content == "" {
			want4 = oldDB(work, 4)
		} else {
			if err := os.WriteFile(legacy, []byte(sc.content), 0o644); err != nil {
				t.Fatal(err)
			}
			want, _ = json.Marshal(&dataLeases{Version: dataVersion, Leases: []*dbLease{}})
		}
		s.Case(sc.name, dst, nil, migCls("dst-absent", "bytes"), func(c *verifc14.Case) {
			c.SaveMigrate("migrateDB", legacy, sc.state, sc.fault, 0, want, mig(work, data))
			if sc.state == verifc14.MigUnreadable {
				// ... and with descriptors again the same start migrates
				c.SaveMigrate("migrateDB-retry", legacy, verifc14.MigPresent, "", 0, want4, mig(work, data))
			}
		})
	}
	// the data directory is not there when the migration runs (home.run calls
	// dhcpd.Create before it creates the data directory), resp. is a regular
	// file: the temporary file cannot be created, the legacy database must
	// stay; the next start, with the directory in place, migrates it.  Once
	// through migrateDB, once through the constructor the program calls.
	for i, viaCreate := range []bool{false, true} {
		nm++
		work := s.Dir(fmt.Sprintf("mig%d", nm))
		data := filepath.Join(work, "data")
		dst := filepath.Join(data, dataFilename)
		legacy := filepath.Join(work, dbFilename)
		want := oldDB(work, 2+30*i)
		name, what := "fail-migrate-no-data-dir", "missing"
		if viaCreate {
			name, what = "fail-migrate-data-dir-is-file", "a regular file"
			// made before the case begins: not an operation of the save
			if err := os.WriteFile(data, nil, 0o644); err != nil {
				t.Fatal(err)
			}
		}
		run := mig(work, data)
		if viaCreate {
			run = func() error {
				_, err := Create(&ServerConfig{WorkDir: work, DataDir: data, ConfigModified: func() {}})
				return err
			}
		}
		s.Case(name, dst, nil, migCls("dst-absent", "failed-save", "fail-open", "fail-no-data-dir"), func(c *verifc14.Case) {
			c.Info["data_dir"] = what
			c.SaveMigrate("migrateDB-no-dir", legacy, verifc14.MigPresent, "nodir", 0, want, run)
		})
		if viaCreate {
			if err := os.Remove(data); err != nil {
				t.Fatal(err)
			}
		}
		if err := os.MkdirAll(data, 0o755); err != nil {
			t.Fatal(err)
		}
		s.Case(name+"-retry", dst, nil, migCls("dst-absent"), func(c *verifc14.Case) {
			c.SaveMigrate("migrateDB-retry", legacy, verifc14.MigPresent, "", 0, want, run)
		})
	}

	// ---- injected write failures (RLIMIT_FSIZE: the write is cut short, then
	// EFBIG, as with a full disk): leases.json must be byte-identical afterwards
	for i, sc := range []struct {
		name    string
		present bool
		n       int
		limit   func(size int) uint64
		shared  bool
	}{
		{"fail-first-write-absent", false, 3, func(int) uint64 { return 0 }, false},
		{"fail-first-write-present", true, 3, func(int) uint64 { return 0 }, false},
		{"fail-mid-write-present", true, 400, func(sz int) uint64 { return uint64(sz / 2) }, false},
		{"fail-last-byte-present", true, 50, func(sz int) uint64 { return uint64(sz - 1) }, true},
		{"fail-mid-write-absent", false, 400, func(sz int) uint64 { return uint64(sz / 3) }, true},
	} {
		db := filepath.Join(dir(), dataFilename)
		cls := []string{"dhcpd", "failed-save"}
		if sc.shared {
			s.TmpShared()
			cls = append(cls, "tmp-in-tmpdir")
		} else {
			s.TmpInDstDir()
			cls = append(cls, "tmp-in-dstdir")
		}
		if sc.present {
			if err := c14Server(t, db, 2, 6, uint64(40+i)).dbStore(); err != nil {
				t.Fatal(err)
			}
			cls = append(cls, "dst-present")
		} else {
			cls = append(cls, "dst-absent")
		}
		s.Case(sc.name, db, nil, cls, func(c *verifc14.Case) {
			srv := c14Server(t, db, sc.n, 40, uint64(50+i))
			want := c14Expected(t, srv)
			lim := sc.limit(len(want))
			c.Info["limit"], c.Info["size"] = lim, len(want)
			if err := c.SaveLimited("dbStore-limited", lim, srv.dbStore); err == nil {
				c.Fail("dbStore of %d bytes under a file size limit of %d reported success", len(want), lim)
			}
			// ... and the next save, with room again, goes through
			c14Store(t, c, "dbStore-after-failure", srv)
		})
	}
	s.TmpInDstDir()
	for i, sc := range []struct {
		name    string
		present bool
		n       int
		limit   func(size int) uint64
	}{
		{"fail-migrate-absent", false, 30, func(sz int) uint64 { return uint64(sz / 2) }},
		{"fail-migrate-present", true, 30, func(sz int) uint64 { return uint64(sz / 2) }},
		{"fail-migrate-first-write", false, 3, func(int) uint64 { return 0 }},
		{"fail-migrate-last-byte", true, 12, func(sz int) uint64 { return uint64(sz - 1) }},
	} {
		work, data, dst := migDirs()
		legacy := filepath.Join(work, dbFilename)
		want := oldDB(work, sc.n)
		cls := migCls("failed-save")
		if sc.present {
			if err := c14Server(t, dst, 2, 6, uint64(60+i)).dbStore(); err != nil {
				t.Fatal(err)
			}
			cls = append(cls, "dst-present")
		} else {
			cls = append(cls, "dst-absent")
		}
		s.Case(sc.name, dst, nil, cls, func(c *verifc14.Case) {
			lim := sc.limit(len(want))
			c.Info["limit"], c.Info["size"] = lim, len(want)
			c.SaveMigrate("migrateDB-limited", legacy, verifc14.MigPresent, "limit", lim, want, mig(work, data))
			c.SaveMigrate("migrateDB-retry", legacy, verifc14.MigPresent, "", 0, want, mig(work, data))
		})
	}
	// random migrations: table size, what is at the destination, the fault
	for k := 0; k < s.Scale(6, 40); k++ {
		rr := r.Fork(uint64(9000 + k))
		work, data, dst := migDirs()
		legacy := filepath.Join(work, dbFilename)
		n := rr.Intn(60)
		if rr.Chance(1, 3) {
			n = rr.Intn(4)
		}
		want := oldDB(work, n)
		cls := []string{"dhcpd", "migrateDB", "upgrade-on-start", "random"}
		if rr.Bool() {
			s.TmpShared()
			cls = append(cls, "tmp-in-tmpdir")
		} else {
			s.TmpInDstDir()
			cls = append(cls, "tmp-in-dstdir")
		}
		if rr.Bool() {
			if err := c14Server(t, dst, 1+rr.Intn(3), 6, uint64(100+k)).dbStore(); err != nil {
				t.Fatal(err)
			}
			cls = append(cls, "dst-present")
		} else {
			cls = append(cls, "dst-absent")
		}
		fault, lim := "", uint64(0)
		switch rr.Intn(4) {
		case 0:
			fault, lim = "limit", uint64(rr.Intn(len(want)))
			cls = append(cls, "failed-save")
		case 1:
			fault = "nofile"
			cls = append(cls, "failed-save")
		}
		s.Case(fmt.Sprintf("random-migrate-%d", k), dst, nil, cls, func(c *verifc14.Case) {
			c.Info["leases"], c.Info["fault"], c.Info["limit"] = n, fault, lim
			if fault != "" {
				st := verifc14.MigPresent
				if fault == "nofile" {
					st = verifc14.MigUnreadable
				}
				c.SaveMigrate("migrateDB-"+fault, legacy, st, fault, lim, want, mig(work, data))
			}
			c.SaveMigrate("migrateDB", legacy, verifc14.MigPresent, "", 0, want, mig(work, data))
		})
	}
	s.TmpInDstDir()

	// ---- creation of the temporary file fails (no descriptor to be had: EMFILE)
	for i, present := range []bool{true, false} {
		db := filepath.Join(dir(), dataFilename)
		cls := []string{"dhcpd", "failed-save", "tmp-in-dstdir"}
		if present {
			if err := c14Server(t, db, 2, 6, uint64(80+i)).dbStore(); err != nil {
				t.Fatal(err)
			}
			cls = append(cls, "dst-present")
		} else {
			cls = append(cls, "dst-absent")
		}
		s.Case(fmt.Sprintf("fail-open-%d", i), db, nil, cls, func(c *verifc14.Case) {
			srv := c14Server(t, db, 3+40*i, 40, uint64(82+i))
			c.Kind = "writefile"
			c.SaveNoFile("dbStore-nofile", srv.dbStore)
			c14Store(t, c, "dbStore-after-failure", srv)
		})
	}

	// ---- exact content sizes (the lease table serialises to exactly this many
	// bytes), replacing a small table: the file must be the whole serialisation
	exact := []int{4095, 4096, 4097, 65535, 65536, 65537, 1600000}
	if s.Tier == "thorough" {
		exact = append(exact, 16<<20-1, 16<<20, 16<<20+1, 32<<20-1, 32<<20, 32<<20+1, 40<<20)
	}
	for _, sz := range exact {
		db := filepath.Join(dir(), dataFilename)
		if err := c14Server(t, db, 2, 6, 90).dbStore(); err != nil {
			t.Fatal(err)
		}
		s.Case(fmt.Sprintf("exact-size-%d", sz), db, nil, []string{"dhcpd", "dst-present", "tmp-in-dstdir", "exact-size", fmt.Sprintf("size>=%dKiB", sz>>10)}, func(c *verifc14.Case) {
			srv, cnt := c14ServerExact(t, db, sz, 91)
			c.Info["leases"], c.Info["bytes"] = cnt, sz
			c14Store(t, c, "dbStore-exact", srv)
			// judged from the file alone: it parses, and holds every lease from h0 to the last
			b, err := os.ReadFile(db)
			var dl dataLeases
			if err == nil {
				err = json.Unmarshal(b, &dl)
			}
			if err != nil || len(b) != sz || len(dl.Leases) != cnt {
				c.Fail("dbStore of %d leases (%d bytes) reported success but %s holds %d bytes, %d leases (%v): neither the previous nor the complete new version",
					cnt, sz, dataFilename, len(b), len(dl.Leases), err)
			}
		})
	}

	// ---- sizes
	sizes := []int{1 << 10, 64 << 10, 1 << 20}
	if s.Tier == "thorough" {
		sizes = append(sizes, 8<<20, 32<<20)
	}
	for _, sz := range sizes {
		db := filepath.Join(dir(), dataFilename)
		per := 300
		cnt := sz/per + 1
		s.Case(fmt.Sprintf("size-%d", sz), db, nil, []string{"dhcpd", "tmp-in-dstdir", "multi-save", fmt.Sprintf("size>=%dKiB", sz>>10)}, func(c *verifc14.Case) {
			srv := c14Server(t, db, cnt, 200, 6)
			c14Store(t, c, "dbStore-big", srv)
			c.Info["leases"] = cnt
			srv2 := c14Server(t, db, cnt/2+1, 200, 7)
			c14Store(t, c, "dbStore-half", srv2)
			c14Store(t, c, "dbStore-big-again", srv)
		})
	}

	// ---- random histories
	for k := 0; k < s.Scale(12, 60); k++ {
		db := filepath.Join(dir(), dataFilename)
		cls := []string{"dhcpd", "random"}
		if r.Bool() {
			s.TmpShared()
			cls = append(cls, "tmp-in-tmpdir")
		} else {
			s.TmpInDstDir()
			cls = append(cls, "tmp-in-dstdir")
		}
		saves := 1 + r.Intn(5)
		if saves > 1 {
			cls = append(cls, "multi-save")
		}
		small := r.Chance(1, 2)
		if small {
			cls = append(cls, "bytes")
		}
		s.Case(fmt.Sprintf("random-%d", k), db, nil, cls, func(c *verifc14.Case) {
			for j := 0; j < saves; j++ {
				cnt, hl := r.Intn(4), r.Intn(30)
				if !small {
					cnt, hl = r.Intn(s.Scale(3000, 30000)), r.Intn(250)
				}
				srv := c14Server(t, db, cnt, hl, uint64(j))
				c14Store(t, c, fmt.Sprintf("dbStore-%d(%d leases)", j, cnt), srv)
			}
		})
	}
}

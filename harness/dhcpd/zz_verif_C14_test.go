//go:build verif

package dhcpd

import (
	"encoding/json"
	"fmt"
	"net"
	"net/netip"
	"os"
	"path/filepath"
	"strings"
	"testing"
	"time"

	"github.com/AdguardTeam/AdGuardHome/internal/dhcpsvc"
	"github.com/AdguardTeam/AdGuardHome/internal/verifc14"
)

// c14Server builds a real server with a v4 server over 10.0.0.0/8 and n
// dynamic leases whose host names are about hostLen bytes long.
func c14Server(t *testing.T, dbPath string, n, hostLen int, gen uint64) (s *server) {
	s = &server{conf: &ServerConfig{dbFilePath: dbPath}}
	srv4, err := v4Create(&V4ServerConf{
		Enabled:    true,
		RangeStart: netip.MustParseAddr("10.0.0.2"),
		RangeEnd:   netip.MustParseAddr("10.255.255.254"),
		GatewayIP:  netip.MustParseAddr("10.0.0.1"),
		SubnetMask: netip.MustParseAddr("255.0.0.0"),
		notify:     func(uint32) {},
	})
	if err != nil {
		t.Fatal(err)
	}
	s.srv4 = srv4
	c14AddLeases(t, s, 0, n, hostLen, gen)
	return s
}

func c14AddLeases(t *testing.T, s *server, from, n, hostLen int, gen uint64) {
	srv4 := s.srv4.(*v4Server)
	for i := from; i < from+n; i++ {
		host := fmt.Sprintf("h%d-g%d", i, gen)
		for len(host) < hostLen {
			lbl := strings.Repeat("x", min(50, hostLen-len(host)))
			host += "." + lbl
		}
		ip := netip.AddrFrom4([4]byte{10, byte(i >> 16), byte(i >> 8), byte(i)}).Next().Next()
		l := &dhcpsvc.Lease{
			Expiry:   time.Unix(1900000000+int64(i), 0),
			Hostname: host,
			HWAddr:   net.HardwareAddr{0x02, byte(gen), byte(i >> 24), byte(i >> 16), byte(i >> 8), byte(i)},
			IP:       ip,
			IsStatic: i%7 == 0,
		}
		if err := srv4.addLease(l); err != nil {
			t.Fatalf("addLease %d: %v", i, err)
		}
	}
}

func TestVerifC14(t *testing.T) {
	s := verifc14.Start(t, "dhcpd")
	if s == nil {
		return
	}
	r := vfNewRand(s.Seed)
	n := 0
	dir := func() string { n++; return s.Dir(fmt.Sprintf("d%d/data", n)) }

	// ---- prelude: one constructed representative per class
	s.TmpInDstDir()
	db := filepath.Join(dir(), dataFilename)
	s.Case("first-save", db, nil, []string{"dhcpd", "dst-absent", "tmp-in-dstdir", "bytes"}, func(c *verifc14.Case) {
		srv := c14Server(t, db, 2, 4, 1)
		c.Save("dbStore", srv.dbStore)
	})
	s.Case("replace", db, nil, []string{"dhcpd", "dst-present", "tmp-in-dstdir", "bytes"}, func(c *verifc14.Case) {
		srv := c14Server(t, db, 3, 6, 2)
		c.Save("dbStore", srv.dbStore)
	})
	s.TmpShared()
	s.Case("replace-tmpdir", db, nil, []string{"dhcpd", "dst-present", "tmp-in-tmpdir", "bytes"}, func(c *verifc14.Case) {
		srv := c14Server(t, db, 1, 6, 3)
		c.Save("dbStore", srv.dbStore)
	})
	s.Case("no-leases", db, nil, []string{"dhcpd", "dst-present", "tmp-in-tmpdir", "bytes", "empty-table"}, func(c *verifc14.Case) {
		srv := c14Server(t, db, 0, 0, 4)
		c.Save("dbStore", srv.dbStore)
	})
	s.TmpInDstDir()
	s.Case("successive", db, nil, []string{"dhcpd", "dst-present", "tmp-in-dstdir", "multi-save"}, func(c *verifc14.Case) {
		srv := c14Server(t, db, 1, 5, 5)
		for k := 0; k < 6; k++ {
			c.Save(fmt.Sprintf("dbStore-%d", k), srv.dbStore)
			c14AddLeases(t, srv, 1+k*40, 40, 20+k, 5)
		}
	})
	// migration of the old leases.db: writeDB(data/leases.json) then the old file is removed
	{
		work := s.Dir("mig")
		data := s.Dir("mig/data")
		old := []*leaseJSON{{HWAddr: []byte{1, 2, 3, 4, 5, 6}, IP: []byte{10, 0, 0, 9}, Hostname: "old", Expiry: 1900000000}}
		b, _ := json.Marshal(old)
		if err := os.WriteFile(filepath.Join(work, dbFilename), b, 0o644); err != nil {
			t.Fatal(err)
		}
		dst := filepath.Join(data, dataFilename)
		s.Case("migrate-db", dst, nil, []string{"dhcpd", "dst-absent", "tmp-in-dstdir", "bytes", "migrateDB"}, func(c *verifc14.Case) {
			c.Save("migrateDB", func() error { return migrateDB(&ServerConfig{WorkDir: work, DataDir: data}) })
		})
	}

	// ---- sizes
	sizes := []int{1 << 10, 64 << 10, 1 << 20}
	if s.Tier == "thorough" {
		sizes = append(sizes, 8<<20, 32<<20)
	}
	for _, sz := range sizes {
		db := filepath.Join(dir(), dataFilename)
		per := 300
		cnt := sz/per + 1
		s.Case(fmt.Sprintf("size-%d", sz), db, nil, []string{"dhcpd", "tmp-in-dstdir", "multi-save", fmt.Sprintf("size>=%dKiB", sz>>10)}, func(c *verifc14.Case) {
			srv := c14Server(t, db, cnt, 200, 6)
			c.Save("dbStore-big", srv.dbStore)
			c.Info["leases"] = cnt
			srv2 := c14Server(t, db, cnt/2+1, 200, 7)
			c.Save("dbStore-half", srv2.dbStore)
			c.Save("dbStore-big-again", srv.dbStore)
		})
	}

	// ---- random histories
	for k := 0; k < s.Scale(12, 60); k++ {
		db := filepath.Join(dir(), dataFilename)
		cls := []string{"dhcpd", "random"}
		if r.Bool() {
			s.TmpShared()
			cls = append(cls, "tmp-in-tmpdir")
		} else {
			s.TmpInDstDir()
			cls = append(cls, "tmp-in-dstdir")
		}
		saves := 1 + r.Intn(5)
		if saves > 1 {
			cls = append(cls, "multi-save")
		}
		small := r.Chance(1, 2)
		if small {
			cls = append(cls, "bytes")
		}
		s.Case(fmt.Sprintf("random-%d", k), db, nil, cls, func(c *verifc14.Case) {
			for j := 0; j < saves; j++ {
				cnt, hl := r.Intn(4), r.Intn(30)
				if !small {
					cnt, hl = r.Intn(s.Scale(3000, 30000)), r.Intn(250)
				}
				srv := c14Server(t, db, cnt, hl, uint64(j))
				c.Save(fmt.Sprintf("dbStore-%d(%d leases)", j, cnt), srv.dbStore)
			}
		})
	}
}

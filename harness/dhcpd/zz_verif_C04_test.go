//go:build verif

package dhcpd

import (
	"context"
	"encoding/binary"
	"fmt"
	"math/big"
	"net"
	"net/netip"
	"sort"
	"strings"
	"testing"

	"github.com/AdguardTeam/AdGuardHome/internal/client"
	"github.com/AdguardTeam/AdGuardHome/internal/dhcpsvc"
	"github.com/AdguardTeam/AdGuardHome/internal/filtering"
	"github.com/AdguardTeam/AdGuardHome/internal/schedule"
	"github.com/AdguardTeam/golibs/logutil/slogutil"
	"github.com/AdguardTeam/golibs/timeutil"
)

// C04, fifth harness (round 9): the LOWEST precedence level of the
// persistent-client lookup (the MAC of the DHCP lease of the request's
// address) against the REAL DHCP server.  The real dhcpd server (v4 + v6) is
// the client.DHCP of a real client.Storage, as package home wires them.
// Histories of static-lease API calls, ACCEPTED AND REJECTED (duplicate host
// name, duplicate hardware address, duplicate address, address outside the
// subnet, the gateway's address, remove / update of a lease that is not
// there), with, after every call: accepted?, MACByIP of every probe address,
// the client ApplyClientFiltering("", a) attributes the probe to, and
// Storage.Find of the probe.  One case per history, replayed in Coq on C10's
// lease-table model composed with the registry model (Run/C04Lease.v).
//
// Monitor (independent of the model): a plain table of the leases whose calls
// were ACCEPTED is the reference: a rejected call is no lease.  MACByIP of an
// address is the hardware address of its accepted lease or nil; a request is
// attributed to the owner of its exact address, else of the most specific
// containing CIDR, else of the hardware address of the ACCEPTED lease of its
// address, else to nobody; and a rejected call changes no attribution.

const (
	c04lAdd = iota
	c04lUpdate
	c04lRemove
)

type c04lLease struct {
	mac  net.HardwareAddr
	ip   netip.Addr
	host string
}

func c04lIPNum(a netip.Addr) uint64 {
	b := a.As4()
	return uint64(binary.BigEndian.Uint32(b[:]))
}

// the lease model's coding of a hardware address: 256^len + bytes big-endian
func c04lMACNum(h net.HardwareAddr) string {
	if h == nil {
		return "0%N"
	}
	return new(big.Int).SetBytes(append([]byte{1}, h...)).String() + "%N"
}

func c04lAddr(a netip.Addr) string {
	return vfPair(vfBytes(string(a.AsSlice())), vfBytes(a.Zone()))
}

type c04lHist struct {
	srv     *server
	st      *client.Storage
	clients []*client.Persistent
	probes  []netip.Addr
	ref     map[netip.Addr]c04lLease // accepted leases by address
	steps   []string
	desc    []string
	cls     map[string]bool
	monMsg  string
	monKey  string
	prev    []string // attribution of every probe after the previous call
	nRej    int
	nOK     int
}

func c04lMAC(s string) net.HardwareAddr { m, _ := net.ParseMAC(s); return m }

var (
	c04lMACs = []net.HardwareAddr{c04lMAC("aa:aa:aa:aa:aa:01"), c04lMAC("bb:bb:bb:bb:bb:02"), c04lMAC("cc:cc:cc:cc:cc:03"),
		c04lMAC("dd:dd:dd:dd:dd:04")}
	c04lIPs = []netip.Addr{netip.MustParseAddr("192.168.10.10"), netip.MustParseAddr("192.168.10.11"),
		netip.MustParseAddr("192.168.10.12"), netip.MustParseAddr("192.168.10.13"), netip.MustParseAddr("192.168.10.21"),
		netip.MustParseAddr("192.168.10.50"), netip.MustParseAddr("192.168.10.1"), netip.MustParseAddr("192.168.11.5")}
	c04lHosts = []string{"box", "tab", "nas", "", "BOX"}
)

func c04lNew(t *testing.T) *c04lHist {
	s4, err := v4Create(defaultV4ServerConf())
	if err != nil {
		t.Fatal(err)
	}
	s6, err := v6Create(V6ServerConf{})
	if err != nil {
		t.Fatal(err)
	}
	h := &c04lHist{srv: &server{srv4: s4, srv6: s6}, ref: map[netip.Addr]c04lLease{}, cls: map[string]bool{}, probes: c04lIPs}
	mk := func(name string, own bool, ids ...string) {
		p := &client.Persistent{Name: name, UID: client.MustNewUID(), UseOwnSettings: own, ParentalEnabled: own,
			BlockedServices: &filtering.BlockedServices{Schedule: schedule.EmptyWeekly()}}
		if err = p.SetIDs(ids); err != nil {
			t.Fatal(err)
		}
		h.clients = append(h.clients, p)
	}
	mk("kid", true, c04lMACs[0].String())
	mk("tv", false, c04lMACs[1].String())
	mk("lan", false, "192.168.10.20/30")
	mk("srv", true, "192.168.10.50")
	h.st, err = client.NewStorage(context.Background(), &client.StorageConfig{
		Logger: slogutil.NewDiscardLogger(), Clock: timeutil.SystemClock{}, DHCP: h.srv, InitialClients: h.clients,
	})
	if err != nil {
		t.Fatal(err)
	}
	h.prev = h.attributions()
	return h
}

func (h *c04lHist) fail(key, msg string) {
	if h.monMsg == "" {
		h.monKey, h.monMsg = key, msg+" || calls: "+strings.Join(h.desc, "; ")
	}
}

func (h *c04lHist) attributions() (names []string) {
	for _, a := range h.probes {
		setts := &filtering.Settings{}
		h.st.ApplyClientFiltering("", a, setts)
		names = append(names, setts.ClientName)
	}
	return names
}

// want: the client a request from a belongs to, by precedence, from the
// persistent clients and the ACCEPTED leases.
func (h *c04lHist) want(a netip.Addr) (name, how string) {
	for _, p := range h.clients {
		for _, ip := range p.IPs {
			if ip == a {
				return p.Name, "ip"
			}
		}
	}
	best, bits := "", -1
	for _, p := range h.clients {
		for _, n := range p.Subnets {
			if n.Contains(a) && n.Bits() > bits {
				best, bits = p.Name, n.Bits()
			}
		}
	}
	if best != "" {
		return best, "cidr"
	}
	if l, ok := h.ref[a]; ok {
		for _, p := range h.clients {
			for _, m := range p.MACs {
				if string(m) == string(l.mac) {
					return p.Name, "dhcp"
				}
			}
		}
	}
	return "", "none"
}

func (h *c04lHist) call(kind int, l c04lLease) {
	names := map[int]string{c04lAdd: "add", c04lUpdate: "update", c04lRemove: "remove"}
	desc := fmt.Sprintf("%s static lease (%s, %v, %q)", names[kind], l.mac, l.ip, l.host)
	// as leaseStatic.toLease of the HTTP handlers builds it
	lease := &dhcpsvc.Lease{Hostname: l.host, HWAddr: l.mac, IP: l.ip, IsStatic: true}
	var err error
	coqOp := ""
	args := []string{c04lMACNum(l.mac), vfN(c04lIPNum(l.ip)), vfBytes(l.host)}
	// classes of the call, by the reference table
	why := ""
	if kind == c04lAdd {
		for a, o := range h.ref {
			switch {
			case string(o.mac) == string(l.mac):
				why = "dup-mac"
			case a == l.ip && why == "":
				why = "dup-ip"
			case o.host != "" && strings.EqualFold(o.host, l.host) && why == "":
				why = "dup-host"
			}
		}
		if l.ip == c04lIPs[6] {
			why = "gateway"
		} else if !netip.MustParsePrefix("192.168.10.0/24").Contains(l.ip) {
			why = "out-of-subnet"
		}
	}
	switch kind {
	case c04lAdd:
		err = h.srv.AddStaticLease(lease)
		coqOp = vfApp("Dhcp4.OStaticAdd", args...)
	case c04lUpdate:
		err = h.srv.srv4.UpdateStaticLease(lease)
		coqOp = vfApp("Dhcp4.OStaticUpdate", args...)
	default:
		err = h.srv.srv4.RemoveStaticLease(lease)
		coqOp = vfApp("Dhcp4.OStaticRemove", args...)
	}
	ok := err == nil
	if ok {
		desc += " -> accepted"
		h.nOK++
		h.cls["lease-"+names[kind]+"-ok"] = true
		switch kind {
		case c04lAdd:
			h.ref[l.ip] = c04lLease{l.mac, l.ip, strings.ToLower(l.host)}
		case c04lUpdate:
			for a, o := range h.ref {
				if string(o.mac) == string(l.mac) {
					delete(h.ref, a)
				}
			}
			h.ref[l.ip] = c04lLease{l.mac, l.ip, strings.ToLower(l.host)}
		default:
			delete(h.ref, l.ip)
		}
	} else {
		desc += " -> rejected (" + err.Error() + ")"
		h.nRej++
		h.cls["lease-"+names[kind]+"-rejected"] = true
		if why != "" {
			h.cls["lease-add-rejected-"+why] = true
		}
		if string(l.mac) == string(c04lMACs[0]) || string(l.mac) == string(c04lMACs[1]) {
			h.cls["lease-rejected-for-client-mac"] = true
		}
	}
	h.desc = append(h.desc, desc)

	// observations and monitor
	macs := make([]string, len(h.probes))
	finds := make([]string, len(h.probes))
	attrs := h.attributions()
	nameItems := make([]string, len(h.probes))
	for i, a := range h.probes {
		m := h.srv.MACByIP(a)
		macs[i] = c04lMACNum(m)
		var wantMAC net.HardwareAddr
		if rl, has := h.ref[a]; has {
			wantMAC = rl.mac
		}
		wn, how := h.want(a)
		h.cls["lease-attr-"+how] = true
		if attrs[i] != wn {
			h.fail("lease-attribution", fmt.Sprintf("after %s the request from %v is attributed to %q; by precedence (%s) over the accepted leases it belongs to %q", desc, a, attrs[i], how, wn))
		}
		if !ok && attrs[i] != h.prev[i] {
			h.fail("rejected-lease-op-changed-attribution", fmt.Sprintf("%s changed the attribution of the request from %v: %q before, %q after", desc, a, h.prev[i], attrs[i]))
		}
		nameItems[i] = vfBytes(attrs[i])
		p, found := h.st.Find(a.String())
		fn := ""
		finds[i] = vfOpt("N", false, "")
		if found && p != nil {
			fn = p.Name
			for j, c := range h.clients {
				if c.UID == p.UID {
					finds[i] = vfOpt("N", true, vfN(uint64(j+1)))
				}
			}
		}
		if fn != wn {
			h.fail("lease-find", fmt.Sprintf("after %s Find(%q) gives %q; by precedence (%s) over the accepted leases it is %q", desc, a, fn, how, wn))
		}
		if string(m) != string(wantMAC) {
			h.fail("lease-mac-by-ip", fmt.Sprintf("after %s MACByIP(%v) = %v; the accepted lease of that address has %v (nil: there is none)", desc, a, m, wantMAC))
		}
	}
	h.prev = attrs
	h.steps = append(h.steps, "("+coqOp+", ("+vfBool(ok)+", "+vfList("N", macs)+", "+vfList("bytes", nameItems)+", "+vfList("option N", finds)+"))")
}

func (h *c04lHist) emit(out *vfOut, tag string) {
	cl := make([]string, len(h.clients))
	for i, p := range h.clients {
		var ips, nets, macs []string
		for _, a := range p.IPs {
			ips = append(ips, c04lAddr(a))
		}
		for _, n := range p.Subnets {
			nets = append(nets, vfPair(vfBytes(string(n.Addr().AsSlice())), vfN(uint64(n.Bits()))))
		}
		for _, m := range p.MACs {
			macs = append(macs, vfBytes(string(m)))
		}
		cl[i] = vfApp("mkc", vfN(uint64(i+1)), vfBytes(p.Name), vfList("bytes", nil), vfList("bytes * bytes", ips),
			vfList("bytes * N", nets), vfList("bytes", macs), vfBool(p.UseOwnSettings), vfBool(p.FilteringEnabled), "false",
			vfBool(p.SafeBrowsingEnabled), vfBool(p.ParentalEnabled), "false", "(@None blocked)", "false", "false",
			vfList("bytes", nil), vfList("bytes", nil))
	}
	pr := make([]string, len(h.probes))
	for i, a := range h.probes {
		pr[i] = c04lAddr(a)
	}
	// defaultV4ServerConf: pool .100-.200, subnet 192.168.10.0/24, gateway .1, self .2
	base := c04lIPNum(netip.MustParseAddr("192.168.10.0"))
	conf := vfApp("Dhcp4.Conf", vfN(base+100), vfN(base+200), vfN(base), vfN(base+255), vfN(base+1), vfZ(0), vfN(base+2))
	coq := vfApp("CLease", conf, vfList("client", cl), vfList("bytes * bytes", pr), vfList("Dhcp4.op * lobs", h.steps))
	var classes []string
	for c := range h.cls {
		classes = append(classes, c)
	}
	sort.Strings(classes)
	c := vfCase{Coq: coq, Classes: classes, Nontrivial: h.nRej > 0 && h.nOK > 0, MonitorOK: h.monMsg == "", MonitorMsg: h.monMsg,
		Desc: map[string]any{"kind": "dhcp-leases " + tag, "calls": h.desc}}
	if h.monMsg != "" {
		c.FindingKey = "C04-" + h.monKey
	}
	out.Emit(c)
}

func TestVerifC04(t *testing.T) {
	out := vfOpen(t, "C04")
	defer out.Close()
	M, I := c04lMACs, c04lIPs

	// prelude 1: every kind of rejected add, with the hardware address of a
	// persistent client in the rejected call, then the address really leased
	h := c04lNew(t)
	h.call(c04lAdd, c04lLease{M[2], I[0], "box"})
	h.call(c04lAdd, c04lLease{M[0], I[1], "box"}) // duplicate host name: no lease for .11
	h.call(c04lAdd, c04lLease{M[1], I[0], "tab"}) // duplicate address
	h.call(c04lAdd, c04lLease{M[2], I[2], "nas"}) // duplicate hardware address
	h.call(c04lAdd, c04lLease{M[0], I[7], "tab"}) // outside the subnet
	h.call(c04lAdd, c04lLease{M[0], I[6], "tab"}) // the gateway's address
	h.call(c04lAdd, c04lLease{M[1], I[2], "BOX"}) // duplicate host name, other case
	h.call(c04lAdd, c04lLease{M[0], I[1], "tab"}) // accepted: .11 is the kid's now
	h.call(c04lAdd, c04lLease{M[1], I[4], ""})    // inside lan's CIDR: the CIDR client wins
	h.call(c04lRemove, c04lLease{M[0], I[1], "box"}) // wrong host name: rejected, still the kid's
	h.call(c04lRemove, c04lLease{M[0], I[1], "tab"})
	h.call(c04lAdd, c04lLease{M[0], I[5], "tab"}) // srv's exact address: srv wins
	h.emit(out, "prelude-rejected-adds")

	// prelude 2: updates
	h = c04lNew(t)
	h.call(c04lUpdate, c04lLease{M[0], I[0], "tab"}) // no such lease
	h.call(c04lAdd, c04lLease{M[0], I[0], "tab"})
	h.call(c04lAdd, c04lLease{M[2], I[1], "nas"})
	h.call(c04lUpdate, c04lLease{M[0], I[1], "tab"}) // address taken
	h.call(c04lUpdate, c04lLease{M[0], I[2], "nas"}) // host name taken
	h.call(c04lUpdate, c04lLease{M[0], I[7], "tab"}) // outside the subnet
	h.call(c04lUpdate, c04lLease{M[0], I[2], "tab"}) // moves to .12
	h.call(c04lUpdate, c04lLease{M[1], I[3], "tv"})  // no lease for that address
	h.call(c04lRemove, c04lLease{M[3], I[3], ""})    // nothing there
	h.call(c04lRemove, c04lLease{M[2], I[1], "nas"})
	h.call(c04lAdd, c04lLease{M[1], I[1], "nas"})
	h.emit(out, "prelude-updates")

	r := vfNewRand(out.Seed)
	for i := out.Scale(60, 1500); i > 0; i-- {
		hr := r.Fork(uint64(i))
		h = c04lNew(t)
		for n := 6 + hr.Intn(20); n > 0; n-- {
			l := c04lLease{vfPick(hr, M), vfPick(hr, I[:6]), vfPick(hr, c04lHosts)}
			if hr.Chance(1, 8) {
				l.ip = vfPick(hr, I)
			}
			var held []c04lLease
			for _, o := range h.ref {
				held = append(held, o)
			}
			sort.Slice(held, func(a, b int) bool { return held[a].ip.Less(held[b].ip) })
			switch x := hr.Intn(100); {
			case x < 55:
				h.call(c04lAdd, l)
			case x < 75:
				if len(held) > 0 && hr.Chance(3, 4) {
					l = vfPick(hr, held)
					if hr.Chance(1, 5) {
						l.host = vfPick(hr, c04lHosts)
					}
				}
				h.call(c04lRemove, l)
			default:
				if len(held) > 0 && hr.Chance(3, 4) {
					l.mac = vfPick(hr, held).mac
				}
				h.call(c04lUpdate, l)
			}
		}
		h.emit(out, "random")
	}
}

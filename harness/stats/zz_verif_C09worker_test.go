//go:build verif

package stats

// C09, round 6: the periodic worker as part of the system.
//
// Everywhere else the harness performs the hourly flush itself (s.flush()).
// Here Start() is called and the REAL worker (periodicFlush) does it: the unit
// id source is the harness's variable (Config.UnitID), queries are counted,
// the id steps by k hours while the process stays up (a suspended machine, a
// paused VM, a corrected clock), and the roll-over is the worker's.
//
// What the code promises (Proofs/StatsWorker.v): a query is attributed to the
// hour the worker read at its last pass, and the worker sleeps a second after
// a pass that found nothing to do; so a query counted after the step is in the
// stale hour only until the worker's next pass.  The harness therefore
//
//   - counts some queries right after the step: each may be in the old or in
//     the new hour, the old ones first (the split is read off the new unit's
//     total once the roll-over is seen, and the case puts the worker's pass at
//     that point of the history);
//   - waits for the roll-over WITHOUT judging speed: it polls the current
//     unit's id until it is the new hour, and gives up only when its own 1 s
//     ticker has fired c09WorkerCeiling times (ticks delivered to this
//     goroutine: a starved process loses ticks, which only prolongs the wait);
//     the number of reads of the id source by the worker goroutine in that
//     time is recorded (Config.UnitID called with periodicFlush on the stack);
//   - a worker that did not roll over within the ceiling is a finding only if a
//     second, fresh trial with the same history stalls too; otherwise the trial
//     is discarded and noted;
//   - counts more queries after the roll-over and checks through the real
//     handler that they are in the NEW hour's slot and the earlier ones in
//     theirs (the monitor of the histories, hour by hour).
//
// All trials of a run advance in lock step from one goroutine (step every
// clock, then wait for every roll-over), so a round costs about one sleep of
// the worker whatever the number of trials.

import (
	"encoding/json"
	"fmt"
	"runtime"
	"strings"
	"sync/atomic"
	"testing"
	"time"
)

// c09WorkerCeiling: ticks of the harness's own 1 s ticker after which a wait
// for the worker is given up (the worker's sleep is 1 s).
const c09WorkerCeiling = 20

type c09WorkerTrial struct {
	idx    int
	q      *c09Runner
	id0    uint32
	ms     int64
	reads  atomic.Int64 // reads of the id source by the worker goroutine
	clock  uint32
	gaps   []uint32
	script []string // readable history, for the report

	// the round in progress
	from, to    uint32
	late        []c09Op // counted right after the step
	readsAtStep int64
	rolled      bool
	ticks       int
	round       int    // the round in progress
	stalled     string // why the trial stopped (no roll-over within the ceiling)
	opErr       bool   // ... or an operation failed (reported by the step's own monitor)
	classes     map[string]bool
}

// c09OnWorkerStack: is the caller the periodic worker's goroutine?
func c09OnWorkerStack() bool {
	pcs := make([]uintptr, 24)
	n := runtime.Callers(2, pcs)
	fr := runtime.CallersFrames(pcs[:n])
	for {
		f, more := fr.Next()
		if strings.HasSuffix(f.Function, ".(*StatsCtx).periodicFlush") {
			return true
		}
		if !more {
			return false
		}
	}
}

func c09ValidUpdate(r *vfRand) c09Op {
	o := c09GenUpdate(r, false)
	if o.Res < 1 || o.Res > 5 {
		o.Res = 1 + r.Intn(5)
	}
	if o.Dom == 0 {
		o.Dom = 1
	}
	if o.Cli == 0 {
		o.Cli = 2
	}
	return o
}

func (w *c09WorkerTrial) say(f string, a ...any) {
	w.script = append(w.script, fmt.Sprintf(f, a...))
}

func (w *c09WorkerTrial) raw(op, ob string) {
	w.q.steps = append(w.q.steps, "("+op+", "+ob+")")
}

// start hooks the id source and starts the real worker.
func (w *c09WorkerTrial) start() {
	hook := func() {
		if c09OnWorkerStack() {
			w.reads.Add(1)
		}
	}
	w.q.m.idHook.Store(&hook)
	w.q.m.s.Start()
	w.say("Start()")
}

// stopWorker makes the worker of a CLOSED context end at its next pass (flush
// returns cont=false when there is no current unit); cleaning up only.
func c09StopWorker(s *StatsCtx) {
	s.confMu.Lock()
	defer s.confMu.Unlock()
	s.currMu.Lock()
	defer s.currMu.Unlock()
	s.curr = nil
}

func (w *c09WorkerTrial) close() {
	m := w.q.m
	if m.s != nil {
		_ = m.s.Close()
		c09StopWorker(m.s)
	}
}

func (w *c09WorkerTrial) current() (id uint32, total uint64) {
	s := w.q.m.s
	s.currMu.RLock()
	defer s.currMu.RUnlock()
	return s.curr.id, s.curr.nTotal
}

func (w *c09WorkerTrial) updates(r *vfRand, n int) {
	for ; n > 0; n-- {
		o := c09ValidUpdate(r)
		o.Skip = n > 1
		w.q.run(o)
		w.say("query (result %d) counted in hour %d", o.Res, w.clock)
	}
}

// step: the id source jumps to a later hour while the worker is (most
// probably) asleep; some queries are counted at once.
func (w *c09WorkerTrial) step(r *vfRand, gap uint32, late int) {
	m := w.q.m
	w.from, w.to = w.clock, w.clock+gap
	w.readsAtStep = w.reads.Load()
	m.hour.Store(w.to)
	w.clock = w.to
	w.raw(fmt.Sprintf("WClock %d", w.to), "ObsSkip")
	w.say("the hour id steps %d -> %d (+%d)", w.from, w.to, gap)
	w.late = w.late[:0]
	for ; late > 0; late-- {
		o := c09ValidUpdate(r)
		o.Skip = true
		m.s.Update(c09Entry(o))
		w.late = append(w.late, o)
	}
	w.rolled, w.ticks = false, 0
}

// settle: the roll-over has been seen (or given up).  The worker's pass is
// put where the new unit's total says it took effect among the late queries.
func (w *c09WorkerTrial) settle() {
	m := w.q.m
	id, total := w.current()
	split := len(w.late)
	if id == w.to && int(total) <= len(w.late) {
		split = len(w.late) - int(total)
	}
	for i, o := range w.late {
		if i == split {
			w.pass()
		}
		m.ghostUpdate(o)
		w.q.ops = append(w.q.ops, o)
		w.raw("WOp ("+o.coq()+")", "ObsSkip")
		if i < split {
			w.classes["worker-query-after-step-in-stale-hour"] = true
			m.classes["update-into-stale-unit"] = true
		} else {
			w.classes["worker-query-after-step-in-new-hour"] = true
		}
	}
	if split == len(w.late) {
		w.pass()
	}
	if n := len(w.late); n > 0 && id == w.to {
		w.say("%d queries counted right after the step: %d before the worker's pass, %d after", n, split, n-split)
	}
}

// pass: the worker read the new hour and rolled over (what the property
// expects to have happened by now).
func (w *c09WorkerTrial) pass() {
	m := w.q.m
	w.raw("WRead", "ObsSkip")
	w.raw("WApply", "ObsSkip")
	d := w.to - m.unitHour
	switch {
	case d == 1:
		m.classes["flush-next-hour"] = true
	case d < m.limH:
		m.classes["flush-gap-inside-window"] = true
	default:
		m.classes["flush-gap-beyond-window"] = true
	}
	m.ghostFlush(w.to)
	w.classes["worker-rollover"] = true
}

// c09WorkerWait polls until every trial of ts has rolled over, or the
// harness's ticker has fired c09WorkerCeiling times.
func c09WorkerWait(ts []*c09WorkerTrial, done func(*c09WorkerTrial) bool) {
	tk := time.NewTicker(time.Second)
	defer tk.Stop()
	ticks := 0
	for {
		pending := 0
		for _, w := range ts {
			if w.stalled != "" || w.rolled {
				continue
			}
			if done(w) {
				w.rolled, w.ticks = true, ticks
			} else {
				pending++
			}
		}
		if pending == 0 || ticks >= c09WorkerCeiling {
			return
		}
		select {
		case <-tk.C:
			ticks++
		default:
			time.Sleep(2 * time.Millisecond)
		}
	}
}

func c09NewWorkerTrial(t *testing.T, r *vfRand, idx int, rounds int) *c09WorkerTrial {
	limits := []int64{24, 24, 48, 72, 168}
	ms := limits[idx%len(limits)] * c09MsHour
	id0 := uint32(495000 + r.Intn(5000))
	// Every fifth trial starts with the statistics disabled and has them
	// enabled through PUT /control/stats/config/update after Start.
	en := idx%5 != 4
	m := c09NewSim(t, t.TempDir(), id0, ms, en)
	w := &c09WorkerTrial{idx: idx, id0: id0, ms: ms, clock: id0, classes: map[string]bool{},
		q: &c09Runner{m: m, w: true, dis: !en, ok: true}}
	limH := uint32(ms / c09MsHour)
	for k := 0; k < rounds; k++ {
		var g uint32
		switch (idx + 2*k) % 6 {
		case 0:
			g = 5
		case 1:
			g = 1
		case 2:
			g = uint32(2 + r.Intn(int(limH)-2))
		case 3:
			g = limH - 1 + uint32(r.Intn(3))
		case 4:
			g = limH + uint32(3+r.Intn(40))
		default:
			g = uint32(1 + r.Intn(4))
		}
		w.gaps = append(w.gaps, g)
	}
	w.say("New at hour %d, limit %d h, enabled %v", id0, limH, en)
	return w
}

// begin: the first flush of the histories (the harness's own, in the hour New
// read), some queries, Start; statistics that were disabled are enabled now.
func (w *c09WorkerTrial) begin(r *vfRand, n int) {
	w.q.run(c09Op{Kind: "flush", ID: w.clock})
	if !w.q.dis {
		w.updates(r, n)
	}
	w.start()
	if w.q.dis {
		w.q.run(c09Op{Kind: "putconfig", Ms: w.ms, En: true})
		w.say("statistics were disabled at Start; enabled now (PUT /control/stats/config/update)")
		w.classes["worker-enabled-after-start"] = true
	}
}

// c09WorkerSlots reads GET /control/stats through the real handler.
func (w *c09WorkerTrial) slots() (dns []uint64, total uint64, err error) {
	rec := w.q.m.call("GET", "/control/stats", "")
	resp := &StatsResp{}
	if rec.Code != 200 {
		return nil, 0, fmt.Errorf("GET /control/stats: %d", rec.Code)
	}
	if err = json.Unmarshal(rec.Body.Bytes(), resp); err != nil {
		return nil, 0, err
	}
	return resp.DNSQueries, resp.NumDNSQueries, nil
}

// stall: no roll-over within the ceiling.  More queries are counted and the
// answer of the real handler is put into the report.
func (w *c09WorkerTrial) stall(r *vfRand) {
	m := w.q.m
	reads := w.reads.Load() - w.readsAtStep
	var before uint64
	if g := m.ghost[w.from]; g != nil {
		before = g[0]
	}
	before += uint64(len(w.late))
	id, _ := w.current()
	w.settle()
	n := 2
	for i := 0; i < n; i++ {
		o := c09ValidUpdate(r)
		o.Skip = i+1 < n
		p := m.apply(&o)
		w.q.ops = append(w.q.ops, o)
		ob := "ObsSkip"
		if !o.Skip {
			w.q.last = m.observe(p)
			ob = w.q.last.coq()
		}
		w.q.steps = append(w.q.steps, w.q.wrap(o.coq(), ob))
	}
	dns, total, err := w.slots()
	where := fmt.Sprintf("GET /control/stats: %v", err)
	if err == nil && len(dns) > 0 {
		last := len(dns) - 1
		where = fmt.Sprintf("GET /control/stats: num_dns_queries %d, dns_queries[%d] (the current hour) = %d", total, last, dns[last])
		if gap := int(w.to - w.from); gap <= last {
			where += fmt.Sprintf(", dns_queries[%d] (%d hours ago) = %d; expected %d and %d", last-gap, gap, dns[last-gap], n, before)
		} else {
			where += fmt.Sprintf("; expected %d (hour %d is outside the window of %d h)", n, w.from, m.limH)
		}
	}
	w.stalled = fmt.Sprintf("%s; then no roll-over: the current unit is still hour %d after %d ticks of the harness's 1 s ticker "+
		"(reads of the hour id by the worker goroutine in that time: %d); %d more queries counted then are attributed to hour %d, "+
		"which has not been the hour for all that time: %s",
		strings.Join(w.script, "; "), id, c09WorkerCeiling, reads, n, id, where)
}

// c09WorkerConfirm: a fresh trial with the same kind of history (Start, the
// same steps with a few queries between them, no restarts): does the worker
// stall again, at the same step or before?
func c09WorkerConfirm(t *testing.T, r *vfRand, first *c09WorkerTrial) (again bool, what string) {
	w := c09NewWorkerTrial(t, r, first.idx, 0)
	defer w.close()
	if w.q.m.dead {
		return false, "New failed"
	}
	w.begin(r, 0)
	c09WorkerWait([]*c09WorkerTrial{w}, func(w *c09WorkerTrial) bool { return w.reads.Load() > 0 })
	if !w.rolled {
		return true, fmt.Sprintf("second trial (fresh context at hour %d): no read of the hour id by the worker within %d ticks either",
			w.clock, c09WorkerCeiling)
	}
	for k := 0; k <= first.round && k < len(first.gaps); k++ {
		w.rolled = false
		w.updates(r, 2)
		w.step(r, first.gaps[k], 0)
		c09WorkerWait([]*c09WorkerTrial{w}, func(w *c09WorkerTrial) bool { id, _ := w.current(); return id == w.to })
		if !w.rolled {
			id, _ := w.current()
			return true, fmt.Sprintf("second trial (fresh context, step %d of the same steps, hour %d -> %d): still hour %d after %d ticks, %d reads by the worker",
				k+1, w.from, w.to, id, c09WorkerCeiling, w.reads.Load()-w.readsAtStep)
		}
		w.settle()
	}
	return false, fmt.Sprintf("second trial rolled over at each of its %d steps", first.round+1)
}

func c09Workers(t *testing.T, out *vfOut, r *vfRand) {
	nTrials := out.Scale(6, 40)
	rounds := out.Scale(2, 4)
	ts := []*c09WorkerTrial{}
	rs := []*vfRand{}
	for i := 0; i < nTrials; i++ {
		rr := r.Fork(uint64(i))
		w := c09NewWorkerTrial(t, rr, i, rounds)
		if w.q.m.dead {
			continue
		}
		ts, rs = append(ts, w), append(rs, rr)
		w.begin(rr, rr.Intn(3))
	}
	// The worker's first pass (idle: the hour is the one New read).
	c09WorkerWait(ts, func(w *c09WorkerTrial) bool { return w.reads.Load() > 0 })
	for _, w := range ts {
		if !w.rolled {
			w.to, w.from = w.clock, w.clock
			w.stalled = fmt.Sprintf("%s; the worker goroutine has not read the hour id once within %d ticks of the harness's 1 s ticker",
				strings.Join(w.script, "; "), c09WorkerCeiling)
		}
		w.rolled = false
	}
	for k := 0; k < rounds; k++ {
		// Clean restarts in the same hour: the old worker ends, the new context
		// gets its own, whose first pass (idle) is awaited before the next step.
		restarted := []*c09WorkerTrial{}
		for _, w := range ts {
			if w.stalled != "" || k == 0 || (w.idx+k)%4 != 0 {
				continue
			}
			old := w.q.m.s
			w.q.run(c09Op{Kind: "restart", ID: w.clock})
			c09StopWorker(old)
			if w.q.m.dead {
				w.stalled, w.opErr = "New failed after Close", true
				continue
			}
			w.readsAtStep = w.reads.Load()
			w.q.m.s.Start()
			w.say("Close(); New() in hour %d; Start()", w.clock)
			w.classes["worker-after-restart"] = true
			restarted = append(restarted, w)
		}
		c09WorkerWait(restarted, func(w *c09WorkerTrial) bool { return w.reads.Load() > w.readsAtStep })
		for _, w := range restarted {
			// (A read by the old context's worker on its way out counts too: then
			// the new worker's first pass may be the roll-over itself.)
			w.rolled = false
		}
		for i, w := range ts {
			if w.stalled != "" {
				continue
			}
			rr := rs[i]
			w.round = k
			w.updates(rr, 1+rr.Intn(3))
			w.step(rr, w.gaps[k], rr.Intn(3))
		}
		c09WorkerWait(ts, func(w *c09WorkerTrial) bool { id, _ := w.current(); return id == w.to })
		for i, w := range ts {
			if w.stalled != "" {
				continue
			}
			if !w.rolled {
				w.stall(rs[i])
				continue
			}
			if w.ticks > 2 {
				w.classes["worker-rollover-after-more-than-2-ticks"] = true
			}
			w.settle()
			w.say("roll-over to hour %d seen", w.to)
			w.updates(rs[i], 1+rs[i].Intn(3))
			switch gap := w.to - w.from; {
			case gap == 1:
				w.classes["worker-step-1-hour"] = true
			case gap < w.q.m.limH:
				w.classes["worker-step-gap-inside-window"] = true
			default:
				w.classes["worker-step-gap-beyond-window"] = true
			}
		}
	}
	// Stalls: a finding only if a fresh trial stalls too.
	confirmed, what := false, ""
	for _, w := range ts {
		if w.stalled != "" && !w.opErr {
			confirmed, what = c09WorkerConfirm(t, r.Fork(0xC0F), w)
			break
		}
	}
	for _, w := range ts {
		cl := []string{"worker"}
		for c := range w.classes {
			cl = append(cl, c)
		}
		if w.stalled != "" && !w.opErr {
			if !confirmed {
				out.Class("worker-stall-discarded")
				out.Note("worker_stall_discarded", w.stalled+" ["+what+"]")
				w.close()
				continue
			}
			w.q.fail("c09-worker-stale-hour", "%s [%s]", w.stalled, what)
		}
		w.q.emit(out, w.id0, w.ms, fmt.Sprintf("worker %d", w.idx), w.stalled == "" && w.q.m.rolled,
			map[string]any{"script": w.script, "worker_reads": w.reads.Load()}, cl...)
		w.close()
	}
}

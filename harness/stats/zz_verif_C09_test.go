//go:build verif

package stats

import (
	"bytes"
	"context"
	"encoding/json"
	"fmt"
	"log/slog"
	"net/http"
	"net/http/httptest"
	"path/filepath"
	"sort"
	"strings"
	"sync"
	"sync/atomic"
	"testing"
	"time"

	"github.com/AdguardTeam/dnsproxy/proxy"
	"github.com/AdguardTeam/golibs/errors"
	"go.etcd.io/bbolt"
)

// ---- names <-> model keys

var (
	c09Domains   = []string{"", "d1.example", "d2.example", "d3.example", "d4.example"}
	c09Clients   = []string{"", "10.0.0.1", "10.0.0.2", "fe80::3"}
	c09Upstreams = []string{"", "8.8.8.8:53", "1.1.1.1:53", "tls://9.9.9.9"}
)

func c09Key(names []string, n string) int64 {
	for i, s := range names {
		if s == n {
			return int64(i)
		}
	}
	return -1
}

const c09MsHour = 3600000

// ---- operations

type c09Op struct {
	Kind string `json:"op"` // update flush restart clear setdays putconfig
	// update
	Res int   `json:"res,omitempty"`
	Dom int   `json:"dom,omitempty"`
	Cli int   `json:"cli,omitempty"`
	Ups []int `json:"ups,omitempty"` // upstream key*4 + (cached?1:0) + (error?2:0)
	// clock after the step's advance (flush, restart, clear, setdays)
	ID uint32 `json:"id,omitempty"`
	// setdays
	Days int `json:"days,omitempty"`
	// putconfig
	Ms int64 `json:"ms,omitempty"`
	En bool  `json:"en,omitempty"`
}

func (o c09Op) coq() string {
	switch o.Kind {
	case "update":
		ups := []string{}
		for _, u := range o.Ups {
			ups = append(ups, fmt.Sprintf("(%d, %s)", u/4, vfBool(u%4 == 0)))
		}
		return fmt.Sprintf("OUpdate (mkE %s %d %d %s)", c09Int(int64(o.Res)), o.Dom, o.Cli, vfList("Z * bool", ups))
	case "flush":
		return fmt.Sprintf("OFlush %d", o.ID)
	case "restart":
		return fmt.Sprintf("ORestart %d", o.ID)
	case "clear":
		return fmt.Sprintf("OClear %d", o.ID)
	case "setdays":
		return fmt.Sprintf("OSetDays %d %d", o.Days, o.ID)
	case "putconfig":
		return fmt.Sprintf("OPutConfig %s %s", c09Int(o.Ms), vfBool(o.En))
	}
	panic("bad op")
}

func c09Int(i int64) string {
	if i < 0 {
		return fmt.Sprintf("(%d)", i)
	}
	return fmt.Sprintf("%d", i)
}

// ---- observations

// Error classes of a step (bits of c09Obs.Err); the model expects 0.
const (
	c09ErrClose  = 1  // Close returned an error
	c09ErrNew    = 2  // New returned an error (the history stops there)
	c09ErrReset  = 4  // POST /control/stats_reset did not answer 200
	c09ErrStats  = 8  // GET /control/stats did not answer 200 / undecodable
	c09ErrLogged = 16 // the code logged at error level during the step
	c09ErrDB     = 32 // the database file could not be read back
)

type c09Obs struct {
	Panicked bool
	Err      int
	CfgMs    int64
	CfgEn    bool
	CurID    uint32
	Totals   [6]uint64 // total, nf, f, sb, ss, p
	Days     bool
	Len      int
	Series   [4][]uint64 // dns, blocked, sb, parental
	Tops     [4][][2]int64
	DB       [][2]int64
	ErrMsgs  []string
}

func c09Pairs(ps [][2]int64) string {
	items := make([]string, len(ps))
	for i, p := range ps {
		items[i] = fmt.Sprintf("(%d, %d)", p[0], p[1])
	}
	return vfList("Z * Z", items)
}

func c09Sparse(s []uint64) string {
	ps := [][2]int64{}
	for i, v := range s {
		if v != 0 {
			ps = append(ps, [2]int64{int64(i), int64(v)})
		}
	}
	return c09Pairs(ps)
}

func (o *c09Obs) coq() string {
	tot := make([]string, 6)
	for i, v := range o.Totals {
		tot[i] = fmt.Sprint(v)
	}
	ser := make([]string, 4)
	for i := range o.Series {
		ser[i] = c09Sparse(o.Series[i])
	}
	tops := make([]string, 4)
	for i := range o.Tops {
		tops[i] = c09Pairs(o.Tops[i])
	}
	return fmt.Sprintf("Obs %s %d %d %s %d %s %s %d %s %s %s", vfBool(o.Panicked), o.Err, o.CfgMs, vfBool(o.CfgEn),
		o.CurID, vfList("Z", tot), vfBool(o.Days), o.Len, vfList("list (Z * Z)", ser),
		vfList("list (Z * Z)", tops), c09Pairs(o.DB))
}

// ---- the system under test plus the harness' own bookkeeping

type c09Sim struct {
	t      testing.TB
	file   string
	hour   atomic.Uint32
	s      *StatsCtx
	routes map[string]http.HandlerFunc

	// Independent ghost state, kept per the property statement only.
	ghost     map[uint32]*[6]uint64 // hour -> accepted, un-cleared updates (total, nf..p)
	unitHour  uint32                // the hour that is current for counting
	limH      uint32                // retention limit in hours
	enabled   bool
	lostUpTo  uint32 // hours <= lostUpTo were outside the window at some flush/restart since the last clear
	raised    bool   // the limit has been raised since the last clear
	classes   map[string]bool
	nAccepted int
	rolled    bool // an effective flush/restart/clear happened after an accepted update

	// Errors of the current step: nothing is fatal, everything is observed.
	errMu   sync.Mutex
	errBits int
	errMsgs []string
	dead    bool // New failed: no instance to continue with

	// restart-same-hour-then-write: 1 after a restart in the same hour, 2 after
	// an accepted update following it.
	rsw int
}

func (m *c09Sim) fail(bit int, f string, a ...any) {
	m.errMu.Lock()
	defer m.errMu.Unlock()
	m.errBits |= bit
	if len(m.errMsgs) < 4 {
		m.errMsgs = append(m.errMsgs, fmt.Sprintf(f, a...))
	}
}

// c09LogHandler turns error-level log records of the code into observables.
type c09LogHandler struct{ m *c09Sim }

func (h c09LogHandler) Enabled(_ context.Context, l slog.Level) bool { return l >= slog.LevelError }
func (h c09LogHandler) Handle(_ context.Context, r slog.Record) error {
	if r.Message == "http error" {
		// aghhttp.ErrorAndLog: a rejected request; the status code is observed instead.
		return nil
	}
	msg := r.Message
	r.Attrs(func(a slog.Attr) bool { msg += " " + a.Key + "=" + a.Value.String(); return true })
	h.m.fail(c09ErrLogged, "logged: %s", msg)
	return nil
}
func (h c09LogHandler) WithAttrs([]slog.Attr) slog.Handler { return h }
func (h c09LogHandler) WithGroup(string) slog.Handler      { return h }

func (m *c09Sim) conf(ms int64, en bool) Config {
	return Config{
		Logger:            slog.New(c09LogHandler{m}),
		UnitID:            func() uint32 { return m.hour.Load() },
		ConfigModified:    func() {},
		ShouldCountClient: func([]string) bool { return true },
		HTTPRegister: func(method, url string, h http.HandlerFunc) {
			m.routes[method+" "+url] = h
		},
		Filename: m.file,
		Limit:    time.Duration(ms) * time.Millisecond,
		Enabled:  en,
	}
}

func c09NewSim(t testing.TB, dir string, id0 uint32, ms int64, en bool) *c09Sim {
	m := &c09Sim{t: t, file: filepath.Join(dir, "stats.db"), routes: map[string]http.HandlerFunc{},
		ghost: map[uint32]*[6]uint64{}, classes: map[string]bool{}}
	m.hour.Store(id0)
	m.unitHour, m.limH, m.enabled = id0, uint32(ms/c09MsHour), en
	s, err := New(m.conf(ms, en))
	if err != nil {
		m.fail(c09ErrNew, "New: %v", err)
		m.dead = true
		return m
	}
	s.initWeb()
	m.s = s
	return m
}

func (m *c09Sim) call(method, url string, body string) *httptest.ResponseRecorder {
	h := m.routes[method+" "+url]
	if h == nil {
		panic("harness: no route " + method + " " + url)
	}
	w := httptest.NewRecorder()
	r := httptest.NewRequest(method, url, strings.NewReader(body))
	r.Header.Set("Content-Type", "application/json")
	h(w, r)
	return w
}

func c09Entry(o c09Op) *Entry {
	e := &Entry{
		Client:         c09Clients[o.Cli],
		Domain:         c09Domains[o.Dom],
		Result:         Result(o.Res),
		ProcessingTime: time.Duration(1+o.Dom*7+o.Cli) * time.Millisecond,
	}
	for _, u := range o.Ups {
		us := &proxy.UpstreamStatistics{Address: c09Upstreams[u/4], QueryDuration: time.Duration(u+1) * time.Millisecond}
		us.IsCached = u%2 == 1
		if u%4 >= 2 {
			us.Error = errors.Error("upstream failed")
		}
		e.UpstreamStats = append(e.UpstreamStats, us)
	}
	return e
}

// window tells whether hour i is inside (unitHour-limH, unitHour].
func (m *c09Sim) inWindow(i uint32) bool {
	return i <= m.unitHour && uint64(i)+uint64(m.limH) > uint64(m.unitHour)
}

func (m *c09Sim) noteLimit(newH uint32) {
	if newH > m.limH {
		m.raised = true
		m.classes["limit-raised"] = true
	} else if newH < m.limH {
		m.classes["limit-lowered"] = true
	}
	m.limH = newH
}

func (m *c09Sim) noteRollover(id uint32) {
	// Hours at or below id-limit are outside the window now.
	if id > m.limH && id-m.limH > m.lostUpTo {
		m.lostUpTo = id - m.limH
	}
	if m.nAccepted > 0 {
		m.rolled = true
	}
}

func (m *c09Sim) noteClear(id uint32) {
	m.ghost = map[uint32]*[6]uint64{}
	m.lostUpTo, m.raised = 0, false
	m.unitHour = id
	if m.nAccepted > 0 {
		m.rolled = true
	}
}

// apply runs one operation on the real code and updates the ghost state.
func (m *c09Sim) apply(o c09Op) (panicked bool) {
	switch o.Kind {
	case "update":
		e := c09Entry(o)
		func() {
			defer func() {
				if p := recover(); p != nil {
					panicked = true
				}
			}()
			m.s.Update(e)
		}()
		valid := o.Res >= 1 && o.Res <= 5 && o.Dom != 0 && o.Cli != 0
		switch {
		case panicked:
			m.classes["update-panic-negative-result"] = true
		case !m.enabled:
			m.classes["update-while-disabled"] = true
		case !valid:
			m.classes["update-invalid"] = true
		default:
			g := m.ghost[m.unitHour]
			if g == nil {
				g = &[6]uint64{}
				m.ghost[m.unitHour] = g
			}
			g[0]++
			g[o.Res]++
			m.nAccepted++
			m.classes["update-accepted"] = true
			if m.rsw == 1 {
				m.rsw = 2
			}
			if m.hour.Load() != m.unitHour {
				m.classes["update-into-stale-unit"] = true
			}
		}
	case "flush":
		m.hour.Store(o.ID)
		m.s.flush()
		if o.ID == m.unitHour {
			m.classes["flush-same-hour"] = true
		} else {
			d := o.ID - m.unitHour
			switch {
			case d == 1:
				m.classes["flush-next-hour"] = true
			case d < m.limH:
				m.classes["flush-gap-inside-window"] = true
			default:
				m.classes["flush-gap-beyond-window"] = true
			}
			if m.rsw == 2 {
				m.classes["restart-same-hour-then-write"] = true
			}
			m.rsw = 0
			m.noteRollover(o.ID)
			m.unitHour = o.ID
		}
	case "restart":
		m.hour.Store(o.ID)
		dc := Config{}
		m.s.WriteDiskConfig(&dc)
		if m.rsw == 2 {
			// The bucket of this hour is written a second time.
			m.classes["restart-same-hour-then-write"] = true
		}
		if err := m.s.Close(); err != nil {
			m.fail(c09ErrClose, "Close: %v", err)
		}
		s, err := New(m.conf(dc.Limit.Milliseconds(), dc.Enabled))
		if err != nil {
			m.fail(c09ErrNew, "New after Close: %v", err)
			m.dead = true
		} else {
			s.initWeb()
			m.s = s
		}
		if o.ID == m.unitHour {
			m.classes["restart-same-hour"] = true
			m.rsw = 1
		} else {
			m.classes["restart-later-hour"] = true
			m.rsw = 0
		}
		m.noteRollover(o.ID)
		m.unitHour = o.ID
	case "clear":
		m.hour.Store(o.ID)
		w := m.call("POST", "/control/stats_reset", "")
		if w.Code != http.StatusOK {
			m.fail(c09ErrReset, "stats_reset: %d %s", w.Code, strings.TrimSpace(w.Body.String()))
		}
		m.rsw = 0
		m.classes["clear"] = true
		m.noteClear(o.ID)
	case "setdays":
		m.hour.Store(o.ID)
		w := m.call("POST", "/control/stats_config", fmt.Sprintf(`{"interval":%d}`, o.Days))
		switch {
		case w.Code != http.StatusOK:
			m.classes["setdays-rejected"] = true
		case o.Days == 0:
			m.rsw = 0
			m.classes["setdays-0-disable-and-clear"] = true
			m.enabled = false
			m.noteClear(o.ID)
		default:
			m.classes["setdays-n"] = true
			m.enabled = true
			m.noteLimit(uint32(o.Days) * 24)
		}
	case "putconfig":
		body := fmt.Sprintf(`{"enabled":%v,"interval":%d,"ignored":[]}`, o.En, o.Ms)
		w := m.call("PUT", "/control/stats/config/update", body)
		if w.Code != http.StatusOK {
			m.classes["putconfig-rejected"] = true
		} else {
			m.classes["putconfig-ok"] = true
			m.enabled = o.En
			m.noteLimit(uint32(o.Ms / c09MsHour))
		}
	}
	return panicked
}

func c09Tops(names []string, l []map[string]uint64) (ps [][2]int64) {
	ps = [][2]int64{}
	for _, mm := range l {
		for k, v := range mm {
			ps = append(ps, [2]int64{c09Key(names, k), int64(v)})
		}
	}
	sort.Slice(ps, func(i, j int) bool { return ps[i][0] < ps[j][0] })
	return ps
}

// observe reads the state through GET /control/stats, loadUnits (for the
// not-filtered counter) and the database file.
func (m *c09Sim) observe(panicked bool) (o *c09Obs) {
	o = &c09Obs{Panicked: panicked, DB: [][2]int64{}}
	for i := range o.Tops {
		o.Tops[i] = [][2]int64{}
	}
	defer func() {
		m.errMu.Lock()
		defer m.errMu.Unlock()
		o.Err, o.ErrMsgs = m.errBits, m.errMsgs
		m.errBits, m.errMsgs = 0, nil
	}()
	if m.dead {
		return o
	}
	dc := Config{}
	m.s.WriteDiskConfig(&dc)
	o.CfgMs, o.CfgEn = dc.Limit.Milliseconds(), dc.Enabled

	w := m.call("GET", "/control/stats", "")
	resp := &StatsResp{}
	if w.Code != http.StatusOK {
		m.fail(c09ErrStats, "GET /control/stats: %d %s", w.Code, strings.TrimSpace(w.Body.String()))
	} else if err := json.NewDecoder(bytes.NewReader(w.Body.Bytes())).Decode(resp); err != nil {
		m.fail(c09ErrStats, "decoding stats: %v", err)
	}
	o.Days = resp.TimeUnits == timeUnitsDays
	o.Len = len(resp.DNSQueries)
	o.Series = [4][]uint64{resp.DNSQueries, resp.BlockedFiltering, resp.ReplacedSafebrowsing, resp.ReplacedParental}
	o.Totals = [6]uint64{resp.NumDNSQueries, 0, resp.NumBlockedFiltering, resp.NumReplacedSafebrowsing,
		resp.NumReplacedSafesearch, resp.NumReplacedParental}
	o.Tops = [4][][2]int64{c09Tops(c09Domains, resp.TopQueried), c09Tops(c09Domains, resp.TopBlocked),
		c09Tops(c09Clients, resp.TopClients), c09Tops(c09Upstreams, resp.TopUpstreamsResponses)}

	func() {
		m.s.confMu.RLock()
		defer m.s.confMu.RUnlock()
		units, curID := m.s.loadUnits(uint32(m.s.limit.Hours()))
		o.CurID = curID
		if units == nil {
			// Database closed; the current unit is still there.
			m.s.currMu.RLock()
			o.CurID = m.s.curr.id
			m.s.currMu.RUnlock()
		}
		for _, u := range units {
			o.Totals[1] += u.NResult[RNotFiltered]
		}
	}()

	db := m.s.db.Load()
	if db == nil {
		m.fail(c09ErrDB, "database is closed")
		return o
	}
	err := db.View(func(tx *bbolt.Tx) error {
		return tx.ForEach(func(name []byte, _ *bbolt.Bucket) error {
			id, ok := unitNameToID(name)
			if !ok || len(name) != bucketNameLen {
				o.DB = append(o.DB, [2]int64{-1, 0})
				return nil
			}
			n := int64(-1)
			if u := m.s.loadUnitFromDB(tx, id); u != nil {
				n = int64(u.NTotal)
			}
			o.DB = append(o.DB, [2]int64{int64(id), n})
			return nil
		})
	})
	if err != nil {
		m.fail(c09ErrDB, "reading db: %v", err)
	}
	sort.Slice(o.DB, func(i, j int) bool { return o.DB[i][0] < o.DB[j][0] })
	return o
}

// monitor evaluates the property on the observation against the ghost state.
func (m *c09Sim) monitor(o *c09Obs) (ok bool, key, msg string) {
	fail := func(k, f string, a ...any) (bool, string, string) {
		return false, k, fmt.Sprintf(f, a...)
	}
	if o.Err != 0 {
		return fail("c09-op-error", "operation failed (error classes %d): %s", o.Err, strings.Join(o.ErrMsgs, "; "))
	}
	if o.CurID != m.unitHour {
		return fail("c09-current-hour", "current unit is %d, expected %d", o.CurID, m.unitHour)
	}
	var upper, lower, all [6]uint64
	for h, g := range m.ghost {
		for c := range g {
			all[c] += g[c]
			if m.inWindow(h) {
				upper[c] += g[c]
				if h > m.lostUpTo {
					lower[c] += g[c]
				}
			}
		}
	}
	if !m.raised && upper != lower {
		return fail("c09-harness", "ghost bookkeeping: limit never raised but lower %v != upper %v", lower, upper)
	}
	for c := range upper {
		if o.Totals[c] > upper[c] {
			return fail("c09-more-than-counted", "counter %d: reported %d > %d accepted updates in the window (%d,%d]",
				c, o.Totals[c], upper[c], int64(m.unitHour)-int64(m.limH), m.unitHour)
		}
		if o.Totals[c] < lower[c] {
			return fail("c09-lost", "counter %d: reported %d < %d accepted updates of hours that never left the window (%d,%d]",
				c, o.Totals[c], lower[c], int64(m.unitHour)-int64(m.limH), m.unitHour)
		}
	}
	if o.Totals[0] != o.Totals[1]+o.Totals[2]+o.Totals[3]+o.Totals[4]+o.Totals[5] {
		return fail("c09-one-category", "total %d is not the sum of the categories %v", o.Totals[0], o.Totals[1:])
	}
	if upper != lower {
		m.classes["hours-left-window-under-lower-limit"] = true
	}
	if o.Totals[0] > lower[0] {
		m.classes["undeleted-hours-reappear"] = true
	}
	if all[0] > upper[0] {
		m.classes["events-older-than-window"] = true
	}
	// Series.
	wantDays := m.limH/24 > 7
	if o.Days != wantDays {
		return fail("c09-time-units", "time units days=%v with limit %d h", o.Days, m.limH)
	}
	wantLen := int(m.limH)
	if wantDays {
		wantLen = int(m.limH / 24)
		m.classes["daily-series"] = true
		if m.unitHour%24 == 0 {
			m.classes["daily-series-at-day-boundary"] = true
		}
	} else {
		m.classes["hourly-series"] = true
	}
	tix := [4]int{0, 2, 3, 5}
	for k, s := range o.Series {
		if len(s) != wantLen {
			return fail("c09-series-len", "series %d has %d points, expected %d", k, len(s), wantLen)
		}
		var sum uint64
		for _, v := range s {
			sum += v
		}
		tot := o.Totals[tix[k]]
		if !wantDays && sum != tot {
			return fail("c09-hourly-sum", "hourly series %d sums to %d, total is %d", k, sum, tot)
		}
		if wantDays && sum > tot {
			return fail("c09-daily-sum", "daily series %d sums to %d > total %d", k, sum, tot)
		}
		if !wantDays {
			// Point i is hour unitHour-limit+1+i: exactly the updates counted in
			// that hour, or nothing if the hour once left the window.
			for i, v := range s {
				h := m.unitHour - m.limH + 1 + uint32(i)
				var g uint64
				if gh := m.ghost[h]; gh != nil {
					g = gh[tix[k]]
				}
				if v != g && !(v == 0 && h <= m.lostUpTo) {
					return fail("c09-hour-point", "series %d hour %d: reported %d, counted %d", k, h, v, g)
				}
			}
		}
	}
	return true, "", ""
}

// ---- generation

var (
	c09Limits    = []int64{1, 1, 2, 3, 3, 5, 24, 25, 48, 168, 191, 192, 200}
	c09BigLimits = []int64{720, 720, 2160, 8760, 500}
)

// c09GenLimitMs picks a retention limit; big ones (a month and more, costly
// to replay) only when the history was chosen to have them.
func c09GenLimitMs(r *vfRand, big bool) int64 {
	switch r.Intn(12) {
	case 0:
		return 5400000 // 1.5 h
	case 1:
		return int64(r.Range(1, 50))*c09MsHour + int64(r.Intn(c09MsHour))
	case 2, 3, 4:
		if big {
			return vfPick(r, c09BigLimits) * c09MsHour
		}
	}
	return vfPick(r, c09Limits) * c09MsHour
}

func c09GenUpdate(r *vfRand) c09Op {
	o := c09Op{Kind: "update", Res: 1 + r.Intn(5), Dom: 1 + r.Intn(4), Cli: 1 + r.Intn(3)}
	switch r.Intn(40) {
	case 0:
		o.Res = 0
	case 1:
		o.Res = 6 + r.Intn(3)
	case 2:
		o.Dom = 0
	case 3:
		o.Cli = 0
	}
	for n := r.Intn(3); n > 0; n-- {
		u := (1 + r.Intn(3)) * 4
		if r.Chance(1, 4) {
			u += 1 + r.Intn(3)
		}
		o.Ups = append(o.Ups, u)
	}
	return o
}

// c09GenAdvance picks how far the clock moves before a flush or restart.
func c09GenAdvance(r *vfRand, limH uint32, allowZero bool) uint32 {
	l := int64(limH)
	switch r.Intn(10) {
	case 0:
		if allowZero {
			return 0
		}
		return 1
	case 1, 2, 3, 4:
		return 1
	case 5:
		return uint32(r.Range(1, l+5))
	case 6:
		return uint32(vfPick(r, []int64{l - 1, l, l + 1, l + 2}))
	case 7:
		return uint32(r.Range(2, 4))
	case 8:
		return uint32(r.Range(1, 30))
	default:
		return 24 // a day
	}
}

func c09GenHistory(r *vfRand, steps int) (id0 uint32, ms int64, en bool, ops []c09Op) {
	id0 = uint32(r.Range(480000, 500000))
	if r.Chance(1, 4) {
		id0 -= id0 % 24 // midnight
	}
	big := r.Chance(1, 12)
	if big && steps > 14 {
		steps = 14
	}
	ms = c09GenLimitMs(r, big)
	en = !r.Chance(1, 10)
	clock := id0
	limH := uint32(ms / c09MsHour)
	ops = append(ops, c09Op{Kind: "flush", ID: clock}) // observes the initial state
	for len(ops) < steps {
		switch k := r.Intn(100); {
		case k < 55:
			for n := 1 + r.Intn(3); n > 0; n-- {
				ops = append(ops, c09GenUpdate(r))
			}
		case k < 75:
			d := c09GenAdvance(r, limH, true)
			if d == 0 || d > 100000 {
				d = 0
			}
			if r.Chance(1, 6) && d > 0 {
				// The clock moves first; updates land in the unit that is still current.
				ops = append(ops, c09GenUpdate(r))
			}
			clock += d
			ops = append(ops, c09Op{Kind: "flush", ID: clock})
		case k < 83:
			d := c09GenAdvance(r, limH, true)
			if r.Chance(1, 2) || d > 100000 {
				d = 0
			}
			clock += d
			ops = append(ops, c09Op{Kind: "restart", ID: clock})
		case k < 91:
			nms := c09GenLimitMs(r, big)
			switch r.Intn(8) {
			case 0:
				nms = int64(r.Intn(c09MsHour)) // too short
			case 1:
				nms = 365*24*c09MsHour + 1 + int64(r.Intn(1000)) // too long
			}
			nen := !r.Chance(1, 5)
			ops = append(ops, c09Op{Kind: "putconfig", Ms: nms, En: nen})
			if nms >= c09MsHour && nms <= 365*24*c09MsHour {
				limH = uint32(nms / c09MsHour)
			}
		case k < 96:
			d := vfPick(r, []int{0, 1, 1, 7, 7, 7, 1, 5, 2})
			if big {
				d = vfPick(r, []int{0, 1, 7, 30, 90, 30})
			}
			if r.Chance(1, 3) {
				clock += uint32(r.Intn(3))
			}
			ops = append(ops, c09Op{Kind: "setdays", Days: d, ID: clock})
			if d == 1 || d == 7 || d == 30 || d == 90 {
				limH = uint32(d) * 24
			}
		default:
			if r.Chance(1, 3) {
				clock += uint32(r.Intn(3))
			}
			ops = append(ops, c09Op{Kind: "clear", ID: clock})
		}
	}
	return id0, ms, en, ops
}

// c09RunHistory executes one history and emits its case.
func c09RunHistory(t *testing.T, out *vfOut, name string, id0 uint32, ms int64, en bool, ops []c09Op) {
	m := c09NewSim(t, t.TempDir(), id0, ms, en)
	defer func() {
		if m.s != nil {
			_ = m.s.Close()
		}
	}()

	steps := make([]string, 0, len(ops))
	ok, key, msg := true, "", ""
	planned := ops
	if m.dead {
		// New failed on a fresh file: reported on the (empty) history.
		ops = nil
		ob := m.observe(false)
		ok, key, msg = false, "c09-op-error", "New on a fresh file: "+strings.Join(ob.ErrMsgs, "; ")
	}
	for i, o := range ops {
		if m.dead {
			break
		}
		p := m.apply(o)
		ob := m.observe(p)
		if ok {
			if sok, k, mm := m.monitor(ob); !sok {
				ok, key, msg = false, k, fmt.Sprintf("step %d (%s): %s", i, o.coq(), mm)
			}
		}
		steps = append(steps, "("+o.coq()+", "+ob.coq()+")")
	}
	classes := make([]string, 0, len(m.classes))
	for c := range m.classes {
		classes = append(classes, c)
	}
	sort.Strings(classes)
	out.Emit(vfCase{
		Coq: fmt.Sprintf("(CHist %d %d %s %s)%%Z", id0, ms, vfBool(en), vfList("op * obs", steps)),
		// Non-trivial: at least one accepted update followed by an effective
		// flush, restart or clear.
		Nontrivial: m.rolled,
		Classes:    classes,
		MonitorOK:  ok,
		MonitorMsg: msg,
		FindingKey: key,
		Desc:       map[string]any{"name": name, "id0": id0, "limit_ms": ms, "enabled": en, "ops": planned},
	})
}

func c09Upd(res, dom, cli int, ups ...int) c09Op {
	return c09Op{Kind: "update", Res: res, Dom: dom, Cli: cli, Ups: ups}
}

// c09Prelude: one constructed history per branch class, independent of the seed.
func c09Prelude() (hs []struct {
	name string
	id0  uint32
	ms   int64
	en   bool
	ops  []c09Op
}) {
	add := func(name string, id0 uint32, hours int64, en bool, ops ...c09Op) {
		hs = append(hs, struct {
			name string
			id0  uint32
			ms   int64
			en   bool
			ops  []c09Op
		}{name, id0, hours * c09MsHour, en, ops})
	}
	fl := func(id uint32) c09Op { return c09Op{Kind: "flush", ID: id} }
	rs := func(id uint32) c09Op { return c09Op{Kind: "restart", ID: id} }
	const b = 490000
	all5 := []c09Op{c09Upd(1, 1, 1, 4), c09Upd(2, 2, 2, 8, 5), c09Upd(3, 3, 3, 12, 6), c09Upd(4, 4, 1), c09Upd(5, 1, 2, 4, 4)}
	seq := func(parts ...[]c09Op) (r []c09Op) {
		for _, p := range parts {
			r = append(r, p...)
		}
		return r
	}
	add("every category, hour by hour, window 3", b, 3, true, seq([]c09Op{fl(b)}, all5, []c09Op{fl(b + 1)}, all5[:2],
		[]c09Op{fl(b + 2)}, all5[2:], []c09Op{fl(b + 3), fl(b + 4), fl(b + 5)})...)
	add("gap beyond the window", b, 24, true, seq(all5, []c09Op{fl(b + 24)}, all5, []c09Op{fl(b + 24 + 29), fl(b + 24 + 29)})...)
	add("gap of exactly limit-1, limit, limit+1", b, 5, true, seq(all5, []c09Op{fl(b + 4)}, all5[:1], []c09Op{fl(b + 9)}, all5[:3], []c09Op{fl(b + 15)})...)
	add("restart in the same hour and later", b, 24, true, seq(all5, []c09Op{rs(b)}, all5[:2], []c09Op{rs(b + 1)}, all5[:1],
		[]c09Op{rs(b + 30), rs(b + 30)})...)
	add("restart in the same hour, more updates, second restart in that hour, then the next hour", b, 24, true,
		seq(all5, []c09Op{rs(b)}, all5, []c09Op{rs(b)}, all5[:3], []c09Op{fl(b + 1)}, all5[:1], []c09Op{rs(b + 1)}, all5[:2], []c09Op{fl(b + 2)})...)
	add("restart drops everything below id-limit-1", b, 2, true, seq(all5, []c09Op{fl(b + 1)}, all5, []c09Op{fl(b + 2)}, all5, []c09Op{fl(b + 3), rs(b + 3), rs(b + 9)})...)
	add("lower then raise the limit: undeleted hours reappear, deleted ones do not", b, 48, true,
		seq(all5, []c09Op{fl(b + 1)}, all5, []c09Op{fl(b + 2)}, all5, []c09Op{fl(b + 3),
			{Kind: "putconfig", Ms: 2 * c09MsHour, En: true}, fl(b + 4), fl(b + 5),
			{Kind: "putconfig", Ms: 48 * c09MsHour, En: true}, fl(b + 6)})...)
	add("disable through config, updates ignored, data kept", b, 24, true, seq(all5, []c09Op{{Kind: "putconfig", Ms: 24 * c09MsHour, En: false}},
		all5, []c09Op{fl(b + 1), {Kind: "putconfig", Ms: 24 * c09MsHour, En: true}}, all5)...)
	add("legacy interval 0 disables and clears; 7 re-enables", b, 24, true, seq(all5, []c09Op{fl(b + 1)}, all5,
		[]c09Op{{Kind: "setdays", Days: 0, ID: b + 2}}, all5, []c09Op{{Kind: "setdays", Days: 7, ID: b + 2}}, all5,
		[]c09Op{{Kind: "setdays", Days: 5, ID: b + 2}, fl(b + 3)})...)
	add("reset", b, 24, true, seq(all5, []c09Op{fl(b + 1)}, all5, []c09Op{{Kind: "clear", ID: b + 1}}, all5, []c09Op{{Kind: "clear", ID: b + 3}, fl(b + 3)})...)
	add("invalid entries and rejected config", b, 24, true, c09Upd(0, 1, 1), c09Upd(6, 1, 1), c09Upd(9, 1, 1), c09Upd(1, 0, 1), c09Upd(1, 1, 0),
		c09Op{Kind: "putconfig", Ms: 1000, En: true}, c09Op{Kind: "putconfig", Ms: 366 * 24 * c09MsHour, En: true}, c09Upd(2, 1, 1), fl(b+1))
	add("negative result code panics in unit.add", b, 24, true, c09Upd(1, 1, 1), c09Upd(-1, 1, 1), c09Upd(2, 1, 1), fl(b+1))
	add("started disabled", b, 24, false, seq(all5, []c09Op{fl(b + 1), {Kind: "setdays", Days: 1, ID: b + 1}}, all5, []c09Op{fl(b + 2)})...)
	// Daily series: 8 days = 192 h; at a day boundary and inside a day.
	d0 := uint32(b - b%24)
	add("daily series across midnight", d0-2, 192, true, seq(all5, []c09Op{fl(d0 - 1)}, all5, []c09Op{fl(d0)}, all5, []c09Op{fl(d0 + 1)}, all5,
		[]c09Op{fl(d0 + 24), fl(d0 + 191), fl(d0 + 192)})...)
	add("30 days, updates in the hours the daily series skips", d0+5, 720, true, seq(all5, []c09Op{fl(d0 + 24*29 + 6)}, all5[:2], []c09Op{fl(d0 + 24*30 + 4), fl(d0 + 24*30 + 5)})...)
	add("fractional limit 1.5 h", b, 0, true, seq([]c09Op{{Kind: "putconfig", Ms: 5400000, En: true}}, all5, []c09Op{fl(b + 1)}, all5)...)
	hs[len(hs)-1].ms = 2*c09MsHour + 1799999
	add("a year", b, 8760, true, seq(all5, []c09Op{fl(b + 8759)}, all5[:1], []c09Op{fl(b + 8760)})...)
	add("update lands in the stale unit after the hour changed", b, 3, true, seq(all5, []c09Op{fl(b + 1)}, all5[:2], []c09Op{fl(b + 2)})...)
	return hs
}

func TestVerifC09(t *testing.T) {
	out := vfOpen(t, "C09")
	defer out.Close()

	for _, h := range c09Prelude() {
		c09RunHistory(t, out, h.name, h.id0, h.ms, h.en, h.ops)
	}

	r := vfNewRand(out.Seed)
	n := out.Scale(450, 2000)
	for i := 0; i < n; i++ {
		rr := r.Fork(uint64(i))
		steps := 8 + rr.Intn(out.Scale(28, 60))
		id0, ms, en, ops := c09GenHistory(rr, steps)
		c09RunHistory(t, out, fmt.Sprintf("random %d", i), id0, ms, en, ops)
	}

	if out.Thorough() {
		c09Concurrent(t, out)
	}
}

// c09Concurrent: updater goroutines run across scripted flushes and API reads;
// the final totals must equal the number of updates issued (run under -race in
// the thorough tier).
func c09Concurrent(t *testing.T, out *vfOut) {
	const b = 491000
	for round := 0; round < 6; round++ {
		m := c09NewSim(t, t.TempDir(), b, 48*c09MsHour, true)
		const writers, perWriter = 8, 400
		var wg sync.WaitGroup
		var issued [6]atomic.Uint64
		for w := 0; w < writers; w++ {
			wg.Add(1)
			go func(w int) {
				defer wg.Done()
				for i := 0; i < perWriter; i++ {
					o := c09Upd(1+(w+i)%5, 1+i%4, 1+w%3, 4)
					m.s.Update(c09Entry(o))
					issued[0].Add(1)
					issued[o.Res].Add(1)
				}
			}(w)
		}
		stop := make(chan struct{})
		var rg sync.WaitGroup
		rg.Add(1)
		go func() {
			defer rg.Done()
			for {
				select {
				case <-stop:
					return
				default:
					_ = m.call("GET", "/control/stats", "")
				}
			}
		}()
		for h := uint32(1); h <= 12; h++ {
			m.hour.Store(b + h)
			m.s.flush()
		}
		wg.Wait()
		close(stop)
		rg.Wait()
		m.unitHour = b + 12
		if round%2 == 1 {
			m.apply(c09Op{Kind: "restart", ID: b + 12})
		}
		ob := m.observe(false)
		ok, msg := true, ""
		for c := range issued {
			if ob.Totals[c] != issued[c].Load() {
				ok, msg = false, fmt.Sprintf("counter %d: reported %d, issued %d concurrent updates", c, ob.Totals[c], issued[c].Load())
				break
			}
		}
		out.Class("concurrent-updates-across-flushes")
		if !ok {
			// Reported as a monitor failure on a case of its own (empty history for the model).
			out.Emit(vfCase{Coq: fmt.Sprintf("(CHist %d %d true (@nil (op * obs)))%%Z", b+round, 48*c09MsHour),
				MonitorOK: false, MonitorMsg: msg, FindingKey: "c09-concurrent-lost-update",
				Desc: map[string]any{"name": "concurrent", "round": round}})
		}
		_ = m.s.Close()
	}
}

//go:build verif

package stats

import (
	"bytes"
	"context"
	"encoding/json"
	"fmt"
	"log/slog"
	"math"
	"net/http"
	"net/http/httptest"
	"os"
	"path/filepath"
	"reflect"
	"sort"
	"strings"
	"sync"
	"sync/atomic"
	"testing"
	"time"

	"github.com/AdguardTeam/AdGuardHome/internal/aghalg"
	"github.com/AdguardTeam/AdGuardHome/internal/aghnet"
	"github.com/AdguardTeam/dnsproxy/proxy"
	"github.com/AdguardTeam/golibs/errors"
	"go.etcd.io/bbolt"
)

// ---- names <-> model keys

// c09MaxNames: keys 1..c09MaxNames exist for domains and clients (more than
// the 100 that survive serialisation); random updates use the first few.
const c09MaxNames = 135

var (
	c09Domains = c09MakeNames(func(i int) string { return fmt.Sprintf("d%d.example", i) })
	c09Clients = c09MakeNames(func(i int) string {
		if i == 3 {
			return "fe80::3"
		}
		return fmt.Sprintf("10.0.%d.%d", i/200, 1+i%200)
	})
	c09Upstreams = c09MakeNames(func(i int) string {
		switch i {
		case 1:
			return "8.8.8.8:53"
		case 2:
			return "1.1.1.1:53"
		case 3:
			return "tls://9.9.9.9"
		}
		return fmt.Sprintf("10.9.%d.%d:53", i/200, 1+i%200)
	})
)

// c09UpDur: how long the upstream of code u (key*4 + flags) took.  Upstream 3
// answers in 400 ns (0 whole microseconds: responses without a time sum).
func c09UpDur(u int, o c09Op) time.Duration {
	if u/4 == 3 {
		return 400 * time.Nanosecond
	}
	// Some microseconds depending on the query, and a part below a microsecond
	// that Duration.Microseconds() drops.
	salt := (o.Dom*7 + o.Cli*3) % 11
	return time.Duration(u+1)*time.Millisecond + time.Duration(salt)*137*time.Microsecond + 300*time.Nanosecond
}

func c09MakeNames(f func(int) string) []string {
	l := make([]string, c09MaxNames+1)
	for i := 1; i <= c09MaxNames; i++ {
		l[i] = f(i)
	}
	return l
}

var c09KeyMaps = map[*string]map[string]int64{}

func c09Key(names []string, n string) int64 {
	km := c09KeyMaps[&names[0]]
	if km == nil {
		km = map[string]int64{}
		for i, s := range names {
			km[s] = int64(i)
		}
		c09KeyMaps[&names[0]] = km
	}
	if i, ok := km[n]; ok {
		return i
	}
	return -1
}

const c09MsHour = 3600000

// ---- operations

type c09Op struct {
	Kind string `json:"op"` // update flush restart clear setdays putconfig reset
	// update
	Res int   `json:"res,omitempty"`
	Dom int   `json:"dom,omitempty"`
	Cli int   `json:"cli,omitempty"`
	Ups []int `json:"ups,omitempty"`  // upstream key*4 + (cached?1:0) + (error?2:0)
	T   int64 `json:"t_ns,omitempty"` // processing time in nanoseconds
	// no observation after this step (inside a burst of updates)
	Skip bool `json:"skip,omitempty"`
	// reset: POST /control/stats_reset with clear() paused on the debug record
	// Window ("database closed": db pointer nil; "database opened": new
	// database stored, current unit not yet replaced); there the clock moves
	// to ID and the hourly flush runs if confMu is free.  Landed is filled in
	// by apply: the flush ran inside the window.
	Window string `json:"window,omitempty"`
	Landed bool   `json:"landed,omitempty"`
	// clock after the step's advance (flush, restart, clear, setdays)
	ID uint32 `json:"id,omitempty"`
	// setdays
	Days int `json:"days,omitempty"`
	// putconfig
	Ms int64 `json:"ms,omitempty"`
	En bool  `json:"en,omitempty"`
}

func (o c09Op) coq() string {
	switch o.Kind {
	case "update":
		ups := []string{}
		for _, u := range o.Ups {
			ups = append(ups, fmt.Sprintf("(%d, %s, %d)", u/4, vfBool(u%4 == 0), c09UpDur(u, o).Microseconds()))
		}
		return fmt.Sprintf("OUpdate (mkE %s %d %d %s %d)", c09Int(int64(o.Res)), o.Dom, o.Cli, vfList("Z * bool * Z", ups), o.T/1000)
	case "flush":
		return fmt.Sprintf("OFlush %d", o.ID)
	case "restart":
		return fmt.Sprintf("ORestart %d", o.ID)
	case "clear":
		return fmt.Sprintf("OClear %d", o.ID)
	case "setdays":
		return fmt.Sprintf("OSetDays %d %d", o.Days, o.ID)
	case "putconfig":
		return fmt.Sprintf("OPutConfig %s %s", c09Int(o.Ms), vfBool(o.En))
	}
	panic("bad op")
}

// coqSteps: the model operations of one harness step with its observation;
// a reset is its three steps, with the flush where it ran.
func (o c09Op) coqSteps(ob string) []string {
	if o.Kind != "reset" {
		return []string{"(" + o.coq() + ", " + ob + ")"}
	}
	fl := fmt.Sprintf("(OFlush %d, ObsSkip)", o.ID)
	steps := []string{"(OClearClose, ObsSkip)"}
	if o.Landed && o.Window == c09WinClosed {
		steps = append(steps, fl)
	}
	steps = append(steps, "(OClearReopen, ObsSkip)")
	if o.Landed && o.Window == c09WinOpened {
		steps = append(steps, fl)
	}
	if o.Landed {
		steps = append(steps, fmt.Sprintf("(OClearFinish %d, %s)", o.ID, ob))
	} else {
		// The handler held confMu: the flush ran after the reset.
		steps = append(steps, fmt.Sprintf("(OClearFinish %d, ObsSkip)", o.ID), fmt.Sprintf("(OFlush %d, %s)", o.ID, ob))
	}
	return steps
}

const (
	c09WinClosed = "database closed"
	c09WinOpened = "database opened"
)

func c09Int(i int64) string {
	if i < 0 {
		return fmt.Sprintf("(%d)", i)
	}
	return fmt.Sprintf("%d", i)
}

// ---- observations

// Error classes of a step (bits of c09Obs.Err); the model expects 0.
const (
	c09ErrClose  = 1   // Close returned an error
	c09ErrNew    = 2   // New returned an error (the history stops there)
	c09ErrReset  = 4   // POST /control/stats_reset did not answer 200
	c09ErrStats  = 8   // GET /control/stats did not answer 200 / undecodable
	c09ErrLogged = 16  // the code logged at error level during the step
	c09ErrDB     = 32  // the database file could not be read back
	c09ErrStop   = 64  // flush told the periodic flusher to stop although there is a current unit
	c09ErrConfig = 128 // GET /control/stats/config or stats_info failed or disagrees with WriteDiskConfig
)

type c09Obs struct {
	Panicked bool
	Err      int
	CfgMs    int64
	CfgEn    bool
	CurID    uint32
	Totals   [6]uint64 // total, nf, f, sb, ss, p
	Days     bool
	Len      int
	Series   [4][]uint64 // dns, blocked, sb, parental
	Tops     [4][][2]int64
	DB       [][2]int64
	Avg      int64 // avg_processing_time, whole microseconds
	Info     int64 // GET /control/stats_info: interval in days
	TopIPs   []int64
	// Upstreams, as exact integers read through loadUnits: per upstream of the
	// merged responses with a non-zero merged time sum (key, microseconds,
	// responses); UpAll: every upstream of either merged map.
	UpAvg   [][3]int64
	UpAll   map[int64][2]uint64 // key -> (responses, microseconds)
	UpAPI   []c09UpFloat        // top_upstreams_avg_time as answered
	ErrMsgs []string
}

type c09UpFloat struct {
	Key int64
	Val float64
}

func c09Pairs(ps [][2]int64) string {
	items := make([]string, len(ps))
	for i, p := range ps {
		items[i] = fmt.Sprintf("(%d, %d)", p[0], p[1])
	}
	return vfList("Z * Z", items)
}

func c09Sparse(s []uint64) string {
	ps := [][2]int64{}
	for i, v := range s {
		if v != 0 {
			ps = append(ps, [2]int64{int64(i), int64(v)})
		}
	}
	return c09Pairs(ps)
}

func (o *c09Obs) coq() string {
	tot := make([]string, 6)
	for i, v := range o.Totals {
		tot[i] = fmt.Sprint(v)
	}
	ser := make([]string, 4)
	for i := range o.Series {
		ser[i] = c09Sparse(o.Series[i])
	}
	tops := make([]string, 4)
	for i := range o.Tops {
		tops[i] = c09Pairs(o.Tops[i])
	}
	ips := make([]string, len(o.TopIPs))
	for i, k := range o.TopIPs {
		ips[i] = fmt.Sprint(k)
	}
	ups := make([]string, len(o.UpAvg))
	for i, e := range o.UpAvg {
		ups[i] = fmt.Sprintf("(%d, (%d, %d))", e[0], e[1], e[2])
	}
	return fmt.Sprintf("Obs %s %d %d %s %d %s %s %d %s %s %s %d %d %s %s", vfBool(o.Panicked), o.Err, o.CfgMs, vfBool(o.CfgEn),
		o.CurID, vfList("Z", tot), vfBool(o.Days), o.Len, vfList("list (Z * Z)", ser),
		vfList("list (Z * Z)", tops), c09Pairs(o.DB), o.Avg, o.Info, vfList("Z", ips), vfList("Z * (Z * Z)", ups))
}

// ---- the system under test plus the harness' own bookkeeping

type c09Sim struct {
	t      testing.TB
	file   string
	hour   atomic.Uint32
	s      *StatsCtx
	routes map[string]http.HandlerFunc

	// Independent ghost state, kept per the property statement only.
	ghost     map[uint32]*[6]uint64          // hour -> accepted, un-cleared updates (total, nf..p)
	ghostUp   map[uint32]map[int64][2]uint64 // hour -> upstream -> (counted responses, their microseconds)
	unitHour  uint32                         // the hour that is current for counting
	limH      uint32                         // retention limit in hours
	enabled   bool
	lostUpTo  uint32 // hours <= lostUpTo were outside the window at some flush/restart since the last clear
	raised    bool   // the limit has been raised since the last clear
	classes   map[string]bool
	nAccepted int
	rolled    bool // an effective flush/restart/clear happened after an accepted update

	// Errors of the current step: nothing is fatal, everything is observed.
	errMu   sync.Mutex
	errBits int
	errMsgs []string
	dead    bool // New failed: no instance to continue with

	// restart-same-hour-then-write: 1 after a restart in the same hour, 2 after
	// an accepted update following it.
	rsw int

	// Microseconds and updates counted in the hour that is current.
	hourUs, hourN uint64
	// Hour ids so small that id-limit-1 wraps: outside the property's domain
	// (real hours are about 5e5); the model is still compared.
	exempt bool

	// hook, when set, is called with the message of every debug record.
	hook func(msg string)

	// countHook, when set, is called from inside Config.ShouldCountClient
	// (dataFromUnits calls it while GET /control/stats builds the top clients,
	// after the units were loaded and before the counters are summed).
	countHook atomic.Pointer[func()]

	// idHook, when set, is called from inside Config.UnitID: by the periodic
	// worker's flush, by New, by the handlers (zz_verif_C09worker_test.go tells
	// them apart by the call stack).
	idHook atomic.Pointer[func()]
}

func (m *c09Sim) fail(bit int, f string, a ...any) {
	m.errMu.Lock()
	defer m.errMu.Unlock()
	m.errBits |= bit
	if len(m.errMsgs) < 4 {
		m.errMsgs = append(m.errMsgs, fmt.Sprintf(f, a...))
	}
}

// c09LogHandler turns error-level log records of the code into observables.
type c09LogHandler struct{ m *c09Sim }

func (h c09LogHandler) Enabled(_ context.Context, l slog.Level) bool {
	return l >= slog.LevelError || h.m.hook != nil
}
func (h c09LogHandler) Handle(_ context.Context, r slog.Record) error {
	if r.Level < slog.LevelError {
		if hook := h.m.hook; hook != nil && r.Level == slog.LevelDebug {
			hook(r.Message)
		}
		return nil
	}
	if r.Message == "http error" {
		// aghhttp.ErrorAndLog: a rejected request; the status code is observed instead.
		return nil
	}
	msg := r.Message
	r.Attrs(func(a slog.Attr) bool { msg += " " + a.Key + "=" + a.Value.String(); return true })
	h.m.fail(c09ErrLogged, "logged: %s", msg)
	return nil
}
func (h c09LogHandler) WithAttrs([]slog.Attr) slog.Handler { return h }
func (h c09LogHandler) WithGroup(string) slog.Handler      { return h }

func (m *c09Sim) conf(ms int64, en bool) Config {
	ign, err := aghnet.NewIgnoreEngine(nil)
	if err != nil {
		panic(err)
	}
	return Config{
		Ignored: ign,
		Logger:  slog.New(c09LogHandler{m}),
		UnitID: func() uint32 {
			if h := m.idHook.Load(); h != nil {
				(*h)()
			}
			return m.hour.Load()
		},
		ConfigModified: func() {},
		ShouldCountClient: func([]string) bool {
			if h := m.countHook.Load(); h != nil {
				(*h)()
			}
			return true
		},
		HTTPRegister: func(method, url string, h http.HandlerFunc) {
			m.routes[method+" "+url] = h
		},
		Filename: m.file,
		Limit:    time.Duration(ms) * time.Millisecond,
		Enabled:  en,
	}
}

func c09NewSim(t testing.TB, dir string, id0 uint32, ms int64, en bool) *c09Sim {
	m := &c09Sim{t: t, file: filepath.Join(dir, "stats.db"), routes: map[string]http.HandlerFunc{},
		ghost: map[uint32]*[6]uint64{}, ghostUp: map[uint32]map[int64][2]uint64{}, classes: map[string]bool{}}
	m.hour.Store(id0)
	m.unitHour, m.limH, m.enabled = id0, uint32(ms/c09MsHour), en
	s, err := New(m.conf(ms, en))
	if err != nil {
		m.fail(c09ErrNew, "New: %v", err)
		m.dead = true
		return m
	}
	s.initWeb()
	m.s = s
	return m
}

func (m *c09Sim) call(method, url string, body string) *httptest.ResponseRecorder {
	h := m.routes[method+" "+url]
	if h == nil {
		panic("harness: no route " + method + " " + url)
	}
	w := httptest.NewRecorder()
	r := httptest.NewRequest(method, url, strings.NewReader(body))
	r.Header.Set("Content-Type", "application/json")
	h(w, r)
	return w
}

func c09Entry(o c09Op) *Entry {
	e := &Entry{
		Client:         c09Clients[o.Cli],
		Domain:         c09Domains[o.Dom],
		Result:         Result(o.Res),
		ProcessingTime: time.Duration(o.T),
	}
	for _, u := range o.Ups {
		us := &proxy.UpstreamStatistics{Address: c09Upstreams[u/4], QueryDuration: c09UpDur(u, o)}
		us.IsCached = u%2 == 1
		if u%4 >= 2 {
			us.Error = errors.Error("upstream failed")
		}
		e.UpstreamStats = append(e.UpstreamStats, us)
	}
	return e
}

// window tells whether hour i is inside (unitHour-limH, unitHour].
func (m *c09Sim) inWindow(i uint32) bool {
	return i <= m.unitHour && uint64(i)+uint64(m.limH) > uint64(m.unitHour)
}

func (m *c09Sim) noteLimit(newH uint32) {
	if newH != m.limH {
		// An hour with counted updates sits exactly at the edge of the new window.
		for h, g := range m.ghost {
			if g[0] > 0 && (h+newH == m.unitHour || h+newH == m.unitHour+1) {
				m.classes["limit-change-at-window-edge"] = true
			}
		}
	}
	if newH > m.limH {
		m.raised = true
		m.classes["limit-raised"] = true
	} else if newH < m.limH {
		m.classes["limit-lowered"] = true
	}
	m.limH = newH
}

// flush runs the hourly flush once, as periodicFlush does.
func (m *c09Sim) flush() {
	if cont, _ := m.s.flush(); !cont {
		m.fail(c09ErrStop, "flush returned cont=false: the periodic flusher would stop")
	}
}

// noteHourEnd classifies the hour that stops being current.
func (m *c09Sim) noteHourEnd() {
	if m.hourN > 0 && m.hourUs/m.hourN == 0 {
		m.classes["hour-avg-below-1us"] = true
	}
	m.hourUs, m.hourN = 0, 0
}

func (m *c09Sim) noteRollover(id uint32) {
	// Hours at or below id-limit are outside the window now.
	if id > m.limH && id-m.limH > m.lostUpTo {
		m.lostUpTo = id - m.limH
	}
	if m.nAccepted > 0 {
		m.rolled = true
	}
}

// noteUpstreams: the upstream responses of an accepted update that count
// (not cached, no error), in the hour that is current.
func (m *c09Sim) noteUpstreams(o c09Op) {
	for _, u := range o.Ups {
		if u%4 != 0 {
			m.classes["upstream-cached-or-failed"] = true
			continue
		}
		g := m.ghostUp[m.unitHour]
		if g == nil {
			g = map[int64][2]uint64{}
			m.ghostUp[m.unitHour] = g
		}
		e := g[int64(u/4)]
		e[0]++
		e[1] += uint64(c09UpDur(u, o).Microseconds())
		g[int64(u/4)] = e
		if len(g) > maxUpstreams {
			m.classes["upstreams-cut-to-100"] = true
		}
	}
}

func (m *c09Sim) noteClear(id uint32) {
	m.ghost = map[uint32]*[6]uint64{}
	m.ghostUp = map[uint32]map[int64][2]uint64{}
	m.lostUpTo, m.raised = 0, false
	m.unitHour = id
	if m.nAccepted > 0 {
		m.rolled = true
	}
}

// apply runs one operation on the real code and updates the ghost state.
func (m *c09Sim) apply(o *c09Op) (panicked bool) {
	switch o.Kind {
	case "update":
		e := c09Entry(*o)
		func() {
			defer func() {
				if p := recover(); p != nil {
					panicked = true
				}
			}()
			m.s.Update(e)
		}()
		valid := o.Res >= 1 && o.Res <= 5 && o.Dom != 0 && o.Cli != 0
		switch {
		case panicked:
			m.classes["update-panic-negative-result"] = true
		case !m.enabled:
			m.classes["update-while-disabled"] = true
		case !valid:
			m.classes["update-invalid"] = true
		default:
			g := m.ghost[m.unitHour]
			if g == nil {
				g = &[6]uint64{}
				m.ghost[m.unitHour] = g
			}
			g[0]++
			g[o.Res]++
			m.nAccepted++
			m.hourUs += uint64(o.T / 1000)
			m.hourN++
			m.classes["update-accepted"] = true
			m.noteUpstreams(*o)
			if m.rsw == 1 {
				m.rsw = 2
			}
			if m.hour.Load() != m.unitHour {
				m.classes["update-into-stale-unit"] = true
			}
		}
	case "flush":
		m.hour.Store(o.ID)
		m.flush()
		if o.ID == m.unitHour {
			m.classes["flush-same-hour"] = true
		} else {
			d := o.ID - m.unitHour
			switch {
			case d == 1:
				m.classes["flush-next-hour"] = true
			case d < m.limH:
				m.classes["flush-gap-inside-window"] = true
			default:
				m.classes["flush-gap-beyond-window"] = true
			}
			if m.rsw == 2 {
				m.classes["restart-same-hour-then-write"] = true
			}
			m.rsw = 0
			m.noteHourEnd()
			m.noteRollover(o.ID)
			m.unitHour = o.ID
		}
	case "restart":
		m.hour.Store(o.ID)
		dc := Config{}
		m.s.WriteDiskConfig(&dc)
		if m.rsw == 2 {
			// The bucket of this hour is written a second time.
			m.classes["restart-same-hour-then-write"] = true
		}
		if err := m.s.Close(); err != nil {
			m.fail(c09ErrClose, "Close: %v", err)
		}
		// The periodic flusher is still running after Close: with the database
		// pointer nil its flush changes nothing and asks to be called again.
		m.flush()
		s, err := New(m.conf(dc.Limit.Milliseconds(), dc.Enabled))
		if err != nil {
			m.fail(c09ErrNew, "New after Close: %v", err)
			m.dead = true
		} else {
			s.initWeb()
			m.s = s
		}
		if o.ID == m.unitHour {
			m.classes["restart-same-hour"] = true
			m.rsw = 1
		} else {
			m.classes["restart-later-hour"] = true
			m.rsw = 0
			m.noteHourEnd()
		}
		m.noteRollover(o.ID)
		m.unitHour = o.ID
	case "reset":
		// clear() is paused on a debug record; the clock moves and the hourly
		// flush runs there unless the handler holds confMu (then it runs
		// right after the reset, as the blocked flusher would).
		armed := true
		m.hook = func(msg string) {
			if !armed || msg != o.Window {
				return
			}
			armed = false
			m.hour.Store(o.ID)
			if m.s.confMu.TryRLock() {
				m.s.confMu.RUnlock()
				o.Landed = true
				m.flush()
			}
		}
		w := m.call("POST", "/control/stats_reset", "")
		m.hook = nil
		if w.Code != http.StatusOK {
			m.fail(c09ErrReset, "stats_reset: %d %s", w.Code, strings.TrimSpace(w.Body.String()))
		}
		if armed {
			m.fail(c09ErrReset, "stats_reset: clear() did not log %q", o.Window)
			m.hour.Store(o.ID)
		}
		if !o.Landed {
			m.flush()
		}
		m.rsw = 0
		m.classes["reset-with-flush-at-"+strings.ReplaceAll(o.Window, " ", "-")] = true
		if o.Landed {
			m.classes["reset-not-under-confmu"] = true
		}
		m.noteHourEnd()
		m.noteClear(o.ID)
	case "clear":
		m.hour.Store(o.ID)
		w := m.call("POST", "/control/stats_reset", "")
		if w.Code != http.StatusOK {
			m.fail(c09ErrReset, "stats_reset: %d %s", w.Code, strings.TrimSpace(w.Body.String()))
		}
		m.rsw = 0
		m.classes["clear"] = true
		m.noteHourEnd()
		m.noteClear(o.ID)
	case "setdays":
		m.hour.Store(o.ID)
		w := m.call("POST", "/control/stats_config", fmt.Sprintf(`{"interval":%d}`, o.Days))
		switch {
		case w.Code != http.StatusOK:
			m.classes["setdays-rejected"] = true
		case o.Days == 0:
			m.rsw = 0
			m.classes["setdays-0-disable-and-clear"] = true
			m.enabled = false
			m.noteHourEnd()
			m.noteClear(o.ID)
		default:
			m.classes["setdays-n"] = true
			m.enabled = true
			m.noteLimit(uint32(o.Days) * 24)
		}
	case "putconfig":
		body := fmt.Sprintf(`{"enabled":%v,"interval":%d,"ignored":[]}`, o.En, o.Ms)
		w := m.call("PUT", "/control/stats/config/update", body)
		if w.Code != http.StatusOK {
			m.classes["putconfig-rejected"] = true
		} else {
			m.classes["putconfig-ok"] = true
			m.enabled = o.En
			m.noteLimit(uint32(o.Ms / c09MsHour))
		}
	}
	return panicked
}

func c09Tops(names []string, l []map[string]uint64) (ps [][2]int64) {
	ps = [][2]int64{}
	for _, mm := range l {
		for k, v := range mm {
			ps = append(ps, [2]int64{c09Key(names, k), int64(v)})
		}
	}
	sort.Slice(ps, func(i, j int) bool { return ps[i][0] < ps[j][0] })
	return ps
}

// observe reads the state through GET /control/stats, loadUnits (for the
// not-filtered counter) and the database file.
func (m *c09Sim) observe(panicked bool) (o *c09Obs) {
	o = &c09Obs{Panicked: panicked, DB: [][2]int64{}, UpAvg: [][3]int64{}}
	for i := range o.Tops {
		o.Tops[i] = [][2]int64{}
	}
	defer func() {
		m.errMu.Lock()
		defer m.errMu.Unlock()
		o.Err, o.ErrMsgs = m.errBits, m.errMsgs
		m.errBits, m.errMsgs = 0, nil
	}()
	if m.dead {
		return o
	}
	dc := Config{}
	m.s.WriteDiskConfig(&dc)
	o.CfgMs, o.CfgEn = dc.Limit.Milliseconds(), dc.Enabled

	// The other readers: the two configuration endpoints and TopClientsIP.
	info := configResp{}
	if w := m.call("GET", "/control/stats_info", ""); w.Code != http.StatusOK || json.Unmarshal(w.Body.Bytes(), &info) != nil {
		m.fail(c09ErrConfig, "GET /control/stats_info: %d %s", w.Code, strings.TrimSpace(w.Body.String()))
	}
	o.Info = int64(info.IntervalDays)
	gc := getConfigResp{}
	if w := m.call("GET", "/control/stats/config", ""); w.Code != http.StatusOK || json.Unmarshal(w.Body.Bytes(), &gc) != nil {
		m.fail(c09ErrConfig, "GET /control/stats/config: %d %s", w.Code, strings.TrimSpace(w.Body.String()))
	} else if int64(gc.Interval) != o.CfgMs || (gc.Enabled == aghalg.NBTrue) != o.CfgEn || gc.Enabled == aghalg.NBNull {
		m.fail(c09ErrConfig, "GET /control/stats/config says interval %v enabled %v, WriteDiskConfig %d %v", gc.Interval, gc.Enabled, o.CfgMs, o.CfgEn)
	}
	o.TopIPs = []int64{}
	for _, ip := range m.s.TopClientsIP(1000) {
		o.TopIPs = append(o.TopIPs, c09Key(c09Clients, ip.String()))
	}
	sort.Slice(o.TopIPs, func(i, j int) bool { return o.TopIPs[i] < o.TopIPs[j] })
	if len(o.TopIPs) > 0 {
		m.classes["top-clients-ip"] = true
	}
	switch {
	case o.Info == 90 && o.CfgMs != 90*24*c09MsHour:
		m.classes["stats-info-custom-interval-as-90"] = true
	case o.Info == 0:
		m.classes["stats-info-disabled"] = true
	}

	w := m.call("GET", "/control/stats", "")
	resp := &StatsResp{}
	if w.Code != http.StatusOK {
		m.fail(c09ErrStats, "GET /control/stats: %d %s", w.Code, strings.TrimSpace(w.Body.String()))
	} else if err := json.NewDecoder(bytes.NewReader(w.Body.Bytes())).Decode(resp); err != nil {
		m.fail(c09ErrStats, "decoding stats: %v", err)
	}
	o.Days = resp.TimeUnits == timeUnitsDays
	o.Len = len(resp.DNSQueries)
	o.Series = [4][]uint64{resp.DNSQueries, resp.BlockedFiltering, resp.ReplacedSafebrowsing, resp.ReplacedParental}
	o.Totals = [6]uint64{resp.NumDNSQueries, 0, resp.NumBlockedFiltering, resp.NumReplacedSafebrowsing,
		resp.NumReplacedSafesearch, resp.NumReplacedParental}
	o.Tops = [4][][2]int64{c09Tops(c09Domains, resp.TopQueried), c09Tops(c09Domains, resp.TopBlocked),
		c09Tops(c09Clients, resp.TopClients), c09Tops(c09Upstreams, resp.TopUpstreamsResponses)}
	for _, mm := range resp.TopUpstreamsAvgTime {
		for k, v := range mm {
			o.UpAPI = append(o.UpAPI, c09UpFloat{c09Key(c09Upstreams, k), v})
		}
	}
	// float64(whole microseconds) * 1e-6, below 2^32: the rounding is exact.
	o.Avg = int64(math.Round(resp.AvgProcessingTime * 1e6))
	for i := range o.Tops[:3] {
		if len(o.Tops[i]) == maxDomains {
			m.classes["top-list-cut-to-100"] = true
		}
	}
	if resp.NumDNSQueries > 0 && o.Avg == 0 {
		m.classes["avg-time-zero-with-queries"] = true
	}

	func() {
		m.s.confMu.RLock()
		defer m.s.confMu.RUnlock()
		units, curID := m.s.loadUnits(uint32(m.s.limit.Hours()))
		o.CurID = curID
		if units == nil {
			// Database closed; the current unit is still there.
			m.s.currMu.RLock()
			o.CurID = m.s.curr.id
			m.s.currMu.RUnlock()
		}
		upN, upT := map[string]uint64{}, map[string]uint64{}
		for _, u := range units {
			o.Totals[1] += u.NResult[RNotFiltered]
			for _, cp := range u.UpstreamsResponses {
				upN[cp.Name] += cp.Count
			}
			for _, cp := range u.UpstreamsTimeSum {
				upT[cp.Name] += cp.Count
			}
		}
		o.UpAll = map[int64][2]uint64{}
		for name, n := range upN {
			k := c09Key(c09Upstreams, name)
			o.UpAll[k] = [2]uint64{n, upT[name]}
			if t := upT[name]; t != 0 {
				o.UpAvg = append(o.UpAvg, [3]int64{k, int64(t), int64(n)})
			}
		}
		for name, t := range upT {
			if _, ok := upN[name]; !ok {
				o.UpAll[c09Key(c09Upstreams, name)] = [2]uint64{0, t}
			}
		}
		sort.Slice(o.UpAvg, func(i, j int) bool { return o.UpAvg[i][0] < o.UpAvg[j][0] })
	}()

	db := m.s.db.Load()
	if db == nil {
		m.fail(c09ErrDB, "database is closed")
		return o
	}
	err := db.View(func(tx *bbolt.Tx) error {
		return tx.ForEach(func(name []byte, _ *bbolt.Bucket) error {
			id, ok := unitNameToID(name)
			if !ok || len(name) != bucketNameLen {
				o.DB = append(o.DB, [2]int64{-1, 0})
				return nil
			}
			n := int64(-1)
			if u := m.s.loadUnitFromDB(tx, id); u != nil {
				n = int64(u.NTotal)
			}
			o.DB = append(o.DB, [2]int64{int64(id), n})
			return nil
		})
	})
	if err != nil {
		m.fail(c09ErrDB, "reading db: %v", err)
	}
	sort.Slice(o.DB, func(i, j int) bool { return o.DB[i][0] < o.DB[j][0] })
	return o
}

// monitor evaluates the property on the observation against the ghost state.
func (m *c09Sim) monitor(o *c09Obs) (ok bool, key, msg string) {
	fail := func(k, f string, a ...any) (bool, string, string) {
		return false, k, fmt.Sprintf(f, a...)
	}
	if o.Err != 0 {
		return fail("c09-op-error", "operation failed (error classes %d): %s", o.Err, strings.Join(o.ErrMsgs, "; "))
	}
	if m.exempt {
		m.classes["hour-id-below-limit-uint32-wrap"] = true
		return true, "", ""
	}
	if o.CurID != m.unitHour {
		return fail("c09-current-hour", "current unit is %d, expected %d", o.CurID, m.unitHour)
	}
	var upper, lower, all [6]uint64
	for h, g := range m.ghost {
		for c := range g {
			all[c] += g[c]
			if m.inWindow(h) {
				upper[c] += g[c]
				if h > m.lostUpTo {
					lower[c] += g[c]
				}
			}
		}
	}
	if !m.raised && upper != lower {
		return fail("c09-harness", "ghost bookkeeping: limit never raised but lower %v != upper %v", lower, upper)
	}
	for c := range upper {
		if o.Totals[c] > upper[c] {
			return fail("c09-more-than-counted", "counter %d: reported %d > %d accepted updates in the window (%d,%d]",
				c, o.Totals[c], upper[c], int64(m.unitHour)-int64(m.limH), m.unitHour)
		}
		if o.Totals[c] < lower[c] {
			return fail("c09-lost", "counter %d: reported %d < %d accepted updates of hours that never left the window (%d,%d]",
				c, o.Totals[c], lower[c], int64(m.unitHour)-int64(m.limH), m.unitHour)
		}
	}
	if o.Totals[0] != o.Totals[1]+o.Totals[2]+o.Totals[3]+o.Totals[4]+o.Totals[5] {
		return fail("c09-one-category", "total %d is not the sum of the categories %v", o.Totals[0], o.Totals[1:])
	}
	if upper != lower {
		m.classes["hours-left-window-under-lower-limit"] = true
	}
	if o.Totals[0] > lower[0] {
		m.classes["undeleted-hours-reappear"] = true
	}
	if all[0] > upper[0] {
		m.classes["events-older-than-window"] = true
	}
	// Series.
	wantDays := m.limH/24 > 7
	if o.Days != wantDays {
		return fail("c09-time-units", "time units days=%v with limit %d h", o.Days, m.limH)
	}
	wantLen := int(m.limH)
	if wantDays {
		wantLen = int(m.limH / 24)
		m.classes["daily-series"] = true
		if m.limH%24 != 0 {
			m.classes["daily-series-limit-not-multiple-of-24"] = true
		}
		if m.unitHour%24 == 0 {
			m.classes["daily-series-at-day-boundary"] = true
		}
	} else {
		m.classes["hourly-series"] = true
	}
	tix := [4]int{0, 2, 3, 5}
	for k, s := range o.Series {
		if len(s) != wantLen {
			return fail("c09-series-len", "series %d has %d points, expected %d", k, len(s), wantLen)
		}
		var sum uint64
		for _, v := range s {
			sum += v
		}
		tot := o.Totals[tix[k]]
		if !wantDays && sum != tot {
			return fail("c09-hourly-sum", "hourly series %d sums to %d, total is %d", k, sum, tot)
		}
		if wantDays && sum > tot {
			return fail("c09-daily-sum", "daily series %d sums to %d > total %d", k, sum, tot)
		}
		if !wantDays {
			// Point i is hour unitHour-limit+1+i: exactly the updates counted in
			// that hour, or nothing if the hour once left the window.
			for i, v := range s {
				h := m.unitHour - m.limH + 1 + uint32(i)
				var g uint64
				if gh := m.ghost[h]; gh != nil {
					g = gh[tix[k]]
				}
				if v != g && !(v == 0 && h <= m.lostUpTo) {
					return fail("c09-hour-point", "series %d hour %d: reported %d, counted %d", k, h, v, g)
				}
			}
		}
	}
	// Upstreams, exact integers: per upstream the responses and the sum of
	// their durations over the window, as for the counters; an hour with more
	// than 100 upstreams was cut, then only the upper bound holds.
	keys := map[int64]bool{}
	cut := false
	for h, g := range m.ghostUp {
		if !m.inWindow(h) {
			continue
		}
		if len(g) > maxUpstreams {
			cut = true
		}
		for k := range g {
			keys[k] = true
		}
	}
	for k := range o.UpAll {
		keys[k] = true
	}
	for k := range keys {
		var up, lo [2]uint64
		for h, g := range m.ghostUp {
			if e, ok := g[k]; ok && m.inWindow(h) {
				up[0], up[1] = up[0]+e[0], up[1]+e[1]
				if h > m.lostUpTo {
					lo[0], lo[1] = lo[0]+e[0], lo[1]+e[1]
				}
			}
		}
		got := o.UpAll[k]
		for x, what := range [2]string{"responses", "microseconds"} {
			if got[x] > up[x] {
				return fail("c09-upstream-more-than-counted", "upstream %s: %d %s reported, %d counted in the window", c09Upstreams[k], got[x], what, up[x])
			}
			if !cut && got[x] < lo[x] {
				return fail("c09-upstream-lost", "upstream %s: %d %s reported, %d counted in hours that never left the window", c09Upstreams[k], got[x], what, lo[x])
			}
		}
		if got[0] > 0 && got[1] == 0 {
			m.classes["upstream-responses-without-time-sum"] = true
		}
	}
	// The answered averages: exactly the upstreams with responses and a non-zero
	// sum, each the one floating-point expression of the code over those two
	// integers, largest first.
	if len(o.UpAPI) != len(o.UpAvg) {
		return fail("c09-upstream-avg", "top_upstreams_avg_time has %d entries, %d upstreams have responses and a time sum: %v vs %v", len(o.UpAPI), len(o.UpAvg), o.UpAPI, o.UpAvg)
	}
	for i, a := range o.UpAPI {
		e, ok := o.UpAll[a.Key]
		if !ok || e[0] == 0 || e[1] == 0 {
			return fail("c09-upstream-avg", "top_upstreams_avg_time lists %s, which has %v (responses, microseconds)", c09Upstreams[a.Key], e)
		}
		if want := float64(e[1]) / float64(e[0]) * 1e-6; a.Val != want {
			return fail("c09-upstream-avg", "upstream %s: average %v answered, %d us / %d responses is %v", c09Upstreams[a.Key], a.Val, e[1], e[0], want)
		}
		if i > 0 && o.UpAPI[i-1].Val < a.Val {
			return fail("c09-upstream-avg", "top_upstreams_avg_time is not sorted: %v", o.UpAPI)
		}
	}
	if len(o.UpAPI) > 0 {
		m.classes["upstream-averages"] = true
	}
	return true, "", ""
}

// ---- generation

var (
	c09Limits    = []int64{1, 1, 2, 3, 3, 5, 24, 25, 48, 168, 191, 192, 200}
	c09BigLimits = []int64{720, 720, 2160, 8760, 500}
)

// c09GenLimitMs picks a retention limit; big ones (a month and more, costly
// to replay) only when the history was chosen to have them.
func c09GenLimitMs(r *vfRand, big bool) int64 {
	switch r.Intn(12) {
	case 0:
		return 5400000 // 1.5 h
	case 1:
		return int64(r.Range(1, 50))*c09MsHour + int64(r.Intn(c09MsHour))
	case 2, 3, 4:
		if big {
			return vfPick(r, c09BigLimits) * c09MsHour
		}
	}
	return vfPick(r, c09Limits) * c09MsHour
}

// c09GenTime picks a processing time in nanoseconds; in a fast hour nearly
// every query takes less than a microsecond (the hour's TimeAvg is 0).
func c09GenTime(r *vfRand, fast bool) int64 {
	if fast {
		if r.Chance(1, 12) {
			return int64(r.Range(1000, 2500))
		}
		return vfPick(r, []int64{0, 0, 300, 999})
	}
	switch r.Intn(8) {
	case 0:
		return 0
	case 1:
		return int64(r.Range(1, 999))
	case 2:
		return int64(r.Range(1000, 99999))
	case 3:
		return int64(r.Range(1, 4)) * int64(time.Second)
	default:
		return int64(r.Range(100, 90000)) * 1000
	}
}

func c09GenUpdate(r *vfRand, fast bool) c09Op {
	o := c09Op{Kind: "update", Res: 1 + r.Intn(5), Dom: 1 + r.Intn(4), Cli: 1 + r.Intn(3), T: c09GenTime(r, fast)}
	switch r.Intn(40) {
	case 0:
		o.Res = 0
	case 1:
		o.Res = 6 + r.Intn(3)
	case 2:
		o.Dom = 0
	case 3:
		o.Cli = 0
	case 4:
		if r.Chance(1, 3) {
			// Passes validate, panics in unit.add before anything is changed.
			o.Res = -1 - r.Intn(3)
		}
	}
	for n := r.Intn(3); n > 0; n-- {
		u := (1 + r.Intn(3)) * 4
		if r.Chance(1, 4) {
			u += 1 + r.Intn(3)
		}
		o.Ups = append(o.Ups, u)
	}
	return o
}

// c09GenAdvance picks how far the clock moves before a flush or restart.
func c09GenAdvance(r *vfRand, limH uint32, allowZero bool) uint32 {
	l := int64(limH)
	switch r.Intn(10) {
	case 0:
		if allowZero {
			return 0
		}
		return 1
	case 1, 2, 3, 4:
		return 1
	case 5:
		return uint32(r.Range(1, l+5))
	case 6:
		return uint32(vfPick(r, []int64{l - 1, l, l + 1, l + 2}))
	case 7:
		return uint32(r.Range(2, 4))
	case 8:
		return uint32(r.Range(1, 30))
	default:
		return 24 // a day
	}
}

// c09GenBurst: more names than survive serialisation in one hour.  Names
// 1..100 are counted twice, the rest once, so that the 100th and the 101st
// count differ (which of several names tied at the cut survive is not
// determined by the code); only the last update of the burst is observed.
func c09GenBurst(r *vfRand, fast bool) (ops []c09Op) {
	n := int(r.Range(101, c09MaxNames))
	kind := r.Intn(5) // 0 domains, 1 blocked domains, 2 clients, 3 domains and clients, 4 upstreams
	res := 1
	if kind == 1 {
		res = 2 + r.Intn(4)
	}
	for round := 0; round < 2; round++ {
		top := n
		if round == 1 {
			top = 100
		}
		for i := 1; i <= top; i++ {
			o := c09Op{Kind: "update", Res: res, Dom: 1 + i%4, Cli: 1 + i%3, T: c09GenTime(r, fast), Skip: true}
			if kind != 2 && kind != 4 {
				o.Dom = i
			}
			if kind == 2 || kind == 3 {
				o.Cli = i
			}
			if kind == 4 {
				// One response from upstream i; its duration grows with i, so
				// that neither the counts nor the time sums tie at the cut.
				o.Ups = []int{i * 4}
			}
			ops = append(ops, o)
		}
	}
	ops[len(ops)-1].Skip = false
	return ops
}

func c09GenHistory(r *vfRand, steps int) (id0 uint32, ms int64, en bool, ops []c09Op) {
	id0 = uint32(r.Range(480000, 500000))
	if r.Chance(1, 4) {
		id0 -= id0 % 24 // midnight
	}
	if r.Chance(1, 25) {
		// Hour ids around and below the limit: id-limit-1 and id-limit wrap
		// (outside the property's domain; the model is compared).
		id0 = uint32(r.Range(2, 9000))
	}
	big := r.Chance(1, 12)
	bursts := 0
	if !big && r.Chance(1, 14) {
		bursts = 1 + r.Intn(2)
	}
	fast := r.Chance(1, 3)
	if big && steps > 14 {
		steps = 14
	}
	ms = c09GenLimitMs(r, big)
	en = !r.Chance(1, 10)
	clock := id0
	limH := uint32(ms / c09MsHour)
	ops = append(ops, c09Op{Kind: "flush", ID: clock}) // observes the initial state
	for len(ops) < steps {
		switch k := r.Intn(100); {
		case k < 55:
			if bursts > 0 && r.Chance(1, 3) {
				bursts--
				b := c09GenBurst(r, fast)
				ops = append(ops, b...)
				steps += len(b)
				continue
			}
			for n := 1 + r.Intn(3); n > 0; n-- {
				ops = append(ops, c09GenUpdate(r, fast))
			}
		case k < 75:
			d := c09GenAdvance(r, limH, true)
			if d == 0 || d > 100000 {
				d = 0
			}
			if r.Chance(1, 6) && d > 0 {
				// The clock moves first; updates land in the unit that is still current.
				ops = append(ops, c09GenUpdate(r, fast))
			}
			clock += d
			ops = append(ops, c09Op{Kind: "flush", ID: clock})
			if d > 0 {
				fast = r.Chance(1, 3)
			}
		case k < 83:
			d := c09GenAdvance(r, limH, true)
			if r.Chance(1, 2) || d > 100000 {
				d = 0
			}
			clock += d
			ops = append(ops, c09Op{Kind: "restart", ID: clock})
		case k < 91:
			nms := c09GenLimitMs(r, big)
			switch r.Intn(8) {
			case 0:
				nms = int64(r.Intn(c09MsHour)) // too short
			case 1:
				nms = 365*24*c09MsHour + 1 + int64(r.Intn(1000)) // too long
			}
			nen := !r.Chance(1, 5)
			ops = append(ops, c09Op{Kind: "putconfig", Ms: nms, En: nen})
			if nms >= c09MsHour && nms <= 365*24*c09MsHour {
				limH = uint32(nms / c09MsHour)
			}
		case k < 96:
			d := vfPick(r, []int{0, 1, 1, 7, 7, 7, 1, 5, 2})
			if big {
				d = vfPick(r, []int{0, 1, 7, 30, 90, 30})
			}
			if r.Chance(1, 3) {
				clock += uint32(r.Intn(3))
			}
			ops = append(ops, c09Op{Kind: "setdays", Days: d, ID: clock})
			if d == 1 || d == 7 || d == 30 || d == 90 {
				limH = uint32(d) * 24
			}
		default:
			if r.Chance(1, 3) {
				clock += uint32(r.Intn(3))
			}
			if r.Chance(1, 2) {
				// The hour turns while clear() runs.
				clock += uint32(r.Intn(3))
				ops = append(ops, c09Op{Kind: "reset", ID: clock, Window: vfPick(r, []string{c09WinClosed, c09WinOpened})})
			} else {
				ops = append(ops, c09Op{Kind: "clear", ID: clock})
			}
		}
	}
	return id0, ms, en, ops
}

// c09RunHistory executes one history and emits its case.
func c09RunHistory(t *testing.T, out *vfOut, name string, id0 uint32, ms int64, en bool, ops []c09Op) {
	m := c09NewSim(t, t.TempDir(), id0, ms, en)
	defer func() {
		if m.s != nil {
			_ = m.s.Close()
		}
	}()
	// The theorems assume hour ids >= 8762 (id-limit-1 does not wrap).
	m.exempt = id0 < 8762

	steps := make([]string, 0, len(ops))
	ok, key, msg := true, "", ""
	planned := ops
	if m.dead {
		// New failed on a fresh file: reported on the (empty) history.
		ops = nil
		ob := m.observe(false)
		ok, key, msg = false, "c09-op-error", "New on a fresh file: "+strings.Join(ob.ErrMsgs, "; ")
	}
	for i, o := range ops {
		if m.dead {
			break
		}
		p := m.apply(&o)
		planned[i] = o
		if o.Skip && !p {
			m.errMu.Lock()
			clean := m.errBits == 0
			m.errMu.Unlock()
			if clean {
				steps = append(steps, o.coqSteps("ObsSkip")...)
				continue
			}
		}
		ob := m.observe(p)
		if ok {
			if sok, k, mm := m.monitor(ob); !sok {
				ok, key, msg = false, k, fmt.Sprintf("step %d (%s): %s", i, strings.Join(o.coqSteps("_"), " "), mm)
			}
		}
		steps = append(steps, o.coqSteps(ob.coq())...)
	}
	classes := make([]string, 0, len(m.classes))
	for c := range m.classes {
		classes = append(classes, c)
	}
	sort.Strings(classes)
	out.Emit(vfCase{
		Coq: fmt.Sprintf("(CHist %d %d %s %s)%%Z", id0, ms, vfBool(en), vfList("op * obs", steps)),
		// Non-trivial: at least one accepted update followed by an effective
		// flush, restart or clear.
		Nontrivial: m.rolled,
		Classes:    classes,
		MonitorOK:  ok,
		MonitorMsg: msg,
		FindingKey: key,
		Desc:       map[string]any{"name": name, "id0": id0, "limit_ms": ms, "enabled": en, "ops": planned},
	})
}

func c09Upd(res, dom, cli int, ups ...int) c09Op {
	return c09Op{Kind: "update", Res: res, Dom: dom, Cli: cli, Ups: ups, T: int64(1+dom*7+cli) * int64(time.Millisecond)}
}

// c09Fast: an update that takes t nanoseconds.
func c09Fast(res, dom, cli int, t int64) c09Op {
	return c09Op{Kind: "update", Res: res, Dom: dom, Cli: cli, T: t}
}

// c09Names: one hour with n distinct domains and clients; the first 100 are
// counted twice (see c09GenBurst).
func c09Names(n int, res int) (ops []c09Op) {
	for _, top := range []int{n, 100} {
		for i := 1; i <= top; i++ {
			ops = append(ops, c09Op{Kind: "update", Res: res, Dom: i, Cli: i, T: 900, Skip: true})
		}
	}
	ops[len(ops)-1].Skip = false
	return ops
}

// c09UpsBurst: one hour with responses from n distinct upstreams; the first
// 100 answer twice (see c09GenBurst, kind 4).
func c09UpsBurst(n int) (ops []c09Op) {
	for _, top := range []int{n, 100} {
		for i := 1; i <= top; i++ {
			ops = append(ops, c09Op{Kind: "update", Res: 1, Dom: 1 + i%4, Cli: 1 + i%3, Ups: []int{i * 4}, T: 900, Skip: true})
		}
	}
	ops[len(ops)-1].Skip = false
	return ops
}

// c09Prelude: one constructed history per branch class, independent of the seed.
func c09Prelude() (hs []struct {
	name string
	id0  uint32
	ms   int64
	en   bool
	ops  []c09Op
}) {
	add := func(name string, id0 uint32, hours int64, en bool, ops ...c09Op) {
		hs = append(hs, struct {
			name string
			id0  uint32
			ms   int64
			en   bool
			ops  []c09Op
		}{name, id0, hours * c09MsHour, en, ops})
	}
	fl := func(id uint32) c09Op { return c09Op{Kind: "flush", ID: id} }
	rs := func(id uint32) c09Op { return c09Op{Kind: "restart", ID: id} }
	const b = 490000
	all5 := []c09Op{c09Upd(1, 1, 1, 4), c09Upd(2, 2, 2, 8, 5), c09Upd(3, 3, 3, 12, 6), c09Upd(4, 4, 1), c09Upd(5, 1, 2, 4, 4)}
	seq := func(parts ...[]c09Op) (r []c09Op) {
		for _, p := range parts {
			r = append(r, p...)
		}
		return r
	}
	add("every category, hour by hour, window 3", b, 3, true, seq([]c09Op{fl(b)}, all5, []c09Op{fl(b + 1)}, all5[:2],
		[]c09Op{fl(b + 2)}, all5[2:], []c09Op{fl(b + 3), fl(b + 4), fl(b + 5)})...)
	add("gap beyond the window", b, 24, true, seq(all5, []c09Op{fl(b + 24)}, all5, []c09Op{fl(b + 24 + 29), fl(b + 24 + 29)})...)
	add("gap of exactly limit-1, limit, limit+1", b, 5, true, seq(all5, []c09Op{fl(b + 4)}, all5[:1], []c09Op{fl(b + 9)}, all5[:3], []c09Op{fl(b + 15)})...)
	add("restart in the same hour and later", b, 24, true, seq(all5, []c09Op{rs(b)}, all5[:2], []c09Op{rs(b + 1)}, all5[:1],
		[]c09Op{rs(b + 30), rs(b + 30)})...)
	add("restart in the same hour, more updates, second restart in that hour, then the next hour", b, 24, true,
		seq(all5, []c09Op{rs(b)}, all5, []c09Op{rs(b)}, all5[:3], []c09Op{fl(b + 1)}, all5[:1], []c09Op{rs(b + 1)}, all5[:2], []c09Op{fl(b + 2)})...)
	add("restart drops everything below id-limit-1", b, 2, true, seq(all5, []c09Op{fl(b + 1)}, all5, []c09Op{fl(b + 2)}, all5, []c09Op{fl(b + 3), rs(b + 3), rs(b + 9)})...)
	add("lower then raise the limit: undeleted hours reappear, deleted ones do not", b, 48, true,
		seq(all5, []c09Op{fl(b + 1)}, all5, []c09Op{fl(b + 2)}, all5, []c09Op{fl(b + 3),
			{Kind: "putconfig", Ms: 2 * c09MsHour, En: true}, fl(b + 4), fl(b + 5),
			{Kind: "putconfig", Ms: 48 * c09MsHour, En: true}, fl(b + 6)})...)
	add("disable through config, updates ignored, data kept", b, 24, true, seq(all5, []c09Op{{Kind: "putconfig", Ms: 24 * c09MsHour, En: false}},
		all5, []c09Op{fl(b + 1), {Kind: "putconfig", Ms: 24 * c09MsHour, En: true}}, all5)...)
	add("legacy interval 0 disables and clears; 7 re-enables", b, 24, true, seq(all5, []c09Op{fl(b + 1)}, all5,
		[]c09Op{{Kind: "setdays", Days: 0, ID: b + 2}}, all5, []c09Op{{Kind: "setdays", Days: 7, ID: b + 2}}, all5,
		[]c09Op{{Kind: "setdays", Days: 5, ID: b + 2}, fl(b + 3)})...)
	add("reset", b, 24, true, seq(all5, []c09Op{fl(b + 1)}, all5, []c09Op{{Kind: "clear", ID: b + 1}}, all5, []c09Op{{Kind: "clear", ID: b + 3}, fl(b + 3)})...)
	add("invalid entries and rejected config", b, 24, true, c09Upd(0, 1, 1), c09Upd(6, 1, 1), c09Upd(9, 1, 1), c09Upd(1, 0, 1), c09Upd(1, 1, 0),
		c09Op{Kind: "putconfig", Ms: 1000, En: true}, c09Op{Kind: "putconfig", Ms: 366 * 24 * c09MsHour, En: true}, c09Upd(2, 1, 1), fl(b+1))
	add("negative result code panics in unit.add", b, 24, true, c09Upd(1, 1, 1), c09Upd(-1, 1, 1), c09Upd(2, 1, 1), fl(b+1))
	add("started disabled", b, 24, false, seq(all5, []c09Op{fl(b + 1), {Kind: "setdays", Days: 1, ID: b + 1}}, all5, []c09Op{fl(b + 2)})...)
	// Daily series: 8 days = 192 h; at a day boundary and inside a day.
	d0 := uint32(b - b%24)
	add("daily series across midnight", d0-2, 192, true, seq(all5, []c09Op{fl(d0 - 1)}, all5, []c09Op{fl(d0)}, all5, []c09Op{fl(d0 + 1)}, all5,
		[]c09Op{fl(d0 + 24), fl(d0 + 191), fl(d0 + 192)})...)
	add("30 days, updates in the hours the daily series skips", d0+5, 720, true, seq(all5, []c09Op{fl(d0 + 24*29 + 6)}, all5[:2], []c09Op{fl(d0 + 24*30 + 4), fl(d0 + 24*30 + 5)})...)
	add("fractional limit 1.5 h", b, 0, true, seq([]c09Op{{Kind: "putconfig", Ms: 5400000, En: true}}, all5, []c09Op{fl(b + 1)}, all5)...)
	hs[len(hs)-1].ms = 2*c09MsHour + 1799999
	add("a year", b, 8760, true, seq(all5, []c09Op{fl(b + 8759)}, all5[:1], []c09Op{fl(b + 8760)})...)
	add("update lands in the stale unit after the hour changed", b, 3, true, seq(all5, []c09Op{fl(b + 1)}, all5[:2], []c09Op{fl(b + 2)})...)
	// Reset with the hour turning while clear() runs: the flush attempted with
	// the database pointer nil, and after the new database was opened; the
	// roll-over goes on afterwards.
	reset := func(id uint32, w string) c09Op { return c09Op{Kind: "reset", ID: id, Window: w} }
	add("reset, flush while the database is closed", b, 24, true, seq(all5, []c09Op{fl(b + 1)}, all5, []c09Op{reset(b+2, c09WinClosed)},
		all5[:2], []c09Op{fl(b + 3)}, all5[:1], []c09Op{fl(b + 4)})...)
	add("reset, flush after the new database was opened", b, 24, true, seq(all5, []c09Op{fl(b + 1)}, all5, []c09Op{reset(b+2, c09WinOpened)},
		all5[:2], []c09Op{fl(b + 3)}, all5[:1], []c09Op{fl(b + 4), rs(b + 4)})...)
	add("reset in the same hour, both windows", b, 3, true, seq(all5, []c09Op{reset(b, c09WinOpened)}, all5, []c09Op{reset(b, c09WinClosed), fl(b + 1)})...)
	// Average processing time: an hour below a microsecond on average has
	// TimeAvg 0 and still counts; the mean is over the non-zero hours.
	add("hours with an average below 1 us between slower ones", b, 24, true, seq(all5, []c09Op{fl(b + 1)},
		[]c09Op{c09Fast(1, 1, 1, 0), c09Fast(2, 2, 2, 300), c09Fast(3, 1, 1, 999), fl(b + 2),
			c09Fast(1, 1, 1, 1000), c09Fast(1, 2, 1, 2999), fl(b + 3), fl(b + 4),
			c09Fast(4, 3, 2, 999), c09Fast(5, 3, 2, 1001), c09Fast(5, 3, 2, 0), fl(b + 5), rs(b + 5), rs(b + 6)})...)
	add("only sub-microsecond queries: average 0 with queries", b, 3, true, c09Fast(1, 1, 1, 0), c09Fast(2, 1, 2, 500), fl(b+1), c09Fast(1, 2, 2, 999), rs(b+1), fl(b+2))
	add("remainder of the time sum lost on restart in the same hour", b, 24, true, c09Fast(1, 1, 1, 1000), c09Fast(1, 1, 1, 2000), c09Fast(1, 1, 1, 2000),
		rs(b), c09Fast(1, 1, 1, 1000), fl(b+1))
	// More than 100 names in one hour.
	add("120 domains and clients in one hour, next hour, restart", b, 24, true, seq(c09Names(120, 1), []c09Op{fl(b + 1)}, all5, []c09Op{rs(b + 1), fl(b + 2)})...)
	add("130 blocked domains, restart in the same hour, more of them", b, 24, true, seq(c09Names(130, 2), []c09Op{rs(b)}, c09Names(105, 3), []c09Op{fl(b + 1), rs(b + 2)})...)
	// More than 100 upstreams in one hour: the responses and the time sums are
	// cut independently (the 100 largest counts, the 100 largest sums).
	add("125 upstreams in one hour, next hour, restart, more", b, 24, true, seq(c09UpsBurst(125), []c09Op{fl(b + 1)}, all5, []c09Op{rs(b + 1)},
		all5[:3], []c09Op{fl(b + 2), rs(b + 30)})...)
	// uint32 arithmetic on hour ids below the limit: id-limit-1 wraps and New
	// deletes every bucket (outside the property's domain; model compared).
	add("hour ids below the limit: id-limit-1 wraps", 5, 24, true, seq(all5, []c09Op{fl(6)}, all5[:2], []c09Op{rs(6)}, all5[:1], []c09Op{fl(7), rs(7), fl(30), rs(40)})...)
	add("hour id just above the limit: no wrap", 26, 24, true, seq(all5, []c09Op{fl(27)}, all5[:2], []c09Op{rs(27)}, all5[:1], []c09Op{fl(28), rs(28)})...)
	// Limit changes with counted hours exactly at the edge of the new window.
	add("limit lowered and raised with hours at the edge of the window", b, 5, true, seq(all5, []c09Op{fl(b + 1)}, all5[:3], []c09Op{fl(b + 2)}, all5[:2],
		[]c09Op{fl(b + 4), {Kind: "putconfig", Ms: 4 * c09MsHour, En: true}, {Kind: "putconfig", Ms: 3 * c09MsHour, En: true}, fl(b + 5),
			{Kind: "putconfig", Ms: 6 * c09MsHour, En: true}, rs(b + 5), {Kind: "putconfig", Ms: 4 * c09MsHour, En: true}, rs(b + 6)})...)
	// Daily series with a limit that is not a whole number of days.
	add("daily series, limit 200 h (8 days 8 h)", d0+3, 200, true, seq(all5, []c09Op{fl(d0 + 10)}, all5[:3], []c09Op{fl(d0 + 24)}, all5[:2],
		[]c09Op{fl(d0 + 190), fl(d0 + 199)}, all5[:1], []c09Op{fl(d0 + 200), fl(d0 + 202), fl(d0 + 216)})...)
	return hs
}

func TestVerifC09(t *testing.T) {
	out := vfOpen(t, "C09")
	defer out.Close()

	// The database pointer is not under a mutex: it has to be an atomic one
	// (C09_mutual_exclusion covers the fields under currMu / confMu).
	if f, ok := reflect.TypeOf(StatsCtx{}).FieldByName("db"); !ok || !strings.HasPrefix(f.Type.String(), "atomic.Pointer[") {
		out.Emit(vfCase{Coq: "(CHist 490000 3600000 true (@nil (op * obs)))%Z", MonitorOK: false,
			MonitorMsg: "StatsCtx.db is not an atomic.Pointer: it is read and written outside currMu/confMu",
			FindingKey: "c09-db-pointer-not-atomic", Desc: map[string]any{"name": "db field type"}})
	}
	out.Class("db-pointer-atomic")

	if os.Getenv("VERIF_C09_ONLY") == "worker" {
		// Development aid: the worker class alone.
		c09Workers(t, out, vfNewRand(out.Seed).Fork(0xC09C))
		return
	}

	for _, h := range c09Prelude() {
		c09RunHistory(t, out, h.name, h.id0, h.ms, h.en, h.ops)
	}

	r := vfNewRand(out.Seed)
	n := out.Scale(450, 2000)
	for i := 0; i < n; i++ {
		rr := r.Fork(uint64(i))
		steps := 8 + rr.Intn(out.Scale(28, 60))
		id0, ms, en, ops := c09GenHistory(rr, steps)
		c09RunHistory(t, out, fmt.Sprintf("random %d", i), id0, ms, en, ops)
	}

	// Schedules: GET /control/stats racing with updates, clean shutdown racing
	// with the hourly flush and updates (zz_verif_C09conc_test.go).
	c09Schedules(t, out, r)

	// The periodic worker as part of the system: Start(), the hour id steps
	// while the process is up, the roll-over is the worker's
	// (zz_verif_C09worker_test.go).
	c09Workers(t, out, r.Fork(0xC09C))

	if out.Thorough() {
		c09Concurrent(t, out)
	}
}

// c09Concurrent: updater goroutines run across scripted flushes and API reads;
// the final totals must equal the number of updates issued (run under -race in
// the thorough tier).
func c09Concurrent(t *testing.T, out *vfOut) {
	const b = 491000
	for round := 0; round < 6; round++ {
		m := c09NewSim(t, t.TempDir(), b, 48*c09MsHour, true)
		const writers, perWriter = 8, 400
		var wg sync.WaitGroup
		var issued [6]atomic.Uint64
		for w := 0; w < writers; w++ {
			wg.Add(1)
			go func(w int) {
				defer wg.Done()
				for i := 0; i < perWriter; i++ {
					o := c09Upd(1+(w+i)%5, 1+i%4, 1+w%3, 4)
					m.s.Update(c09Entry(o))
					issued[0].Add(1)
					issued[o.Res].Add(1)
				}
			}(w)
		}
		stop := make(chan struct{})
		var rg sync.WaitGroup
		rg.Add(1)
		go func() {
			defer rg.Done()
			for {
				select {
				case <-stop:
					return
				default:
					_ = m.call("GET", "/control/stats", "")
				}
			}
		}()
		for h := uint32(1); h <= 12; h++ {
			m.hour.Store(b + h)
			m.s.flush()
		}
		wg.Wait()
		close(stop)
		rg.Wait()
		m.unitHour = b + 12
		if round%2 == 1 {
			m.apply(&c09Op{Kind: "restart", ID: b + 12})
		}
		ob := m.observe(false)
		ok, msg := true, ""
		for c := range issued {
			if ob.Totals[c] != issued[c].Load() {
				ok, msg = false, fmt.Sprintf("counter %d: reported %d, issued %d concurrent updates", c, ob.Totals[c], issued[c].Load())
				break
			}
		}
		out.Class("concurrent-updates-across-flushes")
		if !ok {
			// Reported as a monitor failure on a case of its own (empty history for the model).
			out.Emit(vfCase{Coq: fmt.Sprintf("(CHist %d %d true (@nil (op * obs)))%%Z", b+round, 48*c09MsHour),
				MonitorOK: false, MonitorMsg: msg, FindingKey: "c09-concurrent-lost-update",
				Desc: map[string]any{"name": "concurrent", "round": round}})
		}
		_ = m.s.Close()
	}
	c09ConcurrentReset(t, out)
}

// c09ConcurrentReset: updater goroutines and a flusher turning the hour run
// while POST /control/stats_reset is issued; afterwards the total lies between
// the updates that started after the reset returned and those that finished
// after it began (bounds that do not depend on timing), and nothing of an
// earlier hour is stored.
func c09ConcurrentReset(t *testing.T, out *vfOut) {
	const b = 492000
	for round := 0; round < 6; round++ {
		m := c09NewSim(t, t.TempDir(), b, 48*c09MsHour, true)
		const writers, perWriter = 6, 500
		var wg sync.WaitGroup
		var started, finished atomic.Uint64
		for w := 0; w < writers; w++ {
			wg.Add(1)
			go func(w int) {
				defer wg.Done()
				for i := 0; i < perWriter; i++ {
					started.Add(1)
					m.s.Update(c09Entry(c09Upd(1+(w+i)%5, 1+i%4, 1+w%3, 4)))
					finished.Add(1)
				}
			}(w)
		}
		stop := make(chan struct{})
		var fg sync.WaitGroup
		fg.Add(1)
		go func() {
			// The periodic flusher; the clock follows the progress of the
			// updaters: 40 hours in all, inside the 48 h window.
			defer fg.Done()
			for {
				select {
				case <-stop:
					return
				default:
					m.hour.Store(b + uint32(started.Load()/75))
					m.flush()
				}
			}
		}()
		for started.Load() < uint64(100*(round+1)) {
			// Let some updates and roll-overs happen first (no clock involved).
			m.flush()
		}
		before := finished.Load()
		w := m.call("POST", "/control/stats_reset", "")
		after := started.Load()
		wg.Wait()
		close(stop)
		fg.Wait()
		total := started.Load()
		var got uint64
		func() {
			m.s.confMu.RLock()
			defer m.s.confMu.RUnlock()
			units, _ := m.s.loadUnits(48)
			for _, u := range units {
				got += u.NTotal
			}
		}()
		ok, msg := true, ""
		switch {
		case w.Code != http.StatusOK:
			ok, msg = false, fmt.Sprintf("stats_reset: %d", w.Code)
		case got > total-before:
			ok, msg = false, fmt.Sprintf("after a reset racing %d updaters and the flusher: %d reported, only %d updates finished after the reset began", writers, got, total-before)
		case got < total-after:
			ok, msg = false, fmt.Sprintf("after a reset racing %d updaters and the flusher: %d reported, %d updates started after the reset returned", writers, got, total-after)
		}
		m.errMu.Lock()
		if ok && m.errBits != 0 {
			ok, msg = false, fmt.Sprintf("error classes %d: %s", m.errBits, strings.Join(m.errMsgs, "; "))
		}
		m.errMu.Unlock()
		out.Class("concurrent-reset-with-updates-and-flushes")
		if !ok {
			out.Emit(vfCase{Coq: fmt.Sprintf("(CHist %d %d true (@nil (op * obs)))%%Z", b+round, 48*c09MsHour),
				MonitorOK: false, MonitorMsg: msg, FindingKey: "c09-concurrent-reset",
				Desc: map[string]any{"name": "concurrent reset", "round": round}})
		}
		_ = m.s.Close()
	}
}

//go:build verif

package stats

// C09, round 4: schedule classes.
//
//   - "concurrent-read": GET /control/stats served while a stream of updates
//     arrives.  The stream is started from inside the handler (the
//     ShouldCountClient callback, which dataFromUnits calls after the units
//     were loaded and before the counters are summed; or the debug record
//     "loading unit", inside loadUnits), or just before the request.  Monitor:
//     the ONE answer must describe a prefix of the stream: num_dns_queries says
//     how many of the concurrent queries it contains, and every other counter,
//     the last point of every series and the series sums of the same answer
//     must be those of exactly that prefix.
//   - "close-vs-flush": clean shutdown at the turn of the hour: the real
//     flush() and Close() run concurrently with a stream of updates, then New()
//     on the same file and a read.  The order of the two is forced both ways
//     (one of them is held at the start of its bbolt write transaction through
//     bbolt.DefaultOptions.Logger) or left to the scheduler.  Monitor: the
//     bodies do not overlap, nobody stays blocked, the file holds a prefix of
//     the stream (everything that finished before Close began, nothing that
//     started after it returned), the totals after New equal the counted
//     queries.
//
// No verdict depends on timing: waiting is bounded only to stop waiting (a
// goroutine found parked in RWMutex.Lock ends a wait early), and a wait that
// ends undetermined discards the forced part of the trial, never reports.

import (
	"encoding/json"
	"fmt"
	"math"
	"net/http"
	"net/http/httptest"
	"runtime"
	"sort"
	"strings"
	"sync"
	"sync/atomic"
	"testing"
	"time"

	"go.etcd.io/bbolt"
)

// ---- goroutine inspection

// c09Parked reports where the goroutine whose stack mentions marker is parked,
// if it is parked in a lock of the statistics module ("" otherwise).
var c09StackBuf = make([]byte, 1<<20)

func c09Parked(marker string) (where string) {
	buf := c09StackBuf[:runtime.Stack(c09StackBuf, true)]
	for _, g := range strings.Split(string(buf), "\n\n") {
		if !strings.Contains(g, marker) {
			continue
		}
		head, _, _ := strings.Cut(g, "\n")
		if !strings.Contains(head, "[sync.") && !strings.Contains(head, "[semacquire") {
			return ""
		}
		switch {
		case strings.Contains(g, "bbolt.(*DB).beginRWTx("):
			return "bbolt.beginRWTx"
		case strings.Contains(g, "sync.(*RWMutex).Lock("):
			return "RWMutex.Lock"
		case strings.Contains(g, "sync.(*RWMutex).RLock("):
			return "RWMutex.RLock"
		}
		return ""
	}
	return ""
}

// c09Await waits until cond holds ("done"), the goroutine named by marker is
// parked in a lock ("parked:<where>"), or the bound passes ("undetermined").
func c09Await(cond func() bool, marker string, bound time.Duration) string {
	deadline := time.Now().Add(bound)
	for i := 0; ; i++ {
		if cond() {
			return "done"
		}
		if i%16 == 15 {
			if w := c09Parked(marker); w != "" {
				if cond() {
					return "done"
				}
				return "parked:" + w
			}
			if time.Now().After(deadline) {
				return "undetermined"
			}
		}
		runtime.Gosched()
		if i > 64 {
			time.Sleep(20 * time.Microsecond)
		}
	}
}

func c09Closed(ch <-chan struct{}) func() bool {
	return func() bool {
		select {
		case <-ch:
			return true
		default:
			return false
		}
	}
}

// ---- runners (named, so that they can be found in a stack dump)

//go:noinline
func c09StreamRunner(s *StatsCtx, es []*Entry, started, finished *atomic.Int64, done chan struct{}) {
	defer close(done)
	for _, e := range es {
		started.Add(1)
		s.Update(e)
		finished.Add(1)
	}
}

//go:noinline
func c09FlushRunner(m *c09Sim, done chan struct{}) {
	defer close(done)
	m.flush()
}

//go:noinline
func c09ReadRunner(m *c09Sim, done chan *httptest.ResponseRecorder) {
	done <- m.call("GET", "/control/stats", "")
}

type c09CloseResult struct {
	err                 error
	finishedBefore      int64 // updates that had returned when Close was called
	startedBeforeReturn int64 // updates that had been called when Close returned
}

//go:noinline
func c09CloseRunner(s *StatsCtx, started, finished *atomic.Int64, res *c09CloseResult, done chan struct{}) {
	defer close(done)
	res.finishedBefore = finished.Load()
	res.err = s.Close()
	res.startedBeforeReturn = started.Load()
}

// ---- ghost bookkeeping for operations the harness linearises itself

func (m *c09Sim) ghostUpdate(o c09Op) {
	g := m.ghost[m.unitHour]
	if g == nil {
		g = &[6]uint64{}
		m.ghost[m.unitHour] = g
	}
	g[0]++
	g[o.Res]++
	m.nAccepted++
	m.hourUs += uint64(o.T / 1000)
	m.hourN++
	m.classes["update-accepted"] = true
	m.noteUpstreams(o)
	if m.rsw == 1 {
		m.rsw = 2
	}
}

func (m *c09Sim) ghostFlush(id uint32) {
	if id == m.unitHour {
		return
	}
	m.rsw = 0
	m.noteHourEnd()
	m.noteRollover(id)
	m.unitHour = id
}

func c09GenStream(r *vfRand, n int, blockedOnly bool) (ops []c09Op, es []*Entry) {
	for i := 0; i < n; i++ {
		o := c09Op{Kind: "update", Res: 1 + r.Intn(5), Dom: 1 + r.Intn(4), Cli: 1 + r.Intn(3), T: c09GenTime(r, false), Skip: true}
		if blockedOnly {
			o.Res = 2 + r.Intn(4)
		}
		if r.Chance(1, 3) {
			o.Ups = []int{(1 + r.Intn(3)) * 4}
		}
		ops = append(ops, o)
		es = append(es, c09Entry(o))
	}
	return ops, es
}

func c09ClassList(m *c09Sim, extra ...string) []string {
	for _, c := range extra {
		m.classes[c] = true
	}
	classes := make([]string, 0, len(m.classes))
	for c := range m.classes {
		classes = append(classes, c)
	}
	sort.Strings(classes)
	return classes
}

// c09Runner keeps the steps and the first monitor failure of one trial.
type c09Runner struct {
	m     *c09Sim
	x     bool // steps are (xop * obs)
	w     bool // steps are (wop * obs): the periodic worker is running
	dis   bool // the context was created with the statistics disabled
	steps []string
	ok    bool
	key   string
	msg   string
	ops   []any
	last  *c09Obs
}

func (q *c09Runner) wrap(op, ob string) string {
	if q.x {
		return "(XOp (" + op + "), " + ob + ")"
	}
	if q.w {
		return "(WOp (" + op + "), " + ob + ")"
	}
	return "(" + op + ", " + ob + ")"
}

func (q *c09Runner) fail(key, f string, a ...any) {
	if q.ok {
		q.ok, q.key, q.msg = false, key, fmt.Sprintf(f, a...)
	}
}

// run applies an update / flush / restart through the simulator, observes and
// judges it.
func (q *c09Runner) run(o c09Op) {
	p := q.m.apply(&o)
	q.ops = append(q.ops, o)
	if o.Skip && !p {
		q.steps = append(q.steps, q.wrap(o.coq(), "ObsSkip"))
		return
	}
	ob := q.m.observe(p)
	q.last = ob
	if sok, k, mm := q.m.monitor(ob); !sok {
		q.fail(k, "step %d (%s): %s", len(q.steps), o.coq(), mm)
	}
	q.steps = append(q.steps, q.wrap(o.coq(), ob.coq()))
}

func (q *c09Runner) emit(out *vfOut, id0 uint32, ms int64, name string, nontrivial bool, desc map[string]any, classes ...string) {
	ctor := "CHist"
	ty := "op * obs"
	if q.x {
		ctor, ty = "CShut", "xop * obs"
	}
	if q.w {
		ctor, ty = "CWork", "wop * obs"
	}
	desc["name"], desc["id0"], desc["limit_ms"], desc["ops"] = name, id0, ms, q.ops
	out.Emit(vfCase{
		Coq:        fmt.Sprintf("(%s %d %d %s %s)%%Z", ctor, id0, ms, vfBool(!q.dis), vfList(ty, q.steps)),
		Nontrivial: nontrivial,
		Classes:    c09ClassList(q.m, classes...),
		MonitorOK:  q.ok,
		MonitorMsg: q.msg,
		FindingKey: q.key,
		Desc:       desc,
	})
}

// c09Base: a short history to start a trial from: updates in one to three
// hours (so that stored units and clients exist), sometimes a restart.
func c09Base(r *vfRand, q *c09Runner, id0 uint32) {
	clock := id0
	q.run(c09Op{Kind: "flush", ID: clock})
	for h := 1 + r.Intn(3); h > 0; h-- {
		for n := 1 + r.Intn(4); n > 0; n-- {
			o := c09GenUpdate(r, false)
			if o.Res < 1 || o.Res > 5 {
				o.Res = 1 + r.Intn(5)
			}
			if o.Dom == 0 {
				o.Dom = 1
			}
			if o.Cli == 0 {
				o.Cli = 2
			}
			q.run(o)
		}
		if h > 1 {
			clock += uint32(1 + r.Intn(2))
			if r.Chance(1, 5) {
				q.run(c09Op{Kind: "restart", ID: clock})
			} else {
				q.run(c09Op{Kind: "flush", ID: clock})
			}
		}
	}
}

// ---- concurrent read

type c09RespObs struct {
	Totals [5]uint64 // num_dns_queries, blocked_filtering, safebrowsing, safesearch, parental
	Days   bool
	Len    int
	Series [4][]uint64
	Tops   [4][][2]int64
	Avg    int64
}

func c09DecodeResp(body []byte) (o *c09RespObs, err error) {
	resp := &StatsResp{}
	if err = json.Unmarshal(body, resp); err != nil {
		return nil, err
	}
	o = &c09RespObs{
		Totals: [5]uint64{resp.NumDNSQueries, resp.NumBlockedFiltering, resp.NumReplacedSafebrowsing,
			resp.NumReplacedSafesearch, resp.NumReplacedParental},
		Days:   resp.TimeUnits == timeUnitsDays,
		Len:    len(resp.DNSQueries),
		Series: [4][]uint64{resp.DNSQueries, resp.BlockedFiltering, resp.ReplacedSafebrowsing, resp.ReplacedParental},
		Tops: [4][][2]int64{c09Tops(c09Domains, resp.TopQueried), c09Tops(c09Domains, resp.TopBlocked),
			c09Tops(c09Clients, resp.TopClients), c09Tops(c09Upstreams, resp.TopUpstreamsResponses)},
		Avg: int64(math.Round(resp.AvgProcessingTime * 1e6)),
	}
	return o, nil
}

func (o *c09RespObs) coq() string {
	tot := make([]string, 5)
	for i, v := range o.Totals {
		tot[i] = fmt.Sprint(v)
	}
	ser := make([]string, 4)
	for i := range o.Series {
		ser[i] = c09Sparse(o.Series[i])
	}
	tops := make([]string, 4)
	for i := range o.Tops {
		tops[i] = c09Pairs(o.Tops[i])
	}
	return fmt.Sprintf("ObsResp %s %s %d %s %s %d", vfList("Z", tot), vfBool(o.Days), o.Len,
		vfList("list (Z * Z)", ser), vfList("list (Z * Z)", tops), o.Avg)
}

// c09PrefixCounts: what the first k updates of the stream add to the five
// reported counters.
func c09PrefixCounts(stream []c09Op, k int) (c [5]uint64) {
	ix := map[int]int{2: 1, 3: 2, 4: 3, 5: 4}
	for _, o := range stream[:k] {
		c[0]++
		if i, ok := ix[o.Res]; ok {
			c[i]++
		}
	}
	return c
}

var c09CounterNames = [5]string{"num_dns_queries", "num_blocked_filtering", "num_replaced_safebrowsing",
	"num_replaced_safesearch", "num_replaced_parental"}

// c09JudgeResp evaluates the property on ONE answer taken while the stream
// was running.  prev: the quiescent observation right before.  It returns the
// length k of the prefix the answer names.
func c09JudgeResp(q *c09Runner, prev *c09Obs, got *c09RespObs, stream []c09Op, finishedBefore, startedBeforeReturn int64, where string) (k int) {
	n := len(stream)
	base := [5]uint64{prev.Totals[0], prev.Totals[2], prev.Totals[3], prev.Totals[4], prev.Totals[5]}
	kk := int64(got.Totals[0]) - int64(base[0])
	desc := func() string {
		res := make([]string, n)
		for i, o := range stream {
			res[i] = fmt.Sprint(o.Res)
		}
		return fmt.Sprintf("GET /control/stats with %d concurrent updates (result codes %s, started %s); before: %v; answer: %v, last points %v",
			n, strings.Join(res, ","), where, base, got.Totals, c09LastPoints(got))
	}
	switch {
	case kk < finishedBefore:
		q.fail("c09-read-lost", "%s: num_dns_queries misses updates that had returned before the request began (%d)", desc(), finishedBefore)
		kk = finishedBefore
	case kk > startedBeforeReturn || kk > int64(n):
		q.fail("c09-read-more-than-counted", "%s: num_dns_queries counts more than the %d updates issued before the answer", desc(), startedBeforeReturn)
		kk = int64(n)
	}
	k = int(kk)
	add := c09PrefixCounts(stream, k)
	for c := 1; c < 5; c++ {
		if got.Totals[c] != base[c]+add[c] {
			q.fail("c09-read-not-one-state", "%s: num_dns_queries contains %d of the concurrent updates, %s contains %d (a query is in one counter and not in the other within one answer)",
				desc(), k, c09CounterNames[c], int64(got.Totals[c])-int64(base[c]))
		}
	}
	var blocked uint64
	for c := 1; c < 5; c++ {
		blocked += got.Totals[c]
	}
	if blocked > got.Totals[0] {
		q.fail("c09-read-not-one-state", "%s: the result categories sum to %d > num_dns_queries %d", desc(), blocked, got.Totals[0])
	}
	tix := [4]int{0, 1, 2, 4}
	for s, ser := range got.Series {
		var sum uint64
		for _, v := range ser {
			sum += v
		}
		tot := got.Totals[tix[s]]
		if !got.Days && sum != tot {
			q.fail("c09-read-hourly-sum", "%s: hourly series %d sums to %d, its total is %d", desc(), s, sum, tot)
		}
		if got.Days && sum > tot {
			q.fail("c09-read-daily-sum", "%s: daily series %d sums to %d > total %d", desc(), s, sum, tot)
		}
		if len(ser) > 0 && len(prev.Series[s]) == len(ser) {
			last := len(ser) - 1
			if want := prev.Series[s][last] + add[tix[s]]; ser[last] != want {
				q.fail("c09-read-not-one-state", "%s: last point of series %d is %d, with %d of the concurrent updates it is %d", desc(), s, ser[last], k, want)
			}
		}
	}
	return k
}

func c09LastPoints(o *c09RespObs) (l []uint64) {
	for _, s := range o.Series {
		if len(s) > 0 {
			l = append(l, s[len(s)-1])
		}
	}
	return l
}

const c09WaitAll = 60 * time.Second

func c09ReadRaceTrial(t *testing.T, out *vfOut, r *vfRand, idx int, where string) (stall *c09Stall) {
	id0 := uint32(r.Range(480000, 500000))
	ms := vfPick(r, []int64{2, 3, 5, 24, 24, 48, 192, 200}) * c09MsHour
	m := c09NewSim(t, t.TempDir(), id0, ms, true)
	defer func() {
		if m.s != nil {
			_ = m.s.Close()
		}
	}()
	q := &c09Runner{m: m, ok: true}
	if m.dead {
		return nil
	}
	c09Base(r, q, id0)
	reads := []any{}
	for round := 1 + r.Intn(3); round > 0 && !m.dead; round-- {
		// A quiescent observation right before (a flush in the same hour does nothing).
		q.run(c09Op{Kind: "flush", ID: m.unitHour})
		prev := q.last
		n := 1 + r.Intn(4)
		stream, es := c09GenStream(r, n, r.Chance(1, 2))
		var started, finished atomic.Int64
		uDone := make(chan struct{})
		var once atomic.Bool
		waited := ""
		launch := func() {
			if !once.CompareAndSwap(false, true) {
				return
			}
			go c09StreamRunner(m.s, es, &started, &finished, uDone)
			// Let the updates be counted now if they can be counted while the
			// request is served at all; if they wait for the handler, go on.
			waited = c09Await(c09Closed(uDone), "c09StreamRunner", 2*time.Second)
		}
		switch where {
		case "callback":
			f := func() { launch() }
			m.countHook.Store(&f)
		case "loading-unit":
			m.hook = func(msg string) {
				if msg == "loading unit" {
					launch()
				}
			}
		case "free":
			once.Store(true)
			go c09StreamRunner(m.s, es, &started, &finished, uDone)
			for i := r.Intn(40); i > 0; i-- {
				runtime.Gosched()
			}
		}
		fb := finished.Load()
		w := m.call("GET", "/control/stats", "")
		sa := started.Load()
		m.countHook.Store(nil)
		reached := once.Load()
		if !reached {
			// The hook point was not on the path (no stored unit, no client):
			// the stream runs after the answer.
			once.Store(true)
			go c09StreamRunner(m.s, es, &started, &finished, uDone)
		}
		select {
		case <-uDone:
		case <-time.After(c09WaitAll):
			// Judged by the caller: reported only if it happens again.
			m.s = nil
			return &c09Stall{idx, where, fmt.Sprintf("updates started during GET /control/stats have not returned %v after the answer (parked in %q)", c09WaitAll, c09Parked("c09StreamRunner"))}
		}
		m.hook = nil
		for _, o := range stream {
			m.ghostUpdate(o)
		}
		k := 0
		var got *c09RespObs
		var err error
		if w.Code != http.StatusOK {
			q.fail("c09-op-error", "GET /control/stats during updates: %d %s", w.Code, strings.TrimSpace(w.Body.String()))
		} else if got, err = c09DecodeResp(w.Body.Bytes()); err != nil {
			q.fail("c09-op-error", "GET /control/stats during updates: %v", err)
		} else {
			k = c09JudgeResp(q, prev, got, stream, fb, sa, where)
		}
		for _, o := range stream[:k] {
			q.steps = append(q.steps, q.wrap(o.coq(), "ObsSkip"))
			q.ops = append(q.ops, o)
		}
		if got != nil {
			q.steps = append(q.steps, q.wrap(fmt.Sprintf("OFlush %d", m.unitHour), got.coq()))
			q.ops = append(q.ops, map[string]any{"op": "GET /control/stats", "contains": k, "of": n})
		}
		for _, o := range stream[k:] {
			q.steps = append(q.steps, q.wrap(o.coq(), "ObsSkip"))
			q.ops = append(q.ops, o)
		}
		reads = append(reads, map[string]any{"where": where, "reached": reached, "wait": waited, "stream": n, "contained": k})
		switch {
		case !reached:
			m.classes["concurrent-read-hook-not-on-path"] = true
		case k == 0:
			m.classes["concurrent-read-updates-after-answer"] = true
		case k == n:
			m.classes["concurrent-read-updates-before-snapshot"] = true
		default:
			m.classes["concurrent-read-updates-split"] = true
		}
		if strings.HasPrefix(waited, "parked:") {
			m.classes["concurrent-read-update-waits-for-reader"] = true
		}
		// Everything is counted afterwards.
		q.run(c09Op{Kind: "flush", ID: m.unitHour})
		if r.Chance(1, 3) {
			q.run(c09Op{Kind: "flush", ID: m.unitHour + 1})
		}
	}
	q.emit(out, id0, ms, fmt.Sprintf("concurrent read %d (%s)", idx, where), true, map[string]any{"reads": reads},
		"concurrent-read", "concurrent-read-"+where)
	return nil
}

// c09ReadVsFlushTrial: the hour turns while GET /control/stats is served.  The
// handler is held right after loadUnits got its (writable) bbolt transaction,
// the hourly flush starts; the flush must not get into its body before the
// handler has left its confMu section (it would take currMu and wait for the
// transaction, the handler holds the transaction and waits for currMu).
func c09ReadVsFlushTrial(t *testing.T, out *vfOut, r *vfRand, idx int) (stall *c09Stall) {
	id0 := uint32(r.Range(480000, 500000))
	ms := vfPick(r, []int64{2, 3, 5, 24, 24, 48, 192}) * c09MsHour
	m := c09NewSim(t, t.TempDir(), id0, ms, true)
	q := &c09Runner{m: m, ok: true}
	if m.dead {
		return nil
	}
	defer func() {
		if m.s != nil {
			_ = m.s.Close()
		}
	}()
	c09Base(r, q, id0)
	if m.dead {
		return nil
	}
	q.run(c09Op{Kind: "flush", ID: m.unitHour})
	prev := q.last
	old := m.unitHour
	id1 := old + uint32(vfPick(r, []int{1, 1, 1, 2, 3}))
	m.hour.Store(id1)

	var phase atomic.Int32
	held, release, flushBegan := make(chan struct{}), make(chan struct{}), make(chan struct{})
	var beganOnce sync.Once
	hook := func(msg string) {
		switch {
		case msg == c09TxStarted && phase.CompareAndSwap(0, 1):
			close(held)
			<-release
		case msg == c09TxStart && phase.Load() == 1:
			beganOnce.Do(func() { close(flushBegan) })
		}
	}
	c09BoltHook.Store(&hook)
	rDone := make(chan *httptest.ResponseRecorder, 1)
	fDone := make(chan struct{})
	go c09ReadRunner(m, rDone)
	var w *httptest.ResponseRecorder
	overlap, waited := "", ""
	select {
	case <-held:
		go c09FlushRunner(m, fDone)
		waited = c09Await(c09Closed(flushBegan), "c09FlushRunner", 2*time.Second)
		if waited == "done" {
			overlap = "the hourly flush took confMu and currMu and went for its write transaction while GET /control/stats was inside its confMu section holding the database's write transaction"
		}
	case w = <-rDone:
		go c09FlushRunner(m, fDone)
	}
	phase.Store(2)
	close(release)
	bound := c09WaitAll
	if overlap != "" {
		bound = 3 * time.Second
	}
	limit := time.Now().Add(bound)
	stuck := []string{}
	if w == nil {
		select {
		case w = <-rDone:
		case <-time.After(time.Until(limit)):
			stuck = append(stuck, "GET /control/stats")
		}
	}
	select {
	case <-fDone:
	case <-time.After(time.Until(limit)):
		stuck = append(stuck, "flush")
	}
	c09BoltHook.Store(nil)
	name := fmt.Sprintf("read vs flush %d", idx)
	desc := map[string]any{"wait": waited, "hour": id1}
	if overlap != "" || len(stuck) > 0 {
		m.s = nil
		parked := fmt.Sprintf("flush parked in %q, reader parked in %q", c09Parked("c09FlushRunner"), c09Parked("c09ReadRunner"))
		switch {
		case overlap != "" && len(stuck) > 0:
			q.fail("c09-flush-overlaps-read", "hour %d -> %d: %s; released, %s have not returned after %v (%s): every later Update waits for confMu", old, id1, overlap, strings.Join(stuck, ", "), bound, parked)
		case overlap != "":
			q.fail("c09-flush-overlaps-read", "hour %d -> %d: %s", old, id1, overlap)
		default:
			// Judged by the caller: reported only if it happens again.
			return &c09Stall{idx, "vs-flush", fmt.Sprintf("hour %d -> %d: %s have not returned after %v (%s)", old, id1, strings.Join(stuck, ", "), bound, parked)}
		}
		q.emit(out, id0, ms, name, false, desc, "read-vs-flush")
		return nil
	}
	// The answer was taken before the roll-over.
	if w.Code != http.StatusOK {
		q.fail("c09-op-error", "GET /control/stats at the turn of the hour: %d %s", w.Code, strings.TrimSpace(w.Body.String()))
	} else if got, err := c09DecodeResp(w.Body.Bytes()); err != nil {
		q.fail("c09-op-error", "GET /control/stats at the turn of the hour: %v", err)
	} else {
		c09JudgeResp(q, prev, got, nil, 0, 0, "at the turn of the hour")
		q.steps = append(q.steps, q.wrap(fmt.Sprintf("OFlush %d", old), got.coq()))
		q.ops = append(q.ops, map[string]any{"op": "GET /control/stats", "while": "the flusher waits"})
	}
	m.ghostFlush(id1)
	ob := m.observe(false)
	if sok, k, mm := m.monitor(ob); !sok {
		q.fail(k, "after GET /control/stats || flush to hour %d: %s", id1, mm)
	}
	q.steps = append(q.steps, q.wrap(fmt.Sprintf("OFlush %d", id1), ob.coq()))
	q.ops = append(q.ops, c09Op{Kind: "flush", ID: id1})
	if strings.HasPrefix(waited, "parked:") {
		m.classes["read-vs-flush-flush-waits-for-reader"] = true
	}
	q.emit(out, id0, ms, name, true, desc, "read-vs-flush")
	return nil
}

func c09ReadRaces(t *testing.T, out *vfOut, r *vfRand) {
	n := out.Scale(40, 250)
	kinds := []string{"callback", "loading-unit", "free", "callback", "vs-flush"}
	stalls := []*c09Stall{}
	for i := 0; i < n && len(stalls) < 2; i++ {
		var st *c09Stall
		if k := kinds[i%len(kinds)]; k == "vs-flush" {
			st = c09ReadVsFlushTrial(t, out, r.Fork(uint64(i)), i)
		} else {
			st = c09ReadRaceTrial(t, out, r.Fork(uint64(i)), i, k)
		}
		if st != nil {
			stalls = append(stalls, st)
		}
	}
	c09ReportStalls(out, "GET /control/stats concurrent with updates and the hourly flush", "c09-read-stall", stalls)
}

// c09ReportStalls: operations still blocked after the (generous) bound without
// an overlap having been seen: a finding only if it happened twice.
func c09ReportStalls(out *vfOut, what, key string, stalls []*c09Stall) {
	switch {
	case len(stalls) >= 2:
		out.Emit(vfCase{Coq: "(CHist 490000 86400000 true (@nil (op * obs)))%Z", MonitorOK: false,
			MonitorMsg: fmt.Sprintf("%s stalled in %d unforced trials: trial %d (%s): %s; trial %d (%s): %s", what,
				len(stalls), stalls[0].idx, stalls[0].kind, stalls[0].what, stalls[1].idx, stalls[1].kind, stalls[1].what),
			FindingKey: key, Desc: map[string]any{"name": what + ", stalls"}})
	case len(stalls) == 1:
		// Not reproduced: discarded, but visible in the evidence.
		out.Class("schedule-stall-discarded")
		out.Note("schedule_stall_discarded", stalls[0].what)
	}
}

// c09Schedules runs the schedule classes with the hook on bbolt's logger in place.
func c09Schedules(t *testing.T, out *vfOut, r *vfRand) {
	prevLogger := bbolt.DefaultOptions.Logger
	bbolt.DefaultOptions.Logger = c09BoltLogger{}
	defer func() {
		bbolt.DefaultOptions.Logger = prevLogger
		c09BoltHook.Store(nil)
	}()
	c09ReadRaces(t, out, r.Fork(0xC09A))
	c09Shutdowns(t, out, r.Fork(0xC09B))
}

// ---- clean shutdown racing with the hourly flush

// The hook on bbolt's own logger: bbolt.Open(name, mode, nil) uses
// bbolt.DefaultOptions, and DB.Begin logs "Starting a new transaction
// [writable: true]" before it waits for the writer lock and "... successfully"
// once it has it.
var c09BoltHook atomic.Pointer[func(msg string)]

type c09BoltLogger struct{}

func (c09BoltLogger) say(f string, v ...interface{}) {
	if h := c09BoltHook.Load(); h != nil {
		(*h)(fmt.Sprintf(f, v...))
	}
}
func (l c09BoltLogger) Debug(v ...interface{})            { l.say("%s", fmt.Sprint(v...)) }
func (l c09BoltLogger) Debugf(f string, v ...interface{}) { l.say(f, v...) }
func (c09BoltLogger) Error(v ...interface{})              {}
func (c09BoltLogger) Errorf(f string, v ...interface{})   {}
func (c09BoltLogger) Info(v ...interface{})               {}
func (c09BoltLogger) Infof(f string, v ...interface{})    {}
func (c09BoltLogger) Warning(v ...interface{})            {}
func (c09BoltLogger) Warningf(f string, v ...interface{}) {}
func (c09BoltLogger) Fatal(v ...interface{})              { panic(fmt.Sprint(v...)) }
func (c09BoltLogger) Fatalf(f string, v ...interface{})   { panic(fmt.Sprintf(f, v...)) }
func (c09BoltLogger) Panic(v ...interface{})              { panic(fmt.Sprint(v...)) }
func (c09BoltLogger) Panicf(f string, v ...interface{})   { panic(fmt.Sprintf(f, v...)) }

const (
	c09TxStart   = "Starting a new transaction [writable: true]"
	c09TxStarted = "Starting a new transaction [writable: true] successfully"
)

// c09FileBuckets reads (id, NTotal) of every bucket of a closed statistics file.
func c09FileBuckets(s *StatsCtx, file string) (b map[uint32]uint64, err error) {
	db, err := bbolt.Open(file, 0o600, &bbolt.Options{ReadOnly: true, Timeout: 10 * time.Second})
	if err != nil {
		return nil, err
	}
	defer func() { _ = db.Close() }()
	b = map[uint32]uint64{}
	err = db.View(func(tx *bbolt.Tx) error {
		return tx.ForEach(func(name []byte, _ *bbolt.Bucket) error {
			id, ok := unitNameToID(name)
			if !ok {
				return fmt.Errorf("bucket name %x", name)
			}
			u := s.loadUnitFromDB(tx, id)
			if u == nil {
				return fmt.Errorf("bucket %d unreadable", id)
			}
			b[id] = u.NTotal
			return nil
		})
	})
	return b, err
}

type c09Stall struct {
	idx  int
	kind string
	what string
}

// c09ShutdownTrial returns a stall (operations still blocked after the bound)
// if one happened in an unforced trial; forced trials report theirs at once,
// together with the overlap that caused it.
func c09ShutdownTrial(t *testing.T, out *vfOut, r *vfRand, idx int, kind string) (stall *c09Stall) {
	id0 := uint32(r.Range(480000, 500000))
	ms := vfPick(r, []int64{3, 5, 24, 24, 48, 200}) * c09MsHour
	if idx%15 == 0 {
		ms = 3 * c09MsHour
	}
	m := c09NewSim(t, t.TempDir(), id0, ms, true)
	q := &c09Runner{m: m, ok: true, x: true}
	if m.dead {
		return nil
	}
	closed := false
	defer func() {
		if m.s != nil && !closed {
			_ = m.s.Close()
		}
	}()
	c09Base(r, q, id0)
	if m.dead {
		return nil
	}

	// The hour turns (sometimes not: the flush has nothing to do), the periodic
	// flusher and the shutdown start, requests are still in flight.
	old := m.unitHour
	id1 := old + uint32(vfPick(r, []int{1, 1, 1, 1, 2, 3, 0}))
	if idx%15 == 0 {
		// The clock jumps by exactly the limit: the flush stores the hour and
		// deletes it in the same transaction.
		id1 = old + m.limH
	}
	n := r.Intn(6)
	stream, es := c09GenStream(r, n, false)
	s := m.s
	s.currMu.RLock()
	n0 := s.curr.nTotal
	s.currMu.RUnlock()
	m.hour.Store(id1)

	var started, finished atomic.Int64
	fDone, cDone, uDone := make(chan struct{}), make(chan struct{}), make(chan struct{})
	cres := &c09CloseResult{}
	goF := func() { go c09FlushRunner(m, fDone) }
	goC := func() { go c09CloseRunner(s, &started, &finished, cres, cDone) }
	goU := func() { go c09StreamRunner(s, es, &started, &finished, uDone) }

	var phase atomic.Int32 // 0 armed, 1 the first operation is held in Begin, 2 released
	held, release := make(chan struct{}), make(chan struct{})
	var otherBegan atomic.Bool
	otherHasTx := make(chan struct{})
	var otherOnce sync.Once
	hook := func(msg string) {
		switch {
		case msg == c09TxStart && phase.CompareAndSwap(0, 1):
			close(held)
			<-release
		case msg == c09TxStart && phase.Load() == 1:
			otherBegan.Store(true)
		case msg == c09TxStarted && phase.Load() == 1 && otherBegan.Load():
			otherOnce.Do(func() { close(otherHasTx) })
		}
	}
	overlap, forced, waited := "", false, ""
	switch kind {
	case "flush-first":
		// The flush is held at the start of flushDB's write transaction:
		// confMu and currMu taken, the database pointer loaded.
		c09BoltHook.Store(&hook)
		goF()
		select {
		case <-held:
			forced = true
			goC()
			goU()
			waited = c09Await(c09Closed(otherHasTx), "c09CloseRunner", 2*time.Second)
			if waited == "done" {
				overlap = "Close swapped the database pointer and opened its write transaction while the hourly flush was inside flushDB (confMu and currMu held, about to open its own transaction)"
			}
		case <-fDone:
			// Same hour: the flush had nothing to write.
			goC()
			goU()
		}
	case "close-first":
		// Close is held at the start of its write transaction: the database
		// pointer is swapped out already.
		c09BoltHook.Store(&hook)
		goC()
		select {
		case <-held:
			forced = true
			goF()
			goU()
			waited = c09Await(c09Closed(fDone), "c09FlushRunner", 2*time.Second)
			if waited == "done" {
				overlap = "the hourly flush took confMu and currMu and returned while Close was inside its body (database pointer swapped out, write transaction not yet open)"
			}
		case <-cDone:
			goF()
			goU()
		}
	default:
		var start sync.WaitGroup
		start.Add(1)
		spin := func(k int, f func()) {
			go func() {
				start.Wait()
				for ; k > 0; k-- {
					runtime.Gosched()
				}
				f()
			}()
		}
		// The runners are started from small goroutines of their own so that
		// the order of arrival varies.
		spin(r.Intn(30), goF)
		spin(r.Intn(30), goC)
		spin(r.Intn(30), goU)
		start.Done()
	}
	phase.Store(2)
	close(release)
	bound := c09WaitAll
	if overlap != "" {
		bound = 3 * time.Second
	}
	deadline := time.After(bound)
	pending := map[string]chan struct{}{"flush": fDone, "Close": cDone, "updates": uDone}
	for len(pending) > 0 && deadline != nil {
		select {
		case <-fDone:
			delete(pending, "flush")
			fDone = nil
		case <-cDone:
			delete(pending, "Close")
			cDone = nil
		case <-uDone:
			delete(pending, "updates")
			uDone = nil
		case <-deadline:
			deadline = nil
		}
	}
	c09BoltHook.Store(nil)
	desc := map[string]any{"kind": kind, "forced": forced, "wait": waited, "hour": id1, "stream": n}
	name := fmt.Sprintf("close vs flush %d (%s)", idx, kind)
	if overlap != "" || len(pending) > 0 {
		closed = true // do not call Close again on a context that may be blocked
		m.s = nil
		who := []string{}
		for k := range pending {
			who = append(who, k)
		}
		sort.Strings(who)
		parked := fmt.Sprintf("flush parked in %q, Close parked in %q", c09Parked("c09FlushRunner"), c09Parked("c09CloseRunner"))
		switch {
		case overlap != "" && len(pending) > 0:
			q.fail("c09-shutdown-overlaps-flush", "clean shutdown at the turn of the hour %d -> %d: %s; released, %s have not returned after %v (%s): the process does not exit, the counts of hour %d are not written",
				old, id1, overlap, strings.Join(who, ", "), bound, parked, old)
		case overlap != "":
			q.fail("c09-shutdown-overlaps-flush", "clean shutdown at the turn of the hour %d -> %d: %s", old, id1, overlap)
		default:
			// Unforced: judged by the caller (reported only if it happens again).
			return &c09Stall{idx, kind, fmt.Sprintf("hour %d -> %d: %s have not returned after %v (%s)", old, id1, strings.Join(who, ", "), bound, parked)}
		}
		q.emit(out, id0, ms, name, false, desc, "close-vs-flush")
		return nil
	}
	closed = true
	if cres.err != nil {
		m.fail(c09ErrClose, "Close: %v", cres.err)
	}

	// Where did everything land?  The old context's unit and the file.
	s.currMu.RLock()
	curID, curN := s.curr.id, s.curr.nTotal
	s.currMu.RUnlock()
	buckets, err := c09FileBuckets(s, m.file)
	if err != nil {
		m.fail(c09ErrDB, "reading the file after Close: %v", err)
	}
	flushFirst := curID != old
	var j, i int64
	bOld, hasOld := buckets[old]
	if flushFirst {
		// The unit swapped in by the flush holds what came after it: the
		// updates before the flush are the rest of the stream.  The flush
		// stored hour `old` and deleted bucket id1-limit, which is `old` itself
		// when the clock jumped by exactly the limit.
		j = int64(n) - int64(curN)
		i = int64(buckets[id1])
		switch _, ok := buckets[id1]; {
		case curID != id1:
			q.fail("c09-shutdown-not-sequential", "current unit of the closed context is %d, neither %d nor %d", curID, old, id1)
		case !ok:
			q.fail("c09-shutdown-not-sequential", "the flush swapped the unit to hour %d before Close, but the file has no bucket %d: %v", id1, id1, buckets)
		case hasOld && int64(bOld) != int64(n0)+j:
			q.fail("c09-shutdown-not-sequential", "hour %d had %d queries and %d of the %d concurrent updates before the flush, its bucket holds %d: %v", old, n0, j, n, bOld, buckets)
		case !hasOld && id1-m.limH != old:
			q.fail("c09-shutdown-lost", "the flush to hour %d did not leave a bucket for hour %d (limit %d h): %v", id1, old, m.limH, buckets)
		}
	} else {
		j = int64(bOld) - int64(n0)
		if !hasOld {
			q.fail("c09-shutdown-lost", "Close did not write the bucket of the current hour %d: %v", old, buckets)
			j = 0
		}
	}
	k := j + i
	switch {
	case j < 0 || i < 0 || k > int64(n):
		q.fail("c09-shutdown-not-sequential", "hour %d had %d queries, %d concurrent updates; unit %d of the closed context has %d; file after Close: %v (flush first: %v)", old, n0, n, curID, curN, buckets, flushFirst)
		j, i, k = 0, 0, 0
	case !flushFirst && curN != n0+uint64(n):
		q.fail("c09-shutdown-not-sequential", "unit %d of the closed context has %d queries, expected %d + %d", curID, curN, n0, n)
	case k < cres.finishedBefore:
		q.fail("c09-shutdown-lost", "%d updates had returned before Close was called, the file holds %d of the stream: %v", cres.finishedBefore, k, buckets)
	case k > cres.startedBeforeReturn:
		q.fail("c09-shutdown-more-than-counted", "%d updates had been issued when Close returned, the file holds %d of the stream: %v", cres.startedBeforeReturn, k, buckets)
	}
	skip := func(o c09Op) {
		q.steps = append(q.steps, q.wrap(o.coq(), "ObsSkip"))
		q.ops = append(q.ops, o)
	}
	fl := c09Op{Kind: "flush", ID: id1}
	for _, o := range stream[:j] {
		skip(o)
		m.ghostUpdate(o)
	}
	if flushFirst {
		skip(fl)
		m.ghostFlush(id1)
	}
	for _, o := range stream[j:k] {
		skip(o)
		m.ghostUpdate(o)
	}
	q.steps = append(q.steps, "(XClose, ObsSkip)")
	q.ops = append(q.ops, map[string]any{"op": "Close"})
	if !flushFirst {
		skip(fl)
	}
	for _, o := range stream[k:] {
		skip(o)
	}
	if id1 == old {
		m.classes["close-vs-flush-same-hour"] = true
	} else if flushFirst {
		m.classes["close-vs-flush-flush-first"] = true
	} else {
		m.classes["close-vs-flush-close-first"] = true
	}
	if forced {
		m.classes["close-vs-flush-forced-"+kind] = true
		// The pointer was swapped by Close / loaded by the flush while the other
		// one stood inside its body waiting: it has to be an atomic one.
		m.classes["db-pointer-atomic"] = true
	}
	if strings.HasPrefix(waited, "parked:") {
		m.classes["close-vs-flush-other-waits-for-confMu"] = true
	}
	if i > 0 {
		m.classes["close-vs-flush-updates-between"] = true
	}
	if k < int64(n) {
		m.classes["close-vs-flush-updates-after-close"] = true
	}
	if flushFirst && !hasOld {
		m.classes["close-vs-flush-gap-of-limit"] = true
	}
	desc["flush_first"], desc["before_flush"], desc["before_close"] = flushFirst, j, k

	// New on the same file, in the same or a later hour, and a read: totals
	// equal the counted queries.
	id2 := id1 + uint32(vfPick(r, []int{0, 0, 1, 2}))
	ro := c09Op{Kind: "restart", ID: id2}
	m.apply(&ro) // Close (nothing left to do), the flusher's flush (pointer nil), New
	q.ops = append(q.ops, map[string]any{"op": "New", "id": id2})
	ob := m.observe(false)
	if sok, kk, mm := m.monitor(ob); !sok {
		q.fail(kk, "after flush || Close || %d updates and New at %d (flush first: %v, %d updates before the flush, %d before Close): %s", n, id2, flushFirst, j, k, mm)
	}
	q.steps = append(q.steps, fmt.Sprintf("(XNew %d, %s)", id2, ob.coq()))
	// The new context works on.
	if !m.dead {
		for nn := 1 + r.Intn(3); nn > 0; nn-- {
			o := c09GenUpdate(r, false)
			q.run(o)
		}
		q.run(c09Op{Kind: "flush", ID: id2 + 1})
	}
	q.emit(out, id0, ms, name, true, desc, "close-vs-flush")
	return nil
}

func c09Shutdowns(t *testing.T, out *vfOut, r *vfRand) {
	n := out.Scale(30, 240)
	kinds := []string{"flush-first", "close-first", "free"}
	stalls := []*c09Stall{}
	for i := 0; i < n; i++ {
		if st := c09ShutdownTrial(t, out, r.Fork(uint64(i)), i, kinds[i%len(kinds)]); st != nil {
			stalls = append(stalls, st)
			if len(stalls) >= 2 {
				break
			}
		}
	}
	c09ReportStalls(out, "clean shutdown concurrent with the hourly flush", "c09-shutdown-stall", stalls)
}

//go:build verif

package schedule

// C18, zones: constructed instants around the transitions of every
// daylight-saving rule family (seed-independent prelude), and a thin pass
// over every zone of the host in the quick tier (the thorough tier walks all
// of them in full).

import (
	"time"
)

// c18Fam names a zone and a window in which its transitions are looked up
// with Time.ZoneBounds.
type c18Fam struct {
	class, zone string
	from, to    int // years: [from-01-01, to-01-01)
}

var c18Families = []c18Fam{
	// United States rule: second Sunday of March / first Sunday of November, 02:00 local
	{"tz-us", "America/New_York", 2024, 2025}, {"tz-us", "America/Los_Angeles", 2025, 2026},
	{"tz-us", "America/Anchorage", 2026, 2027}, {"tz-us", "America/St_Johns", 2024, 2025},
	// European Union rule: last Sunday of March / October, 01:00 UTC in every zone at once
	{"tz-eu", "Europe/Berlin", 2024, 2025}, {"tz-eu", "Europe/London", 2025, 2026},
	{"tz-eu", "Europe/Lisbon", 2026, 2027}, {"tz-eu", "Europe/Dublin", 2024, 2025},
	{"tz-eu", "Europe/Helsinki", 2027, 2028},
	// southern hemisphere: summer time over the new year
	{"tz-south", "Australia/Sydney", 2024, 2025}, {"tz-south", "Pacific/Auckland", 2025, 2026},
	{"tz-south", "America/Santiago", 2024, 2025}, {"tz-south", "America/Sao_Paulo", 2018, 2019},
	{"tz-south", "Pacific/Chatham", 2024, 2025}, {"tz-south", "Australia/Adelaide", 2026, 2027},
	// the 30-minute shift
	{"tz-lord-howe", "Australia/Lord_Howe", 2024, 2025}, {"tz-lord-howe", "Australia/Lord_Howe", 2028, 2029},
	// zones that skipped a calendar day (date line moves)
	{"tz-date-line", "Pacific/Apia", 2011, 2013}, {"tz-date-line", "Pacific/Kiritimati", 1994, 1996},
	{"tz-date-line", "Pacific/Fakaofo", 2011, 2012}, {"tz-date-line", "Pacific/Kwajalein", 1993, 1994},
	// transitions at local midnight
	{"tz-midnight", "America/Havana", 2024, 2025}, {"tz-midnight", "Asia/Beirut", 2024, 2025},
	{"tz-midnight", "America/Asuncion", 2023, 2024}, {"tz-midnight", "Africa/Cairo", 2024, 2025},
	{"tz-midnight", "Asia/Tehran", 2021, 2022}, {"tz-midnight", "Asia/Amman", 2021, 2022},
	{"tz-midnight", "Asia/Damascus", 2021, 2022}, {"tz-midnight", "Atlantic/Azores", 2024, 2025},
	{"tz-midnight", "America/Scoresbysund", 2025, 2026}, {"tz-midnight", "Asia/Gaza", 2024, 2025},
	{"tz-midnight", "America/Santiago", 2026, 2027},
	// shifts that are not one hour, permanent changes of offset, negative and Ramadan rules
	{"tz-other-shift", "Antarctica/Troll", 2024, 2025}, {"tz-other-shift", "Africa/Casablanca", 2024, 2025},
	{"tz-other-shift", "Europe/Moscow", 2014, 2015}, {"tz-other-shift", "Asia/Pyongyang", 2015, 2019},
	{"tz-other-shift", "America/Caracas", 2016, 2017}, {"tz-other-shift", "Africa/Juba", 2021, 2022},
	{"tz-other-shift", "Europe/Volgograd", 2020, 2021},
}

// zones without transitions whose offset is not a whole hour: instants around
// the local midnights of two fixed dates
var c18OddFixed = []string{"Asia/Kathmandu", "Asia/Kolkata", "Australia/Eucla", "Pacific/Marquesas",
	"Asia/Yangon", "Asia/Kabul", "Australia/Darwin"}

func c18Window(loc *time.Location, from, to int) (ts []time.Time) {
	t := time.Date(from, 1, 1, 0, 0, 0, 0, time.UTC).In(loc)
	end := time.Date(to, 1, 1, 0, 0, 0, 0, time.UTC)
	for i := 0; i < 32; i++ {
		_, e := t.ZoneBounds()
		if e.IsZero() || !e.Before(end) {
			break
		}
		ts = append(ts, e)
		t = e
	}
	return ts
}

func c18Tod(lt time.Time) time.Duration {
	h, m, _ := lt.Clock()
	return time.Duration(h)*time.Hour + time.Duration(m)*time.Minute
}

// c18Schedules builds the constructed schedules for an instant whose local
// reading is lt: k selects how many of them.
func c18Schedules(r *vfRand, lt time.Time, k int) (out [][7]dayRange) {
	full := dayRange{start: 0, end: maxDayRange}
	wd := lt.Weekday()
	tod := c18Tod(lt)
	var s1, s2, s3, s4, s5 [7]dayRange
	s1[wd] = full // only this local day pauses
	for i := range s3 {
		s2[i] = full
		s3[i] = c18RandRange(r)
		s4[i] = full
		s5[i] = c18RandRange(r)
	}
	s2[wd] = dayRange{} // every day but this one
	s3[wd] = dayRange{start: tod, end: tod + time.Minute}
	s4[wd] = dayRange{}
	if tod > 0 {
		s4[wd] = dayRange{start: 0, end: tod} // ends on this minute
	}
	s5[wd] = dayRange{}
	if tod+time.Minute < maxDayRange {
		s5[wd] = dayRange{start: tod + time.Minute, end: maxDayRange} // begins with the next minute
	}
	all := [][7]dayRange{s1, s3, s4, s2, s5}
	return all[:k]
}

func c18AbsInt(x int) int {
	if x < 0 {
		return -x
	}
	return x
}

func c18FamilyPrelude(out *vfOut, callers []c18Caller) {
	r := vfNewRand(181818)
	nTrans, nCases, nCaller := 0, 0, 0
	emit := func(zn string, loc *time.Location, ts time.Time, k int, classes ...string) {
		lt := ts.In(loc)
		_, off := lt.Zone()
		y, m, d := lt.Date()
		_, offMid := time.Date(y, m, d, 0, 0, 0, 0, loc).Zone()
		if off != offMid {
			classes = append(classes, "dst-day")
		}
		if off%3600 != 0 {
			classes = append(classes, "tz-offset-not-whole-hour")
		}
		for _, days := range c18Schedules(r, lt, k) {
			c := callers[nCaller%len(callers)]
			nCaller++
			cls := classes
			if days[lt.Weekday()] == (dayRange{start: 0, end: maxDayRange}) {
				cls = append(append([]string{}, classes...), "full-day")
			}
			c18EmitContains(out, zn, loc, days, ts.In(c.loc), c.name, cls...)
			nCases++
		}
	}
	near := []time.Duration{-time.Minute, -time.Nanosecond, 0, time.Nanosecond, time.Minute}
	for _, f := range c18Families {
		loc, err := time.LoadLocation(f.zone)
		if err != nil {
			out.Class("skipped-tz-zone-absent")
			continue
		}
		for _, tr := range c18Window(loc, f.from, f.to) {
			nTrans++
			b, a := tr.Add(-time.Nanosecond).In(loc), tr.In(loc)
			_, ob := b.Zone()
			_, oa := a.Zone()
			classes := []string{f.class}
			by, bm, bd := b.Date()
			ay, am, ad := a.Date()
			dayB := time.Date(by, bm, bd, 0, 0, 0, 0, time.UTC)
			dayA := time.Date(ay, am, ad, 0, 0, 0, 0, time.UTC)
			if gap := dayA.Sub(dayB); gap >= 48*time.Hour {
				classes = append(classes, "tz-skipped-day")
			}
			bh, bmi, bs := b.Clock()
			ah, ami, as := a.Clock()
			if (bh == 23 && bmi == 59 && bs == 59) || (ah == 0 && ami == 0 && as == 0) {
				classes = append(classes, "tz-midnight-transition")
			}
			if c18AbsInt(oa-ob)%3600 != 0 {
				classes = append(classes, "tz-half-hour-shift")
			}
			if oa < ob {
				classes = append(classes, "tz-clock-back")
			} else {
				classes = append(classes, "tz-clock-forward")
			}
			// the transition itself
			for _, d := range near {
				emit(f.zone, loc, tr.Add(d), 5, classes...)
			}
			// the other end of the repeated / skipped wall-clock stretch
			shift := time.Duration(c18AbsInt(oa-ob)) * time.Second
			for _, d := range near {
				emit(f.zone, loc, tr.Add(shift).Add(d), 3, classes...)
				emit(f.zone, loc, tr.Add(-shift).Add(d), 2, classes...)
			}
			// the local midnights of the day of the transition and its neighbours
			for dd := -1; dd <= 1; dd++ {
				mid := time.Date(ay, am, ad+dd, 0, 0, 0, 0, loc)
				for _, d := range []time.Duration{-time.Nanosecond, 0, time.Nanosecond} {
					emit(f.zone, loc, mid.Add(d), 2, classes...)
				}
			}
		}
	}
	for _, zn := range c18OddFixed {
		loc, err := time.LoadLocation(zn)
		if err != nil {
			out.Class("skipped-tz-zone-absent")
			continue
		}
		for _, day := range []time.Time{time.Date(2024, 3, 10, 0, 0, 0, 0, loc), time.Date(2027, 12, 31, 0, 0, 0, 0, loc)} {
			for _, d := range near {
				emit(zn, loc, day.Add(d), 3, "tz-odd-fixed-offset")
				emit(zn, loc, day.Add(12*time.Hour+30*time.Minute).Add(d), 2, "tz-odd-fixed-offset")
			}
		}
	}
	out.Note("family_prelude_transitions", nTrans)
	out.Note("family_prelude_cases", nCases)
}

// c18ThinZones: quick tier only.  Every zone of the host that the main loop
// does not walk gets its last transition of 2020-2030 (the last nanosecond
// before and the first one after), or a local midnight when it has none, and
// one more instant in the middle of a day.
func c18ThinZones(out *vfOut, zones, used []string, callers []c18Caller) {
	r := vfNewRand(181819)
	skip := map[string]bool{}
	for _, z := range used {
		skip[z] = true
	}
	n, k := 0, 0
	for _, zn := range zones {
		if skip[zn] {
			continue
		}
		loc, err := time.LoadLocation(zn)
		if err != nil {
			continue
		}
		n++
		var instants []time.Time
		if trs := c18Transitions(loc); len(trs) > 0 {
			tr := trs[(n*7)%len(trs)]
			instants = append(instants, tr.Add(-time.Nanosecond), tr)
		} else {
			mid := time.Date(2020+n%10, time.Month(1+n%12), 1+n%28, 0, 0, 0, 0, loc)
			instants = append(instants, mid.Add(-time.Nanosecond), mid)
		}
		instants = append(instants, time.Date(2020+(n*3)%10, time.Month(1+(n*5)%12), 1+(n*11)%28, 11, 30+n%30, n%60, n, time.UTC))
		for i, ts := range instants {
			lt := ts.In(loc)
			sch := c18Schedules(r, lt, 3)
			days := sch[(n+i)%3]
			c := callers[k%len(callers)]
			k++
			c18EmitContains(out, zn, loc, days, ts.In(c.loc), c.name, "tz-thin-all-zones")
		}
	}
	out.Note("zones_thin", n)
}

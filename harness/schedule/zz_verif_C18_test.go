//go:build verif

package schedule

import (
	"encoding/json"
	"fmt"
	"io/fs"
	"os"
	"path/filepath"
	"sort"
	"strconv"
	"strings"
	"testing"
	"time"

	"gopkg.in/yaml.v3"
)

// c18Zones returns every IANA zone found on the host (sorted), or a fixed
// list if the directory cannot be walked.
func c18Zones() (zones []string) {
	root := "/usr/share/zoneinfo"
	_ = filepath.WalkDir(root, func(p string, d fs.DirEntry, err error) error {
		if err != nil || d.IsDir() {
			return nil
		}
		rel, _ := filepath.Rel(root, p)
		if strings.HasPrefix(rel, "posix") || strings.HasPrefix(rel, "right") ||
			strings.Contains(rel, ".") || strings.HasPrefix(rel, "Etc/") {
			return nil
		}
		if c := rel[0]; c < 'A' || c > 'Z' {
			return nil
		}
		if _, lerr := time.LoadLocation(rel); lerr == nil {
			zones = append(zones, rel)
		}
		return nil
	})
	sort.Strings(zones)
	if len(zones) == 0 {
		zones = []string{"UTC"}
	}
	return zones
}

var c18Must = []string{
	"America/New_York", "Europe/London", "Australia/Lord_Howe", "Asia/Kolkata",
	"Asia/Kathmandu", "Pacific/Apia", "America/St_Johns", "Africa/Casablanca",
	"UTC", "Pacific/Kiritimati", "Antarctica/Troll", "Europe/Moscow", "Australia/Eucla",
	"America/Sao_Paulo", "Asia/Tehran", "Pacific/Chatham",
}

// c18Transitions lists the zone transitions of loc between 2020 and 2030.
func c18Transitions(loc *time.Location) (ts []time.Time) {
	t := time.Date(2020, 1, 1, 0, 0, 0, 0, time.UTC).In(loc)
	end := time.Date(2030, 1, 1, 0, 0, 0, 0, time.UTC)
	for i := 0; i < 64; i++ {
		_, e := t.ZoneBounds()
		if e.IsZero() || e.After(end) {
			break
		}
		ts = append(ts, e)
		t = e
	}
	return ts
}

func c18RandRange(r *vfRand) dayRange {
	switch r.Intn(8) {
	case 0:
		return dayRange{}
	case 1:
		return dayRange{start: 0, end: maxDayRange}
	default:
		a := time.Duration(r.Intn(24*60)) * time.Minute
		b := time.Duration(r.Intn(24*60+1)) * time.Minute
		if a > b {
			a, b = b, a
		}
		if a == b {
			if b == maxDayRange {
				a -= time.Minute
			} else {
				b += time.Minute
			}
		}
		return dayRange{start: a, end: b}
	}
}

func c18CoqRanges(days [7]dayRange) string {
	items := make([]string, 7)
	for i, d := range days {
		items[i] = vfPair(vfZ(int64(d.start)), vfZ(int64(d.end)))
	}
	return vfList("Z * Z", items)
}

var c18Weekdays = map[string]int{"Sun": 0, "Mon": 1, "Tue": 2, "Wed": 3, "Thu": 4, "Fri": 5, "Sat": 6}

// c18Expected states the property directly from the printed wall clock.
func c18Expected(days [7]dayRange, loc *time.Location, t time.Time) (ok bool, err error) {
	s := t.In(loc).Format("Mon 15 04 05.000000000")
	var wd string
	var h, m int
	var sec float64
	if _, err = fmt.Sscanf(s, "%s %d %d %f", &wd, &h, &m, &sec); err != nil {
		return false, err
	}
	frac := s[len(s)-9:]
	ns, _ := strconv.ParseInt(frac, 10, 64)
	whole, _ := strconv.ParseInt(s[len(s)-12:len(s)-10], 10, 64)
	tod := time.Duration(h)*time.Hour + time.Duration(m)*time.Minute +
		time.Duration(whole)*time.Second + time.Duration(ns)
	dr := days[c18Weekdays[wd]]
	return dr.start <= tod && tod < dr.end, nil
}

func c18ErrCode(err error) int64 {
	if err == nil {
		return -1
	}
	msg := err.Error()
	day := int64(-1)
	for i := 0; i < 7; i++ {
		if strings.Contains(msg, "weekday "+time.Weekday(i).String()+":") {
			day = int64(i)
		}
	}
	if day < 0 {
		return -2 // not a range error (syntax, zone): outside the model
	}
	code := int64(0)
	switch {
	case strings.Contains(msg, ": start ") && strings.Contains(msg, "is negative"):
		code = 1
	case strings.Contains(msg, ": end ") && strings.Contains(msg, "is negative"):
		code = 2
	case strings.Contains(msg, "is greater or equal to end"):
		code = 3
	case strings.Contains(msg, ": start ") && strings.Contains(msg, "is greater or equal to"):
		code = 4
	case strings.Contains(msg, ": end ") && strings.Contains(msg, "is greater than"):
		code = 5
	case strings.Contains(msg, ": start ") && strings.Contains(msg, "isn't rounded"):
		code = 6
	case strings.Contains(msg, ": end ") && strings.Contains(msg, "isn't rounded"):
		code = 7
	}
	return 10*day + code
}

// c18InvalidAccepted states the rejection clause of the property directly.
func c18InvalidAccepted(w *Weekly) string {
	for d := 0; d < 7; d++ {
		r := w.days[d]
		if r == (dayRange{}) {
			continue
		}
		if r.start < 0 || r.end < 0 || r.start >= r.end || r.end > 24*time.Hour || r.start%time.Minute != 0 || r.end%time.Minute != 0 {
			return "invalid range accepted"
		}
	}
	return ""
}

var c18DayKeys = []string{"sun", "mon", "tue", "wed", "thu", "fri", "sat"}

// c18RandHalfMs draws a serialised duration in half-milliseconds: mostly
// whole minutes in range, sometimes negative, beyond 24h, or not whole.
func c18RandHalfMs(r *vfRand) int64 {
	const minute = 2 * 60000
	switch r.Intn(12) {
	case 0:
		return -int64(r.Intn(3)+1) * minute
	case 1:
		return 24*60*minute + int64(r.Intn(3))*minute
	case 2:
		return int64(r.Intn(24*60))*minute + int64(r.Intn(minute-1)+1)
	case 3:
		return 0
	case 4:
		return 24 * 60 * minute
	default:
		return int64(r.Intn(24*60+1)) * minute
	}
}

func c18HalfMsJSON(v int64) string {
	s := strconv.FormatInt(v/2, 10)
	if v%2 != 0 {
		if v < 0 {
			// -3 half-ms = -1.5
			s = strconv.FormatInt(v/2, 10)
			if v/2 == 0 {
				s = "-0"
			}
		}
		s += ".5"
	}
	return s
}

func TestVerifC18(t *testing.T) {
	out := vfOpen(t, "C18")
	defer out.Close()
	rnd := vfNewRand(out.Seed)

	zones := c18Zones()
	out.Note("zones_on_host", len(zones))
	present := map[string]bool{}
	for _, z := range zones {
		present[z] = true
	}
	var use []string
	for _, z := range c18Must {
		if present[z] || z == "UTC" {
			use = append(use, z)
		}
	}
	if out.Thorough() {
		use = zones
		if !present["UTC"] {
			use = append(use, "UTC")
		}
	} else {
		extra := append([]string(nil), zones...)
		vfShuffle(rnd, extra)
		for _, z := range extra[:min(len(extra), 24)] {
			use = append(use, z)
		}
	}
	out.Note("zones_used", len(use))

	perZoneRandom := out.Scale(12, 60)

	// --- Contains ---
	for _, zn := range use {
		loc, err := time.LoadLocation(zn)
		if err != nil {
			continue
		}
		trs := c18Transitions(loc)
		var instants []time.Time
		deltas := []time.Duration{-2 * time.Hour, -time.Hour - time.Nanosecond, -time.Hour, -30 * time.Minute,
			-time.Nanosecond, 0, time.Nanosecond, 30 * time.Minute, time.Hour, 2 * time.Hour, 5 * time.Hour,
			12 * time.Hour, 20 * time.Hour, 23*time.Hour + 30*time.Minute}
		if !out.Thorough() && len(trs) > 6 {
			// quick tier: a rotating subset of the transitions
			k := rnd.Intn(len(trs))
			sel := []time.Time{}
			for i := 0; i < 6; i++ {
				sel = append(sel, trs[(k+i*3)%len(trs)])
			}
			trs = sel
		}
		for _, tr := range trs {
			for _, d := range deltas {
				instants = append(instants, tr.Add(d))
			}
			// local midnights around the transition day
			y, m, d := tr.In(loc).Date()
			for dd := -1; dd <= 1; dd++ {
				mid := time.Date(y, m, d+dd, 0, 0, 0, 0, loc)
				instants = append(instants, mid, mid.Add(-time.Nanosecond), mid.Add(time.Nanosecond))
			}
		}
		for i := 0; i < perZoneRandom; i++ {
			sec := rnd.Range(-2000000000, 4000000000)
			instants = append(instants, time.Unix(sec, rnd.Range(0, 999999999)))
		}
		for _, ts := range instants {
			var days [7]dayRange
			for i := range days {
				days[i] = c18RandRange(rnd)
			}
			lt := ts.In(loc)
			// bias: put a range edge exactly at / next to the instant's time of day
			if rnd.Chance(1, 3) {
				h, m, _ := lt.Clock()
				tod := time.Duration(h)*time.Hour + time.Duration(m)*time.Minute
				wd := lt.Weekday()
				switch rnd.Intn(3) {
				case 0:
					if tod > 0 {
						days[wd] = dayRange{start: 0, end: tod}
					}
				case 1:
					if tod < maxDayRange {
						days[wd] = dayRange{start: tod, end: maxDayRange}
					}
				case 2:
					if tod+time.Minute <= maxDayRange {
						days[wd] = dayRange{start: tod, end: tod + time.Minute}
					}
				}
			}
			w := &Weekly{location: loc, days: days}
			obs := w.Contains(ts)
			_, off := lt.Zone()
			y, m, d := lt.Date()
			_, offMid := time.Date(y, m, d, 0, 0, 0, 0, loc).Zone()
			dst := off != offMid
			exp, perr := c18Expected(days, loc, ts)
			c := vfCase{
				Coq: vfApp("C18.CContains", vfZ(ts.UnixNano()), vfZ(int64(off)), c18CoqRanges(days), vfBool(obs)),
				Nontrivial: dst || days[lt.Weekday()] != dayRange{},
				MonitorOK:  perr == nil && exp == obs,
				Desc: map[string]any{"kind": "contains", "zone": zn, "t": ts.UTC().Format(time.RFC3339Nano),
					"local": lt.Format("Mon 2006-01-02 15:04:05.999999999 -0700"),
					"range": fmt.Sprintf("%s-%s", days[lt.Weekday()].start, days[lt.Weekday()].end), "contains": obs},
			}
			if dst {
				c.Classes = append(c.Classes, "dst-day")
			}
			if obs {
				c.Classes = append(c.Classes, "contains-true")
			} else {
				c.Classes = append(c.Classes, "contains-false")
			}
			if days[lt.Weekday()] == (dayRange{start: 0, end: maxDayRange}) {
				c.Classes = append(c.Classes, "full-day")
			}
			if !c.MonitorOK {
				c.MonitorMsg = fmt.Sprintf("Contains=%v but wall clock %s in range %v-%v is %v",
					obs, lt.Format("Mon 15:04:05.999999999"), days[lt.Weekday()].start, days[lt.Weekday()].end, exp)
				c.FindingKey = "contains-wallclock"
			}
			out.Emit(c)
		}
	}

	// --- JSON / YAML documents ---
	nDocs := out.Scale(400, 4000)
	for i := 0; i < nDocs; i++ {
		valid := rnd.Chance(1, 2)
		var js [7]*[2]int64
		for d := 0; d < 7; d++ {
			if rnd.Chance(1, 4) {
				continue
			}
			if valid {
				dr := c18RandRange(rnd)
				js[d] = &[2]int64{int64(dr.start/time.Millisecond) * 2, int64(dr.end/time.Millisecond) * 2}
			} else {
				a, b := c18RandHalfMs(rnd), c18RandHalfMs(rnd)
				if rnd.Chance(1, 12) {
					b = 0
				} else if rnd.Chance(3, 4) && a > b {
					a, b = b, a
				}
				js[d] = &[2]int64{a, b}
			}
		}
		// JSON
		{
			var sb strings.Builder
			sb.WriteString(`{"time_zone":"Europe/Berlin"`)
			items := make([]string, 7)
			for d := 0; d < 7; d++ {
				if js[d] == nil {
					items[d] = vfOpt("Z * Z", false, "")
					continue
				}
				fmt.Fprintf(&sb, `,%q:{"start":%s,"end":%s}`, c18DayKeys[d], c18HalfMsJSON(js[d][0]), c18HalfMsJSON(js[d][1]))
				items[d] = vfOpt("Z * Z", true, vfPair(vfZ(js[d][0]), vfZ(js[d][1])))
			}
			sb.WriteString("}")
			w := &Weekly{}
			err := json.Unmarshal([]byte(sb.String()), w)
			code := c18ErrCode(err)
			back := []string{}
			monOK := true
			msg := ""
			if err == nil {
				b, merr := json.Marshal(w)
				var m map[string]json.RawMessage
				if merr != nil || json.Unmarshal(b, &m) != nil {
					monOK, msg = false, "re-marshal failed"
				}
				for d := 0; d < 7; d++ {
					raw, ok := m[c18DayKeys[d]]
					if !ok {
						back = append(back, vfOpt("Z * Z", false, ""))
						continue
					}
					var dc struct{ Start, End float64 }
					_ = json.Unmarshal(raw, &dc)
					back = append(back, vfOpt("Z * Z", true, vfPair(vfZ(int64(dc.Start*2)), vfZ(int64(dc.End*2)))))
				}
				// monitor: round trip unchanged
				w2 := &Weekly{}
				if uerr := json.Unmarshal(b, w2); uerr != nil || w2.days != w.days || w2.location.String() != w.location.String() {
					monOK, msg = false, "JSON round trip changed the schedule"
				}
				// monitor: nothing invalid was accepted
				if bad := c18InvalidAccepted(w); bad != "" {
					monOK, msg = false, bad
				}
			}
			if code == -2 {
				continue
			}
			c := vfCase{
				Coq:        vfApp("C18.CJson", vfList("option (Z * Z)", items), vfZ(code), vfList("option (Z * Z)", back)),
				Nontrivial: true, MonitorOK: monOK, MonitorMsg: msg,
				Classes: []string{"json-err-" + strconv.FormatInt(code%10, 10)},
				Desc:    map[string]any{"kind": "json", "doc": sb.String(), "err": fmt.Sprint(err)},
			}
			if !monOK {
				c.FindingKey = "json-" + msg
			}
			out.Emit(c)
		}
		// YAML: same numbers, read as half-milliseconds -> ns (plus sub-ms noise sometimes)
		{
			var sb strings.Builder
			sb.WriteString("time_zone: Asia/Tokyo\n")
			items := make([]string, 7)
			for d := 0; d < 7; d++ {
				var a, b int64
				if js[d] != nil {
					a, b = js[d][0]*500000, js[d][1]*500000
					if !valid && rnd.Chance(1, 10) {
						b += rnd.Range(1, 999)
					}
					fmt.Fprintf(&sb, "%s:\n  start: %s\n  end: %s\n", c18DayKeys[d], time.Duration(a), time.Duration(b))
				}
				items[d] = vfPair(vfZ(a), vfZ(b))
			}
			w := &Weekly{}
			err := yaml.Unmarshal([]byte(sb.String()), w)
			code := c18ErrCode(err)
			if code == -2 {
				continue
			}
			back := []string{}
			monOK := true
			msg := ""
			if err == nil {
				b, merr := yaml.Marshal(w)
				if merr != nil {
					monOK, msg = false, "re-marshal failed"
				}
				var m map[string]map[string]string
				var tz struct {
					TimeZone string `yaml:"time_zone"`
				}
				_ = yaml.Unmarshal(b, &tz)
				raw := map[string]any{}
				_ = yaml.Unmarshal(b, &raw)
				m = map[string]map[string]string{}
				for k, v := range raw {
					if mm, ok := v.(map[string]any); ok {
						m[k] = map[string]string{"start": fmt.Sprint(mm["start"]), "end": fmt.Sprint(mm["end"])}
					}
				}
				for d := 0; d < 7; d++ {
					var a, bb time.Duration
					if e, ok := m[c18DayKeys[d]]; ok {
						a, _ = time.ParseDuration(e["start"])
						bb, _ = time.ParseDuration(e["end"])
					}
					back = append(back, vfPair(vfZ(int64(a)), vfZ(int64(bb))))
				}
				w2 := &Weekly{}
				if uerr := yaml.Unmarshal(b, w2); uerr != nil || w2.days != w.days || w2.location.String() != w.location.String() {
					monOK, msg = false, "YAML round trip changed the schedule"
				}
				if bad := c18InvalidAccepted(w); bad != "" {
					monOK, msg = false, bad
				}
			}
			c := vfCase{
				Coq:        vfApp("C18.CYaml", vfList("Z * Z", items), vfZ(code), vfList("Z * Z", back)),
				Nontrivial: true, MonitorOK: monOK, MonitorMsg: msg,
				Classes: []string{"yaml-err-" + strconv.FormatInt(code%10, 10)},
				Desc:    map[string]any{"kind": "yaml", "doc": sb.String(), "err": fmt.Sprint(err)},
			}
			if !monOK {
				c.FindingKey = "yaml-" + msg
			}
			out.Emit(c)
		}
	}
	_ = os.Stdout
}

//go:build verif

package schedule

import (
	"encoding/json"
	"fmt"
	"io/fs"
	"math/big"
	"os"
	"path/filepath"
	"regexp"
	"sort"
	"strconv"
	"strings"
	"testing"
	"time"

	"github.com/AdguardTeam/AdGuardHome/internal/aghhttp"
	"github.com/AdguardTeam/golibs/timeutil"
	"gopkg.in/yaml.v3"
)

// c18Zones returns every IANA zone found on the host (sorted; the Etc/
// directory with its GMT+N / GMT-N names included), or a fixed list if the
// directory cannot be walked.
func c18Zones() (zones []string) {
	root := "/usr/share/zoneinfo"
	_ = filepath.WalkDir(root, func(p string, d fs.DirEntry, err error) error {
		if err != nil || d.IsDir() {
			return nil
		}
		rel, _ := filepath.Rel(root, p)
		if strings.HasPrefix(rel, "posix") || strings.HasPrefix(rel, "right") ||
			strings.Contains(rel, ".") {
			return nil
		}
		if c := rel[0]; c < 'A' || c > 'Z' {
			return nil
		}
		if _, lerr := time.LoadLocation(rel); lerr == nil {
			zones = append(zones, rel)
		}
		return nil
	})
	sort.Strings(zones)
	if len(zones) == 0 {
		zones = []string{"UTC"}
	}
	return zones
}

var c18Must = []string{
	"America/New_York", "Europe/London", "Australia/Lord_Howe", "Asia/Kolkata",
	"Asia/Kathmandu", "Pacific/Apia", "America/St_Johns", "Africa/Casablanca",
	"UTC", "Pacific/Kiritimati", "Antarctica/Troll", "Europe/Moscow", "Australia/Eucla",
	"America/Sao_Paulo", "Asia/Tehran", "Pacific/Chatham",
}

// c18Transitions lists the zone transitions of loc between 2020 and 2030.
func c18Transitions(loc *time.Location) (ts []time.Time) {
	t := time.Date(2020, 1, 1, 0, 0, 0, 0, time.UTC).In(loc)
	end := time.Date(2030, 1, 1, 0, 0, 0, 0, time.UTC)
	for i := 0; i < 64; i++ {
		_, e := t.ZoneBounds()
		if e.IsZero() || e.After(end) {
			break
		}
		ts = append(ts, e)
		t = e
	}
	return ts
}

func c18RandRange(r *vfRand) dayRange {
	switch r.Intn(8) {
	case 0:
		return dayRange{}
	case 1:
		return dayRange{start: 0, end: maxDayRange}
	default:
		a := time.Duration(r.Intn(24*60)) * time.Minute
		b := time.Duration(r.Intn(24*60+1)) * time.Minute
		if a > b {
			a, b = b, a
		}
		if a == b {
			if b == maxDayRange {
				a -= time.Minute
			} else {
				b += time.Minute
			}
		}
		return dayRange{start: a, end: b}
	}
}

func c18CoqRanges(days [7]dayRange) string {
	items := make([]string, 7)
	for i, d := range days {
		items[i] = vfPair(vfZ(int64(d.start)), vfZ(int64(d.end)))
	}
	return vfList("Z * Z", items)
}

var c18Weekdays = map[string]int{"Sun": 0, "Mon": 1, "Tue": 2, "Wed": 3, "Thu": 4, "Fri": 5, "Sat": 6}

// c18Expected states the property directly from the printed wall clock.
func c18Expected(days [7]dayRange, loc *time.Location, t time.Time) (ok bool, err error) {
	s := t.In(loc).Format("Mon 15 04 05.000000000")
	var wd string
	var h, m int
	var sec float64
	if _, err = fmt.Sscanf(s, "%s %d %d %f", &wd, &h, &m, &sec); err != nil {
		return false, err
	}
	frac := s[len(s)-9:]
	ns, _ := strconv.ParseInt(frac, 10, 64)
	whole, _ := strconv.ParseInt(s[len(s)-12:len(s)-10], 10, 64)
	tod := time.Duration(h)*time.Hour + time.Duration(m)*time.Minute +
		time.Duration(whole)*time.Second + time.Duration(ns)
	dr := days[c18Weekdays[wd]]
	return dr.start <= tod && tod < dr.end, nil
}

func c18ErrCode(err error) int64 {
	if err == nil {
		return -1
	}
	msg := err.Error()
	day := int64(-1)
	for i := 0; i < 7; i++ {
		if strings.Contains(msg, "weekday "+time.Weekday(i).String()+":") {
			day = int64(i)
		}
	}
	if day < 0 {
		return -2 // not a range error (syntax, zone): outside the model
	}
	code := int64(0)
	switch {
	case strings.Contains(msg, ": start ") && strings.Contains(msg, "is negative"):
		code = 1
	case strings.Contains(msg, ": end ") && strings.Contains(msg, "is negative"):
		code = 2
	case strings.Contains(msg, "is greater or equal to end"):
		code = 3
	case strings.Contains(msg, ": start ") && strings.Contains(msg, "is greater or equal to"):
		code = 4
	case strings.Contains(msg, ": end ") && strings.Contains(msg, "is greater than"):
		code = 5
	case strings.Contains(msg, ": start ") && strings.Contains(msg, "isn't rounded"):
		code = 6
	case strings.Contains(msg, ": end ") && strings.Contains(msg, "isn't rounded"):
		code = 7
	}
	return 10*day + code
}

// c18InvalidAccepted states the rejection clause of the property directly.
func c18InvalidAccepted(w *Weekly) string {
	for d := 0; d < 7; d++ {
		r := w.days[d]
		if r == (dayRange{}) {
			continue
		}
		if r.start < 0 || r.end < 0 || r.start >= r.end || r.end > 24*time.Hour || r.start%time.Minute != 0 || r.end%time.Minute != 0 {
			return "invalid range accepted"
		}
	}
	return ""
}

var c18DayKeys = []string{"sun", "mon", "tue", "wed", "thu", "fri", "sat"}

// c18RandHalfMs draws a serialised duration in half-milliseconds: mostly
// whole minutes in range, sometimes negative, beyond 24h, or not whole.
func c18RandHalfMs(r *vfRand) int64 {
	const minute = 2 * 60000
	switch r.Intn(12) {
	case 0:
		return -int64(r.Intn(3)+1) * minute
	case 1:
		return 24*60*minute + int64(r.Intn(3))*minute
	case 2:
		return int64(r.Intn(24*60))*minute + int64(r.Intn(minute-1)+1)
	case 3:
		return 0
	case 4:
		return 24 * 60 * minute
	case 5:
		return int64(r.Intn(24*60+1))*minute + 1
	default:
		return int64(r.Intn(24*60+1)) * minute
	}
}

func c18HalfMsJSON(v int64) string {
	s := strconv.FormatInt(v/2, 10)
	if v%2 != 0 {
		if v < 0 {
			// -3 half-ms = -1.5
			s = strconv.FormatInt(v/2, 10)
			if v/2 == 0 {
				s = "-0"
			}
		}
		s += ".5"
	}
	return s
}

func TestVerifC18(t *testing.T) {
	out := vfOpen(t, "C18")
	defer out.Close()
	rnd := vfNewRand(out.Seed)

	zones := c18Zones()
	out.Note("zones_on_host", len(zones))
	present := map[string]bool{}
	for _, z := range zones {
		present[z] = true
	}
	var use []string
	for _, z := range c18Must {
		if present[z] || z == "UTC" {
			use = append(use, z)
		}
	}
	if out.Thorough() {
		use = zones
		if !present["UTC"] {
			use = append(use, "UTC")
		}
	} else {
		extra := append([]string(nil), zones...)
		vfShuffle(rnd, extra)
		for _, z := range extra[:min(len(extra), 24)] {
			use = append(use, z)
		}
	}
	out.Note("zones_used", len(use))

	perZoneRandom := out.Scale(12, 60)
	callers := c18Callers(zones)

	// --- Contains, seed-independent prelude: the caller's location is on
	// another weekday than the schedule's zone, and the two days differ ---
	c18CallerPrelude(out)

	// --- Contains, seed-independent prelude: one constructed set of instants
	// per daylight-saving rule family, and every zone of the host once ---
	c18FamilyPrelude(out, callers)
	if !out.Thorough() {
		c18ThinZones(out, zones, use, callers)
	}

	// --- Contains ---
	for _, zn := range use {
		loc, err := time.LoadLocation(zn)
		if err != nil {
			continue
		}
		trs := c18Transitions(loc)
		var instants []time.Time
		deltas := []time.Duration{-2 * time.Hour, -time.Hour - time.Nanosecond, -time.Hour, -30 * time.Minute,
			-time.Nanosecond, 0, time.Nanosecond, 30 * time.Minute, time.Hour, 2 * time.Hour, 5 * time.Hour,
			12 * time.Hour, 20 * time.Hour, 23*time.Hour + 30*time.Minute}
		if !out.Thorough() && len(trs) > 6 {
			// quick tier: a rotating subset of the transitions
			k := rnd.Intn(len(trs))
			sel := []time.Time{}
			for i := 0; i < 6; i++ {
				sel = append(sel, trs[(k+i*3)%len(trs)])
			}
			trs = sel
		}
		for _, tr := range trs {
			for _, d := range deltas {
				instants = append(instants, tr.Add(d))
			}
			// local midnights around the transition day
			y, m, d := tr.In(loc).Date()
			for dd := -1; dd <= 1; dd++ {
				mid := time.Date(y, m, d+dd, 0, 0, 0, 0, loc)
				instants = append(instants, mid, mid.Add(-time.Nanosecond), mid.Add(time.Nanosecond))
			}
		}
		for i := 0; i < perZoneRandom; i++ {
			sec := rnd.Range(-2000000000, 4000000000)
			instants = append(instants, time.Unix(sec, rnd.Range(0, 999999999)))
		}
		for _, ts := range instants {
			var days [7]dayRange
			for i := range days {
				days[i] = c18RandRange(rnd)
			}
			lt := ts.In(loc)
			// bias: put a range edge exactly at / next to the instant's time of day
			if rnd.Chance(1, 3) {
				h, m, _ := lt.Clock()
				tod := time.Duration(h)*time.Hour + time.Duration(m)*time.Minute
				wd := lt.Weekday()
				switch rnd.Intn(3) {
				case 0:
					if tod > 0 {
						days[wd] = dayRange{start: 0, end: tod}
					}
				case 1:
					if tod < maxDayRange {
						days[wd] = dayRange{start: tod, end: maxDayRange}
					}
				case 2:
					if tod+time.Minute <= maxDayRange {
						days[wd] = dayRange{start: tod, end: tod + time.Minute}
					}
				}
			}
			// The instant is handed over as a time.Time in some OTHER location:
			// the weekday must be the one of the schedule's zone.
			callerLoc, callerName := c18CallerLoc(rnd, loc, callers)
			ct := ts.In(callerLoc)
			cwd, swd := ct.Weekday(), lt.Weekday()
			if cwd != swd && rnd.Chance(1, 2) {
				// make the two weekdays disagree at this time of day
				if rnd.Bool() {
					days[swd], days[cwd] = dayRange{start: 0, end: maxDayRange}, dayRange{}
				} else {
					days[cwd], days[swd] = dayRange{start: 0, end: maxDayRange}, dayRange{}
				}
			}
			w := &Weekly{location: loc, days: days}
			obs := w.Contains(ct)
			_, off := lt.Zone()
			y, m, d := lt.Date()
			_, offMid := time.Date(y, m, d, 0, 0, 0, 0, loc).Zone()
			dst := off != offMid
			exp, perr := c18Expected(days, loc, ts)
			c := vfCase{
				Coq:        vfApp("C18.CContains", vfZ(ts.UnixNano()), vfZ(int64(off)), c18CoqRanges(days), vfBool(obs)),
				Nontrivial: dst || days[lt.Weekday()] != dayRange{},
				MonitorOK:  perr == nil && exp == obs,
				Desc: map[string]any{"kind": "contains", "zone": zn, "caller_zone": callerName, "t": ts.UTC().Format(time.RFC3339Nano),
					"local": lt.Format("Mon 2006-01-02 15:04:05.999999999 -0700"),
					"range": fmt.Sprintf("%s-%s", days[lt.Weekday()].start, days[lt.Weekday()].end), "contains": obs},
			}
			if dst {
				c.Classes = append(c.Classes, "dst-day")
			}
			if obs {
				c.Classes = append(c.Classes, "contains-true")
			} else {
				c.Classes = append(c.Classes, "contains-false")
			}
			if days[lt.Weekday()] == (dayRange{start: 0, end: maxDayRange}) {
				c.Classes = append(c.Classes, "full-day")
			}
			if cwd != swd {
				h, mi, se := lt.Clock()
				tod := time.Duration(h)*time.Hour + time.Duration(mi)*time.Minute + time.Duration(se)*time.Second + time.Duration(lt.Nanosecond())
				other := days[cwd]
				if other.contains(tod) != obs {
					// the caller's weekday would have given the other answer
					c.Classes = append(c.Classes, "caller-other-weekday")
				}
			}
			if !c.MonitorOK {
				c.MonitorMsg = fmt.Sprintf("Contains=%v but wall clock %s in range %v-%v is %v",
					obs, lt.Format("Mon 15:04:05.999999999"), days[lt.Weekday()].start, days[lt.Weekday()].end, exp)
				c.FindingKey = "contains-wallclock"
			}
			out.Emit(c)
		}
	}

	// --- JSON / YAML documents ---
	nDocs := out.Scale(400, 4000)
	for i := 0; i < nDocs; i++ {
		valid := rnd.Chance(1, 2)
		var js [7]*[2]int64
		for d := 0; d < 7; d++ {
			if rnd.Chance(1, 4) {
				continue
			}
			if valid {
				dr := c18RandRange(rnd)
				js[d] = &[2]int64{int64(dr.start/time.Millisecond) * 2, int64(dr.end/time.Millisecond) * 2}
			} else {
				a, b := c18RandHalfMs(rnd), c18RandHalfMs(rnd)
				if rnd.Chance(1, 12) {
					b = 0
				} else if rnd.Chance(3, 4) && a > b {
					a, b = b, a
				}
				js[d] = &[2]int64{a, b}
			}
		}
		// JSON
		{
			var sb strings.Builder
			sb.WriteString(`{"time_zone":"Europe/Berlin"`)
			items := make([]string, 7)
			for d := 0; d < 7; d++ {
				if js[d] == nil {
					items[d] = vfOpt("Z * Z", false, "")
					continue
				}
				fmt.Fprintf(&sb, `,%q:{"start":%s,"end":%s}`, c18DayKeys[d], c18HalfMsJSON(js[d][0]), c18HalfMsJSON(js[d][1]))
				items[d] = vfOpt("Z * Z", true, vfPair(vfZ(js[d][0]), vfZ(js[d][1])))
			}
			sb.WriteString("}")
			w := &Weekly{}
			err := json.Unmarshal([]byte(sb.String()), w)
			code := c18ErrCode(err)
			back := []string{}
			monOK := true
			msg := ""
			if err == nil {
				b, merr := json.Marshal(w)
				var m map[string]json.RawMessage
				if merr != nil || json.Unmarshal(b, &m) != nil {
					monOK, msg = false, "re-marshal failed"
				}
				for d := 0; d < 7; d++ {
					raw, ok := m[c18DayKeys[d]]
					if !ok {
						back = append(back, vfOpt("Z * Z", false, ""))
						continue
					}
					var dc struct{ Start, End float64 }
					_ = json.Unmarshal(raw, &dc)
					back = append(back, vfOpt("Z * Z", true, vfPair(vfZ(int64(dc.Start*2)), vfZ(int64(dc.End*2)))))
				}
				// monitor: round trip unchanged
				w2 := &Weekly{}
				if uerr := json.Unmarshal(b, w2); uerr != nil || w2.days != w.days || w2.location.String() != w.location.String() {
					monOK, msg = false, "JSON round trip changed the schedule"
				}
				// monitor: nothing invalid was accepted
				if bad := c18InvalidAccepted(w); bad != "" {
					monOK, msg = false, bad
				}
			}
			if code == -2 {
				continue
			}
			c := vfCase{
				Coq:        vfApp("C18.CJson", vfList("option (Z * Z)", items), vfZ(code), vfList("option (Z * Z)", back)),
				Nontrivial: true, MonitorOK: monOK, MonitorMsg: msg,
				Classes: []string{c18DocClass("json", code)},
				Desc:    map[string]any{"kind": "json", "doc": sb.String(), "err": fmt.Sprint(err)},
			}
			if !monOK {
				c.FindingKey = "json-" + msg
			}
			out.Emit(c)
		}
		// YAML: same numbers, read as half-milliseconds -> ns (plus sub-ms noise sometimes)
		{
			var sb strings.Builder
			sb.WriteString("time_zone: Asia/Tokyo\n")
			items := make([]string, 7)
			for d := 0; d < 7; d++ {
				var a, b int64
				if js[d] != nil {
					a, b = js[d][0]*500000, js[d][1]*500000
					if !valid && rnd.Chance(1, 10) {
						b += rnd.Range(1, 999)
					}
					fmt.Fprintf(&sb, "%s:\n  start: %s\n  end: %s\n", c18DayKeys[d], time.Duration(a), time.Duration(b))
				}
				items[d] = vfPair(vfZ(a), vfZ(b))
			}
			w := &Weekly{}
			err := yaml.Unmarshal([]byte(sb.String()), w)
			code := c18ErrCode(err)
			if code == -2 {
				continue
			}
			back := []string{}
			monOK := true
			msg := ""
			if err == nil {
				b, merr := yaml.Marshal(w)
				if merr != nil {
					monOK, msg = false, "re-marshal failed"
				}
				var m map[string]map[string]string
				var tz struct {
					TimeZone string `yaml:"time_zone"`
				}
				_ = yaml.Unmarshal(b, &tz)
				raw := map[string]any{}
				_ = yaml.Unmarshal(b, &raw)
				m = map[string]map[string]string{}
				for k, v := range raw {
					if mm, ok := v.(map[string]any); ok {
						m[k] = map[string]string{"start": fmt.Sprint(mm["start"]), "end": fmt.Sprint(mm["end"])}
					}
				}
				for d := 0; d < 7; d++ {
					var a, bb time.Duration
					if e, ok := m[c18DayKeys[d]]; ok {
						a, _ = time.ParseDuration(e["start"])
						bb, _ = time.ParseDuration(e["end"])
					}
					back = append(back, vfPair(vfZ(int64(a)), vfZ(int64(bb))))
				}
				w2 := &Weekly{}
				if uerr := yaml.Unmarshal(b, w2); uerr != nil || w2.days != w.days || w2.location.String() != w.location.String() {
					monOK, msg = false, "YAML round trip changed the schedule"
				}
				if bad := c18InvalidAccepted(w); bad != "" {
					monOK, msg = false, bad
				}
			}
			c := vfCase{
				Coq:        vfApp("C18.CYaml", vfList("Z * Z", items), vfZ(code), vfList("Z * Z", back)),
				Nontrivial: true, MonitorOK: monOK, MonitorMsg: msg,
				Classes: []string{c18DocClass("yaml", code)},
				Desc:    map[string]any{"kind": "yaml", "doc": sb.String(), "err": fmt.Sprint(err)},
			}
			if !monOK {
				c.FindingKey = "yaml-" + msg
			}
			out.Emit(c)
		}
	}
	c18TextCases(out, rnd)

	// --- whole documents, "time_zone" included, in every zone of the host ---
	c18ZoneDocs(out, rnd, zones)
	_ = os.Stdout
}

func c18DocClass(form string, code int64) string {
	switch {
	case code == -1:
		return form + "-ok"
	case code >= 100:
		return form + "-syntax-" + strconv.FormatInt(code-100, 10)
	default:
		return form + "-err-" + strconv.FormatInt(code%10, 10)
	}
}

// --- the caller's location ---

type c18Caller struct {
	name string
	loc  *time.Location
}

func c18Callers(zones []string) (cs []c18Caller) {
	cs = []c18Caller{
		{"UTC", time.UTC},
		{"fixed+14", time.FixedZone("plus14", 14*3600)},
		{"fixed-12", time.FixedZone("minus12", -12*3600)},
		{"fixed+05:45", time.FixedZone("plus0545", 5*3600+45*60)},
	}
	for _, z := range []string{"Pacific/Kiritimati", "Pacific/Pago_Pago", "Asia/Tokyo", "America/Los_Angeles",
		"Pacific/Chatham", "America/St_Johns", "Europe/Berlin", "Pacific/Apia"} {
		if loc, err := time.LoadLocation(z); err == nil {
			cs = append(cs, c18Caller{z, loc})
		}
	}
	return cs
}

func c18CallerLoc(r *vfRand, own *time.Location, cs []c18Caller) (loc *time.Location, name string) {
	if r.Chance(1, 4) {
		return own, "same"
	}
	c := cs[r.Intn(len(cs))]
	return c.loc, c.name
}

func c18EmitContains(out *vfOut, zn string, loc *time.Location, days [7]dayRange, ts time.Time, callerName string, extraClasses ...string) {
	w := &Weekly{location: loc, days: days}
	obs := w.Contains(ts)
	lt := ts.In(loc)
	_, off := lt.Zone()
	exp, perr := c18Expected(days, loc, ts)
	c := vfCase{
		Coq:        vfApp("C18.CContains", vfZ(ts.UnixNano()), vfZ(int64(off)), c18CoqRanges(days), vfBool(obs)),
		Nontrivial: true,
		MonitorOK:  perr == nil && exp == obs,
		Desc: map[string]any{"kind": "contains", "zone": zn, "caller_zone": callerName, "t": ts.UTC().Format(time.RFC3339Nano),
			"caller_local": ts.Format("Mon 2006-01-02 15:04:05.999999999 -0700"),
			"local":        lt.Format("Mon 2006-01-02 15:04:05.999999999 -0700"),
			"range":        fmt.Sprintf("%s-%s", days[lt.Weekday()].start, days[lt.Weekday()].end), "contains": obs},
	}
	if obs {
		c.Classes = append(c.Classes, "contains-true")
	} else {
		c.Classes = append(c.Classes, "contains-false")
	}
	for _, ec := range extraClasses {
		if ec != "" {
			c.Classes = append(c.Classes, ec)
		}
	}
	if !c.MonitorOK {
		c.MonitorMsg = fmt.Sprintf("Contains=%v (instant handed over in %s) but wall clock %s in the schedule's zone, range %v-%v, is %v",
			obs, callerName, lt.Format("Mon 15:04:05.999999999"), days[lt.Weekday()].start, days[lt.Weekday()].end, exp)
		c.FindingKey = "contains-wallclock"
	}
	out.Emit(c)
}

// c18CallerPrelude: constructed instants at which the caller's location and
// the schedule's zone are on different weekdays, with schedules whose ranges
// on those two days give different answers.
func c18CallerPrelude(out *vfOut) {
	full := dayRange{start: 0, end: maxDayRange}
	type pc struct {
		zone, caller string
		t            time.Time
	}
	cases := []pc{
		// Tue 21:00 in New York = Wed 02:00 UTC = Wed 16:00 Kiritimati
		{"America/New_York", "UTC", time.Date(2024, 3, 6, 2, 0, 0, 0, time.UTC)},
		{"America/New_York", "Pacific/Kiritimati", time.Date(2024, 3, 6, 2, 0, 0, 0, time.UTC)},
		// Thu 08:00 in Tokyo = Wed 23:00 UTC = Wed 12:00 Pago Pago
		{"Asia/Tokyo", "UTC", time.Date(2024, 7, 10, 23, 0, 0, 0, time.UTC)},
		{"Asia/Tokyo", "Pacific/Pago_Pago", time.Date(2024, 7, 10, 23, 0, 0, 0, time.UTC)},
		// Sun 00:30 in Kiritimati = Sat 10:30 UTC = Fri 23:30 Pago Pago (two days apart)
		{"Pacific/Kiritimati", "Pacific/Pago_Pago", time.Date(2025, 1, 4, 10, 30, 0, 0, time.UTC)},
		{"UTC", "Pacific/Kiritimati", time.Date(2025, 1, 4, 10, 30, 0, 0, time.UTC)},
		// week wrap: Sat 23:59:59.999999999 UTC = Sun in Berlin
		{"UTC", "Europe/Berlin", time.Date(2025, 6, 7, 23, 59, 59, 999999999, time.UTC)},
		{"Europe/Berlin", "UTC", time.Date(2025, 6, 7, 23, 59, 59, 999999999, time.UTC)},
	}
	for _, p := range cases {
		loc, err := time.LoadLocation(p.zone)
		cl, cerr := time.LoadLocation(p.caller)
		if err != nil || cerr != nil {
			continue
		}
		ct := p.t.In(cl)
		swd, cwd := p.t.In(loc).Weekday(), ct.Weekday()
		if swd == cwd {
			continue
		}
		h, m, _ := p.t.In(loc).Clock()
		tod := time.Duration(h)*time.Hour + time.Duration(m)*time.Minute
		var a, b, c3 [7]dayRange
		a[swd] = full // schedule's day full, caller's day empty: true
		b[cwd] = full // caller's day full, schedule's day empty: false
		// both non-empty: the schedule's day covers the time of day, the caller's day ends just before it
		c3[swd] = dayRange{start: tod, end: tod + time.Minute}
		if tod > 0 {
			c3[cwd] = dayRange{start: 0, end: tod}
		}
		for _, days := range [][7]dayRange{a, b, c3} {
			c18EmitContains(out, p.zone, loc, days, ct, p.caller, "caller-other-weekday")
		}
	}
}

// --- text syntax ---

// c18Text captures what a decoder hands to a TextUnmarshaler.
type c18Text struct {
	s      string
	called bool
}

func (c *c18Text) UnmarshalText(b []byte) error { c.s, c.called = string(b), true; return nil }

// c18ParseObs runs timeutil.Duration.UnmarshalText.
func c18ParseObs(s string) (code, val int64) {
	var d timeutil.Duration
	err := d.UnmarshalText([]byte(s))
	if err == nil {
		return 0, int64(d)
	}
	return c18DurErrKind(err.Error()), 0
}

func c18DurErrKind(msg string) int64 {
	switch {
	case strings.Contains(msg, "time: invalid duration"):
		return 1
	case strings.Contains(msg, "time: missing unit in duration"):
		return 2
	case strings.Contains(msg, "time: unknown unit"):
		return 3
	}
	return -2
}

var c18FracRe = regexp.MustCompile(`\.([0-9]*)([^0-9.]*)`)

var c18Units = map[string]int64{"ns": 1, "us": 1e3, "µs": 1e3, "μs": 1e3, "ms": 1e6, "s": 1e9, "m": 60e9, "h": 3600e9}

// c18FracExact tells whether every fraction of the duration text is one on
// which ParseDuration's float64 arithmetic is exact by construction: at most
// 15 digits and the power of ten divides the unit (or the fraction is zero).
// It does not look at what ParseDuration returned.
func c18FracExact(s string) bool {
	for _, m := range c18FracRe.FindAllStringSubmatch(s, -1) {
		digits, unit := m[1], m[2]
		if strings.Trim(digits, "0") == "" {
			continue
		}
		if len(digits) > 15 {
			return false
		}
		u, ok := c18Units[unit]
		if !ok {
			continue // unknown unit: the error is returned before the fraction is used
		}
		scale := int64(1)
		for range digits {
			scale *= 10
		}
		if u%scale != 0 {
			return false
		}
	}
	return true
}

func c18EmitDurText(out *vfOut, s, origin string) {
	if !c18FracExact(s) {
		out.Class("skipped-inexact-fraction")
		return
	}
	code, val := c18ParseObs(s)
	if code == -2 {
		out.Class("skipped-unknown-error")
		return
	}
	monOK, msg := true, ""
	classes := []string{"dur-" + origin}
	if code == 0 {
		classes = append(classes, "dur-ok")
		// property: what was read survives print + parse
		back := timeutil.Duration(val).String()
		var d2 timeutil.Duration
		if err := d2.UnmarshalText([]byte(back)); err != nil || int64(d2) != val {
			monOK, msg = false, fmt.Sprintf("%q parsed as %d, printed as %q, read back as %d (%v)", s, val, back, int64(d2), err)
		}
		if val < 0 {
			classes = append(classes, "dur-neg")
		}
		if strings.Contains(s, ".") {
			classes = append(classes, "dur-frac")
		}
		if strings.Contains(s, "µ") || strings.Contains(s, "μ") {
			classes = append(classes, "dur-micro-sign")
		}
	} else {
		classes = append(classes, "dur-err-"+strconv.FormatInt(code, 10))
	}
	if regexp.MustCompile(`[0-9]{18}`).MatchString(s) {
		classes = append(classes, "dur-18-digits")
	}
	c := vfCase{
		Coq:        vfApp("C18.CDurText", vfBytes(s), vfZ(code), vfZ(val)),
		Nontrivial: true, MonitorOK: monOK, MonitorMsg: msg, Classes: classes,
		Desc: map[string]any{"kind": "dur-text", "text": s, "code": code, "ns": val},
	}
	if !monOK {
		c.FindingKey = "duration-text-roundtrip"
	}
	out.Emit(c)
}

func c18EmitDurPrint(out *vfOut, x int64) {
	for _, cut := range []bool{true, false} {
		var s string
		if cut {
			s = timeutil.Duration(x).String()
		} else {
			s = time.Duration(x).String()
		}
		classes := []string{}
		u := x
		if u < 0 {
			u = -u
			classes = append(classes, "print-neg")
		}
		switch {
		case x == 0:
			classes = append(classes, "print-zero")
		case u > 0 && u < 1e3:
			classes = append(classes, "print-ns")
		case u > 0 && u < 1e6:
			classes = append(classes, "print-us")
		case u > 0 && u < 1e9:
			classes = append(classes, "print-ms")
		}
		if cut {
			switch len(time.Duration(x).String()) - len(s) {
			case 2:
				classes = append(classes, "print-cut-0s")
			case 4:
				classes = append(classes, "print-cut-0m0s")
			default:
				classes = append(classes, "print-uncut")
			}
		}
		// property: print then parse is the identity (both printers)
		monOK, msg := true, ""
		var d2 timeutil.Duration
		if err := d2.UnmarshalText([]byte(s)); err != nil || int64(d2) != x {
			monOK, msg = false, fmt.Sprintf("%d ns printed as %q, read back as %d (%v)", x, s, int64(d2), err)
		}
		c := vfCase{
			Coq:        vfApp("C18.CDurPrint", vfBool(cut), vfZ(x), vfBytes(s)),
			Nontrivial: true, MonitorOK: monOK, MonitorMsg: msg, Classes: classes,
			Desc: map[string]any{"kind": "dur-print", "ns": x, "cut": cut, "text": s},
		}
		if !monOK {
			c.FindingKey = "duration-print-roundtrip"
		}
		out.Emit(c)
	}
	c18EmitDurText(out, timeutil.Duration(x).String(), "printed")
}

var c18MsPlain = regexp.MustCompile(`^[+-]?([0-9]*)(\.([0-9]*))?$`)

// c18MsExact states the float64 assumption per input, without running the
// code under test: the number text is a plain decimal num/10^k, and the
// reference float path int64(ParseFloat(text) * 1e6), computed here, equals the
// exact rational num/10^k * 10^6 truncated toward zero (and fits int64).
// Texts that are not plain decimals must not contain anything ParseFloat gives
// a meaning to (exponents, inf, nan, hex, underscores).
func c18MsExact(s string) bool {
	m := c18MsPlain.FindStringSubmatch(s)
	if m == nil {
		switch s {
		case "null", "true", "false", `"60000"`, `"1h"`, "{}", "[]", `""`, "[60000]", `{"ms":1}`, "1h", "60000ms", " 1", "1 ", "1,5", "--1", "+-1", "1..2", "1.2.3":
			return true
		}
		return false
	}
	digits := m[1] + m[3]
	if digits == "" {
		return true // no digits: a syntax error
	}
	if len(digits) > 40 {
		return false
	}
	num, _ := new(big.Int).SetString(digits, 10)
	den := new(big.Int).Exp(big.NewInt(10), big.NewInt(int64(len(m[3]))), nil)
	p := new(big.Rat).Mul(new(big.Rat).SetFrac(num, den), big.NewRat(1000000, 1))
	lim := new(big.Rat).SetInt(new(big.Int).Lsh(big.NewInt(1), 62))
	if p.Cmp(lim) >= 0 {
		return false
	}
	exact := new(big.Int).Quo(p.Num(), p.Denom()) // p >= 0: truncation
	if strings.HasPrefix(s, "-") {
		exact.Neg(exact)
	}
	v, err := strconv.ParseFloat(s, 64)
	if err != nil {
		return false
	}
	return exact.IsInt64() && int64(v*1e6) == exact.Int64()
}

func c18MsObs(s string) (code, val int64) {
	var d aghhttp.JSONDuration
	if err := d.UnmarshalJSON([]byte(s)); err != nil {
		return 1, 0
	}
	return 0, int64(d)
}

func c18EmitMsText(out *vfOut, s string) {
	if !c18MsExact(s) {
		out.Class("skipped-inexact-ms")
		return
	}
	code, val := c18MsObs(s)
	classes := []string{"ms-ok"}
	if code != 0 {
		classes = []string{"ms-err"}
	} else if strings.Contains(s, ".") {
		classes = append(classes, "ms-frac")
	}
	out.Emit(vfCase{
		Coq:        vfApp("C18.CMsText", vfBytes(s), vfZ(code), vfZ(val)),
		Nontrivial: true, MonitorOK: true, Classes: classes,
		Desc: map[string]any{"kind": "ms-text", "text": s, "code": code, "ns": val},
	})
}

func c18EmitMsPrint(out *vfOut, x int64) {
	b, _ := aghhttp.JSONDuration(x).MarshalJSON()
	var d2 aghhttp.JSONDuration
	err := d2.UnmarshalJSON(b)
	monOK, msg := true, ""
	// property: round trip (for values that are exact in float64: whole microseconds / 2^k fractions are not required; the harness emits |x| < 10^15)
	if err != nil || (int64(d2) != x && x%500000 == 0) {
		monOK, msg = false, fmt.Sprintf("%d ns printed as %s, read back as %d (%v)", x, b, int64(d2), err)
	}
	classes := []string{"ms-print"}
	if x%1000000 != 0 {
		classes = append(classes, "ms-print-frac")
	}
	c := vfCase{
		Coq:        vfApp("C18.CMsPrint", vfZ(x), vfBytes(string(b))),
		Nontrivial: true, MonitorOK: monOK, MonitorMsg: msg, Classes: classes,
		Desc: map[string]any{"kind": "ms-print", "ns": x, "text": string(b)},
	}
	if !monOK {
		c.FindingKey = "json-ms-roundtrip"
	}
	out.Emit(c)
}

// c18DurPrelude: seed-independent duration texts.
var c18DurPrelude = []string{
	"1h30m", "90m", "1.5h", "5400s", "+1h", "-1h", "1h30", "1d", "1H", ".5h", "0", "", "1h 30m",
	"9223372036854775807ns", "9223372036854775808ns", "-9223372036854775808ns", "-9223372036854775809ns",
	"2562048h", "2562047h", "2562047h47m16.854775807s", "2562047h47m16.854775808s", "-2562047h47m16.854775808s",
	"0.5m", "1µs", "1μs", "1us", "1.5µs", "1.5μs", "1µ", "1μ", "1\xc2s", "1\xb5s", "24h", "24h0m0s", "23h59m", "1m", "0s", "0h", "0m",
	"+0", "-0", "+", "-", ".", ".s", "1.s", "-.s", "+.5s", "00", "01h", "1h1h", "1m1h", "1ns1ns", "h", "s1", "1 h", " 1h", "1h ",
	"1.0h", "1.000h", "0.000000000000001h", "1.00000000000000000000000001s", "0.9223372036854775808s", "0.9223372036854775807s",
	"9223372036854775808ns9223372036854775808ns", "4611686018427387904ns4611686018427387904ns", "4611686018427387904ns4611686018427387903ns",
	"9223372036s", "9223372037s", "9223372036.854775807s", "9223372036.854775808s", "153722867m", "153722868m", "9223372036854ms", "9223372036855ms",
	"9223372036854775us", "9223372036854776us", "18446744073709551616ns", "922337203685477580ns", "9223372036854775800ns", "92233720368547758080ns",
	"1e3s", "1_000s", "0x10s", "1hm", "1sm", "1ms1us1ns", "1.5ms", "1.234567ms", "1.5us", "1.001us", "3.6e3s", "1,5h", "１h", "1h\n", "1h\x00",
	"30m0s", "1h0m", "1h0m0s", "0h30m", "60m", "1440m", "86400s", "1441m", "24h1m", "-30m", "30m30s", "1m0.5s", "0.25h", "0.75h", "0.1h", "0.01h",
}

var c18MsPrelude = []string{
	"60000", "0", "-0", "0.5", "-0.5", "1.5", "86400000", "86400001", "86399999.5", "5400000", "-60000", "+60000",
	"1.", ".5", "+.5", "-.5", ".", "", "-", "+", "1.25", "0.125", "0.75", "1.2.3", "1..2", "--1", "+-1", "1,5",
	"null", "true", "false", `"60000"`, `"1h"`, "{}", "[]", `""`, "[60000]", `{"ms":1}`, "1h", "60000ms", " 1", "1 ",
	"060000", "00", "0.0", "0.500000", "60000.000", "9223372036854", "4503599627370496", "0.000001", "0.0000005",
	"120000.5", "60000.001", "60000.000001", "60000.999999", "86400000.5", "86400000.001", "86400000.000001", "86399999.999999",
	"0.001", "0.999999", "3600000.001", "43200000.999999", "60000.0000005", "60000.1", "1.005", "0.0000019", "-60000.5", "-0.000001",
}

// c18SubMs are fractions of a millisecond appended to whole-minute values.
var c18SubMs = []string{".5", ".001", ".000001", ".999999", ".25", ".125", ".0005", ".1", ".000999", ".5000", ".0000001"}

// c18FracDocs: JSON documents whose numbers carry a sub-millisecond fraction
// (seed-independent).
var c18FracDocs = []string{
	`{"time_zone":"UTC","mon":{"start":60000,"end":120000}}`,
	`{"time_zone":"UTC","mon":{"start":60000,"end":120000.5}}`,
	`{"time_zone":"UTC","mon":{"start":60000.001,"end":120000}}`,
	`{"time_zone":"UTC","mon":{"start":60000.000001,"end":120000.999999}}`,
	`{"time_zone":"UTC","mon":{"start":0.000001,"end":120000}}`,
	`{"time_zone":"UTC","sun":{"start":0,"end":86400000}}`,
	`{"time_zone":"UTC","sun":{"start":0,"end":86400000.5}}`,
	`{"time_zone":"UTC","sun":{"start":0,"end":86400000.000001}}`,
	`{"time_zone":"UTC","sat":{"start":86340000,"end":86400000.001}}`,
	`{"time_zone":"UTC","sat":{"start":86340000.5,"end":86400000}}`,
	`{"time_zone":"UTC","tue":{"start":60000.0,"end":120000.000}}`,
	`{"time_zone":"UTC","tue":{"start":0.5,"end":0.5}}`,
	`{"time_zone":"UTC","tue":{"start":0,"end":0.000001}}`,
	`{"time_zone":"UTC","wed":{"start":3600000,"end":7200000.25}}`,
	// a fraction below one nanosecond is cut by int64(msec * 1e6): accepted
	`{"time_zone":"Europe/Berlin","thu":{"start":51600000.0000001,"end":58140000}}`,
	`{"time_zone":"UTC","fri":{"start":0,"end":86400000.0000001}}`,
	`{"time_zone":"UTC","mon":{"start":60000,"end":120000.0000009}}`,
	// one nanosecond is not
	`{"time_zone":"UTC","mon":{"start":60000,"end":120000.000001}}`,
}

var c18DocFieldRe = regexp.MustCompile(`"(sun|mon|tue|wed|thu|fri|sat)":\{"start":([^,}]*),"end":([^,}]*)\}`)

const c18MutAlphabet = "0123456789.hmsnuµμ+- dHeM"

func c18Mutate(r *vfRand, s string) string {
	b := []rune(s)
	al := []rune(c18MutAlphabet)
	n := 1 + r.Intn(2)
	for i := 0; i < n; i++ {
		switch r.Intn(6) {
		case 0: // delete
			if len(b) > 0 {
				k := r.Intn(len(b))
				b = append(b[:k:k], b[k+1:]...)
			}
		case 1: // insert
			k := r.Intn(len(b) + 1)
			b = append(b[:k:k], append([]rune{al[r.Intn(len(al))]}, b[k:]...)...)
		case 2: // replace
			if len(b) > 0 {
				b[r.Intn(len(b))] = al[r.Intn(len(al))]
			}
		case 3: // duplicate a piece
			if len(b) > 0 {
				k := r.Intn(len(b))
				l := k + 1 + r.Intn(len(b)-k)
				b = append(b[:l:l], append(append([]rune{}, b[k:l]...), b[l:]...)...)
			}
		case 4: // swap neighbours
			if len(b) > 1 {
				k := r.Intn(len(b) - 1)
				b[k], b[k+1] = b[k+1], b[k]
			}
		case 5: // truncate
			if len(b) > 0 {
				b = b[:r.Intn(len(b))]
			}
		}
	}
	return string(b)
}

// c18RandDur draws an int64 duration across the magnitudes the printer
// distinguishes.
func c18RandDur(r *vfRand) int64 {
	var x int64
	switch r.Intn(12) {
	case 0:
		x = r.Range(0, 999)
	case 1:
		x = r.Range(1000, 999999)
	case 2:
		x = r.Range(1000000, 999999999)
	case 3:
		x = r.Range(0, 1000) * 1000 * vfPick(r, []int64{1, 10, 100, 1000})
	case 4:
		x = r.Range(0, 200000) * 1e9
	case 5:
		x = r.Range(0, 3000) * 60e9
	case 6:
		x = r.Range(0, 100) * 3600e9
	case 7:
		x = r.Range(0, 1<<62) * 2
	case 8:
		x = r.Range(0, 90000)*1e9 + r.Range(0, 999)*1e6
	case 9:
		x = r.Range(0, 2562047)*3600e9 + r.Range(0, 59)*60e9
	case 10:
		x = 1<<63 - 1 - r.Range(0, 2000000000)
	default:
		x = r.Range(0, 1440) * 60e9
	}
	if r.Chance(1, 4) {
		x = -x
	}
	return x
}

// c18RandFieldText draws the text of one start/end field of a YAML document.
func c18RandFieldText(r *vfRand, valid bool) string {
	m := int64(r.Intn(24*60 + 1))
	if valid || r.Chance(1, 2) {
		d := time.Duration(m) * time.Minute
		switch r.Intn(8) {
		case 0:
			return strconv.FormatInt(m, 10) + "m"
		case 1:
			return strconv.FormatInt(m*60, 10) + "s"
		case 2:
			return d.String() // uncut Go form
		case 3:
			if m%6 == 0 {
				return strconv.FormatFloat(float64(m)/60, 'f', -1, 64) + "h"
			}
			return timeutil.Duration(d).String()
		case 4:
			return "+" + timeutil.Duration(d).String()
		default:
			return timeutil.Duration(d).String()
		}
	}
	switch r.Intn(8) {
	case 0:
		return c18Mutate(r, timeutil.Duration(time.Duration(m)*time.Minute).String())
	case 1:
		return timeutil.Duration(time.Duration(m)*time.Minute + time.Duration(r.Range(1, 59))*time.Second).String()
	case 2:
		return "-" + timeutil.Duration(time.Duration(m)*time.Minute).String()
	case 3:
		return timeutil.Duration(24*time.Hour + time.Duration(r.Range(1, 600))*time.Minute).String()
	case 4:
		return vfPick(r, c18DurPrelude)
	case 5:
		return strconv.FormatInt(m, 10) // missing unit
	case 6:
		return strconv.FormatFloat(float64(m)+0.5, 'f', -1, 64) + "m"
	default:
		return timeutil.Duration(time.Duration(r.Range(1, 86400e9))).String()
	}
}

func c18YAMLScalar(r *vfRand, s string) string {
	plain := regexp.MustCompile(`^[0-9a-zA-Z.+µμ][0-9a-zA-Z.+µμ-]*$`)
	if plain.MatchString(s) && r.Chance(2, 3) {
		return s
	}
	if !strings.ContainsAny(s, "'\n\x00") && s != "" && r.Bool() {
		return "'" + s + "'"
	}
	return strconv.Quote(s)
}

type c18Field struct {
	day   int
	isEnd bool
	text  string
}

func c18CoqFields(fs []c18Field) string {
	items := make([]string, len(fs))
	for i, f := range fs {
		items[i] = "(" + vfNat(f.day) + ", " + vfBool(f.isEnd) + ", " + vfBytes(f.text) + ")"
	}
	return vfList("field", items)
}

func c18CoqDays(w *Weekly) string {
	return c18CoqRanges(w.days)
}

func c18CoqBack(back [7]*[2]string) string {
	items := make([]string, 7)
	for i, b := range back {
		if b == nil {
			items[i] = vfOpt("bytes * bytes", false, "")
		} else {
			items[i] = vfOpt("bytes * bytes", true, vfPair(vfBytes(b[0]), vfBytes(b[1])))
		}
	}
	return vfList("text_day", items)
}

// c18YAMLFields reads the duration texts yaml.v3 hands to a TextUnmarshaler,
// in document order.
func c18YAMLFields(doc []byte) (fs []c18Field, ok bool) {
	var root yaml.Node
	if err := yaml.Unmarshal(doc, &root); err != nil || len(root.Content) != 1 || root.Content[0].Kind != yaml.MappingNode {
		return nil, false
	}
	m := root.Content[0]
	for i := 0; i+1 < len(m.Content); i += 2 {
		day := -1
		for d, k := range c18DayKeys {
			if m.Content[i].Value == k {
				day = d
			}
		}
		if day < 0 {
			continue
		}
		v := m.Content[i+1]
		if v.Kind != yaml.MappingNode {
			return nil, false
		}
		for j := 0; j+1 < len(v.Content); j += 2 {
			key := v.Content[j].Value
			if key != "start" && key != "end" {
				continue
			}
			if v.Content[j+1].Kind != yaml.ScalarNode {
				return nil, false
			}
			var ct c18Text
			if err := v.Content[j+1].Decode(&ct); err != nil {
				return nil, false
			}
			if ct.called {
				fs = append(fs, c18Field{day: day, isEnd: key == "end", text: ct.s})
			}
		}
	}
	return fs, true
}

func c18TextErrCode(err error) int64 {
	if err == nil {
		return -1
	}
	if c := c18ErrCode(err); c != -2 {
		return c
	}
	if k := c18DurErrKind(err.Error()); k > 0 {
		return 100 + k
	}
	if strings.Contains(err.Error(), "parsing json time") {
		return 101
	}
	return -2
}

func c18TextCases(out *vfOut, rnd *vfRand) {
	// --- single duration texts ---
	for _, s := range c18DurPrelude {
		c18EmitDurText(out, s, "prelude")
	}
	for _, x := range []int64{0, 1, -1, 999, 1000, 1001, 999999, 1000000, 1500000, 999999999, 1e9, 1500000000, 59e9, 60e9, 61e9,
		3599e9, 3600e9, 3601e9, 3660e9, 5400e9, 86400e9, 86460e9, 360000e9, -60e9, -3600e9, -5400e9, -1500, 1<<63 - 1, -1 << 63, -1<<63 + 1} {
		c18EmitDurPrint(out, x)
	}
	for m := int64(0); m <= 1440; m += int64(out.Scale(7, 1)) {
		c18EmitDurPrint(out, m*60e9)
	}
	nDur := out.Scale(500, 6000)
	for i := 0; i < nDur; i++ {
		x := c18RandDur(rnd)
		c18EmitDurPrint(out, x)
		s := timeutil.Duration(x).String()
		c18EmitDurText(out, c18Mutate(rnd, s), "mutated")
		if rnd.Chance(1, 3) {
			c18EmitDurText(out, c18Mutate(rnd, vfPick(rnd, c18DurPrelude)), "mutated")
		}
		if rnd.Chance(1, 3) {
			// concatenations and alternative spellings
			y := c18RandDur(rnd)
			c18EmitDurText(out, s+strings.TrimPrefix(timeutil.Duration(y).String(), "-"), "concat")
			c18EmitDurText(out, strconv.FormatInt(rnd.Range(0, 1<<62)*2+rnd.Range(0, 3), 10)+vfPick(rnd, []string{"ns", "us", "µs", "μs", "ms", "s", "m", "h"}), "int-unit")
			c18EmitDurText(out, strconv.FormatInt(rnd.Range(0, 3000), 10)+"."+strconv.FormatInt(rnd.Range(0, 999999999), 10)+vfPick(rnd, []string{"ns", "us", "µs", "ms", "s", "m", "h"}), "frac-unit")
		}
	}

	// --- millisecond number texts ---
	for _, s := range c18MsPrelude {
		c18EmitMsText(out, s)
	}
	for _, x := range []int64{0, 60e9, -60e9, 500000, -500000, 1500000, 86400e9, 1, -1, 1234567, 999999, 1000000, 999999999999999, -999999999999999, 5400e9, 250000, 125000} {
		c18EmitMsPrint(out, x)
	}
	nMs := out.Scale(300, 4000)
	for i := 0; i < nMs; i++ {
		var x int64
		switch rnd.Intn(5) {
		case 0:
			x = rnd.Range(0, 1440) * 60e9
		case 1:
			x = rnd.Range(0, 200000000) * 500000
		case 2:
			x = rnd.Range(0, 999999999999999)
		case 3:
			x = rnd.Range(0, 100000000) * 1000000
		default:
			x = rnd.Range(0, 99999999) * 125000
		}
		if rnd.Chance(1, 4) {
			x = -x
		}
		c18EmitMsPrint(out, x)
		b, _ := aghhttp.JSONDuration(x).MarshalJSON()
		c18EmitMsText(out, string(b))
		m := c18Mutate(rnd, string(b))
		if strings.Trim(m, "+-.0123456789") == "" {
			c18EmitMsText(out, m)
		}
		c18EmitMsText(out, strconv.FormatInt(rnd.Range(0, 1440)*60000, 10)+vfPick(rnd, c18SubMs))
	}

	// --- documents as texts ---
	nDocs := out.Scale(250, 3000)
	for i := 0; i < nDocs; i++ {
		valid := rnd.Chance(1, 2)
		// YAML
		{
			order := []int{0, 1, 2, 3, 4, 5, 6}
			if rnd.Chance(1, 4) {
				vfShuffle(rnd, order)
			}
			var sb strings.Builder
			if rnd.Bool() {
				sb.WriteString("time_zone: Asia/Tokyo\n")
			}
			for _, d := range order {
				if rnd.Chance(1, 4) {
					continue
				}
				var st, en string
				if valid {
					dr := c18RandRange(rnd)
					st, en = timeutil.Duration(dr.start).String(), timeutil.Duration(dr.end).String()
					if rnd.Chance(1, 3) {
						st, en = c18RandFieldText(rnd, true), c18RandFieldText(rnd, true)
					}
				} else {
					st, en = c18RandFieldText(rnd, false), c18RandFieldText(rnd, rnd.Bool())
				}
				lines := []string{"  start: " + c18YAMLScalar(rnd, st) + "\n", "  end: " + c18YAMLScalar(rnd, en) + "\n"}
				switch rnd.Intn(10) {
				case 0:
					lines[0], lines[1] = lines[1], lines[0]
				case 1:
					lines = lines[:1]
				case 2:
					lines = lines[1:]
				}
				sb.WriteString(c18DayKeys[d] + ":\n" + strings.Join(lines, ""))
			}
			if !strings.Contains(sb.String(), "time_zone") {
				sb.WriteString("time_zone: UTC\n")
			}
			c18EmitYAMLDoc(out, sb.String())
		}
		// JSON
		{
			order := []int{0, 1, 2, 3, 4, 5, 6}
			if rnd.Chance(1, 4) {
				vfShuffle(rnd, order)
			}
			var fs []c18Field
			parts := []string{`"time_zone":"Europe/Berlin"`}
			for _, d := range order {
				if rnd.Chance(1, 4) {
					continue
				}
				var st, en string
				if valid {
					dr := c18RandRange(rnd)
					bs, _ := aghhttp.JSONDuration(dr.start).MarshalJSON()
					be, _ := aghhttp.JSONDuration(dr.end).MarshalJSON()
					st, en = string(bs), string(be)
				} else {
					st, en = c18HalfMsJSON(c18RandHalfMs(rnd)), c18HalfMsJSON(c18RandHalfMs(rnd))
					if rnd.Chance(1, 2) {
						// an otherwise valid whole-minute range with a fraction of a millisecond on one bound
						dr := c18RandRange(rnd)
						if dr == (dayRange{}) || rnd.Chance(1, 5) {
							dr = dayRange{start: 0, end: maxDayRange}
						}
						st, en = strconv.FormatInt(dr.start.Milliseconds(), 10), strconv.FormatInt(dr.end.Milliseconds(), 10)
						if rnd.Bool() {
							st += vfPick(rnd, c18SubMs)
						} else {
							en += vfPick(rnd, c18SubMs)
						}
					} else if rnd.Chance(1, 6) {
						st = vfPick(rnd, []string{"null", "true", `"60000"`, `"1h"`, "{}", "[]", "0.25", "1.75", "-0", "60000.0", "0.500"})
					}
					if rnd.Chance(1, 6) {
						en = vfPick(rnd, []string{"null", "false", `""`, "[60000]", `{"ms":1}`, "86400000.0", "86400000.5", "0.125"})
					}
				}
				f := []c18Field{{d, false, st}, {d, true, en}}
				items := []string{`"start":` + st, `"end":` + en}
				switch rnd.Intn(10) {
				case 0:
					f[0], f[1] = f[1], f[0]
					items[0], items[1] = items[1], items[0]
				case 1:
					f, items = f[:1], items[:1]
				case 2:
					f, items = f[1:], items[1:]
				}
				fs = append(fs, f...)
				parts = append(parts, fmt.Sprintf("%q:{%s}", c18DayKeys[d], strings.Join(items, ",")))
				if rnd.Chance(1, 15) {
					// the same day once more: encoding/json overwrites only the fields given
					st2 := c18HalfMsJSON(c18RandHalfMs(rnd))
					fs = append(fs, c18Field{d, false, st2})
					parts = append(parts, fmt.Sprintf("%q:{\"start\":%s}", c18DayKeys[d], st2))
				}
			}
			if rnd.Bool() {
				parts = append(parts[1:], parts[0])
			}
			c18EmitJSONDoc(out, "{"+strings.Join(parts, ",")+"}", fs)
		}
	}
	for _, doc := range c18FracDocs {
		var fs []c18Field
		for _, m := range c18DocFieldRe.FindAllStringSubmatch(doc, -1) {
			fs = append(fs, c18Field{c18Weekdays[strings.ToUpper(m[1][:1])+m[1][1:]], false, m[2]}, c18Field{c18Weekdays[strings.ToUpper(m[1][:1])+m[1][1:]], true, m[3]})
		}
		c18EmitJSONDoc(out, doc, fs)
	}
	// constructed documents, seed-independent
	for _, doc := range []string{
		"time_zone: UTC\nmon:\n  start: 1h30m\n  end: 2h\n",
		"time_zone: UTC\nmon:\n  start: 90m\n  end: 1.5h\n",
		"time_zone: UTC\nmon:\n  start: 0.5m\n  end: 2h\n",
		"time_zone: UTC\nmon:\n  start: 1h\n  end: 1h30\n",
		"time_zone: UTC\nmon:\n  start: 1h\n  end: 1d\n",
		"time_zone: UTC\nmon:\n  start: \"\"\n  end: 1h\n",
		"time_zone: UTC\nmon:\n  start:\n  end: 1h\n",
		"time_zone: UTC\nmon:\n  start: ~\n  end: 1h\n",
		"time_zone: UTC\nmon:\n  start: 0\n  end: 24h\n",
		"time_zone: UTC\nmon:\n  start: 0\n  end: 24h0m0.000000001s\n",
		"time_zone: UTC\nsat:\n  start: 1h\n  end: bad\nsun:\n  start: -1h\n  end: 2h\n",
		"time_zone: UTC\nsat:\n  end: 2h\n  start: 1h\nsun:\n  end: 1h\n  start: 2h\n",
		"time_zone: UTC\ntue:\n  start: +1h\n  end: 7200s\n",
		"time_zone: UTC\ntue:\n  start: 1µs\n  end: 1h\n",
		"time_zone: UTC\ntue:\n  start: 60000000µs\n  end: 120000000μs\n",
		"time_zone: UTC\ntue:\n  start: 9223372036854775808ns\n  end: 1h\n",
		"time_zone: UTC\ntue:\n  start: 9223372036854775808ns9223372036854775808ns\n  end: 1h\n",
	} {
		c18EmitYAMLDoc(out, doc)
	}
}

func c18EmitYAMLDoc(out *vfOut, doc string) {
	fs, ok := c18YAMLFields([]byte(doc))
	if !ok {
		out.Class("skipped-yaml-shape")
		return
	}
	for _, f := range fs {
		if !c18FracExact(f.text) {
			out.Class("skipped-inexact-fraction")
			return
		}
	}
	w := &Weekly{}
	err := yaml.Unmarshal([]byte(doc), w)
	code := c18TextErrCode(err)
	if code == -2 {
		out.Class("skipped-yaml-other-error")
		return
	}
	monOK, msg := true, ""
	var back [7]*[2]string
	days := "(@nil (Z * Z))"
	if err == nil {
		days = c18CoqDays(w)
		b, merr := yaml.Marshal(w)
		if merr != nil {
			monOK, msg = false, "re-marshal failed"
		}
		bfs, bok := c18YAMLFields(b)
		if !bok {
			monOK, msg = false, "re-marshalled document has an unexpected shape"
		}
		for _, f := range bfs {
			if back[f.day] == nil {
				back[f.day] = &[2]string{}
			}
			if f.isEnd {
				back[f.day][1] = f.text
			} else {
				back[f.day][0] = f.text
			}
		}
		w2 := &Weekly{}
		if uerr := yaml.Unmarshal(b, w2); uerr != nil || w2.days != w.days || w2.location.String() != w.location.String() {
			monOK, msg = false, "YAML round trip changed the schedule"
		}
		if bad := c18InvalidAccepted(w); bad != "" {
			monOK, msg = false, bad
		}
		// the rejection clause on the document itself (reference reading of
		// the texts by the standard library)
		last := map[[2]int]string{}
		for _, f := range fs {
			k := 0
			if f.isEnd {
				k = 1
			}
			last[[2]int{f.day, k}] = f.text
		}
		for _, txt := range last {
			if d, perr := time.ParseDuration(txt); perr == nil && d%time.Minute != 0 {
				monOK, msg = false, "duration that is not a whole number of minutes accepted"
			}
		}
	}
	c := vfCase{
		Coq:        vfApp("C18.CYamlText", c18CoqFields(fs), vfZ(code), days, c18CoqBack(back)),
		Nontrivial: true, MonitorOK: monOK, MonitorMsg: msg,
		Classes: []string{c18DocClass("yamltext", code)},
		Desc:    map[string]any{"kind": "yaml-text", "doc": doc, "err": fmt.Sprint(err)},
	}
	if !monOK {
		c.FindingKey = "yaml-" + msg
	}
	out.Emit(c)
}

func c18EmitJSONDoc(out *vfOut, doc string, fs []c18Field) {
	for _, f := range fs {
		if !c18MsExact(f.text) {
			out.Class("skipped-inexact-ms")
			return
		}
	}
	// the texts really are what the decoder sees
	var raw map[string]json.RawMessage
	if json.Unmarshal([]byte(doc), &raw) != nil {
		out.Class("skipped-json-invalid")
		return
	}
	w := &Weekly{}
	err := json.Unmarshal([]byte(doc), w)
	code := c18TextErrCode(err)
	if code == -2 {
		out.Class("skipped-json-other-error")
		return
	}
	monOK, msg := true, ""
	subNsAccepted := false
	var back [7]*[2]string
	days := "(@nil (Z * Z))"
	if err == nil {
		days = c18CoqDays(w)
		b, merr := json.Marshal(w)
		var m map[string]map[string]json.RawMessage
		if merr != nil {
			monOK, msg = false, "re-marshal failed"
		} else {
			var top map[string]json.RawMessage
			_ = json.Unmarshal(b, &top)
			m = map[string]map[string]json.RawMessage{}
			for _, k := range c18DayKeys {
				if rawDay, ok := top[k]; ok {
					var dm map[string]json.RawMessage
					_ = json.Unmarshal(rawDay, &dm)
					m[k] = dm
				}
			}
		}
		for d, k := range c18DayKeys {
			if dm, ok := m[k]; ok {
				back[d] = &[2]string{string(dm["start"]), string(dm["end"])}
			}
		}
		w2 := &Weekly{}
		if uerr := json.Unmarshal(b, w2); uerr != nil || w2.days != w.days || w2.location.String() != w.location.String() {
			monOK, msg = false, "JSON round trip changed the schedule"
		}
		if bad := c18InvalidAccepted(w); bad != "" {
			monOK, msg = false, bad
		}
		// the rejection clause on the document itself, at the resolution a
		// time.Duration has: every number that ends up in a range, scaled to
		// nanoseconds and truncated toward zero, is a whole number of minutes.
		// Judged twice with math/big, never with the code under test: on the
		// exact decimal the text denotes, and on the exact value of the
		// float64 strconv reads the text as.  A fraction below one nanosecond
		// disappears in the truncation and is accepted by design (class
		// json-sub-nanosecond-fraction); a bound off a whole minute by a
		// nanosecond or more must not be accepted.
		last := map[[2]int]string{}
		for _, f := range fs {
			k := 0
			if f.isEnd {
				k = 1
			}
			last[[2]int{f.day, k}] = f.text
		}
		for _, txt := range last {
			decNs, fltNs, subNs, ok := c18JSONBoundNs(txt)
			if !ok {
				continue
			}
			if decNs%int64(time.Minute) != 0 || fltNs%int64(time.Minute) != 0 {
				monOK, msg = false, "number that is not a whole number of minutes accepted"
			}
			if subNs {
				subNsAccepted = true
			}
		}
	}
	c := vfCase{
		Coq:        vfApp("C18.CJsonText", c18CoqFields(fs), vfZ(code), days, c18CoqBack(back)),
		Nontrivial: true, MonitorOK: monOK, MonitorMsg: msg,
		Classes: []string{c18DocClass("jsontext", code)},
		Desc:    map[string]any{"kind": "json-text", "doc": doc, "err": fmt.Sprint(err)},
	}
	for _, f := range fs {
		if i := strings.IndexByte(f.text, '.'); i >= 0 && c18MsPlain.MatchString(f.text) && strings.Trim(f.text[i+1:], "0") != "" {
			c.Classes = append(c.Classes, "jsontext-sub-ms-fraction")
			break
		}
	}
	if subNsAccepted {
		c.Classes = append(c.Classes, "json-sub-nanosecond-fraction")
	}
	if !monOK {
		c.FindingKey = "json-" + msg
	}
	out.Emit(c)
}

// c18JSONBoundNs reads a plain decimal millisecond text at nanosecond
// resolution in two ways, both truncated toward zero: decNs from the exact
// decimal, fltNs from the exact value of the float64 nearest to the text
// (times 10^6, computed without rounding).  subNs: the decimal carries a
// non-zero part below one nanosecond.  ok=false: not a plain decimal or out of
// range.
func c18JSONBoundNs(txt string) (decNs, fltNs int64, subNs, ok bool) {
	m := c18MsPlain.FindStringSubmatch(txt)
	if m == nil || m[1]+m[3] == "" || len(m[1]+m[3]) > 40 {
		return 0, 0, false, false
	}
	num, _ := new(big.Int).SetString(m[1]+m[3], 10)
	den := new(big.Int).Exp(big.NewInt(10), big.NewInt(int64(len(m[3]))), nil)
	p := new(big.Rat).Mul(new(big.Rat).SetFrac(num, den), big.NewRat(1000000, 1))
	if strings.HasPrefix(txt, "-") {
		p.Neg(p)
	}
	d := new(big.Int).Quo(p.Num(), p.Denom()) // big.Int.Quo truncates toward zero
	v, err := strconv.ParseFloat(txt, 64)
	if err != nil {
		return 0, 0, false, false
	}
	fr := new(big.Rat)
	if fr.SetFloat64(v) == nil {
		return 0, 0, false, false
	}
	fr.Mul(fr, big.NewRat(1000000, 1))
	f := new(big.Int).Quo(fr.Num(), fr.Denom())
	if !d.IsInt64() || !f.IsInt64() {
		return 0, 0, false, false
	}
	return d.Int64(), f.Int64(), !p.IsInt(), true
}

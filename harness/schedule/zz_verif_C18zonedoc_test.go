//go:build verif

package schedule

// C18, the round-trip clause over EVERY zone name of the host: for each name
// the tz database offers (names with '+', '-', digits, three levels, links
// like GMT+0, the Etc/ directory; and UTC, Local, the empty name) a schedule
// located there is marshalled and read back, as JSON and as YAML, through the
// real Weekly; the whole document (the "time_zone" text and the duration
// texts in document order) is handed to the model, whose tz database is the
// answer of the standard library's time.LoadLocation for that name (read by
// the harness, never through the code under test).  Plus documents whose
// name the database does not have, and documents in walked zones with bounds
// outside the documented ranges.

import (
	"encoding/json"
	"fmt"
	"strings"
	"time"

	"gopkg.in/yaml.v3"
)

// c18ZoneErrCode: the error codes of c18TextErrCode, plus 200 for a zone that
// does not load.
func c18ZoneErrCode(err error) int64 {
	if err == nil {
		return -1
	}
	if c := c18TextErrCode(err); c != -2 {
		return c
	}
	msg := err.Error()
	if strings.Contains(msg, "unknown time zone") || strings.Contains(msg, "invalid location name") {
		return 200
	}
	return -2
}

// c18DocZoneJSON / YAML read the time_zone text the decoder sees.
func c18DocZoneJSON(doc []byte) (zone string, ok bool) {
	var v struct {
		TimeZone string `json:"time_zone"`
	}
	if json.Unmarshal(doc, &v) != nil {
		return "", false
	}
	return v.TimeZone, true
}

func c18DocZoneYAML(doc []byte) (zone string, ok bool) {
	var v struct {
		TimeZone string `yaml:"time_zone"`
	}
	if yaml.Unmarshal(doc, &v) != nil {
		return "", false
	}
	return v.TimeZone, true
}

// c18JSONFields: the number texts of a JSON schedule object in document
// order (tokenised by encoding/json's Decoder).
func c18JSONFields(doc []byte) (fs []c18Field, ok bool) {
	dec := json.NewDecoder(strings.NewReader(string(doc)))
	tok, err := dec.Token()
	if err != nil || tok != json.Delim('{') {
		return nil, false
	}
	for dec.More() {
		kt, kerr := dec.Token()
		key, isStr := kt.(string)
		if kerr != nil || !isStr {
			return nil, false
		}
		day := -1
		for d, k := range c18DayKeys {
			if k == key {
				day = d
			}
		}
		if day < 0 {
			var skip json.RawMessage
			if dec.Decode(&skip) != nil {
				return nil, false
			}
			continue
		}
		if t2, e2 := dec.Token(); e2 != nil || t2 != json.Delim('{') {
			return nil, false
		}
		for dec.More() {
			ft, ferr := dec.Token()
			fk, isS := ft.(string)
			var raw json.RawMessage
			if ferr != nil || !isS || dec.Decode(&raw) != nil {
				return nil, false
			}
			if fk == "start" || fk == "end" {
				fs = append(fs, c18Field{day: day, isEnd: fk == "end", text: string(raw)})
			}
		}
		if _, e3 := dec.Token(); e3 != nil {
			return nil, false
		}
	}
	return fs, true
}

func c18BackDays(fs []c18Field) (back [7]*[2]string) {
	for _, f := range fs {
		if back[f.day] == nil {
			back[f.day] = &[2]string{}
		}
		if f.isEnd {
			back[f.day][1] = f.text
		} else {
			back[f.day][0] = f.text
		}
	}
	return back
}

func c18ZoneNameClasses(zn string) (cls []string) {
	switch {
	case zn == "" || zn == "UTC" || zn == "Local":
		cls = append(cls, "zone-name-special")
	case strings.Contains(zn, "+"):
		cls = append(cls, "zone-name-plus")
	case strings.ContainsAny(zn, "-0123456789"):
		cls = append(cls, "zone-name-minus-digit")
	}
	if strings.Count(zn, "/") >= 2 {
		cls = append(cls, "zone-name-three-level")
	}
	if strings.HasPrefix(zn, "Etc/") {
		cls = append(cls, "zone-name-etc")
	}
	return cls
}

var c18ZoneDocOther []string

// c18EmitZoneDoc hands one document to the real decoder and emits the case.
// expect: "ok" (the property says the document reads as orig), "reject" (the
// property says it is refused), "" (no judgement beyond the model).
func c18EmitZoneDoc(out *vfOut, isYAML bool, doc []byte, expect string, orig *Weekly, probes []time.Time, extra ...string) {
	form := "json"
	var zoneText string
	var fs []c18Field
	var ok, ok2 bool
	if isYAML {
		form = "yaml"
		zoneText, ok = c18DocZoneYAML(doc)
		fs, ok2 = c18YAMLFields(doc)
	} else {
		zoneText, ok = c18DocZoneJSON(doc)
		fs, ok2 = c18JSONFields(doc)
	}
	if !ok || !ok2 {
		out.Class("skipped-zonedoc-shape")
		return
	}
	for _, f := range fs {
		if (isYAML && !c18FracExact(f.text)) || (!isYAML && !c18MsExact(f.text)) {
			out.Class("skipped-zonedoc-inexact")
			return
		}
	}
	// the tz database of the host, asked through the standard library
	refLoc, lerr := time.LoadLocation(zoneText)
	kn := lerr == nil

	w := &Weekly{}
	var err error
	if isYAML {
		err = yaml.Unmarshal(doc, w)
	} else {
		err = json.Unmarshal(doc, w)
	}
	code := c18ZoneErrCode(err)
	if code == -2 && lerr != nil && err.Error() == lerr.Error() {
		code = 200 // the very error of time.LoadLocation ("is a directory", "malformed time zone information", ...)
	}
	if code == -2 {
		out.Class("skipped-zonedoc-other-error")
		c18ZoneDocOther = append(c18ZoneDocOther, fmt.Sprintf("%s %q: %v", form, zoneText, err))
		out.Note("zonedoc_other_errors", c18ZoneDocOther)
		return
	}
	monMsg, monKey := "", ""
	fail := func(msg, key string) {
		if monMsg == "" {
			monMsg, monKey = msg, key
		}
	}
	obsZone, backZone := "", ""
	days := "(@nil (Z * Z))"
	var back [7]*[2]string
	if err == nil {
		obsZone = w.location.String()
		days = c18CoqDays(w)
		var b []byte
		var merr error
		if isYAML {
			b, merr = yaml.Marshal(w)
		} else {
			b, merr = json.Marshal(w)
		}
		if merr != nil {
			fail("re-marshal failed: "+merr.Error(), "zonedoc-remarshal")
		} else {
			var bfs []c18Field
			var bok, zok bool
			if isYAML {
				bfs, bok = c18YAMLFields(b)
				backZone, zok = c18DocZoneYAML(b)
			} else {
				bfs, bok = c18JSONFields(b)
				backZone, zok = c18DocZoneJSON(b)
			}
			if !bok || !zok {
				fail("re-marshalled document has an unexpected shape", "zonedoc-remarshal")
			}
			back = c18BackDays(bfs)
			w2 := &Weekly{}
			var uerr error
			if isYAML {
				uerr = yaml.Unmarshal(b, w2)
			} else {
				uerr = json.Unmarshal(b, w2)
			}
			if uerr != nil {
				fail(fmt.Sprintf("%s schedule in zone %q written as %s is refused when read back: %v",
					form, obsZone, strings.TrimSpace(string(b)), uerr), "zonedoc-roundtrip-"+form)
			} else if w2.days != w.days || w2.location.String() != w.location.String() {
				fail(fmt.Sprintf("%s round trip changed the schedule in zone %q", form, obsZone), "zonedoc-roundtrip-"+form)
			}
		}
		if bad := c18InvalidAccepted(w); bad != "" {
			fail(bad, "zonedoc-"+bad)
		}
		// the zone is the one of that name: same wall clock as the reference location
		for _, t := range probes {
			if kn && w.location.String() != "Local" {
				a, bb := t.In(w.location), t.In(refLoc)
				_, oa := a.Zone()
				_, ob := bb.Zone()
				if oa != ob {
					fail(fmt.Sprintf("decoded zone %q has offset %d at %s, the database says %d", obsZone, oa, t.UTC().Format(time.RFC3339), ob), "zonedoc-offset")
				}
			}
		}
	}
	switch expect {
	case "ok":
		switch {
		case err != nil:
			fail(fmt.Sprintf("%s document of a validated schedule in zone %q (known to the tz database) is refused: %v; document %s",
				form, zoneText, err, strings.TrimSpace(string(doc))), "zonedoc-roundtrip-"+form)
		case orig != nil && (w.days != orig.days || w.location.String() != orig.location.String()):
			fail(fmt.Sprintf("%s round trip: zone %q days %v read back as zone %q days %v", form,
				orig.location.String(), orig.days, w.location.String(), w.days), "zonedoc-roundtrip-"+form)
		}
		if err == nil && orig != nil {
			for _, t := range probes {
				if w.Contains(t) != orig.Contains(t) {
					fail(fmt.Sprintf("%s round trip in zone %q: Contains(%s) was %v, is %v", form, zoneText,
						t.UTC().Format(time.RFC3339Nano), orig.Contains(t), w.Contains(t)), "zonedoc-roundtrip-"+form)
				}
			}
		}
	case "reject":
		if err == nil {
			fail(fmt.Sprintf("%s document accepted, the property says it is refused: %s", form, strings.TrimSpace(string(doc))), "zonedoc-accepted-"+form)
		}
	}
	cls := append([]string{}, extra...)
	switch {
	case code == -1:
		cls = append(cls, "zonedoc-"+form+"-ok")
	case code == 200:
		cls = append(cls, "zonedoc-zone-rejected")
	case code >= 100:
		cls = append(cls, "zonedoc-syntax-rejected")
	default:
		cls = append(cls, "zonedoc-range-rejected")
	}
	cls = append(cls, c18ZoneNameClasses(zoneText)...)
	out.Emit(vfCase{
		Coq: vfApp("C18.CZoneDoc", vfBool(isYAML), vfBytes(zoneText), vfBool(kn), c18CoqFields(fs), vfZ(code),
			vfBytes(obsZone), days, vfBytes(backZone), c18CoqBack(back)),
		Nontrivial: true, Classes: cls,
		MonitorOK: monMsg == "", MonitorMsg: monMsg, FindingKey: monKey,
		Desc: map[string]any{"kind": "zone-document", "form": form, "zone": zoneText, "tz_database_has_it": kn,
			"doc": string(doc), "err": fmt.Sprint(err), "decoded_zone": obsZone},
	})
}

// names the tz database does not have, or that time.LoadLocation refuses
// without looking
var c18NoZones = []string{"Mars/Olympus", "Etc/GMT+15", "Etc/GMT+5x", "GMT+25", "UTC+5", "local", "utc",
	"Europe/Nowhere", "Europe/Berlin/", "Europe//Berlin", "../UTC", "Etc/../UTC", "/UTC", "/usr/share/zoneinfo/UTC",
	`\UTC`, "Europe/Berlin ", " UTC", "America/Argentina", "Etc", "+", "Etc/GMT+", "zone.tab", "Europe/Berlin.bak"}

func c18ZoneDocs(out *vfOut, rnd *vfRand, zones []string) {
	names := append([]string{"UTC", "Local"}, zones...)
	seen := map[string]bool{}
	nZones := 0
	r := vfNewRand(181820)
	base := time.Date(2025, 6, 2, 9, 30, 0, 0, time.UTC) // a Monday
	for _, zn := range names {
		if seen[zn] {
			continue
		}
		seen[zn] = true
		loc := time.Local
		if zn != "Local" {
			var err error
			if loc, err = time.LoadLocation(zn); err != nil {
				continue
			}
		}
		nZones++
		var days [7]dayRange
		for i := range days {
			days[i] = c18RandRange(r)
		}
		days[1] = dayRange{start: 9 * time.Hour, end: 17 * time.Hour}
		days[4] = dayRange{start: 0, end: maxDayRange}
		if nZones%5 == 0 {
			// seed-dependent weeks on a part of the zones
			for i := range days {
				days[i] = c18RandRange(rnd)
			}
		}
		orig := &Weekly{location: loc, days: days}
		// probes: inside and just before Monday's range in that zone, and a fixed instant
		probes := []time.Time{
			time.Date(2025, 6, 2, 12, 0, 0, 0, loc), time.Date(2025, 6, 2, 8, 59, 59, 999999999, loc),
			time.Date(2025, 1, 16, 23, 59, 0, 0, loc), base,
		}
		if b, err := json.Marshal(orig); err == nil {
			c18EmitZoneDoc(out, false, b, "ok", orig, probes, "zonedoc-all-zones")
		} else {
			out.Class("skipped-zonedoc-marshal-error")
		}
		if b, err := yaml.Marshal(orig); err == nil {
			c18EmitZoneDoc(out, true, b, "ok", orig, probes, "zonedoc-all-zones")
		} else {
			out.Class("skipped-zonedoc-marshal-error")
		}
		// the API-style body and a hand-written configuration in the same zone
		if nZones%7 == 0 || strings.ContainsAny(zn, "+-") || strings.Count(zn, "/") >= 2 {
			zb, _ := json.Marshal(zn)
			api := fmt.Sprintf(`{"mon":{"start":32400000,"end":61200000},"time_zone":%s,"thu":{"end":86400000,"start":0}}`, zb)
			want := &Weekly{location: loc}
			want.days[1], want.days[4] = dayRange{start: 9 * time.Hour, end: 17 * time.Hour}, dayRange{start: 0, end: maxDayRange}
			c18EmitZoneDoc(out, false, []byte(api), "ok", want, probes, "zonedoc-api-body")
			cfg := "time_zone: " + zn + "\nmon:\n  start: 9h\n  end: 17h\nthu:\n  start: 0s\n  end: 24h\n"
			c18EmitZoneDoc(out, true, []byte(cfg), "ok", want, probes, "zonedoc-config")
			// the same zone, a bound outside the documented ranges
			bad := fmt.Sprintf(`{"time_zone":%s,"tue":{"start":%d,"end":%d}}`, zb, 61200000+60000*int64(r.Intn(3)), 32400000+int64(r.Intn(2)))
			c18EmitZoneDoc(out, false, []byte(bad), "reject", nil, nil, "zonedoc-known-zone-bad-range")
		}
	}
	out.Note("zonedoc_zones", nZones)

	// the empty name and the absent member are UTC
	for _, doc := range []string{`{"time_zone":"","mon":{"start":32400000,"end":61200000}}`, `{"mon":{"start":32400000,"end":61200000}}`} {
		want := &Weekly{location: time.UTC}
		want.days[1] = dayRange{start: 9 * time.Hour, end: 17 * time.Hour}
		c18EmitZoneDoc(out, false, []byte(doc), "ok", want, []time.Time{base}, "zonedoc-empty-name")
	}
	for _, doc := range []string{"time_zone: \"\"\nmon:\n  start: 9h\n  end: 17h\n", "mon:\n  start: 9h\n  end: 17h\n"} {
		want := &Weekly{location: time.UTC}
		want.days[1] = dayRange{start: 9 * time.Hour, end: 17 * time.Hour}
		c18EmitZoneDoc(out, true, []byte(doc), "ok", want, []time.Time{base}, "zonedoc-empty-name")
	}
	// names the database does not have: refused, whatever the bounds
	for _, zn := range c18NoZones {
		if _, err := time.LoadLocation(zn); err == nil {
			continue // this host has it after all
		}
		zb, _ := json.Marshal(zn)
		c18EmitZoneDoc(out, false, []byte(fmt.Sprintf(`{"time_zone":%s,"mon":{"start":32400000,"end":61200000}}`, zb)), "reject", nil, nil, "zonedoc-unknown-name")
		yb, _ := yaml.Marshal(map[string]any{"time_zone": zn})
		c18EmitZoneDoc(out, true, append(yb, []byte("mon:\n  start: 9h\n  end: 17h\n")...), "reject", nil, nil, "zonedoc-unknown-name")
	}
}

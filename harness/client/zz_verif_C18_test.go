//go:build verif

package client

// C18, request part: the pause schedule is consulted for the global and for
// the client's own blocked services on every request.  The REAL client
// storage decides which list and schedule a request gets: a real
// filtering.DNSFilter (ApplyBlockedServices, ApplyAdditionalFiltering, the
// HTTP handlers of the global list, registered through Config.HTTPRegister)
// whose Config.ApplyClientFiltering is storage.ApplyClientFiltering of a real
// client.Storage (as internal/home wires them), holding persistent clients
// with every combination of use_global_settings x use_global_blocked_services
// (UseOwnSettings x UseOwnBlockedServices), found by ClientID, by address or
// by subnet.
//
// The code under test reads time.Now() itself.  Schedules are therefore
// constructed around the instant of the run: today's range of a schedule (in
// ITS zone, whose weekday may differ from UTC's) contains the current wall
// clock with two hours of margin, or lies away from it, or has an edge on the
// current / the next whole minute.  A request is bracketed by two clock
// readings; it is judged (and handed to the model, with the first reading as
// the instant) only when, in every zone involved, both readings show the same
// weekday, hour, minute and zone offset: ranges are whole minutes, so no
// schedule changes its verdict in between.  Otherwise the request is dropped
// (class skipped-req-clock), never reported.
//
// One case per history: initial global configuration, the clients, then DNS
// requests interleaved with requests to the global HTTP endpoints.

import (
	"context"
	"encoding/json"
	"fmt"
	"net/http"
	"net/http/httptest"
	"net/netip"
	"regexp"
	"sort"
	"strconv"
	"strings"
	"testing"
	"time"

	"github.com/AdguardTeam/AdGuardHome/internal/filtering"
	"github.com/AdguardTeam/AdGuardHome/internal/schedule"
	"github.com/AdguardTeam/golibs/logutil/slogutil"
	"github.com/AdguardTeam/golibs/timeutil"
	"gopkg.in/yaml.v3"
)

var c18kZones = []string{
	"America/New_York", "Europe/London", "Australia/Lord_Howe", "Asia/Kolkata",
	"Asia/Kathmandu", "Pacific/Apia", "America/St_Johns", "UTC", "Pacific/Kiritimati",
	"Europe/Berlin", "Pacific/Chatham", "Local", "Pacific/Pago_Pago", "America/Anchorage",
	"Pacific/Auckland", "Asia/Tokyo", "Etc/GMT+5", "Etc/GMT-14", "America/Argentina/Buenos_Aires",
}

var c18kDayKeys = []string{"sun", "mon", "tue", "wed", "thu", "fri", "sat"}

const (
	c18kMin   = int64(time.Minute)
	c18kDayNs = int64(24 * time.Hour)
)

func c18kLoc(zone string) (*time.Location, error) {
	if zone == "Local" {
		return time.Local, nil
	}
	return time.LoadLocation(zone)
}

// c18kWall is the property's reading of "in effect at t": wall clock of t in
// loc against that weekday's range.
func c18kWall(loc *time.Location, ranges [7][2]int64, t time.Time) bool {
	lt := t.In(loc)
	h, m, s := lt.Clock()
	tod := int64(h)*int64(time.Hour) + int64(m)*int64(time.Minute) + int64(s)*int64(time.Second) + int64(lt.Nanosecond())
	rg := ranges[int(lt.Weekday())]
	return rg[0] <= tod && tod < rg[1]
}

func c18kRandRange(r *vfRand) (s, e int64) {
	switch r.Intn(8) {
	case 0:
		return 0, 0
	case 1:
		return 0, c18kDayNs
	}
	a := int64(r.Intn(24*60)) * c18kMin
	b := int64(r.Intn(24*60+1)) * c18kMin
	if a > b {
		a, b = b, a
	}
	if a == b {
		if b == c18kDayNs {
			a -= c18kMin
		} else {
			b += c18kMin
		}
	}
	return a, b
}

func c18kWeek(s, e int64) (rs [7][2]int64) {
	for d := range rs {
		rs[d] = [2]int64{s, e}
	}
	return rs
}

func c18kMs(ns int64) string { return strconv.FormatInt(ns/int64(time.Millisecond), 10) }

// c18kAround builds seven whole-minute ranges for a schedule in loc whose
// range of the CURRENT local weekday stands in the given relation to the
// current wall clock.
func c18kAround(r *vfRand, loc *time.Location, ref time.Time, mode string) (rs [7][2]int64) {
	lt := ref.In(loc)
	wd := int(lt.Weekday())
	h, mi, _ := lt.Clock()
	m := int64(h*60 + mi)
	clamp := func(x int64) int64 { return max(0, min(1440, x)) }
	for d := range rs {
		rs[d][0], rs[d][1] = c18kRandRange(r)
	}
	set := func(d int, a, b int64) {
		a, b = clamp(a), clamp(b)
		if a >= b {
			rs[d] = [2]int64{}
			return
		}
		rs[d] = [2]int64{a * c18kMin, b * c18kMin}
	}
	before := func() {
		if m >= 90 {
			set(wd, m-90-int64(r.Intn(120)), m-30)
		} else {
			set(wd, m+30, m+90+int64(r.Intn(120)))
		}
	}
	switch mode {
	case "paused":
		set(wd, m-120-int64(r.Intn(240)), m+120+int64(r.Intn(240)))
		if m+30 >= 1440 {
			set((wd+1)%7, 0, 120)
		}
	case "active":
		if r.Bool() && m+90 <= 1440 {
			set(wd, m+30, m+90+int64(r.Intn(120)))
		} else {
			before()
		}
		if m+30 >= 1440 {
			rs[(wd+1)%7] = [2]int64{}
		}
	case "empty-today": // the other days pause all day: another weekday would say the opposite
		for d := range rs {
			rs[d] = [2]int64{0, c18kDayNs}
		}
		rs[wd] = [2]int64{}
	case "full-today":
		for d := range rs {
			rs[d] = [2]int64{}
		}
		rs[wd] = [2]int64{0, c18kDayNs}
	case "edge-start-next": // not yet
		if m+1 < 1440 {
			set(wd, m+1, m+61)
		} else {
			before()
		}
	case "edge-end-this": // just over
		if m >= 1 {
			set(wd, m-60, m)
		} else {
			set(wd, m+30, m+90)
		}
	case "edge-end-next": // still on
		set(wd, m-60, m+1)
	case "edge-start-this": // just begun
		set(wd, m, m+60)
	case "full":
		rs = c18kWeek(0, c18kDayNs)
	case "none":
		rs = [7][2]int64{}
	}
	return rs
}

var c18kModes = []string{"paused", "paused", "active", "active", "empty-today", "full-today",
	"edge-start-next", "edge-end-this", "edge-end-next", "edge-start-this", "full", "none", "random"}

// ---- the service table, read through the filter itself

var (
	c18kServices map[string]string // id -> a host its first plain rule blocks ("" = none)
	c18kPool     []string
)

var c18kRuleHost = regexp.MustCompile(`^\|\|([a-z0-9.-]+)\^$`)

func c18kKnown(id string) bool { _, ok := c18kServices[id]; return ok }

// c18kInitServices asks a filter with an empty (never pausing) schedule to
// apply every service id it reports.
func c18kInitServices(t *testing.T, dataDir string) {
	reg, handlers := c18kRegister()
	d, err := filtering.New(&filtering.Config{DataDir: dataDir, HTTPRegister: reg, ConfigModified: func() {},
		BlockedServices: &filtering.BlockedServices{Schedule: schedule.EmptyWeekly()}}, nil)
	if err != nil {
		t.Fatal(err)
	}
	defer d.Close()
	d.RegisterFilteringHandlers()
	w := httptest.NewRecorder()
	handlers["GET /control/blocked_services/services"](w, httptest.NewRequest(http.MethodGet, "/control/blocked_services/services", nil))
	var ids []string
	if err = json.Unmarshal(w.Body.Bytes(), &ids); err != nil || len(ids) < 4 {
		t.Fatalf("service table: %v %q", err, w.Body.String())
	}
	setts := &filtering.Settings{}
	d.ApplyBlockedServicesList(setts, ids)
	c18kServices = map[string]string{}
	for _, e := range setts.ServicesRules {
		host := ""
		if len(e.Rules) > 0 {
			if m := c18kRuleHost.FindStringSubmatch(e.Rules[0].Text()); m != nil {
				host = m[1]
			}
		}
		c18kServices[e.Name] = host
	}
	for _, id := range []string{"4chan", "9gag"} {
		if c18kKnown(id) {
			c18kPool = append(c18kPool, id)
		}
	}
	c18kPool = append(c18kPool, ids[len(ids)/2], ids[len(ids)-1])
}

func c18kRegister() (reg func(method, url string, h http.HandlerFunc), handlers map[string]http.HandlerFunc) {
	handlers = map[string]http.HandlerFunc{}
	return func(method, url string, h http.HandlerFunc) { handlers[method+" "+url] = h }, handlers
}

func c18kFilterKnown(ids []string) (out []string) {
	out = []string{}
	for _, id := range ids {
		if c18kKnown(id) {
			out = append(out, id)
		}
	}
	return out
}

func c18kSameIDs(a, b []string) bool {
	if len(a) != len(b) {
		return false
	}
	for i := range a {
		if a[i] != b[i] {
			return false
		}
	}
	return true
}

func c18kCoqIDs(ids []string) string {
	items := make([]string, len(ids))
	for i, s := range ids {
		items[i] = vfBytes(s)
	}
	return vfList("bytes", items)
}

func c18kIDsJSON(ids []string) string {
	if ids == nil {
		return "null"
	}
	b, _ := json.Marshal(ids)
	return string(b)
}

func c18kRandIDs(r *vfRand, withUnknown bool) (ids []string) {
	n := r.Intn(4)
	ids = []string{}
	for i := 0; i < n; i++ {
		ids = append(ids, vfPick(r, c18kPool))
	}
	if withUnknown {
		at := r.Intn(len(ids) + 1)
		ids = append(ids[:at], append([]string{vfPick(r, []string{"verif_unknown_svc", "4Chan", ""})}, ids[at:]...)...)
	}
	return ids
}

// ---- configuration values

// c18kDoc is a blocked-services value and how it is built.
type c18kDoc struct {
	how    string // empty | full | yaml | json
	zone   string
	ranges [7][2]int64
	ids    []string
	doc    string
}

func (in *c18kDoc) build() (bs *filtering.BlockedServices, err error) {
	switch in.how {
	case "empty":
		return &filtering.BlockedServices{Schedule: schedule.EmptyWeekly(), IDs: in.ids}, nil
	case "full":
		return &filtering.BlockedServices{Schedule: schedule.FullWeekly(), IDs: in.ids}, nil
	case "yaml":
		var b strings.Builder
		b.WriteString("schedule:\n  time_zone: " + in.zone + "\n")
		for d, rg := range in.ranges {
			if rg[0] == 0 && rg[1] == 0 {
				continue
			}
			fmt.Fprintf(&b, "  %s:\n    start: %s\n    end: %s\n", c18kDayKeys[d], time.Duration(rg[0]), time.Duration(rg[1]))
		}
		b.WriteString("ids:")
		if len(in.ids) == 0 {
			b.WriteString(" []\n")
		} else {
			b.WriteString("\n")
			for _, id := range in.ids {
				b.WriteString("- " + strconv.Quote(id) + "\n")
			}
		}
		in.doc = b.String()
		bs = &filtering.BlockedServices{}
		err = yaml.Unmarshal([]byte(in.doc), bs)
		return bs, err
	default: // json
		in.doc = `{"schedule":` + c18kSchedJSON(in.zone, in.ranges) + `,"ids":` + c18kIDsJSON(in.ids) + `}`
		bs = &filtering.BlockedServices{}
		err = json.Unmarshal([]byte(in.doc), bs)
		return bs, err
	}
}

func c18kSchedJSON(zone string, ranges [7][2]int64) string {
	zb, _ := json.Marshal(zone)
	parts := []string{`"time_zone":` + string(zb)}
	for d, rg := range ranges {
		if rg[0] == 0 && rg[1] == 0 {
			continue
		}
		parts = append(parts, fmt.Sprintf(`"%s":{"start":%s,"end":%s}`, c18kDayKeys[d], c18kMs(rg[0]), c18kMs(rg[1])))
	}
	return "{" + strings.Join(parts, ",") + "}"
}

// c18kInit builds a configuration value whose schedule stands in the given
// relation to the current instant.
func c18kInit(r *vfRand, zone, mode string, ids []string, ref time.Time) *c18kDoc {
	in := &c18kDoc{zone: zone, ids: ids}
	loc, err := c18kLoc(zone)
	if err != nil {
		loc = time.UTC
	}
	switch mode {
	case "full":
		if r.Bool() {
			in.how, in.zone, in.ranges = "full", "Local", c18kWeek(0, c18kDayNs)
			return in
		}
	case "none":
		if r.Bool() {
			in.how, in.zone = "empty", "Local"
			return in
		}
	}
	in.ranges = c18kAround(r, loc, ref, mode)
	in.how = "json"
	if r.Bool() {
		in.how = "yaml"
	}
	return in
}

// ---- requests to the global HTTP endpoints

type c18kOp struct {
	kind   string // update | set
	body   string
	coq    string
	want   int
	ids    []string
	zone   string
	ranges [7][2]int64
}

// c18kUpdate: how = "ok", "bad-zone", "bad-range", "no-schedule".
func c18kUpdate(how, zone string, ranges [7][2]int64, ids []string) *c18kOp {
	op := &c18kOp{kind: "update", ids: ids, zone: zone, ranges: ranges, want: http.StatusOK}
	schedCoq := vfOpt("sched_doc", false, "")
	switch how {
	case "no-schedule":
		op.body = `{"ids":` + c18kIDsJSON(ids) + `}`
		op.zone, op.ranges = "Local", [7][2]int64{}
	default:
		if how == "bad-zone" {
			zone = "Mars/Olympus"
		}
		if how == "bad-range" {
			ranges[2] = [2]int64{2 * int64(time.Hour), int64(time.Hour)}
		}
		var fields []string
		for d, rg := range ranges {
			if rg[0] == 0 && rg[1] == 0 {
				continue
			}
			fields = append(fields, "("+vfNat(d)+", false, "+vfBytes(c18kMs(rg[0]))+")", "("+vfNat(d)+", true, "+vfBytes(c18kMs(rg[1]))+")")
		}
		zoneCoq := vfOpt("bytes", false, "")
		if loc, err := time.LoadLocation(zone); err == nil {
			zoneCoq = vfOpt("bytes", true, vfBytes(loc.String()))
		}
		schedCoq = vfOpt("sched_doc", true, vfApp("Build_sched_doc", zoneCoq, vfList("field", fields)))
		op.body = `{"schedule":` + c18kSchedJSON(zone, ranges) + `,"ids":` + c18kIDsJSON(ids) + `}`
		if how != "ok" {
			op.want = http.StatusBadRequest
		}
	}
	if op.want == http.StatusOK && len(c18kFilterKnown(ids)) != len(ids) {
		op.want = http.StatusUnprocessableEntity
	}
	op.coq = vfApp("OUpdate", schedCoq, c18kCoqIDs(ids))
	return op
}

func c18kSet(ids []string) *c18kOp {
	return &c18kOp{kind: "set", body: c18kIDsJSON(ids), coq: vfApp("OSet", c18kCoqIDs(ids)), want: http.StatusOK, ids: ids}
}

func c18kBadSet(r *vfRand) *c18kOp {
	return &c18kOp{kind: "set", body: vfPick(r, []string{`{"ids":[]}`, `["4chan"`, `[1]`, ``, `nonsense`}), coq: "OSetBad", want: http.StatusBadRequest}
}

// ---- persistent clients

// c18kClient is a persistent client as far as this property goes.
type c18kClient struct {
	name        string
	by          string // clientid | ip | subnet: what identifies it
	cid         string
	addr        netip.Addr   // the address its requests come from
	subnet      netip.Prefix // by == "subnet"
	ownSettings bool         // use_global_settings: false
	filtering   bool         // its own FilteringEnabled
	own         bool         // use_global_blocked_services: false
	init        *c18kDoc
}

func (c *c18kClient) persistent(bs *filtering.BlockedServices) *Persistent {
	p := &Persistent{
		Name: c.name, UID: MustNewUID(), BlockedServices: bs,
		UseOwnSettings: c.ownSettings, FilteringEnabled: c.filtering, UseOwnBlockedServices: c.own,
	}
	switch c.by {
	case "clientid":
		p.ClientIDs = []string{c.cid}
	case "ip":
		p.IPs = []netip.Addr{c.addr}
	default:
		p.Subnets = []netip.Prefix{c.subnet}
	}
	return p
}

func c18kMkClient(r *vfRand, i int, ownSettings, own bool, zone, mode string, ids []string, ref time.Time) *c18kClient {
	c := &c18kClient{name: fmt.Sprintf("cl%d", i), ownSettings: ownSettings, own: own, filtering: r.Bool(),
		init: c18kInit(r, zone, mode, ids, ref)}
	switch i % 3 {
	case 0:
		c.by, c.cid = "clientid", fmt.Sprintf("client-%d", i)
		c.addr = netip.AddrFrom4([4]byte{10, 77, byte(i), 9}) // an address nobody owns
	case 1:
		c.by, c.addr = "ip", netip.AddrFrom4([4]byte{192, 168, 18, byte(10 + i)})
	default:
		c.by, c.subnet = "subnet", netip.PrefixFrom(netip.AddrFrom4([4]byte{172, 16, byte(i), 0}), 24)
		c.addr = netip.AddrFrom4([4]byte{172, 16, byte(i), byte(7 + i)})
	}
	return c
}

func (c *c18kClient) settingsWord() string {
	a, b := "use_global_settings: true", "use_global_blocked_services: true"
	if c.ownSettings {
		a = "use_global_settings: false"
	}
	if c.own {
		b = "use_global_blocked_services: false"
	}
	return a + ", " + b
}

type c18kStep struct {
	op   *c18kOp     // HTTP request, or
	cl   int         // DNS request of client cl (-1: nobody), or
	edit *c18kClient // client cl is replaced by this version through Storage.Update
}

// c18kEdited is a new version of client c (same name and identifiers) with
// other switches and, when init is not nil, another list and schedule.
func c18kEdited(c *c18kClient, ownSettings, own, flt bool, init *c18kDoc) *c18kClient {
	n := *c
	n.ownSettings, n.own, n.filtering = ownSettings, own, flt
	if init != nil {
		n.init = init
	}
	return &n
}

// c18kState is what the property says the global value is after the requests
// so far, kept without the code under test.
type c18kState struct {
	zone   string
	ranges [7][2]int64
	ids    []string
}

// c18kSameMinute: both readings show, in loc, the same day, hour, minute and
// offset.
func c18kSameMinute(loc *time.Location, a, b time.Time) bool {
	la, lb := a.In(loc), b.In(loc)
	_, oa := la.Zone()
	_, ob := lb.Zone()
	return oa == ob && la.Year() == lb.Year() && la.YearDay() == lb.YearDay() &&
		la.Hour() == lb.Hour() && la.Minute() == lb.Minute()
}

var c18kDataDir string

// c18kRunHistory runs one request history and emits its case.
func c18kRunHistory(t *testing.T, out *vfOut, gf bool, in *c18kDoc, clients []*c18kClient, steps []c18kStep, extra ...string) {
	bs, err := in.build()
	if err != nil {
		out.Class("skipped-req-init-error")
		return
	}
	st, err := NewStorage(context.Background(), &StorageConfig{
		Logger: slogutil.NewDiscardLogger(), Clock: timeutil.SystemClock{}, DHCP: EmptyDHCP{},
	})
	if err != nil {
		t.Fatal(err)
	}
	defer func() { _ = st.Shutdown(context.Background()) }()
	for _, c := range clients {
		cbs, berr := c.init.build()
		if berr != nil {
			out.Class("skipped-req-init-error")
			return
		}
		if aerr := st.Add(context.Background(), c.persistent(cbs)); aerr != nil {
			t.Fatalf("adding client %s: %v", c.name, aerr)
		}
	}
	reg, handlers := c18kRegister()
	d, err := filtering.New(&filtering.Config{DataDir: c18kDataDir, BlockedServices: bs, ConfigModified: func() {},
		ApplyClientFiltering: st.ApplyClientFiltering, HTTPRegister: reg}, nil)
	if err != nil {
		out.Class("skipped-req-new-error")
		return
	}
	defer d.Close()
	d.RegisterFilteringHandlers()
	d.SetEnabled(gf)

	classes := map[string]bool{}
	for _, e := range extra {
		classes[e] = true
	}
	monMsg, monKey := "", ""
	fail := func(step int, msg, key string) {
		if monMsg == "" && msg != "" {
			monMsg, monKey = fmt.Sprintf("step %d: %s", step, msg), key
		}
	}
	known := map[string]bool{}
	note := func(ids []string) {
		for _, id := range ids {
			if c18kKnown(id) {
				known[id] = true
			}
		}
	}
	note(in.ids)
	for _, c := range clients {
		note(c.init.ids)
	}
	// the versions of the clients: a request of logical client i is judged by
	// (and handed to the model as) the version current at that step
	vers := append([]*c18kClient{}, clients...)
	cur := make([]int, len(clients))
	edited := make([]bool, len(clients))
	for i := range cur {
		cur[i] = i
	}

	glob := &c18kState{zone: in.zone, ranges: in.ranges, ids: in.ids}
	var coqSteps []string
	var desc []map[string]any
	judged, afterUpdate, afterSet := 0, false, false
	for i, stp := range steps {
		if stp.op != nil {
			op := stp.op
			note(op.ids)
			method, path := http.MethodPut, "/control/blocked_services/update"
			if op.kind == "set" {
				method, path = http.MethodPost, "/control/blocked_services/set"
			}
			h := handlers[method+" "+path]
			if h == nil {
				t.Fatalf("handler %s %s is not registered", method, path)
			}
			w := httptest.NewRecorder()
			pan := ""
			func() {
				defer func() {
					if p := recover(); p != nil {
						pan = fmt.Sprint(p)
					}
				}()
				h(w, httptest.NewRequest(method, path, strings.NewReader(op.body)))
			}()
			if pan != "" {
				fail(i, "panic in "+path+": "+pan, "req-http-panic")
			}
			if w.Code != op.want {
				fail(i, fmt.Sprintf("%s with body %s answered %d, the property expects %d", op.kind, op.body, w.Code, op.want), "http-status-"+op.kind)
			}
			if w.Code == http.StatusOK {
				if op.kind == "set" {
					glob.ids = op.ids
					afterSet = true
				} else {
					glob.zone, glob.ranges, glob.ids = op.zone, op.ranges, op.ids
					afterUpdate = true
				}
			}
			coqSteps = append(coqSteps, vfApp("RHttp", op.coq, vfZ(int64(w.Code))))
			desc = append(desc, map[string]any{"req": method + " " + path, "body": op.body, "status": w.Code})
			continue
		}

		if stp.edit != nil {
			nv := stp.edit
			note(nv.init.ids)
			nbs, berr := nv.init.build()
			if berr != nil {
				t.Fatalf("edited client %s: %v", nv.name, berr)
			}
			if uerr := st.Update(context.Background(), nv.name, nv.persistent(nbs)); uerr != nil {
				t.Fatalf("updating client %s: %v", nv.name, uerr)
			}
			vers = append(vers, nv)
			cur[stp.cl] = len(vers) - 1
			edited[stp.cl] = true
			desc = append(desc, map[string]any{"req": "Storage.Update", "client": nv.name, "use_global_settings": !nv.ownSettings,
				"use_global_blocked_services": !nv.own, "filtering_enabled": nv.filtering, "zone": nv.init.zone,
				"ranges_ns": fmt.Sprint(nv.init.ranges), "ids": nv.init.ids})
			continue
		}

		// a DNS request
		cid, addr := "nobody", netip.AddrFrom4([4]byte{10, 9, 8, 7})
		var cl *c18kClient
		if stp.cl >= 0 {
			cl = vers[cur[stp.cl]]
			addr = cl.addr
			cid = cl.cid // "" unless the client is identified by its ClientID
		}
		setts := d.Settings()
		pan := ""
		before := time.Now()
		func() {
			defer func() {
				if p := recover(); p != nil {
					pan = fmt.Sprint(p)
				}
			}()
			d.ApplyAdditionalFiltering(addr, cid, setts)
		}()
		after := time.Now()
		if pan != "" {
			fail(i, "ApplyAdditionalFiltering panicked: "+pan, "req-panic")
			break
		}
		names := []string{}
		for _, e := range setts.ServicesRules {
			names = append(names, e.Name)
		}
		// the request was attributed to the client it was built for (the lookup is C04's subject)
		wantName := ""
		if cl != nil {
			wantName = cl.name
		}
		if setts.ClientName != wantName {
			out.Class("skipped-req-other-client")
			continue
		}

		// what governs the request, per the property: use_global_blocked_services alone decides
		govZone, govRanges, govIDs := glob.zone, glob.ranges, glob.ids
		who := "no persistent client; global list"
		if cl != nil {
			if cl.own {
				govZone, govRanges, govIDs = cl.init.zone, cl.init.ranges, cl.init.ids
				who = fmt.Sprintf("client %q (found by %s; %s) with its own blocked services", cl.name, cl.by, cl.settingsWord())
			} else {
				who = fmt.Sprintf("client %q (found by %s; %s); global list", cl.name, cl.by, cl.settingsWord())
			}
		}
		gloc, gerr := c18kLoc(glob.zone)
		loc, lerr := c18kLoc(govZone)
		if gerr != nil || lerr != nil {
			out.Class("skipped-req-zone")
			continue
		}
		if !c18kSameMinute(gloc, before, after) || !c18kSameMinute(loc, before, after) || after.Sub(before) > 20*time.Second {
			out.Class("skipped-req-clock")
			continue
		}
		judged++
		pausedNow := c18kWall(loc, govRanges, before)
		globPaused := c18kWall(gloc, glob.ranges, before)
		want := []string{}
		if !pausedNow {
			want = c18kFilterKnown(govIDs)
		}
		lt := before.In(loc)
		rg := govRanges[int(lt.Weekday())]
		where := fmt.Sprintf("%s in %s, that day's pause %s-%s", lt.Format("Mon 15:04:05"), govZone,
			time.Duration(rg[0]), time.Duration(rg[1]))
		state := map[bool]string{true: "in pause", false: "not in pause"}
		if !c18kSameIDs(want, names) {
			fail(i, fmt.Sprintf("request of %s (%s: %s), ids %q; global list %q (%s): services blocked %q, the property says %q",
				who, state[pausedNow], where, govIDs, glob.ids, state[globPaused], names, want), "req-services")
		}
		// the general settings follow use_global_settings alone
		wantFlt := gf
		if cl != nil && cl.ownSettings {
			wantFlt = cl.filtering
		}
		if setts.FilteringEnabled != wantFlt {
			fail(i, fmt.Sprintf("request of %s: FilteringEnabled is %v, the property says %v (global %v)", who, setts.FilteringEnabled, wantFlt, gf), "req-general-settings")
		}
		// the same through CheckHost for one service with a plain host rule
		probe := ""
		for _, id := range append(append([]string{}, govIDs...), glob.ids...) {
			if c18kServices[id] != "" {
				probe = id
				break
			}
		}
		if probe != "" {
			setts.ProtectionEnabled = true
			res, cerr := d.CheckHost(c18kServices[probe], 1, setts)
			wantBlocked := false
			for _, id := range want {
				wantBlocked = wantBlocked || id == probe
			}
			switch {
			case cerr != nil:
			case wantBlocked && !(res.IsFiltered && res.Reason == filtering.FilteredBlockedService):
				fail(i, fmt.Sprintf("request of %s (%s): host %s of service %q is not blocked (%s), the property says it is",
					who, where, c18kServices[probe], probe, res.Reason), "req-checkhost")
			case !wantBlocked && res.Reason == filtering.FilteredBlockedService && res.ServiceName == probe:
				fail(i, fmt.Sprintf("request of %s (%s): host %s is blocked as service %q, the property says it is not",
					who, where, c18kServices[probe], probe), "req-checkhost")
			}
		}

		// classes
		pa := map[bool]string{true: "paused", false: "active"}
		switch {
		case cl == nil:
			classes["req-no-client-"+pa[pausedNow]] = true
		case cl.own:
			classes["req-own-"+pa[pausedNow]+"-global-"+pa[globPaused]] = true
			if !globPaused && pausedNow && len(c18kFilterKnown(glob.ids)) > 0 {
				classes["req-own-paused-global-blocking"] = true
			}
			if len(govIDs) == 0 {
				classes["req-own-empty-list"] = true
			}
			if len(c18kFilterKnown(govIDs)) != len(govIDs) {
				classes["req-own-unknown-id"] = true
			}
		default:
			classes["req-client-global-"+pa[pausedNow]] = true
		}
		if cl != nil {
			sw := map[bool]string{true: "own", false: "global"}
			classes["req-settings-"+sw[cl.ownSettings]+"-services-"+sw[cl.own]] = true
			classes["req-found-by-"+cl.by] = true
			if cl.own && !cl.ownSettings && pausedNow != globPaused {
				classes["req-own-services-global-settings-schedules-differ"] = true
			}
			globWant := []string{}
			if !globPaused {
				globWant = c18kFilterKnown(glob.ids)
			}
			if cl.own && !cl.ownSettings && !c18kSameIDs(want, globWant) {
				// the global list under the global schedule would have given another answer
				classes["req-own-services-global-settings-decisive"] = true
			}
			if cl.ownSettings && cl.filtering != gf {
				classes["req-own-settings-differ"] = true
			}
			if edited[stp.cl] {
				classes["req-after-client-edit"] = true
			}
		}
		if (cl == nil || !cl.own) && afterUpdate {
			classes["req-after-update"] = true
		}
		if (cl == nil || !cl.own) && afterSet {
			classes["req-after-legacy-set"] = true
		}
		if before.In(loc).Weekday() != before.UTC().Weekday() {
			classes["req-zone-other-weekday"] = true
		}
		h, mi, _ := lt.Clock()
		mnow := int64(h*60+mi) * c18kMin
		if rg != [2]int64{} && (rg[0] == mnow || rg[0] == mnow+c18kMin || rg[1] == mnow || rg[1] == mnow+c18kMin) {
			classes["req-edge-minute"] = true
		}

		offs := []string{}
		seen := map[string]bool{}
		for _, zn := range []string{glob.zone, govZone} {
			if seen[zn] {
				continue
			}
			seen[zn] = true
			l, _ := c18kLoc(zn)
			_, off := before.In(l).Zone()
			offs = append(offs, vfPair(vfBytes(zn), vfZ(int64(off))))
		}
		clCoq := vfOpt("nat", false, "")
		if stp.cl >= 0 {
			clCoq = vfOpt("nat", true, vfNat(cur[stp.cl]))
		}
		coqSteps = append(coqSteps, vfApp("RReq", clCoq, vfZ(before.UnixNano()), vfList("bytes * Z", offs), c18kCoqIDs(names), vfBool(setts.FilteringEnabled)))
		desc = append(desc, map[string]any{"req": "dns", "clientid": cid, "addr": addr.String(), "governed_by": who,
			"now": before.UTC().Format(time.RFC3339Nano), "wall_clock": where, "in_pause": pausedNow, "global_in_pause": globPaused,
			"ids": govIDs, "services_rules": names, "filtering_enabled": setts.FilteringEnabled})
	}
	if judged == 0 && len(coqSteps) == 0 {
		return
	}

	kn := make([]string, 0, len(known))
	for id := range known {
		kn = append(kn, id)
	}
	sort.Strings(kn)
	days := func(rs [7][2]int64) string {
		items := make([]string, 7)
		for i, rg := range rs {
			items[i] = vfPair(vfZ(rg[0]), vfZ(rg[1]))
		}
		return vfList("Z * Z", items)
	}
	cls := make([]string, 0, len(classes))
	for c := range classes {
		cls = append(cls, c)
	}
	sort.Strings(cls)
	var coqClients []string
	var descClients []map[string]any
	for _, c := range vers {
		coqClients = append(coqClients, "("+strings.Join([]string{vfBool(c.ownSettings), vfBool(c.filtering), vfBool(c.own),
			c18kCoqIDs(c.init.ids), vfBytes(c.init.zone), days(c.init.ranges)}, ", ")+")")
		descClients = append(descClients, map[string]any{"name": c.name, "found_by": c.by, "clientid": c.cid, "addr": c.addr.String(),
			"use_global_settings": !c.ownSettings, "filtering_enabled": c.filtering, "use_global_blocked_services": !c.own,
			"built_from": c.init.how, "doc": c.init.doc, "zone": c.init.zone,
			"ranges_ns": fmt.Sprint(c.init.ranges), "ids": c.init.ids})
	}
	out.Emit(vfCase{
		Coq: vfApp("C18.CReq", c18kCoqIDs(kn), c18kCoqIDs(in.ids), vfBytes(in.zone), days(in.ranges), vfBool(gf),
			vfList("client_desc", coqClients), vfList("req_step", coqSteps)),
		Nontrivial: judged > 0, Classes: cls,
		MonitorOK: monMsg == "", MonitorMsg: monMsg, FindingKey: monKey,
		Desc: map[string]any{"kind": "request-history", "global_init": in.how, "global_doc": in.doc, "global_zone": in.zone,
			"global_ids": in.ids, "global_ranges_ns": fmt.Sprint(in.ranges), "global_filtering_enabled": gf,
			"clients": descClients, "steps": desc},
	})
}

func TestVerifC18(t *testing.T) {
	out := vfOpen(t, "C18")
	defer out.Close()
	filtering.InitModule()
	c18kDataDir = t.TempDir()
	c18kInitServices(t, c18kDataDir)
	a, b := c18kPool[0], c18kPool[1]
	ref := time.Now()
	nobody := c18kStep{cl: -1}
	req := func(i int) c18kStep { return c18kStep{cl: i} }

	// ---- prelude: constructed histories, seed-independent up to the clock
	pr := vfNewRand(1819)
	upd := func(zone, mode string, ids []string) c18kStep {
		loc, lerr := c18kLoc(zone)
		if lerr != nil {
			loc = time.UTC
		}
		return c18kStep{op: c18kUpdate("ok", zone, c18kAround(pr, loc, ref, mode), ids)}
	}
	// the four combinations of (use_global_settings, use_global_blocked_services)
	// x client schedule paused / active x global schedule paused / active; the
	// first history is the scenario of seeded change C18-I (own services, global
	// settings, own schedule in pause, global list blocking); the second one
	// the scenario of C18-C (own settings too)
	for _, gz := range []string{"UTC", "Pacific/Kiritimati"} {
		for _, cz := range []string{"Asia/Kolkata", "Pacific/Pago_Pago", "Australia/Lord_Howe"} {
			for _, gmode := range []string{"active", "paused"} {
				var cls []*c18kClient
				var steps []c18kStep
				steps = append(steps, nobody)
				k := 0
				for _, cmode := range []string{"paused", "active"} {
					for _, sw := range [][2]bool{{false, true}, {true, true}, {false, false}, {true, false}} {
						ids := []string{b}
						if cmode == "active" && sw[1] && sw[0] {
							ids = []string{b, "verif_unknown_svc"}
						}
						cls = append(cls, c18kMkClient(pr, k, sw[0], sw[1], cz, cmode, ids, ref))
						steps = append(steps, req(k))
						k++
					}
				}
				cls = append(cls, c18kMkClient(pr, k, false, true, cz, "active", []string{}, ref))
				steps = append(steps, req(k))
				c18kRunHistory(t, out, gmode == "active", c18kInit(pr, gz, gmode, []string{a}, ref), cls, steps)
			}
		}
	}
	// edges on the current / next minute, for the global and for a client's own schedule
	for _, mode := range []string{"edge-start-next", "edge-end-this", "edge-end-next", "edge-start-this", "empty-today", "full-today"} {
		for zi, zn := range []string{"Asia/Kathmandu", "America/St_Johns", "Pacific/Apia"} {
			cl := c18kMkClient(pr, zi, zi == 1, true, zn, mode, []string{a, b}, ref)
			c18kRunHistory(t, out, true, c18kInit(pr, zn, mode, []string{a}, ref), []*c18kClient{cl}, []c18kStep{nobody, req(0)})
		}
	}
	// the global endpoints in between: the next request follows the accepted update; a legacy set keeps the pause
	{
		cls := []*c18kClient{
			c18kMkClient(pr, 0, false, true, "Europe/Berlin", "active", []string{b}, ref),
			c18kMkClient(pr, 1, true, false, "Europe/Berlin", "active", []string{b}, ref),
			c18kMkClient(pr, 2, false, false, "Etc/GMT+5", "paused", []string{b}, ref),
		}
		c18kRunHistory(t, out, true, c18kInit(pr, "America/New_York", "active", []string{a}, ref), cls, []c18kStep{
			nobody, upd("Asia/Tokyo", "paused", []string{a, b}), nobody, req(1), req(2), req(0),
			{op: c18kSet([]string{b})}, nobody, req(0), req(2),
			upd("Pacific/Chatham", "active", []string{a}), nobody, req(1), {op: c18kSet([]string{})}, nobody, req(0),
			upd("Etc/GMT+5", "paused", []string{a}), nobody, req(2), req(0)})
		c18kRunHistory(t, out, false, c18kInit(pr, "Pacific/Apia", "paused", []string{a}, ref), cls, []c18kStep{
			nobody, {op: c18kSet([]string{a, b})}, nobody, req(1),
			{op: c18kUpdate("bad-zone", "UTC", c18kWeek(0, 0), []string{a})}, nobody, // rejected: still paused
			{op: c18kUpdate("bad-range", "UTC", c18kWeek(0, 0), []string{a})}, req(2),
			{op: c18kBadSet(pr)}, req(1), req(0),
			{op: c18kUpdate("no-schedule", "", [7][2]int64{}, []string{b})}, nobody, req(2), req(0)})
	}

	// the switches of a client flipped while it is being served (what the
	// clients API does through Storage.Update): the next request follows the
	// switches as they are then
	for _, cz := range []string{"Asia/Kolkata", "Etc/GMT+5"} {
		c0 := c18kMkClient(pr, 0, true, true, cz, "paused", []string{b}, ref)
		c1 := c18kMkClient(pr, 1, false, false, cz, "active", []string{b}, ref)
		c2 := c18kMkClient(pr, 2, true, true, cz, "active", []string{a, b}, ref)
		c0a := c18kEdited(c0, false, true, c0.filtering, nil)   // global settings now, still own services (the clients of C18-I)
		c0b := c18kEdited(c0a, false, false, c0.filtering, nil) // now the global services too
		c0c := c18kEdited(c0b, true, true, !c0.filtering, c18kInit(pr, "Pacific/Kiritimati", "active", []string{a}, ref))
		c1a := c18kEdited(c1, false, true, c1.filtering, c18kInit(pr, cz, "paused", []string{a, b}, ref))
		c2a := c18kEdited(c2, true, false, c2.filtering, nil)
		c18kRunHistory(t, out, true, c18kInit(pr, "UTC", "active", []string{a}, ref), []*c18kClient{c0, c1, c2}, []c18kStep{
			req(0), req(1), req(2), {cl: 0, edit: c0a}, req(0), req(1), {cl: 1, edit: c1a}, req(1), req(0),
			{cl: 0, edit: c0b}, req(0), {cl: 2, edit: c2a}, req(2), {cl: 0, edit: c0c}, req(0), nobody})
	}

	// ---- random histories
	rnd := vfNewRand(out.Seed).Fork(1819)
	n := out.Scale(70, 1000)
	for i := 0; i < n; i++ {
		r := rnd.Fork(uint64(i))
		ref = time.Now()
		nc := r.Intn(5)
		var cls []*c18kClient
		for j := 0; j < nc; j++ {
			cls = append(cls, c18kMkClient(r, j, r.Bool(), r.Chance(2, 3), vfPick(r, c18kZones), vfPick(r, c18kModes),
				c18kRandIDs(r, r.Chance(1, 6)), ref))
		}
		in := c18kInit(r, vfPick(r, c18kZones), vfPick(r, c18kModes), c18kRandIDs(r, false), ref)
		if len(in.ids) == 0 && r.Chance(2, 3) {
			in.ids = []string{vfPick(r, c18kPool)}
		}
		var steps []c18kStep
		for j, ns := 0, 2+r.Intn(8); j < ns; j++ {
			k := r.Intn(100)
			switch {
			case k < 12:
				zone := vfPick(r, c18kZones)
				loc, lerr := c18kLoc(zone)
				if lerr != nil {
					loc = time.UTC
				}
				if zone == "Local" {
					zone = "UTC" // an update names its zone; "Local" is what an absent member gives
					loc = time.UTC
				}
				steps = append(steps, c18kStep{op: c18kUpdate("ok", zone, c18kAround(r, loc, ref, vfPick(r, c18kModes)), c18kRandIDs(r, r.Chance(1, 8)))})
			case k < 16:
				var rs [7][2]int64
				for d := range rs {
					rs[d][0], rs[d][1] = c18kRandRange(r)
				}
				steps = append(steps, c18kStep{op: c18kUpdate(vfPick(r, []string{"bad-zone", "bad-range"}), vfPick(r, c18kZones[:10]), rs, c18kRandIDs(r, false))})
			case k < 19:
				steps = append(steps, c18kStep{op: c18kUpdate("no-schedule", "", [7][2]int64{}, c18kRandIDs(r, false))})
			case k < 30:
				steps = append(steps, c18kStep{op: c18kSet(c18kRandIDs(r, r.Chance(1, 5)))})
			case k < 42 || len(cls) == 0:
				steps = append(steps, nobody)
			case k < 52:
				ci := r.Intn(len(cls))
				last := cls[ci]
				for _, s0 := range steps {
					if s0.edit != nil && s0.cl == ci {
						last = s0.edit
					}
				}
				var ni *c18kDoc
				if r.Bool() {
					ni = c18kInit(r, vfPick(r, c18kZones), vfPick(r, c18kModes), c18kRandIDs(r, r.Chance(1, 6)), ref)
				}
				steps = append(steps, c18kStep{cl: ci, edit: c18kEdited(last, r.Bool(), r.Bool(), r.Bool(), ni)})
			default:
				steps = append(steps, req(r.Intn(len(cls))))
			}
		}
		c18kRunHistory(t, out, r.Chance(3, 4), in, cls, steps)
	}
}

//go:build verif

package client

import (
	"context"
	"encoding/json"
	"fmt"
	"net"
	"net/netip"
	"slices"
	"sort"
	"strings"
	"testing"
	"time"

	"github.com/AdguardTeam/AdGuardHome/internal/dhcpsvc"
	"github.com/AdguardTeam/AdGuardHome/internal/filtering"
	"github.com/AdguardTeam/AdGuardHome/internal/schedule"
	"github.com/AdguardTeam/dnsproxy/upstream"
	"github.com/AdguardTeam/golibs/logutil/slogutil"
	"github.com/AdguardTeam/golibs/timeutil"
)

// ---- universe

var c04Names = []string{"a", "b", "c", "d"}

var c04IPs = []string{
	"10.1.2.3", "10.1.2.4", "10.1.9.9", "10.7.7.7", "192.168.1.5",
	"2001:db8::1", "2001:db8:1::5", "::ffff:10.1.2.3",
}

// link-local addresses with IPv6 zones: the exact map is keyed with the zone,
// the prefix test strips it.
var c04ZoneIPs = []string{"fe80::1%eth0", "fe80::1%eth1", "fe80::1", "fe80::2%eth0"}

var c04Subnets = []string{
	"10.0.0.0/8", "10.1.0.0/16", "10.1.2.0/24", "10.2.0.0/8", "10.1.2.3/32", "10.1.0.0/17",
	"2001:db8::/32", "2001:db8:1::/48", "0.0.0.0/0", "::/0", "fe80::/64",
}

// The same network spelled with different host bits: netip.ParsePrefix and
// Persistent.SetIDs keep the host bits, the index keys its subnet map by the
// exact prefix (address as spelled, bits) and orders it by subnetCompare on the
// UNMASKED address, while netip.Prefix.Contains masks.  Three spellings per
// network (so that a comparator which identifies them collides more than once)
// and addresses inside the network.
type c04NCGroup struct {
	spell  []string
	inside []string
}

var c04NCGroups = []c04NCGroup{
	{[]string{"192.168.1.1/24", "192.168.1.0/24", "192.168.1.200/24"}, []string{"192.168.1.77", "192.168.1.1"}},
	{[]string{"172.16.5.9/16", "172.16.0.0/16", "172.16.255.255/16"}, []string{"172.16.200.1"}},
	{[]string{"10.0.0.0/8", "10.2.0.0/8", "10.255.0.1/8"}, []string{"10.200.0.1", "10.1.2.77"}},
	{[]string{"2001:db8:2:3::1/64", "2001:db8:2:3::/64", "2001:db8:2:3:ffff::/64"}, []string{"2001:db8:2:3::77"}},
	{[]string{"2001:db8:7:ffff::/48", "2001:db8:7::/48", "2001:db8:7:1::1/48"}, []string{"2001:db8:7:1::99"}},
}

// c04NCInside lists the inside addresses of every group one of whose spellings
// is in ids, and those spellings.
func c04NCInside(ids []string) (inside, spellings []string) {
	for _, g := range c04NCGroups {
		hit := false
		for _, sp := range g.spell {
			if slices.Contains(ids, sp) {
				hit = true
				spellings = append(spellings, sp)
			}
		}
		if hit {
			inside = append(inside, g.inside...)
		}
	}
	return inside, spellings
}

var c04MACs = []string{
	"aa:bb:cc:dd:ee:01", "aa:bb:cc:dd:ee:02",
	"02-00-5e-10-00-00-00-01", // 8 bytes; the colon form parses as an IPv6 address
	"02:00:5e:10:00:00:00:01",
	"00:00:00:00:fe:80:00:00:00:00:00:00:02:00:5e:10:00:00:00:01", // 20 bytes
}

var c04CIDs = []string{"cli1", "cli2", "Phone"}

// extra spellings probed but never stored
var c04Extra = []string{"10.1.2.77", "10.1.200.1", "10.200.0.1", "2001:db8:1::99", "2001:db8:ffff::1", "8.8.8.8",
	"phone", "0200.5e10.0000.0001", "AA-BB-CC-DD-EE-01", "nobody"}

// ---- tags and upstream lines (Persistent.validate)

var c04BadTags = []string{"bad_tag", "user_", "USER_ADMIN", ""}

// upstream lines: accepted forms, rejected forms, and the form on which
// dnsproxy's parseLine panics (a domain specification followed by white space
// only).
var c04UpLines = []string{
	"", "# comment", "#", "1.1.1.1", "8.8.8.8:53", "tls://dns.example", "https://dns.example/dns-query",
	"[/lan/]10.0.0.1", "[/a.example/b.example/]1.1.1.1 8.8.8.8", "[/lan/]#", "[/*.corp.example/]# 9.9.9.9",
	"[//]1.1.1.1", "[/lan//]1.1.1.1", "[/*.lan/local/]tls://dns.example\t1.1.1.1  ",
	"[/lan/]", "[/lan", "[/123/]1.1.1.1", "[/a..b/]1.1.1.1", "[/-a.example/]1.1.1.1", "[/a.example-/]1.1.1.1",
	"bad://x", "[/lan/]1.1.1.1 bad://x", "1.1.1.1 2.2.2.2", "[/lan/]/]1.1.1.1", " ", " 1.1.1.1",
	"[/lan/] ", "[/lan/]\t \t", "[/a.example/lan/] \n",
	"[/" + strings.Repeat("a", 63) + ".example/]1.1.1.1", "[/" + strings.Repeat("a", 64) + ".example/]1.1.1.1",
	"[/lan/]# bad://x", "[/lan/]#1.1.1.1", "[/LAN/*.Example/]1.1.1.1",
}

// c04Tokens lists what the parser hands to upstream.AddressToUpstream for a
// line (over-approximated: every candidate token), so that the model's oracle
// knows the real function's verdict on each.
func c04Tokens(line string) (toks []string) {
	toks = append(toks, line)
	if rest, ok := strings.CutPrefix(line, "[/"); ok {
		if _, ups, found := strings.Cut(rest, "/]"); found {
			toks = append(toks, strings.Fields(ups)...)
		}
	}
	return toks
}

func c04AddrOK(tok string) (ok bool) {
	defer func() {
		if rec := recover(); rec != nil {
			ok = false
		}
	}()
	u, err := upstream.AddressToUpstream(tok, &upstream.Options{})
	if err != nil {
		return false
	}
	_ = u.Close()
	return true
}

// c04LineOK is the monitor's own reading of a well-formed upstream line.
func c04LineOK(line string) bool {
	switch {
	case line == "" || line[0] == '#':
		return true
	case !strings.HasPrefix(line, "[/"):
		return c04AddrOK(line)
	}
	i := strings.Index(line[2:], "/]")
	if i < 0 {
		return false
	}
	doms, ups := line[2:2+i], line[2+i+2:]
	fs := strings.Fields(ups)
	if len(fs) == 0 {
		return false
	}
	for _, d := range strings.Split(doms, "/") {
		d = strings.TrimPrefix(d, "*.")
		if d == "" {
			continue
		}
		if len(d) > 253 {
			return false
		}
		labels := strings.Split(d, ".")
		for _, l := range labels {
			if l == "" || len(l) > 63 {
				return false
			}
		}
		tld := labels[len(labels)-1]
		if !c04TLDRe(tld) {
			return false
		}
	}
	if fs[0] == "#" {
		return true
	}
	for _, f := range fs {
		if !c04AddrOK(f) {
			return false
		}
	}
	return true
}

func c04TLDRe(l string) bool {
	alnum := func(b byte) bool { return b >= 'a' && b <= 'z' || b >= 'A' && b <= 'Z' || b >= '0' && b <= '9' }
	if l == "" || len(l) > 63 || !alnum(l[0]) || !alnum(l[len(l)-1]) {
		return false
	}
	digits := true
	for i := 0; i < len(l); i++ {
		if !alnum(l[i]) && l[i] != '-' {
			return false
		}
		if l[i] < '0' || l[i] > '9' {
			digits = false
		}
	}
	return !digits
}

// ---- pause schedules (built through the JSON form, whole minutes), zones

var c04ZoneNames = []string{"UTC", "Asia/Kolkata", "America/New_York", "Pacific/Kiritimati", "Pacific/Pago_Pago"}

type c04Zone struct {
	name string
	loc  *time.Location
}

var c04Zones []c04Zone

func c04InitZones() {
	c04Zones = nil
	for _, n := range c04ZoneNames {
		if loc, err := time.LoadLocation(n); err == nil {
			c04Zones = append(c04Zones, c04Zone{n, loc})
		}
	}
}

// c04Sched is a schedule together with what the model needs to know of it.
type c04Sched struct {
	w    *schedule.Weekly
	zone int
	mins [7][2]int // start, end in minutes from local midnight
	kind string
}

var c04Days = []string{"sun", "mon", "tue", "wed", "thu", "fri", "sat"}

func c04MkSched(zone int, mins [7][2]int, kind string) *c04Sched {
	doc := map[string]any{"time_zone": c04Zones[zone].name}
	for d, r := range mins {
		if r != [2]int{} {
			doc[c04Days[d]] = map[string]any{"start": r[0] * 60000, "end": r[1] * 60000}
		}
	}
	b, _ := json.Marshal(doc)
	w := &schedule.Weekly{}
	if err := json.Unmarshal(b, w); err != nil {
		panic(fmt.Sprintf("c04 schedule %s: %v", b, err))
	}
	return &c04Sched{w: w, zone: zone, mins: mins, kind: kind}
}

// c04RandSched draws a schedule positioned relative to the instant now: always
// / never pausing, pausing today only, every day but today, a range around
// now, a range before now.  Range edges are kept at least two hours (or a
// local midnight) away from now; an observation during which any schedule in
// play changes its verdict is repeated, never reported.
func c04RandSched(r *vfRand, now time.Time) *c04Sched {
	z := r.Intn(len(c04Zones))
	lt := now.In(c04Zones[z].loc)
	d := int(lt.Weekday())
	tod := lt.Hour()*60 + lt.Minute()
	var m [7][2]int
	full := [2]int{0, 1440}
	nearMidnight := tod < 5 || tod > 1434
	k := r.Intn(6)
	if nearMidnight && k >= 2 {
		k = r.Intn(2)
	}
	kind := ""
	switch k {
	case 0:
		kind = "always"
		for i := range m {
			m[i] = full
		}
	case 1:
		kind = "never"
	case 2:
		kind = "today-only"
		m[d] = full
		m[(d+3)%7] = [2]int{60, 120}
	case 3:
		kind = "not-today"
		for i := range m {
			m[i] = full
		}
		m[d] = [2]int{}
	case 4:
		kind = "around-now"
		m[d] = [2]int{max(0, tod-120), min(1440, tod+121)}
		m[(d+1)%7] = [2]int{}
		m[(d+6)%7] = [2]int{0, 1}
	default:
		kind = "not-now"
		if tod >= 240 {
			m[d] = [2]int{tod - 240, tod - 120}
		} else {
			m[d] = [2]int{tod + 120, min(1440, tod+300)}
		}
		m[(d+1)%7] = full
		m[(d+6)%7] = full
	}
	return c04MkSched(z, m, kind)
}

func c04CoqSched(sc *c04Sched) string {
	items := make([]string, 7)
	for i, r := range sc.mins {
		items[i] = vfApp("mkr", vfZ(int64(r[0])), vfZ(int64(r[1])))
	}
	return vfList("Schedule.day_range", items)
}

// schedules by the *schedule.Weekly the records carry
var c04SchedOf = map[*schedule.Weekly]*c04Sched{}

func c04Reg(sc *c04Sched) *schedule.Weekly {
	c04SchedOf[sc.w] = sc
	return sc.w
}

// real service ids plus ids the binary has no rules for
var c04Services = []string{"youtube", "facebook", "tiktok", "9gag", "no_such_service", "x"}

func c04Known() (known []string) {
	for _, id := range c04Services {
		if (&filtering.BlockedServices{IDs: []string{id}}).Validate() == nil {
			known = append(known, id)
		}
	}
	return known
}

func c04RandBlocked(r *vfRand, now time.Time, onlyKnown bool) *filtering.BlockedServices {
	var ids []string
	for _, id := range c04Services {
		if r.Chance(1, 3) {
			ids = append(ids, id)
		}
	}
	if onlyKnown {
		ids = slices.DeleteFunc(ids, func(id string) bool { return !slices.Contains(c04Known(), id) })
	}
	return &filtering.BlockedServices{Schedule: c04Reg(c04RandSched(r, now)), IDs: ids}
}

// ---- DHCP stub

type c04DHCP struct {
	tbl map[netip.Addr]net.HardwareAddr
}

func (d *c04DHCP) Leases() []*dhcpsvc.Lease   { return nil }
func (d *c04DHCP) HostByIP(netip.Addr) string { return "" }
func (d *c04DHCP) MACByIP(ip netip.Addr) net.HardwareAddr {
	if m, ok := d.tbl[ip]; ok {
		return m
	}
	return nil
}

// ---- Gallina printing

func c04Addr(a netip.Addr) string {
	if !a.IsValid() {
		return vfPair(vfBytes(""), vfBytes(""))
	}
	return vfPair(vfBytes(string(a.AsSlice())), vfBytes(a.Zone()))
}

func c04Prefix(p netip.Prefix) string {
	return vfPair(vfBytes(string(p.Addr().AsSlice())), vfN(uint64(p.Bits())))
}

type c04UIDs struct{ m map[UID]uint64 }

func (u *c04UIDs) num(id UID) uint64 {
	if (id == UID{}) {
		return 0
	}
	if n, ok := u.m[id]; ok {
		return n
	}
	n := uint64(len(u.m) + 1)
	u.m[id] = n
	return n
}

func c04Strs(xs []string) string {
	items := make([]string, len(xs))
	for i, s := range xs {
		items[i] = vfBytes(s)
	}
	return vfList("bytes", items)
}

// c04BlockedVal prints a BlockedServices value with its schedule; a value
// without a (known) schedule is printed with the empty schedule (it is only
// compared by its ids then, or never asked for a pause verdict).
func c04BlockedVal(b *filtering.BlockedServices) string {
	sched, zone := vfList("Schedule.day_range", nil), uint64(0)
	if sc := c04SchedOf[b.Schedule]; sc != nil && b.Schedule != nil {
		sched, zone = c04CoqSched(sc), uint64(sc.zone)
	}
	return vfApp("mkb", c04Strs(b.IDs), sched, vfN(zone))
}

func c04Blocked(b *filtering.BlockedServices) string {
	if b == nil {
		return vfOpt("blocked", false, "")
	}
	return vfOpt("blocked", true, c04BlockedVal(b))
}

// observed settings: only the ids of the BlockedServices value are compared
func c04BlockedObs(b *filtering.BlockedServices) string {
	if b == nil {
		return vfOpt("blocked", false, "")
	}
	return vfOpt("blocked", true, vfApp("ob", c04Strs(b.IDs)))
}

func c04Client(u *c04UIDs, p *Persistent) string {
	cids := make([]string, len(p.ClientIDs))
	for i, s := range p.ClientIDs {
		cids[i] = vfBytes(s)
	}
	ips := make([]string, len(p.IPs))
	for i, a := range p.IPs {
		ips[i] = c04Addr(a)
	}
	nets := make([]string, len(p.Subnets))
	for i, s := range p.Subnets {
		nets[i] = c04Prefix(s)
	}
	macs := make([]string, len(p.MACs))
	for i, m := range p.MACs {
		macs[i] = vfBytes(string(m))
	}
	return vfApp("mkc", vfN(u.num(p.UID)), vfBytes(p.Name), vfList("bytes", cids), vfList("bytes * bytes", ips),
		vfList("bytes * N", nets), vfList("bytes", macs),
		vfBool(p.UseOwnSettings), vfBool(p.FilteringEnabled), vfBool(p.SafeSearchConf.Enabled),
		vfBool(p.SafeBrowsingEnabled), vfBool(p.ParentalEnabled), vfBool(p.UseOwnBlockedServices),
		c04Blocked(p.BlockedServices), vfBool(p.IgnoreQueryLog), vfBool(p.IgnoreStatistics),
		c04Strs(p.Tags), c04Strs(p.Upstreams))
}

func c04Settings(s *filtering.Settings) string {
	svc := make([]string, len(s.ServicesRules))
	for i, e := range s.ServicesRules {
		svc[i] = e.Name
	}
	return vfApp("mks", vfBytes(s.ClientName), vfBool(s.FilteringEnabled), vfBool(s.SafeSearchEnabled),
		vfBool(s.SafeBrowsingEnabled), vfBool(s.ParentalEnabled), c04BlockedObs(s.BlockedServices),
		c04Strs(s.ClientTags), c04Strs(svc))
}

// c04SettingsIn prints the settings handed to ApplyClientFiltering (with the
// schedule of their BlockedServices value, if any).
func c04SettingsIn(s *filtering.Settings) string {
	return vfApp("mks", vfBytes(s.ClientName), vfBool(s.FilteringEnabled), vfBool(s.SafeSearchEnabled),
		vfBool(s.SafeBrowsingEnabled), vfBool(s.ParentalEnabled), c04BlockedObs(s.BlockedServices),
		c04Strs(s.ClientTags), c04Strs(nil))
}

func c04ErrClass(err error) int {
	if err == nil {
		return 0
	}
	s := err.Error()
	switch {
	case strings.Contains(s, "same uid"):
		return 2
	case strings.Contains(s, "same name"):
		return 3
	case strings.Contains(s, "same ClientID"):
		return 4
	case strings.Contains(s, "same IP"):
		return 5
	case strings.Contains(s, "same subnet"):
		return 6
	case strings.Contains(s, "same MAC"):
		return 7
	case strings.Contains(s, "is not found"):
		return 8
	case strings.Contains(s, "empty name"), strings.Contains(s, "id required"), strings.Contains(s, "uid required"):
		return 1
	case strings.Contains(s, "invalid upstream servers"):
		return 9
	case strings.Contains(s, "invalid tag"):
		return 10
	default:
		return 99
	}
}

var c04ErrNames = map[int]string{0: "ok", 1: "validate", 2: "uid", 3: "name", 4: "clientid", 5: "ip", 6: "subnet",
	7: "mac", 8: "notfound", 9: "upstream", 10: "tag", 11: "panic", 99: "other"}

// ---- reference registry (the monitor's own, trivial, bookkeeping)

type c04Ref struct {
	byName map[string]*Persistent
}

func c04Keys(p *Persistent) (keys []string) {
	for _, x := range p.ClientIDs {
		keys = append(keys, "cid:"+x)
	}
	for _, x := range p.IPs {
		keys = append(keys, "ip:"+x.String())
	}
	for _, x := range p.Subnets {
		keys = append(keys, "net:"+x.String())
	}
	for _, x := range p.MACs {
		keys = append(keys, "mac:"+fmt.Sprintf("%x", []byte(x)))
	}
	return keys
}

func (r *c04Ref) owner(key string) *Persistent {
	for _, p := range r.byName {
		for _, k := range c04Keys(p) {
			if k == key {
				return p
			}
		}
	}
	return nil
}

// expected client for (ClientID, address) by the stated precedence.  spell is
// the MAC reading of the looked-up string itself, if it has one (index.find
// tries it before Storage.Find asks the DHCP server).
func (r *c04Ref) resolve(cid string, a netip.Addr, dhcp *c04DHCP, spell net.HardwareAddr) (p *Persistent, how string) {
	if cid != "" {
		if p = r.owner("cid:" + cid); p != nil {
			return p, "cid"
		}
	}
	if a.IsValid() {
		if p = r.owner("ip:" + a.String()); p != nil {
			if a.Zone() != "" {
				return p, "zone-exact"
			}
			return p, "ip"
		}
	}
	var best netip.Prefix
	n := 0
	for _, c := range r.byName {
		for _, s := range c.Subnets {
			if !a.IsValid() || !s.Contains(a.WithZone("")) {
				continue
			}
			n++
			if p == nil || s.Bits() > best.Bits() || (s.Bits() == best.Bits() && s.Addr().Compare(best.Addr()) < 0) {
				p, best = c, s
			}
		}
	}
	if p != nil {
		if a.Zone() != "" {
			return p, "zone-cidr"
		}
		if n > 1 {
			return p, "cidr-overlap"
		}
		return p, "cidr"
	}
	if spell != nil {
		if p = r.owner("mac:" + fmt.Sprintf("%x", []byte(spell))); p != nil {
			return p, "mac-spelling"
		}
	}
	if m := dhcp.MACByIP(a); m != nil {
		if p = r.owner("mac:" + fmt.Sprintf("%x", []byte(m))); p != nil {
			return p, "dhcp"
		}
	}
	return nil, "none"
}

// ---- one history

type c04Probe struct {
	raw   string
	ip    netip.Addr
	ipOK  bool
	mac   net.HardwareAddr
	macOK bool
}

type c04Pair struct {
	cid string
	a   netip.Addr
}

type c04Hist struct {
	t      *testing.T
	r      *vfRand
	s      *Storage
	dhcp   *c04DHCP
	uids   *c04UIDs
	ref    *c04Ref
	ids    []string // identifier universe of this history
	probes []c04Probe
	pairs  []c04Pair
	glob   filtering.Settings
	steps  []string
	desc   []string
	cls    map[string]bool
	monMsg string
	monKey string
	monAt  int // number of recorded steps before the failing one
	nOK    map[string]int
	prev   string
	moved  map[string]uint64 // identifier -> last owner uid (for the id-move class)

	// the filter the storage is wired into (ApplyAdditionalFiltering), its
	// configuration (the harness changes BlockedServices between steps), the
	// instant the history's schedules are positioned around, the verdicts of
	// upstream.AddressToUpstream on every token seen
	flt    *filtering.DNSFilter
	fconf  *filtering.Config
	gb0    string
	now    time.Time
	addrs  map[string]bool
	aprev  string
	nRetry int

	// same-network spellings of the universe, addresses inside those networks,
	// the networks two clients held after the previous step, what was seen
	ncIDs    []string
	ncInside []netip.Addr
	shared   map[netip.Prefix]bool
	notes    []string

	// round 4: an address inside every CIDR of the universe (whatever was ever
	// stored is among them), looked up after every step
	inside  []netip.Addr
	dupLast map[netip.Prefix]bool

	also     []string
	alsoSeen map[string]bool
}

func c04NewHist(t *testing.T, r *vfRand, ids []string) *c04Hist {
	c04SchedOf = map[*schedule.Weekly]*c04Sched{}
	d := &c04DHCP{tbl: map[netip.Addr]net.HardwareAddr{}}
	// round 4: whether DHCP leases are shown as RUNTIME clients (home's
	// clients.runtime_sources.dhcp) has no say in matching persistent clients
	rtDHCP := r.Fork(78).Bool()
	s, err := NewStorage(context.Background(), &StorageConfig{
		Logger:            slogutil.NewDiscardLogger(),
		Clock:             timeutil.SystemClock{},
		DHCP:              d,
		RuntimeSourceDHCP: rtDHCP,
	})
	if err != nil {
		t.Fatal(err)
	}
	h := &c04Hist{t: t, r: r, s: s, dhcp: d, uids: &c04UIDs{m: map[UID]uint64{}}, ref: &c04Ref{byName: map[string]*Persistent{}},
		ids: ids, cls: map[string]bool{}, nOK: map[string]int{}, moved: map[string]uint64{}, addrs: map[string]bool{},
		now: time.Now(), dupLast: map[netip.Prefix]bool{}}
	if rtDHCP {
		h.cls["storage-runtime-dhcp-on"] = true
	} else {
		h.cls["storage-runtime-dhcp-off"] = true
	}
	h.fconf = &filtering.Config{
		DataDir:              c04DataDir,
		ApplyClientFiltering: s.ApplyClientFiltering,
		BlockedServices:      c04RandBlocked(r.Fork(77), h.now, true),
	}
	h.gb0 = c04BlockedVal(h.fconf.BlockedServices)
	h.flt, err = filtering.New(h.fconf, nil)
	if err != nil {
		t.Fatal(err)
	}
	spell := append([]string{}, ids...)
	for _, e := range c04Extra {
		if r.Chance(2, 3) {
			spell = append(spell, e)
		}
	}
	for _, id := range ids {
		if id == "fe80::/64" || strings.Contains(id, "%") {
			for _, z := range c04ZoneIPs {
				if !slices.Contains(spell, z) {
					spell = append(spell, z)
				}
			}
			break
		}
	}
	ncIn, ncSp := c04NCInside(ids)
	h.ncIDs = ncSp
	for _, in := range ncIn {
		if !slices.Contains(spell, in) {
			spell = append(spell, in)
		}
		h.ncInside = append(h.ncInside, netip.MustParseAddr(in))
	}
	h.shared = map[netip.Prefix]bool{}
	for _, id := range ids {
		if pref, perr := netip.ParsePrefix(id); perr == nil {
			in := c04Inside(pref)
			h.inside = append(h.inside, in)
			if !slices.Contains(spell, in.String()) {
				spell = append(spell, in.String())
			}
		}
	}
	for _, sp := range spell {
		if strings.Contains(sp, "/") {
			continue
		}
		pr := c04Probe{raw: sp}
		if a, perr := netip.ParseAddr(sp); perr == nil {
			pr.ip, pr.ipOK = a, true
		}
		if m, perr := net.ParseMAC(sp); perr == nil {
			pr.mac, pr.macOK = m, true
		}
		h.probes = append(h.probes, pr)
	}
	// (ClientID, address) pairs
	var addrs []netip.Addr
	for _, pr := range h.probes {
		if pr.ipOK {
			addrs = append(addrs, pr.ip)
		}
	}
	addrs = append(addrs, netip.Addr{}, netip.MustParseAddr("10.1.2.200"), netip.MustParseAddr("2001:db8:1::77"))
	var cids []string
	for _, id := range ids {
		if _, perr := netip.ParseAddr(id); perr != nil && !strings.ContainsAny(id, ":-/.") {
			cids = append(cids, strings.ToLower(id))
		}
	}
	cids = append(cids, "", "", "", "other")
	for i := 0; i < 7; i++ {
		h.pairs = append(h.pairs, c04Pair{cid: vfPick(r, cids), a: vfPick(r, addrs)})
	}
	// a universe with same-network spellings: two of the pairs are requests
	// from inside such a network without a ClientID
	if len(h.ncInside) > 0 && len(ncSp) > 1 {
		h.pairs[5] = c04Pair{cid: "", a: vfPick(r, h.ncInside)}
		h.pairs[6] = c04Pair{cid: vfPick(r, cids), a: vfPick(r, h.ncInside)}
	}
	h.glob = filtering.Settings{FilteringEnabled: r.Bool(), SafeSearchEnabled: r.Bool(), SafeBrowsingEnabled: r.Bool(),
		ParentalEnabled: r.Bool()}
	if r.Bool() {
		h.glob.BlockedServices = &filtering.BlockedServices{IDs: []string{"g1"}}
	}
	h.prev = h.observe()
	return h
}

var c04DataDir string

// c04Inside gives an address inside the prefix: the first one after the
// network address (the address itself for a full-length prefix).
func c04Inside(p netip.Prefix) netip.Addr {
	a := p.Masked().Addr()
	if p.Bits() < a.BitLen() {
		a = a.Next()
	}
	return a
}

// observeAAF runs DNSFilter.ApplyAdditionalFiltering (the storage behind it)
// for every (ClientID, address) pair on fresh settings, at one instant: it is
// repeated when a schedule in play or a zone offset changed while it ran.
func (h *c04Hist) observeAAF() string {
	for try := 0; ; try++ {
		t0 := time.Now()
		res := make([]string, len(h.pairs))
		got := make([]*filtering.Settings, len(h.pairs))
		for i, q := range h.pairs {
			got[i] = h.applyAAF(q)
			if got[i] == nil {
				res[i] = vfOpt("settings", false, "")
			} else {
				res[i] = vfOpt("settings", true, c04Settings(got[i]))
			}
		}
		t1 := time.Now()
		stable := true
		for w := range c04SchedOf {
			if w.Contains(t0) != w.Contains(t1) {
				stable = false
			}
		}
		offs := make([]string, len(c04Zones))
		for i, z := range c04Zones {
			_, o0 := t0.In(z.loc).Zone()
			_, o1 := t1.In(z.loc).Zone()
			if o0 != o1 {
				stable = false
			}
			offs[i] = vfZ(int64(o0))
		}
		if !stable && try < 5 {
			h.nRetry++
			continue
		}
		if stable {
			h.monitorAAF(t0, got)
		}
		return "(" + vfZ(t0.UnixNano()) + ", " + vfList("Z", offs) + ", " + vfList("option settings", res) + ")"
	}
}

func (h *c04Hist) applyAAF(q c04Pair) (setts *filtering.Settings) {
	defer func() {
		if rec := recover(); rec != nil {
			setts = nil
		}
	}()
	g := h.glob
	g.BlockedServices = nil
	h.flt.ApplyAdditionalFiltering(q.a, q.cid, &g)
	return &g
}

// monitorAAF states clause "own blocked services are applied exactly when the
// client opts out of the global ones" on the effective service rules: a
// client with UseOwnBlockedServices gets its own list unless its OWN schedule
// pauses at the instant, and never the global list; everybody else gets the
// global list unless the global schedule pauses.
func (h *c04Hist) monitorAAF(t0 time.Time, got []*filtering.Settings) {
	known := c04Known()
	eff := func(b *filtering.BlockedServices) (names []string) {
		if b.Schedule.Contains(t0) {
			return nil
		}
		for _, id := range b.IDs {
			if slices.Contains(known, id) {
				names = append(names, id)
			}
		}
		return names
	}
	for i, q := range h.pairs {
		if got[i] == nil {
			h.fail("aaf-panic", fmt.Sprintf("ApplyAdditionalFiltering(%v, %q) panicked", q.a, q.cid))
			continue
		}
		wantP, _ := h.ref.resolve(q.cid, q.a, h.dhcp, nil)
		src, cl := h.fconf.BlockedServices, "services-global"
		if wantP != nil && wantP.UseOwnBlockedServices && wantP.BlockedServices != nil {
			src, cl = wantP.BlockedServices, "services-own"
		}
		want := eff(src)
		if src.Schedule.Contains(t0) {
			cl += "-paused"
		}
		h.cls[cl] = true
		if cl == "services-own-paused" && len(eff(h.fconf.BlockedServices)) > 0 {
			h.cls["services-own-paused-global-active"] = true
		}
		var names []string
		for _, e := range got[i].ServicesRules {
			names = append(names, e.Name)
		}
		if !slices.Equal(names, want) {
			h.fail("effective-services", fmt.Sprintf("ApplyAdditionalFiltering(%v, %q): service rules %v, expected %v (%s; client %v)",
				q.a, q.cid, names, want, cl, wantP != nil))
		}
		if wantP != nil {
			wt := slices.Clone(wantP.Tags)
			sort.Strings(wt)
			if !slices.Equal(got[i].ClientTags, wt) && (len(wt) > 0 || len(got[i].ClientTags) > 0) {
				h.fail("client-tags", fmt.Sprintf("ApplyAdditionalFiltering(%v, %q): tags %v, the client's are %v", q.a, q.cid, got[i].ClientTags, wt))
			}
		}
	}
}

func (h *c04Hist) fail(key, msg string) {
	if h.monMsg == "" {
		h.monMsg, h.monKey, h.monAt = msg, key, len(h.desc)
		h.alsoSeen = map[string]bool{key: true}
		return
	}
	// the first failure is the verdict; the first message of up to five OTHER
	// failure kinds later in the same history goes into the case description
	if !h.alsoSeen[key] && len(h.also) < 5 {
		h.alsoSeen[key] = true
		h.also = append(h.also, fmt.Sprintf("[%s, step %d] %s", key, len(h.desc), msg))
	}
}

// observe runs all probes on the real storage and renders the observation
// (without the error class) as Gallina.
func (h *c04Hist) safeFind(raw string) (p *Persistent, ok bool) {
	defer func() {
		if rec := recover(); rec != nil {
			h.fail("find-panic", fmt.Sprintf("Find(%q) panicked: %v", raw, rec))
			p, ok = nil, false
		}
	}()
	return h.s.Find(raw)
}

func (h *c04Hist) safeFindByName(n string) (p *Persistent, ok bool) {
	defer func() {
		if rec := recover(); rec != nil {
			h.fail("findbyname-panic", fmt.Sprintf("FindByName(%q) panicked: %v", n, rec))
			p, ok = nil, false
		}
	}()
	return h.s.FindByName(n)
}

func (h *c04Hist) safeRange(f func(c *Persistent) bool) {
	defer func() {
		if rec := recover(); rec != nil {
			h.fail("range-panic", fmt.Sprintf("RangeByName panicked: %v", rec))
		}
	}()
	h.s.RangeByName(f)
}

func (h *c04Hist) observe() string {
	finds := make([]string, len(h.probes))
	for i, pr := range h.probes {
		p, ok := h.safeFind(pr.raw)
		if ok && p != nil {
			finds[i] = vfOpt("N", true, vfN(h.uids.num(p.UID)))
		} else {
			finds[i] = vfOpt("N", false, "")
		}
	}
	names := make([]string, len(c04Names))
	for i, n := range c04Names {
		p, ok := h.safeFindByName(n)
		if ok && p != nil {
			names[i] = vfOpt("N * N", true, vfPair(vfN(h.uids.num(p.UID)), vfN(uint64(p.IDsLen()))))
		} else {
			names[i] = vfOpt("N * N", false, "")
		}
	}
	var rng []string
	h.safeRange(func(c *Persistent) bool { rng = append(rng, vfBytes(c.Name)); return true })
	acfs := make([]string, len(h.pairs))
	for i, q := range h.pairs {
		setts := h.applyACF(q)
		if setts == nil {
			acfs[i] = vfOpt("settings", false, "")
		} else {
			acfs[i] = vfOpt("settings", true, c04Settings(setts))
		}
	}
	return vfList("option N", finds) + ", " + vfList("option (N * N)", names) + ", " + vfList("bytes", rng) + ", " +
		vfList("option settings", acfs)
}

func (h *c04Hist) applyACF(q c04Pair) (setts *filtering.Settings) {
	defer func() {
		if rec := recover(); rec != nil {
			setts = nil
		}
	}()
	g := h.glob
	g.BlockedServices = h.glob.BlockedServices.Clone()
	h.s.ApplyClientFiltering(q.cid, q.a, &g)
	return &g
}

// monitor states the property on the real storage, against the reference map.
// A panic of the registry while it is examined (an index left inconsistent by
// an earlier operation) is a failure of this history, not of the test run.
func (h *c04Hist) monitor(opDesc string, errClass int) {
	defer func() {
		if rec := recover(); rec != nil {
			h.fail("registry-panic", fmt.Sprintf("after %s the registry panicked while being examined: %v", opDesc, rec))
		}
	}()
	h.monitorState(opDesc, errClass)
	h.monitorCIDR(opDesc)
	h.monitorInside(opDesc)
	// a CIDR that was listed twice and sorted last when added is gone again
	stored := map[netip.Prefix]bool{}
	for _, n := range h.ref.nets() {
		stored[n.s] = true
	}
	for s := range h.dupLast {
		if !stored[s] {
			h.cls["dup-subnet-gone"] = true
		}
	}
}

type c04Net struct {
	owner string
	s     netip.Prefix
}

// nets lists every stored subnet with its owner, in a fixed order.
func (r *c04Ref) nets() (res []c04Net) {
	for n, p := range r.byName {
		for _, s := range p.Subnets {
			res = append(res, c04Net{n, s})
		}
	}
	sort.Slice(res, func(i, j int) bool {
		if res[i].owner != res[j].owner {
			return res[i].owner < res[j].owner
		}
		return res[i].s.String() < res[j].s.String()
	})
	return res
}

// monitorCIDR: CIDR identifiers as the registry treats them (the exact
// spelling, host bits included, is the identifier; matching masks).
//
//   - Whatever the spellings, an address without a ClientID / exact-address
//     owner that lies inside a stored CIDR resolves to SOME client that lists a
//     containing CIDR of the greatest stored length (no reference to the order
//     among equally long ones), for Find and ApplyClientFiltering.
//   - Branch classes: a stored prefix with host bits; two clients holding
//     spellings of one network; one of them gone (removed / updated away) while
//     the other still lists its spelling.
//   - Observation kept in the case description: two clients own the same
//     network under different spellings (accepted by the exact-prefix clash
//     check), and who answers for an address inside.
func (h *c04Hist) monitorCIDR(opDesc string) {
	nets := h.ref.nets()
	byNet := map[netip.Prefix]map[string]bool{}
	for _, n := range nets {
		if n.s != n.s.Masked() {
			h.cls["cidr-noncanonical"] = true
		}
		m := n.s.Masked()
		if byNet[m] == nil {
			byNet[m] = map[string]bool{}
		}
		byNet[m][n.owner] = true
	}
	now := map[netip.Prefix]bool{}
	for _, n := range nets {
		m := n.s.Masked()
		if len(byNet[m]) > 1 && !now[m] {
			now[m] = true
			h.cls["cidr-same-network-two-clients"] = true
			if !h.shared[m] && len(h.notes) < 6 {
				var sp []string
				for _, o := range nets {
					if o.s.Masked() == m {
						sp = append(sp, o.owner+":"+o.s.String())
					}
				}
				who := ""
				for _, in := range h.ncInside {
					if m.Contains(in) {
						got, ok := h.safeFind(in.String())
						who = fmt.Sprintf("; Find(%v) -> %q", in, "")
						if ok && got != nil {
							who = fmt.Sprintf("; Find(%v) -> %q", in, got.Name)
						}
						break
					}
				}
				h.notes = append(h.notes, fmt.Sprintf("after %s network %v is owned by %v%s", opDesc, m, sp, who))
			}
		}
	}
	for m := range h.shared {
		if !now[m] && len(byNet[m]) == 1 {
			h.cls["cidr-same-network-after-remove"] = true
		}
	}
	h.shared = now

	live := func(what string, a netip.Addr, got string) {
		if !a.IsValid() {
			return
		}
		a0, best := a.WithZone(""), -1
		var bestS netip.Prefix
		for _, n := range nets {
			if n.s.Contains(a0) && n.s.Bits() > best {
				best, bestS = n.s.Bits(), n.s
			}
		}
		if best < 0 {
			return
		}
		if got == "" {
			h.fail("cidr-not-resolved", fmt.Sprintf("after %s %s resolves to nobody although the stored CIDR %v contains the address", opDesc, what, bestS))
			return
		}
		c := h.ref.byName[got]
		if c == nil {
			h.fail("cidr-resolved-to-stranger", fmt.Sprintf("after %s %s resolves to %q, which is not a current client", opDesc, what, got))
			return
		}
		for _, s := range c.Subnets {
			if s.Contains(a0) && s.Bits() == best {
				return
			}
		}
		h.fail("cidr-not-most-specific", fmt.Sprintf("after %s %s resolves to %q, which lists no containing CIDR of length %d (%v is stored)", opDesc, what, got, best, bestS))
	}
	for _, pr := range h.probes {
		if !pr.ipOK || h.ref.owner("ip:"+pr.ip.String()) != nil {
			continue
		}
		got, ok := h.safeFind(pr.raw)
		gn := ""
		if ok && got != nil {
			gn = got.Name
		}
		live(fmt.Sprintf("Find(%q)", pr.raw), pr.ip, gn)
	}
	for _, q := range h.pairs {
		if !q.a.IsValid() || h.ref.owner("ip:"+q.a.String()) != nil || (q.cid != "" && h.ref.owner("cid:"+q.cid) != nil) {
			continue
		}
		if g := h.applyACF(q); g != nil {
			live(fmt.Sprintf("ApplyClientFiltering(%q, %v)", q.cid, q.a), q.a, g.ClientName)
		}
	}
}

func (h *c04Hist) monitorState(opDesc string, errClass int) {
	obs := h.observe()
	if errClass != 0 && obs != h.prev {
		h.fail("failed-op-changed-state", fmt.Sprintf("after rejected %s the registry answers differently", opDesc))
	}
	h.prev = obs
	// no two clients share an identifier
	seen := map[string]string{}
	for n, p := range h.ref.byName {
		for _, k := range c04Keys(p) {
			if o, dup := seen[k]; dup && o != n {
				h.fail("shared-identifier-accepted", fmt.Sprintf("after %s clients %q and %q share %s", opDesc, o, n, k))
			}
			seen[k] = n
		}
	}
	ix := h.s.index
	nameOf := func(uid UID, ok bool) string {
		if !ok {
			return ""
		}
		c := ix.uidToClient[uid]
		if c == nil {
			return "<dangling>"
		}
		return c.Name
	}
	want := func(key string) string {
		if p := h.ref.owner(key); p != nil {
			return p.Name
		}
		return ""
	}
	// every identifier of the universe resolves to its current owner or to none
	for _, id := range h.ids {
		var got, key string
		if pref, err := netip.ParsePrefix(id); err == nil {
			uid, ok := ix.subnetToUID.Get(pref)
			got, key = nameOf(uid, ok), "net:"+pref.String()
			// the key slice and the value map of the sorted map agree
			inKeys := false
			ix.subnetToUID.Range(func(p netip.Prefix, _ UID) bool {
				if p == pref {
					inKeys = true
				}
				return true
			})
			if inKeys != ok {
				h.fail("subnet-keys-diverge", fmt.Sprintf("after %s subnet %s: in key slice %v, in map %v", opDesc, id, inKeys, ok))
			}
		} else if a, err := netip.ParseAddr(id); err == nil {
			uid, ok := ix.ipToUID[a]
			got, key = nameOf(uid, ok), "ip:"+a.String()
		} else if m, err := net.ParseMAC(id); err == nil {
			uid, ok := ix.macToUID[macToKey(m)]
			got, key = nameOf(uid, ok), "mac:"+fmt.Sprintf("%x", []byte(m))
		} else {
			uid, ok := ix.clientIDToUID[strings.ToLower(id)]
			got, key = nameOf(uid, ok), "cid:"+strings.ToLower(id)
		}
		if w := want(key); got != w {
			h.fail("identifier-resolves-wrong", fmt.Sprintf("after %s identifier %s resolves to %q, owner is %q", opDesc, key, got, w))
		}
	}
	// no map has an entry the reference does not know
	nEntries := len(ix.clientIDToUID) + len(ix.ipToUID) + len(ix.macToUID)
	ix.subnetToUID.Range(func(netip.Prefix, UID) bool { nEntries++; return true })
	if nEntries != len(seen) || len(ix.nameToUID) != len(h.ref.byName) || len(ix.uidToClient) != len(h.ref.byName) {
		h.fail("stale-or-missing-entries", fmt.Sprintf("after %s the index holds %d identifier entries, %d names, %d records; clients list %d identifiers, %d clients",
			opDesc, nEntries, len(ix.nameToUID), len(ix.uidToClient), len(seen), len(h.ref.byName)))
	}
	// names; RangeByName lists exactly the current clients, sorted, with their identifiers
	var wantNames []string
	for n := range h.ref.byName {
		wantNames = append(wantNames, n)
	}
	sort.Strings(wantNames)
	var gotNames []string
	h.safeRange(func(c *Persistent) bool {
		gotNames = append(gotNames, c.Name)
		if rp := h.ref.byName[c.Name]; rp != nil {
			a, b := c04Keys(c), c04Keys(rp)
			sort.Strings(a)
			sort.Strings(b)
			if strings.Join(a, ",") != strings.Join(b, ",") {
				h.fail("record-differs", fmt.Sprintf("after %s client %q lists %v, expected %v", opDesc, c.Name, a, b))
			}
		}
		return true
	})
	if strings.Join(wantNames, ",") != strings.Join(gotNames, ",") {
		h.fail("range-differs", fmt.Sprintf("after %s RangeByName gives %v, clients are %v", opDesc, gotNames, wantNames))
	}
	for _, n := range c04Names {
		p, ok := h.safeFindByName(n)
		if (h.ref.byName[n] != nil) != ok || (ok && p.Name != n) {
			h.fail("name-resolves-wrong", fmt.Sprintf("after %s FindByName(%q) found=%v", opDesc, n, ok))
		}
	}
	// Find on address spellings follows exact > most specific CIDR > lease MAC
	for _, pr := range h.probes {
		if !pr.ipOK {
			continue
		}
		var spell net.HardwareAddr
		if pr.macOK {
			spell = pr.mac
		}
		wantP, how := h.ref.resolve("", pr.ip, h.dhcp, spell)
		got, ok := h.safeFind(pr.raw)
		gn, wn := "", ""
		if ok {
			gn = got.Name
		}
		if wantP != nil {
			wn = wantP.Name
			h.cls["find-"+how] = true
		}
		if gn != wn {
			h.fail("find-precedence", fmt.Sprintf("after %s Find(%q) gives %q, by precedence (%s) %q", opDesc, pr.raw, gn, how, wn))
		}
	}
	// ApplyClientFiltering: precedence and settings
	for _, q := range h.pairs {
		wantP, how := h.ref.resolve(q.cid, q.a, h.dhcp, nil)
		h.cls["acf-"+how] = true
		g := h.applyACF(q)
		if g == nil {
			h.fail("acf-panic", fmt.Sprintf("after %s ApplyClientFiltering(%q, %v) panicked", opDesc, q.cid, q.a))
			continue
		}
		exp := h.glob
		if wantP != nil {
			exp.ClientName = wantP.Name
			if wantP.UseOwnSettings {
				h.cls["own-settings"] = true
				exp.FilteringEnabled, exp.SafeSearchEnabled = wantP.FilteringEnabled, wantP.SafeSearchConf.Enabled
				exp.SafeBrowsingEnabled, exp.ParentalEnabled = wantP.SafeBrowsingEnabled, wantP.ParentalEnabled
			} else {
				h.cls["global-settings"] = true
			}
			if wantP.UseOwnBlockedServices {
				h.cls["own-blocked"] = true
				exp.BlockedServices = wantP.BlockedServices
			}
			exp.ClientTags = wantP.Tags
		}
		if c04Settings(g) != c04Settings(&exp) {
			h.fail("acf-settings", fmt.Sprintf("after %s ApplyClientFiltering(%q, %v): got %s, by precedence (%s) expected %s",
				opDesc, q.cid, q.a, c04Settings(g), how, c04Settings(&exp)))
		}
	}
}

// monitorInside (round 4): after every step, a request from inside every CIDR
// of the universe (so from inside every CIDR that was EVER stored, its owner
// removed or updated away since, or not), without a ClientID and with one no
// client has registered, resolves to the current owner by precedence or to
// nobody, through ApplyClientFiltering, Find and FindByClientIDOrIP, and none
// of them panics.
func (h *c04Hist) monitorInside(opDesc string) {
	for _, a := range h.inside {
		for _, cid := range []string{"", "unregistered"} {
			wantP, how := h.ref.resolve(cid, a, h.dhcp, nil)
			wn := ""
			if wantP != nil {
				wn = wantP.Name
			}
			g := h.applyACF(c04Pair{cid: cid, a: a})
			if g == nil {
				h.fail("acf-panic", fmt.Sprintf("after %s ApplyClientFiltering(%q, %v) panicked (an address inside a CIDR of the history)", opDesc, cid, a))
			} else if g.ClientName != wn {
				h.fail("acf-inside-cidr", fmt.Sprintf("after %s ApplyClientFiltering(%q, %v) attributes the request to %q, by precedence (%s) it is %q", opDesc, cid, a, g.ClientName, how, wn))
			}
		}
		wantP, how := h.ref.resolve("", a, h.dhcp, nil)
		wn := ""
		if wantP != nil {
			wn = wantP.Name
		}
		for _, what := range []string{"Find", "FindByClientIDOrIP"} {
			gn, panicked := "", false
			func() {
				defer func() {
					if rec := recover(); rec != nil {
						panicked = true
					}
				}()
				var p *Persistent
				var ok bool
				if what == "Find" {
					p, ok = h.s.Find(a.String())
				} else {
					p, ok = h.s.FindByClientIDOrIP(a.String())
				}
				if ok && p != nil {
					gn = p.Name
				} else if ok {
					gn = "<nil client, found=true>"
				}
			}()
			if panicked {
				h.fail("find-panic", fmt.Sprintf("after %s %s(%q) panicked (an address inside a CIDR of the history)", opDesc, what, a))
			} else if gn != wn {
				h.fail("find-inside-cidr", fmt.Sprintf("after %s %s(%q) gives %q, by precedence (%s) it is %q", opDesc, what, a, gn, how, wn))
			}
		}
	}
}

// noteDuplicates (round 4): classes of an ACCEPTED record that lists an
// identifier twice (SetIDs keeps both, the registry accepts it), and of a
// duplicate CIDR that sorts after every CIDR stored at that moment.
func (h *c04Hist) noteDuplicates(p *Persistent, others []c04Net) {
	for i := 1; i < len(p.ClientIDs); i++ {
		if p.ClientIDs[i] == p.ClientIDs[i-1] {
			h.cls["dup-id-cid"] = true
		}
	}
	for i := 1; i < len(p.IPs); i++ {
		if p.IPs[i] == p.IPs[i-1] {
			h.cls["dup-id-ip"] = true
		}
	}
	for i := 1; i < len(p.MACs); i++ {
		if slices.Equal(p.MACs[i], p.MACs[i-1]) {
			h.cls["dup-id-mac"] = true
		}
	}
	for i := 1; i < len(p.Subnets); i++ {
		if p.Subnets[i] != p.Subnets[i-1] {
			continue
		}
		h.cls["dup-id-subnet"] = true
		last := true
		for _, o := range others {
			if o.owner != p.Name && subnetCompare(o.s, p.Subnets[i]) >= 0 {
				last = false
			}
		}
		if last {
			h.cls["dup-subnet-sorts-last"] = true
			h.dupLast[p.Subnets[i]] = true
		}
	}
}

func (h *c04Hist) record(coqOp, desc string, errClass int) {
	h.cls["err-"+c04ErrNames[errClass]] = true
	h.monitor(desc, errClass)
	h.aprev = h.observeAAF()
	h.steps = append(h.steps, "("+coqOp+", ("+vfN(uint64(errClass))+", "+h.prev+"), "+h.aprev+")")
	h.desc = append(h.desc, fmt.Sprintf("%s -> %s", desc, c04ErrNames[errClass]))
}

func c04Clone(p *Persistent) *Persistent { return p.ShallowClone() }

func (h *c04Hist) noteOwned(p *Persistent) {
	for _, k := range c04Keys(p) {
		u := h.uids.num(p.UID)
		if prev, ok := h.moved[k]; ok && prev != u {
			h.cls["id-move"] = true
		}
		h.moved[k] = u
	}
}

func (h *c04Hist) add(p *Persistent) {
	coq := vfApp("HOp", vfApp("OAdd", c04Client(h.uids, p)))
	desc := fmt.Sprintf("add %s %v tags=%q ups=%q", p.Name, p.IDs(), p.Tags, p.Upstreams)
	h.noteTokens(p)
	before := h.ref.nets()
	err, panicked := h.guard(func() error { return h.s.Add(context.Background(), p) })
	if panicked {
		h.unexplainedPanic(desc, p)
		h.record(coq, desc, 11)
		return
	}
	h.checkAccepted("add", p, err)
	if err == nil {
		h.ref.byName[p.Name] = c04Clone(p)
		h.nOK["add"]++
		h.noteOwned(p)
		h.noteDuplicates(p, before)
	}
	h.record(coq, desc, c04ErrClass(err))
}

func (h *c04Hist) update(name string, p *Persistent) {
	coq := vfApp("HOp", vfApp("OUpdate", vfBytes(name), c04Client(h.uids, p)))
	desc := fmt.Sprintf("update %s := %s %v tags=%q ups=%q", name, p.Name, p.IDs(), p.Tags, p.Upstreams)
	old := h.ref.byName[name]
	h.noteTokens(p)
	var before []c04Net
	for _, n := range h.ref.nets() {
		if n.owner != name {
			before = append(before, n)
		}
	}
	err, panicked := h.guard(func() error { return h.s.Update(context.Background(), name, p) })
	if panicked {
		h.unexplainedPanic(desc, p)
		h.record(coq, desc, 11)
		return
	}
	h.checkAccepted("update", p, err)
	if err == nil {
		if old != nil {
			if old.Name != p.Name {
				h.cls["rename"] = true
			}
			if old.EqualIDs(p) {
				h.cls["update-same-ids"] = true
			} else {
				h.cls["update-change-ids"] = true
			}
		}
		delete(h.ref.byName, name)
		h.ref.byName[p.Name] = c04Clone(p)
		h.nOK["update"]++
		h.noteOwned(p)
		h.noteDuplicates(p, before)
	}
	h.record(coq, desc, c04ErrClass(err))
}

// unexplainedPanic: the only panic of add / update that is an observation and
// not a failure is dnsproxy's on a domain specification line (err-panic); a
// record without such a line must not make the registry panic.
func (h *c04Hist) unexplainedPanic(desc string, p *Persistent) {
	for _, l := range p.Upstreams {
		if strings.HasPrefix(l, "[/") {
			return
		}
	}
	h.fail("op-panic", fmt.Sprintf("%s panicked", desc))
}

func (h *c04Hist) guard(f func() error) (err error, panicked bool) {
	defer func() {
		if rec := recover(); rec != nil {
			err, panicked = nil, true
		}
	}()
	return f(), false
}

func (h *c04Hist) noteTokens(p *Persistent) {
	for _, l := range p.Upstreams {
		for _, tok := range c04Tokens(l) {
			if _, seen := h.addrs[tok]; !seen {
				h.addrs[tok] = c04AddrOK(tok)
			}
		}
	}
}

// checkAccepted: an accepted record carries only allowed tags and well-formed
// upstream lines; a record with a foreign tag or a malformed line is refused.
func (h *c04Hist) checkAccepted(what string, p *Persistent, err error) {
	badTag, badLine := "", ""
	hasBadTag, hasBadLine := false, false
	for _, t := range p.Tags {
		if !slices.Contains(allowedTags, t) {
			badTag, hasBadTag = t, true
		}
	}
	for _, l := range p.Upstreams {
		if !c04LineOK(l) {
			badLine, hasBadLine = l, true
		}
	}
	if len(p.Tags) > 0 {
		h.cls["with-tags"] = true
	}
	if len(p.Upstreams) > 0 {
		h.cls["with-upstreams"] = true
	}
	if err == nil && hasBadTag {
		h.fail("tag-accepted", fmt.Sprintf("%s %s accepted with tag %q outside the allowed list", what, p.Name, badTag))
	}
	if err == nil && hasBadLine {
		h.fail("upstream-accepted", fmt.Sprintf("%s %s accepted with malformed upstream line %q", what, p.Name, badLine))
	}
	if err == nil && !slices.IsSorted(p.Tags) {
		h.fail("tags-unsorted", fmt.Sprintf("%s %s accepted, tags left unsorted: %q", what, p.Name, p.Tags))
	}
	if ec := c04ErrClass(err); (ec == 9 && !hasBadLine) || (ec == 10 && !hasBadTag) {
		h.fail("valid-record-refused", fmt.Sprintf("%s %s refused (%v) although tags %q and upstreams %q are well-formed", what, p.Name, err, p.Tags, p.Upstreams))
	}
}

func (h *c04Hist) setGlobal(b *filtering.BlockedServices) {
	h.fconf.BlockedServices = b
	h.prev = h.observe()
	h.record(vfApp("HGlobal", c04BlockedVal(b)), fmt.Sprintf("global blocked services %v (%s)", b.IDs, c04SchedOf[b.Schedule].kind), 0)
}

func (h *c04Hist) remove(name string) {
	coq := vfApp("HOp", vfApp("ORemove", vfBytes(name)))
	ok := false
	_, panicked := h.guard(func() error { ok = h.s.RemoveByName(context.Background(), name); return nil })
	if panicked {
		h.fail("remove-panic", fmt.Sprintf("remove %s panicked", name))
		h.record(coq, "remove "+name, 11)
		return
	}
	ec := 0
	if !ok {
		ec = 8
	} else {
		delete(h.ref.byName, name)
		h.nOK["remove"]++
	}
	h.record(coq, "remove "+name, ec)
}

func (h *c04Hist) setDHCP(tbl map[netip.Addr]net.HardwareAddr) {
	h.dhcp.tbl = tbl
	keys := make([]netip.Addr, 0, len(tbl))
	for a := range tbl {
		keys = append(keys, a)
	}
	sort.Slice(keys, func(i, j int) bool { return keys[i].Compare(keys[j]) < 0 })
	items := make([]string, len(keys))
	var d []string
	for i, a := range keys {
		items[i] = vfPair(c04Addr(a), vfBytes(string(tbl[a])))
		d = append(d, a.String()+"="+tbl[a].String())
	}
	h.prev = h.observe()
	h.record(vfApp("HDhcp", vfList("(bytes * bytes) * bytes", items)), "dhcp "+strings.Join(d, " "), 0)
}

// mk builds a client the way home does (SetIDs on strings).
func c04Mk(name string, ids []string, r *vfRand) *Persistent {
	p := &Persistent{Name: name, UID: MustNewUID()}
	_ = p.SetIDs(ids)
	if r != nil {
		p.UseOwnSettings, p.FilteringEnabled, p.SafeBrowsingEnabled = r.Bool(), r.Bool(), r.Bool()
		p.ParentalEnabled, p.SafeSearchConf.Enabled = r.Bool(), r.Bool()
		p.UseOwnBlockedServices = r.Bool()
		switch r.Intn(4) {
		case 0:
			p.BlockedServices = &filtering.BlockedServices{Schedule: c04Reg(c04MkSched(0, [7][2]int{}, "never"))}
		case 1, 2:
			p.BlockedServices = c04RandBlocked(r, time.Now(), false)
		}
		p.IgnoreQueryLog, p.IgnoreStatistics = r.Bool(), r.Bool()
		if r.Chance(1, 2) {
			for i := r.Intn(3); i >= 0; i-- {
				p.Tags = append(p.Tags, vfPick(r, allowedTags))
			}
			if r.Chance(1, 8) {
				p.Tags = append(p.Tags, vfPick(r, c04BadTags))
				vfShuffle(r, p.Tags)
			}
		}
		if r.Chance(1, 2) {
			good := c04UpLines[:14]
			for i := r.Intn(3); i >= 0; i-- {
				p.Upstreams = append(p.Upstreams, vfPick(r, good))
			}
			if r.Chance(1, 5) {
				p.Upstreams = append(p.Upstreams, vfPick(r, c04UpLines))
				vfShuffle(r, p.Upstreams)
			}
		}
	}
	return p
}

func (h *c04Hist) emit(out *vfOut, tag string) {
	finds := make([]string, len(h.probes))
	for i, pr := range h.probes {
		finds[i] = "(" + vfBytes(pr.raw) + ", " + vfOpt("bytes * bytes", pr.ipOK, c04Addr(pr.ip)) + ", " +
			vfOpt("bytes", pr.macOK, vfBytes(string(pr.mac))) + ")"
	}
	names := make([]string, len(c04Names))
	for i, n := range c04Names {
		names[i] = vfBytes(n)
	}
	pairs := make([]string, len(h.pairs))
	for i, q := range h.pairs {
		pairs[i] = vfPair(vfBytes(q.cid), c04Addr(q.a))
	}
	toks := make([]string, 0, len(h.addrs))
	for tok := range h.addrs {
		toks = append(toks, tok)
	}
	sort.Strings(toks)
	tokItems := make([]string, len(toks))
	for i, tok := range toks {
		tokItems[i] = vfPair(vfBytes(tok), vfBool(h.addrs[tok]))
	}
	g2 := h.glob
	g2.BlockedServices = nil
	env := vfApp("mkenv", c04Strs(h.s.allowedTags), vfList("bytes * bool", tokItems), c04Strs(c04Known()), c04Settings(&g2))
	coq := vfApp("CHist", vfList("bytes * option (bytes * bytes) * option bytes", finds), vfList("bytes", names),
		vfList("bytes * (bytes * bytes)", pairs), c04SettingsIn(&h.glob), env, h.gb0, vfList("hstep * obs * aobs", h.steps))
	if h.nRetry > 0 {
		h.cls["aaf-observation-repeated"] = true
	}
	var classes []string
	for c := range h.cls {
		classes = append(classes, c)
	}
	sort.Strings(classes)
	nFail := 0
	for c := range h.cls {
		if strings.HasPrefix(c, "err-") && c != "err-ok" {
			nFail++
		}
	}
	desc := map[string]any{"kind": tag, "ops": h.desc}
	if len(h.notes) > 0 {
		desc["same_network_two_clients"] = h.notes
	}
	if len(h.also) > 0 {
		desc["later_failures"] = h.also
	}
	c := vfCase{Coq: coq, Classes: classes, MonitorOK: h.monMsg == "", MonitorMsg: h.monMsg,
		Nontrivial: nFail > 0 && h.nOK["update"]+h.nOK["remove"] > 0,
		Desc:       desc}
	if h.monMsg != "" {
		c.FindingKey = "C04-" + h.monKey
		hist := strings.Join(h.desc[:min(h.monAt+1, len(h.desc))], "; ")
		if len(hist) > 1200 {
			hist = hist[:1200] + " ..."
		}
		c.MonitorMsg += " || history (" + tag + "): " + hist
	}
	out.Emit(c)
}

// randClient draws a client record over the history's universe.
func (h *c04Hist) randClient() *Persistent {
	r := h.r
	name := vfPick(r, c04Names)
	if r.Chance(1, 40) {
		name = ""
	}
	n := 1 + r.Intn(3)
	if r.Chance(1, 30) {
		n = 0
	}
	var ids []string
	for i := 0; i < n; i++ {
		ids = append(ids, vfPick(r, h.ids))
	}
	if len(h.ncIDs) > 1 && r.Chance(1, 2) {
		ids = append(ids, vfPick(r, h.ncIDs))
	}
	return c04Mk(name, h.withDuplicates(ids), r)
}

// withDuplicates (round 4): identifier lists are NOT de-duplicated (SetIDs
// keeps every occurrence and the registry accepts a record that lists an
// identifier twice); on top of the repeats the draws give, now and then one
// identifier is listed again, CIDRs preferred, sometimes in another spelling
// of the same MAC / ClientID.
func (h *c04Hist) withDuplicates(ids []string) []string {
	r := h.r
	if len(ids) == 0 || !r.Chance(1, 3) {
		return ids
	}
	d := vfPick(r, ids)
	for _, id := range ids {
		if strings.Contains(id, "/") && r.Chance(2, 3) {
			d = id
			break
		}
	}
	switch {
	case r.Chance(1, 4) && c04IsMAC6(d):
		d = strings.ToUpper(strings.ReplaceAll(d, ":", "-"))
	case r.Chance(1, 4) && !strings.ContainsAny(d, ":-/.%"):
		d = strings.ToUpper(d)
	}
	ids = append(ids, d)
	if r.Bool() {
		vfShuffle(r, ids)
	}
	return ids
}

func c04IsMAC6(id string) bool {
	if _, err := netip.ParseAddr(id); err == nil {
		return false
	}
	m, err := net.ParseMAC(id)
	return err == nil && len(m) == 6 && strings.Count(id, ":") == 5
}

func c04Dedup(ids []string) (res []string) {
	seen := map[string]bool{}
	for _, id := range ids {
		if !seen[id] {
			seen[id] = true
			res = append(res, id)
		}
	}
	return res
}

func (h *c04Hist) randOp() {
	r := h.r
	var existing []string
	for n := range h.ref.byName {
		existing = append(existing, n)
	}
	sort.Strings(existing)
	k := r.Intn(100)
	switch {
	case k < 35 || len(existing) == 0:
		p := h.randClient()
		if len(existing) > 0 && r.Chance(1, 25) {
			// duplicate uid (possible with a hand-edited configuration)
			p.UID = h.ref.byName[vfPick(r, existing)].UID
		}
		h.add(p)
	case k < 75:
		name := vfPick(r, c04Names)
		if r.Chance(4, 5) {
			name = vfPick(r, existing)
		}
		var p *Persistent
		if old := h.ref.byName[name]; old != nil && r.Chance(3, 4) {
			// edit the stored client: keep, drop, or add identifiers; maybe rename
			ids := old.IDs()
			if len(ids) > 1 && r.Chance(1, 3) {
				i := r.Intn(len(ids))
				ids = append(ids[:i:i], ids[i+1:]...)
			}
			if r.Chance(1, 2) {
				ids = append(ids, vfPick(r, h.ids))
			}
			nn := name
			if r.Chance(1, 3) {
				nn = vfPick(r, c04Names)
			}
			p = c04Mk(nn, h.withDuplicates(ids), r)
		} else {
			p = h.randClient()
		}
		h.update(name, p)
	case k < 90:
		name := vfPick(r, c04Names)
		if r.Chance(3, 4) {
			name = vfPick(r, existing)
		}
		h.remove(name)
	case k < 94:
		h.setGlobal(c04RandBlocked(r, h.now, true))
	default:
		tbl := map[netip.Addr]net.HardwareAddr{}
		var macs []net.HardwareAddr
		for _, m := range c04MACs {
			hw, _ := net.ParseMAC(m)
			macs = append(macs, hw)
		}
		for i := r.Intn(4); i > 0; i-- {
			pr := vfPick(r, h.probes)
			if pr.ipOK {
				tbl[pr.ip] = vfPick(r, macs)
			}
		}
		if r.Bool() && len(h.pairs) > 0 {
			if a := vfPick(r, h.pairs).a; a.IsValid() {
				tbl[a] = vfPick(r, macs)
			}
		}
		h.setDHCP(tbl)
	}
}

func c04Universe(r *vfRand) (ids []string) {
	pick := func(xs []string, n int) {
		ys := append([]string{}, xs...)
		vfShuffle(r, ys)
		if n > len(ys) {
			n = len(ys)
		}
		ids = append(ids, ys[:n]...)
	}
	if r.Chance(1, 4) {
		pick(c04ZoneIPs, 2+r.Intn(3))
		pick(c04IPs, 1)
		ids = append(ids, "fe80::/64")
		pick(c04Subnets[:len(c04Subnets)-1], 2)
	} else if r.Chance(1, 3) {
		// one or two networks in two or three spellings each
		pick(c04IPs, 2)
		pick(c04Subnets, 2)
		gs := append([]c04NCGroup{}, c04NCGroups...)
		vfShuffle(r, gs)
		for _, g := range gs[:1+r.Intn(2)] {
			pick(g.spell, 2+r.Intn(2))
		}
	} else {
		pick(c04IPs, 2+r.Intn(2))
		pick(c04Subnets, 3+r.Intn(2))
	}
	ids = c04Dedup(ids)
	pick(c04MACs, 2+r.Intn(2))
	pick(c04CIDs, 1+r.Intn(2))
	return ids
}

// ---- prelude: one constructed history per branch class

func c04Prelude(t *testing.T, out *vfOut) {
	all := append(append(append(append(append([]string{}, c04IPs...), c04ZoneIPs...), c04Subnets...), c04MACs...), c04CIDs...)
	r := vfNewRand(4)
	mac := func(s string) net.HardwareAddr { m, _ := net.ParseMAC(s); return m }

	// clashes of every kind, uid clash, validation errors, not-found
	h := c04NewHist(t, r.Fork(1), all)
	h.add(c04Mk("a", []string{"10.1.2.3", "10.1.0.0/16", "aa:bb:cc:dd:ee:01", "cli1"}, nil))
	h.add(c04Mk("a", []string{"10.7.7.7"}, nil))             // name
	h.add(c04Mk("b", []string{"cli1"}, nil))                 // ClientID
	h.add(c04Mk("b", []string{"10.1.2.4", "10.1.2.3"}, nil)) // IP
	h.add(c04Mk("b", []string{"10.1.0.0/16"}, nil))          // subnet
	h.add(c04Mk("b", []string{"AA-BB-CC-DD-EE-01"}, nil))    // MAC, other spelling
	dup := c04Mk("b", []string{"10.7.7.7"}, nil)
	dup.UID = h.ref.byName["a"].UID
	h.add(dup)                                  // uid
	h.add(c04Mk("", []string{"10.7.7.7"}, nil)) // empty name
	h.add(c04Mk("b", nil, nil))                 // no identifier
	z := c04Mk("b", []string{"10.7.7.7"}, nil)
	z.UID = UID{}
	h.add(z)                                              // zero uid
	h.update("zz", c04Mk("b", []string{"10.7.7.7"}, nil)) // not found
	h.remove("zz")
	h.add(c04Mk("b", []string{"10.7.7.7", "Phone"}, nil))
	h.update("b", c04Mk("a", []string{"10.7.7.7"}, nil))         // rename onto an existing name
	h.update("b", c04Mk("b", []string{"10.7.7.7", "cli1"}, nil)) // take a's ClientID
	h.update("b", c04Mk("b", []string{"10.1.2.3"}, nil))
	h.update("b", c04Mk("b", []string{"10.1.0.0/16"}, nil))
	h.update("b", c04Mk("b", []string{"aa:bb:cc:dd:ee:01"}, nil))
	h.update("b", c04Mk("b", []string{"10.7.7.7", "phone"}, nil))        // same identifiers: no clash with itself
	h.update("a", c04Mk("c", []string{"10.1.2.3", "cli1"}, nil))         // rename, drop two identifiers
	h.add(c04Mk("a", []string{"10.1.0.0/16", "aa:bb:cc:dd:ee:01"}, nil)) // dropped identifiers are free again
	h.remove("c")
	h.add(c04Mk("d", []string{"cli1", "10.1.2.3"}, nil))
	h.emit(out, "prelude-clashes")

	// precedence: ClientID > exact IP > most specific CIDR > lease MAC; overlapping prefixes in both insertion orders
	h = c04NewHist(t, r.Fork(2), all)
	h.pairs = []c04Pair{
		{"cli1", netip.MustParseAddr("10.1.2.3")}, {"", netip.MustParseAddr("10.1.2.3")},
		{"", netip.MustParseAddr("10.1.2.77")}, {"", netip.MustParseAddr("10.1.200.1")},
		{"", netip.MustParseAddr("10.200.0.1")}, {"", netip.MustParseAddr("192.168.1.5")},
		{"other", netip.MustParseAddr("8.8.8.8")}, {"", netip.Addr{}}, {"", netip.MustParseAddr("::ffff:10.1.2.3")},
		{"", netip.MustParseAddr("2001:db8:1::99")},
	}
	h.prev = h.observe()
	own := func(p *Persistent, settings, blocked bool) *Persistent {
		p.UseOwnSettings, p.UseOwnBlockedServices = settings, blocked
		p.FilteringEnabled, p.ParentalEnabled = !h.glob.FilteringEnabled, !h.glob.ParentalEnabled
		p.SafeBrowsingEnabled, p.SafeSearchConf.Enabled = !h.glob.SafeBrowsingEnabled, !h.glob.SafeSearchEnabled
		p.BlockedServices = &filtering.BlockedServices{IDs: []string{"own_" + p.Name, "youtube"},
			Schedule: c04Reg(c04MkSched(0, [7][2]int{}, "never"))}
		return p
	}
	h.add(own(c04Mk("a", []string{"10.0.0.0/8", "2001:db8::/32"}, nil), true, false))
	h.add(own(c04Mk("b", []string{"10.1.2.0/24", "10.2.0.0/8"}, nil), false, true))
	h.add(own(c04Mk("c", []string{"10.1.0.0/16", "2001:db8:1::/48", "cli1"}, nil), true, true))
	h.add(own(c04Mk("d", []string{"10.1.2.3", "aa:bb:cc:dd:ee:02", "0.0.0.0/0"}, nil), false, false))
	h.setDHCP(map[netip.Addr]net.HardwareAddr{
		netip.MustParseAddr("192.168.1.5"):      mac("aa:bb:cc:dd:ee:02"),
		netip.MustParseAddr("10.1.2.77"):        mac("aa:bb:cc:dd:ee:02"),
		netip.MustParseAddr("2001:db8:ffff::1"): mac("aa:bb:cc:dd:ee:02")})
	h.update("d", own(c04Mk("d", []string{"10.1.2.3", "aa:bb:cc:dd:ee:02"}, nil), false, false)) // drop the /0
	h.remove("b")
	h.add(own(c04Mk("b", []string{"10.1.2.3/32", "10.1.0.0/17"}, nil), true, true))
	h.update("c", own(c04Mk("c", []string{"10.1.2.0/24"}, nil), true, false))
	h.setDHCP(map[netip.Addr]net.HardwareAddr{})
	h.remove("a")
	h.emit(out, "prelude-precedence")

	// MAC lengths and spellings
	h = c04NewHist(t, r.Fork(3), all)
	h.add(c04Mk("a", []string{"02-00-5e-10-00-00-00-01"}, nil))
	h.add(c04Mk("b", []string{"02:00:5e:10:00:00:00:01"}, nil)) // stored as an IPv6 address
	h.add(c04Mk("c", []string{"00:00:00:00:fe:80:00:00:00:00:00:00:02:00:5e:10:00:00:00:01"}, nil))
	h.add(c04Mk("d", []string{"::/0"}, nil))
	h.remove("b")
	h.remove("d")
	h.setDHCP(map[netip.Addr]net.HardwareAddr{
		netip.MustParseAddr("10.1.2.3"): mac("02-00-5e-10-00-00-00-01"),
		netip.MustParseAddr("10.1.2.4"): mac("00:00:00:00:fe:80:00:00:00:00:00:00:02:00:5e:10:00:00:00:01")})
	h.update("a", c04Mk("a", []string{"aa:bb:cc:dd:ee:01"}, nil))
	h.emit(out, "prelude-macs")

	// IPv6 zones: exact identifier with a zone; requests from the same zoned
	// address, the zone-less one, another zone; with and without a containing /64
	h = c04NewHist(t, r.Fork(4), all)
	h.pairs = []c04Pair{
		{"", netip.MustParseAddr("fe80::1%eth0")}, {"", netip.MustParseAddr("fe80::1")},
		{"", netip.MustParseAddr("fe80::1%eth1")}, {"", netip.MustParseAddr("fe80::2%eth0")},
		{"cli1", netip.MustParseAddr("fe80::1%eth0")}, {"", netip.MustParseAddr("2001:db8::1")},
	}
	h.prev = h.observe()
	h.add(c04Mk("a", []string{"fe80::1%eth0"}, nil))
	h.add(c04Mk("b", []string{"fe80::1%eth0"}, nil)) // same zoned address: clash
	h.add(c04Mk("b", []string{"fe80::1%eth1"}, nil)) // other zone: a different identifier
	h.add(c04Mk("c", []string{"fe80::/64", "cli1"}, nil))
	h.setDHCP(map[netip.Addr]net.HardwareAddr{netip.MustParseAddr("fe80::2%eth0"): mac("aa:bb:cc:dd:ee:01")})
	h.add(c04Mk("d", []string{"fe80::1", "aa:bb:cc:dd:ee:01"}, nil))
	h.remove("c")
	h.update("a", c04Mk("a", []string{"fe80::2%eth0"}, nil))
	h.update("b", c04Mk("b", []string{"fe80::1%eth1", "fe80::1%eth0"}, nil))
	h.remove("d")
	h.add(c04Mk("c", []string{"::/0"}, nil))
	h.emit(out, "prelude-zones")

	// Persistent.validate: tags (allowed, foreign, unsorted), upstream lines (every
	// entry of the universe on its own, on add and on update), and the order of
	// the checks (name / identifiers / uid before upstreams before tags)
	h = c04NewHist(t, r.Fork(5), all)
	withTU := func(p *Persistent, tags, ups []string) *Persistent { p.Tags, p.Upstreams = tags, ups; return p }
	h.add(withTU(c04Mk("a", []string{"10.1.2.3"}, nil), []string{"user_child", "device_tv", "os_linux"}, []string{"1.1.1.1", "# c", "[/lan/]10.0.0.1"}))
	h.add(withTU(c04Mk("b", []string{"10.1.2.4"}, nil), []string{"user_child", "bad_tag"}, nil))
	h.add(withTU(c04Mk("b", []string{"10.1.2.4"}, nil), []string{"bad_tag"}, []string{"bad://x"}))  // upstream error first
	h.add(withTU(c04Mk("", []string{"10.1.2.4"}, nil), []string{"bad_tag"}, []string{"[/lan/] "})) // empty name first: no panic
	h.add(withTU(c04Mk("b", []string{"10.1.2.4"}, nil), nil, []string{"bad://x", "[/lan/] "}))      // a later line panics
	h.add(withTU(c04Mk("b", []string{"10.1.2.4"}, nil), []string{"bad_tag"}, []string{"[/lan/]\t"}))
	for i, l := range c04UpLines {
		if i%2 == 0 {
			h.add(withTU(c04Mk("b", []string{"10.1.2.4"}, nil), []string{"os_ios"}, []string{"8.8.8.8", l}))
			h.remove("b")
		} else {
			h.update("a", withTU(c04Mk("a", []string{"10.1.2.3"}, nil), []string{"user_admin", "device_pc"}, []string{l}))
		}
	}
	h.update("a", withTU(c04Mk("a", []string{"10.1.2.3"}, nil), []string{"user_child", "USER_ADMIN"}, nil))
	h.update("a", withTU(c04Mk("c", []string{"10.1.2.3"}, nil), []string{"os_windows", "device_nas", "device_audio"}, []string{"[/lan/]#"}))
	h.emit(out, "prelude-validate")

	// own blocked services with the client's own schedule against the global
	// list and the global schedule: every combination of pausing / not pausing
	h = c04NewHist(t, r.Fork(6), all)
	h.pairs = []c04Pair{
		{"cli1", netip.MustParseAddr("10.1.2.3")}, {"", netip.MustParseAddr("10.1.2.3")},
		{"", netip.MustParseAddr("10.7.7.7")}, {"", netip.MustParseAddr("192.168.1.5")}, {"", netip.MustParseAddr("8.8.8.8")},
	}
	h.prev = h.observe()
	var always, never, todayOnly, notToday [7][2]int
	for i := range always {
		always[i] = [2]int{0, 1440}
		notToday[i] = [2]int{0, 1440}
	}
	wd := int(h.now.In(c04Zones[len(c04Zones)-1].loc).Weekday())
	todayOnly[wd] = [2]int{0, 1440}
	notToday[wd] = [2]int{}
	lastZone := len(c04Zones) - 1
	bs := func(m [7][2]int, zone int, kind string, ids ...string) *filtering.BlockedServices {
		return &filtering.BlockedServices{Schedule: c04Reg(c04MkSched(zone, m, kind)), IDs: ids}
	}
	ownB := func(p *Persistent, own bool, b *filtering.BlockedServices) *Persistent {
		p.UseOwnBlockedServices, p.BlockedServices = own, b
		return p
	}
	h.setGlobal(bs(never, 0, "never", "facebook", "tiktok"))
	h.add(ownB(c04Mk("a", []string{"cli1"}, nil), true, bs(always, 0, "always", "youtube", "x")))      // paused: nothing, not the global list
	h.add(ownB(c04Mk("b", []string{"10.1.2.3"}, nil), true, bs(never, 1%len(c04Zones), "never", "youtube", "no_such_service", "9gag")))
	h.add(ownB(c04Mk("c", []string{"10.7.7.7"}, nil), false, bs(never, 0, "never", "youtube")))          // not own: global list
	h.add(ownB(c04Mk("d", []string{"192.168.1.5"}, nil), true, nil))                                      // own, nil record: global list
	h.setGlobal(bs(always, 0, "always", "facebook"))                                                       // global paused, own lists unaffected
	h.update("a", ownB(c04Mk("a", []string{"cli1"}, nil), true, bs(todayOnly, lastZone, "today-only", "youtube")))
	h.update("b", ownB(c04Mk("b", []string{"10.1.2.3"}, nil), true, bs(notToday, lastZone, "not-today", "tiktok")))
	h.setGlobal(bs(notToday, lastZone, "not-today", "facebook", "9gag"))
	h.update("c", ownB(c04Mk("c", []string{"10.7.7.7"}, nil), true, bs(never, 0, "never")))               // own empty list
	h.remove("a")
	h.emit(out, "prelude-services")

	// round 4: records that list an identifier TWICE (SetIDs keeps both; the
	// registry accepts them: nobody else owns the identifier).  Every kind; the
	// duplicate CIDR is the one that sorts last when it is added (the only one,
	// the broadest one), then its owner is removed / updated away, and requests
	// from inside it go to the next containing CIDR or to nobody.
	h = c04NewHist(t, r.Fork(8), all)
	h.pairs = []c04Pair{
		{"", netip.MustParseAddr("10.1.0.1")}, {"", netip.MustParseAddr("10.200.0.1")},
		{"other", netip.MustParseAddr("10.1.2.77")}, {"", netip.MustParseAddr("8.8.8.8")},
		{"", netip.MustParseAddr("2001:db8::5")}, {"cli1", netip.MustParseAddr("8.8.8.8")}, {"", netip.MustParseAddr("10.1.2.3")},
	}
	h.prev = h.observe()
	h.add(c04Mk("a", []string{"10.1.0.0/16", "10.1.0.0/16"}, nil)) // the only CIDR, twice
	h.remove("a")                                                  // nobody owns 10.1.0.1 now
	h.add(c04Mk("b", []string{"10.0.0.0/8", "10.0.0.0/8", "10.1.2.3", "10.1.2.3"}, nil))
	h.add(c04Mk("a", []string{"10.1.0.0/16", "cli1", "CLI1", "aa:bb:cc:dd:ee:01", "AA-BB-CC-DD-EE-01"}, nil))
	h.add(c04Mk("c", []string{"10.1.0.0/16"}, nil))                 // clash with a
	h.update("b", c04Mk("b", []string{"10.2.0.0/16", "10.1.2.3"}, nil)) // drops the duplicate /8, which sorted last
	h.remove("a")                                                  // 10.1.0.1: nobody; 10.200.0.1: nobody
	h.add(c04Mk("d", []string{"0.0.0.0/0", "0.0.0.0/0", "::/0", "::/0"}, nil))
	h.add(c04Mk("a", []string{"10.0.0.0/8"}, nil))
	h.remove("d") // the v4 /0 sorted last among v4... and ::/0 last of all
	h.update("a", c04Mk("a", []string{"10.0.0.0/8", "10.0.0.0/8", "2001:db8::/32", "2001:db8::/32"}, nil))
	h.update("a", c04Mk("c", []string{"10.1.0.0/16"}, nil)) // rename, drops both duplicates
	h.remove("b")
	h.remove("c")
	h.emit(out, "prelude-duplicates")

	// one network under several spellings (host bits kept by ParsePrefix /
	// SetIDs): the spellings are different identifiers, so two clients may hold
	// one each; the one that sorts first (unmasked address) answers; when its
	// owner is removed, renamed or updated away the other spelling answers.
	// v4 /24 /16 /8, v6 /64 /48; the same spelling twice is still a clash.
	var ncAll []string
	for _, g := range c04NCGroups {
		ncAll = append(ncAll, g.spell...)
	}
	ncAll = append(ncAll, "192.168.1.5", "10.1.2.3", "cli1", "aa:bb:cc:dd:ee:01")
	h = c04NewHist(t, r.Fork(7), ncAll)
	h.pairs = []c04Pair{
		{"", netip.MustParseAddr("192.168.1.77")}, {"", netip.MustParseAddr("172.16.200.1")},
		{"", netip.MustParseAddr("10.200.0.1")}, {"", netip.MustParseAddr("2001:db8:2:3::77")},
		{"", netip.MustParseAddr("2001:db8:7:1::99")}, {"cli1", netip.MustParseAddr("192.168.1.77")},
		{"", netip.MustParseAddr("192.168.1.5")}, {"", netip.MustParseAddr("8.8.8.8")},
	}
	h.prev = h.observe()
	h.add(c04Mk("a", []string{"192.168.1.1/24", "2001:db8:2:3::1/64"}, nil))
	h.add(c04Mk("b", []string{"192.168.1.0/24", "2001:db8:2:3::/64"}, nil)) // other spellings: accepted
	h.add(c04Mk("c", []string{"192.168.1.1/24"}, nil))                       // same spelling: clash
	h.remove("a")                                                            // b's spellings still answer
	h.add(c04Mk("a", []string{"192.168.1.200/24", "172.16.5.9/16", "10.2.0.0/8"}, nil))
	h.remove("b") // a's spellings answer
	h.add(c04Mk("b", []string{"192.168.1.0/24", "172.16.0.0/16", "10.0.0.0/8", "192.168.1.5"}, nil))
	h.add(c04Mk("c", []string{"192.168.1.1/24", "172.16.255.255/16", "10.255.0.1/8", "cli1"}, nil)) // three spellings, three clients
	h.update("b", c04Mk("b", []string{"192.168.1.0/24"}, nil))                                       // drops the first-sorting /16 and /8
	h.update("a", c04Mk("d", []string{"192.168.1.200/24", "172.16.5.9/16", "10.2.0.0/8"}, nil))      // rename, same identifiers
	h.update("c", c04Mk("c", []string{"192.168.1.0/24"}, nil))                                       // b's exact spelling: clash
	h.update("c", c04Mk("c", []string{"2001:db8:7:ffff::/48", "2001:db8:7::/48"}, nil))              // one client, two spellings
	h.add(c04Mk("a", []string{"2001:db8:7:1::1/48", "192.168.1.1/24"}, nil))
	h.update("a", c04Mk("a", []string{"2001:db8:7:1::1/48", "192.168.1.0/24"}, nil)) // respell onto b's: clash
	h.update("a", c04Mk("a", []string{"2001:db8:7:1::1/48", "192.168.1.200/24"}, nil)) // onto d's: clash
	h.remove("c")
	h.remove("d")
	h.remove("b")
	h.remove("a")
	h.emit(out, "prelude-noncanonical")
}

func TestVerifC04(t *testing.T) {
	out := vfOpen(t, "C04")
	defer out.Close()
	filtering.InitModule()
	c04InitZones()
	c04DataDir = t.TempDir()
	c04Prelude(t, out)

	r := vfNewRand(out.Seed)
	nHist := out.Scale(200, 3000)
	totalOps, maxOps := 0, 0
	for i := 0; i < nHist; i++ {
		hr := r.Fork(uint64(i))
		h := c04NewHist(t, hr, c04Universe(hr))
		n := 5 + hr.Intn(36)
		for j := 0; j < n; j++ {
			h.randOp()
		}
		totalOps += n
		if n > maxOps {
			maxOps = n
		}
		h.emit(out, "random")
	}
	out.Note("histories", nHist)
	out.Note("operations", totalOps)
	out.Note("longest_history", maxOps)
}

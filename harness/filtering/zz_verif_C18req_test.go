//go:build verif

package filtering

// C18, request part: the pause schedule is consulted for the global and for
// the client's own blocked services on every request.  A real *DNSFilter
// (ApplyBlockedServices, ApplyAdditionalFiltering, BlockedServices.Clone, the
// HTTP handlers of the global list) with a client lookup stub that does what
// client.Storage.ApplyClientFiltering does for the blocked services: finds
// the persistent client by ClientID, then by address, and when it uses its
// own blocked services assigns setts.BlockedServices = c.BlockedServices.Clone().
//
// The code under test reads time.Now() itself.  Schedules are therefore
// constructed around the instant of the run: today's range of a schedule (in
// ITS zone, whose weekday may differ from UTC's) contains the current wall
// clock with two hours of margin, or lies an hour away from it, or has an
// edge on the current / the next whole minute.  A request is bracketed by two
// clock readings; it is judged (and handed to the model, with the first
// reading as the instant) only when, in every zone involved, both readings
// show the same weekday, the same hour and minute and the same zone offset:
// ranges are whole minutes, so no schedule changes its verdict in between.
// Otherwise the request is dropped (class skipped-req-clock), never reported.
//
// One case per history: initial global configuration, client table, then
// DNS requests interleaved with requests to the global HTTP endpoints.

import (
	"fmt"
	"net/http"
	"net/http/httptest"
	"net/netip"
	"regexp"
	"sort"
	"strings"
	"testing"
	"time"
)

var c18rZones = []string{
	"America/New_York", "Europe/London", "Australia/Lord_Howe", "Asia/Kolkata",
	"Asia/Kathmandu", "Pacific/Apia", "America/St_Johns", "UTC", "Pacific/Kiritimati",
	"Europe/Berlin", "Pacific/Chatham", "Local", "Pacific/Pago_Pago", "America/Anchorage",
	"Pacific/Auckland", "Asia/Tokyo",
}

const c18rMin = int64(time.Minute)

// c18rAround builds seven whole-minute ranges for a schedule in loc whose
// range of the CURRENT local weekday stands in the given relation to the
// current wall clock.
func c18rAround(r *vfRand, loc *time.Location, ref time.Time, mode string) (rs [7][2]int64) {
	lt := ref.In(loc)
	wd := int(lt.Weekday())
	h, mi, _ := lt.Clock()
	m := int64(h*60 + mi)
	clamp := func(x int64) int64 { return max(0, min(1440, x)) }
	for d := range rs {
		rs[d][0], rs[d][1] = c18hRandRange(r)
	}
	set := func(d int, a, b int64) {
		a, b = clamp(a), clamp(b)
		if a >= b {
			rs[d] = [2]int64{}
			return
		}
		rs[d] = [2]int64{a * c18rMin, b * c18rMin}
	}
	before := func() {
		if m >= 90 {
			set(wd, m-90-int64(r.Intn(120)), m-30)
		} else {
			set(wd, m+30, m+90+int64(r.Intn(120)))
		}
	}
	switch mode {
	case "paused":
		set(wd, m-120-int64(r.Intn(240)), m+120+int64(r.Intn(240)))
		if m+30 >= 1440 {
			set((wd+1)%7, 0, 120)
		}
	case "active":
		if r.Bool() && m+90 <= 1440 {
			set(wd, m+30, m+90+int64(r.Intn(120)))
		} else {
			before()
		}
		if m+30 >= 1440 {
			rs[(wd+1)%7] = [2]int64{}
		}
	case "empty-today": // the other days pause all day: another weekday would say the opposite
		for d := range rs {
			rs[d] = [2]int64{0, c18hDayNs}
		}
		rs[wd] = [2]int64{}
	case "full-today":
		for d := range rs {
			rs[d] = [2]int64{}
		}
		rs[wd] = [2]int64{0, c18hDayNs}
	case "edge-start-next": // not yet
		if m+1 < 1440 {
			set(wd, m+1, m+61)
		} else {
			before()
		}
	case "edge-end-this": // just over
		if m >= 1 {
			set(wd, m-60, m)
		} else {
			set(wd, m+30, m+90)
		}
	case "edge-end-next": // still on
		set(wd, m-60, m+1)
	case "edge-start-this": // just begun
		set(wd, m, m+60)
	case "full":
		rs = c18hWeek(0, c18hDayNs)
	case "none":
		rs = [7][2]int64{}
	}
	return rs
}

var c18rModes = []string{"paused", "paused", "active", "active", "empty-today", "full-today",
	"edge-start-next", "edge-end-this", "edge-end-next", "edge-start-this", "full", "none", "random"}

// c18rClient is a persistent client as far as the blocked services go.
type c18rClient struct {
	name   string
	cid    string     // ClientID key ("" = none)
	addr   netip.Addr // address key (zero = none)
	own    bool
	init   *c18hInit // how its BlockedServices value was built
	bs     *BlockedServices
	hits   int
	clones int
}

// c18rTable is the lookup stub handed to the filter as ApplyClientFiltering.
type c18rTable struct {
	clients []*c18rClient
	found   int // index of the client of the last request, -1 = none
}

func (tb *c18rTable) apply(id string, addr netip.Addr, setts *Settings) {
	tb.found = -1
	for i, c := range tb.clients {
		if id != "" && c.cid == id {
			tb.found = i
			break
		}
	}
	if tb.found < 0 && addr.IsValid() {
		for i, c := range tb.clients {
			if c.addr == addr {
				tb.found = i
				break
			}
		}
	}
	if tb.found < 0 {
		return
	}
	c := tb.clients[tb.found]
	c.hits++
	if c.own {
		setts.BlockedServices = c.bs.Clone()
		c.clones++
	}
	setts.ClientName = c.name
}

// c18rState is what the property says the global value is after the requests
// so far (what was configured / sent and accepted), kept without the code
// under test.
type c18rState struct {
	zone   string
	ranges [7][2]int64
	ids    []string
}

type c18rGov struct {
	zone   string
	ranges [7][2]int64
	ids    []string
	who    string
}

var c18rRuleHost = regexp.MustCompile(`^\|\|([a-z0-9.-]+)\^$`)

// c18rHost returns a host name the service's first rule blocks.
func c18rHost(id string) string {
	rs := serviceRules[id]
	if len(rs) == 0 {
		return ""
	}
	if m := c18rRuleHost.FindStringSubmatch(rs[0].Text()); m != nil {
		return m[1]
	}
	return ""
}

// c18rSameMinute: both readings show, in loc, the same day, hour, minute and
// offset.
func c18rSameMinute(loc *time.Location, a, b time.Time) bool {
	la, lb := a.In(loc), b.In(loc)
	_, oa := la.Zone()
	_, ob := lb.Zone()
	return oa == ob && la.Year() == lb.Year() && la.YearDay() == lb.YearDay() &&
		la.Hour() == lb.Hour() && la.Minute() == lb.Minute()
}

func c18rFilterKnown(ids []string) (out []string) {
	out = []string{}
	for _, id := range ids {
		if c18hKnown(id) {
			out = append(out, id)
		}
	}
	return out
}

type c18rStep struct {
	op *c18hOp // HTTP request, or
	// DNS request:
	cid  string
	addr netip.Addr
}

// c18rRunHistory runs one request history and emits its case.
func c18rRunHistory(t *testing.T, out *vfOut, in *c18hInit, clients []*c18rClient, steps []c18rStep, extra ...string) {
	bs, err := in.build()
	if err != nil {
		out.Class("skipped-req-init-error")
		return
	}
	for _, c := range clients {
		if c.bs, err = c.init.build(); err != nil {
			out.Class("skipped-req-init-error")
			return
		}
	}
	tb := &c18rTable{clients: clients, found: -1}
	d, err := New(&Config{BlockedServices: bs, ConfigModified: func() {}, ApplyClientFiltering: tb.apply}, nil)
	if err != nil {
		out.Class("skipped-req-new-error")
		return
	}
	defer d.Close()

	classes := map[string]bool{}
	for _, e := range extra {
		classes[e] = true
	}
	monMsg, monKey := "", ""
	fail := func(step int, msg, key string) {
		if monMsg == "" && msg != "" {
			monMsg, monKey = fmt.Sprintf("step %d: %s", step, msg), key
		}
	}
	known := map[string]bool{}
	note := func(ids []string) {
		for _, id := range ids {
			if c18hKnown(id) {
				known[id] = true
			}
		}
	}
	note(in.ids)
	for _, c := range clients {
		note(c.init.ids)
	}

	glob := &c18rState{zone: in.zone, ranges: in.ranges, ids: in.ids}
	var coqSteps []string
	var desc []map[string]any
	judged, afterUpdate, afterSet := 0, false, false
	for i, st := range steps {
		if st.op != nil {
			op := st.op
			note(op.ids)
			h, method, path := d.handleBlockedServicesUpdate, http.MethodPut, "/control/blocked_services/update"
			if op.kind == "set" {
				h, method, path = d.handleBlockedServicesSet, http.MethodPost, "/control/blocked_services/set"
			}
			w := httptest.NewRecorder()
			pan := ""
			func() {
				defer func() {
					if p := recover(); p != nil {
						pan = fmt.Sprint(p)
					}
				}()
				h(w, httptest.NewRequest(method, path, strings.NewReader(op.body)))
			}()
			if pan != "" {
				fail(i, "panic in "+path+": "+pan, "req-http-panic")
			}
			if w.Code != op.want {
				fail(i, fmt.Sprintf("%s answered %d, the property expects %d", op.kind, w.Code, op.want), "http-status-"+op.kind)
			}
			if w.Code == http.StatusOK {
				if op.kind == "set" {
					glob.ids = op.ids
					afterSet = true
				} else {
					glob.zone, glob.ranges, glob.ids = op.zone, op.ranges, op.ids
					afterUpdate = true
				}
			}
			coqSteps = append(coqSteps, vfApp("RHttp", op.coq, vfZ(int64(w.Code))))
			desc = append(desc, map[string]any{"req": method + " " + path, "body": op.body, "status": w.Code})
			continue
		}

		// a DNS request
		setts := d.Settings()
		var names []string
		pan := ""
		tb.found = -1
		before := time.Now()
		func() {
			defer func() {
				if p := recover(); p != nil {
					pan = fmt.Sprint(p)
				}
			}()
			d.ApplyAdditionalFiltering(st.addr, st.cid, setts)
		}()
		after := time.Now()
		if pan != "" {
			fail(i, "ApplyAdditionalFiltering panicked: "+pan, "req-panic")
			break
		}
		names = []string{}
		for _, e := range setts.ServicesRules {
			names = append(names, e.Name)
		}

		// what governs the request, per the property
		gov := c18rGov{zone: glob.zone, ranges: glob.ranges, ids: glob.ids, who: "no persistent client; global list"}
		found := tb.found
		if found >= 0 {
			c := clients[found]
			if c.own {
				gov = c18rGov{zone: c.init.zone, ranges: c.init.ranges, ids: c.init.ids,
					who: fmt.Sprintf("client %q with own blocked services", c.name)}
			} else {
				gov.who = fmt.Sprintf("client %q without own blocked services; global list", c.name)
			}
		}
		gloc, gerr := c18hLoc(glob.zone)
		loc, lerr := c18hLoc(gov.zone)
		if gerr != nil || lerr != nil {
			out.Class("skipped-req-zone")
			continue
		}
		if !c18rSameMinute(gloc, before, after) || !c18rSameMinute(loc, before, after) || after.Sub(before) > 20*time.Second {
			out.Class("skipped-req-clock")
			continue
		}
		judged++
		pausedNow := c18hWall(loc, gov.ranges, before)
		want := []string{}
		if !pausedNow {
			want = c18rFilterKnown(gov.ids)
		}
		lt := before.In(loc)
		rg := gov.ranges[int(lt.Weekday())]
		where := fmt.Sprintf("%s in %s, that day's pause %s-%s", lt.Format("Mon 15:04:05"), gov.zone,
			time.Duration(rg[0]), time.Duration(rg[1]))
		if !c18hSameIDs(want, names) {
			state := "not in pause"
			if pausedNow {
				state = "in pause"
			}
			fail(i, fmt.Sprintf("request of %s (%s: %s), ids %q: services blocked %q, the property says %q",
				gov.who, state, where, gov.ids, names, want), "req-services")
		}
		// the same through CheckHost for one service with a plain host rule
		probe := ""
		for _, id := range append(append([]string{}, gov.ids...), glob.ids...) {
			if c18hKnown(id) && c18rHost(id) != "" {
				probe = id
				break
			}
		}
		if probe != "" {
			setts.ProtectionEnabled = true
			res, cerr := d.CheckHost(c18rHost(probe), 1, setts)
			wantBlocked := false
			for _, id := range want {
				wantBlocked = wantBlocked || id == probe
			}
			switch {
			case cerr != nil:
			case wantBlocked && !(res.IsFiltered && res.Reason == FilteredBlockedService):
				fail(i, fmt.Sprintf("request of %s (%s): host %s of service %q is not blocked (%s), the property says it is",
					gov.who, where, c18rHost(probe), probe, res.Reason), "req-checkhost")
			case !wantBlocked && res.Reason == FilteredBlockedService && res.ServiceName == probe:
				fail(i, fmt.Sprintf("request of %s (%s): host %s is blocked as service %q, the property says it is not",
					gov.who, where, c18rHost(probe), probe), "req-checkhost")
			}
		}

		// classes
		kind := "no-client"
		if found >= 0 {
			kind = "client-global"
			if clients[found].own {
				kind = "own"
			}
		}
		pa := map[bool]string{true: "paused", false: "active"}
		if kind == "own" {
			gp := c18hWall(gloc, glob.ranges, before)
			classes["req-own-"+pa[pausedNow]+"-global-"+pa[gp]] = true
			if !gp && pausedNow && len(c18rFilterKnown(glob.ids)) > 0 {
				classes["req-own-paused-global-blocking"] = true
			}
			if len(gov.ids) == 0 {
				classes["req-own-empty-list"] = true
			}
			if len(c18rFilterKnown(gov.ids)) != len(gov.ids) {
				classes["req-own-unknown-id"] = true
			}
		} else {
			classes["req-"+kind+"-"+pa[pausedNow]] = true
		}
		if kind != "own" && afterUpdate {
			classes["req-after-update"] = true
		}
		if kind != "own" && afterSet {
			classes["req-after-legacy-set"] = true
		}
		if before.In(loc).Weekday() != before.UTC().Weekday() {
			classes["req-zone-other-weekday"] = true
		}
		h, mi, _ := lt.Clock()
		mnow := int64(h*60+mi) * c18rMin
		if rg != [2]int64{} && (rg[0] == mnow || rg[0] == mnow+c18rMin || rg[1] == mnow || rg[1] == mnow+c18rMin) {
			classes["req-edge-minute"] = true
		}

		offs := []string{}
		seen := map[string]bool{}
		for _, zn := range []string{glob.zone, gov.zone} {
			if seen[zn] {
				continue
			}
			seen[zn] = true
			l, _ := c18hLoc(zn)
			_, off := before.In(l).Zone()
			offs = append(offs, vfPair(vfBytes(zn), vfZ(int64(off))))
		}
		cl := vfOpt("nat", false, "")
		if found >= 0 {
			cl = vfOpt("nat", true, vfNat(found))
		}
		coqSteps = append(coqSteps, vfApp("RReq", cl, vfZ(before.UnixNano()), vfList("bytes * Z", offs), c18hCoqIDs(names)))
		desc = append(desc, map[string]any{"req": "dns", "clientid": st.cid, "addr": st.addr.String(), "governed_by": gov.who,
			"now": before.UTC().Format(time.RFC3339Nano), "wall_clock": where, "in_pause": pausedNow,
			"ids": gov.ids, "services_rules": names})
	}
	if judged == 0 && len(coqSteps) == 0 {
		return
	}

	kn := make([]string, 0, len(known))
	for id := range known {
		kn = append(kn, id)
	}
	sort.Strings(kn)
	days := func(rs [7][2]int64) string {
		items := make([]string, 7)
		for i, rg := range rs {
			items[i] = vfPair(vfZ(rg[0]), vfZ(rg[1]))
		}
		return vfList("Z * Z", items)
	}
	cls := make([]string, 0, len(classes))
	for c := range classes {
		cls = append(cls, c)
	}
	sort.Strings(cls)
	var coqClients []string
	var descClients []map[string]any
	for _, c := range clients {
		coqClients = append(coqClients, "("+strings.Join([]string{vfBool(c.own), c18hCoqIDs(c.init.ids),
			vfBytes(c.init.zone), days(c.init.ranges)}, ", ")+")")
		descClients = append(descClients, map[string]any{"name": c.name, "clientid": c.cid, "addr": c.addr.String(),
			"use_own_blocked_services": c.own, "built_from": c.init.how, "doc": c.init.doc, "zone": c.init.zone,
			"ranges_ns": fmt.Sprint(c.init.ranges), "ids": c.init.ids})
	}
	out.Emit(vfCase{
		Coq: vfApp("C18.CReq", c18hCoqIDs(kn), c18hCoqIDs(in.ids), vfBytes(in.zone), days(in.ranges),
			vfList("client_desc", coqClients), vfList("req_step", coqSteps)),
		Nontrivial: judged > 0, Classes: cls,
		MonitorOK: monMsg == "", MonitorMsg: monMsg, FindingKey: monKey,
		Desc: map[string]any{"kind": "request-history", "global_init": in.how, "global_doc": in.doc, "global_zone": in.zone,
			"global_ids": in.ids, "global_ranges_ns": fmt.Sprint(in.ranges), "clients": descClients, "steps": desc},
	})
}

// c18rInit builds a configuration value whose schedule stands in the given
// relation to the current instant.
func c18rInit(r *vfRand, zone, mode string, ids []string, ref time.Time) *c18hInit {
	in := &c18hInit{zone: zone, ids: ids}
	loc, err := c18hLoc(zone)
	if err != nil {
		loc = time.UTC
	}
	switch mode {
	case "full":
		if r.Bool() {
			in.how, in.zone, in.ranges = "full", "Local", c18hWeek(0, c18hDayNs)
			return in
		}
	case "none":
		if r.Bool() {
			in.how, in.zone = "empty", "Local"
			return in
		}
	}
	in.ranges = c18rAround(r, loc, ref, mode)
	in.how = "json"
	if r.Bool() {
		in.how = "yaml"
	}
	return in
}

func c18rAddr(i int) netip.Addr { return netip.AddrFrom4([4]byte{192, 168, 18, byte(10 + i)}) }

func c18rMkClient(r *vfRand, i int, own bool, zone, mode string, ids []string, ref time.Time) *c18rClient {
	c := &c18rClient{name: fmt.Sprintf("cl%d", i), own: own, init: c18rInit(r, zone, mode, ids, ref)}
	if i%2 == 0 {
		c.cid = fmt.Sprintf("client-%d", i)
	} else {
		c.addr = c18rAddr(i)
	}
	return c
}

func (c *c18rClient) req() c18rStep { return c18rStep{cid: c.cid, addr: c.addr} }

func c18rRun(t *testing.T, out *vfOut, pool, unknown []string) {
	a, b := pool[0], pool[1]
	ref := time.Now()
	nobody := c18rStep{cid: "nobody", addr: netip.AddrFrom4([4]byte{10, 9, 8, 7})}

	// ---- prelude: constructed histories, seed-independent up to the clock
	pr := vfNewRand(1819)
	upd := func(zone, mode string, ids []string) c18rStep {
		loc, lerr := c18hLoc(zone)
		if lerr != nil {
			loc = time.UTC
		}
		rs := c18rAround(pr, loc, ref, mode)
		op, ok := c18hUpdate(pr, c18hValidSched(pr, zone, rs), "doc", ids, "http-update-ok")
		if !ok {
			t.Fatalf("prelude update not usable")
		}
		return c18rStep{op: op}
	}
	// the scenario of seeded change C18-C: global list active, client in pause
	for _, gz := range []string{"UTC", "Pacific/Kiritimati"} {
		for _, cz := range []string{"Asia/Kolkata", "Pacific/Pago_Pago", "Australia/Lord_Howe"} {
			pausedCl := c18rMkClient(pr, 0, true, cz, "paused", []string{b}, ref)
			activeCl := c18rMkClient(pr, 1, true, cz, "active", []string{b, "verif_unknown_svc"}, ref)
			plainCl := c18rMkClient(pr, 2, false, cz, "paused", []string{b}, ref)
			emptyCl := c18rMkClient(pr, 3, true, cz, "active", []string{}, ref)
			cls := []*c18rClient{pausedCl, activeCl, plainCl, emptyCl}
			c18rRunHistory(t, out, c18rInit(pr, gz, "active", []string{a}, ref), cls,
				[]c18rStep{nobody, pausedCl.req(), activeCl.req(), plainCl.req(), emptyCl.req()})
			c18rRunHistory(t, out, c18rInit(pr, gz, "paused", []string{a}, ref), cls,
				[]c18rStep{nobody, pausedCl.req(), activeCl.req(), plainCl.req(), emptyCl.req()})
		}
	}
	// edges on the current / next minute, for the global and for a client's own schedule
	for _, mode := range []string{"edge-start-next", "edge-end-this", "edge-end-next", "edge-start-this", "empty-today", "full-today"} {
		for _, zn := range []string{"Asia/Kathmandu", "America/St_Johns", "Pacific/Apia"} {
			cl := c18rMkClient(pr, 0, true, zn, mode, []string{a, b}, ref)
			c18rRunHistory(t, out, c18rInit(pr, zn, mode, []string{a}, ref), []*c18rClient{cl},
				[]c18rStep{nobody, cl.req()})
		}
	}
	// the global endpoints in between: the next request follows the accepted update; a legacy set keeps the pause
	{
		own := c18rMkClient(pr, 0, true, "Europe/Berlin", "active", []string{b}, ref)
		plain := c18rMkClient(pr, 1, false, "Europe/Berlin", "active", []string{b}, ref)
		cls := []*c18rClient{own, plain}
		c18rRunHistory(t, out, c18rInit(pr, "America/New_York", "active", []string{a}, ref), cls, []c18rStep{
			nobody, upd("Asia/Tokyo", "paused", []string{a, b}), nobody, plain.req(), own.req(),
			{op: c18hSet([]string{b})}, nobody, own.req(),
			upd("Pacific/Chatham", "active", []string{a}), nobody, plain.req(), {op: c18hSet([]string{})}, nobody, own.req()})
		c18rRunHistory(t, out, c18rInit(pr, "Pacific/Apia", "paused", []string{a}, ref), cls, []c18rStep{
			nobody, {op: c18hSet([]string{a, b})}, nobody, plain.req(),
			upd("Mars/Olympus", "active", []string{a}), nobody, // rejected: still paused
			{op: c18hBadSet(pr)}, plain.req(), own.req()})
	}

	// ---- random histories
	rnd := vfNewRand(out.Seed).Fork(1819)
	n := out.Scale(60, 900)
	for i := 0; i < n; i++ {
		r := rnd.Fork(uint64(i))
		ref = time.Now()
		nc := r.Intn(4)
		var cls []*c18rClient
		for j := 0; j < nc; j++ {
			cls = append(cls, c18rMkClient(r, j, r.Chance(2, 3), vfPick(r, c18rZones), vfPick(r, c18rModes),
				c18hRandIDs(r, pool, unknown, r.Chance(1, 6)), ref))
		}
		in := c18rInit(r, vfPick(r, c18rZones), vfPick(r, c18rModes), c18hRandIDs(r, pool, nil, false), ref)
		if len(in.ids) == 0 && r.Chance(2, 3) {
			in.ids = []string{vfPick(r, pool)}
		}
		var steps []c18rStep
		for j, ns := 0, 2+r.Intn(8); j < ns; j++ {
			k := r.Intn(100)
			switch {
			case k < 12:
				zone := vfPick(r, c18rZones)
				loc, lerr := c18hLoc(zone)
				if lerr != nil {
					loc = time.UTC
				}
				sc := c18hValidSched(r, zone, c18rAround(r, loc, ref, vfPick(r, c18rModes)))
				if op, ok := c18hUpdate(r, sc, "doc", c18hRandIDs(r, pool, unknown, r.Chance(1, 8)), "http-update-ok"); ok {
					steps = append(steps, c18rStep{op: op})
				}
			case k < 16:
				sc := c18hValidSched(r, vfPick(r, c18hZones), c18hRandRanges(r))
				label := c18hCorrupt(r, sc)
				if op, ok := c18hUpdate(r, sc, "doc", c18hRandIDs(r, pool, unknown, false), label); ok {
					steps = append(steps, c18rStep{op: op})
				}
			case k < 19:
				op, _ := c18hUpdate(r, nil, "none", c18hRandIDs(r, pool, unknown, false), "http-update-no-schedule")
				steps = append(steps, c18rStep{op: op})
			case k < 30:
				steps = append(steps, c18rStep{op: c18hSet(c18hRandIDs(r, pool, unknown, r.Chance(1, 5)))})
			case k < 45 || len(cls) == 0:
				steps = append(steps, nobody)
			default:
				steps = append(steps, vfPick(r, cls).req())
			}
		}
		c18rRunHistory(t, out, in, cls, steps)
	}
}

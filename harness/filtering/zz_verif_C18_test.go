//go:build verif

package filtering

// C18, HTTP part: histories of blocked-services requests (PUT update, the
// deprecated POST set, GET get) against a real *DNSFilter.  One case per
// history; after every request the status, the GET answer, Contains of the
// stored schedule at some instants and (clock permitting) ApplyBlockedServices
// are recorded.  The monitor states the property on those observations without
// the model: a legacy set leaves the schedule alone, an accepted update is
// reported back as sent, a rejected request changes nothing, and the stored
// schedule's Contains is the wall-clock reading of what GET reports.

import (
	"encoding/json"
	"fmt"
	"math/big"
	"net/http"
	"net/http/httptest"
	"regexp"
	"sort"
	"strconv"
	"strings"
	"testing"
	"time"

	"github.com/AdguardTeam/AdGuardHome/internal/schedule"
	"gopkg.in/yaml.v3"
)

var c18hDayKeys = []string{"sun", "mon", "tue", "wed", "thu", "fri", "sat"}

var c18hZones = []string{
	"America/New_York", "Europe/London", "Australia/Lord_Howe", "Asia/Kolkata",
	"Asia/Kathmandu", "Pacific/Apia", "America/St_Johns", "UTC", "Pacific/Kiritimati",
	"Europe/Berlin", "Pacific/Chatham", "Local",
}

const c18hDayNs = int64(24 * time.Hour)

// c18hSched is the "schedule" member of an update body (or an initial
// configuration): the texts as they stand in the document.
type c18hSched struct {
	zone    string
	noZone  bool          // no "time_zone" key: loads as UTC
	days    [7]*[2]string // start, end number texts; nil = day absent
	order   []int         // document order of the days that are present
	endFrst [7]bool       // "end" written before "start"
	zoneEnd bool          // "time_zone" written after the days
}

var c18hPlain = regexp.MustCompile(`^([+-]?)([0-9]*)(?:\.([0-9]*))?$`)

// c18hMsExact: the text is a plain decimal on which the float path of
// aghhttp.JSONDuration (int64(ParseFloat(s)*1e6), computed here) equals the
// exact decimal scaled and truncated, which is returned.  Texts that are not
// plain decimals are accepted only from a short list of malformed ones.
func c18hMsExact(s string) (ns int64, syntaxErr, ok bool) {
	m := c18hPlain.FindStringSubmatch(s)
	if m == nil {
		switch s {
		case `"1h"`, "true", `"60000"`:
			return 0, true, true
		}
		return 0, false, false
	}
	digits := m[2] + m[3]
	if digits == "" || len(digits) > 30 {
		return 0, false, false
	}
	num, _ := new(big.Int).SetString(digits, 10)
	den := new(big.Int).Exp(big.NewInt(10), big.NewInt(int64(len(m[3]))), nil)
	p := new(big.Rat).Mul(new(big.Rat).SetFrac(num, den), big.NewRat(1000000, 1))
	if p.Cmp(new(big.Rat).SetInt(new(big.Int).Lsh(big.NewInt(1), 62))) >= 0 {
		return 0, false, false
	}
	exact := new(big.Int).Quo(p.Num(), p.Denom())
	if m[1] == "-" {
		exact.Neg(exact)
	}
	v, err := strconv.ParseFloat(s, 64)
	if err != nil || !exact.IsInt64() || int64(v*1e6) != exact.Int64() {
		return 0, false, false
	}
	return exact.Int64(), false, true
}

func c18hRangeOK(s, e int64) bool {
	if s == 0 && e == 0 {
		return true
	}
	return 0 <= s && s < e && e <= c18hDayNs && s < c18hDayNs &&
		s%int64(time.Minute) == 0 && e%int64(time.Minute) == 0
}

func c18hMs(ns int64) string { return strconv.FormatInt(ns/int64(time.Millisecond), 10) }

func c18hRandRange(r *vfRand) (s, e int64) {
	switch r.Intn(8) {
	case 0:
		return 0, 0
	case 1:
		return 0, c18hDayNs
	}
	a := int64(r.Intn(24*60)) * int64(time.Minute)
	b := int64(r.Intn(24*60+1)) * int64(time.Minute)
	if a > b {
		a, b = b, a
	}
	if a == b {
		if b == c18hDayNs {
			a -= int64(time.Minute)
		} else {
			b += int64(time.Minute)
		}
	}
	return a, b
}

// c18hValidSched builds a schedule document with validated ranges.
func c18hValidSched(r *vfRand, zone string, ranges [7][2]int64) *c18hSched {
	sc := &c18hSched{zone: zone}
	for d, rg := range ranges {
		if rg[0] == 0 && rg[1] == 0 {
			if r.Chance(1, 4) {
				sc.days[d] = &[2]string{"0", "0"}
				sc.order = append(sc.order, d)
			}
			continue
		}
		st, en := c18hMs(rg[0]), c18hMs(rg[1])
		if r.Chance(1, 10) {
			en += ".0"
		}
		sc.days[d] = &[2]string{st, en}
		sc.order = append(sc.order, d)
		sc.endFrst[d] = r.Chance(1, 5)
	}
	if r.Chance(1, 3) {
		vfShuffle(r, sc.order)
	}
	sc.zoneEnd = r.Bool()
	return sc
}

func c18hRandRanges(r *vfRand) (rs [7][2]int64) {
	switch r.Intn(6) {
	case 0: // whole week
		for d := range rs {
			rs[d] = [2]int64{0, c18hDayNs}
		}
	case 1: // nothing
	default:
		for d := range rs {
			rs[d][0], rs[d][1] = c18hRandRange(r)
		}
	}
	return rs
}

// json writes the schedule object and returns the number texts in document
// order as Coq fields.
func (sc *c18hSched) json() (doc string, fields []string) {
	var parts []string
	tz := ""
	if !sc.noZone {
		b, _ := json.Marshal(sc.zone)
		tz = `"time_zone":` + string(b)
	}
	if tz != "" && !sc.zoneEnd {
		parts = append(parts, tz)
	}
	for _, d := range sc.order {
		t := sc.days[d]
		fs := []string{"(" + vfNat(d) + ", false, " + vfBytes(t[0]) + ")", "(" + vfNat(d) + ", true, " + vfBytes(t[1]) + ")"}
		st, en := `"start":`+t[0], `"end":`+t[1]
		if sc.endFrst[d] {
			st, en = en, st
			fs[0], fs[1] = fs[1], fs[0]
		}
		parts = append(parts, `"`+c18hDayKeys[d]+`":{`+st+","+en+"}")
		fields = append(fields, fs...)
	}
	if tz != "" && sc.zoneEnd {
		parts = append(parts, tz)
	}
	return "{" + strings.Join(parts, ",") + "}", fields
}

// eval reads the document the way the property describes it, without the
// code under test: zone loadable, every text an exact number, every range a
// documented one.  usable=false: a text outside what the model is handed.
func (sc *c18hSched) eval() (ranges [7][2]int64, zoneName string, valid, usable bool) {
	valid = true
	for d, t := range sc.days {
		if t == nil {
			continue
		}
		for k := 0; k < 2; k++ {
			ns, syn, ok := c18hMsExact(t[k])
			if !ok {
				return ranges, "", false, false
			}
			if syn {
				valid = false
			}
			ranges[d][k] = ns
		}
	}
	zn := sc.zone
	if sc.noZone {
		zn = ""
	}
	loc, err := time.LoadLocation(zn)
	if err != nil {
		valid = false
	} else {
		zoneName = loc.String()
	}
	for _, rg := range ranges {
		if !c18hRangeOK(rg[0], rg[1]) {
			valid = false
		}
	}
	return ranges, zoneName, valid, true
}

func (sc *c18hSched) zoneLoads() (name string, ok bool) {
	zn := sc.zone
	if sc.noZone {
		zn = ""
	}
	loc, err := time.LoadLocation(zn)
	if err != nil {
		return "", false
	}
	return loc.String(), true
}

// c18hOp is one request of a history.
type c18hOp struct {
	kind   string // update | set | get
	body   string
	coq    string
	want   int // status the property expects
	ids    []string
	sched  *c18hSched // update with a schedule member
	ranges [7][2]int64
	zone   string
	label  string
}

func c18hCoqIDs(ids []string) string {
	items := make([]string, len(ids))
	for i, s := range ids {
		items[i] = vfBytes(s)
	}
	return vfList("bytes", items)
}

func c18hIDsJSON(ids []string) string {
	if ids == nil {
		return "null"
	}
	b, _ := json.Marshal(ids)
	return string(b)
}

func c18hKnown(id string) bool { _, ok := serviceRules[id]; return ok }

func c18hAllKnown(ids []string) bool {
	for _, id := range ids {
		if !c18hKnown(id) {
			return false
		}
	}
	return true
}

// c18hUpdate builds an update request.  schedMode: "none", "null", or a
// document.
func c18hUpdate(r *vfRand, sc *c18hSched, schedMode string, ids []string, label string) (op *c18hOp, ok bool) {
	op = &c18hOp{kind: "update", ids: ids, label: label}
	idsPart := `"ids":` + c18hIDsJSON(ids)
	var parts []string
	schedCoq := vfOpt("sched_doc", false, "")
	schedValid := true
	switch schedMode {
	case "none":
		parts = []string{idsPart}
		op.zone = "Local"
	case "null":
		parts = []string{`"schedule":null`, idsPart}
		op.zone = "Local"
	default:
		doc, fields := sc.json()
		var usable bool
		op.ranges, op.zone, schedValid, usable = sc.eval()
		if !usable {
			return nil, false
		}
		op.sched = sc
		zoneCoq := vfOpt("bytes", false, "")
		if zn, zok := sc.zoneLoads(); zok {
			zoneCoq = vfOpt("bytes", true, vfBytes(zn))
		}
		schedCoq = vfOpt("sched_doc", true, vfApp("Build_sched_doc", zoneCoq, vfList("field", fields)))
		parts = []string{`"schedule":` + doc, idsPart}
		if !schedValid {
			op.ranges, op.zone = [7][2]int64{}, ""
		}
	}
	if len(parts) == 2 && r.Bool() {
		parts[0], parts[1] = parts[1], parts[0]
	}
	if r.Chance(1, 8) {
		parts = append(parts, `"verif_extra":[1,{"a":null}]`)
	}
	op.body = "{" + strings.Join(parts, ",") + "}"
	op.coq = vfApp("OUpdate", schedCoq, c18hCoqIDs(ids))
	switch {
	case !schedValid:
		op.want = http.StatusBadRequest
	case !c18hAllKnown(ids):
		op.want = http.StatusUnprocessableEntity
	default:
		op.want = http.StatusOK
	}
	return op, true
}

var c18hBadUpdateBodies = []string{
	`{"ids":["4chan"]`, `{"ids":"4chan"}`, `[]`, `{"schedule":5,"ids":[]}`, ``, `{"ids":[1]}`,
	`{"schedule":{"time_zone":7},"ids":[]}`, `{"schedule":{"mon":[1,2]},"ids":[]}`, `nonsense`,
}

var c18hBadSetBodies = []string{`{"ids":[]}`, `["4chan"`, `[1]`, ``, `"4chan"`, `["4chan",{"a":1}]`, `nonsense`}

func c18hBadUpdate(r *vfRand) *c18hOp {
	return &c18hOp{kind: "update", body: vfPick(r, c18hBadUpdateBodies), coq: "OUpdateBad",
		want: http.StatusBadRequest, label: "http-update-bad-json"}
}

func c18hSet(ids []string) *c18hOp {
	return &c18hOp{kind: "set", body: c18hIDsJSON(ids), coq: vfApp("OSet", c18hCoqIDs(ids)),
		want: http.StatusOK, ids: ids, label: "http-legacy-set"}
}

func c18hBadSet(r *vfRand) *c18hOp {
	return &c18hOp{kind: "set", body: vfPick(r, c18hBadSetBodies), coq: "OSetBad",
		want: http.StatusBadRequest, label: "http-legacy-set-bad-json"}
}

func c18hGet() *c18hOp {
	return &c18hOp{kind: "get", coq: "OGet", want: http.StatusOK, label: "http-get"}
}

// c18hInit is the initial configuration of a history.
type c18hInit struct {
	how    string // empty | full | yaml | json
	zone   string
	ranges [7][2]int64
	ids    []string
	doc    string
}

func (in *c18hInit) build() (bs *BlockedServices, err error) {
	switch in.how {
	case "empty":
		return &BlockedServices{Schedule: schedule.EmptyWeekly(), IDs: in.ids}, nil
	case "full":
		return &BlockedServices{Schedule: schedule.FullWeekly(), IDs: in.ids}, nil
	case "yaml":
		var b strings.Builder
		b.WriteString("schedule:\n  time_zone: " + in.zone + "\n")
		for d, rg := range in.ranges {
			if rg[0] == 0 && rg[1] == 0 {
				continue
			}
			fmt.Fprintf(&b, "  %s:\n    start: %s\n    end: %s\n", c18hDayKeys[d], time.Duration(rg[0]), time.Duration(rg[1]))
		}
		b.WriteString("ids:")
		if len(in.ids) == 0 {
			b.WriteString(" []\n")
		} else {
			b.WriteString("\n")
			for _, id := range in.ids {
				b.WriteString("- " + strconv.Quote(id) + "\n")
			}
		}
		in.doc = b.String()
		bs = &BlockedServices{}
		err = yaml.Unmarshal([]byte(in.doc), bs)
		return bs, err
	default: // json
		var parts []string
		zb, _ := json.Marshal(in.zone)
		parts = append(parts, `"time_zone":`+string(zb))
		for d, rg := range in.ranges {
			if rg[0] == 0 && rg[1] == 0 {
				continue
			}
			parts = append(parts, fmt.Sprintf(`"%s":{"start":%s,"end":%s}`, c18hDayKeys[d], c18hMs(rg[0]), c18hMs(rg[1])))
		}
		in.doc = `{"schedule":{` + strings.Join(parts, ",") + `},"ids":` + c18hIDsJSON(in.ids) + `}`
		bs = &BlockedServices{}
		err = json.Unmarshal([]byte(in.doc), bs)
		return bs, err
	}
}

// c18hObs is what is observed after a request.
type c18hObs struct {
	status   int
	getOK    bool
	ids      []string
	zone     string
	days     [7]*[2]string
	ranges   [7][2]int64
	exact    bool
	probes   []bool
	offs     []int
	applied  []string
	appKind  string // "", "paused", "active": Contains before and after the call agree
	constWk  bool   // GET reports an all-full or all-empty week
	panicked string
}

func c18hLoc(zone string) (*time.Location, error) {
	if zone == "Local" {
		return time.Local, nil
	}
	return time.LoadLocation(zone)
}

func c18hObserve(d *DNSFilter, status int, instants []time.Time) (o *c18hObs) {
	o = &c18hObs{status: status}
	defer func() {
		if p := recover(); p != nil {
			o.panicked = fmt.Sprint(p)
		}
	}()
	w := httptest.NewRecorder()
	d.handleBlockedServicesGet(w, httptest.NewRequest(http.MethodGet, "/control/blocked_services/get", nil))
	var g struct {
		Schedule map[string]json.RawMessage `json:"schedule"`
		IDs      []string                   `json:"ids"`
	}
	if w.Code == http.StatusOK && json.Unmarshal(w.Body.Bytes(), &g) == nil && g.Schedule != nil {
		o.getOK = true
		o.ids = g.IDs
		_ = json.Unmarshal(g.Schedule["time_zone"], &o.zone)
		o.exact = true
		for i, k := range c18hDayKeys {
			raw, ok := g.Schedule[k]
			if !ok {
				continue
			}
			var dm map[string]json.RawMessage
			_ = json.Unmarshal(raw, &dm)
			o.days[i] = &[2]string{string(dm["start"]), string(dm["end"])}
			for j := 0; j < 2; j++ {
				ns, syn, ok := c18hMsExact(o.days[i][j])
				if !ok || syn {
					o.exact = false
				}
				o.ranges[i][j] = ns
			}
		}
	}
	var stored *schedule.Weekly
	func() {
		d.confMu.RLock()
		defer d.confMu.RUnlock()
		stored = d.conf.BlockedServices.Schedule
	}()
	loc, lerr := c18hLoc(o.zone)
	for _, t := range instants {
		o.probes = append(o.probes, stored.Contains(t))
		off := 0
		if lerr == nil {
			_, off = t.In(loc).Zone()
		}
		o.offs = append(o.offs, off)
	}
	before := stored.Contains(time.Now())
	setts := &Settings{}
	d.ApplyBlockedServices(setts)
	after := stored.Contains(time.Now())
	o.applied = []string{}
	for _, e := range setts.ServicesRules {
		o.applied = append(o.applied, e.Name)
	}
	if before == after {
		o.appKind = "active"
		if before {
			o.appKind = "paused"
		}
	}
	full, none := true, true
	for _, dd := range o.days {
		if dd != nil {
			none = false
		}
		if dd == nil || dd[0] != "0" || dd[1] != "86400000" {
			full = false
		}
	}
	o.constWk = o.getOK && (full || none)
	return o
}

// coq prints the observation; the schedule part is left out when it is
// textually the one of the previous observation.
func (o *c18hObs) coq(prev *c18hObs) string {
	sched := vfOpt("sched_obs", false, "")
	same := prev != nil && prev.getOK && o.getOK && prev.zone == o.zone
	for i := range o.days {
		x, y := o.days[i], (*[2]string)(nil)
		if prev != nil {
			y = prev.days[i]
		}
		if (x == nil) != (y == nil) || (x != nil && *x != *y) {
			same = false
		}
	}
	if !same {
		days := make([]string, 7)
		for i, dd := range o.days {
			if dd == nil {
				days[i] = "None"
			} else {
				days[i] = "Some " + vfPair(vfBytes(dd[0]), vfBytes(dd[1]))
			}
		}
		sched = vfOpt("sched_obs", true, vfPair(vfBytes(o.zone), vfList("text_day", days)))
	}
	probes := make([]string, len(o.probes))
	for i, b := range o.probes {
		probes[i] = "(" + vfZ(int64(o.offs[i])) + ", " + vfBool(b) + ")"
	}
	app := vfOpt("list bytes", false, "")
	if o.constWk && o.appKind != "" {
		app = vfOpt("list bytes", true, c18hCoqIDs(o.applied))
	}
	return "(" + strings.Join([]string{vfZ(int64(o.status)), c18hCoqIDs(o.ids), sched,
		vfList("Z * bool", probes), app}, ", ") + ")"
}

// c18hWall is the property's reading of "in effect at t": wall clock of t in
// loc against that weekday's range.
func c18hWall(loc *time.Location, ranges [7][2]int64, t time.Time) bool {
	lt := t.In(loc)
	h, m, s := lt.Clock()
	tod := int64(h)*int64(time.Hour) + int64(m)*int64(time.Minute) + int64(s)*int64(time.Second) + int64(lt.Nanosecond())
	rg := ranges[int(lt.Weekday())]
	return rg[0] <= tod && tod < rg[1]
}

func c18hSameIDs(a, b []string) bool {
	if len(a) != len(b) {
		return false
	}
	for i := range a {
		if a[i] != b[i] {
			return false
		}
	}
	return true
}

func c18hSameSched(a, b *c18hObs) string {
	if a.zone != b.zone {
		return fmt.Sprintf("time zone %q became %q", a.zone, b.zone)
	}
	for i := range a.days {
		x, y := a.days[i], b.days[i]
		if (x == nil) != (y == nil) || (x != nil && *x != *y) {
			return fmt.Sprintf("%s was %s, is %s", c18hDayKeys[i], c18hDayText(x), c18hDayText(y))
		}
	}
	for i := range a.probes {
		if a.probes[i] != b.probes[i] {
			return fmt.Sprintf("Contains at probe %d was %v, is %v", i, a.probes[i], b.probes[i])
		}
	}
	return ""
}

func c18hDayText(x *[2]string) string {
	if x == nil {
		return "absent"
	}
	return x[0] + "-" + x[1] + " ms"
}

// c18hMonitor checks one step: prev is the observation before the request.
func c18hMonitor(op *c18hOp, prev, cur *c18hObs, instants []time.Time) (msg, key string) {
	if cur.panicked != "" {
		return "panic: " + cur.panicked, "http-panic"
	}
	if !cur.getOK {
		return "GET /control/blocked_services/get gave no schedule", "http-get-failed"
	}
	if op != nil && cur.status != op.want {
		return fmt.Sprintf("%s with body %s answered %d, the property expects %d", op.kind, op.body, cur.status, op.want), "http-status-" + op.kind
	}
	switch {
	case op == nil:
	case op.kind == "set" && cur.status == http.StatusOK:
		if d := c18hSameSched(prev, cur); d != "" {
			return "legacy blocked_services/set changed the pause schedule: " + d, "http-legacy-set-changed-schedule"
		}
		if !c18hSameIDs(cur.ids, op.ids) {
			return fmt.Sprintf("legacy set stored ids %q, sent %q", cur.ids, op.ids), "http-legacy-set-ids"
		}
	case op.kind == "update" && cur.status == http.StatusOK:
		if cur.zone != op.zone {
			return fmt.Sprintf("update sent zone %q, GET reports %q", op.zone, cur.zone), "http-update-zone"
		}
		if !cur.exact || cur.ranges != op.ranges {
			return fmt.Sprintf("update sent ranges %v ns, GET reports %v", op.ranges, cur.ranges), "http-update-ranges"
		}
		if !c18hSameIDs(cur.ids, op.ids) {
			return fmt.Sprintf("update stored ids %q, sent %q", cur.ids, op.ids), "http-update-ids"
		}
	default: // rejected request, or GET
		if d := c18hSameSched(prev, cur); d != "" {
			return fmt.Sprintf("%s (status %d) changed the pause schedule: %s", op.kind, cur.status, d), "http-noop-changed-schedule"
		}
		if !c18hSameIDs(cur.ids, prev.ids) {
			return fmt.Sprintf("%s (status %d) changed the ids %q to %q", op.kind, cur.status, prev.ids, cur.ids), "http-noop-changed-ids"
		}
	}
	// the stored schedule is in effect exactly per the wall clock of what GET reports
	loc, lerr := c18hLoc(cur.zone)
	if lerr != nil || !cur.exact {
		return fmt.Sprintf("GET reports a schedule that cannot be read back (zone %q)", cur.zone), "http-get-unreadable"
	}
	for i, t := range instants {
		if exp := c18hWall(loc, cur.ranges, t); exp != cur.probes[i] {
			return fmt.Sprintf("stored schedule Contains(%s)=%v but the wall clock %s against the reported range says %v",
				t.UTC().Format(time.RFC3339Nano), cur.probes[i], t.In(loc).Format("Mon 15:04:05.999999999"), exp), "http-contains-wallclock"
		}
	}
	// blocking follows the pause
	if cur.appKind != "" {
		var want []string
		if cur.appKind == "active" {
			for _, id := range cur.ids {
				if c18hKnown(id) {
					want = append(want, id)
				}
			}
		}
		if !c18hSameIDs(want, cur.applied) {
			return fmt.Sprintf("ApplyBlockedServices gave %q while the pause is %s and the ids are %q", cur.applied, cur.appKind, cur.ids), "http-apply-pause"
		}
	}
	return "", ""
}

// c18hProbeInstants picks instants near the range edges of the schedules a
// history involves.
func c18hProbeInstants(r *vfRand, scheds []c18hInvolved, n int) (ts []time.Time) {
	for i := 0; i < n; i++ {
		base := time.Unix(r.Range(1577836800, 1893456000), r.Range(0, 999999999))
		if len(scheds) == 0 || i == n-1 {
			ts = append(ts, base.UTC())
			continue
		}
		sc := vfPick(r, scheds)
		loc, err := c18hLoc(sc.zone)
		if err != nil {
			ts = append(ts, base.UTC())
			continue
		}
		lt := base.In(loc)
		rg := sc.ranges[int(lt.Weekday())]
		if rg[0] == 0 && rg[1] == 0 {
			ts = append(ts, base.UTC())
			continue
		}
		edge := rg[r.Intn(2)]
		delta := []int64{-1, 0, 1, -int64(time.Minute), int64(time.Minute)}[r.Intn(5)]
		y, m, dd := lt.Date()
		tod := edge + delta
		t := time.Date(y, m, dd, int(tod/int64(time.Hour)), int(tod%int64(time.Hour)/int64(time.Minute)),
			int(tod%int64(time.Minute)/int64(time.Second)), int(tod%int64(time.Second)), loc)
		if tod < 0 {
			t = time.Date(y, m, dd, 0, 0, 0, 0, loc).Add(time.Duration(tod))
		}
		ts = append(ts, t.UTC())
	}
	return ts
}

type c18hInvolved struct {
	zone   string
	ranges [7][2]int64
}

// c18hRunHistory runs one history and emits its case.
func c18hRunHistory(t *testing.T, out *vfOut, r *vfRand, in *c18hInit, ops []*c18hOp, extra ...string) {
	bs, err := in.build()
	if err != nil {
		c18hInitFailed(out, in, err)
		return
	}
	d, err := New(&Config{BlockedServices: bs, ConfigModified: func() {}}, nil)
	if err != nil {
		out.Class("skipped-http-new-error")
		return
	}
	defer d.Close()

	involved := []c18hInvolved{{zone: in.zone, ranges: in.ranges}}
	for _, op := range ops {
		if op.sched != nil && op.want != http.StatusBadRequest {
			involved = append(involved, c18hInvolved{zone: op.zone, ranges: op.ranges})
		}
	}
	instants := c18hProbeInstants(r, involved, 4)

	classes := map[string]bool{}
	for _, e := range extra {
		classes[e] = true
	}
	monMsg, monKey := "", ""
	fail := func(step int, msg, key string) {
		if monMsg == "" && msg != "" {
			monMsg, monKey = fmt.Sprintf("request %d: %s", step, msg), key
		}
	}

	prev := c18hObserve(d, http.StatusOK, instants)
	// the initial configuration is reported and in effect as configured
	if prev.getOK && (prev.zone != in.zone || !prev.exact || prev.ranges != in.ranges) {
		fail(0, fmt.Sprintf("configured zone %q ranges %v, GET reports %q %v", in.zone, in.ranges, prev.zone, prev.ranges), "http-init-reported")
	}
	m, k := c18hMonitor(nil, nil, prev, instants)
	fail(0, m, k)
	obs0 := prev.coq(nil)

	known := map[string]bool{}
	note := func(ids []string) {
		for _, id := range ids {
			if c18hKnown(id) {
				known[id] = true
			}
		}
	}
	note(in.ids)

	steps := make([]string, 0, len(ops))
	descOps := make([]map[string]any, 0, len(ops))
	lastSchedFrom := in.how
	nonEmpty := func(rs [7][2]int64) bool { return rs != [7][2]int64{} }
	curNonEmpty := nonEmpty(in.ranges)
	nontrivial := false
	for i, op := range ops {
		note(op.ids)
		var h func(http.ResponseWriter, *http.Request)
		method, path := http.MethodGet, "/control/blocked_services/get"
		switch op.kind {
		case "update":
			h, method, path = d.handleBlockedServicesUpdate, http.MethodPut, "/control/blocked_services/update"
		case "set":
			h, method, path = d.handleBlockedServicesSet, http.MethodPost, "/control/blocked_services/set"
		default:
			h = d.handleBlockedServicesGet
		}
		w := httptest.NewRecorder()
		pan := ""
		func() {
			defer func() {
				if p := recover(); p != nil {
					pan = fmt.Sprint(p)
				}
			}()
			h(w, httptest.NewRequest(method, path, strings.NewReader(op.body)))
		}()
		cur := c18hObserve(d, w.Code, instants)
		if pan != "" && cur.panicked == "" {
			cur.panicked = pan
		}
		m, k := c18hMonitor(op, prev, cur, instants)
		fail(i+1, m, k)

		classes[op.label] = true
		if op.kind == "set" && cur.status == http.StatusOK {
			nontrivial = true
			if curNonEmpty && lastSchedFrom == "update" {
				classes["http-legacy-set-after-update"] = true
			}
			if curNonEmpty && lastSchedFrom == "yaml" {
				classes["http-legacy-set-after-yaml"] = true
			}
			if !c18hAllKnown(op.ids) {
				classes["http-legacy-set-unknown-id"] = true
			}
			if cur.constWk && cur.appKind == "paused" && len(cur.ids) > 0 {
				classes["http-pause-full-week-after-set"] = true
			}
		}
		if op.kind == "update" && cur.status == http.StatusOK {
			nontrivial = true
			lastSchedFrom = "update"
			curNonEmpty = nonEmpty(op.ranges)
		}
		if cur.constWk && cur.appKind != "" {
			classes["http-apply-"+cur.appKind] = true
		}
		steps = append(steps, vfPair(op.coq, cur.coq(prev)))
		descOps = append(descOps, map[string]any{"req": method + " " + path, "body": op.body, "status": cur.status,
			"get_zone": cur.zone, "get_ids": cur.ids, "get_days_ns": fmt.Sprint(cur.ranges), "contains": fmt.Sprint(cur.probes),
			"applied": cur.applied, "pause_now": cur.appKind})
		prev = cur
	}

	kn := make([]string, 0, len(known))
	for id := range known {
		kn = append(kn, id)
	}
	sort.Strings(kn)
	initDays := make([]string, 7)
	for i, rg := range in.ranges {
		initDays[i] = vfPair(vfZ(rg[0]), vfZ(rg[1]))
	}
	cls := make([]string, 0, len(classes))
	for c := range classes {
		cls = append(cls, c)
	}
	sort.Strings(cls)
	ins := make([]string, len(instants))
	insCoq := make([]string, len(instants))
	for i, ti := range instants {
		ins[i] = ti.Format(time.RFC3339Nano)
		insCoq[i] = vfZ(ti.UnixNano())
	}
	c := vfCase{
		Coq: vfApp("C18.CHttp", c18hCoqIDs(kn), c18hCoqIDs(in.ids), vfBytes(in.zone), vfList("Z * Z", initDays),
			vfList("Z", insCoq), obs0, vfList("op * http_obs", steps)),
		Nontrivial: nontrivial, Classes: cls,
		MonitorOK: monMsg == "", MonitorMsg: monMsg, FindingKey: monKey,
		Desc: map[string]any{"kind": "http-history", "init": in.how, "init_doc": in.doc, "init_zone": in.zone,
			"init_ids": in.ids, "init_ranges_ns": fmt.Sprint(in.ranges), "instants": ins, "requests": descOps},
	}
	out.Emit(c)
}

func c18hPool() (knownIDs, unknownIDs []string) {
	for _, id := range []string{"4chan", "9gag"} {
		if c18hKnown(id) {
			knownIDs = append(knownIDs, id)
		}
	}
	if n := len(serviceIDs); n > 0 {
		knownIDs = append(knownIDs, serviceIDs[n/2], serviceIDs[n-1])
	}
	return knownIDs, []string{"verif_unknown_svc", "4Chan", ""}
}

func c18hRandIDs(r *vfRand, pool, unknown []string, withUnknown bool) (ids []string) {
	n := r.Intn(4)
	ids = []string{}
	for i := 0; i < n; i++ {
		ids = append(ids, vfPick(r, pool))
	}
	if withUnknown {
		at := r.Intn(len(ids) + 1)
		ids = append(ids[:at], append([]string{vfPick(r, unknown)}, ids[at:]...)...)
	}
	return ids
}

// c18hCorrupt makes a validated schedule document one the property rejects.
func c18hCorrupt(r *vfRand, sc *c18hSched) (label string) {
	if r.Chance(1, 4) {
		sc.zone, sc.noZone = vfPick(r, []string{"Mars/Olympus", "Europe/Nowhere", "local", "UTC+25"}), false
		return "http-update-bad-zone"
	}
	d := r.Intn(7)
	bad := [][2]string{{"-60000", "60000"}, {"7200000", "3600000"}, {"60000", "60000"}, {"0", "86460000"},
		{"86400000", "86460000"}, {"61000", "120000"}, {"60000", "120000.5"}, {"0", "1"}, {"0", "-60000"},
		{`"1h"`, "60000"}, {"0", "true"}, {"3600000", `"60000"`}}
	t := vfPick(r, bad)
	if sc.days[d] == nil {
		sc.order = append(sc.order, d)
	}
	sc.days[d] = &t
	return "http-update-bad-schedule"
}

func c18hRandInit(r *vfRand, pool []string) *c18hInit {
	in := &c18hInit{ids: c18hRandIDs(r, pool, nil, false)}
	switch r.Intn(6) {
	case 0:
		in.how, in.zone = "empty", "Local"
	case 1:
		in.how, in.zone = "full", "Local"
		for d := range in.ranges {
			in.ranges[d] = [2]int64{0, c18hDayNs}
		}
	case 2, 3:
		in.how, in.zone, in.ranges = "yaml", vfPick(r, c18hZones), c18hRandRanges(r)
	default:
		in.how, in.zone, in.ranges = "json", vfPick(r, c18hZones), c18hRandRanges(r)
	}
	return in
}

func c18hRandOp(r *vfRand, pool, unknown []string) *c18hOp {
	for {
		k := r.Intn(100)
		switch {
		case k < 30:
			sc := c18hValidSched(r, vfPick(r, c18hZones), c18hRandRanges(r))
			if r.Chance(1, 12) {
				sc.noZone = true
			}
			if op, ok := c18hUpdate(r, sc, "doc", c18hRandIDs(r, pool, unknown, false), "http-update-ok"); ok {
				return op
			}
		case k < 40:
			sc := c18hValidSched(r, vfPick(r, c18hZones), c18hRandRanges(r))
			label := c18hCorrupt(r, sc)
			if op, ok := c18hUpdate(r, sc, "doc", c18hRandIDs(r, pool, unknown, r.Chance(1, 4)), label); ok {
				return op
			}
		case k < 47:
			sc := c18hValidSched(r, vfPick(r, c18hZones), c18hRandRanges(r))
			if op, ok := c18hUpdate(r, sc, "doc", c18hRandIDs(r, pool, unknown, true), "http-update-bad-id"); ok {
				return op
			}
		case k < 54:
			return c18hBadUpdate(r)
		case k < 60:
			mode := "none"
			if r.Bool() {
				mode = "null"
			}
			op, _ := c18hUpdate(r, nil, mode, c18hRandIDs(r, pool, unknown, r.Chance(1, 5)), "http-update-no-schedule")
			return op
		case k < 85:
			ids := c18hRandIDs(r, pool, unknown, r.Chance(1, 4))
			if r.Chance(1, 15) {
				ids = nil
			}
			return c18hSet(ids)
		case k < 92:
			return c18hBadSet(r)
		default:
			return c18hGet()
		}
	}
}

// c18hInitFailed: the configuration document of a history was refused.  The
// property says a document with validated ranges in a zone the tz database
// has is read; the case is the document handed to the model's decoder.
func c18hInitFailed(out *vfOut, in *c18hInit, err error) {
	if in.how != "yaml" && in.how != "json" {
		out.Class("skipped-http-init-error")
		return
	}
	_, lerr := time.LoadLocation(in.zone)
	valid := lerr == nil
	for _, rg := range in.ranges {
		valid = valid && c18hRangeOK(rg[0], rg[1])
	}
	code := c18hDocErrCode(err)
	if code == -2 {
		out.Class("skipped-http-init-error")
		return
	}
	msg, key := "", ""
	if valid {
		msg = fmt.Sprintf("configuration document (%s) with validated ranges in zone %q, which the tz database has, is refused: %v; document %s",
			in.how, in.zone, err, strings.TrimSpace(in.doc))
		key = "config-refused-" + in.how
	}
	out.Emit(vfCase{
		Coq: vfApp("C18.CZoneDoc", vfBool(in.how == "yaml"), vfBytes(in.zone), vfBool(lerr == nil), in.coqFields(), vfZ(code),
			vfBytes(""), "(@nil (Z * Z))", vfBytes(""), vfList("text_day", nil)),
		Nontrivial: true, Classes: []string{"config-doc-refused"},
		MonitorOK: msg == "", MonitorMsg: msg, FindingKey: key,
		Desc: map[string]any{"kind": "config-document", "form": in.how, "zone": in.zone, "doc": in.doc, "err": fmt.Sprint(err)},
	})
}

// c18hDocErrCode maps a decoder error to the model's code: 200 zone, 10*day +
// range error; -2 anything else.
func c18hDocErrCode(err error) int64 {
	if err == nil {
		return -1
	}
	msg := err.Error()
	if strings.Contains(msg, "unknown time zone") || strings.Contains(msg, "invalid location name") {
		return 200
	}
	day := int64(-1)
	for i := 0; i < 7; i++ {
		if strings.Contains(msg, "weekday "+time.Weekday(i).String()+":") {
			day = int64(i)
		}
	}
	if day < 0 {
		return -2
	}
	code := int64(0)
	switch {
	case strings.Contains(msg, ": start ") && strings.Contains(msg, "is negative"):
		code = 1
	case strings.Contains(msg, ": end ") && strings.Contains(msg, "is negative"):
		code = 2
	case strings.Contains(msg, "is greater or equal to end"):
		code = 3
	case strings.Contains(msg, ": start ") && strings.Contains(msg, "is greater or equal to"):
		code = 4
	case strings.Contains(msg, ": end ") && strings.Contains(msg, "is greater than"):
		code = 5
	case strings.Contains(msg, ": start ") && strings.Contains(msg, "isn't rounded"):
		code = 6
	case strings.Contains(msg, ": end ") && strings.Contains(msg, "isn't rounded"):
		code = 7
	}
	return 10*day + code
}

// coqFields: the duration texts of the configuration document build() writes,
// in document order.
func (in *c18hInit) coqFields() string {
	var fs []string
	for d, rg := range in.ranges {
		if rg[0] == 0 && rg[1] == 0 {
			continue
		}
		st, en := c18hMs(rg[0]), c18hMs(rg[1])
		if in.how == "yaml" {
			st, en = time.Duration(rg[0]).String(), time.Duration(rg[1]).String()
		}
		fs = append(fs, "("+vfNat(d)+", false, "+vfBytes(st)+")", "("+vfNat(d)+", true, "+vfBytes(en)+")")
	}
	return vfList("field", fs)
}

func c18hWeek(s, e int64) (rs [7][2]int64) {
	for d := range rs {
		rs[d] = [2]int64{s, e}
	}
	return rs
}

func TestVerifC18(t *testing.T) {
	out := vfOpen(t, "C18")
	defer out.Close()
	InitModule()
	pool, unknown := c18hPool()
	if len(pool) < 2 {
		t.Fatalf("service table too small: %q", pool)
	}
	a, b := pool[0], pool[1]
	h, mi := int64(time.Hour), int64(time.Minute)

	// ---- prelude: one constructed history per class (seed-independent)
	pr := vfNewRand(1818)
	mustUpd := func(sc *c18hSched, mode string, ids []string, label string) *c18hOp {
		op, ok := c18hUpdate(pr, sc, mode, ids, label)
		if !ok {
			t.Fatalf("prelude update not usable: %+v", sc)
		}
		return op
	}
	work := c18hWeek(9*h, 17*h+30*mi)
	work[0], work[6] = [2]int64{}, [2]int64{0, c18hDayNs}
	empty := &c18hInit{how: "empty", zone: "Local", ids: []string{}}
	yamlNY := func() *c18hInit {
		return &c18hInit{how: "yaml", zone: "America/New_York", ranges: work, ids: []string{a}}
	}
	jsonBerlin := func() *c18hInit {
		return &c18hInit{how: "json", zone: "Europe/Berlin", ranges: c18hWeek(22*h, 24*h), ids: []string{a, b}}
	}
	fullInit := &c18hInit{how: "full", zone: "Local", ranges: c18hWeek(0, c18hDayNs), ids: []string{b}}

	// the scenario of seeded change C18-E: full-week pause set through update,
	// then only the ids changed through the deprecated endpoint
	c18hRunHistory(t, out, pr, empty, []*c18hOp{
		mustUpd(c18hValidSched(pr, "Asia/Kolkata", c18hWeek(0, c18hDayNs)), "doc", []string{a}, "http-update-ok"),
		c18hSet([]string{a, b}), c18hGet()})
	c18hRunHistory(t, out, pr, empty, []*c18hOp{
		mustUpd(c18hValidSched(pr, "Australia/Lord_Howe", work), "doc", []string{a}, "http-update-ok"),
		c18hSet([]string{b}), c18hSet([]string{})})
	c18hRunHistory(t, out, pr, yamlNY(), []*c18hOp{c18hSet([]string{b, a}), c18hGet()})
	c18hRunHistory(t, out, pr, &c18hInit{how: "yaml", zone: "Pacific/Apia", ranges: c18hWeek(0, c18hDayNs), ids: []string{a}},
		[]*c18hOp{c18hSet([]string{a, b})})
	c18hRunHistory(t, out, pr, yamlNY(), []*c18hOp{c18hBadSet(pr), c18hBadSet(pr)})
	c18hRunHistory(t, out, pr, empty, []*c18hOp{c18hSet([]string{"verif_unknown_svc", a}), c18hSet(nil)})
	c18hRunHistory(t, out, pr, fullInit, []*c18hOp{c18hSet([]string{a}), c18hGet()})
	{
		sc := c18hValidSched(pr, "Europe/London", work)
		sc.days[2] = &[2]string{"7200000", "3600000"}
		c18hRunHistory(t, out, pr, jsonBerlin(), []*c18hOp{mustUpd(sc, "doc", []string{a}, "http-update-bad-schedule"), c18hGet()})
		sc = c18hValidSched(pr, "Europe/London", work)
		sc.days[3] = &[2]string{"60000", "120000.5"}
		c18hRunHistory(t, out, pr, jsonBerlin(), []*c18hOp{mustUpd(sc, "doc", []string{a}, "http-update-bad-schedule")})
		sc = c18hValidSched(pr, "Mars/Olympus", work)
		c18hRunHistory(t, out, pr, yamlNY(), []*c18hOp{mustUpd(sc, "doc", []string{b}, "http-update-bad-zone")})
		sc = c18hValidSched(pr, "Asia/Kathmandu", work)
		c18hRunHistory(t, out, pr, yamlNY(), []*c18hOp{
			mustUpd(sc, "doc", []string{a, "verif_unknown_svc"}, "http-update-bad-id"), c18hSet([]string{b})})
		sc = c18hValidSched(pr, "", work)
		sc.noZone = true
		c18hRunHistory(t, out, pr, empty, []*c18hOp{mustUpd(sc, "doc", []string{a}, "http-update-ok"), c18hSet([]string{b})})
	}
	for range c18hBadUpdateBodies {
		c18hRunHistory(t, out, pr, jsonBerlin(), []*c18hOp{c18hBadUpdate(pr)})
	}
	c18hRunHistory(t, out, pr, fullInit, []*c18hOp{mustUpd(nil, "none", []string{a}, "http-update-no-schedule"), c18hSet([]string{b})})
	c18hRunHistory(t, out, pr, yamlNY(), []*c18hOp{mustUpd(nil, "null", []string{}, "http-update-no-schedule")})
	c18hRunHistory(t, out, pr, yamlNY(), []*c18hOp{c18hGet(), c18hGet()})

	// ---- random histories
	rnd := vfNewRand(out.Seed).Fork(18)
	n := out.Scale(130, 1500)
	for i := 0; i < n; i++ {
		r := rnd.Fork(uint64(i))
		in := c18hRandInit(r, pool)
		ops := make([]*c18hOp, 1+r.Intn(8))
		for j := range ops {
			ops[j] = c18hRandOp(r, pool, unknown)
		}
		c18hRunHistory(t, out, r, in, ops)
	}

	// ---- life cycle: request -> ConfigModified -> file -> restart
	// (zz_verif_C18life_test.go)
	c18lLifeHistories(t, out, pool, unknown)

	// ---- every zone of the host: configuration documents through
	// BlockedServices, and update / get through the handlers
	c18hAllZones(t, out, pool)
}

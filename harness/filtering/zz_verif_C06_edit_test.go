//go:build verif

package filtering

import (
	"bytes"
	"encoding/json"
	"fmt"
	"net/http"
	"net/http/httptest"
	"net/netip"
	"sort"
	"strings"
	"testing"
	"time"

	"github.com/miekg/dns"
)

// ---- C06, edit histories: the rewrite table is changed through the real
// HTTP handlers (POST /control/rewrite/add, POST /control/rewrite/delete,
// PUT /control/rewrite/update, as RegisterFilteringHandlers registers them),
// read back with GET /control/rewrite/list, and queried with CheckHost after
// every request.

type c06Op struct {
	kind   string   // "add", "del", "upd", "bad"
	d, a   string   // add / del: the entry; upd: the target
	nd, na string   // upd: the new entry
	badURL string   // bad: which endpoint receives the malformed body
	badRaw string   // bad: the body
	cls    []string // classes forced by the constructor (prelude)
}

type c06History struct {
	label string
	init  []c06Entry
	ops   []c06Op
}

var (
	// Names queried after every request.  q.a.test is covered only by
	// wildcards, x.test is the usual CNAME target.
	c06EditQ = []string{"a.test", "b.a.test", "q.a.test", "x.test"}

	c06EditDoms  = []string{"a.test", "b.a.test", "x.test", "*.a.test", "*.test"}
	c06EditMixed = []string{"A.Test", "B.a.TEST", "X.test", "*.A.test", "*.TEST"}
	c06EditV4    = []string{"1.2.3.4", "1.1.1.1"}
	c06EditV6    = []string{"1234::5678", "::1"}
	c06EditCn    = []string{"x.test", "a.test", "X.Test", "other.example", "b.a.test"}
)

type c06JSONEntry struct {
	Domain string `json:"domain"`
	Answer string `json:"answer"`
}

type c06JSONUpdate struct {
	Target c06JSONEntry `json:"target"`
	Update c06JSONEntry `json:"update"`
}

func c06AnsKind(a string) string {
	switch {
	case a == "A" || a == "AAAA":
		return "exc"
	}
	ip, err := netip.ParseAddr(a)
	switch {
	case err != nil:
		return "cname"
	case ip.Is4():
		return "v4"
	default:
		return "v6"
	}
}

func c06EditPrelude() []c06History {
	E := func(kv ...string) (es []c06Entry) {
		for i := 0; i+1 < len(kv); i += 2 {
			es = append(es, c06Entry{kv[i], kv[i+1]})
		}
		return es
	}
	add := func(d, a string) c06Op { return c06Op{kind: "add", d: d, a: a} }
	del := func(d, a string) c06Op { return c06Op{kind: "del", d: d, a: a} }
	upd := func(d, a, nd, na string) c06Op { return c06Op{kind: "upd", d: d, a: a, nd: nd, na: na} }
	bad := func(url, raw string) c06Op { return c06Op{kind: "bad", badURL: url, badRaw: raw} }
	return []c06History{
		// The four scenarios of the seeded change C06-E: an address entry is
		// updated into the "A" / "AAAA" exception.
		{label: "edit-pre-v4-to-a-exc", init: E("a.test", "1.2.3.4"), ops: []c06Op{upd("a.test", "1.2.3.4", "a.test", "A")}},
		{label: "edit-pre-v6-to-aaaa-exc", init: E("a.test", "1234::5678"), ops: []c06Op{upd("a.test", "1234::5678", "a.test", "AAAA")}},
		{label: "edit-pre-v4-to-aaaa-exc", init: E("a.test", "1.2.3.4"), ops: []c06Op{upd("a.test", "1.2.3.4", "a.test", "AAAA")}},
		{label: "edit-pre-wild-v4-to-a-exc", init: E("*.a.test", "1.2.3.4"), ops: []c06Op{upd("*.a.test", "1.2.3.4", "*.a.test", "A")}},
		// the same on an entry that was itself added through the API, beside
		// a wildcard value that the exception must not let through either
		{label: "edit-pre-added-then-exc", init: E("*.test", "1.1.1.1", "*.test", "::1"), ops: []c06Op{
			add("A.Test", "1.2.3.4"), upd("a.test", "1.2.3.4", "a.test", "A"), upd("a.test", "A", "a.test", "AAAA")}},
		{label: "edit-pre-exc-to-addr", init: E("a.test", "A", "*.test", "1.1.1.1"), ops: []c06Op{
			upd("a.test", "A", "a.test", "1.2.3.4"), upd("a.test", "1.2.3.4", "a.test", "1234::5678")}},
		{label: "edit-pre-cname-to-addr", init: E("b.a.test", "x.test", "x.test", "1.1.1.1"), ops: []c06Op{
			upd("b.a.test", "x.test", "b.a.test", "1.2.3.4"), upd("b.a.test", "1.2.3.4", "b.a.test", "X.Test")}},
		{label: "edit-pre-cname-to-exc", init: E("a.test", "x.test", "x.test", "1.1.1.1", "*.test", "1.2.3.4"), ops: []c06Op{
			upd("a.test", "x.test", "a.test", "A"), upd("a.test", "A", "a.test", "a.test")}},
		{label: "edit-pre-exact-wild", init: E("b.a.test", "1.2.3.4"), ops: []c06Op{
			upd("b.a.test", "1.2.3.4", "*.a.test", "1.2.3.4"), upd("*.a.test", "1.2.3.4", "q.a.test", "1.2.3.4")}},
		{label: "edit-pre-v4-v6", init: E("a.test", "1.2.3.4"), ops: []c06Op{
			upd("a.test", "1.2.3.4", "a.test", "1234::5678"), upd("a.test", "1234::5678", "a.test", "1.1.1.1")}},
		{label: "edit-pre-upd-missing", init: E("a.test", "1.2.3.4"), ops: []c06Op{
			upd("a.test", "1.1.1.1", "a.test", "A"), upd("b.a.test", "1.2.3.4", "a.test", "A")}},
		{label: "edit-pre-add", ops: []c06Op{add("a.test", "1.2.3.4"), add("*.A.test", "X.Test"), add("x.test", "::1"), add("b.a.test", "AAAA")}},
		{label: "edit-pre-add-dup", init: E("a.test", "1.2.3.4"), ops: []c06Op{
			add("a.test", "1.2.3.4"), add("A.TEST", "1.2.3.4"), del("a.test", "1.2.3.4")}},
		{label: "edit-pre-add-invalid", init: E("a.test", "1.2.3.4"), ops: []c06Op{
			bad("/control/rewrite/add", `{"domain": 5}`), bad("/control/rewrite/delete", `not json`),
			bad("/control/rewrite/update", `{"target": []}`), bad("/control/rewrite/add", ``)}},
		{label: "edit-pre-del", init: E("a.test", "1.2.3.4", "a.test", "A", "*.a.test", "x.test"), ops: []c06Op{
			del("a.test", "A"), del("*.a.test", "x.test"), del("a.test", "1.2.3.4")}},
		{label: "edit-pre-del-missing", init: E("a.test", "1.2.3.4"), ops: []c06Op{
			del("a.test", "1.1.1.1"), del("x.test", "1.2.3.4")}},
		{label: "edit-pre-del-dup", init: E("a.test", "1.2.3.4", "x.test", "::1", "a.test", "1.2.3.4"), ops: []c06Op{
			upd("a.test", "1.2.3.4", "a.test", "A"), add("a.test", "A"), del("a.test", "A")}},
		// the target is compared as sent: another spelling is not found
		{label: "edit-pre-case-target", init: E("A.Test", "1.2.3.4", "b.a.test", "X.Test"), ops: []c06Op{
			del("A.Test", "1.2.3.4"), upd("A.Test", "1.2.3.4", "a.test", "A"), del("b.a.test", "X.Test"),
			upd("b.a.test", "x.test", "b.a.test", "A"), del("a.test", "1.2.3.4")}},
		{label: "edit-pre-exc-then-delete-exc", init: E("a.test", "1.2.3.4", "a.test", "::1"), ops: []c06Op{
			upd("a.test", "::1", "a.test", "AAAA"), del("a.test", "AAAA"), add("a.test", "A"), del("a.test", "1.2.3.4")}},
	}
}

func c06EditRandAns(r *vfRand, d string) string {
	switch k := r.Intn(100); {
	case k < 25:
		return vfPick(r, c06EditV4)
	case k < 40:
		return vfPick(r, c06EditV6)
	case k < 55:
		return "A"
	case k < 68:
		return "AAAA"
	case k < 75:
		return strings.ToLower(d)
	default:
		return vfPick(r, c06EditCn)
	}
}

func c06EditRandDom(r *vfRand) string {
	if r.Chance(1, 6) {
		return vfPick(r, c06EditMixed)
	}
	return vfPick(r, c06EditDoms)
}

// c06EditRandHistory: the requests are drawn against a shadow of the list as
// the API would report it, so that most deletes and updates hit an entry.
func c06EditRandHistory(r *vfRand) (h c06History) {
	h.label = "edit-rand"
	var shadow []c06Entry // lower-cased as list reports them (approximation, used for drawing only)
	norm := func(e c06Entry) c06Entry {
		e.dom = strings.ToLower(e.dom)
		if c06AnsKind(e.ans) == "cname" {
			e.ans = strings.ToLower(e.ans)
		}
		return e
	}
	for i, n := 0, r.Intn(4); i < n; i++ {
		d := c06EditRandDom(r)
		e := c06Entry{d, c06EditRandAns(r, d)}
		h.init = append(h.init, e)
		shadow = append(shadow, norm(e))
	}
	if len(h.init) > 0 && r.Chance(1, 5) {
		e := vfPick(r, h.init)
		h.init = append(h.init, e)
		shadow = append(shadow, norm(e))
	}
	newFor := func(old c06Entry) c06Entry {
		switch k := r.Intn(10); {
		case k < 5: // same name, another answer
			return c06Entry{old.dom, c06EditRandAns(r, old.dom)}
		case k < 7: // same answer, another name
			return c06Entry{c06EditRandDom(r), old.ans}
		default:
			d := c06EditRandDom(r)
			return c06Entry{d, c06EditRandAns(r, d)}
		}
	}
	nOps := 1 + r.Intn(8)
	if r.Chance(1, 2) {
		nOps = 1 + r.Intn(4)
	}
	for i := 0; i < nOps; i++ {
		k := r.Intn(100)
		switch {
		case k < 4:
			url := vfPick(r, []string{"/control/rewrite/add", "/control/rewrite/delete", "/control/rewrite/update"})
			h.ops = append(h.ops, c06Op{kind: "bad", badURL: url, badRaw: vfPick(r, []string{`{"domain": 5}`, `[]`, `{`, ``})})
		case k < 34 || len(shadow) == 0:
			var e c06Entry
			if len(shadow) > 0 && r.Chance(1, 5) {
				e = vfPick(r, shadow) // duplicate
			} else {
				d := c06EditRandDom(r)
				e = c06Entry{d, c06EditRandAns(r, d)}
			}
			h.ops = append(h.ops, c06Op{kind: "add", d: e.dom, a: e.ans})
			shadow = append(shadow, norm(e))
		case k < 52:
			t := vfPick(r, shadow)
			switch m := r.Intn(12); {
			case m == 0:
				t.dom = c06MixCase(r, t.dom) // another spelling: not found
			case m == 1:
				t.ans = c06EditRandAns(r, t.dom)
			}
			h.ops = append(h.ops, c06Op{kind: "del", d: t.dom, a: t.ans})
			var rest []c06Entry
			for _, s := range shadow {
				if s != t {
					rest = append(rest, s)
				}
			}
			shadow = rest
		default:
			t := vfPick(r, shadow)
			n := newFor(t)
			switch m := r.Intn(14); {
			case m == 0:
				t.dom = c06MixCase(r, t.dom)
			case m == 1:
				t.ans = c06EditRandAns(r, t.dom)
			}
			h.ops = append(h.ops, c06Op{kind: "upd", d: t.dom, a: t.ans, nd: n.dom, na: n.ans})
			for j, s := range shadow {
				if s == t {
					shadow[j] = norm(n)
					break
				}
			}
		}
	}
	return h
}

// c06EditShapes: the shapes of the constructed prelude histories
// (edit-pre-*), each instantiated at random by c06EditShapedHistory (class
// edit-shape-<shape>).
var c06EditShapes = []string{"v4-to-a-exc", "v6-to-aaaa-exc", "v4-to-aaaa-exc", "v6-to-a-exc",
	"wild-v4-to-a-exc", "wild-v6-to-aaaa-exc", "added-then-exc", "exc-to-addr", "cname-to-addr", "cname-to-exc",
	"exact-wild", "v4-v6", "upd-missing", "add", "add-dup", "add-invalid", "del", "del-missing", "del-dup",
	"case-target", "exc-then-delete-exc"}

// c06EditShapedHistory: one of the prelude's edit shapes over a random name
// (a.test, b.a.test, x.test), random addresses, a random wildcard covering the
// name, and 0-3 surrounding entries (wildcard values of both families beside
// the edited rule, so that what an exception lets through or hides is
// visible), optionally followed by one more random request.
func c06EditShapedHistory(r *vfRand, shape string) (h c06History) {
	h.label = "edit-shape-" + shape
	add := func(d, a string) c06Op { return c06Op{kind: "add", d: d, a: a} }
	del := func(d, a string) c06Op { return c06Op{kind: "del", d: d, a: a} }
	upd := func(d, a, nd, na string) c06Op { return c06Op{kind: "upd", d: d, a: a, nd: nd, na: na} }
	bad := func(url, raw string) c06Op { return c06Op{kind: "bad", badURL: url, badRaw: raw} }
	name := vfPick(r, []string{"a.test", "b.a.test", "x.test"})
	wild := "*.test"
	if name == "b.a.test" && r.Chance(2, 3) {
		wild = "*.a.test"
	}
	v4, v4b := c06EditV4[0], c06EditV4[1]
	if r.Chance(1, 2) {
		v4, v4b = v4b, v4
	}
	v6, v6b := c06EditV6[0], c06EditV6[1]
	if r.Chance(1, 2) {
		v6, v6b = v6b, v6
	}
	cn := vfPick(r, []string{"x.test", "a.test", "other.example", "b.a.test"})
	for cn == name {
		cn = vfPick(r, []string{"x.test", "a.test", "other.example", "b.a.test"})
	}
	mixed := func(d string) string {
		if r.Chance(1, 2) {
			return c06MixCase(r, d)
		}
		return d
	}
	E := func(d, a string) { h.init = append(h.init, c06Entry{d, a}) }
	// surroundings
	around := func() {
		if r.Chance(2, 3) {
			E(wild, v4b)
		}
		if r.Chance(1, 2) {
			E(wild, v6b)
		}
		if r.Chance(1, 4) {
			d := c06EditRandDom(r)
			if strings.ToLower(d) != name {
				E(d, c06EditRandAns(r, d))
			}
		}
	}
	switch shape {
	case "v4-to-a-exc":
		E(name, v4)
		around()
		h.ops = []c06Op{upd(name, v4, mixed(name), "A")}
	case "v6-to-aaaa-exc":
		E(name, v6)
		around()
		h.ops = []c06Op{upd(name, v6, mixed(name), "AAAA")}
	case "v4-to-aaaa-exc":
		E(name, v4)
		around()
		h.ops = []c06Op{upd(name, v4, mixed(name), "AAAA")}
	case "v6-to-a-exc":
		E(name, v6)
		around()
		h.ops = []c06Op{upd(name, v6, mixed(name), "A")}
	case "wild-v4-to-a-exc":
		E(wild, v4)
		if r.Chance(1, 2) {
			E("*.test", v4b)
		}
		if r.Chance(1, 2) {
			E(wild, v6)
		}
		h.ops = []c06Op{upd(wild, v4, mixed(wild), "A")}
	case "wild-v6-to-aaaa-exc":
		E(wild, v6)
		if r.Chance(1, 2) {
			E("*.test", v6b)
		}
		if r.Chance(1, 2) {
			E(wild, v4)
		}
		h.ops = []c06Op{upd(wild, v6, mixed(wild), "AAAA")}
	case "added-then-exc":
		E(wild, v4b)
		E(wild, v6b)
		if r.Chance(1, 2) {
			h.ops = []c06Op{add(mixed(name), v4), upd(name, v4, name, "A"), upd(name, "A", name, "AAAA")}
		} else {
			h.ops = []c06Op{add(mixed(name), v6), upd(name, v6, name, "AAAA"), upd(name, "AAAA", name, "A")}
		}
	case "exc-to-addr":
		exc := vfPick(r, []string{"A", "AAAA"})
		E(name, exc)
		around()
		h.ops = []c06Op{upd(name, exc, name, v4), upd(name, v4, mixed(name), v6)}
	case "cname-to-addr":
		E(name, cn)
		E(cn, v4b)
		around()
		h.ops = []c06Op{upd(name, cn, name, v4), upd(name, v4, name, mixed(cn))}
	case "cname-to-exc":
		E(name, cn)
		E(cn, v4b)
		around()
		exc := vfPick(r, []string{"A", "AAAA"})
		h.ops = []c06Op{upd(name, cn, name, exc), upd(name, exc, name, name)}
	case "exact-wild":
		a := vfPick(r, []string{v4, v6, "A", "AAAA"})
		E(name, a)
		around()
		h.ops = []c06Op{upd(name, a, wild, a), upd(wild, a, "q.a.test", a)}
	case "v4-v6":
		E(name, v4)
		around()
		h.ops = []c06Op{upd(name, v4, name, v6), upd(name, v6, name, v4b)}
	case "upd-missing":
		E(name, v4)
		around()
		h.ops = []c06Op{upd(name, v4b+"0", name, "A"), upd(cn, v4, name, "A"), upd(name, "A", name, v4)}
	case "add":
		around()
		h.ops = []c06Op{add(mixed(name), v4), add(mixed(wild), mixed(cn)), add(cn, v6), add(name, vfPick(r, []string{"A", "AAAA"}))}
	case "add-dup":
		E(name, v4)
		around()
		h.ops = []c06Op{add(name, v4), add(strings.ToUpper(name), v4), del(name, v4)}
	case "add-invalid":
		E(name, v4)
		around()
		for i, n := 0, 2+r.Intn(3); i < n; i++ {
			// bodies encoding/json rejects for the endpoint's request type
			// ({"target": []} decodes into an add / delete request with
			// empty texts, which add accepts: not generated there)
			url := vfPick(r, []string{"/control/rewrite/add", "/control/rewrite/delete", "/control/rewrite/update"})
			bodies := []string{`{"domain": 5}`, `not json`, ``, `[]`, `{`}
			if strings.HasSuffix(url, "/update") {
				bodies = []string{`{"target": []}`, `{"update": 7}`, `not json`, ``, `[]`, `{`}
			}
			h.ops = append(h.ops, bad(url, vfPick(r, bodies)))
		}
	case "del":
		exc := vfPick(r, []string{"A", "AAAA"})
		E(name, v4)
		E(name, exc)
		E(wild, cn)
		around()
		h.ops = []c06Op{del(name, exc), del(wild, cn), del(name, v4)}
		vfShuffle(r, h.ops)
	case "del-missing":
		E(name, v4)
		around()
		h.ops = []c06Op{del(name, v4+"0"), del(cn, v4), del(name, "A")}
	case "del-dup":
		exc := vfPick(r, []string{"A", "AAAA"})
		E(name, v4)
		E(cn, v6)
		E(name, v4)
		h.ops = []c06Op{upd(name, v4, name, exc), add(name, exc), del(name, exc)}
	case "case-target":
		up := c06MixCase(r, name)
		E(up, v4)
		E("q.a.test", c06MixCase(r, cn))
		h.ops = []c06Op{del(up, v4), upd(up, v4, name, "A"), del("q.a.test", c06MixCase(r, cn)),
			upd("q.a.test", cn, "q.a.test", "A"), del(name, v4)}
	case "exc-then-delete-exc":
		E(name, v4)
		E(name, v6)
		around()
		h.ops = []c06Op{upd(name, v6, name, "AAAA"), del(name, "AAAA"), add(name, "A"), del(name, v4)}
	default:
		panic("c06: unknown edit shape " + shape)
	}
	if r.Chance(1, 3) { // one more request, against what the table then is or not
		d := c06EditRandDom(r)
		switch r.Intn(3) {
		case 0:
			h.ops = append(h.ops, add(d, c06EditRandAns(r, d)))
		case 1:
			h.ops = append(h.ops, del(wild, v4b))
		default:
			h.ops = append(h.ops, upd(wild, v4b, wild, vfPick(r, []string{"A", "AAAA", v6})))
		}
	}
	return h
}

type c06EditServer struct {
	d        *DNSFilter
	setts    *Settings
	handlers map[string]http.Handler
	modified int
}

func c06NewEditServer(t *testing.T, dataDir string, init []c06Entry, withHTTP bool) *c06EditServer {
	s := &c06EditServer{handlers: map[string]http.Handler{}}
	rws := make([]*LegacyRewrite, len(init))
	for i, e := range init {
		rws[i] = &LegacyRewrite{Domain: e.dom, Answer: e.ans}
	}
	conf := &Config{DataDir: dataDir, Rewrites: rws, ConfigModified: func() { s.modified++ }}
	if withHTTP {
		conf.HTTPRegister = func(method, url string, h http.HandlerFunc) {
			s.handlers[method+" "+url] = h
		}
	}
	d, err := New(conf, nil)
	if err != nil {
		t.Fatalf("c06 edit: filtering.New: %v", err)
	}
	s.d = d
	s.setts = &Settings{ProtectionEnabled: true, FilteringEnabled: true}
	if withHTTP {
		d.RegisterFilteringHandlers()
	}
	return s
}

// call sends one request to the registered handler; status 0 = no handler
// registered for (method, url), -1 = the handler panicked.
func (s *c06EditServer) call(method, url string, body []byte) (status int, resp []byte) {
	h := s.handlers[method+" "+url]
	if h == nil {
		return 0, nil
	}
	defer func() {
		if p := recover(); p != nil {
			status, resp = -1, []byte(fmt.Sprint(p))
		}
	}()
	r := httptest.NewRequest(method, url, bytes.NewReader(body))
	r.Header.Set("Content-Type", "application/json")
	w := httptest.NewRecorder()
	h.ServeHTTP(w, r)
	return w.Code, w.Body.Bytes()
}

func (s *c06EditServer) list() (l []c06Entry, err error) {
	code, body := s.call(http.MethodGet, "/control/rewrite/list", nil)
	if code != http.StatusOK {
		return nil, fmt.Errorf("GET /control/rewrite/list: status %d", code)
	}
	var arr []c06JSONEntry
	if err = json.Unmarshal(body, &arr); err != nil {
		return nil, fmt.Errorf("GET /control/rewrite/list: %w", err)
	}
	for _, e := range arr {
		l = append(l, c06Entry{e.Domain, e.Answer})
	}
	return l, nil
}

func (s *c06EditServer) send(op c06Op) (status int) {
	switch op.kind {
	case "add":
		b, _ := json.Marshal(c06JSONEntry{op.d, op.a})
		status, _ = s.call(http.MethodPost, "/control/rewrite/add", b)
	case "del":
		b, _ := json.Marshal(c06JSONEntry{op.d, op.a})
		status, _ = s.call(http.MethodPost, "/control/rewrite/delete", b)
	case "upd":
		b, _ := json.Marshal(c06JSONUpdate{c06JSONEntry{op.d, op.a}, c06JSONEntry{op.nd, op.na}})
		status, _ = s.call(http.MethodPut, "/control/rewrite/update", b)
	default:
		m := http.MethodPost
		if strings.HasSuffix(op.badURL, "/update") {
			m = http.MethodPut
		}
		status, _ = s.call(m, op.badURL, []byte(op.badRaw))
	}
	return status
}

func (s *c06EditServer) query(deadline time.Duration, q3 uint16) (obs []c06Obs, hung bool) {
	for _, h := range c06EditQ {
		for _, qt := range []uint16{dns.TypeA, dns.TypeAAAA, q3} {
			h, qt := h, qt
			o := c06Call(deadline, func() Result {
				r, err := s.d.CheckHost(h, qt, s.setts)
				if err != nil {
					panic(err)
				}
				return r
			})
			obs = append(obs, o)
			if o.timeout {
				return obs, true
			}
		}
	}
	return obs, false
}

func c06SameObs(a, b c06Obs) bool {
	if a.timeout != b.timeout || a.panicked != b.panicked || a.reason != b.reason || a.canon != b.canon || a.covered != b.covered || len(a.ips) != len(b.ips) {
		return false
	}
	x, y := make([]string, len(a.ips)), make([]string, len(b.ips))
	for i := range a.ips {
		x[i], y[i] = a.ips[i].String(), b.ips[i].String()
	}
	sort.Strings(x)
	sort.Strings(y)
	return strings.Join(x, ",") == strings.Join(y, ",")
}

func c06EntryText(es []c06Entry) []string {
	out := make([]string, len(es))
	for i, e := range es {
		out[i] = e.dom + " -> " + e.ans
	}
	return out
}

func c06OpText(op c06Op) string {
	switch op.kind {
	case "add":
		return fmt.Sprintf("POST /control/rewrite/add {%s -> %s}", op.d, op.a)
	case "del":
		return fmt.Sprintf("POST /control/rewrite/delete {%s -> %s}", op.d, op.a)
	case "upd":
		return fmt.Sprintf("PUT /control/rewrite/update {%s -> %s} => {%s -> %s}", op.d, op.a, op.nd, op.na)
	}
	return fmt.Sprintf("%s with the body %q", op.badURL, op.badRaw)
}

// c06EditSemantics: what one request may do to the reported list, stated from
// the API description (add a rule / remove a rule / update a rule); names are
// compared without letter case where the API normalises what it stores.
func c06EditSemantics(op c06Op, status int, prev, cur []c06Entry) (ok bool, kind, msg string) {
	same := func(a, b []c06Entry) bool {
		if len(a) != len(b) {
			return false
		}
		for i := range a {
			if a[i] != b[i] {
				return false
			}
		}
		return true
	}
	// stored form of a sent entry: names are case-insensitive, addresses and
	// the "A" / "AAAA" keywords are kept as typed
	stored := func(d, a string) c06Entry {
		if c06AnsKind(a) == "cname" {
			a = strings.ToLower(a)
		}
		return c06Entry{strings.ToLower(d), a}
	}
	switch op.kind {
	case "bad":
		if status != http.StatusBadRequest {
			return false, "edit-status", fmt.Sprintf("malformed body answered with status %d", status)
		}
		if !same(prev, cur) {
			return false, "edit-rejected-changed", "a rejected request changed the reported table"
		}
	case "add":
		if status != http.StatusOK {
			return false, "edit-status", fmt.Sprintf("add answered with status %d", status)
		}
		if len(cur) != len(prev)+1 || !same(prev, cur[:len(prev)]) || cur[len(prev)] != stored(op.d, op.a) {
			return false, "edit-add", "after add the reported table is not the previous one followed by the new rule"
		}
	case "del":
		if status != http.StatusOK {
			return false, "edit-status", fmt.Sprintf("delete answered with status %d", status)
		}
		var want []c06Entry
		for _, e := range prev {
			if e != (c06Entry{op.d, op.a}) {
				want = append(want, e)
			}
		}
		if !same(want, cur) {
			return false, "edit-delete", "after delete the reported table is not the previous one without the rules equal to the target"
		}
	case "upd":
		idx := -1
		for i, e := range prev {
			if e == (c06Entry{op.d, op.a}) {
				idx = i
				break
			}
		}
		if idx < 0 {
			if status != http.StatusBadRequest {
				return false, "edit-status", fmt.Sprintf("update of a rule that the table does not report answered with status %d", status)
			}
			if !same(prev, cur) {
				return false, "edit-rejected-changed", "a rejected request changed the reported table"
			}
			return true, "", ""
		}
		if status != http.StatusOK {
			return false, "edit-status", fmt.Sprintf("update of a reported rule answered with status %d", status)
		}
		want := append([]c06Entry{}, prev...)
		want[idx] = stored(op.nd, op.na)
		if !same(want, cur) {
			return false, "edit-update", "after update the reported table is not the previous one with the first rule equal to the target replaced in its place"
		}
	}
	return true, "", ""
}

// c06EditClasses: branch classes of one request, from the list reported
// before it.
func c06EditClasses(op c06Op, prev []c06Entry, classes map[string]bool) {
	count, fold := 0, 0
	for _, e := range prev {
		if e == (c06Entry{op.d, op.a}) {
			count++
		} else if strings.EqualFold(e.dom, op.d) && strings.EqualFold(e.ans, op.a) {
			fold++
		}
	}
	switch op.kind {
	case "bad":
		classes["edit-add-invalid"] = true
	case "add":
		classes["edit-add"] = true
		for _, e := range prev {
			if e.dom == strings.ToLower(op.d) && strings.EqualFold(e.ans, op.a) {
				classes["edit-add-dup"] = true
			}
		}
		if c06HasUpper(op.d) || c06AnsKind(op.a) == "cname" && c06HasUpper(op.a) {
			classes["edit-add-mixed-case"] = true
		}
	case "del":
		switch {
		case count == 0 && fold > 0:
			classes["edit-case-target"] = true
			classes["edit-del-missing"] = true
		case count == 0:
			classes["edit-del-missing"] = true
		case count > 1:
			classes["edit-del-dup"] = true
			classes["edit-del"] = true
		default:
			classes["edit-del"] = true
		}
	case "upd":
		switch {
		case count == 0 && fold > 0:
			classes["edit-case-target"] = true
			classes["edit-upd-missing"] = true
			return
		case count == 0:
			classes["edit-upd-missing"] = true
			return
		case count > 1:
			classes["edit-upd-first-of-dup"] = true
		}
		ok, nk := c06AnsKind(op.a), c06AnsKind(op.na)
		addr := func(k string) bool { return k == "v4" || k == "v6" }
		switch {
		case addr(ok) && nk == "exc":
			classes["edit-upd-addr-to-exc"] = true
		case ok == "exc" && addr(nk):
			classes["edit-upd-exc-to-addr"] = true
		case ok == "cname" && addr(nk):
			classes["edit-upd-cname-to-addr"] = true
		case addr(ok) && nk == "cname":
			classes["edit-upd-addr-to-cname"] = true
		case ok == "cname" && nk == "exc":
			classes["edit-upd-cname-to-exc"] = true
		case ok == "exc" && nk == "cname":
			classes["edit-upd-exc-to-cname"] = true
		case ok == "v4" && nk == "v6":
			classes["edit-upd-v4-to-v6"] = true
		case ok == "v6" && nk == "v4":
			classes["edit-upd-v6-to-v4"] = true
		case ok == "exc" && nk == "exc" && op.a != op.na:
			classes["edit-upd-exc-to-exc"] = true
		}
		switch ow, nw := c06IsWild(op.d), c06IsWild(op.nd); {
		case !ow && nw:
			classes["edit-upd-exact-to-wild"] = true
		case ow && !nw:
			classes["edit-upd-wild-to-exact"] = true
		}
	}
}

func c06Pair(e c06Entry) string { return fmt.Sprintf("(P %s %s)", c06Str(e.dom), c06Str(e.ans)) }

func c06StepCoq(list []c06Entry, obs []c06Obs) string {
	ls := make([]string, len(list))
	for i, e := range list {
		ls[i] = c06Pair(e)
	}
	os := make([]string, len(obs))
	for i, o := range obs {
		os[i] = o.coq()
	}
	return fmt.Sprintf("(SO %s %s)", c06List(ls), c06List(os))
}

// c06EditStream runs the edit histories and emits one case per history.
func c06EditStream(t *testing.T, out *vfOut, rnd *vfRand) {
	dataDir := t.TempDir()
	deadline := 2 * time.Second

	hists := c06EditPrelude()
	for i, n := 0, out.Scale(260, 6000); i < n; i++ {
		hists = append(hists, c06EditRandHistory(rnd.Fork(0xED17+uint64(i))))
	}
	// the shapes of the constructed histories, instantiated at random
	for i, n := 0, out.Scale(6, 120)*len(c06EditShapes); i < n; i++ {
		hists = append(hists, c06EditShapedHistory(rnd.Fork(0x5A9E+uint64(i)), c06EditShapes[i%len(c06EditShapes)]))
	}
	qr := rnd.Fork(0xED06)

	for _, h := range hists {
		q3 := vfPick(qr, []uint16{dns.TypeTXT, dns.TypeCNAME, dns.TypeHTTPS})
		srv := c06NewEditServer(t, dataDir, h.init, true)

		classes := map[string]bool{}
		classes[h.label] = true
		monOK, monKind, monMsg, monAt := true, "", "", ""
		fail := func(kind, msg, at string) {
			if monOK {
				monOK, monKind, monMsg, monAt = false, kind, msg, at
			}
		}
		nontrivial := false

		// ParseAddr results of every answer text, as typed and lower-cased.
		oracle := map[string]string{}
		note := func(a string) {
			for _, s := range []string{a, strings.ToLower(a)} {
				p := "None"
				ip, err := netip.ParseAddr(s)
				if err == nil {
					p = c06IP(ip)
				}
				oracle[s] = p
			}
			// assumption of the theorems: lower-casing does not turn a text
			// that is no address into an address
			if _, err := netip.ParseAddr(a); err != nil {
				if _, err2 := netip.ParseAddr(strings.ToLower(a)); err2 == nil {
					fail("parse-lower", "netip.ParseAddr rejects "+a+" but accepts it in lower case", "setup")
				}
			}
		}
		for _, e := range h.init {
			note(e.ans)
		}
		for _, op := range h.ops {
			if op.kind == "add" || op.kind == "del" || op.kind == "upd" {
				note(op.a)
			}
			if op.kind == "upd" {
				note(op.na)
			}
		}

		// observe: the reported list, the answers, and the monitors that do
		// not depend on the request.
		hung := false
		observe := func(at string) (list []c06Entry, obs []c06Obs) {
			list, err := srv.list()
			if err != nil {
				fail("edit-list", err.Error(), at)
			}
			for _, e := range list {
				note(e.ans)
			}
			obs, hung = srv.query(deadline, q3)
			if hung {
				fail("timeout", "evaluation did not terminate before the watchdog deadline", at)
				return list, obs
			}
			// "answers come from the table the API reports": a filter
			// freshly created from the reported list answers the same.
			ref := c06NewEditServer(t, dataDir, list, false)
			refObs, refHung := ref.query(deadline, q3)
			ref.d.Close()
			i := 0
			for _, name := range c06EditQ {
				for _, qt := range []uint16{dns.TypeA, dns.TypeAAAA, q3} {
					if i >= len(obs) || i >= len(refObs) {
						break
					}
					o := obs[i]
					if o.reason != 0 || o.canon != "" {
						nontrivial = true
					}
					q := fmt.Sprintf("%s; query %q type %d", at, name, qt)
					if !refHung && !c06SameObs(o, refObs[i]) {
						fail("stale-table", fmt.Sprintf("the edited filter answers %s, a filter created from the table that GET /control/rewrite/list reports answers %s", o.coq(), refObs[i].coq()), q)
					}
					// the property's clauses on the reported table
					if ok, kind, msg := c06Monitor(list, name, qt, o, true); !ok {
						fail(kind, msg+" (table = what GET /control/rewrite/list reports)", q)
					}
					i++
				}
			}
			return list, obs
		}

		list0, obs0 := observe("initial table")
		stepsCoq := []string{}
		descSteps := []any{}
		prev := list0
		for si, op := range h.ops {
			if hung {
				break
			}
			at := fmt.Sprintf("after request %d: %s", si+1, c06OpText(op))
			c06EditClasses(op, prev, classes)
			modBefore := srv.modified
			status := srv.send(op)
			if status <= 0 {
				fail("edit-handler", fmt.Sprintf("no handler or panic (status %d)", status), at)
			}
			cur, obs := observe(at)
			if ok, kind, msg := c06EditSemantics(op, status, prev, cur); !ok {
				fail(kind, msg, at)
			}
			if status == http.StatusOK && srv.modified == modBefore {
				fail("edit-not-saved", "an accepted request did not call ConfigModified", at)
			}
			stClass := 2
			switch status {
			case http.StatusOK:
				stClass = 0
			case http.StatusBadRequest:
				stClass = 1
			}
			var opCoq string
			switch op.kind {
			case "add":
				opCoq = fmt.Sprintf("(XAdd %s %s)", c06Str(op.d), c06Str(op.a))
			case "del":
				opCoq = fmt.Sprintf("(XDel %s %s)", c06Str(op.d), c06Str(op.a))
			case "upd":
				opCoq = fmt.Sprintf("(XUpd %s %s %s %s)", c06Str(op.d), c06Str(op.a), c06Str(op.nd), c06Str(op.na))
			default:
				opCoq = "XBad"
			}
			stepsCoq = append(stepsCoq, fmt.Sprintf("(ST %s %d %s)", opCoq, stClass, c06StepCoq(cur, obs)))
			descSteps = append(descSteps, map[string]any{"request": c06OpText(op), "status": status, "list": c06EntryText(cur)})
			prev = cur
		}
		srv.d.Close()

		var orc []string
		keys := make([]string, 0, len(oracle))
		for k := range oracle {
			keys = append(keys, k)
		}
		sort.Strings(keys)
		for _, k := range keys {
			if oracle[k] != "None" { // texts that are no address are the default
				orc = append(orc, fmt.Sprintf("(OR %s %s)", c06Str(k), oracle[k]))
			}
		}
		initCoq := make([]string, len(h.init))
		for i, e := range h.init {
			initCoq[i] = c06Pair(e)
		}
		qn := make([]string, len(c06EditQ))
		for i, n := range c06EditQ {
			qn[i] = "(QN " + c06Str(n) + ")"
		}
		var cl []string
		for k := range classes {
			cl = append(cl, k)
		}
		sort.Strings(cl)
		c := vfCase{
			Coq: fmt.Sprintf("(CEdit %s %s %d %s %s %s)", c06List(orc), c06List(qn), q3, c06List(initCoq),
				c06StepCoq(list0, obs0), c06List(stepsCoq)),
			Nontrivial: nontrivial,
			Classes:    cl,
			MonitorOK:  monOK,
			Desc: map[string]any{"label": h.label, "initial_rewrites": c06EntryText(h.init),
				"queried": c06EditQ, "third_qtype": q3, "history": descSteps},
		}
		if !monOK {
			c.MonitorMsg = monKind + ": " + monMsg + " (" + monAt + ")"
			c.FindingKey = monKind + "-" + vfHash(c06EntryText(h.init), fmt.Sprint(descSteps), monAt)
		}
		out.Emit(c)
		if hung {
			out.Note("edit_stopped_after_hang", h.label)
			break
		}
	}
}

//go:build verif

package filtering

import (
	"fmt"
	"math/big"
	"net/netip"
	"reflect"
	"sort"
	"strings"
	"testing"
	"time"

	"github.com/miekg/dns"
)

// ---- C06: legacy DNS rewrites.  Real code: DNSFilter.prepareRewrites,
// processRewrites, CheckHost.

type c06Entry struct{ dom, ans string }

type c06Obs struct {
	timeout, panicked bool
	panicMsg          string
	reason            int
	canon             string
	ips               []netip.Addr
	covered           bool // Result.CanonNameRewritten (fix 2e58a5d)
}

// c06Covered reads Result.CanonNameRewritten by name, so that the harness
// still builds against a tree without the field (a revert of 2e58a5d: the
// flag is then never set, and the model disagrees on a concrete table).
func c06Covered(r Result) bool {
	f := reflect.ValueOf(r).FieldByName("CanonNameRewritten")
	return f.IsValid() && f.Kind() == reflect.Bool && f.Bool()
}

// c06Call runs f under a watchdog.
func c06Call(deadline time.Duration, f func() Result) (o c06Obs) {
	type ret struct {
		res Result
		pan any
	}
	ch := make(chan ret, 1)
	go func() {
		var r ret
		defer func() {
			if p := recover(); p != nil {
				r.pan = p
			}
			ch <- r
		}()
		r.res = f()
	}()
	timer := time.NewTimer(deadline)
	defer timer.Stop()
	select {
	case r := <-ch:
		if r.pan != nil {
			return c06Obs{panicked: true, panicMsg: fmt.Sprint(r.pan)}
		}
		switch r.res.Reason {
		case NotFilteredNotFound:
			o.reason = 0
		case Rewritten:
			o.reason = 1
		default:
			o.reason = 2
		}
		o.canon = r.res.CanonName
		o.ips = append(o.ips, r.res.IPList...)
		o.covered = c06Covered(r.res)
		return o
	case <-timer.C:
		return c06Obs{timeout: true}
	}
}

func c06IP(a netip.Addr) string {
	if a.Is4() {
		b := a.As4()
		return fmt.Sprintf("(I4 %d)", uint32(b[0])<<24|uint32(b[1])<<16|uint32(b[2])<<8|uint32(b[3]))
	}
	b := a.As16()
	return "(I6 " + new(big.Int).SetBytes(b[:]).String() + ")"
}

func c06List(items []string) string { return "[" + strings.Join(items, "; ") + "]" }

func c06Str(s string) string {
	if strings.ContainsAny(s, "\"\\") {
		panic("c06: unsupported character in " + s)
	}
	for i := 0; i < len(s); i++ {
		if s[i] < 32 || s[i] > 126 {
			panic("c06: non-ASCII text")
		}
	}
	return "\"" + s + "\""
}

func (o c06Obs) coq() string {
	switch {
	case o.timeout:
		return "Timeout"
	case o.panicked:
		return "Panicked"
	}
	ips := make([]string, len(o.ips))
	for i, a := range o.ips {
		ips[i] = c06IP(a)
	}
	sort.Strings(ips)
	ctor := "Res"
	if o.covered {
		ctor = "ResC"
	}
	return fmt.Sprintf("(%s %d %s %s)", ctor, o.reason, c06Str(o.canon), c06List(ips))
}

func c06IsWild(p string) bool { return len(p) > 1 && p[0] == '*' && p[1] == '.' }

// c06Matches: does the (configured) pattern cover name?  Stated from the
// documentation: same name, or "*." + a proper suffix at a label boundary.
func c06Matches(pat, name string) bool {
	pat = strings.ToLower(pat)
	if pat == name {
		return true
	}
	return c06IsWild(pat) && strings.HasSuffix(name, pat[1:])
}

// c06Monitor evaluates the property on one answer.  host is the name as the
// rewrite step saw it (lower-cased for CheckHost).
func c06Monitor(tbl []c06Entry, host string, qt uint16, o c06Obs, viaCheckHost bool) (ok bool, kind, msg string) {
	if o.timeout {
		return false, "timeout", "evaluation did not terminate before the watchdog deadline"
	}
	if o.panicked {
		return false, "panic", "evaluation panicked: " + o.panicMsg
	}
	if o.reason == 2 {
		return false, "reason", "unexpected reason"
	}
	if cut, by := c06ChainCut(tbl, o.canon); cut {
		return false, "chain-cut", fmt.Sprintf("the chase stopped at %q although the entry %s leads further and the table has no CNAME cycle (a CNAME is followed through further rewrites, whatever the length of the chain)", o.canon, by)
	}
	final := host
	if o.canon != "" {
		final = o.canon
	}
	fam4 := qt == dns.TypeA
	if len(o.ips) > 0 && qt != dns.TypeA && qt != dns.TypeAAAA {
		return false, "foreign-address", "addresses returned for a non-address query type"
	}
	// Address soundness.
	var cand []c06Entry // entries for the final name with a value of the family
	for _, e := range tbl {
		ip, err := netip.ParseAddr(e.ans)
		if err == nil && ip.Is4() == fam4 && c06Matches(e.dom, final) {
			cand = append(cand, e)
		}
	}
	anyExact, maxLen := false, 0
	for _, e := range cand {
		if strings.ToLower(e.dom) == final {
			anyExact = true
		}
		if len(e.dom) > maxLen {
			maxLen = len(e.dom)
		}
	}
	// An exact entry shadows wildcard entries whatever its kind: "name -> A"
	// and "name -> AAAA" are exact entries for the name that let only that
	// type pass (AGHTechDoc "pass A only": the other family is answered
	// empty), so beside one of them (of EITHER family) no wildcard value may
	// be answered for the name.
	// Likewise among wildcards: a wildcard "A"/"AAAA" entry is an entry for
	// the names it covers, and a less specific wildcard's value is not used
	// beside it.
	excExactAny, excWild, excWildLen := "", "", 0
	for _, e := range tbl {
		d := strings.ToLower(e.dom)
		if e.ans != "A" && e.ans != "AAAA" || !c06Matches(e.dom, final) {
			continue
		}
		switch {
		case !c06IsWild(d):
			excExactAny = e.dom + " -> " + e.ans
		case len(d) > excWildLen:
			excWild, excWildLen = e.dom+" -> "+e.ans, len(d)
		}
	}
	for _, a := range o.ips {
		found, precise, exact, srcLen := false, false, false, 0
		for _, e := range cand {
			if ip, _ := netip.ParseAddr(e.ans); ip == a {
				found = true
				if anyExact && strings.ToLower(e.dom) == final || !anyExact && len(e.dom) == maxLen {
					precise = true
				}
				if strings.ToLower(e.dom) == final {
					exact = true
				}
				srcLen = max(srcLen, len(e.dom))
			}
		}
		if !found {
			return false, "foreign-address", fmt.Sprintf("address %s is not in the table for %q and the requested family", a, final)
		}
		if !precise {
			return false, "precedence", fmt.Sprintf("address %s for %q comes from a shadowed (less specific) entry", a, final)
		}
		if excExactAny != "" && !exact {
			return false, "precedence", fmt.Sprintf("address %s for %q comes from a wildcard entry although the exact entry %s exists (an exact entry shadows wildcard entries; an \"A\"/\"AAAA\" entry lets only that type pass)", a, final, excExactAny)
		}
		if !exact && excWildLen > srcLen {
			return false, "precedence", fmt.Sprintf("address %s for %q comes from a wildcard less specific than the entry %s (the most specific wildcard wins)", a, final, excWild)
		}
	}
	if o.reason == 1 && len(o.ips) > 0 {
		for _, e := range tbl {
			if _, err := netip.ParseAddr(e.ans); err != nil && e.ans != "A" && e.ans != "AAAA" && c06Matches(e.dom, final) {
				return false, "precedence", fmt.Sprintf("address entries used for %q although the CNAME entry %s -> %s covers it", final, e.dom, e.ans)
			}
		}
	}
	if !viaCheckHost {
		return true, "", ""
	}
	// Precedence facts that follow from the documentation whatever the chase did.
	matched, cname, excQ, hasVal, anyExc := false, false, false, false, false
	for _, e := range tbl {
		if !c06Matches(e.dom, host) {
			continue
		}
		matched = true
		ip, err := netip.ParseAddr(e.ans)
		switch {
		case e.ans == "A":
			anyExc = true
			excQ = excQ || qt == dns.TypeA
		case e.ans == "AAAA":
			anyExc = true
			excQ = excQ || qt == dns.TypeAAAA
		case err != nil:
			cname = true
		default:
			if (qt == dns.TypeA && ip.Is4()) || (qt == dns.TypeAAAA && !ip.Is4()) {
				hasVal = true
			}
		}
	}
	if !matched && (o.reason != 0 || o.canon != "" || len(o.ips) > 0) {
		return false, "unmatched-rewritten", "a name not covered by the table was rewritten"
	}
	if matched && !cname && !excQ && o.reason != 1 {
		return false, "matched-not-rewritten", "name covered by the table (no CNAME, no exception for this type) was passed on"
	}
	if matched && !cname && !anyExc && hasVal && len(o.ips) == 0 {
		return false, "value-dropped", "the table has a value of the requested type for the name but none was returned"
	}
	// Exceptions are effective in whatever letter case they were typed.
	passed := o.reason == 0 && o.canon == "" && len(o.ips) == 0
	excExact, selfExact, allExactCnameSelf := false, false, true
	for _, e := range tbl {
		if !strings.EqualFold(e.dom, host) {
			continue
		}
		switch {
		case e.ans == "A":
			excExact = excExact || qt == dns.TypeA
		case e.ans == "AAAA":
			excExact = excExact || qt == dns.TypeAAAA
		case c06IsCnameAns(e.ans):
			if strings.EqualFold(e.ans, host) {
				selfExact = true
			} else {
				allExactCnameSelf = false
			}
		}
	}
	if excExact && !cname && !c06IsWild(host) && !passed {
		return false, "exception-ignored", "an \"A\"/\"AAAA\" entry for exactly this name and type (compared without letter case, no CNAME entry covering the name) did not pass the query on"
	}
	if selfExact && allExactCnameSelf && !passed {
		return false, "self-exception-ignored", "the entry \"name -> name\" (compared without letter case) did not pass the query on"
	}
	return true, "", ""
}

// c06ExcOtherFamilyShadows: the shape of the seeded change C06-H: for the
// name an exact "A"/"AAAA" exception of the OTHER family, a wildcard value of
// the requested family, and neither an exact value of the requested family,
// an exception of the requested family nor a canonical name covering it.
func c06ExcOtherFamilyShadows(tbl []c06Entry, name string, qt uint16) bool {
	other, own := "AAAA", "A"
	if qt == dns.TypeAAAA {
		other, own = "A", "AAAA"
	}
	excOther, wildVal := false, false
	for _, e := range tbl {
		d := strings.ToLower(e.dom)
		if !c06Matches(e.dom, name) {
			continue
		}
		ip, err := netip.ParseAddr(e.ans)
		switch {
		case e.ans == other:
			excOther = excOther || d == name && !c06IsWild(d)
		case e.ans == own:
			return false
		case err != nil:
			return false
		case ip.Is4() == (qt == dns.TypeA):
			if d == name && !c06IsWild(d) {
				return false
			}
			wildVal = true
		}
	}
	return excOther && wildVal
}

// c06IsCnameAns: is the answer text a canonical name (not an address, not "A"/"AAAA")?
func c06IsCnameAns(a string) bool {
	if a == "A" || a == "AAAA" {
		return false
	}
	_, err := netip.ParseAddr(a)
	return err != nil
}

func c06HasUpper(s string) bool { return s != strings.ToLower(s) }

// c06MixCase returns s with a random subset of its letters in upper case (at
// least one when s has a letter).
func c06MixCase(r *vfRand, s string) string {
	b := []byte(s)
	var letters []int
	for i, c := range b {
		if c >= 'a' && c <= 'z' {
			letters = append(letters, i)
			if r.Chance(1, 2) {
				b[i] = c - 32
			}
		}
	}
	if len(letters) > 0 && string(b) == s {
		i := letters[r.Intn(len(letters))]
		b[i] -= 32
	}
	return string(b)
}

var (
	c06Names = []string{"a.test", "b.a.test", "c.b.a.test", "x.test", "y.x.test", "test"}
	c06Wilds = []string{"*.test", "*.a.test", "*.b.a.test", "*.c.b.a.test", "*.x.test"}
	c06V4    = []string{"1.1.1.1", "1.1.1.2", "2.2.2.2"}
	c06V6    = []string{"::1", "2001:db8::1", "::ffff:1.2.3.4"}
	c06Query = []string{"a.test", "b.a.test", "c.b.a.test", "x.test", "y.x.test", "test",
		"d.c.b.a.test", "q.a.test", "z.test", "other.example", "*.a.test", "ba.test"}
)

type c06Table struct {
	label   string
	entries []c06Entry
	extraQ  []string
	onlyQ   []string // when set: the names queried (instead of the standard list + extraQ)
}

// c06ChainName: the i-th name of a long chain; with wild the name is covered
// by a wildcard pattern of its own (c06ChainPat).
func c06ChainName(i int, wild bool) string {
	if wild {
		return fmt.Sprintf("x.w%d.chain.test", i)
	}
	return fmt.Sprintf("n%d.chain.test", i)
}

// c06ChainTable: an ACYCLIC chain of n canonical-name hops h0 -> h1 -> ... ->
// hn (round 7, seeded change C06-M: a bound on the number of names followed),
// every name queried, i.e. every distance from the end.  end: "addr" the last
// name has an IPv4 and an IPv6 value; "out" it is outside the table (resolved
// upstream); "novalue" it has a value of one family only; "cycle" the last
// name points back at a name in the second half (a cycle after acyclic hops).
// wildEvery > 0: every wildEvery-th name is covered by a wildcard entry.
func c06ChainTable(r *vfRand, label string, n int, end string, wildEvery int) (t c06Table) {
	t.label = label
	isWild := func(i int) bool { return wildEvery > 0 && i%wildEvery == wildEvery-1 }
	name := func(i int) string { return c06ChainName(i, isWild(i)) }
	for i := 0; i < n; i++ {
		src := name(i)
		if isWild(i) {
			src = "*" + src[1:]
		}
		t.entries = append(t.entries, c06Entry{src, name(i + 1)})
	}
	last := name(n)
	if isWild(n) {
		last = "*" + last[1:]
	}
	switch end {
	case "addr":
		t.entries = append(t.entries, c06Entry{last, "1.1.1.1"}, c06Entry{last, "::1"})
	case "novalue":
		t.entries = append(t.entries, c06Entry{last, "2.2.2.2"})
	case "cycle":
		t.entries = append(t.entries, c06Entry{last, name(n/2 + r.Intn(n/2+1))})
	}
	vfShuffle(r, t.entries)
	for i := 0; i <= n; i++ {
		t.onlyQ = append(t.onlyQ, name(i))
	}
	return t
}

// c06ChainTables: the constructed lengths around the bound of C06-M and random
// ones.
func c06ChainTables(r *vfRand, lengths []int, nRand, maxRand int) (ts []c06Table) {
	for _, n := range lengths {
		ts = append(ts, c06ChainTable(r, fmt.Sprintf("pre-longchain-%d", n), n, "addr", 0))
	}
	ts = append(ts,
		c06ChainTable(r, "pre-longchain-out", 20, "out", 0),
		c06ChainTable(r, "pre-longchain-novalue", 19, "novalue", 0),
		c06ChainTable(r, "pre-longchain-cycle", 30, "cycle", 0),
		c06ChainTable(r, "pre-longchain-wild", 22, "addr", 3))
	for i := 0; i < nRand; i++ {
		n := 1 + r.Intn(maxRand)
		ts = append(ts, c06ChainTable(r, "rand-longchain", n,
			vfPick(r, []string{"addr", "addr", "out", "novalue", "cycle"}), vfPick(r, []int{0, 0, 2, 5})))
	}
	return ts
}

func c06Prelude() []c06Table {
	E := func(kv ...string) (es []c06Entry) {
		for i := 0; i+1 < len(kv); i += 2 {
			es = append(es, c06Entry{kv[i], kv[i+1]})
		}
		return es
	}
	return []c06Table{
		{label: "pre-empty"},
		{label: "pre-doc-a", entries: E("a.test", "1.1.1.1")},
		{label: "pre-doc-aaaa", entries: E("a.test", "::1")},
		{label: "pre-doc-cname", entries: E("b.a.test", "a.test")},
		{label: "pre-doc-cname-a", entries: E("b.a.test", "a.test", "a.test", "1.1.1.1")},
		{label: "pre-doc-wild-exc", entries: E("*.a.test", "1.1.1.1", "b.a.test", "b.a.test")},
		{label: "pre-doc-aaaa-exc", entries: E("a.test", "1.1.1.1", "a.test", "AAAA")},
		{label: "pre-doc-pass-a", entries: E("a.test", "A")},
		{label: "pre-cname-over-addr", entries: E("a.test", "1.1.1.1", "a.test", "x.test", "x.test", "2.2.2.2")},
		{label: "pre-wild-cname-over-exact-addr", entries: E("b.a.test", "1.1.1.1", "*.a.test", "x.test", "x.test", "2.2.2.2")},
		{label: "pre-exact-shadows-wild", entries: E("*.a.test", "1.1.1.1", "b.a.test", "2.2.2.2", "*.test", "1.1.1.2")},
		{label: "pre-most-specific", entries: E("*.test", "1.1.1.1", "*.b.a.test", "2.2.2.2", "*.a.test", "1.1.1.2", "*.a.test", "::1")},
		{label: "pre-cycle-query", entries: E("a.test", "x.test", "x.test", "a.test")},
		{label: "pre-cycle-off-query", entries: E("a.test", "x.test", "x.test", "y.x.test", "y.x.test", "x.test")},
		{label: "pre-cycle-addr-beside-cname", entries: E("a.test", "x.test", "x.test", "y.x.test", "y.x.test", "x.test", "x.test", "1.1.1.1", "y.x.test", "::1")},
		{label: "pre-cycle-3-wild", entries: E("test", "b.a.test", "*.a.test", "x.test", "x.test", "c.b.a.test", "*.b.a.test", "y.x.test", "*.x.test", "q.a.test")},
		{label: "pre-wild-loop-4016", entries: E("*.a.test", "b.a.test")},
		{label: "pre-wild-loop-4016-addr", entries: E("*.a.test", "b.a.test", "b.a.test", "1.1.1.1")},
		{label: "pre-self", entries: E("a.test", "a.test", "*.test", "1.1.1.1")},
		{label: "pre-pattern-self", entries: E("*.a.test", "*.a.test", "b.a.test", "1.1.1.1")},
		{label: "pre-chain-back-to-orig", entries: E("a.test", "x.test", "x.test", "y.x.test", "y.x.test", "a.test", "a.test", "1.1.1.1")},
		{label: "pre-exc-after-cname", entries: E("a.test", "x.test", "x.test", "A", "x.test", "1.1.1.1", "x.test", "::1")},
		{label: "pre-exc-other-family-shadows", entries: E("b.a.test", "AAAA", "*.a.test", "1.1.1.1", "*.a.test", "::1")},
		// round 4 (seeded change C06-H): the exception of the other family
		// is an exact entry and shadows wildcard values, also when the name
		// is reached through a canonical name; an address VALUE of the other
		// family is no entry for the requested type (the wildcard's value is
		// answered: observed, "most specific for the question type")
		{label: "pre-exc-other-family-shadows-a", entries: E("*.a.test", "::1", "b.a.test", "A", "*.test", "2001:db8::1")},
		{label: "pre-exc-other-family-shadows-cname", entries: E("x.test", "b.a.test", "*.a.test", "1.1.1.1", "b.a.test", "AAAA")},
		{label: "pre-exc-other-family-shadows-value-beside", entries: E("*.a.test", "1.1.1.1", "b.a.test", "AAAA", "b.a.test", "2.2.2.2")},
		{label: "pre-other-family-value-beside-wild", entries: E("*.a.test", "1.1.1.1", "b.a.test", "::1")},
		{label: "pre-wild-exc", entries: E("*.a.test", "A", "*.test", "1.1.1.1", "*.a.test", "::1")},
		{label: "pre-dup", entries: E("a.test", "1.1.1.1", "a.test", "1.1.1.1", "*.a.test", "2.2.2.2", "*.a.test", "2.2.2.2", "b.a.test", "a.test", "b.a.test", "a.test")},
		{label: "pre-two-wild-same", entries: E("*.a.test", "1.1.1.1", "*.a.test", "1.1.1.2", "*.a.test", "::1")},
		{label: "pre-case", entries: E("B.A.Test", "1.1.1.1", "x.test", "B.A.Test", "y.x.test", "b.a.test"), extraQ: []string{"B.A.TEST", "X.test"}},
		{label: "pre-cname-unmatched-target", entries: E("a.test", "other.example", "*.x.test", "z.test")},
		{label: "pre-v4in6", entries: E("a.test", "::ffff:1.2.3.4", "a.test", "1.1.1.1")},
		{label: "pre-depth3", entries: E("*.c.b.a.test", "1.1.1.1", "*.b.a.test", "c.b.a.test", "c.b.a.test", "::1")},
		{label: "pre-wild-literal-query", entries: E("*.a.test", "x.test", "x.test", "1.1.1.1")},
		// exceptions typed with capital letters
		{label: "pre-exc-mixed-a", entries: E("A.Test", "A", "*.test", "1.1.1.1", "*.test", "::1"), extraQ: []string{"A.TEST", "a.Test"}},
		{label: "pre-exc-mixed-aaaa", entries: E("B.A.Test", "AAAA", "*.a.test", "::1", "*.a.test", "1.1.1.1"), extraQ: []string{"b.A.test"}},
		{label: "pre-exc-mixed-a-beside-value", entries: E("X.TEST", "1.1.1.1", "x.Test", "AAAA", "*.test", "::1")},
		{label: "pre-exc-mixed-wild", entries: E("*.A.Test", "A", "*.test", "1.1.1.1", "*.B.a.TEST", "AAAA", "*.test", "::1")},
		{label: "pre-exc-mixed-self-dom", entries: E("B.A.Test", "b.a.test", "*.a.test", "1.1.1.1"), extraQ: []string{"B.a.test"}},
		{label: "pre-exc-mixed-self-ans", entries: E("b.a.test", "B.a.test", "*.a.test", "1.1.1.1")},
		{label: "pre-exc-mixed-self-both", entries: E("B.A.Test", "B.A.Test", "*.a.test", "1.1.1.1"), extraQ: []string{"B.A.Test"}},
		{label: "pre-exc-mixed-pattern-self", entries: E("*.A.Test", "*.a.test", "b.a.test", "1.1.1.1", "*.X.test", "*.X.test", "y.x.test", "2.2.2.2")},
		{label: "pre-mixed-chain", entries: E("a.test", "X.Test", "x.test", "Y.x.test", "Y.X.TEST", "1.1.1.1")},
		// canonical names the scripted upstream of the response harness
		// answers negatively
		{label: "pre-cname-upstream-negative", entries: E("a.test", "s.fail", "b.a.test", "n.nodata", "x.test", "other.example", "*.x.test", "u.down", "test", "m.multi")},
		{label: "pre-chain-upstream-negative", entries: E("a.test", "x.test", "x.test", "s.fail", "*.a.test", "y.x.test", "y.x.test", "N.NoData")},
	}
}

// c06Outside: names outside the table universe; the scripted upstream of the
// response harness answers them negatively by suffix.
var c06Outside = []string{"other.example", "s.fail", "n.nodata", "u.down", "m.multi",
	"q.a.test", "d.c.b.a.test", "z.test", "Other.Example", "S.Fail"}

// c06RandAnswer: typed is the domain as configured.
func c06RandAnswer(r *vfRand, typed string) string {
	switch k := r.Intn(100); {
	case k < 28:
		return vfPick(r, c06V4)
	case k < 42:
		return vfPick(r, c06V6)
	case k < 50:
		return "A"
	case k < 58:
		return "AAAA"
	case k < 62:
		return strings.ToLower(typed) // self / pattern onto itself
	case k < 65:
		return typed // the same, exactly as typed
	case k < 67:
		return c06MixCase(r, strings.ToLower(typed))
	case k < 70:
		return vfPick(r, c06Wilds)
	case k < 74:
		return c06MixCase(r, vfPick(r, c06Names))
	case k < 82:
		return vfPick(r, c06Outside)
	default:
		return vfPick(r, c06Names)
	}
}

func c06RandDom(r *vfRand) string {
	var d string
	if r.Chance(2, 5) {
		d = vfPick(r, c06Wilds)
	} else {
		d = vfPick(r, c06Names)
	}
	switch k := r.Intn(20); {
	case k == 0:
		d = strings.ToUpper(d)
	case k < 4:
		d = c06MixCase(r, d)
	}
	return d
}

func c06RandTable(r *vfRand) (t c06Table) {
	n := r.Intn(11)
	switch r.Intn(5) {
	case 4: // an exact entry of some kind beside wildcard values (round 4)
		t.label = "rand-shadow"
		under := map[string][]string{
			"a.test": {"*.test"}, "x.test": {"*.test"},
			"b.a.test": {"*.a.test", "*.test"}, "y.x.test": {"*.x.test", "*.test"},
			"c.b.a.test": {"*.b.a.test", "*.a.test", "*.test"},
		}
		name := vfPick(r, []string{"a.test", "x.test", "b.a.test", "y.x.test", "c.b.a.test"})
		typed := func(d string) string {
			if r.Chance(1, 6) {
				return c06MixCase(r, d)
			}
			return d
		}
		for _, w := range under[name] {
			if r.Chance(2, 3) {
				t.entries = append(t.entries, c06Entry{typed(w), vfPick(r, c06V4)})
			}
			if r.Chance(1, 2) {
				t.entries = append(t.entries, c06Entry{typed(w), vfPick(r, c06V6)})
			}
		}
		switch k := r.Intn(10); {
		case k < 4:
			t.entries = append(t.entries, c06Entry{typed(name), "AAAA"})
		case k < 8:
			t.entries = append(t.entries, c06Entry{typed(name), "A"})
		case k < 9:
			t.entries = append(t.entries, c06Entry{typed(name), vfPick(r, c06V6)})
		default:
			t.entries = append(t.entries, c06Entry{typed(name), vfPick(r, c06V4)})
		}
		if r.Chance(1, 4) { // a value of one family beside the exception
			t.entries = append(t.entries, c06Entry{typed(name), vfPick(r, append(append([]string{}, c06V4...), c06V6...))})
		}
		if r.Chance(1, 2) { // the name is reached through a canonical name
			alias := vfPick(r, []string{"test", "q.a.test", "z.test", "*.x.test", "x.test"})
			if alias != name && !c06Matches(alias, name) {
				t.entries = append(t.entries, c06Entry{alias, typed(name)})
			}
		}
		for i, m := 0, r.Intn(3); i < m; i++ {
			d := c06RandDom(r)
			t.entries = append(t.entries, c06Entry{d, c06RandAnswer(r, d)})
		}
	case 0: // independent entries
		t.label = "rand-uniform"
		for i := 0; i < n; i++ {
			d := c06RandDom(r)
			t.entries = append(t.entries, c06Entry{d, c06RandAnswer(r, d)})
		}
	case 1, 2: // a CNAME chain, maybe closed into a cycle, maybe entered from outside
		t.label = "rand-chain"
		nodes := append([]string{}, c06Names...)
		nodes = append(nodes, "q.a.test", "d.c.b.a.test")
		vfShuffle(r, nodes)
		k := 2 + r.Intn(5)
		if k > n {
			k = n
		}
		for i := 0; i+1 < k; i++ {
			src := nodes[i]
			if r.Chance(1, 3) { // cover the source by a wildcard instead
				if j := strings.IndexByte(src, '.'); j >= 0 {
					src = "*" + src[j:]
				}
			}
			t.entries = append(t.entries, c06Entry{src, nodes[i+1]})
		}
		if k >= 2 {
			last := nodes[k-1]
			switch r.Intn(4) {
			case 0, 1: // cycle back to any node of the chain
				t.entries = append(t.entries, c06Entry{last, nodes[r.Intn(k)]})
			case 2: // addresses at the end
				t.entries = append(t.entries, c06Entry{last, vfPick(r, c06V4)}, c06Entry{last, vfPick(r, c06V6)})
			default: // the chain leaves the table
				t.entries = append(t.entries, c06Entry{last, vfPick(r, c06Outside)})
			}
		}
		for len(t.entries) < n {
			d := c06RandDom(r)
			t.entries = append(t.entries, c06Entry{d, c06RandAnswer(r, d)})
		}
	default: // few names, many entries: conflicts and duplicates
		t.label = "rand-dense"
		doms := []string{vfPick(r, c06Names), vfPick(r, c06Wilds), c06RandDom(r)}
		for i := 0; i < n; i++ {
			d := vfPick(r, doms)
			t.entries = append(t.entries, c06Entry{d, c06RandAnswer(r, d)})
		}
	}
	if len(t.entries) > 0 && r.Chance(1, 3) {
		for i, m := 0, 1+r.Intn(2); i < m && len(t.entries) < 10; i++ {
			t.entries = append(t.entries, vfPick(r, t.entries))
		}
	}
	if len(t.entries) > 10 {
		t.entries = t.entries[:10]
	}
	vfShuffle(r, t.entries)
	if r.Chance(1, 4) {
		t.extraQ = append(t.extraQ, strings.ToUpper(vfPick(r, c06Names)))
	}
	if r.Chance(1, 6) {
		t.extraQ = append(t.extraQ, c06MixCase(r, vfPick(r, c06Names)))
	}
	if r.Chance(1, 10) {
		t.extraQ = append(t.extraQ, "")
	}
	return t
}

// c06HasCycle: is there a CNAME cycle of length >= 2 (following entries by
// pattern coverage, wildcards included; an entry onto the name itself is no
// edge)?  Depth-first search with colours over the names that are answers.
func c06HasCycle(tbl []c06Entry) bool {
	next := func(n string) (out []string) {
		for _, e := range tbl {
			a := strings.ToLower(e.ans)
			if !c06IsCnameAns(e.ans) || a == n {
				continue
			}
			if c06Matches(e.dom, n) {
				out = append(out, a)
			}
		}
		return out
	}
	colour := map[string]int{} // 1 = on the path, 2 = done
	var visit func(n string) bool
	visit = func(n string) bool {
		switch colour[n] {
		case 1:
			return true
		case 2:
			return false
		}
		colour[n] = 1
		for _, m := range next(n) {
			if visit(m) {
				return true
			}
		}
		colour[n] = 2
		return false
	}
	for _, e := range tbl {
		if c06IsCnameAns(e.ans) && visit(strings.ToLower(e.ans)) {
			return true
		}
	}
	return false
}

// c06ChainCut: in a table without a CNAME cycle nothing stops the chase at a
// name that a canonical-name entry (not onto the name itself) still covers: "a
// CNAME is followed through further rewrites", for chains of any length.
func c06ChainCut(tbl []c06Entry, canon string) (cut bool, by string) {
	if canon == "" || c06HasCycle(tbl) {
		return false, ""
	}
	canon = strings.ToLower(canon)
	for _, e := range tbl {
		if !c06IsCnameAns(e.ans) || !c06Matches(e.dom, canon) {
			continue
		}
		if strings.ToLower(e.ans) == canon {
			// "*.example.com -> sub.example.com" reached at sub.example.com
			// (#4016): the chase ends there by design
			return false, ""
		}
		cut, by = true, e.dom+" -> "+e.ans
	}
	return cut, by
}

// c06CnameCovers: does a CNAME entry (not pointing at the name itself) cover name?
func c06CnameCovers(tbl []c06Entry, name string) bool {
	for _, e := range tbl {
		if _, err := netip.ParseAddr(e.ans); err != nil && e.ans != "A" && e.ans != "AAAA" && c06Matches(e.dom, name) {
			return true
		}
	}
	return false
}

func TestVerifC06(t *testing.T) {
	out := vfOpen(t, "C06")
	defer out.Close()
	rnd := vfNewRand(out.Seed)

	deadline := 2 * time.Second
	hungTables := 0
	newFilter := func() (*DNSFilter, *Settings) {
		d, setts := newForTest(t, nil, nil)
		return d, setts
	}
	d, setts := newFilter()
	defer func() { d.Close() }()

	tables := c06Prelude()
	nRand := out.Scale(1000, 12000)
	for i := 0; i < nRand; i++ {
		tables = append(tables, c06RandTable(rnd.Fork(uint64(i))))
	}
	// long chains (round 7): lengths around and far beyond any plausible
	// bound, every name of the chain queried; spread over the run so that no
	// single evaluation shard gets all of them
	{
		chains := c06ChainTables(rnd.Fork(0xC4A1), []int{15, 16, 17, 18, 24, 33, 64}, out.Scale(8, 300), out.Scale(40, 64))
		nPre := len(tables) - nRand
		step := max(1, nRand/(len(chains)+1))
		var mixed []c06Table
		for i, tb := range tables {
			mixed = append(mixed, tb)
			if k := i - nPre; k >= 0 && (k+1)%step == 0 && len(chains) > 0 {
				mixed, chains = append(mixed, chains[0]), chains[1:]
			}
		}
		tables = append(mixed, chains...)
	}
	qr := rnd.Fork(0xC06)

	for ti, tb := range tables {
		if hungTables >= 2 {
			out.Note("stopped_after_hangs", ti)
			break
		}
		enabled := strings.HasPrefix(tb.label, "pre-") || !qr.Chance(1, 25)
		setts.FilteringEnabled = enabled

		rws := make([]*LegacyRewrite, len(tb.entries))
		rawCoq := make([]string, len(tb.entries))
		for i, e := range tb.entries {
			rws[i] = &LegacyRewrite{Domain: e.dom, Answer: e.ans}
			p := "None"
			if ip, err := netip.ParseAddr(e.ans); err == nil {
				p = "(Some " + c06IP(ip) + ")"
			}
			rawCoq[i] = fmt.Sprintf("(E %s %s %s)", c06Str(e.dom), c06Str(e.ans), p)
		}
		d.conf.Rewrites = rws
		if err := d.prepareRewrites(); err != nil {
			t.Fatalf("prepareRewrites: %v", err)
		}

		classes := map[string]bool{tb.label: true}
		if !enabled {
			classes["filtering-off"] = true
		}
		if c06HasCycle(tb.entries) {
			classes["tab-cname-cycle"] = true
		}
		for _, e := range tb.entries {
			switch {
			case e.ans == "A" || e.ans == "AAAA":
				classes["tab-type-exception"] = true
			case strings.EqualFold(e.ans, e.dom):
				classes["tab-self-entry"] = true
			}
			if c06IsWild(e.dom) {
				classes["tab-wild-depth-"+fmt.Sprint(strings.Count(e.dom, "."))] = true
			}
			// exception entries typed with capital letters
			isType := e.ans == "A" || e.ans == "AAAA"
			isSelf := c06IsCnameAns(e.ans) && strings.EqualFold(e.ans, e.dom)
			if (isType || isSelf) && (c06HasUpper(e.dom) || isSelf && c06HasUpper(e.ans)) {
				classes["exception-mixed-case"] = true
				switch {
				case isType && c06IsWild(e.dom):
					classes["exception-mixed-case-wild-type"] = true
				case isType:
					classes["exception-mixed-case-type"] = true
				case c06IsWild(e.dom):
					classes["exception-mixed-case-pattern-self"] = true
				case c06HasUpper(e.ans):
					classes["exception-mixed-case-self-answer"] = true
				default:
					classes["exception-mixed-case-self-domain"] = true
				}
			}
			if c06HasUpper(e.dom) {
				classes["tab-mixed-case-domain"] = true
			}
			if c06IsCnameAns(e.ans) && c06HasUpper(e.ans) {
				classes["tab-mixed-case-cname-answer"] = true
			}
		}

		hosts := append(append([]string{}, c06Query...), tb.extraQ...)
		if tb.onlyQ != nil {
			hosts = tb.onlyQ
		}
		var qCoq []string
		var descQ []any
		monOK, monMsg, monKind, monQ := true, "", "", ""
		nontrivial, hung := false, false
		for hi, h := range hosts {
			third := vfPick(qr, []uint16{dns.TypeTXT, dns.TypeCNAME, dns.TypeHTTPS})
			qtypes := []uint16{dns.TypeA, dns.TypeAAAA, third}
			if tb.onlyQ != nil && hi%8 != 0 {
				// long chains: every name (every distance from the end) for
				// A, every eighth for all three types
				qtypes = qtypes[:1]
			}
			for _, qt := range qtypes {
				if hung {
					break
				}
				h, qt := h, qt
				o1 := c06Call(deadline, func() Result { return d.processRewrites(h, qt) })
				o2 := c06Obs{timeout: true}
				if !o1.timeout {
					o2 = c06Call(deadline, func() Result {
						r, err := d.CheckHost(h, qt, setts)
						if err != nil {
							panic(err)
						}
						return r
					})
				}
				if o1.timeout || o2.timeout {
					hung = true
				}
				qCoq = append(qCoq, fmt.Sprintf("(Q %s %d %s %s)", c06Str(h), qt, o1.coq(), o2.coq()))

				// classes from what happened
				switch {
				case o1.timeout:
					classes["out-timeout"] = true
				case o1.reason == 0 && o1.canon == "" && len(o1.ips) == 0:
					classes["out-notfound"] = true
				case o1.reason == 0:
					classes["out-exception-after-collecting"] = true
				case o1.canon == "" && len(o1.ips) == 0:
					classes["out-rewritten-empty"] = true
				case o1.canon == "":
					classes["out-addr"] = true
				case len(o1.ips) == 0:
					classes["out-cname-only"] = true
					if c06CnameCovers(tb.entries, o1.canon) {
						// the chase stopped although a CNAME covers the
						// canonical name: loop cut or the *.x -> sub.x case
						classes["out-chase-stopped-by-loop"] = true
					}
				default:
					classes["out-cname-addr"] = true
				}
				if len(o1.ips) > 1 {
					classes["out-multi-addr"] = true
				}
				if o1.reason != 0 || o1.canon != "" {
					nontrivial = true
				}
				if h != strings.ToLower(h) && o2.reason == 1 {
					classes["q-uppercase-rewritten"] = true
				}
				if (qt == dns.TypeA || qt == dns.TypeAAAA) && o1.reason == 1 {
					fin := h
					if o1.canon != "" {
						fin = o1.canon
					}
					if c06ExcOtherFamilyShadows(tb.entries, fin, qt) {
						classes["shadow-exc-other-family"] = true
						if o1.canon != "" {
							classes["shadow-exc-other-family-via-cname"] = true
						}
					}
				}

				ok, kind, msg := c06Monitor(tb.entries, h, qt, o1, false)
				if ok && enabled && h != "" {
					ok, kind, msg = c06Monitor(tb.entries, strings.ToLower(h), qt, o2, true)
				}
				if ok && (!enabled || h == "") && !o2.timeout && (o2.reason != 0 || o2.canon != "" || len(o2.ips) > 0) {
					ok, kind, msg = false, "rewritten-while-off", "rewrite applied with filtering disabled or for the root name"
				}
				if !ok && monOK {
					monOK, monKind, monMsg, monQ = false, kind, msg, fmt.Sprintf("%q type %d", h, qt)
				}
				if !ok || len(descQ) < 4 && (o1.reason != 0) {
					descQ = append(descQ, map[string]any{"host": h, "qtype": qt, "processRewrites": o1.coq(), "CheckHost": o2.coq()})
				}
			}
		}

		desc := make([]string, len(tb.entries))
		for i, e := range tb.entries {
			desc[i] = e.dom + " -> " + e.ans
		}
		var cl []string
		for k := range classes {
			cl = append(cl, k)
		}
		sort.Strings(cl)
		c := vfCase{
			Coq:        fmt.Sprintf("(CTab %s %s %s)", vfBool(enabled), c06List(rawCoq), c06List(qCoq)),
			Nontrivial: nontrivial,
			Classes:    cl,
			MonitorOK:  monOK,
			Desc:       map[string]any{"label": tb.label, "filtering_enabled": enabled, "rewrites": desc, "queries": descQ},
		}
		if !monOK {
			c.MonitorMsg = monKind + ": " + monMsg + " (query " + monQ + ")"
			c.FindingKey = monKind + "-" + vfHash(desc, monQ)
		}
		out.Emit(c)

		if hung {
			// The stuck goroutine keeps reading the old filter; leave it alone.
			hungTables++
			d, setts = newFilter()
		}
	}

	// Edit histories through the HTTP API (zz_verif_C06_edit_test.go).
	if hungTables < 2 {
		c06EditStream(t, out, rnd.Fork(0xE017))
	}
}

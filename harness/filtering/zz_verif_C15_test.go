//go:build verif

package filtering

import (
	"bytes"
	"fmt"
	"io"
	"net"
	"net/http"
	"os"
	"os/signal"
	"path/filepath"
	"sort"
	"strconv"
	"strings"
	"sync"
	"syscall"
	"testing"
	"time"

	"github.com/AdguardTeam/AdGuardHome/internal/filtering/rulelist"
	"github.com/AdguardTeam/AdGuardHome/internal/verifc15"
	"github.com/miekg/dns"
	"gopkg.in/yaml.v3"
)

// Correspondence harness for the refresh half of C15: sequences of refreshes
// of block and allow lists against a list server scripted per request, and
// local files; one case per sequence.

// c15Script says what the source of one list does during one refresh.
type c15Script struct {
	Kind    string `json:"kind"` // ok, rename-fail, status, close-early, cut, refused, file-ok, file-missing, file-dir, file-unsafe
	Content string `json:"content,omitempty"`
	Status  int    `json:"status,omitempty"`
	Cut     int    `json:"cut,omitempty"`
	// listID is the list whose pending file a rename-fail source removes.
	listID string
	// gateAt > 0: an "ok" source sends that many bytes, flushes, tells the
	// server's stalled channel and goes on when its resume channel is closed.
	gateAt int
}

// c15FollowUpAfterFailedURLChange: before its repair in /repo a failed set_url
// that changed the URL of an enabled list restored URL, name, enabled flag and
// rule count but left the checksum zeroed by unload().  With false the checksum
// after such a call is not compared with its value before the call (class
// failed-url-change-checksum-forgotten) and the refreshes that would follow in
// the history are left out until the list is unloaded or re-pointed; true is
// the full check: checksum compared, follow-up refreshes (same contents: not
// rewritten; contents without rules: stored) generated.
const c15FollowUpAfterFailedURLChange = true

// delivered returns what the reader hands to the parser: ok=false if no
// reader is obtained at all; otherwise data and whether it ends in an error.
func (s c15Script) delivered() (ok bool, data string, readErr bool) {
	switch s.Kind {
	case "ok", "file-ok", "rename-fail":
		return true, s.Content, false
	case "cut":
		return true, s.Content[:s.Cut], true
	case "file-dir":
		return true, "", true
	}
	return false, "", false
}

// outcome is the Gallina term for what the source does; limit >= 0: the
// pending file takes limit bytes in all.
func (s c15Script) outcome(defs *[]vfDef, limit int) string {
	okReader, data, readErr := s.delivered()
	switch {
	case !okReader:
		return "OOpenErr"
	case s.Kind == "rename-fail":
		return vfApp("ORenameFail", c15B(defs, data))
	case limit >= 0:
		return vfApp("OWriteFail", c15B(defs, data), vfBool(readErr), vfN(uint64(limit)))
	}
	return vfApp("OBody", c15B(defs, data), vfBool(readErr))
}

// c15B prints a byte string; the 4 KiB filler inside it is printed once per
// shard as a shared definition.
func c15B(defs *[]vfDef, s string) string {
	i := strings.Index(s, verifc15.Filler)
	if i < 0 {
		return vfBytes(s)
	}
	return vfApp("app", vfBytes(s[:i]), vfApp("app", vfShare(defs, "c15_filler", vfBytes(verifc15.Filler)), c15B(defs, s[i+len(verifc15.Filler):])))
}

// c15WithFileLimit runs f while no regular file of the process may grow
// beyond limit bytes (RLIMIT_FSIZE, SIGXFSZ ignored): the write(2) that
// crosses the limit is cut short and the next one fails with EFBIG, which is
// what a full disk or a quota does to the pending file.  Nothing else in the
// process writes a regular file meanwhile (the cases are written outside).
func c15WithFileLimit(t *testing.T, limit int, f func()) {
	if limit < 0 {
		f()
		return
	}
	signal.Ignore(syscall.SIGXFSZ)
	var old syscall.Rlimit
	if err := syscall.Getrlimit(syscall.RLIMIT_FSIZE, &old); err != nil {
		t.Fatalf("getrlimit: %v", err)
	}
	lim := old
	lim.Cur = uint64(limit)
	if err := syscall.Setrlimit(syscall.RLIMIT_FSIZE, &lim); err != nil {
		t.Fatalf("setrlimit: %v", err)
	}
	defer func() {
		if err := syscall.Setrlimit(syscall.RLIMIT_FSIZE, &old); err != nil {
			t.Fatalf("setrlimit back: %v", err)
		}
	}()
	f()
}

// c15Why names the property's failure class a source falls into during one
// step, by the byte-level definitions of package verifc15 and the script
// (independent of the parser and of the model); "" if it is none of them.
// limit >= 0: the pending file takes limit bytes.
func c15Why(sc c15Script, limit int) (why string, cls []string) {
	okReader, data, readErr := sc.delivered()
	switch {
	case !okReader:
		return "no reader (" + sc.Kind + ")", nil
	case readErr:
		return "body cut short (" + sc.Kind + ")", nil
	}
	sp := verifc15.Classify([]byte(data))
	cls = append(cls, sp.Obs...)
	switch {
	case sp.HTML:
		return "HTML content before the first rule line", append(cls, "spec-html")
	case sp.Binary:
		return fmt.Sprintf("binary content: byte 0x%02x at line %d, column %d, in a rule line", sp.BadByte, sp.BadLine, sp.BadCol), append(cls, "spec-binary")
	case sp.TooLong:
		return "", cls
	case limit >= 0 && len(sp.Norm) > limit:
		cls = append(cls, "fail-write-limit")
		switch {
		case limit == 0:
			cls = append(cls, "write-fail-at-0")
		case sp.Norm[limit-1] == '\n':
			cls = append(cls, "write-fail-at-line-boundary")
		default:
			cls = append(cls, "write-fail-mid-line")
		}
		if limit == len(sp.Norm)-1 {
			cls = append(cls, "write-fail-last-byte")
		}
		if limit >= 4096 {
			cls = append(cls, "write-fail-after-4k")
		}
		return fmt.Sprintf("the pending file takes %d of the %d bytes to be written", limit, len(sp.Norm)), cls
	case limit >= 0:
		cls = append(cls, "write-limit-not-reached")
	}
	if sc.Kind == "rename-fail" {
		return "the pending file cannot replace the list's file", cls
	}
	return "", cls
}

type c15List struct {
	ID      int64  `json:"id"`
	Allow   bool   `json:"allow"`
	Enabled bool   `json:"enabled"`
	Local   bool   `json:"local"`
	Name    string `json:"name"`
}

// c15Step is one refresh (Set == nil), one set_url call, one engine rebuild,
// or one restart of the process.
type c15Step struct {
	Block   bool                 `json:"block"`
	Allow   bool                 `json:"allow"`
	Force   bool                 `json:"force"`
	Due     []int64              `json:"due"`
	Scripts map[string]c15Script `json:"scripts"`
	Set     *c15Set              `json:"set,omitempty"`
	Rebuild bool                 `json:"rebuild,omitempty"`
	// Restart: the lists are written to the configuration file as home does
	// it, the filter is closed, and a new one is created from that file on the
	// same data directory (filtering.New, then EnableFilters as startDNSServer
	// calls it).
	Restart bool `json:"restart,omitempty"`
	// Limit, if set: the size in bytes no regular file may grow beyond during
	// the step, so that the writes to the pending files fail from there on.
	Limit *int `json:"pending_file_takes,omitempty"`
}

type c15Set struct {
	ID      int64  `json:"id"`
	Name    string `json:"name"`
	Enabled bool   `json:"enabled"`
	// URL: 0 keeps the URL; otherwise the number of the source the list is
	// pointed to (list IDs number the lists' first sources).  Dup: point it to
	// the source list Dup uses now.
	URL int64 `json:"url,omitempty"`
	Dup int64 `json:"dup,omitempty"`
}

type c15Hist struct {
	Lists []c15List `json:"lists"`
	Steps []c15Step `json:"steps"`
}

var c15Probes = []string{"p1.example", "p2.example", "p3.example"}

type c15Server struct {
	mu      sync.Mutex
	scripts map[string]c15Script
	url     string
	tmpDir  string
	stalled chan struct{}
	resume  chan struct{}
}

func c15NewServer(t *testing.T) *c15Server {
	s := &c15Server{scripts: map[string]c15Script{}}
	l, err := net.Listen("tcp", "127.0.0.1:0")
	if err != nil {
		t.Fatal(err)
	}
	srv := &http.Server{Handler: http.HandlerFunc(s.serve)}
	go func() { _ = srv.Serve(l) }()
	t.Cleanup(func() { _ = srv.Close() })
	s.url = "http://" + l.Addr().String()
	return s
}

func (s *c15Server) serve(w http.ResponseWriter, r *http.Request) {
	id := strings.TrimPrefix(r.URL.Path, "/l/")
	s.mu.Lock()
	sc, ok := s.scripts[id]
	tmpDir := s.tmpDir
	s.mu.Unlock()
	if !ok {
		sc = c15Script{Kind: "status", Status: 410}
	}
	switch sc.Kind {
	case "rename-fail":
		// The pending file of this list exists by now (it is created before
		// the request is sent); take it away, so that replacing the list's
		// file with it fails.  TMPDIR is private to this test process.
		m, _ := filepath.Glob(filepath.Join(tmpDir, "."+sc.listID+".txt*"))
		for _, p := range m {
			_ = os.Remove(p)
		}
		fallthrough
	case "ok":
		w.Header().Set("Content-Type", "text/plain")
		if sc.gateAt > 0 {
			s.mu.Lock()
			stalled, resume := s.stalled, s.resume
			s.mu.Unlock()
			_, _ = io.WriteString(w, sc.Content[:sc.gateAt])
			w.(http.Flusher).Flush()
			stalled <- struct{}{}
			select {
			case <-resume:
			case <-r.Context().Done():
				return
			}
			_, _ = io.WriteString(w, sc.Content[sc.gateAt:])
			return
		}
		_, _ = io.WriteString(w, sc.Content)
	case "status":
		w.WriteHeader(sc.Status)
		_, _ = io.WriteString(w, "||p1.example^\n||p2.example^\n||p3.example^\n")
	case "close-early", "cut":
		hj, _ := w.(http.Hijacker)
		conn, buf, err := hj.Hijack()
		if err != nil {
			return
		}
		if sc.Kind == "cut" {
			fmt.Fprintf(buf, "HTTP/1.1 200 OK\r\nContent-Type: text/plain\r\nContent-Length: %d\r\n\r\n", len(sc.Content)+7)
			_, _ = buf.WriteString(sc.Content[:sc.Cut])
			_ = buf.Flush()
		}
		_ = conn.Close()
	}
}

func c15ListText(r *vfRand) string {
	var b strings.Builder
	n := int(r.Range(0, 5))
	for i := 0; i < n; i++ {
		switch r.Intn(10) {
		case 0:
			b.WriteString("# comment")
		case 1:
			b.WriteString("! Title: " + vfPick(r, []string{"T0", "T1", " Spaced  Title ", ""}))
		case 2:
			b.WriteString("")
		case 3:
			b.WriteString("  ||" + vfPick(r, c15Probes) + "^\t")
		default:
			b.WriteString("||" + vfPick(r, c15Probes) + "^")
		}
		b.WriteString(vfPick(r, []string{"\n", "\n", "\r\n"}))
	}
	s := b.String()
	if r.Chance(1, 4) {
		s = strings.TrimRight(s, "\r\n")
	}
	return s
}

// c15HTMLPrefixes are lines that write nothing, so that an HTML head after
// them is still the first thing the parser could write.
var c15HTMLPrefixes = []string{"", "\n", "\r\n\r\n", "# x\n", "! Title: Portal\n", " \t \n", "  \n", "\n# x\r\n  \n! y\n"}

func c15BadText(r *vfRand) string {
	good := "||" + vfPick(r, c15Probes) + "^\n"
	switch r.Intn(9) {
	case 6, 7:
		// One offending control byte at the start of a rule line, inside one,
		// or as the last byte of the body.
		var off []byte
		for _, v := range verifc15.Values() {
			if verifc15.Offending(v) {
				off = append(off, v)
			}
		}
		return vfPick(r, []string{"", "# c\n", "! Title: T\n"}) + verifc15.CtlBody(vfPick(r, off), vfPick(r, verifc15.Positions[:4]), vfPick(r, c15Probes))
	case 8:
		// Any control byte, also where it is not looked at (comment, title).
		return verifc15.CtlBody(vfPick(r, verifc15.Values()), vfPick(r, []string{"line-start", "mid-line", "last-byte", "late-in-line", "comment", "title"}), vfPick(r, c15Probes))
	case 0:
		return vfPick(r, c15HTMLPrefixes) + "<!DOCTYPE html>\n<html><body>captive portal " + good + "</body></html>\n"
	case 1:
		return vfPick(r, c15HTMLPrefixes) + vfPick(r, []string{"  <HTML>\n", "<html lang=\"en\">\r\n", "\t<!doctype html>", "<hTmL"}) + good
	case 2:
		return good + "\x00\x01\x02binary\n" + good
	case 3:
		return good + "||p2.example^\n\x7fELF\n"
	case 4:
		return vfPick(r, c15HTMLPrefixes) + "\x1f\x8b\x08\x00gzip\n" + good
	}
	return good + good + "ok\x1b[0m\n"
}

func c15GenScript(r *vfRand, l c15List, pool []string) c15Script {
	text := func() string {
		if r.Chance(3, 4) {
			return vfPick(r, pool)
		}
		return c15ListText(r)
	}
	if l.Local {
		switch k := r.Intn(10); {
		case k < 5:
			return c15Script{Kind: "file-ok", Content: text()}
		case k < 6:
			return c15Script{Kind: "file-ok", Content: c15BadText(r)}
		case k < 8:
			return c15Script{Kind: "file-missing"}
		case k < 9:
			return c15Script{Kind: "file-dir"}
		}
		return c15Script{Kind: "file-unsafe", Content: text()}
	}
	switch k := r.Intn(22); {
	case k < 10:
		return c15Script{Kind: "ok", Content: text()}
	case k < 12:
		return c15Script{Kind: "ok", Content: c15BadText(r)}
	case k < 14:
		return c15Script{Kind: "status", Status: vfPick(r, []int{404, 500, 204, 301})}
	case k < 15:
		return c15Script{Kind: "close-early"}
	case k < 16:
		return c15Script{Kind: "refused"}
	case k < 18:
		return c15Script{Kind: "rename-fail", Content: text()}
	}
	c := text()
	for len(c) == 0 {
		c = c15ListText(r)
	}
	cut := 0
	switch r.Intn(4) {
	case 0:
		cut = 0
	case 1:
		cut = len(c)
	case 2:
		// at a line boundary
		if i := strings.IndexByte(c, '\n'); i >= 0 {
			cut = i + 1
		}
	default:
		cut = int(r.Range(1, int64(len(c))))
	}
	return c15Script{Kind: "cut", Content: c, Cut: cut}
}

func c15GenHist(r *vfRand) (h c15Hist) {
	nb := int(r.Range(1, 2))
	na := int(r.Range(0, 1))
	name := func(id int64) string {
		if r.Chance(1, 3) {
			return ""
		}
		return fmt.Sprintf("list %d", id)
	}
	for i := 0; i < nb; i++ {
		h.Lists = append(h.Lists, c15List{ID: int64(i + 1), Enabled: !r.Chance(1, 8), Local: r.Chance(1, 5), Name: name(int64(i + 1))})
	}
	for i := 0; i < na; i++ {
		h.Lists = append(h.Lists, c15List{ID: int64(i + 11), Allow: true, Enabled: !r.Chance(1, 8), Local: r.Chance(1, 5), Name: name(int64(i + 11))})
	}
	// Two or three contents per list which its source keeps coming back to
	// (A, A, B, B, A ...), so that unchanged and returning checksums are common.
	pools := map[int64][]string{}
	for _, l := range h.Lists {
		for k := int(r.Range(2, 3)); k > 0; k-- {
			pools[l.ID] = append(pools[l.ID], c15ListText(r))
		}
	}
	n := int(r.Range(2, 8))
	// One history in three is about set_url: it starts with a forced refresh
	// from sources that work (so that files are stored), and every second step
	// is a set_url call.
	heavy := r.Chance(1, 3)
	if heavy {
		n = int(r.Range(5, 9))
	}
	var last = map[int64]c15Script{}
	// failingFor draws a failing source for a list: the ways a set_url-driven
	// download fails.
	failingFor := func(l c15List) c15Script {
		c := vfPick(r, pools[l.ID])
		for len(c) == 0 {
			c = c15ListText(r)
		}
		if l.Local {
			return vfPick(r, []c15Script{{Kind: "file-missing"}, {Kind: "file-dir"}, {Kind: "file-unsafe", Content: c}, {Kind: "file-ok", Content: c15BadText(r)}})
		}
		return vfPick(r, []c15Script{
			{Kind: "status", Status: 500}, {Kind: "status", Status: 503}, {Kind: "status", Status: 404},
			{Kind: "cut", Content: c, Cut: int(r.Range(0, int64(len(c))))}, {Kind: "cut", Content: c, Cut: len(c)},
			{Kind: "rename-fail", Content: c}, {Kind: "rename-fail", Content: c},
			{Kind: "ok", Content: c15BadText(r)}, {Kind: "ok", Content: c15BadText(r)}, {Kind: "close-early"}, {Kind: "refused"},
		})
	}
	// reenable: the list a set_url call of the previous step disabled; half of
	// the time the next step enables it again, two times in three against a
	// failing source.
	var reenable *c15List
	// restartedSince: the process has restarted since that call; lastGood: the
	// last script of a working source a refresh step gave the list (a guess of
	// what is stored for it).
	restartedSince := false
	lastGood := map[int64]c15Script{}
	for i := 0; i < n; i++ {
		st := c15Step{Block: !r.Chance(1, 6), Allow: !r.Chance(1, 6), Force: r.Chance(1, 2), Scripts: map[string]c15Script{}}
		for _, l := range h.Lists {
			if r.Chance(2, 3) {
				st.Due = append(st.Due, l.ID)
			}
			sc := c15GenScript(r, l, pools[l.ID])
			if prev, ok := last[l.ID]; ok && r.Chance(1, 5) {
				// Serve the same thing again (same checksum).
				sc = prev
			}
			if heavy && i == 0 {
				sc = c15Script{Kind: "ok", Content: vfPick(r, pools[l.ID])}
				if l.Local {
					sc.Kind = "file-ok"
				}
			}
			last[l.ID] = sc
			st.Scripts[strconv.FormatInt(l.ID, 10)] = sc
		}
		if heavy && i == 0 {
			st.Block, st.Allow, st.Force = true, true, true
			h.Steps = append(h.Steps, st)
			continue
		}
		switch {
		case reenable != nil && !restartedSince && r.Chance(1, 3):
			// The process restarts while the list is disabled; the list may be
			// enabled again in the next step.
			st.Restart = true
			restartedSince = true
		case reenable != nil && r.Chance(3, 4):
			l := *reenable
			st.Set = &c15Set{ID: l.ID, Enabled: true, Name: l.Name}
			if g, ok := lastGood[l.ID]; ok && restartedSince && r.Chance(1, 2) {
				// The source serves what it served when the list was last
				// refreshed: unchanged content after a restart.
				st.Scripts[strconv.FormatInt(l.ID, 10)] = g
				last[l.ID] = g
			} else if r.Chance(2, 3) {
				st.Scripts[strconv.FormatInt(l.ID, 10)] = failingFor(l)
				last[l.ID] = st.Scripts[strconv.FormatInt(l.ID, 10)]
			}
			reenable = nil
		case r.Chance(1, 4) || (heavy && r.Chance(1, 3)):
			reenable = nil
			l := vfPick(r, h.Lists)
			st.Set = &c15Set{ID: l.ID, Enabled: r.Chance(1, 2), Name: vfPick(r, []string{l.Name, l.Name, "renamed", ""})}
			kind := r.Intn(9)
			if heavy && kind >= 6 {
				kind = 0
			}
			switch kind {
			case 0, 1:
				// To another source (or back to the first one); half of the
				// time that source fails.
				st.Set.URL = l.ID + 100*r.Range(0, 2)
				st.Set.Enabled = !r.Chance(1, 4)
				if r.Chance(1, 2) {
					st.Scripts[strconv.FormatInt(l.ID, 10)] = failingFor(l)
					last[l.ID] = st.Scripts[strconv.FormatInt(l.ID, 10)]
				}
			case 2:
				st.Set.Dup = vfPick(r, h.Lists).ID
			case 3:
				// A list that does not exist (in the array of a random list).
				st.Set.ID = vfPick(r, []int64{5, 15})
				st.Set.URL = vfPick(r, []int64{0, 105})
			}
			if !st.Set.Enabled && st.Set.Dup == 0 && st.Set.ID == l.ID {
				reenable = &l
				restartedSince = false
			}
		case r.Chance(1, 10):
			reenable = nil
			st.Rebuild = true
		case r.Chance(1, 8):
			reenable = nil
			st.Restart = true
		default:
			reenable = nil
		}
		if st.Set == nil && !st.Rebuild && !st.Restart {
			for _, l := range h.Lists {
				if sc := st.Scripts[strconv.FormatInt(l.ID, 10)]; (sc.Kind == "ok" || sc.Kind == "file-ok") && verifc15.Classify([]byte(sc.Content)).Clean() {
					lastGood[l.ID] = sc
				}
			}
		}
		if !st.Rebuild && !st.Restart && r.Chance(1, 8) {
			// The pending files take only so many bytes during this step.
			longest := 0
			for _, sc := range st.Scripts {
				if len(sc.Content) > longest {
					longest = len(sc.Content)
				}
			}
			lim := int(r.Range(0, int64(longest)+2))
			if r.Chance(1, 5) {
				lim = 0
			}
			st.Limit = &lim
		}
		h.Steps = append(h.Steps, st)
	}
	return h
}

type c15Obs struct {
	file    []byte
	exists  bool
	ino     uint64
	count   int
	sum     uint32
	name    string
	enabled bool
	url     int64
}

// c15Rules returns the probe names for which the stored text has a rule.
func c15Rules(file []byte) map[string]bool {
	m := map[string]bool{}
	for _, ln := range strings.Split(string(file), "\n") {
		if strings.HasPrefix(ln, "||") && strings.HasSuffix(ln, "^") {
			m[ln[2:len(ln)-1]] = true
		}
	}
	return m
}

func c15Run(t *testing.T, out *vfOut, srv *c15Server, h c15Hist, forced ...string) {
	dir := t.TempDir()
	srcDir := filepath.Join(dir, "src")
	if err := os.MkdirAll(srcDir, 0o755); err != nil {
		t.Fatal(err)
	}
	closed, _ := net.Listen("tcp", "127.0.0.1:0")
	refusedURL := "http://" + closed.Addr().String()
	_ = closed.Close()

	// urlFor is the URL that names source number k for list l when that source
	// behaves as kind says (a refused connection and a path outside the safe
	// patterns need a URL of their own).
	urlFor := func(l c15List, k int64, kind string) string {
		switch {
		case l.Local && kind == "file-unsafe":
			return filepath.Join(dir, fmt.Sprintf("unsafe%d.list", k))
		case l.Local:
			return filepath.Join(srcDir, fmt.Sprintf("list%d.txt", k))
		case kind == "refused":
			return refusedURL + "/l/x" + strconv.FormatInt(k, 10)
		}
		return srv.url + "/l/" + strconv.FormatInt(k, 10)
	}
	// arrange makes source number k of list l behave as sc says.
	arrange := func(l c15List, k int64, sc c15Script) {
		p := filepath.Join(srcDir, fmt.Sprintf("list%d.txt", k))
		_ = os.RemoveAll(p)
		switch sc.Kind {
		case "refused":
		case "file-ok":
			_ = os.WriteFile(p, []byte(sc.Content), 0o644)
		case "file-dir":
			_ = os.Mkdir(p, 0o755)
		case "file-unsafe":
			_ = os.WriteFile(urlFor(l, k, sc.Kind), []byte(sc.Content), 0o644)
		default:
			sc.listID = strconv.FormatInt(l.ID, 10)
			srv.mu.Lock()
			srv.scripts[strconv.FormatInt(k, 10)] = sc
			srv.mu.Unlock()
		}
	}
	// key is the number of the source each list's URL names.
	key := map[int64]int64{}
	for _, l := range h.Lists {
		key[l.ID] = l.ID
	}
	// newConf is the configuration a process starts with: what does not come
	// from the lists of the configuration file is the same in every life.
	newConf := func(block, allow []FilterYAML) *Config {
		return &Config{
			DataDir:                    dir,
			HTTPClient:                 &http.Client{Timeout: 5 * time.Second, Transport: &http.Transport{DisableKeepAlives: true}},
			FiltersUpdateIntervalHours: 24,
			FilteringEnabled:           true,
			SafeFSPatterns:             []string{filepath.Join(srcDir, "*.txt")},
			Filters:                    block,
			WhitelistFilters:           allow,
		}
	}
	var bl0, al0 []FilterYAML
	for _, l := range h.Lists {
		f := FilterYAML{Enabled: l.Enabled, URL: urlFor(l, l.ID, ""), Name: l.Name, Filter: Filter{ID: rulelist.URLFilterID(l.ID)}, white: l.Allow}
		if l.Allow {
			al0 = append(al0, f)
		} else {
			bl0 = append(bl0, f)
		}
	}
	d, err := New(newConf(bl0, al0), nil)
	if err != nil {
		t.Fatal(err)
	}
	defer func() { d.Close() }()
	d.EnableFilters(false)
	// restartNow ends this life of the filter and starts the next one: the
	// lists as WriteDiskConfig hands them to home, through YAML as home writes
	// and reads configuration.filters / whitelist_filters (so only what the
	// file keeps survives), the old filter closed, filtering.New on the same
	// data directory (MkdirAll, loadFilters for both arrays, deduplicateFilters,
	// idGenerator.fix), and EnableFilters(false) as startDNSServer calls it.
	// The updates loop (Start) is not started: refreshes are steps of the
	// history.
	restartNow := func() {
		written := &Config{}
		d.WriteDiskConfig(written)
		through := func(in []FilterYAML) (out []FilterYAML) {
			b, yerr := yaml.Marshal(in)
			if yerr != nil {
				t.Fatal(yerr)
			}
			if yerr = yaml.Unmarshal(b, &out); yerr != nil {
				t.Fatal(yerr)
			}
			return out
		}
		block, allow := through(written.Filters), through(written.WhitelistFilters)
		d.Close()
		d, err = New(newConf(block, allow), nil)
		if err != nil {
			t.Fatal(err)
		}
		d.EnableFilters(false)
	}

	classes := map[string]bool{}
	for _, f := range forced {
		classes[f] = true
	}
	monOK, monMsg, monKey := true, "", ""
	bad := func(key, msg string) {
		if monOK {
			monOK, monMsg, monKey = false, msg, key
		}
	}
	find := func(id int64) *FilterYAML {
		for i := range d.conf.Filters {
			if int64(d.conf.Filters[i].ID) == id {
				return &d.conf.Filters[i]
			}
		}
		for i := range d.conf.WhitelistFilters {
			if int64(d.conf.WhitelistFilters[i].ID) == id {
				return &d.conf.WhitelistFilters[i]
			}
		}
		return nil
	}
	verdicts := func() (vs []int) {
		for _, p := range c15Probes {
			res, cerr := d.CheckHost(p, dns.TypeA, &Settings{FilteringEnabled: true, ProtectionEnabled: true})
			v := 0
			switch {
			case cerr != nil:
				v = 9
			case res.Reason == FilteredBlockList:
				v = 1
			case res.Reason == NotFilteredAllowList:
				v = 2
			}
			vs = append(vs, v)
		}
		return vs
	}
	// cands are the URLs a list can have in the current step, by source number.
	cands := map[int64]map[string]int64{}
	observe := func() map[int64]c15Obs {
		m := map[int64]c15Obs{}
		for _, l := range h.Lists {
			f := find(l.ID)
			o := c15Obs{count: f.RulesCount, sum: f.checksum, name: f.Name, enabled: f.Enabled, url: 999}
			if k, ok := cands[l.ID][f.URL]; ok {
				o.url = k
			} else if cands[l.ID] == nil {
				o.url = key[l.ID]
			}
			b, rerr := os.ReadFile(f.Path(dir))
			if rerr == nil {
				o.file, o.exists = b, true
				if fi, serr := os.Stat(f.Path(dir)); serr == nil {
					o.ino = fi.Sys().(*syscall.Stat_t).Ino
				}
			}
			m[l.ID] = o
		}
		return m
	}
	// The rules the enabled lists' files hold, as verdicts: the rules that
	// ought to be in force.
	expected := func(obs map[int64]c15Obs) (vs []int) {
		for _, p := range c15Probes {
			v := 0
			for _, l := range h.Lists {
				o := obs[l.ID]
				if !o.enabled || !o.exists || !c15Rules(o.file)[p] {
					continue
				}
				if l.Allow {
					v = 2
				} else if v == 0 {
					v = 1
				}
			}
			vs = append(vs, v)
		}
		return vs
	}
	rewritten := func(b, a c15Obs) bool { return b.exists != a.exists || b.ino != a.ino }
	same := func(b, a c15Obs) bool {
		return b.exists == a.exists && bytes.Equal(b.file, a.file) && b.ino == a.ino && b.count == a.count &&
			b.sum == a.sum && b.name == a.name && b.enabled == a.enabled && b.url == a.url
	}
	parseOf := func(data []byte) (res *rulelist.ParseResult, norm []byte, perr error) {
		var sink bytes.Buffer
		res, perr = rulelist.NewParser().Parse(&sink, bytes.NewReader(data), make([]byte, rulelist.DefaultRuleBufSize))
		return res, sink.Bytes(), perr
	}

	prev, prevV := observe(), verdicts()
	var steps []string
	var defs []vfDef
	nontrivial := false
	seen := map[int64][]uint32{}            // checksums stored so far, per list
	var failedSet *c15FailedSet             // the set_url call of the previous step failed
	forgot := map[int64]bool{}              // see c15FollowUpAfterFailedURLChange
	afterFailedURL := map[int64]bool{}      // the URL change of this enabled, stored list has failed since its last refresh
	loadedAtRestart := map[int64]bool{}     // the metadata of this enabled list are those the last start-up computed from its file
	disabledOverRestart := map[int64]bool{} // the list was disabled, with a stored file, when the process last restarted, and still is
	for _, st := range h.Steps {
		if st.Set == nil && !st.Rebuild && !st.Restart && len(forgot) > 0 {
			// See c15FollowUpAfterFailedURLChange.
			classes["refresh-left-out-after-forgotten-checksum"] = true
			continue
		}
		limit := -1
		if st.Limit != nil {
			limit = *st.Limit
		}
		// Arrange the sources.
		srv.mu.Lock()
		for k := range srv.scripts {
			delete(srv.scripts, k)
		}
		srv.tmpDir = os.TempDir()
		srv.mu.Unlock()
		due := map[int64]bool{}
		for _, id := range st.Due {
			due[id] = true
		}
		attempted := map[int64]bool{}
		for _, l := range h.Lists {
			f := find(l.ID)
			sc := st.Scripts[strconv.FormatInt(l.ID, 10)]
			if due[l.ID] {
				f.LastUpdated = time.Time{}
			} else {
				f.LastUpdated = time.Now()
			}
			if st.Set == nil && f.Enabled && (st.Force || due[l.ID]) && ((l.Allow && st.Allow) || (!l.Allow && st.Block)) {
				attempted[l.ID] = true
			}
			f.URL = urlFor(l, key[l.ID], sc.Kind)
			cands[l.ID] = map[string]int64{f.URL: key[l.ID]}
			arrange(l, key[l.ID], sc)
		}
		inStepBefore := fmt.Sprint(expected(prev)) == fmt.Sprint(prevV)

		if st.Restart {
			// The process restarts.  Monitor: no file is touched; every list is
			// still there with its URL and its flag; what the start-up computes
			// from the stored file of an enabled list is what the list had (the
			// stored form is stable: same rule count and checksum; the name kept
			// unless there was none); the rules in force are those of the stored
			// files of the enabled lists.  Rule count and checksum of a disabled
			// list are left to the comparison with the model.
			var pan any
			func() {
				defer func() { pan = recover() }()
				restartNow()
			}()
			if pan != nil {
				bad("C15/restart-panic", fmt.Sprintf("the restart panicked: %v", pan))
			}
			cur, curV := observe(), verdicts()
			classes["restart"] = true
			if len(steps) == 0 {
				classes["restart-first-step"] = true
			}
			for _, l := range h.Lists {
				b, a := prev[l.ID], cur[l.ID]
				if rewritten(b, a) || !bytes.Equal(b.file, a.file) {
					bad("C15/restart-changed-file", fmt.Sprintf("a restart changed the stored file of list %d: %q (exists %v, inode %d) -> %q (exists %v, inode %d)", l.ID, c15Short(string(b.file)), b.exists, b.ino, c15Short(string(a.file)), a.exists, a.ino))
				}
				if b.enabled != a.enabled || b.url != a.url {
					bad("C15/restart-changed-list", fmt.Sprintf("a restart changed list %d: enabled %v -> %v, source %d -> %d", l.ID, b.enabled, a.enabled, b.url, a.url))
				}
				f := find(l.ID)
				switch {
				case b.enabled && b.exists:
					classes["restart-enabled-stored-list"] = true
					nontrivial = true
					if b.count != a.count || b.sum != a.sum {
						bad("C15/restart-changed-meta", fmt.Sprintf("list %d: the stored file %q had %d rules, checksum %08x before the restart; the start-up computes %d, %08x from it", l.ID, c15Short(string(b.file)), b.count, b.sum, a.count, a.sum))
					}
					if fi, serr := os.Stat(f.Path(dir)); serr != nil {
						bad("C15/restart-last-updated", fmt.Sprintf("list %d: the stored file after the restart: %v", l.ID, serr))
					} else if !f.LastUpdated.Equal(fi.ModTime()) {
						bad("C15/restart-last-updated", fmt.Sprintf("list %d: the stored file was last replaced at %s, but after the restart the list's last update is %s", l.ID, fi.ModTime().Format(time.RFC3339Nano), f.LastUpdated.Format(time.RFC3339Nano)))
					}
				case b.enabled:
					classes["restart-enabled-list-without-file"] = true
					if a.count != b.count || a.sum != b.sum || !f.LastUpdated.IsZero() {
						bad("C15/restart-changed-meta", fmt.Sprintf("list %d has no file; rule count %d -> %d, checksum %08x -> %08x, last update %v over the restart", l.ID, b.count, a.count, b.sum, a.sum, f.LastUpdated))
					}
				case b.exists:
					classes["restart-disabled-stored-list"] = true
					nontrivial = true
				default:
					classes["restart-disabled-list-without-file"] = true
				}
				switch {
				case b.name != "" && a.name != b.name:
					bad("C15/restart-changed-name", fmt.Sprintf("a restart renamed list %d from %q to %q", l.ID, b.name, a.name))
				case b.name == "" && a.name != "":
					classes["restart-names-nameless-list"] = true
				case b.name == "":
					classes["restart-nameless-list-stays"] = true
				}
			}
			if fmt.Sprint(expected(cur)) != fmt.Sprint(curV) {
				bad("C15/restart-not-from-files", fmt.Sprintf("after a restart the enabled lists' files give verdicts %v but %v are in force", expected(cur), curV))
			}
			if inStepBefore && fmt.Sprint(prevV) != fmt.Sprint(curV) {
				bad("C15/restart-changed-verdicts", fmt.Sprintf("the rules in force were those of the stored files (verdicts %v); after a restart the verdicts are %v", prevV, curV))
			}
			if !inStepBefore {
				classes["restart-catches-up-with-files"] = true
			}
			if failedSet != nil {
				classes["failed-set-then-restart"] = true
				if fmt.Sprint(failedSet.want) != fmt.Sprint(curV) {
					bad("C15/failed-set-removed-file", fmt.Sprintf("set_url on list %d failed; the files stored before it give verdicts %v, but after the restart %v are in force", failedSet.id, failedSet.want, curV))
				}
			}
			failedSet = nil
			for id := range forgot {
				// the checksum is recomputed from the file
				delete(forgot, id)
			}
			var obs, vs []string
			for _, l := range h.Lists {
				obs = append(obs, c15ObsTerm(&defs, l.ID, prev[l.ID], cur[l.ID]))
				delete(disabledOverRestart, l.ID)
				delete(loadedAtRestart, l.ID)
				switch {
				case !cur[l.ID].enabled && cur[l.ID].exists:
					disabledOverRestart[l.ID] = true
				case cur[l.ID].enabled && cur[l.ID].exists:
					loadedAtRestart[l.ID] = true
				}
			}
			for _, v := range curV {
				vs = append(vs, vfN(uint64(v)))
				if v != 0 {
					classes[map[int]string{1: "verdict-blocked", 2: "verdict-allowed", 9: "verdict-error"}[v]] = true
				}
			}
			steps = append(steps, vfApp("RRestart", vfList("lobs", obs), vfList("N", vs)))
			prev, prevV = cur, curV
			continue
		}
		if st.Rebuild {
			// Any other settings change: the engine is rebuilt
			// from the files of the enabled lists.
			d.EnableFilters(false)
			cur, curV := observe(), verdicts()
			classes["rebuild"] = true
			for _, l := range h.Lists {
				if !same(prev[l.ID], cur[l.ID]) {
					bad("C15/rebuild-changed-list", fmt.Sprintf("an engine rebuild changed list %d: %+v -> %+v", l.ID, prev[l.ID], cur[l.ID]))
				}
			}
			if fmt.Sprint(expected(cur)) != fmt.Sprint(curV) {
				bad("C15/rebuild-not-from-files", fmt.Sprintf("after an engine rebuild the enabled lists' files give verdicts %v but %v are in force", expected(cur), curV))
			}
			if !inStepBefore {
				classes["rebuild-catches-up-with-files"] = true
			}
			if failedSet != nil {
				classes["failed-set-then-rebuild"] = true
				if fmt.Sprint(failedSet.want) != fmt.Sprint(curV) {
					bad("C15/failed-set-removed-file", fmt.Sprintf("set_url on list %d failed; the files stored before it give verdicts %v, but after the next engine rebuild %v are in force", failedSet.id, failedSet.want, curV))
				}
			}
			failedSet = nil
			var obs, vs []string
			for _, l := range h.Lists {
				obs = append(obs, c15ObsTerm(&defs, l.ID, prev[l.ID], cur[l.ID]))
			}
			for _, v := range curV {
				vs = append(vs, vfN(uint64(v)))
			}
			steps = append(steps, vfApp("RRebuild", vfList("lobs", obs), vfList("N", vs)))
			prev, prevV = cur, curV
			continue
		}
		if st.Set != nil {
			// set_url: filterSetProperties, then what handleFilteringSetURL
			// does with the result (engine rebuilt synchronously here).
			var target c15List
			for _, l := range h.Lists {
				if l.ID == st.Set.ID {
					target = l
				}
			}
			sc := st.Scripts[strconv.FormatInt(st.Set.ID, 10)]
			setURL, newURL := srv.url+"/l/none", srv.url+"/l/none"
			oldKey, newKey := int64(777), int64(777)
			dup := false
			if target.ID != 0 {
				setURL, oldKey = find(target.ID).URL, key[target.ID]
				newURL, newKey = setURL, oldKey
				if st.Set.Dup != 0 && st.Set.Dup != target.ID {
					// The URL another list has now.
					newURL, newKey, dup = find(st.Set.Dup).URL, key[st.Set.Dup], true
				} else if st.Set.URL != 0 && st.Set.URL != oldKey {
					newKey = st.Set.URL
					newURL = urlFor(target, newKey, sc.Kind)
					arrange(target, newKey, sc)
					cands[target.ID][newURL] = newKey
				}
			} else {
				// No such list: the call is refused and nothing changes.
				target.ID, target.Allow = st.Set.ID, st.Set.ID >= 10
				classes["set-unknown-list"] = true
			}
			urlChange := newKey != oldKey
			var restart bool
			var serr error
			var pan any
			func() {
				defer func() { pan = recover() }()
				c15WithFileLimit(t, limit, func() {
					restart, serr = d.filterSetProperties(setURL, FilterYAML{Enabled: st.Set.Enabled, Name: st.Set.Name, URL: newURL}, target.Allow)
				})
				if serr == nil && restart {
					d.EnableFilters(false)
				}
			}()
			if pan != nil {
				bad("C15/set-panic", fmt.Sprintf("set_url panicked: %v", pan))
			}
			cur, curV := observe(), verdicts()

			// Monitor.
			b, a := prev[target.ID], cur[target.ID]
			for _, l := range h.Lists {
				if l.ID != target.ID && !same(prev[l.ID], cur[l.ID]) {
					bad("C15/set-changed-other-list", fmt.Sprintf("set_url on list %d changed list %d", target.ID, l.ID))
				}
			}
			okReader, data, readErr := sc.delivered()
			srcRes, srcNorm, srcErr := parseOf([]byte(data))
			// why: the failure class of the source by the byte-level definitions
			// (HTML, binary, pending file too small ...), whatever the parser says.
			why, wcls := c15Why(sc, limit)
			srcFails := !okReader || readErr || srcErr != nil || sc.Kind == "rename-fail" || why != ""
			if st.Set.Enabled && !dup && (urlChange || !b.enabled) {
				for _, c := range wcls {
					classes[c] = true
				}
			}
			failedSet = nil
			switch {
			case serr != nil:
				classes["set-failed"] = true
				// The stored file first: whatever else the failed call did, the
				// file the last successful refresh stored must be there, the
				// same file with the same bytes.
				if b.exists && (!a.exists || a.ino != b.ino || !bytes.Equal(b.file, a.file)) {
					bad("C15/failed-set-removed-file", fmt.Sprintf("set_url on list %d (enabled %v -> %v, source %d -> %d %s) failed (%v) but the stored file %q (inode %d) is now %q (exists %v, inode %d)",
						target.ID, b.enabled, st.Set.Enabled, oldKey, newKey, sc.Kind, serr, b.file, b.ino, a.file, a.exists, a.ino))
				}
				cmpB := b
				if urlChange && !dup && !c15FollowUpAfterFailedURLChange && a.sum != b.sum && a.sum == 0 {
					// See c15FollowUpAfterFailedURLChange.
					classes["failed-url-change-checksum-forgotten"] = true
					cmpB.sum = a.sum
					forgot[target.ID] = true
				}
				if !same(cmpB, a) || fmt.Sprint(prevV) != fmt.Sprint(curV) {
					bad("C15/failed-set-changed-state", fmt.Sprintf("set_url on list %d failed (%v) but the list or the verdicts changed: %+v -> %+v, %v -> %v", target.ID, serr, b, a, prevV, curV))
				}
				if b.exists {
					nontrivial = true
				}
				switch {
				case dup && urlChange:
					classes["set-url-duplicate"] = true
				case urlChange:
					classes["set-url-change-failed"] = true
					if b.exists && b.enabled {
						afterFailedURL[target.ID] = true
						classes["set-url-change-failed-with-file"] = true
						classes["set-url-change-failed-"+c15FailKind(sc, limit)] = true
					}
				case b.exists && !b.enabled && st.Set.Enabled:
					classes["set-reenable-failed-with-file"] = true
					classes["set-reenable-failed-"+c15FailKind(sc, limit)] = true
				}
				if urlChange && !srcFails && !dup {
					bad("C15/set-failed-without-cause", fmt.Sprintf("set_url on list %d to source %d failed (%v) although the source delivers %q", target.ID, newKey, serr, data))
				}
				if inStepBefore {
					failedSet = &c15FailedSet{id: target.ID, want: expected(prev)}
				}
			case !st.Set.Enabled:
				classes["set-disable"] = true
				if b.enabled {
					classes["set-disable-enabled-list"] = true
					nontrivial = true
				}
				if urlChange {
					classes["set-url-change-disabled"] = true
				}
				if a.enabled || a.count != 0 || rewritten(b, a) || !bytes.Equal(b.file, a.file) || a.url != newKey {
					bad("C15/disable-wrong", fmt.Sprintf("list %d disabled: enabled %v, count %d, file %q -> %q, source %d (want %d)", target.ID, a.enabled, a.count, b.file, a.file, a.url, newKey))
				}
				delete(forgot, target.ID)
			case urlChange:
				// An enabled list now reads another source.
				nontrivial = true
				classes["set-url-change"] = true
				if b.enabled {
					classes["set-url-change-enabled-list"] = true
				}
				delete(forgot, target.ID)
				if srcFails {
					bad("C15/enable-ignored-failure", fmt.Sprintf("list %d pointed to source %d (%s, body %q) without an error although that source fails: %s; file %q -> %q, count %d -> %d", target.ID, newKey, sc.Kind, c15Short(data), why, c15Short(string(b.file)), c15Short(string(a.file)), b.count, a.count))
				} else {
					wantFile := srcRes.Checksum != 0
					if !a.enabled || a.url != newKey || a.count != srcRes.RulesCount || a.sum != srcRes.Checksum || a.exists != wantFile || (wantFile && !bytes.Equal(a.file, srcNorm)) {
						bad("C15/url-change-wrong", fmt.Sprintf("list %d pointed to source %d delivering %q (normal form %q, %d rules, checksum %08x): %+v", target.ID, newKey, data, srcNorm, srcRes.RulesCount, srcRes.Checksum, a))
					}
					if srcRes.Checksum == 0 && b.exists {
						classes["set-url-change-no-rules"] = true
					}
				}
			case b.enabled:
				classes["set-name-only"] = true
				if !a.enabled || a.count != b.count || a.sum != b.sum || rewritten(b, a) || !bytes.Equal(b.file, a.file) || a.url != b.url {
					bad("C15/rename-changed-list", fmt.Sprintf("list %d only renamed but changed: %+v -> %+v", target.ID, b, a))
				}
			default:
				// A disabled list has been enabled.
				nontrivial = true
				classes["set-enable"] = true
				delete(forgot, target.ID)
				if srcFails {
					bad("C15/enable-ignored-failure", fmt.Sprintf("list %d enabled (source %s, body %q) without an error although its source fails: %s; file %q -> %q, count %d -> %d", target.ID, sc.Kind, c15Short(data), why, c15Short(string(b.file)), c15Short(string(a.file)), b.count, a.count))
				} else {
					if bytes.Equal(b.file, srcNorm) && b.exists {
						classes["set-enable-identical-bytes"] = true
					}
					if srcRes.RulesCount == 0 {
						classes["set-enable-no-rules"] = true
					}
					if !a.enabled || a.count != srcRes.RulesCount {
						bad("C15/enable-wrong-meta", fmt.Sprintf("list %d enabled with source %q: enabled %v, count %d, want %d", target.ID, data, a.enabled, a.count, srcRes.RulesCount))
					}
					// The download succeeded: what it delivered is stored, in its
					// normal form (no file, or an empty one, for a text without
					// rules), whatever was stored before, and its rules are in force.
					wantFile := srcRes.Checksum != 0
					if disabledOverRestart[target.ID] {
						classes["set-enable-after-restart"] = true
						if b.exists && bytes.Equal(b.file, srcNorm) && wantFile {
							classes["set-enable-after-restart-same-content"] = true
						}
					}
					if (wantFile && (!a.exists || !bytes.Equal(a.file, srcNorm))) || (!wantFile && a.exists && len(a.file) > 0) || a.sum != srcRes.Checksum {
						after := ""
						if disabledOverRestart[target.ID] {
							after = " (disabled since before the last restart)"
						}
						bad("C15/enable-not-stored", fmt.Sprintf("list %d%s enabled; its source delivered %q (normal form %q, %d rules, checksum %08x) and no error was reported, but the stored file was %q (exists %v) and is now %q (exists %v); count %d, checksum %08x",
							target.ID, after, c15Short(data), c15Short(string(srcNorm)), srcRes.RulesCount, srcRes.Checksum, c15Short(string(b.file)), b.exists, c15Short(string(a.file)), a.exists, a.count, a.sum))
					}
					for i, p := range c15Probes {
						if c15Rules(srcNorm)[p] && curV[i] == 0 {
							bad("C15/enabled-rules-not-in-force", fmt.Sprintf("list %d enabled with source %q without an error, but %s is neither blocked nor allowed (verdicts %v)", target.ID, c15Short(data), p, curV))
						}
					}
				}
			}
			if serr == nil {
				delete(disabledOverRestart, target.ID)
				if !cur[target.ID].enabled || urlChange {
					delete(loadedAtRestart, target.ID)
				}
			}
			if serr == nil && st.Set.Name != "" && a.name != st.Set.Name {
				bad("C15/set-name-wrong", fmt.Sprintf("list %d: name %q after setting %q", target.ID, a.name, st.Set.Name))
			}
			if serr == nil && inStepBefore && fmt.Sprint(expected(cur)) != fmt.Sprint(curV) {
				bad("C15/reenabled-list-stale-file", fmt.Sprintf("after set_url(list %d, enabled=%v, source %d -> %d) with source %s %q the enabled lists' files give verdicts %v but %v are in force (list: count %d, checksum %08x, file %q)",
					target.ID, st.Set.Enabled, oldKey, newKey, sc.Kind, data, expected(cur), curV, a.count, a.sum, a.file))
			}
			for i, v := range curV {
				if v != 0 {
					classes[map[int]string{1: "verdict-blocked", 2: "verdict-allowed", 9: "verdict-error"}[v]] = true
				}
				if st.Set.Enabled && !b.enabled && serr == nil && v != prevV[i] {
					classes["set-enable-changes-verdict"] = true
				}
				if st.Set.Enabled && b.enabled && urlChange && serr == nil && v != prevV[i] {
					classes["set-url-change-changes-verdict"] = true
				}
				if !st.Set.Enabled && b.enabled && v != prevV[i] {
					classes["set-disable-changes-verdict"] = true
				}
			}

			var obs, vs []string
			for _, l := range h.Lists {
				obs = append(obs, c15ObsTerm(&defs, l.ID, prev[l.ID], cur[l.ID]))
				key[l.ID] = cur[l.ID].url
			}
			for _, v := range curV {
				vs = append(vs, vfN(uint64(v)))
			}
			steps = append(steps, vfApp("RSet", vfBool(target.Allow), vfN(uint64(oldKey)), vfBytes(st.Set.Name), vfN(uint64(newKey)), vfBool(st.Set.Enabled),
				sc.outcome(&defs, limit), vfBool(restart), vfBool(serr != nil), vfList("lobs", obs), vfList("N", vs)))
			prev, prevV = cur, curV
			continue
		}
		failedSet = nil

		var pan any
		var netErr bool
		var updNum int
		func() {
			defer func() { pan = recover() }()
			c15WithFileLimit(t, limit, func() {
				updNum, netErr, _ = d.tryRefreshFilters(st.Block, st.Allow, st.Force)
			})
		}()
		if pan != nil {
			bad("C15/refresh-panic", fmt.Sprintf("refresh panicked: %v", pan))
		}
		cur, curV := observe(), verdicts()

		// Monitor: the property on what happened, independent of the model.
		allFailed := true
		for _, l := range h.Lists {
			sc := st.Scripts[strconv.FormatInt(l.ID, 10)]
			okReader, data, readErr := sc.delivered()
			failing := !okReader || readErr
			var srcRes *rulelist.ParseResult
			var srcNorm []byte
			if okReader && !readErr {
				// Content problems the property lists: HTML or binary.
				var perr error
				srcRes, srcNorm, perr = parseOf([]byte(data))
				failing = perr != nil
				if failing {
					classes["bad-content"] = true
					if i := strings.Index(strings.ToLower(data), "<html"); i > 0 && strings.TrimSpace(data[:i]) != data[:i] || strings.HasPrefix(data, "#") || strings.HasPrefix(data, "!") {
						classes["html-after-unwritten-lines"] = true
					}
				}
			}
			renameFail := sc.Kind == "rename-fail" && !failing
			// The failure classes of the property by their byte-level
			// definitions (package verifc15) and the script, whatever the
			// parser made of the body: HTML or binary content, a pending file
			// that does not take what is to be written.
			why, wcls := c15Why(sc, limit)
			if okReader && !readErr && !failing {
				if sp := verifc15.Classify([]byte(data)); sp.Clean() && !bytes.Equal(srcNorm, sp.Norm) {
					bad("C15/normal-form-differs-from-spec", fmt.Sprintf("list %d: body %q: the parser's normal form is %q, by definition it is %q", l.ID, c15Short(data), c15Short(string(srcNorm)), c15Short(string(sp.Norm))))
				}
			}
			b, a := prev[l.ID], cur[l.ID]
			if !attempted[l.ID] || failing || renameFail || why != "" {
				what := "not attempted"
				if attempted[l.ID] {
					what = fmt.Sprintf("source %s, body %q: %s", sc.Kind, c15Short(data), why)
					if why == "" {
						what = fmt.Sprintf("source %s, body %q: rejected by the parser", sc.Kind, c15Short(data))
					}
					for _, c := range wcls {
						classes[c] = true
					}
				}
				if rewritten(b, a) || !bytes.Equal(b.file, a.file) {
					bad("C15/failed-refresh-changed-file", fmt.Sprintf("list %d: %s; but the stored file changed from %q to %q", l.ID, what, c15Short(string(b.file)), c15Short(string(a.file))))
				}
				if b.count != a.count || b.sum != a.sum || b.name != a.name || b.enabled != a.enabled {
					key := "C15/failed-refresh-changed-meta"
					if renameFail && attempted[l.ID] {
						key = "C15/rename-failure-changed-meta"
					}
					bad(key, fmt.Sprintf("list %d: %s; but name/count/checksum changed from %q/%d/%08x to %q/%d/%08x", l.ID, what, b.name, b.count, b.sum, a.name, a.count, a.sum))
				}
				if attempted[l.ID] {
					classes["fail-"+sc.Kind] = true
					if renameFail {
						if netErr {
							classes["rename-fail-all-failed"] = true
						} else {
							classes["rename-fail-beside-success"] = true
						}
					}
					if sc.Kind == "cut" {
						switch {
						case sc.Cut == 0:
							classes["cut-after-headers"] = true
						case sc.Cut == len(sc.Content):
							classes["cut-full-body-short-length"] = true
						case sc.Content[sc.Cut-1] == '\n':
							classes["cut-at-line-boundary"] = true
						default:
							classes["cut-mid-line"] = true
						}
					}
				}
			} else {
				allFailed = false
				for _, c := range wcls {
					classes[c] = true
				}
				// What is stored now, by the harness's own parse of it.
				stRes, _, stErr := parseOf(b.file)
				how := ""
				if st.Force {
					how = "-forced"
				} else {
					how = "-scheduled"
				}
				if l.Allow {
					how += "-allow"
				} else {
					how += "-block"
				}
				if b.exists && stErr == nil && stRes.Checksum == srcRes.Checksum {
					classes["ok-same-checksum"] = true
					classes["same-checksum"+how] = true
					if loadedAtRestart[l.ID] {
						// the checksum the start-up computed from the file
						classes["same-checksum-after-restart"] = true
					}
					if afterFailedURL[l.ID] {
						classes["failed-url-change-then-same-content"] = true
					}
					if rewritten(b, a) {
						bad("C15/same-checksum-rewritten", fmt.Sprintf("list %d: the source delivered %q, whose checksum %08x is that of the stored file, but the file was replaced", l.ID, data, srcRes.Checksum))
					}
				} else if b.exists || len(srcNorm) > 0 {
					classes["ok-updated"] = true
					classes["updated"+how] = true
					nontrivial = true
					if loadedAtRestart[l.ID] {
						classes["updated-after-restart"] = true
					}
					delete(loadedAtRestart, l.ID)
					if afterFailedURL[l.ID] && srcRes.Checksum == 0 {
						classes["failed-url-change-then-rule-less-content"] = true
					}
					if !a.exists || !bytes.Equal(a.file, srcNorm) || !rewritten(b, a) {
						bad("C15/successful-refresh-not-stored", fmt.Sprintf("list %d: the source delivered %q (normal form %q) but the stored file is %q", l.ID, data, srcNorm, a.file))
					}
					for _, s := range seen[l.ID] {
						if s == srcRes.Checksum {
							classes["content-returns-to-earlier"] = true
						}
					}
					if a.name != b.name {
						classes["title-adopted"] = true
					}
				}
				if !a.exists && len(srcNorm) == 0 {
					classes["ok-empty-no-file"] = true
				}
				if a.exists {
					seen[l.ID] = append(seen[l.ID], srcRes.Checksum)
				}
			}
			if attempted[l.ID] && (failing || renameFail || why != "") && b.exists {
				nontrivial = true
				classes["failed-with-existing-file"] = true
			}
			// Whatever is stored for an enabled list re-parses to itself and
			// matches the metadata (a disabled list is unloaded: count 0).
			if a.exists {
				res, norm, perr := parseOf(a.file)
				if perr != nil || !bytes.Equal(norm, a.file) {
					bad("C15/stored-not-fixed-point", fmt.Sprintf("list %d: stored file %q re-parses to %q (%v)", l.ID, a.file, norm, perr))
				} else if a.enabled && (res.RulesCount != a.count || res.Checksum != a.sum) {
					bad("C15/stored-meta-mismatch", fmt.Sprintf("list %d: stored file has %d rules, checksum %08x; metadata says %d, %08x", l.ID, res.RulesCount, res.Checksum, a.count, a.sum))
				}
			}
			if l.Allow && attempted[l.ID] {
				classes["allow-list"] = true
			}
			if attempted[l.ID] {
				delete(afterFailedURL, l.ID)
			}
			if !a.enabled {
				classes["disabled-list"] = true
			}
		}
		if allFailed {
			if fmt.Sprint(prevV) != fmt.Sprint(curV) {
				bad("C15/failed-refresh-changed-verdicts", fmt.Sprintf("nothing was refreshed successfully but verdicts changed from %v to %v", prevV, curV))
			}
			if len(attempted) > 0 {
				classes["all-failed"] = true
			}
		}
		if !netErr && inStepBefore && fmt.Sprint(expected(cur)) != fmt.Sprint(curV) {
			bad("C15/engine-out-of-step", fmt.Sprintf("after a refresh without a network error the enabled lists' files give verdicts %v but %v are in force", expected(cur), curV))
		}
		if netErr && fmt.Sprint(expected(cur)) != fmt.Sprint(curV) {
			classes["network-error-files-ahead-of-engine"] = true
		}
		replaced := 0
		for _, l := range h.Lists {
			if rewritten(prev[l.ID], cur[l.ID]) {
				replaced++
			}
		}
		if !netErr && updNum != replaced {
			bad("C15/updated-count-wrong", fmt.Sprintf("the refresh reports %d updated lists, but %d files were replaced", updNum, replaced))
		}
		if !netErr && updNum == 0 {
			classes["pass-without-update"] = true
			if !inStepBefore {
				classes["quiet-pass-engine-stays-behind"] = true
			}
		}
		if !netErr && updNum > 0 && !inStepBefore {
			classes["updating-pass-catches-up"] = true
		}
		if st.Force {
			classes["forced"] = true
		} else {
			classes["scheduled"] = true
		}

		// Emit the step.
		var dueS, ocs, obs []string
		for _, id := range st.Due {
			dueS = append(dueS, vfN(uint64(id)))
		}
		for _, l := range h.Lists {
			sc := st.Scripts[strconv.FormatInt(l.ID, 10)]
			ocs = append(ocs, vfPair(vfN(uint64(l.ID)), sc.outcome(&defs, limit)))
			obs = append(obs, c15ObsTerm(&defs, l.ID, prev[l.ID], cur[l.ID]))
		}
		var vs []string
		for _, v := range curV {
			vs = append(vs, vfN(uint64(v)))
			if v != 0 {
				classes[map[int]string{1: "verdict-blocked", 2: "verdict-allowed", 9: "verdict-error"}[v]] = true
			}
		}
		steps = append(steps, vfApp("RStep", vfBool(st.Block), vfBool(st.Allow), vfBool(st.Force),
			vfList("N", dueS), vfList("N * outcome", ocs), vfN(uint64(updNum)), vfBool(netErr), vfList("lobs", obs), vfList("N", vs)))
		prev, prevV = cur, curV
	}

	var bl, al, probes []string
	for _, l := range h.Lists {
		it := vfPair(vfPair(vfN(uint64(l.ID)), vfBool(l.Enabled)), vfBytes(l.Name))
		if l.Allow {
			al = append(al, it)
		} else {
			bl = append(bl, it)
		}
	}
	for _, p := range c15Probes {
		probes = append(probes, vfBytes(p))
	}
	cls := make([]string, 0, len(classes))
	for k := range classes {
		cls = append(cls, k)
	}
	sort.Strings(cls)
	out.Emit(vfCase{
		Coq:        vfApp("CRefresh", vfList("N * bool * list N", bl), vfList("N * bool * list N", al), vfList("list N", probes), vfList("rstep", steps)),
		Nontrivial: nontrivial,
		Classes:    cls,
		MonitorOK:  monOK,
		MonitorMsg: monMsg,
		FindingKey: monKey,
		Desc:       h,
		Defs:       defs,
	})
}

func c15Short(s string) string {
	if len(s) > 300 {
		return fmt.Sprintf("%s … (%d bytes) … %s", s[:100], len(s), s[len(s)-100:])
	}
	return s
}

// c15FailedSet is what a failed set_url call leaves to be looked at after the
// next engine rebuild: the verdicts the files stored before the call give.
type c15FailedSet struct {
	id   int64
	want []int
}

// c15FailKind names the way a source fails, for the class counters.
func c15FailKind(sc c15Script, limit int) string {
	switch {
	case (sc.Kind == "ok" || sc.Kind == "file-ok") && limit >= 0 && verifc15.Classify([]byte(sc.Content)).Clean():
		return "write-limit"
	case sc.Kind == "ok" || sc.Kind == "file-ok":
		return "bad-content"
	case sc.Kind == "status" && sc.Status >= 500:
		return "status-5xx"
	}
	return sc.Kind
}

func c15ObsTerm(defs *[]vfDef, id int64, b, a c15Obs) string {
	return vfApp("LO", vfN(uint64(id)), vfN(uint64(a.url)), vfOpt("list N", a.exists, c15B(defs, string(a.file))), vfN(uint64(a.count)), vfN(uint64(a.sum)),
		vfBytes(a.name), vfBool(a.enabled), vfBool(b.exists != a.exists || b.ino != a.ino))
}

func TestVerifC15(t *testing.T) {
	out := vfOpen(t, "C15")
	defer out.Close()
	// The pending files of the lists are created in TMPDIR when it is on the
	// same file system as the data directory; keep both private to this
	// process, since one kind of source removes pending files.
	t.Setenv("TMPDIR", t.TempDir())
	srv := c15NewServer(t)

	good1 := "! Title: One\n||p1.example^\r\n# c\n  ||p2.example^  \n"
	good2 := "||p3.example^\n"
	allow1 := "||p1.example^\n"
	one := func(id int64, sc c15Script) map[string]c15Script {
		return map[string]c15Script{strconv.FormatInt(id, 10): sc}
	}
	two := func(a, b c15Script) map[string]c15Script { return map[string]c15Script{"1": a, "11": b} }
	blk := func(a, b c15Script) map[string]c15Script { return map[string]c15Script{"1": a, "2": b} }
	ok := func(c string) c15Script { return c15Script{Kind: "ok", Content: c} }
	all := []int64{1, 2, 11, 12}
	web := []c15List{{ID: 1, Enabled: true, Name: "list 1"}}
	both := []c15List{{ID: 1, Enabled: true, Name: "list 1"}, {ID: 11, Allow: true, Enabled: true, Name: "list 11"}}
	pair := []c15List{{ID: 1, Enabled: true, Name: ""}, {ID: 2, Enabled: true, Name: "list 2"}}
	step := func(sc map[string]c15Script) c15Step {
		return c15Step{Block: true, Allow: true, Force: true, Due: all, Scripts: sc}
	}
	sched := func(sc map[string]c15Script) c15Step {
		return c15Step{Block: true, Allow: true, Due: all, Scripts: sc}
	}
	set := func(id int64, en bool, name string, sc map[string]c15Script) c15Step {
		return c15Step{Scripts: sc, Set: &c15Set{ID: id, Enabled: en, Name: name}}
	}
	// Seed-independent prelude: every failure kind after a good download.
	var fails []c15Step
	for _, sc := range []c15Script{
		{Kind: "status", Status: 404}, {Kind: "status", Status: 500}, {Kind: "close-early"}, {Kind: "refused"},
		{Kind: "cut", Content: good2 + good1, Cut: 0}, {Kind: "cut", Content: good2 + good1, Cut: 5},
		{Kind: "cut", Content: good2 + good1, Cut: len(good2)}, {Kind: "cut", Content: good2, Cut: len(good2)},
		ok("<html>\n" + good2), ok(good2 + "\x01\n"), {Kind: "rename-fail", Content: good2},
	} {
		fails = append(fails, step(one(1, sc)))
	}
	// HTML heads after lines that write nothing.
	for _, pre := range c15HTMLPrefixes {
		fails = append(fails, step(one(1, ok(pre+"<!DOCTYPE html>\n"+good2))), step(one(1, ok(pre+" <HtMl>"))))
	}
	c15Run(t, out, srv, c15Hist{Lists: web, Steps: append(append([]c15Step{step(one(1, ok(good1)))}, fails...), step(one(1, ok(good1))), step(one(1, ok(good2))))})
	c15Run(t, out, srv, c15Hist{Lists: []c15List{{ID: 1, Enabled: true, Local: true, Name: "local"}}, Steps: []c15Step{
		step(one(1, c15Script{Kind: "file-ok", Content: good1})), step(one(1, c15Script{Kind: "file-missing"})),
		step(one(1, c15Script{Kind: "file-dir"})), step(one(1, c15Script{Kind: "file-unsafe", Content: good2})),
		step(one(1, c15Script{Kind: "file-ok", Content: "<html>"})), step(one(1, c15Script{Kind: "file-ok", Content: good2})),
	}})
	// Block list fails entirely while the allow list is updated, and the other way round; scheduled refreshes.
	c15Run(t, out, srv, c15Hist{Lists: both, Steps: []c15Step{
		step(two(ok(good1), ok(""))), step(two(c15Script{Kind: "status", Status: 500}, ok(allow1))),
		step(two(ok(good1), c15Script{Kind: "close-early"})), step(two(ok(good2+good1), c15Script{Kind: "close-early"})),
		{Block: true, Allow: true, Due: []int64{11}, Scripts: two(ok(good2), ok(good2))},
		{Block: true, Allow: false, Due: []int64{1, 11}, Scripts: two(ok(good2), ok(good1))},
		{Block: false, Allow: true, Force: true, Scripts: two(ok(good1), c15Script{Kind: "cut", Content: allow1, Cut: 3})},
	}})
	c15Run(t, out, srv, c15Hist{Lists: []c15List{{ID: 1, Enabled: false, Name: "list 1"}, {ID: 2, Enabled: true, Name: "list 2"}}, Steps: []c15Step{
		step(map[string]c15Script{"1": ok(good1), "2": ok(good2)}), step(map[string]c15Script{"1": ok(good1), "2": ok("ab\nc\n")}),
		step(map[string]c15Script{"1": ok(good1), "2": ok("a\nbc\n")}),
	}})
	// The same content twice, another twice, back to the first (A A B B A):
	// block and allow list, forced and scheduled; the first list takes its
	// name from the title.
	a1, b1 := "! Title: One\n||p1.example^\n", "||p1.example^\n||p2.example^\n"
	a2, b2 := "||p2.example^\n", "! Title: Two\r\n||p3.example^\r\n"
	for _, mk := range []func(map[string]c15Script) c15Step{step, sched} {
		c15Run(t, out, srv, c15Hist{Lists: []c15List{{ID: 1, Enabled: true, Name: ""}, {ID: 11, Allow: true, Enabled: true, Name: "list 11"}}, Steps: []c15Step{
			mk(two(ok(a1), ok(a2))), mk(two(ok(a1), ok(a2))), mk(two(ok(b1), ok(b2))), mk(two(ok(b1), ok(a2+"# c\n"))), mk(two(ok(a1), ok(a2))),
			mk(two(ok("# only a comment\n"), ok(""))), mk(two(ok(""), ok("\n\n"))), mk(two(ok(a1), ok(a2))),
		}})
	}
	// Replacing the pending file fails: alone (everything failed), and beside a
	// list that is updated.
	c15Run(t, out, srv, c15Hist{Lists: pair, Steps: []c15Step{
		step(blk(ok(b1), ok(good2))),
		step(blk(c15Script{Kind: "rename-fail", Content: a1}, c15Script{Kind: "status", Status: 404})),
		step(blk(c15Script{Kind: "rename-fail", Content: b1}, ok(a2))),
		step(blk(c15Script{Kind: "rename-fail", Content: "<html>"}, ok(good2))),
		step(blk(c15Script{Kind: "rename-fail", Content: a1}, ok(good2+a2))),
		step(blk(ok(b1), ok(good2+a2))),
		step(blk(ok(a1), ok(good2+a2))),
	}})
	// Disable, enable again with the same bytes, with other bytes, with a
	// failing source; rename; disable twice.
	c15Run(t, out, srv, c15Hist{Lists: []c15List{{ID: 1, Enabled: true, Name: "list 1"}, {ID: 2, Enabled: true, Name: "list 2"}, {ID: 11, Allow: true, Enabled: true, Name: "list 11"}}, Steps: []c15Step{
		step(map[string]c15Script{"1": ok(b1), "2": ok(good2), "11": ok(a2)}),
		set(1, false, "list 1", one(1, ok(b1))),
		set(1, true, "list 1", one(1, ok(b1))),
		set(11, false, "list 11", one(11, ok(a2))),
		set(11, false, "off", one(11, ok(a2))),
		set(11, true, "", one(11, c15Script{Kind: "status", Status: 500})),
		set(11, true, "", one(11, ok("<html>"))),
		set(11, true, "", one(11, c15Script{Kind: "rename-fail", Content: a2})),
		set(11, true, "", one(11, ok(a2))),
		set(2, true, "renamed", one(2, ok(a1))),
		set(1, false, "list 1", one(1, ok(b1))),
		step(map[string]c15Script{"1": ok(a1), "2": ok(good2 + a2), "11": ok(a2)}),
		set(1, true, "", one(1, ok(a1))),
		set(3, true, "none", one(3, ok(a1))),
	}})
	// A list whose source has lost its rules while it was disabled.
	c15Run(t, out, srv, c15Hist{Lists: pair, Steps: []c15Step{
		step(blk(ok(b1), ok(good2))),
		set(1, false, "x", blk(ok(b1), ok(good2))),
		set(1, true, "x", blk(ok("# nothing here any more\n"), ok(good2))),
		step(blk(ok("# nothing here any more\n"), ok(good2+a2))),
		step(blk(ok(b1), ok(good2+a2))),
	}})
	// A set_url-driven refresh that fails must leave the stored file alone:
	// the URL of an enabled list is changed to a source that fails (status 500,
	// body cut short under a longer Content-Length, an HTML page), for a block
	// and an allow list; the engine is rebuilt right afterwards, then the list
	// is pointed to a source that works, to a URL another list has, and back.
	setTo := func(id int64, en bool, url int64, sc c15Script) c15Step {
		return c15Step{Scripts: one(id, sc), Set: &c15Set{ID: id, Enabled: en, Name: fmt.Sprintf("list %d", id), URL: url}}
	}
	rebuild := c15Step{Rebuild: true}
	three := []c15List{{ID: 1, Enabled: true, Name: "list 1"}, {ID: 2, Enabled: true, Name: "list 2"}, {ID: 11, Allow: true, Enabled: true, Name: "list 11"}}
	first := step(map[string]c15Script{"1": ok(b1), "2": ok(good2), "11": ok(a2)})
	failing := []c15Script{
		{Kind: "status", Status: 500},
		{Kind: "cut", Content: good2 + b1, Cut: len(good2)},
		ok("<!DOCTYPE html>\n<html><body>sign in</body></html>\n"),
	}
	for _, id := range []int64{1, 11} {
		for _, sc := range failing {
			steps := []c15Step{first, setTo(id, true, id+100, sc), rebuild}
			if c15FollowUpAfterFailedURLChange {
				steps = append(steps, step(map[string]c15Script{"1": ok(b1), "2": ok(good2), "11": ok(a2)}),
					setTo(id, true, id+100, sc), step(map[string]c15Script{"1": ok("# gone\n"), "2": ok(good2), "11": ok("# gone\n")}))
			}
			steps = append(steps,
				setTo(id, true, id+100, ok(good2+a1)), rebuild,
				c15Step{Scripts: one(id, ok(a1)), Set: &c15Set{ID: id, Enabled: true, Name: "dup", Dup: 2}},
				setTo(id, false, id+200, ok(a1)), setTo(id, true, id+200, sc), rebuild, setTo(id, true, id+200, ok(a1)),
				setTo(id, true, id, ok("# no rules\n")), rebuild,
				step(map[string]c15Script{"1": ok(a1), "2": ok(good2), "11": ok(a1)}),
			)
			c15Run(t, out, srv, c15Hist{Lists: three, Steps: steps})
		}
	}
	// ... and so must the re-enabling of a disabled list whose source fails in
	// these ways, again with an engine rebuild after each failed call.
	for _, id := range []int64{1, 11} {
		steps := []c15Step{first, setTo(id, false, 0, ok(b1))}
		for _, sc := range failing {
			steps = append(steps, setTo(id, true, 0, sc), rebuild)
		}
		steps = append(steps, setTo(id, true, 0, ok(b1)), rebuild)
		c15Run(t, out, srv, c15Hist{Lists: three, Steps: steps})
	}

	// Restarts of the process.  A list is stored, disabled, the process
	// restarts, and the list is enabled again while its source serves what is
	// stored (the download succeeds with unchanged content: the file must stay,
	// the rules must be in force); then with a failing source, with other
	// content, with content without rules; refreshes delivering the stored
	// content right after a restart (not rewritten: the start-up has computed the
	// checksum from the file); a restart before anything is stored and one after
	// a file has been removed.  For a block and an allow list.
	restart := c15Step{Restart: true}
	again := step(map[string]c15Script{"1": ok(b1), "2": ok(good2), "11": ok(a2)})
	for _, id := range []int64{1, 11} {
		content := map[int64]string{1: b1, 11: a2}[id]
		c15Run(t, out, srv, c15Hist{Lists: three, Steps: []c15Step{
			restart, first, restart, again,
			setTo(id, false, 0, ok(content)), restart, setTo(id, true, 0, ok(content)), again,
			setTo(id, false, 0, ok(content)), restart,
			setTo(id, true, 0, c15Script{Kind: "status", Status: 500}), rebuild, restart,
			setTo(id, true, 0, ok("! spelled differently\r\n  "+strings.ReplaceAll(content, "\n", "  \r\n"))),
			setTo(id, false, 0, ok(content)), restart, setTo(id, true, 0, ok(good2+a1)),
			setTo(id, false, 0, ok(content)), restart, setTo(id, true, 0, ok("# no rules\n")), restart,
			again, restart,
			{Block: true, Allow: true, Due: all, Scripts: map[string]c15Script{"1": ok(b1), "2": ok(good2), "11": ok(a2)}},
		}}, "restart-prelude")
	}
	// A list without a name whose file is stored gets the default name at
	// start-up; a restart after a pass that ended in a network error with the
	// allow list's file already replaced puts the stored rules in force; a
	// disabled list that was never stored; a local file.
	c15Run(t, out, srv, c15Hist{Lists: []c15List{{ID: 1, Enabled: true, Name: ""}, {ID: 2, Enabled: false, Name: "never stored"}, {ID: 11, Allow: true, Enabled: true, Name: "list 11"}}, Steps: []c15Step{
		step(map[string]c15Script{"1": ok(a2), "2": ok(good2), "11": ok(a2)}),
		set(1, true, "", one(1, ok(a2))), restart,
		step(map[string]c15Script{"1": c15Script{Kind: "status", Status: 500}, "2": ok(good2), "11": ok(allow1)}), restart,
		sched(map[string]c15Script{"1": ok(a2), "2": ok(good2), "11": ok(allow1)}),
		set(2, true, "never stored", one(2, ok(good2))), restart,
		step(map[string]c15Script{"1": ok("<html>"), "2": ok(good2), "11": c15Script{Kind: "cut", Content: allow1, Cut: 3}}),
	}}, "restart-prelude")
	c15Run(t, out, srv, c15Hist{Lists: []c15List{{ID: 1, Enabled: true, Local: true, Name: "local"}}, Steps: []c15Step{
		step(one(1, c15Script{Kind: "file-ok", Content: good1})), restart,
		step(one(1, c15Script{Kind: "file-ok", Content: good1})),
		set(1, false, "local", one(1, c15Script{Kind: "file-ok", Content: good1})), restart,
		set(1, true, "local", one(1, c15Script{Kind: "file-ok", Content: good1})),
		step(one(1, c15Script{Kind: "file-missing"})), restart,
	}}, "restart-prelude")

	// Binary content, byte by byte: a body whose only control byte besides LF
	// is each of 0x00..0x1F, 0x7F in turn, at the start of a rule line, inside
	// one, as the last byte of the body, after 4 KiB of rules, in a comment
	// line, in the title line; forced and scheduled refreshes of a block and an
	// allow list (the allow list seven values ahead, so that passes where one
	// list fails and the other is updated are among them).  A second list in
	// each array is updated in every pass, so that no pass ends in "network
	// error" and the engine is rebuilt: the verdicts in force are compared with
	// the stored files after every step.
	vals := verifc15.Values()
	for pi, pos := range verifc15.Positions {
		lists := []c15List{{ID: 1, Enabled: true, Name: "list 1"}, {ID: 2, Enabled: true, Name: "list 2"},
			{ID: 11, Allow: true, Enabled: true, Name: "list 11"}, {ID: 12, Allow: true, Enabled: true, Name: "list 12"}}
		n := 0
		two := func(a, b c15Script) map[string]c15Script {
			n++
			return map[string]c15Script{"1": a, "11": b,
				"2":  ok(fmt.Sprintf("||beside-%d.invalid^\n", n%2)),
				"12": ok(fmt.Sprintf("||beside-%d.invalid^\n||also.invalid^\n", n%2))}
		}
		steps := []c15Step{step(two(ok(good1), ok(a2)))}
		if pos == "title" {
			// The block list has no name and starts with the first of these
			// bodies, so that its title, NUL byte included, is adopted.
			lists[0].Name = ""
			steps = nil
		}
		for k, v := range vals {
			mk := step
			if (k+pi)%3 == 0 {
				mk = sched
			}
			pos11 := pos
			if pos == "after-4k" {
				// 4 KiB bodies for the block list only (cost of the replay in Coq).
				pos11 = "mid-line"
			}
			steps = append(steps, mk(two(ok(verifc15.CtlBody(v, pos, c15Probes[k%3])), ok(verifc15.CtlBody(vals[(k+7)%len(vals)], pos11, c15Probes[(k+1)%3])))))
		}
		steps = append(steps, step(two(ok(good2), ok(allow1))))
		c15Run(t, out, srv, c15Hist{Lists: lists, Steps: steps}, "ctl-"+pos)
	}
	c15Run(t, out, srv, c15Hist{Lists: []c15List{{ID: 1, Enabled: true, Local: true, Name: "local"}}, Steps: []c15Step{
		step(one(1, c15Script{Kind: "file-ok", Content: good1})),
		step(one(1, c15Script{Kind: "file-ok", Content: verifc15.CtlBody(0x00, "mid-line", "p3.example")})),
		step(one(1, c15Script{Kind: "file-ok", Content: verifc15.CtlBody(0x0b, "mid-line", "p3.example")})),
		step(one(1, c15Script{Kind: "file-ok", Content: verifc15.CtlBody(0x0b, "last-byte", "p3.example")})),
		step(one(1, c15Script{Kind: "file-ok", Content: verifc15.CtlBody(0x1b, "line-start", "p2.example")})),
		step(one(1, c15Script{Kind: "file-ok", Content: verifc15.CtlBody(0x7f, "after-4k", "p2.example")})),
		step(one(1, c15Script{Kind: "file-ok", Content: good2})),
	}}, "ctl-local-file")
	// ... and through set_url: the URL of an enabled list changed to, and a
	// disabled list re-enabled against, a source with an ESC, a US, a VT byte
	// inside a rule line.
	for _, id := range []int64{1, 11} {
		steps := []c15Step{first}
		for _, v := range []byte{0x1b, 0x1f, 0x0b, 0x00} {
			steps = append(steps, setTo(id, true, id+100, ok(verifc15.CtlBody(v, "mid-line", "p3.example"))), rebuild)
		}
		steps = append(steps, setTo(id, false, 0, ok(b1)))
		for _, v := range []byte{0x1b, 0x0c, 0x7f} {
			steps = append(steps, setTo(id, true, 0, ok(verifc15.CtlBody(v, "mid-line", "p3.example"))), rebuild)
		}
		steps = append(steps, setTo(id, true, 0, ok(verifc15.CtlBody(0x0c, "last-byte", "p3.example"))), rebuild)
		c15Run(t, out, srv, c15Hist{Lists: three, Steps: steps}, "ctl-set-url")
	}

	// Failing writes to the pending file: a file-size limit during the step
	// (RLIMIT_FSIZE; the write crossing it is short, the next fails), at 0, in
	// the first line, at the line boundary, one byte into the second line, one
	// byte short of the end; then with room for everything.  The allow list's
	// new content is one line, so from the line boundary on it is updated
	// while the block list fails.
	lim := func(n int, st c15Step) c15Step { st.Limit = &n; return st }
	wA := "||p1.example^\n||p2.example^\n"
	wB := "! Title: W\n||p3.example^\r\n# c\n  ||p2.example^  \n"
	nB := len(verifc15.Classify([]byte(wB)).Norm)
	{
		steps := []c15Step{step(two(ok(wA), ok(a2)))}
		for _, n := range []int{0, 1, 14, 15, 16, nB - 1} {
			steps = append(steps, lim(n, step(two(ok(wB), ok(b2)))))
		}
		steps = append(steps, lim(nB, sched(two(ok(wB), ok(b2)))),
			lim(nB, sched(two(ok(wA+"||p3.example^\n"), ok(a2)))), lim(nB, step(two(ok("<html>"), ok(a2+"\x01\n")))),
			lim(0, step(two(ok("# nothing\n"), c15Script{Kind: "cut", Content: a2, Cut: 3}))),
			lim(7, step(two(c15Script{Kind: "rename-fail", Content: wA}, c15Script{Kind: "status", Status: 500}))),
			step(two(ok(wA), ok(a2))))
		c15Run(t, out, srv, c15Hist{Lists: both, Steps: steps}, "write-limit")
	}
	{
		big := verifc15.Filler + "||p1.example^\n"
		big2 := verifc15.Filler + strings.ReplaceAll(verifc15.Filler, "fill-", "more-") + "||p2.example^\n"
		steps := []c15Step{step(one(1, ok(good1)))}
		for _, n := range []int{0, 100, 4095, 4096, 4097, len(big) - 1} {
			steps = append(steps, lim(n, step(one(1, ok(big)))))
		}
		steps = append(steps, lim(len(big), step(one(1, ok(big)))))
		for _, n := range []int{4096, 8192, len(big2) - 1} {
			steps = append(steps, lim(n, step(one(1, ok(big2)))))
		}
		steps = append(steps, lim(len(big2), step(one(1, ok(big2)))), step(one(1, ok(good2))))
		c15Run(t, out, srv, c15Hist{Lists: web, Steps: steps}, "write-limit")
		c15Run(t, out, srv, c15Hist{Lists: []c15List{{ID: 1, Enabled: true, Local: true, Name: "local"}}, Steps: []c15Step{
			step(one(1, c15Script{Kind: "file-ok", Content: wA})), lim(0, step(one(1, c15Script{Kind: "file-ok", Content: wB}))),
			lim(20, step(one(1, c15Script{Kind: "file-ok", Content: wB}))), lim(nB, step(one(1, c15Script{Kind: "file-ok", Content: wB}))),
		}}, "write-limit")
	}
	// ... and in the downloads set_url starts: a new URL, a re-enabled list.
	for _, id := range []int64{1, 11} {
		c15Run(t, out, srv, c15Hist{Lists: three, Steps: []c15Step{
			first,
			lim(0, setTo(id, true, id+100, ok(good2+a1))), rebuild,
			lim(20, setTo(id, true, id+100, ok(good2+a1))), rebuild,
			lim(len(good2+a2)-1, setTo(id, true, id+100, ok(good2+a1))), rebuild,
			setTo(id, false, 0, ok(b1)),
			lim(0, setTo(id, true, 0, ok(b1))), rebuild,
			lim(len(b1)-1, setTo(id, true, 0, ok(b1))), rebuild,
			lim(len(b1), setTo(id, true, 0, ok(b1))), rebuild,
			lim(3, setTo(id, true, id+100, ok(good2+a1))),
			lim(len(good2+a2), setTo(id, true, id+100, ok(good2+a1))), rebuild,
		}}, "write-limit-set-url")
	}

	// Two downloads in flight at once, and bodies of 1 MiB to 64 MiB and more
	// (zz_verif_C15big_test.go).
	c15Overlap(t, out, srv, false)
	c15Overlap(t, out, srv, true)
	c15OverlapAdd(t, out, srv)
	c15OverlapRemove(t, out, srv)
	// A list disabled while its refresh is in flight, then enabled again
	// (block / allow, alone / beside a list that is updated, the source held
	// back mid-line / at a line boundary / after the title line, the same or
	// other content at the enabling call).
	c15OverlapDisable(t, out, srv, false, false, true, 5)
	c15OverlapDisable(t, out, srv, true, true, true, 30)
	c15OverlapDisable(t, out, srv, false, true, true, 15)
	c15OverlapDisable(t, out, srv, true, false, false, 20)
	c15OverlapDisable(t, out, srv, false, true, false, 31)
	// Requests for an engine rebuild queueing up behind a busy updates loop
	// (zz_verif_C15queue_test.go).
	c15QueueAll(t, out, srv)
	c15BigBodies(t, out, srv)

	r := vfNewRand(out.Seed)
	n := out.Scale(250, 4000)
	for i := 0; i < n; i++ {
		c15Run(t, out, srv, c15GenHist(r.Fork(uint64(i))))
	}
}

//go:build verif

package filtering

import (
	"bytes"
	"fmt"
	"io"
	"net"
	"net/http"
	"os"
	"path/filepath"
	"sort"
	"strconv"
	"strings"
	"sync"
	"testing"
	"time"

	"github.com/AdguardTeam/AdGuardHome/internal/filtering/rulelist"
	"github.com/miekg/dns"
)

// Correspondence harness for the refresh half of C15: sequences of refreshes
// of block and allow lists against a list server scripted per request, and
// local files; one case per sequence.

// c15Script says what the source of one list does during one refresh.
type c15Script struct {
	Kind    string `json:"kind"` // ok, status, close-early, cut, refused, file-ok, file-missing, file-dir, file-unsafe
	Content string `json:"content,omitempty"`
	Status  int    `json:"status,omitempty"`
	Cut     int    `json:"cut,omitempty"`
}

// delivered returns what the reader hands to the parser: ok=false if no
// reader is obtained at all; otherwise data and whether it ends in an error.
func (s c15Script) delivered() (ok bool, data string, readErr bool) {
	switch s.Kind {
	case "ok", "file-ok":
		return true, s.Content, false
	case "cut":
		return true, s.Content[:s.Cut], true
	case "file-dir":
		return true, "", true
	}
	return false, "", false
}

type c15List struct {
	ID      int64 `json:"id"`
	Allow   bool  `json:"allow"`
	Enabled bool  `json:"enabled"`
	Local   bool  `json:"local"`
}

type c15Step struct {
	Block   bool                 `json:"block"`
	Allow   bool                 `json:"allow"`
	Force   bool                 `json:"force"`
	Due     []int64              `json:"due"`
	Scripts map[string]c15Script `json:"scripts"`
}

type c15Hist struct {
	Lists []c15List `json:"lists"`
	Steps []c15Step `json:"steps"`
}

var c15Probes = []string{"p1.example", "p2.example", "p3.example"}

type c15Server struct {
	mu      sync.Mutex
	scripts map[string]c15Script
	url     string
	hits    map[string]int
}

func c15NewServer(t *testing.T) *c15Server {
	s := &c15Server{scripts: map[string]c15Script{}, hits: map[string]int{}}
	l, err := net.Listen("tcp", "127.0.0.1:0")
	if err != nil {
		t.Fatal(err)
	}
	srv := &http.Server{Handler: http.HandlerFunc(s.serve)}
	go func() { _ = srv.Serve(l) }()
	t.Cleanup(func() { _ = srv.Close() })
	s.url = "http://" + l.Addr().String()
	return s
}

func (s *c15Server) serve(w http.ResponseWriter, r *http.Request) {
	id := strings.TrimPrefix(r.URL.Path, "/l/")
	s.mu.Lock()
	sc, ok := s.scripts[id]
	s.hits[id]++
	s.mu.Unlock()
	if !ok {
		sc = c15Script{Kind: "status", Status: 410}
	}
	switch sc.Kind {
	case "ok":
		w.Header().Set("Content-Type", "text/plain")
		_, _ = io.WriteString(w, sc.Content)
	case "status":
		w.WriteHeader(sc.Status)
		_, _ = io.WriteString(w, "||p1.example^\n||p2.example^\n||p3.example^\n")
	case "close-early", "cut":
		hj, _ := w.(http.Hijacker)
		conn, buf, err := hj.Hijack()
		if err != nil {
			return
		}
		if sc.Kind == "cut" {
			fmt.Fprintf(buf, "HTTP/1.1 200 OK\r\nContent-Type: text/plain\r\nContent-Length: %d\r\n\r\n", len(sc.Content)+7)
			_, _ = buf.WriteString(sc.Content[:sc.Cut])
			_ = buf.Flush()
		}
		_ = conn.Close()
	}
}

func c15ListText(r *vfRand) string {
	var b strings.Builder
	n := int(r.Range(0, 5))
	for i := 0; i < n; i++ {
		switch r.Intn(10) {
		case 0:
			b.WriteString("# comment")
		case 1:
			b.WriteString("! Title: T" + strconv.Itoa(r.Intn(3)))
		case 2:
			b.WriteString("")
		case 3:
			b.WriteString("  ||" + vfPick(r, c15Probes) + "^\t")
		default:
			b.WriteString("||" + vfPick(r, c15Probes) + "^")
		}
		b.WriteString(vfPick(r, []string{"\n", "\n", "\r\n"}))
	}
	s := b.String()
	if r.Chance(1, 4) {
		s = strings.TrimRight(s, "\r\n")
	}
	return s
}

func c15BadText(r *vfRand) string {
	good := "||" + vfPick(r, c15Probes) + "^\n"
	switch r.Intn(5) {
	case 0:
		return "<!DOCTYPE html>\n<html><body>captive portal " + good + "</body></html>\n"
	case 1:
		return "\n# x\n  <HTML>\n" + good
	case 2:
		return good + "\x00\x01\x02binary\n" + good
	case 3:
		return good + "||p2.example^\n\x7fELF\n"
	}
	return good + good + "ok\x1b[0m\n"
}

func c15GenScript(r *vfRand, l c15List) c15Script {
	if l.Local {
		switch k := r.Intn(10); {
		case k < 5:
			return c15Script{Kind: "file-ok", Content: c15ListText(r)}
		case k < 6:
			return c15Script{Kind: "file-ok", Content: c15BadText(r)}
		case k < 8:
			return c15Script{Kind: "file-missing"}
		case k < 9:
			return c15Script{Kind: "file-dir"}
		}
		return c15Script{Kind: "file-unsafe", Content: c15ListText(r)}
	}
	switch k := r.Intn(20); {
	case k < 9:
		return c15Script{Kind: "ok", Content: c15ListText(r)}
	case k < 11:
		return c15Script{Kind: "ok", Content: c15BadText(r)}
	case k < 13:
		return c15Script{Kind: "status", Status: vfPick(r, []int{404, 500, 204, 301})}
	case k < 14:
		return c15Script{Kind: "close-early"}
	case k < 15:
		return c15Script{Kind: "refused"}
	}
	c := c15ListText(r)
	for len(c) == 0 {
		c = c15ListText(r)
	}
	cut := 0
	switch r.Intn(4) {
	case 0:
		cut = 0
	case 1:
		cut = len(c)
	case 2:
		// at a line boundary
		if i := strings.IndexByte(c, '\n'); i >= 0 {
			cut = i + 1
		}
	default:
		cut = int(r.Range(1, int64(len(c))))
	}
	return c15Script{Kind: "cut", Content: c, Cut: cut}
}

func c15GenHist(r *vfRand) (h c15Hist) {
	nb := int(r.Range(1, 2))
	na := int(r.Range(0, 1))
	for i := 0; i < nb; i++ {
		h.Lists = append(h.Lists, c15List{ID: int64(i + 1), Enabled: !r.Chance(1, 8), Local: r.Chance(1, 5)})
	}
	for i := 0; i < na; i++ {
		h.Lists = append(h.Lists, c15List{ID: int64(i + 11), Allow: true, Enabled: !r.Chance(1, 8), Local: r.Chance(1, 5)})
	}
	n := int(r.Range(2, 7))
	var last = map[int64]c15Script{}
	for i := 0; i < n; i++ {
		st := c15Step{Block: !r.Chance(1, 6), Allow: !r.Chance(1, 6), Force: r.Chance(1, 2), Scripts: map[string]c15Script{}}
		for _, l := range h.Lists {
			if r.Chance(2, 3) {
				st.Due = append(st.Due, l.ID)
			}
			sc := c15GenScript(r, l)
			if prev, ok := last[l.ID]; ok && r.Chance(1, 5) {
				// Serve the same thing again (same checksum).
				sc = prev
			}
			last[l.ID] = sc
			st.Scripts[strconv.FormatInt(l.ID, 10)] = sc
		}
		h.Steps = append(h.Steps, st)
	}
	return h
}

type c15Obs struct {
	file    []byte
	exists  bool
	count   int
	sum     uint32
	verdict []int
}

func c15Run(t *testing.T, out *vfOut, srv *c15Server, h c15Hist, forced ...string) {
	dir := t.TempDir()
	srcDir := filepath.Join(dir, "src")
	if err := os.MkdirAll(srcDir, 0o755); err != nil {
		t.Fatal(err)
	}
	closed, _ := net.Listen("tcp", "127.0.0.1:0")
	refusedURL := "http://" + closed.Addr().String()
	_ = closed.Close()

	urlOf := func(l c15List) string {
		if l.Local {
			return filepath.Join(srcDir, fmt.Sprintf("list%d.txt", l.ID))
		}
		return srv.url + "/l/" + strconv.FormatInt(l.ID, 10)
	}
	conf := &Config{
		DataDir:                    dir,
		HTTPClient:                 &http.Client{Timeout: 5 * time.Second, Transport: &http.Transport{DisableKeepAlives: true}},
		FiltersUpdateIntervalHours: 24,
		FilteringEnabled:           true,
		SafeFSPatterns:             []string{filepath.Join(srcDir, "*.txt")},
	}
	for _, l := range h.Lists {
		f := FilterYAML{Enabled: l.Enabled, URL: urlOf(l), Name: fmt.Sprintf("list %d", l.ID), Filter: Filter{ID: rulelist.URLFilterID(l.ID)}, white: l.Allow}
		if l.Allow {
			conf.WhitelistFilters = append(conf.WhitelistFilters, f)
		} else {
			conf.Filters = append(conf.Filters, f)
		}
	}
	d, err := New(conf, nil)
	if err != nil {
		t.Fatal(err)
	}
	defer d.Close()
	d.EnableFilters(false)

	classes := map[string]bool{}
	for _, f := range forced {
		classes[f] = true
	}
	monOK, monMsg, monKey := true, "", ""
	bad := func(key, msg string) {
		if monOK {
			monOK, monMsg, monKey = false, msg, key
		}
	}
	find := func(id int64) *FilterYAML {
		for i := range d.conf.Filters {
			if int64(d.conf.Filters[i].ID) == id {
				return &d.conf.Filters[i]
			}
		}
		for i := range d.conf.WhitelistFilters {
			if int64(d.conf.WhitelistFilters[i].ID) == id {
				return &d.conf.WhitelistFilters[i]
			}
		}
		return nil
	}
	verdicts := func() (vs []int) {
		for _, p := range c15Probes {
			res, cerr := d.CheckHost(p, dns.TypeA, &Settings{FilteringEnabled: true, ProtectionEnabled: true})
			v := 0
			switch {
			case cerr != nil:
				v = 9
			case res.Reason == FilteredBlockList:
				v = 1
			case res.Reason == NotFilteredAllowList:
				v = 2
			}
			vs = append(vs, v)
		}
		return vs
	}
	observe := func() map[int64]c15Obs {
		m := map[int64]c15Obs{}
		vs := verdicts()
		for _, l := range h.Lists {
			f := find(l.ID)
			o := c15Obs{count: f.RulesCount, sum: f.checksum, verdict: vs}
			b, rerr := os.ReadFile(f.Path(dir))
			if rerr == nil {
				o.file, o.exists = b, true
			}
			m[l.ID] = o
		}
		return m
	}

	prev := observe()
	var steps []string
	nontrivial := false
	for _, st := range h.Steps {
		// Arrange the sources.
		srv.mu.Lock()
		for k := range srv.scripts {
			delete(srv.scripts, k)
		}
		srv.mu.Unlock()
		due := map[int64]bool{}
		for _, id := range st.Due {
			due[id] = true
		}
		attempted := map[int64]bool{}
		for _, l := range h.Lists {
			f := find(l.ID)
			sc := st.Scripts[strconv.FormatInt(l.ID, 10)]
			if due[l.ID] {
				f.LastUpdated = time.Time{}
			} else {
				f.LastUpdated = time.Now()
			}
			if l.Enabled && (st.Force || due[l.ID]) && ((l.Allow && st.Allow) || (!l.Allow && st.Block)) {
				attempted[l.ID] = true
			}
			p := filepath.Join(srcDir, fmt.Sprintf("list%d.txt", l.ID))
			_ = os.RemoveAll(p)
			f.URL = urlOf(l)
			switch sc.Kind {
			case "refused":
				f.URL = refusedURL + "/l/x"
			case "file-ok":
				_ = os.WriteFile(p, []byte(sc.Content), 0o644)
			case "file-dir":
				_ = os.Mkdir(p, 0o755)
			case "file-unsafe":
				f.URL = filepath.Join(dir, fmt.Sprintf("unsafe%d.list", l.ID))
				_ = os.WriteFile(f.URL, []byte(sc.Content), 0o644)
			default:
				srv.mu.Lock()
				srv.scripts[strconv.FormatInt(l.ID, 10)] = sc
				srv.mu.Unlock()
			}
		}
		var pan any
		func() {
			defer func() { pan = recover() }()
			d.tryRefreshFilters(st.Block, st.Allow, st.Force)
		}()
		if pan != nil {
			bad("C15/refresh-panic", fmt.Sprintf("refresh panicked: %v", pan))
		}
		cur := observe()

		// Monitor: the property on what happened, independent of the model.
		allFailed := true
		for _, l := range h.Lists {
			sc := st.Scripts[strconv.FormatInt(l.ID, 10)]
			okReader, data, readErr := sc.delivered()
			failing := !okReader || readErr
			if okReader && !readErr {
				// Content problems the property lists: HTML or binary.
				var sink bytes.Buffer
				_, perr := rulelist.NewParser().Parse(&sink, strings.NewReader(data), make([]byte, rulelist.DefaultRuleBufSize))
				failing = perr != nil
				if failing {
					classes["bad-content"] = true
				}
			}
			b, a := prev[l.ID], cur[l.ID]
			if !attempted[l.ID] || failing {
				if b.exists != a.exists || !bytes.Equal(b.file, a.file) {
					bad("C15/failed-refresh-changed-file", fmt.Sprintf("list %d: source %s, but the stored file changed from %q to %q", l.ID, sc.Kind, b.file, a.file))
				}
				if b.count != a.count || b.sum != a.sum {
					bad("C15/failed-refresh-changed-meta", fmt.Sprintf("list %d: source %s, but count/checksum changed from %d/%08x to %d/%08x", l.ID, sc.Kind, b.count, b.sum, a.count, a.sum))
				}
				if attempted[l.ID] {
					classes["fail-"+sc.Kind] = true
					if sc.Kind == "cut" {
						switch {
						case sc.Cut == 0:
							classes["cut-after-headers"] = true
						case sc.Cut == len(sc.Content):
							classes["cut-full-body-short-length"] = true
						case sc.Content[sc.Cut-1] == '\n':
							classes["cut-at-line-boundary"] = true
						default:
							classes["cut-mid-line"] = true
						}
					}
				}
			} else {
				allFailed = false
				if bytes.Equal(b.file, a.file) && b.exists == a.exists {
					classes["ok-same-checksum"] = true
				} else {
					classes["ok-updated"] = true
					nontrivial = true
				}
			}
			if attempted[l.ID] && failing && b.exists {
				nontrivial = true
				classes["failed-with-existing-file"] = true
			}
			// Whatever is stored re-parses to itself and matches the metadata.
			if a.exists {
				var sink bytes.Buffer
				res, perr := rulelist.NewParser().Parse(&sink, bytes.NewReader(a.file), make([]byte, rulelist.DefaultRuleBufSize))
				if perr != nil || !bytes.Equal(sink.Bytes(), a.file) {
					bad("C15/stored-not-fixed-point", fmt.Sprintf("list %d: stored file %q re-parses to %q (%v)", l.ID, a.file, sink.Bytes(), perr))
				} else if res.RulesCount != a.count || res.Checksum != a.sum {
					bad("C15/stored-meta-mismatch", fmt.Sprintf("list %d: stored file has %d rules, checksum %08x; metadata says %d, %08x", l.ID, res.RulesCount, res.Checksum, a.count, a.sum))
				}
			}
			if l.Allow && attempted[l.ID] {
				classes["allow-list"] = true
			}
			if !l.Enabled {
				classes["disabled-list"] = true
			}
		}
		if allFailed {
			for _, l := range h.Lists {
				if fmt.Sprint(prev[l.ID].verdict) != fmt.Sprint(cur[l.ID].verdict) {
					bad("C15/failed-refresh-changed-verdicts", fmt.Sprintf("nothing was refreshed successfully but verdicts changed from %v to %v", prev[l.ID].verdict, cur[l.ID].verdict))
				}
				break
			}
			if len(attempted) > 0 {
				classes["all-failed"] = true
			}
		}
		if st.Force {
			classes["forced"] = true
		} else {
			classes["scheduled"] = true
		}

		// Emit the step.
		var dueS, ocs, obs []string
		for _, id := range st.Due {
			dueS = append(dueS, vfN(uint64(id)))
		}
		for _, l := range h.Lists {
			sc := st.Scripts[strconv.FormatInt(l.ID, 10)]
			okReader, data, readErr := sc.delivered()
			o := "OOpenErr"
			if okReader {
				o = vfApp("OBody", vfBytes(data), vfBool(readErr))
			}
			ocs = append(ocs, vfPair(vfN(uint64(l.ID)), o))
			a := cur[l.ID]
			obs = append(obs, vfPair(vfPair(vfPair(vfN(uint64(l.ID)), vfOpt("list N", a.exists, vfBytes(string(a.file)))),
				vfN(uint64(a.count))), vfN(uint64(a.sum))))
		}
		var vs []string
		for _, v := range cur[h.Lists[0].ID].verdict {
			vs = append(vs, vfN(uint64(v)))
			if v != 0 {
				classes[map[int]string{1: "verdict-blocked", 2: "verdict-allowed", 9: "verdict-error"}[v]] = true
			}
		}
		steps = append(steps, vfApp("RStep", vfBool(st.Block), vfBool(st.Allow), vfBool(st.Force),
			vfList("N", dueS), vfList("N * outcome", ocs), vfList("N * option (list N) * N * N", obs), vfList("N", vs)))
		prev = cur
	}

	var bl, al, probes []string
	for _, l := range h.Lists {
		it := vfPair(vfN(uint64(l.ID)), vfBool(l.Enabled))
		if l.Allow {
			al = append(al, it)
		} else {
			bl = append(bl, it)
		}
	}
	for _, p := range c15Probes {
		probes = append(probes, vfBytes(p))
	}
	cls := make([]string, 0, len(classes))
	for k := range classes {
		cls = append(cls, k)
	}
	sort.Strings(cls)
	out.Emit(vfCase{
		Coq:        vfApp("CRefresh", vfList("N * bool", bl), vfList("N * bool", al), vfList("list N", probes), vfList("rstep", steps)),
		Nontrivial: nontrivial,
		Classes:    cls,
		MonitorOK:  monOK,
		MonitorMsg: monMsg,
		FindingKey: monKey,
		Desc:       h,
	})
}

func TestVerifC15(t *testing.T) {
	out := vfOpen(t, "C15")
	defer out.Close()
	srv := c15NewServer(t)

	good1 := "! Title: One\n||p1.example^\r\n# c\n  ||p2.example^  \n"
	good2 := "||p3.example^\n"
	allow1 := "||p1.example^\n"
	one := func(id int64, sc c15Script) map[string]c15Script {
		return map[string]c15Script{strconv.FormatInt(id, 10): sc}
	}
	two := func(a, b c15Script) map[string]c15Script { return map[string]c15Script{"1": a, "11": b} }
	ok := func(c string) c15Script { return c15Script{Kind: "ok", Content: c} }
	all := []int64{1, 2, 11}
	web := []c15List{{ID: 1, Enabled: true}}
	both := []c15List{{ID: 1, Enabled: true}, {ID: 11, Allow: true, Enabled: true}}
	step := func(sc map[string]c15Script) c15Step {
		return c15Step{Block: true, Allow: true, Force: true, Due: all, Scripts: sc}
	}
	// Seed-independent prelude: every failure kind after a good download.
	var fails []c15Step
	for _, sc := range []c15Script{
		{Kind: "status", Status: 404}, {Kind: "status", Status: 500}, {Kind: "close-early"}, {Kind: "refused"},
		{Kind: "cut", Content: good2 + good1, Cut: 0}, {Kind: "cut", Content: good2 + good1, Cut: 5},
		{Kind: "cut", Content: good2 + good1, Cut: len(good2)}, {Kind: "cut", Content: good2, Cut: len(good2)},
		ok("<html>\n" + good2), ok(good2 + "\x01\n"),
	} {
		fails = append(fails, step(one(1, sc)))
	}
	c15Run(t, out, srv, c15Hist{Lists: web, Steps: append(append([]c15Step{step(one(1, ok(good1)))}, fails...), step(one(1, ok(good1))), step(one(1, ok(good2))))})
	c15Run(t, out, srv, c15Hist{Lists: []c15List{{ID: 1, Enabled: true, Local: true}}, Steps: []c15Step{
		step(one(1, c15Script{Kind: "file-ok", Content: good1})), step(one(1, c15Script{Kind: "file-missing"})),
		step(one(1, c15Script{Kind: "file-dir"})), step(one(1, c15Script{Kind: "file-unsafe", Content: good2})),
		step(one(1, c15Script{Kind: "file-ok", Content: "<html>"})), step(one(1, c15Script{Kind: "file-ok", Content: good2})),
	}})
	// Block list fails entirely while the allow list is updated, and the other way round; scheduled refreshes.
	c15Run(t, out, srv, c15Hist{Lists: both, Steps: []c15Step{
		step(two(ok(good1), ok(""))), step(two(c15Script{Kind: "status", Status: 500}, ok(allow1))),
		step(two(ok(good1), c15Script{Kind: "close-early"})), step(two(ok(good2+good1), c15Script{Kind: "close-early"})),
		{Block: true, Allow: true, Due: []int64{11}, Scripts: two(ok(good2), ok(good2))},
		{Block: true, Allow: false, Due: []int64{1, 11}, Scripts: two(ok(good2), ok(good1))},
		{Block: false, Allow: true, Force: true, Scripts: two(ok(good1), c15Script{Kind: "cut", Content: allow1, Cut: 3})},
	}})
	c15Run(t, out, srv, c15Hist{Lists: []c15List{{ID: 1, Enabled: false}, {ID: 2, Enabled: true}}, Steps: []c15Step{
		step(map[string]c15Script{"1": ok(good1), "2": ok(good2)}), step(map[string]c15Script{"1": ok(good1), "2": ok("ab\nc\n")}),
		step(map[string]c15Script{"1": ok(good1), "2": ok("a\nbc\n")}),
	}})

	r := vfNewRand(out.Seed)
	n := out.Scale(250, 4000)
	for i := 0; i < n; i++ {
		c15Run(t, out, srv, c15GenHist(r.Fork(uint64(i))))
	}
}

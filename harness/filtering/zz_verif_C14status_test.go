//go:build verif

package filtering

// C14, round 6 (L): the HTTP status space of a list download.
//
// A list that was downloaded before is refreshed (tryRefreshFilters, forced)
// from a REAL local HTTP server (net/http on both sides: redirects, bodiless
// statuses, Content-Range, informational responses) that answers with every
// status class: 200; other 2xx (201, 202, 203, 204, 205, 206 with a
// Content-Range and a partial body, 207, 226, 299); 3xx with a Location
// (followed: the content is the target's) and without; 300, 304, 305; 4xx;
// 5xx; chains of redirects of the length the client still follows and one
// more; a loop; no answer at all.  The bodies sent with the other statuses are
// adversarial: the whole new list, half of it, the stored list, an HTML page.
//
// Monitor (no model): the file afterwards is the previous version, or the
// normal form of a COMPLETE body that was delivered with status 200 (after
// redirects); any other final status must be reported as a failed download
// and must leave the file byte-identical.  The model (Run.C14 CStatus) gets
// the list server as a map URL -> answer and must predict the error flag and
// the file.

import (
	"bytes"
	"fmt"
	"net/http"
	"net/http/httptest"
	"strings"
	"sync"
	"testing"
)

// c14lAns is what the list server answers on one path.
type c14lAns struct {
	status   int
	location string // Location header ("" = none)
	body     []byte // what is sent
	whole    []byte // the complete list the body is (a part of)
	rng      bool   // send a Content-Range header saying which part of whole this is
	early    bool   // 103 Early Hints before the final status
	cut      bool   // announce more than is sent, send body, drop the connection
}

type c14lStatusScenario struct {
	name    string
	paths   map[string]c14lAns // "/list" is the list's URL
	down    bool               // the list's host does not answer at all
	nofile  bool               // the temporary file cannot be created (EMFILE)
	classes []string
}

func c14lFollows(a c14lAns) bool {
	return a.location != "" && (a.status == 301 || a.status == 302 || a.status == 303 || a.status == 307 || a.status == 308)
}

func c14lStatus(t *testing.T, out *vfOut, rnd *vfRand) {
	var (
		mu  sync.Mutex
		cur map[string]c14lAns
	)
	srv := httptest.NewServer(http.HandlerFunc(func(w http.ResponseWriter, rq *http.Request) {
		mu.Lock()
		a, ok := cur[rq.URL.Path]
		mu.Unlock()
		if !ok {
			http.NotFound(w, rq)
			return
		}
		if a.location != "" {
			w.Header().Set("Location", a.location)
		}
		if a.rng {
			w.Header().Set("Content-Range", fmt.Sprintf("bytes 0-%d/%d", len(a.body)-1, len(a.whole)))
		}
		w.Header().Set("Content-Type", "text/plain")
		if a.cut {
			w.Header().Set("Content-Length", fmt.Sprint(len(a.whole)+1))
			w.WriteHeader(a.status)
			w.Write(a.body)
			if fl, ok := w.(http.Flusher); ok {
				fl.Flush()
			}
			if hj, ok := w.(http.Hijacker); ok {
				if c, _, err := hj.Hijack(); err == nil {
					c.Close()
				}
			}
			return
		}
		if a.early {
			w.Header().Set("Link", "</style.css>; rel=preload")
			w.WriteHeader(http.StatusEarlyHints)
		}
		w.WriteHeader(a.status)
		if len(a.body) > 0 {
			w.Write(a.body) // refused by net/http for 204 and 304: nothing is delivered
		}
	}))
	defer srv.Close()
	// a host that does not answer: a server that is closed again
	dead := httptest.NewServer(http.NotFoundHandler())
	deadURL := dead.URL
	dead.Close()

	v1 := []byte("||stored1.example^\n#c\n||stored2.example^\n")
	newList := func(r *vfRand, tag string) []byte { return c14lBodyOf(r, tag, 4+r.Intn(6), r.Chance(3, 4)) }
	half := func(b []byte) []byte {
		// cut in the middle of a rule
		n := len(b)/2 + 2
		for n < len(b) && (b[n-1] == '\n' || b[n] == '\n') {
			n++
		}
		return b[:n]
	}
	html := []byte("<!DOCTYPE html>\n<html><body>moved</body></html>\n")

	var scs []c14lStatusScenario
	add := func(name string, paths map[string]c14lAns, classes ...string) {
		scs = append(scs, c14lStatusScenario{name: name, paths: paths, classes: classes})
	}
	pr := rnd.Fork(8100)
	v2 := newList(pr, "v2")
	one := func(a c14lAns) map[string]c14lAns { return map[string]c14lAns{"/list": a} }
	whole := func(st int) c14lAns { return c14lAns{status: st, body: v2, whole: v2} }
	// ---- prelude: one representative per status class
	add("200-new", one(whole(200)), "status-200")
	add("200-same", one(c14lAns{status: 200, body: v1, whole: v1}), "status-200")
	add("200-no-body", one(c14lAns{status: 200}), "status-200")
	add("200-html", one(c14lAns{status: 200, body: html, whole: html}), "status-200")
	add("200-cut", one(c14lAns{status: 200, body: half(v2), whole: v2, cut: true}), "status-200", "status-cut")
	add("103-then-200", one(c14lAns{status: 200, body: v2, whole: v2, early: true}), "status-200", "status-1xx")
	add("206-partial-mid-rule", one(c14lAns{status: 206, body: half(v2), whole: v2, rng: true}), "status-2xx", "status-206")
	add("204-no-content", one(c14lAns{status: 204, whole: v2}), "status-2xx", "status-bodiless")
	add("205-reset-content", one(c14lAns{status: 205, whole: v2}), "status-2xx", "status-bodiless")
	for _, st := range []int{201, 202, 203, 207, 226, 299} {
		add(fmt.Sprintf("%d-complete-body", st), one(whole(st)), "status-2xx")
	}
	add("206-partial-at-line-end", one(c14lAns{status: 206, body: v2[:bytes.IndexByte(v2, '\n')+1], whole: v2, rng: true}), "status-2xx", "status-206")
	add("206-whole-range", one(c14lAns{status: 206, body: v2, whole: v2, rng: true}), "status-2xx", "status-206")
	add("203-partial", one(c14lAns{status: 203, body: half(v2), whole: v2}), "status-2xx")
	for _, st := range []int{301, 302, 303, 307, 308} {
		add(fmt.Sprintf("%d-to-good-list", st), map[string]c14lAns{
			"/list": {status: st, location: "/moved", body: html}, "/moved": whole(200)}, "status-3xx", "status-redirect-followed")
	}
	add("301-without-location", one(c14lAns{status: 301, body: v2, whole: v2}), "status-3xx")
	add("300-multiple-choices", one(c14lAns{status: 300, body: v2, whole: v2}), "status-3xx")
	add("304-not-modified", one(c14lAns{status: 304, whole: v2}), "status-3xx", "status-bodiless")
	add("305-use-proxy", one(c14lAns{status: 305, location: "/moved", body: v2, whole: v2}), "status-3xx")
	add("302-to-206-partial", map[string]c14lAns{
		"/list": {status: 302, location: "/part"}, "/part": {status: 206, body: half(v2), whole: v2, rng: true}}, "status-3xx", "status-redirect-followed", "status-206")
	add("302-to-404", map[string]c14lAns{"/list": {status: 302, location: "/gone"}, "/gone": {status: 404, body: v2, whole: v2}}, "status-3xx", "status-redirect-followed")
	add("302-to-204", map[string]c14lAns{"/list": {status: 302, location: "/none"}, "/none": {status: 204}}, "status-3xx", "status-redirect-followed", "status-bodiless")
	chain := func(n int) map[string]c14lAns {
		m := map[string]c14lAns{}
		at := "/list"
		for i := 0; i < n; i++ {
			next := fmt.Sprintf("/hop%d", i+1)
			m[at] = c14lAns{status: 302, location: next}
			at = next
		}
		m[at] = whole(200)
		return m
	}
	add("redirect-chain-9", chain(9), "status-3xx", "status-redirect-followed", "status-redirect-chain")
	add("redirect-chain-10", chain(10), "status-3xx", "status-redirect-chain", "status-redirect-too-long")
	add("redirect-loop", map[string]c14lAns{"/list": {status: 302, location: "/back"}, "/back": {status: 301, location: "/list"}}, "status-3xx", "status-redirect-too-long")
	for _, st := range []int{400, 401, 403, 404, 410, 429, 451} {
		a := c14lAns{status: st, body: html, whole: html}
		if st == 404 || st == 429 {
			a = whole(st) // an error status that carries what looks like the list
		}
		add(fmt.Sprintf("%d", st), one(a), "status-4xx")
	}
	for _, st := range []int{500, 502, 503, 504, 599} {
		a := c14lAns{status: st, body: html, whole: html}
		if st == 503 {
			a = c14lAns{status: st, body: half(v2), whole: v2}
		}
		add(fmt.Sprintf("%d", st), one(a), "status-5xx")
	}
	scs = append(scs, c14lStatusScenario{name: "host-down", down: true, classes: []string{"status-no-answer"}})
	scs = append(scs, c14lStatusScenario{name: "206-partial-no-temp-file", paths: one(c14lAns{status: 206, body: half(v2), whole: v2, rng: true}),
		nofile: true, classes: []string{"status-2xx", "status-206"}})
	scs = append(scs, c14lStatusScenario{name: "200-new-no-temp-file", paths: one(whole(200)), nofile: true, classes: []string{"status-200"}})

	// ---- random: any status, any of the bodies, behind 0-3 redirects
	pool := []int{200, 200, 200, 201, 202, 203, 204, 205, 206, 206, 207, 208, 226, 250, 299, 300, 301, 302, 303, 304, 305, 307, 308,
		400, 401, 402, 403, 404, 405, 406, 408, 409, 410, 412, 416, 418, 421, 425, 429, 431, 451, 499, 500, 501, 502, 503, 504, 507, 511, 520, 599}
	for k := 0; k < out.Scale(24, 600); k++ {
		r := rnd.Fork(uint64(8200 + k))
		st := vfPick(r, pool)
		list := newList(r, fmt.Sprintf("r%d", k))
		a := c14lAns{status: st, whole: list}
		switch r.Intn(6) {
		case 0, 1:
			a.body = list
		case 2:
			a.body, a.rng = half(list), st == 206 || r.Chance(1, 4)
		case 3:
			a.body, a.whole = v1, v1
		case 4:
			a.body, a.whole = html, html
		}
		if st >= 300 && st < 400 && st != 304 && r.Bool() {
			a.location = "/elsewhere" // a redirect to nowhere: the client follows it to a 404
		}
		cls := []string{"status-random", fmt.Sprintf("status-%dxx", st/100)}
		m := map[string]c14lAns{}
		at := "/list"
		for i, hops := 0, r.Intn(4)*r.Intn(2); i < hops; i++ {
			next := fmt.Sprintf("/r%d", i+1)
			m[at] = c14lAns{status: vfPick(r, []int{301, 302, 303, 307, 308}), location: next}
			at = next
			if i == 0 {
				cls = append(cls, "status-redirect-followed")
			}
		}
		m[at] = a
		scs = append(scs, c14lStatusScenario{name: fmt.Sprintf("random-%d-%d", k, st), paths: m, classes: cls})
	}

	for _, sc := range scs {
		c14lRunStatus(t, out, srv.URL, deadURL, func(m map[string]c14lAns) { mu.Lock(); cur = m; mu.Unlock() }, v1, sc)
	}
}

func c14lRunStatus(t *testing.T, out *vfOut, srvURL, deadURL string, serve func(map[string]c14lAns), v1 []byte, sc c14lStatusScenario) {
	name := "status/" + sc.name
	dataDir := t.TempDir()
	listURL := srvURL + "/list"
	conf := &Config{DataDir: dataDir, FilteringEnabled: true, FiltersUpdateIntervalHours: 24,
		HTTPClient: &http.Client{Timeout: c14lStall}, ConfigModified: func() {},
		Filters: []FilterYAML{{Enabled: true, URL: listURL, Name: "list", Filter: Filter{ID: 1400001}}}}
	d, err := New(conf, nil)
	if err != nil {
		t.Fatal(err)
	}
	defer d.Close()
	d.filtersInitializerChan = make(chan filtersInitializerParams, 1)
	// the list is downloaded for real first (status 200, complete)
	serve(map[string]c14lAns{"/list": {status: 200, body: v1, whole: v1}})
	if n, _, ok := d.tryRefreshFilters(true, false, true); !ok || n != 1 {
		t.Fatalf("%s: preparing the stored list: updated %d ok=%v", name, n, ok)
	}
	dst := conf.Filters[0].Path(dataDir)
	old, present, rerr := c14lReadFile(dst)
	if rerr != nil || !present || !bytes.Equal(old, c14lStored(v1)) {
		t.Fatalf("%s: preparing the stored list: %v present=%v %q", name, rerr, present, old)
	}
	serve(sc.paths)
	if sc.down {
		d.conf.filtersMu.Lock()
		d.conf.Filters[0].URL = deadURL + "/list"
		d.conf.filtersMu.Unlock()
	}
	var (
		updated int
		netErr  bool
		ran     bool
		pan     any
	)
	call := func() {
		defer func() { pan = recover() }()
		updated, netErr, ran = d.tryRefreshFilters(true, false, true)
	}
	if sc.nofile {
		c14lNoFile(t, call)
	} else {
		call()
	}
	got, presentAfter, rerr := c14lReadFile(dst)
	if rerr != nil {
		t.Fatal(rerr)
	}

	// ---- what the server did, stated by the harness: follow the Locations as
	// the client does (net/http: 301, 302, 303, 307, 308 with a Location; the
	// 10th redirect of a chain is refused)
	final, answered := c14lAns{}, false
	finalStatus := 0
	var webItems []string
	var descWeb []any
	if !sc.down {
		num := map[string]int{"/list": 1}
		order := []string{"/list"}
		for i := 0; i < len(order); i++ {
			a, ok := sc.paths[order[i]]
			if !ok {
				a = c14lAns{status: 404, body: []byte("404 page not found\n")}
				a.whole = a.body
			}
			if c14lFollows(a) {
				if _, seen := num[a.location]; !seen {
					num[a.location] = len(num) + 1
					order = append(order, a.location)
				}
				webItems = append(webItems, vfPair(vfN(uint64(num[order[i]])), vfApp("ARedirect", vfN(uint64(num[a.location])))))
				descWeb = append(descWeb, map[string]any{"path": order[i], "status": a.status, "location": a.location})
				continue
			}
			delivered := a.body
			if a.status == 204 || a.status == 304 {
				delivered = nil // net/http sends no body with these
			}
			var chunks [][]byte
			if len(delivered) > 0 {
				chunks = [][]byte{delivered}
			}
			webItems = append(webItems, vfPair(vfN(uint64(num[order[i]])), vfApp("AServe", vfN(uint64(a.status)), c14lChunkList(chunks), vfBool(a.cut))))
			descWeb = append(descWeb, map[string]any{"path": order[i], "status": a.status, "content_range": a.rng, "cut": a.cut,
				"body": string(delivered), "complete_list_bytes": len(a.whole)})
		}
		at := "/list"
		for hops := 0; ; hops++ {
			a, ok := sc.paths[at]
			if !ok {
				a = c14lAns{status: 404}
			}
			if c14lFollows(a) {
				if hops == 9 {
					break // refused by the client: no answer
				}
				at = a.location
				continue
			}
			final, answered, finalStatus = a, true, a.status
			break
		}
	}
	complete := answered && final.status == 200 && !final.cut
	var want []byte
	if complete {
		want = c14lStored(final.body)
		if bytes.HasPrefix(final.body, []byte("<")) {
			complete = false // an HTML page is no list: refused by the parser
		}
	}
	same := presentAfter && bytes.Equal(got, old)
	unchanged := complete && bytes.Equal(want, old) // the server delivered what is stored
	var fails []string
	fail := func(key, format string, a ...any) { fails = append(fails, key+"\x00"+fmt.Sprintf(format, a...)) }
	how := fmt.Sprintf("final status %d", finalStatus)
	if !answered {
		how = "no answer"
	}
	switch {
	case pan != nil:
		fail("C14/list-call-panicked", "%s: the refresh panicked: %v", name, pan)
	case !ran:
		fail("C14/list-refresh-did-not-run", "%s: tryRefreshFilters did not run", name)
	case !complete && !same:
		fail("C14/list-not-200-replaced-file", "%s: the list server gave %s (body delivered: %d bytes %s of a list of %d bytes) and the stored list, which held %d bytes, is %s afterwards: neither the previous version nor a complete body delivered with status 200",
			name, how, len(final.body), c14lShort(final.body), len(final.whole), len(old), c14lAfter(presentAfter, got))
	case !complete && (!netErr || updated != 0):
		fail("C14/list-not-200-unreported", "%s: the list server gave %s and the refresh reported updated=%d network-error=%v", name, how, updated, netErr)
	case complete && sc.nofile && !same:
		fail("C14/failed-save-changed-file", "%s: no temporary file could be created and the stored list is %s afterwards", name, c14lAfter(presentAfter, got))
	case complete && !sc.nofile && (!presentAfter || !bytes.Equal(got, want)):
		fail("C14/list-file-not-new-version", "%s: a complete body came with status 200 and the stored list is %s, want %s", name, c14lAfter(presentAfter, got), c14lShort(want))
	case complete && !sc.nofile && !unchanged && (netErr || updated != 1):
		fail("C14/list-update-unreported", "%s: a complete new body came with status 200 and the refresh reported updated=%d network-error=%v", name, updated, netErr)
	}
	fault := 0
	if sc.nofile {
		fault = 1
	}
	cls := append([]string{"lists", "status"}, sc.classes...)
	if !complete {
		cls = append(cls, "status-keeps-file")
	}
	c := vfCase{
		Coq: vfApp("CStatus", c14lOptData(true, old), vfList("N * answer", webItems), vfN(1), vfN(uint64(fault)),
			vfBool(netErr), c14lOptData(presentAfter, got)),
		Nontrivial: true,
		Classes:    cls,
		MonitorOK:  len(fails) == 0,
		Desc: map[string]any{"scenario": name, "list_server": descWeb, "host_down": sc.down, "final_status": finalStatus,
			"no_temp_file": sc.nofile, "updated": updated, "network_error": netErr,
			"file_before": string(old), "file_after": string(got), "present_after": presentAfter},
	}
	if len(fails) > 0 {
		p := strings.SplitN(fails[0], "\x00", 2)
		c.FindingKey, c.MonitorMsg = p[0], p[1]
	}
	out.Emit(c)
}

//go:build verif

package filtering

// C18, every zone name of the host through the types that carry a schedule
// outside its package: BlockedServices as the configuration file holds it
// (YAML document -> BlockedServices -> YAML document -> BlockedServices: the
// configuration saved and loaded again) and as the HTTP API takes and reports
// it (PUT /control/blocked_services/update, then GET).  Names with '+', '-',
// digits, three levels, links, the Etc/ directory, UTC and Local.

import (
	"encoding/json"
	"fmt"
	"io/fs"
	"path/filepath"
	"sort"
	"strings"
	"testing"
	"time"

	"gopkg.in/yaml.v3"
)

// c18hHostZones walks the tz database of the host the way the schedule
// harness does.
func c18hHostZones() (zones []string) {
	root := "/usr/share/zoneinfo"
	_ = filepath.WalkDir(root, func(p string, d fs.DirEntry, err error) error {
		if err != nil || d.IsDir() {
			return nil
		}
		rel, _ := filepath.Rel(root, p)
		if strings.HasPrefix(rel, "posix") || strings.HasPrefix(rel, "right") || strings.Contains(rel, ".") {
			return nil
		}
		if c := rel[0]; c < 'A' || c > 'Z' {
			return nil
		}
		if _, lerr := time.LoadLocation(rel); lerr == nil {
			zones = append(zones, rel)
		}
		return nil
	})
	sort.Strings(zones)
	seen := map[string]bool{}
	for _, z := range zones {
		seen[z] = true
	}
	for _, z := range []string{"UTC", "Local", "Etc/GMT+5", "Etc/GMT-14", "GMT+0", "America/Argentina/Buenos_Aires", "America/Port-au-Prince"} {
		if _, lerr := c18hLoc(z); lerr == nil && !seen[z] {
			zones = append(zones, z)
			seen[z] = true
		}
	}
	return zones
}

func c18hZoneClasses(zn string) (cls []string) {
	switch {
	case zn == "UTC" || zn == "Local":
		cls = append(cls, "zone-name-special")
	case strings.Contains(zn, "+"):
		cls = append(cls, "zone-name-plus")
	case strings.ContainsAny(zn, "-0123456789"):
		cls = append(cls, "zone-name-minus-digit")
	}
	if strings.Count(zn, "/") >= 2 {
		cls = append(cls, "zone-name-three-level")
	}
	if strings.HasPrefix(zn, "Etc/") {
		cls = append(cls, "zone-name-etc")
	}
	return cls
}

// c18hYAMLSched reads the schedule member of a marshalled BlockedServices:
// the zone text and the duration texts per day (yaml.v3 as a tokeniser).
func c18hYAMLSched(doc []byte) (zone string, days [7]*[2]string, ok bool) {
	var v struct {
		Schedule map[string]yaml.Node `yaml:"schedule"`
	}
	if yaml.Unmarshal(doc, &v) != nil || v.Schedule == nil {
		return "", days, false
	}
	if n, has := v.Schedule["time_zone"]; has {
		zone = n.Value
	}
	for i, k := range c18hDayKeys {
		n, has := v.Schedule[k]
		if !has {
			continue
		}
		var dm map[string]yaml.Node
		if n.Decode(&dm) != nil {
			return "", days, false
		}
		days[i] = &[2]string{dm["start"].Value, dm["end"].Value}
	}
	return zone, days, true
}

func c18hCoqTextDays(days [7]*[2]string) string {
	items := make([]string, 7)
	for i, dd := range days {
		if dd == nil {
			items[i] = "None"
		} else {
			items[i] = "Some " + vfPair(vfBytes(dd[0]), vfBytes(dd[1]))
		}
	}
	return vfList("text_day", items)
}

// c18hConfigRoundTrip: the configuration document of in (YAML) is read, the
// value written again, and that document read again.
func c18hConfigRoundTrip(out *vfOut, in *c18hInit) {
	bs1, err := in.build()
	if err != nil {
		c18hInitFailed(out, in, err)
		return
	}
	monMsg, monKey := "", ""
	fail := func(msg, key string) {
		if monMsg == "" {
			monMsg, monKey = msg, key
		}
	}
	// what was read, as the JSON form reports it
	var rep struct {
		TimeZone string `json:"time_zone"`
	}
	jb, jerr := json.Marshal(bs1.Schedule)
	var jdays map[string]json.RawMessage
	if jerr != nil || json.Unmarshal(jb, &rep) != nil || json.Unmarshal(jb, &jdays) != nil {
		out.Class("skipped-config-json-view")
		return
	}
	var got [7][2]int64
	exact := true
	for i, k := range c18hDayKeys {
		raw, has := jdays[k]
		if !has {
			continue
		}
		var dm map[string]json.RawMessage
		_ = json.Unmarshal(raw, &dm)
		for j, key := range []string{"start", "end"} {
			ns, syn, ok := c18hMsExact(string(dm[key]))
			if !ok || syn {
				exact = false
			}
			got[i][j] = ns
		}
	}
	if !exact {
		out.Class("skipped-config-json-view")
		return
	}
	if rep.TimeZone != in.zone || got != in.ranges {
		fail(fmt.Sprintf("configuration in zone %q ranges %v read as zone %q ranges %v", in.zone, in.ranges, rep.TimeZone, got), "config-read")
	}
	// saved ...
	doc2, merr := yaml.Marshal(bs1)
	backZone, back, bok := c18hYAMLSched(doc2)
	if merr != nil || !bok {
		fail(fmt.Sprintf("writing the configuration failed: %v", merr), "config-write")
	}
	// ... and loaded again
	bs2 := &BlockedServices{}
	if uerr := yaml.Unmarshal(doc2, bs2); uerr != nil {
		fail(fmt.Sprintf("configuration with a schedule in zone %q, as AdGuard Home writes it, is refused when loaded again: %v; document %s",
			in.zone, uerr, strings.TrimSpace(string(doc2))), "config-reload")
	} else {
		doc3, _ := yaml.Marshal(bs2)
		if string(doc3) != string(doc2) {
			fail(fmt.Sprintf("configuration changed by save and load: %s became %s", strings.TrimSpace(string(doc2)), strings.TrimSpace(string(doc3))), "config-reload")
		}
		loc, lerr := c18hLoc(in.zone)
		if lerr == nil {
			for _, t := range []time.Time{time.Date(2025, 6, 2, 12, 0, 0, 0, loc), time.Date(2025, 6, 5, 0, 0, 0, 0, loc), time.Unix(1750000000, 1)} {
				if exp := c18hWall(loc, in.ranges, t); bs2.Schedule.Contains(t) != exp {
					fail(fmt.Sprintf("reloaded schedule in zone %q: Contains(%s)=%v, the wall clock against the configured range says %v",
						in.zone, t.UTC().Format(time.RFC3339Nano), !exp, exp), "config-reload-contains")
				}
			}
		}
	}
	_, lerr := time.LoadLocation(in.zone)
	days := make([]string, 7)
	for i, rg := range got {
		days[i] = vfPair(vfZ(rg[0]), vfZ(rg[1]))
	}
	out.Emit(vfCase{
		Coq: vfApp("C18.CZoneDoc", "true", vfBytes(in.zone), vfBool(lerr == nil), in.coqFields(), vfZ(-1),
			vfBytes(rep.TimeZone), vfList("Z * Z", days), vfBytes(backZone), c18hCoqTextDays(back)),
		Nontrivial: true, Classes: append([]string{"config-roundtrip-all-zones"}, c18hZoneClasses(in.zone)...),
		MonitorOK: monMsg == "", MonitorMsg: monMsg, FindingKey: monKey,
		Desc: map[string]any{"kind": "config-roundtrip", "zone": in.zone, "doc": in.doc, "written": string(doc2)},
	})
}

func c18hAllZones(t *testing.T, out *vfOut, pool []string) {
	zones := c18hHostZones()
	out.Note("http_zones_on_host", len(zones))
	r := vfNewRand(181821)
	rnd := vfNewRand(out.Seed).Fork(1821)
	h, mi := int64(time.Hour), int64(time.Minute)
	week := func(i int) (rs [7][2]int64) {
		if i%4 == 3 {
			return c18hRandRanges(rnd)
		}
		for d := range rs {
			rs[d][0], rs[d][1] = c18hRandRange(r)
		}
		rs[1] = [2]int64{9 * h, 17*h + 30*mi}
		rs[4] = [2]int64{0, c18hDayNs}
		return rs
	}
	// configuration documents
	for i, zn := range zones {
		c18hConfigRoundTrip(out, &c18hInit{how: "yaml", zone: zn, ranges: week(i), ids: []string{pool[i%len(pool)]}})
	}
	// the handlers: one history per group of zones, an update per zone
	// (c18hRunHistory reads GET, Contains and ApplyBlockedServices after each).
	// Quick tier: every name that is not letters and one slash (a '+', '-',
	// a digit, three levels, the Etc/ directory, UTC, Local) and a third of
	// the others, rotating with the seed; thorough tier: every name.
	hz := zones
	if !out.Thorough() {
		hz = nil
		for i, zn := range zones {
			if len(c18hZoneClasses(zn)) > 0 || uint64(i)%3 == out.Seed%3 {
				hz = append(hz, zn)
			}
		}
	}
	out.Note("http_zones_updated", len(hz))
	const group = 24
	for lo := 0; lo < len(hz); lo += group {
		hi := min(lo+group, len(hz))
		in := &c18hInit{how: "json", zone: hz[lo], ranges: week(lo), ids: []string{pool[0]}}
		var ops []*c18hOp
		cls := map[string]bool{"http-update-all-zones": true}
		for i := lo; i < hi; i++ {
			sc := c18hValidSched(r, hz[i], week(i+1))
			op, ok := c18hUpdate(r, sc, "doc", []string{pool[i%len(pool)]}, "http-update-ok")
			if !ok {
				t.Fatalf("all-zones update not usable: %q", hz[i])
			}
			ops = append(ops, op)
			for _, c := range c18hZoneClasses(hz[i]) {
				cls[c] = true
			}
		}
		extra := make([]string, 0, len(cls))
		for c := range cls {
			extra = append(extra, c)
		}
		sort.Strings(extra)
		c18hRunHistory(t, out, r, in, ops, extra...)
	}
}

//go:build verif

package filtering

import (
	"bytes"
	"fmt"
	"net/http"
	"os"
	"strconv"
	"syscall"
	"testing"
	"time"

	"github.com/AdguardTeam/AdGuardHome/internal/filtering/rulelist"
	"github.com/AdguardTeam/AdGuardHome/internal/verifc15"
	"github.com/miekg/dns"
)

// C15, round 9: the rules in force after set_url / add_url when requests for
// an engine rebuild queue up.  The histories of this file go through the
// ASYNCHRONOUS path the HTTP handlers use: filterSetProperties, then
// EnableFilters(true), which puts a snapshot of the set of enabled lists into
// filtersInitializerChan; the real updatesLoop is run, when the history says
// so, until the channel is empty (started, told to stop through d.done, waited
// for; again while a task is left: no sleeps, nothing judged on timing).
// Between two runs of the loop any number of requests can queue up, which is
// what a loop busy with a large list set or a long refresh looks like to the
// handlers.  Coq replays the history on Model/RefreshQueue.v (case CQueue).
//
// Monitor, directly: whenever the loop has served the channel after a request
// for a rebuild, the verdicts of the probe names are those the stored files of
// the lists enabled NOW give; a pass that updates nothing leaves the verdicts
// as they were; an enabling call that succeeds has stored the normal form of
// what its source delivers.

type c15QStep struct {
	Kind    string               `json:"kind"` // refresh, set, touch, loop, rebuild
	Force   bool                 `json:"force,omitempty"`
	Scripts map[string]c15Script `json:"scripts,omitempty"`
	Set     *c15Set              `json:"set,omitempty"`
}

type c15QHist struct {
	Lists []c15List  `json:"lists"`
	Steps []c15QStep `json:"steps"`
}

// c15ServeQueue runs the real updatesLoop until filtersInitializerChan is empty.
func c15ServeQueue(t *testing.T, d *DNSFilter) {
	for i := 0; ; i++ {
		fin := make(chan struct{})
		go func() {
			defer close(fin)
			d.updatesLoop()
		}()
		d.done <- struct{}{}
		select {
		case <-fin:
		case <-time.After(120 * time.Second):
			t.Fatal("updatesLoop does not return")
		}
		if len(d.filtersInitializerChan) == 0 {
			return
		}
		if i > 10000 {
			t.Fatal("updatesLoop never takes the pending task")
		}
	}
}

func c15Queue(t *testing.T, out *vfOut, srv *c15Server, h c15QHist, forced ...string) {
	dir := t.TempDir()
	conf := &Config{
		DataDir:                    dir,
		HTTPClient:                 &http.Client{Timeout: 30 * time.Second, Transport: &http.Transport{DisableKeepAlives: true}},
		FiltersUpdateIntervalHours: 24,
		FilteringEnabled:           true,
		ConfigModified:             func() {},
	}
	key := map[int64]int64{}
	urlOf := func(k int64) string { return srv.url + "/l/" + strconv.FormatInt(k, 10) }
	urlNum := map[string]int64{}
	for _, l := range h.Lists {
		key[l.ID] = l.ID
		for _, k := range []int64{l.ID, l.ID + 100, l.ID + 200} {
			urlNum[urlOf(k)] = k
		}
		f := FilterYAML{Enabled: l.Enabled, URL: urlOf(l.ID), Name: l.Name, Filter: Filter{ID: rulelist.URLFilterID(l.ID)}, white: l.Allow}
		if l.Allow {
			conf.WhitelistFilters = append(conf.WhitelistFilters, f)
		} else {
			conf.Filters = append(conf.Filters, f)
		}
	}
	d, err := New(conf, nil)
	if err != nil {
		t.Fatal(err)
	}
	defer d.Close()
	// What Start does, without the handlers' registration and without the loop.
	d.filtersInitializerChan = make(chan filtersInitializerParams, 1)
	d.done = make(chan struct{}, 1)
	d.EnableFilters(false)

	classes := map[string]bool{"queue": true}
	for _, f := range forced {
		classes[f] = true
	}
	monOK, monMsg, monKey := true, "", ""
	bad := func(key, msg string) {
		if monOK {
			monOK, monMsg, monKey = false, msg, key
		}
	}
	find := func(id int64) *FilterYAML {
		for _, arr := range []*[]FilterYAML{&d.conf.Filters, &d.conf.WhitelistFilters} {
			for i := range *arr {
				if int64((*arr)[i].ID) == id {
					return &(*arr)[i]
				}
			}
		}
		return nil
	}
	observe := func() map[int64]c15Obs {
		m := map[int64]c15Obs{}
		for _, l := range h.Lists {
			f := find(l.ID)
			o := c15Obs{count: f.RulesCount, sum: f.checksum, name: f.Name, enabled: f.Enabled, url: urlNum[f.URL]}
			if b, rerr := os.ReadFile(f.Path(dir)); rerr == nil {
				o.file, o.exists = b, true
				if fi, serr := os.Stat(f.Path(dir)); serr == nil {
					o.ino = fi.Sys().(*syscall.Stat_t).Ino
				}
			}
			m[l.ID] = o
		}
		return m
	}
	verdicts := func() (vs []int) {
		for _, p := range c15Probes {
			res, cerr := d.CheckHost(p, dns.TypeA, &Settings{FilteringEnabled: true, ProtectionEnabled: true})
			v := 0
			switch {
			case cerr != nil:
				v = 9
			case res.Reason == FilteredBlockList:
				v = 1
			case res.Reason == NotFilteredAllowList:
				v = 2
			}
			vs = append(vs, v)
		}
		return vs
	}
	expected := func(obs map[int64]c15Obs) (vs []int) {
		for _, p := range c15Probes {
			v := 0
			for _, l := range h.Lists {
				o := obs[l.ID]
				if !o.enabled || !o.exists || !c15Rules(o.file)[p] {
					continue
				}
				if l.Allow {
					v = 2
				} else if v == 0 {
					v = 1
				}
			}
			vs = append(vs, v)
		}
		return vs
	}
	var defs []vfDef
	terms := func(prev, cur map[int64]c15Obs, vs []int) (string, string) {
		var obs, vt []string
		for _, l := range h.Lists {
			obs = append(obs, c15ObsTerm(&defs, l.ID, prev[l.ID], cur[l.ID]))
		}
		for _, v := range vs {
			vt = append(vt, vfN(uint64(v)))
		}
		return vfList("lobs", obs), vfList("N", vt)
	}

	prev, prevV := observe(), verdicts()
	var steps []string
	nontrivial := false
	pending := 0 // requests for a rebuild since the loop last served the channel
	for _, st := range h.Steps {
		srv.mu.Lock()
		for k := range srv.scripts {
			delete(srv.scripts, k)
		}
		for _, l := range h.Lists {
			if sc, ok := st.Scripts[strconv.FormatInt(l.ID, 10)]; ok {
				srv.scripts[strconv.FormatInt(key[l.ID], 10)] = sc
			}
		}
		srv.mu.Unlock()
		switch st.Kind {
		case "refresh":
			for _, l := range h.Lists {
				find(l.ID).LastUpdated = time.Time{}
			}
			upd, netErr, _ := d.tryRefreshFilters(true, true, st.Force)
			cur, curV := observe(), verdicts()
			if !netErr && upd == 0 {
				classes["queue-pass-without-update"] = true
				if fmt.Sprint(curV) != fmt.Sprint(prevV) {
					bad("C15/failed-refresh-changed-verdicts", fmt.Sprintf("a pass that updated nothing changed the verdicts from %v to %v", prevV, curV))
				}
				for _, l := range h.Lists {
					if b, a := prev[l.ID], cur[l.ID]; a.exists != b.exists || a.ino != b.ino || !bytes.Equal(a.file, b.file) || a.count != b.count || a.sum != b.sum {
						bad("C15/failed-refresh-changed-file", fmt.Sprintf("a pass that updated nothing changed list %d: %+v -> %+v", l.ID, b, a))
					}
				}
			}
			if pending > 0 {
				classes["queue-pass-while-request-pending"] = true
			}
			var dueS, ocs []string
			for _, l := range h.Lists {
				dueS = append(dueS, vfN(uint64(l.ID)))
				sc := st.Scripts[strconv.FormatInt(l.ID, 10)]
				ocs = append(ocs, vfPair(vfN(uint64(l.ID)), sc.outcome(&defs, -1)))
			}
			ol, ov := terms(prev, cur, curV)
			steps = append(steps, vfApp("RStep", vfBool(true), vfBool(true), vfBool(st.Force), vfList("N", dueS), vfList("N * outcome", ocs),
				vfN(uint64(upd)), vfBool(netErr), ol, ov))
			prev, prevV = cur, curV
		case "set":
			var target c15List
			for _, l := range h.Lists {
				if l.ID == st.Set.ID {
					target = l
				}
			}
			sc := st.Scripts[strconv.FormatInt(target.ID, 10)]
			oldKey, newKey := key[target.ID], key[target.ID]
			if st.Set.URL != 0 {
				newKey = st.Set.URL
				srv.mu.Lock()
				srv.scripts[strconv.FormatInt(newKey, 10)] = sc
				srv.mu.Unlock()
			}
			b := prev[target.ID]
			restart, serr := d.filterSetProperties(urlOf(oldKey), FilterYAML{Enabled: st.Set.Enabled, Name: st.Set.Name, URL: urlOf(newKey)}, target.Allow)
			if serr == nil && restart {
				// handleFilteringSetURL
				d.EnableFilters(true)
				pending++
				classes["queue-request"] = true
				if pending > 1 {
					classes["queue-request-while-one-is-pending"] = true
				}
			}
			cur, curV := observe(), verdicts()
			a := cur[target.ID]
			key[target.ID] = a.url
			if fmt.Sprint(curV) != fmt.Sprint(prevV) {
				bad("C15/async-set-changed-verdicts-before-loop", fmt.Sprintf("set_url on list %d changed the verdicts from %v to %v before the updates loop ran", target.ID, prevV, curV))
			}
			if why, _ := c15Why(sc, -1); serr == nil && st.Set.Enabled && (!b.enabled || newKey != oldKey) {
				nontrivial = true
				classes["queue-set-downloads"] = true
				okReader, data, _ := sc.delivered()
				if why != "" || !okReader {
					bad("C15/enable-ignored-failure", fmt.Sprintf("list %d enabled / re-pointed without an error although its source fails: %s", target.ID, why))
				} else if sp := verifc15.Classify([]byte(data)); sp.Clean() && len(sp.Norm) > 0 && (!a.exists || !bytes.Equal(a.file, sp.Norm) || a.count != bytes.Count(sp.Norm, []byte("\n")) || !a.enabled) {
					bad("C15/url-change-wrong", fmt.Sprintf("list %d: set_url succeeded, source delivering %q (normal form %q): stored %q (exists %v), count %d, enabled %v", target.ID, data, sp.Norm, a.file, a.exists, a.count, a.enabled))
				}
			}
			if serr == nil && !st.Set.Enabled && b.enabled {
				nontrivial = true
				classes["queue-set-disables"] = true
			}
			if serr != nil {
				classes["queue-set-failed"] = true
			}
			ol, ov := terms(prev, cur, curV)
			steps = append(steps, vfApp("RSet", vfBool(target.Allow), vfN(uint64(oldKey)), vfBytes(st.Set.Name), vfN(uint64(newKey)), vfBool(st.Set.Enabled),
				sc.outcome(&defs, -1), vfBool(restart), vfBool(serr != nil), ol, ov))
			prev, prevV = cur, curV
		case "touch":
			d.EnableFilters(true)
			pending++
			classes["queue-request"] = true
			if pending > 1 {
				classes["queue-request-while-one-is-pending"] = true
			}
			cur, curV := observe(), verdicts()
			ol, ov := terms(prev, cur, curV)
			steps = append(steps, vfApp("RTouch", ol, ov))
			prev, prevV = cur, curV
		case "loop":
			c15ServeQueue(t, d)
			cur, curV := observe(), verdicts()
			if pending > 0 {
				classes["queue-loop-serves-request"] = true
				if pending > 1 {
					classes["queue-loop-after-several-requests"] = true
				}
				if want := expected(cur); fmt.Sprint(want) != fmt.Sprint(curV) {
					var desc []string
					for _, l := range h.Lists {
						o := cur[l.ID]
						desc = append(desc, fmt.Sprintf("list %d (allow %v): enabled %v, count %d, file %q", l.ID, l.Allow, o.enabled, o.count, o.file))
					}
					bad("C15/queued-rebuild-stale-engine", fmt.Sprintf("%d request(s) for an engine rebuild were made and the updates loop has served the channel; the stored files of the enabled lists give the verdicts %v for %v, but %v are in force; %v", pending, want, c15Probes, curV, desc))
				}
			} else {
				classes["queue-loop-idle"] = true
				if fmt.Sprint(curV) != fmt.Sprint(prevV) {
					bad("C15/idle-loop-changed-verdicts", fmt.Sprintf("the updates loop had nothing to do but the verdicts changed from %v to %v", prevV, curV))
				}
			}
			pending = 0
			ol, ov := terms(prev, cur, curV)
			steps = append(steps, vfApp("RLoop", ol, ov))
			prev, prevV = cur, curV
		case "rebuild":
			d.EnableFilters(false)
			cur, curV := observe(), verdicts()
			if want := expected(cur); fmt.Sprint(want) != fmt.Sprint(curV) {
				bad("C15/rebuild-not-from-files", fmt.Sprintf("after a synchronous rebuild the files give %v but %v are in force", want, curV))
			}
			ol, ov := terms(prev, cur, curV)
			steps = append(steps, vfApp("RRebuild", ol, ov))
			prev, prevV = cur, curV
		}
		for _, v := range prevV {
			if v == 1 {
				classes["verdict-blocked"] = true
			} else if v == 2 {
				classes["verdict-allowed"] = true
			}
		}
	}

	var bl, al, probes, cls []string
	for _, l := range h.Lists {
		it := vfPair(vfPair(vfN(uint64(l.ID)), vfBool(l.Enabled)), vfBytes(l.Name))
		if l.Allow {
			al = append(al, it)
		} else {
			bl = append(bl, it)
		}
	}
	for _, p := range c15Probes {
		probes = append(probes, vfBytes(p))
	}
	for k := range classes {
		cls = append(cls, k)
	}
	out.Emit(vfCase{
		Coq:        vfApp("CQueue", vfList("N * bool * list N", bl), vfList("N * bool * list N", al), vfList("list N", probes), vfList("rstep", steps)),
		Nontrivial: nontrivial,
		Classes:    cls,
		MonitorOK:  monOK,
		MonitorMsg: monMsg,
		FindingKey: monKey,
		Desc:       h,
		Defs:       defs,
	})
}

func c15QueueGen(r *vfRand) (h c15QHist) {
	h.Lists = []c15List{
		{ID: 1, Enabled: !r.Chance(1, 3), Name: "list 1"}, {ID: 2, Enabled: r.Chance(1, 2), Name: "list 2"},
		{ID: 11, Allow: true, Enabled: r.Chance(1, 2), Name: "list 11"},
	}
	texts := []string{"||p1.example^\n", "||p2.example^\n", "||p3.example^\n||p1.example^\n", "! Title: T\n||p2.example^\r\n||p3.example^\n", "# none\n"}
	script := func() c15Script {
		switch k := r.Intn(10); {
		case k < 6:
			return c15Script{Kind: "ok", Content: vfPick(r, texts)}
		case k < 8:
			return c15Script{Kind: "status", Status: vfPick(r, []int{500, 404})}
		case k < 9:
			return c15Script{Kind: "ok", Content: "<html>\n||p1.example^\n"}
		}
		c := vfPick(r, texts)
		return c15Script{Kind: "cut", Content: c, Cut: int(r.Range(0, int64(len(c))))}
	}
	all := func() map[string]c15Script {
		m := map[string]c15Script{}
		for _, l := range h.Lists {
			m[strconv.FormatInt(l.ID, 10)] = script()
		}
		return m
	}
	ok := map[string]c15Script{}
	for _, l := range h.Lists {
		ok[strconv.FormatInt(l.ID, 10)] = c15Script{Kind: "ok", Content: vfPick(r, texts[:4])}
	}
	h.Steps = append(h.Steps, c15QStep{Kind: "refresh", Force: true, Scripts: ok})
	en := map[int64]bool{}
	for _, l := range h.Lists {
		en[l.ID] = l.Enabled
	}
	for n := int(r.Range(4, 10)); n > 0; n-- {
		switch k := r.Intn(12); {
		case k < 5:
			l := vfPick(r, h.Lists)
			s := &c15Set{ID: l.ID, Name: l.Name, Enabled: !en[l.ID]}
			if r.Chance(1, 4) {
				s.Enabled = en[l.ID]
				if r.Chance(1, 2) {
					s.Name = "renamed"
				} else {
					s.URL = l.ID + 100*r.Range(0, 2)
					s.Enabled = true
				}
			}
			en[l.ID] = s.Enabled
			h.Steps = append(h.Steps, c15QStep{Kind: "set", Set: s, Scripts: all()})
		case k < 7:
			h.Steps = append(h.Steps, c15QStep{Kind: "touch"})
		case k < 10:
			h.Steps = append(h.Steps, c15QStep{Kind: "loop"})
		case k < 11:
			h.Steps = append(h.Steps, c15QStep{Kind: "refresh", Force: r.Chance(1, 2), Scripts: all()})
		default:
			h.Steps = append(h.Steps, c15QStep{Kind: "rebuild"})
		}
	}
	h.Steps = append(h.Steps, c15QStep{Kind: "loop"})
	fail := map[string]c15Script{}
	for _, l := range h.Lists {
		fail[strconv.FormatInt(l.ID, 10)] = c15Script{Kind: "status", Status: 500}
	}
	h.Steps = append(h.Steps, c15QStep{Kind: "refresh", Force: true, Scripts: fail})
	return h
}

func c15QueueAll(t *testing.T, out *vfOut, srv *c15Server) {
	lists := func(e1, e2, e11 bool) []c15List {
		return []c15List{{ID: 1, Enabled: e1, Name: "list 1"}, {ID: 2, Enabled: e2, Name: "list 2"}, {ID: 11, Allow: true, Enabled: e11, Name: "list 11"}}
	}
	ok := func(c string) c15Script { return c15Script{Kind: "ok", Content: c} }
	p1, p2, p3 := "||p1.example^\n", "! Title: Two\n||p2.example^\r\n", "||p3.example^\n||p1.example^\n"
	sc := func(a, b, c c15Script) map[string]c15Script { return map[string]c15Script{"1": a, "2": b, "11": c} }
	good := sc(ok(p1), ok(p2), ok(p3))
	fail := sc(c15Script{Kind: "status", Status: 500}, c15Script{Kind: "close-early"}, c15Script{Kind: "cut", Content: p3, Cut: 4})
	refresh := func(m map[string]c15Script) c15QStep { return c15QStep{Kind: "refresh", Force: true, Scripts: m} }
	set := func(id int64, en bool, url int64, m map[string]c15Script) c15QStep {
		return c15QStep{Kind: "set", Scripts: m, Set: &c15Set{ID: id, Name: fmt.Sprintf("list %d", id), Enabled: en, URL: url}}
	}
	touch, loop, rebuild := c15QStep{Kind: "touch"}, c15QStep{Kind: "loop"}, c15QStep{Kind: "rebuild"}
	tail := []c15QStep{loop, refresh(fail), refresh(good), loop}
	hist := func(ls []c15List, steps ...c15QStep) c15QHist {
		return c15QHist{Lists: ls, Steps: append(append([]c15QStep{refresh(good), loop}, steps...), tail...)}
	}
	// A request is waiting when a list is enabled (added), disabled, re-pointed;
	// two set_url calls behind each other; the loop keeping up; a pass between
	// request and loop; a failing call in between.
	c15Queue(t, out, srv, hist(lists(true, false, true), touch, set(2, true, 0, good)), "queue-enable-behind-request")
	c15Queue(t, out, srv, hist(lists(true, true, false), touch, set(11, true, 0, good)), "queue-enable-behind-request", "allow-list")
	c15Queue(t, out, srv, hist(lists(true, true, true), touch, set(1, false, 0, good)), "queue-disable-behind-request")
	c15Queue(t, out, srv, hist(lists(true, true, true), touch, set(11, false, 0, good)), "queue-disable-behind-request", "allow-list")
	c15Queue(t, out, srv, hist(lists(true, false, true), touch, set(1, true, 101, sc(ok(p2), ok(p2), ok(p3)))), "queue-url-change-behind-request")
	c15Queue(t, out, srv, hist(lists(true, false, false), set(2, true, 0, good), set(1, false, 0, good), set(11, true, 0, good)), "queue-three-set-calls")
	c15Queue(t, out, srv, hist(lists(true, false, true), touch, loop, set(2, true, 0, good)), "queue-loop-keeps-up")
	c15Queue(t, out, srv, hist(lists(true, false, true), touch, refresh(sc(ok(p3), ok(p2), ok(p1))), set(2, true, 0, good)), "queue-pass-between")
	c15Queue(t, out, srv, hist(lists(true, false, true), touch, set(2, true, 0, fail), set(2, true, 0, good), rebuild, set(2, false, 0, good)), "queue-failed-call-between")
	c15Queue(t, out, srv, hist(lists(false, false, false), touch, touch, set(1, true, 0, good), touch), "queue-enable-behind-request")

	r := vfNewRand(out.Seed ^ 0x9151)
	n := out.Scale(40, 1500)
	for i := 0; i < n; i++ {
		c15Queue(t, out, srv, c15QueueGen(r.Fork(uint64(i))))
	}
}

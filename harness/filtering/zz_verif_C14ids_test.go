//go:build verif

package filtering

// C14, round 7 (N): the identity of the destination path.
//
// Every list of BOTH arrays (block lists, allow lists) is stored at
// data/filters/<id>.txt: two lists with one id share one file, and the atomic
// save of one replaces the other's contents.  Scenarios: a configuration with
// block and allow lists (ids small, as old configurations have them, adjacent
// across the arrays), every list downloaded for real; then a history of
// restarts (the real filtering.New over the same data directory and the
// entries as the configuration file carries them) and add_url calls of block
// and allow lists through the real handler.  Monitor (no model): when the
// history is over, every list's file is the normal form of ITS OWN body and no
// two lists have the same path.  Model (Run.C14 CIds): the generator, given
// the seed each start took; the ids of both arrays must be the model's and
// pairwise distinct.

// The code's ASSUMPTION (at every start the clock reads more than every id in
// use) is kept by construction: the first start of a scenario "happened long
// ago" (its generator is set back to a 2020 timestamp before the history
// begins), and restarts follow each other without an add_url in between (two
// starts within one second with an add_url between them hand out one id twice
// on the unchanged tree: DESIGN section 14; not judged here).

import (
	"bytes"
	"encoding/json"
	"fmt"
	"net/http"
	"net/http/httptest"
	"os"
	"path/filepath"
	"sort"
	"strings"
	"testing"
	"time"

	"github.com/AdguardTeam/AdGuardHome/internal/filtering/rulelist"
)

type c14iList struct {
	id    int64
	allow bool
	tag   string
	body  []byte
}

func c14lIDs(t *testing.T, out *vfOut, rnd *vfRand) {
	type scenario struct {
		name         string
		block, allow []int64
		ops          string // 'R' restart, 'b' add a block list, 'a' add an allow list
	}
	scs := []scenario{
		{"allow-above-blocks/restart-add-block", []int64{1, 2}, []int64{3}, "Rb"},
		{"allow-above-blocks/restart-add-allow", []int64{1, 2}, []int64{3}, "Ra"},
		{"allow-above-blocks/add-without-restart", []int64{1, 2}, []int64{3}, "ba"},
		{"allow-above-blocks/add-restart-add", []int64{1, 2}, []int64{3}, "aRb"},
		{"allows-interleaved/restart-add-two", []int64{1, 5}, []int64{3, 6, 7}, "Rbb"},
		{"block-above-allows/restart-add-allow", []int64{4}, []int64{1, 2}, "Rab"},
		{"only-allows/restart-add-block", nil, []int64{1}, "Rb"},
		{"only-blocks/restart-add-allow", []int64{7}, nil, "Raa"},
		{"two-restarts", []int64{1, 2}, []int64{3, 4}, "bRRba"},
		{"timestamp-ids/restart-add", []int64{1600000001, 1600000002}, []int64{1600000003}, "Rba"},
	}
	for k := 0; k < out.Scale(8, 200); k++ {
		r := rnd.Fork(uint64(8800 + k))
		sc := scenario{name: fmt.Sprintf("random-%d", k)}
		n := 1 + r.Intn(5)
		for id := int64(1); id <= int64(n); id++ {
			if r.Bool() {
				sc.block = append(sc.block, id)
			} else {
				sc.allow = append(sc.allow, id)
			}
		}
		// adds, restarts, adds
		for i, m := 0, r.Intn(3); i < m; i++ {
			sc.ops += string("ba"[r.Intn(2)])
		}
		for i, m := 0, r.Intn(3); i < m; i++ {
			sc.ops += "R"
		}
		for i, m := 0, 1+r.Intn(3); i < m; i++ {
			sc.ops += string("ba"[r.Intn(2)])
		}
		scs = append(scs, sc)
	}

	for _, sc := range scs {
		dataDir := t.TempDir()
		if err := os.MkdirAll(filepath.Join(dataDir, filterDir), 0o755); err != nil {
			t.Fatal(err)
		}
		rt := &c14lRT{srcs: map[string]*c14lSrc{}}
		var lists []*c14iList
		mk := func(id int64, allow bool) *c14iList {
			tag := fmt.Sprintf("n%d", len(lists)+1)
			kind := "||"
			if allow {
				kind = "@@||"
			}
			l := &c14iList{id: id, allow: allow, tag: tag,
				body: []byte(fmt.Sprintf("%sone.%s.example^\n#c-%s\n%stwo.%s.example^\n", kind, tag, tag, kind, tag))}
			rt.set(&c14lSrc{host: tag + ".c14.example", chunks: [][]byte{l.body}})
			lists = append(lists, l)
			return l
		}
		url := func(l *c14iList) string { return "http://" + l.tag + ".c14.example/list.txt" }
		conf := &Config{DataDir: dataDir, FilteringEnabled: true, FiltersUpdateIntervalHours: 24,
			HTTPClient: &http.Client{Transport: rt}, ConfigModified: func() {}}
		for _, id := range sc.block {
			l := mk(id, false)
			conf.Filters = append(conf.Filters, FilterYAML{Enabled: true, URL: url(l), Name: l.tag, Filter: Filter{ID: rulelist.URLFilterID(id)}})
		}
		for _, id := range sc.allow {
			l := mk(id, true)
			conf.WhitelistFilters = append(conf.WhitelistFilters, FilterYAML{Enabled: true, URL: url(l), Name: l.tag, Filter: Filter{ID: rulelist.URLFilterID(id)}, white: true})
		}
		d, err := New(conf, nil)
		if err != nil {
			t.Fatal(err)
		}
		d.filtersInitializerChan = make(chan filtersInitializerParams, 1)
		// every list is downloaded for real first
		if n, _, ok := d.tryRefreshFilters(true, true, true); !ok || n != len(lists) {
			t.Fatalf("ids/%s: preparing the stored lists: updated %d of %d ok=%v", sc.name, n, len(lists), ok)
		}
		// the first start happened long ago (virtual clock; part of the set-up)
		cur0 := int64(1600000100)
		d.idGen.current.Store(int32(cur0))
		var opItems []string
		var descOps []any
		for _, o := range sc.ops {
			switch o {
			case 'R':
				plain := func(in []FilterYAML) (res []FilterYAML) {
					for _, f := range in {
						res = append(res, FilterYAML{Enabled: f.Enabled, URL: f.URL, Name: f.Name, Filter: Filter{ID: f.ID}, white: f.white})
					}
					return res
				}
				d.conf.filtersMu.RLock()
				fl, wl := plain(d.conf.Filters), plain(d.conf.WhitelistFilters)
				d.conf.filtersMu.RUnlock()
				d.Close()
				before := time.Now().Unix()
				d, err = New(&Config{DataDir: dataDir, FilteringEnabled: true, FiltersUpdateIntervalHours: 24,
					HTTPClient: &http.Client{Transport: rt}, ConfigModified: func() {}, Filters: fl, WhitelistFilters: wl}, nil)
				if err != nil {
					t.Fatal(err)
				}
				d.filtersInitializerChan = make(chan filtersInitializerParams, 1)
				// the seed this start gave the generator (as the code is: the clock)
				// and the clock around it: the model gets the CLOCK (the seed itself
				// when it is a reading of the clock taken during the start)
				seed, after := int64(d.idGen.current.Load()), time.Now().Unix()
				now := before
				if before <= seed && seed <= after {
					now = seed
				}
				opItems = append(opItems, vfApp("IRestart", vfN(uint64(now))))
				descOps = append(descOps, map[string]any{"op": "restart", "clock": now, "generator_seed": seed})
			case 'a', 'b':
				l := mk(0, o == 'a')
				body, _ := json.Marshal(filterAddJSON{Name: l.tag, URL: url(l), Whitelist: l.allow})
				w := httptest.NewRecorder()
				d.handleFilteringAddURL(w, httptest.NewRequest(http.MethodPost, "/control/filtering/add_url", bytes.NewReader(body)))
				if w.Code != http.StatusOK {
					t.Fatalf("ids/%s: add_url of %s: %d %s", sc.name, l.tag, w.Code, w.Body.String())
				}
				opItems = append(opItems, vfApp("IAdd", vfBool(l.allow)))
				descOps = append(descOps, map[string]any{"op": "add_url", "allowlist": l.allow, "list": l.tag})
			}
		}
		// ---- observe: the ids of both arrays, the file of every list
		byURL := map[string]*c14iList{}
		for _, l := range lists {
			byURL[url(l)] = l
		}
		var ob, oa []string
		var dl []any
		var fails []string
		fail := func(key, format string, a ...any) { fails = append(fails, key+"\x00"+fmt.Sprintf(format, a...)) }
		paths := map[string]string{}
		d.conf.filtersMu.RLock()
		all := append(append([]FilterYAML{}, d.conf.Filters...), d.conf.WhitelistFilters...)
		nBlock := len(d.conf.Filters)
		d.conf.filtersMu.RUnlock()
		for i, f := range all {
			l := byURL[f.URL]
			if i < nBlock {
				ob = append(ob, vfN(uint64(f.ID)))
			} else {
				oa = append(oa, vfN(uint64(f.ID)))
			}
			p := f.Path(dataDir)
			got, present, rerr := c14lReadFile(p)
			if rerr != nil {
				t.Fatal(rerr)
			}
			want := c14lStored(l.body)
			if other, dup := paths[p]; dup {
				fail("C14/lists-share-a-file", "ids/%s (%s): list %s (%s) and list %s are both stored at %s: every save of one replaces the other's file",
					sc.name, sc.ops, l.tag, c14iKind(i < nBlock), other, filepath.Base(p))
			}
			paths[p] = l.tag
			if !present || !bytes.Equal(got, want) {
				fail("C14/list-file-not-own-version", "ids/%s (%s): the file %s of list %s (%s, id %d) is %s: neither its previous nor its new version but ANOTHER list's; want %s",
					sc.name, sc.ops, filepath.Base(p), l.tag, c14iKind(i < nBlock), f.ID, c14lAfter(present, got), c14lShort(want))
			}
			dl = append(dl, map[string]any{"list": l.tag, "array": c14iKind(i < nBlock), "id": int64(f.ID), "file": filepath.Base(p),
				"file_content": string(got), "own_body": string(l.body)})
		}
		d.Close()
		ids := func(xs []int64) string {
			items := make([]string, len(xs))
			for i, x := range xs {
				items[i] = vfN(uint64(x))
			}
			return vfList("N", items)
		}
		cls := []string{"lists", "ids"}
		if strings.Contains(sc.ops, "R") {
			cls = append(cls, "ids-restart")
		}
		if strings.Contains(sc.ops, "a") {
			cls = append(cls, "ids-add-allow")
		}
		if strings.Contains(sc.ops, "b") {
			cls = append(cls, "ids-add-block")
		}
		if len(sc.allow) > 0 && len(sc.block) > 0 {
			cls = append(cls, "ids-both-arrays")
		}
		c := vfCase{
			Coq: vfApp("CIds", ids(sc.block), ids(sc.allow), vfN(uint64(cur0)), vfList("idop", opItems),
				vfList("N", ob), vfList("N", oa)),
			Nontrivial: true,
			Classes:    cls,
			MonitorOK:  len(fails) == 0,
			Desc:       map[string]any{"scenario": "ids/" + sc.name, "block_ids": sc.block, "allow_ids": sc.allow, "history": descOps, "lists_after": dl},
		}
		if len(fails) > 0 {
			p := strings.SplitN(fails[0], "\x00", 2)
			c.FindingKey, c.MonitorMsg = p[0], p[1]
		}
		out.Emit(c)
	}
}

func c14iKind(block bool) string {
	if block {
		return "block list"
	}
	return "allow list"
}

// ---------------------------------------------------------------- (O, round 8)

// c14lRemove: remove_url through the real handler on configurations of block
// and allow lists that were all downloaded for real; every position of every
// array (first, middle, last, only).  Monitor (no model): every list that is
// still configured has its file, holding ITS OWN version; the removed list's
// file <id>.txt is gone (renamed to <id>.txt.old) and nothing else went.
func c14lRemove(t *testing.T, out *vfOut, rnd *vfRand) {
	type scenario struct {
		name         string
		block, allow []int64
		inAllow      bool
		k            int
	}
	var scs []scenario
	confs := []struct{ block, allow []int64 }{
		{[]int64{1, 2, 3}, []int64{4}},
		{[]int64{5}, []int64{1, 2, 3}},
		{[]int64{1, 4}, []int64{2, 3}},
		{[]int64{7}, nil},
	}
	for ci, cf := range confs {
		for k := range cf.block {
			scs = append(scs, scenario{fmt.Sprintf("conf%d/block-%d-of-%d", ci, k, len(cf.block)), cf.block, cf.allow, false, k})
		}
		for k := range cf.allow {
			scs = append(scs, scenario{fmt.Sprintf("conf%d/allow-%d-of-%d", ci, k, len(cf.allow)), cf.block, cf.allow, true, k})
		}
	}
	for j := 0; j < out.Scale(6, 150); j++ {
		r := rnd.Fork(uint64(8900 + j))
		sc := scenario{name: fmt.Sprintf("random-%d", j)}
		for id, n := int64(1), 2+r.Intn(5); id <= int64(n); id++ {
			if r.Bool() {
				sc.block = append(sc.block, id)
			} else {
				sc.allow = append(sc.allow, id)
			}
		}
		sc.inAllow = len(sc.block) == 0 || (len(sc.allow) > 0 && r.Bool())
		if sc.inAllow {
			sc.k = r.Intn(len(sc.allow))
		} else {
			sc.k = r.Intn(len(sc.block))
		}
		scs = append(scs, sc)
	}
	for _, sc := range scs {
		dataDir := t.TempDir()
		rt := &c14lRT{srcs: map[string]*c14lSrc{}}
		type lst struct {
			id    int64
			allow bool
			tag   string
			body  []byte
		}
		var lists []*lst
		conf := &Config{DataDir: dataDir, FilteringEnabled: true, FiltersUpdateIntervalHours: 24,
			HTTPClient: &http.Client{Transport: rt}, ConfigModified: func() {}}
		mk := func(id int64, allow bool) {
			tag := fmt.Sprintf("x%d", id)
			l := &lst{id: id, allow: allow, tag: tag, body: []byte(fmt.Sprintf("||one.%s.example^\n||two.%s.example^\n", tag, tag))}
			rt.set(&c14lSrc{host: tag + ".c14.example", chunks: [][]byte{l.body}})
			lists = append(lists, l)
			y := FilterYAML{Enabled: true, URL: "http://" + tag + ".c14.example/list.txt", Name: tag, Filter: Filter{ID: rulelist.URLFilterID(id)}, white: allow}
			if allow {
				conf.WhitelistFilters = append(conf.WhitelistFilters, y)
			} else {
				conf.Filters = append(conf.Filters, y)
			}
		}
		for _, id := range sc.block {
			mk(id, false)
		}
		for _, id := range sc.allow {
			mk(id, true)
		}
		d, err := New(conf, nil)
		if err != nil {
			t.Fatal(err)
		}
		d.filtersInitializerChan = make(chan filtersInitializerParams, 1)
		if n, _, ok := d.tryRefreshFilters(true, true, true); !ok || n != len(lists) {
			t.Fatalf("remove/%s: preparing the stored lists: updated %d of %d ok=%v", sc.name, n, len(lists), ok)
		}
		victim := sc.block
		if sc.inAllow {
			victim = sc.allow
		}
		vid := victim[sc.k]
		body, _ := json.Marshal(map[string]any{"url": fmt.Sprintf("http://x%d.c14.example/list.txt", vid), "whitelist": sc.inAllow})
		w := httptest.NewRecorder()
		d.handleFilteringRemoveURL(w, httptest.NewRequest(http.MethodPost, "/control/filtering/remove_url", bytes.NewReader(body)))

		var fails []string
		fail := func(key, format string, a ...any) { fails = append(fails, key+"\x00"+fmt.Sprintf(format, a...)) }
		if w.Code != http.StatusOK {
			fail("C14/remove-url-failed", "remove/%s: remove_url answered %d %s", sc.name, w.Code, w.Body.String())
		}
		d.conf.filtersMu.RLock()
		still := map[int64]bool{}
		var ob, oa []string
		for _, f := range d.conf.Filters {
			still[int64(f.ID)] = true
			ob = append(ob, vfN(uint64(f.ID)))
		}
		for _, f := range d.conf.WhitelistFilters {
			still[int64(f.ID)] = true
			oa = append(oa, vfN(uint64(f.ID)))
		}
		d.conf.filtersMu.RUnlock()
		var gone []string
		var dl []any
		for _, l := range lists {
			p := filepath.Join(dataDir, filterDir, fmt.Sprintf("%d.txt", l.id))
			got, present, rerr := c14lReadFile(p)
			if rerr != nil {
				t.Fatal(rerr)
			}
			_, oldPresent, _ := c14lReadFile(p + ".old")
			if !present {
				gone = append(gone, vfN(uint64(l.id)))
			}
			switch {
			case still[l.id] && !present:
				fail("C14/remove-url-took-another-lists-file", "remove/%s: remove_url of list %d (index %d of the %s array) and the file %d.txt of list %d, which is STILL CONFIGURED, is ABSENT (renamed to .old: %v): its path holds neither version",
					sc.name, vid, sc.k, c14iKind(!sc.inAllow), l.id, l.id, oldPresent)
			case still[l.id] && !bytes.Equal(got, c14lStored(l.body)):
				fail("C14/list-file-not-own-version", "remove/%s: after remove_url of list %d the file of list %d is %s", sc.name, vid, l.id, c14lAfter(present, got))
			case !still[l.id] && present:
				fail("C14/remove-url-left-file", "remove/%s: list %d was removed from the configuration and its file %d.txt stays behind", sc.name, l.id, l.id)
			}
			dl = append(dl, map[string]any{"id": l.id, "array": c14iKind(!l.allow), "configured_after": still[l.id], "file_present": present, "old_present": oldPresent})
		}
		// the loss of a configured list's file is the first thing to report
		sort.SliceStable(fails, func(i, j int) bool {
			return strings.HasPrefix(fails[i], "C14/remove-url-took") && !strings.HasPrefix(fails[j], "C14/remove-url-took")
		})
		if still[vid] {
			fail("C14/remove-url-kept-entry", "remove/%s: list %d is still configured after remove_url", sc.name, vid)
		}
		d.Close()
		ids := func(xs []int64) string {
			items := make([]string, len(xs))
			for i, x := range xs {
				items[i] = vfN(uint64(x))
			}
			return vfList("N", items)
		}
		cls := []string{"lists", "remove-url"}
		switch {
		case len(victim) == 1:
			cls = append(cls, "remove-only")
		case sc.k == len(victim)-1:
			cls = append(cls, "remove-last")
		case sc.k == 0:
			cls = append(cls, "remove-first", "remove-has-successor")
		default:
			cls = append(cls, "remove-middle", "remove-has-successor")
		}
		c := vfCase{
			Coq: vfApp("CRemove", ids(sc.block), ids(sc.allow), vfBool(sc.inAllow), vfN(uint64(sc.k)),
				vfList("N", ob), vfList("N", oa), vfList("N", gone)),
			Nontrivial: true,
			Classes:    cls,
			MonitorOK:  len(fails) == 0,
			Desc: map[string]any{"scenario": "remove/" + sc.name, "block_ids": sc.block, "allow_ids": sc.allow, "removed_id": vid,
				"removed_from": c14iKind(!sc.inAllow), "index": sc.k, "lists_after": dl},
		}
		if len(fails) > 0 {
			p := strings.SplitN(fails[0], "\x00", 2)
			c.FindingKey, c.MonitorMsg = p[0], p[1]
		}
		out.Emit(c)
	}
}

//go:build verif

package filtering

import (
	"bytes"
	"fmt"
	"hash/crc32"
	"io"
	"net/http"
	"net/http/httptest"
	"os"
	"path/filepath"
	"runtime"
	"slices"
	"strings"
	"syscall"
	"testing"
	"time"

	"github.com/AdguardTeam/AdGuardHome/internal/filtering/rulelist"
	"github.com/miekg/dns"
)

// Round 7 of C15: two dimensions the histories of zz_verif_C15_test.go do not
// have.  (1) Two downloads in flight at once: a forced refresh of a block list
// whose source stalls in the middle of a line while set_url downloads an allow
// list.  (2) The size of the body: the stored form must be the normal form of
// the WHOLE delivered body, at sizes around the limits a reader might have.

// c15Overlap: block list 1 is stored; its next forced refresh (block array
// only) is stalled by its source after 30 bytes, in the middle of the first
// line; meanwhile set_url enables allow list 11 (urlChange false: the list was
// disabled; true: it is enabled and pointed to another source), which
// downloads and parses a body of its own; then the first source goes on.  One
// logical processor, so that the two goroutines share whatever is kept per
// processor.  The refresh took its working copies before the set_url call and
// covers the block array only, so the outcome is that of the call followed by
// the refresh: the case is emitted as that history.
func c15Overlap(t *testing.T, out *vfOut, srv *c15Server, urlChange bool) {
	prevProcs := runtime.GOMAXPROCS(1)
	defer runtime.GOMAXPROCS(prevProcs)

	hostA := strings.Repeat("a", 40) + ".example"
	hostB := strings.Repeat("b", 60) + ".example"
	oldA := "||p3.example^\n"
	oldB := "||p3.example^\n"
	newA := "||" + hostA + "^\n||p2.example^\n||p1.example^\n"
	txtB := "||" + hostB + "^\n||p1.example^\n"
	const cutA = 30

	dir := t.TempDir()
	conf := &Config{
		DataDir:                    dir,
		HTTPClient:                 &http.Client{Timeout: 30 * time.Second, Transport: &http.Transport{DisableKeepAlives: true}},
		FiltersUpdateIntervalHours: 24,
		FilteringEnabled:           true,
		Filters:                    []FilterYAML{{Enabled: true, URL: srv.url + "/l/1", Name: "list 1", Filter: Filter{ID: 1}}},
		WhitelistFilters:           []FilterYAML{{Enabled: urlChange, URL: srv.url + "/l/11", Name: "list 11", Filter: Filter{ID: 11}, white: true}},
	}
	d, err := New(conf, nil)
	if err != nil {
		t.Fatal(err)
	}
	defer d.Close()
	d.EnableFilters(false)

	monOK, monMsg, monKey := true, "", ""
	bad := func(key, msg string) {
		if monOK {
			monOK, monMsg, monKey = false, msg, key
		}
	}
	urlNum := map[string]int64{srv.url + "/l/1": 1, srv.url + "/l/11": 11, srv.url + "/l/111": 111}
	lists := []*[]FilterYAML{&d.conf.Filters, &d.conf.WhitelistFilters}
	observe := func() map[int64]c15Obs {
		m := map[int64]c15Obs{}
		for _, arr := range lists {
			for i := range *arr {
				f := &(*arr)[i]
				o := c15Obs{count: f.RulesCount, sum: f.checksum, name: f.Name, enabled: f.Enabled, url: urlNum[f.URL]}
				if b, rerr := os.ReadFile(f.Path(dir)); rerr == nil {
					o.file, o.exists = b, true
					if fi, serr := os.Stat(f.Path(dir)); serr == nil {
						o.ino = fi.Sys().(*syscall.Stat_t).Ino
					}
				}
				m[int64(f.ID)] = o
			}
		}
		return m
	}
	verdictOf := func(host string) int {
		res, cerr := d.CheckHost(host, dns.TypeA, &Settings{FilteringEnabled: true, ProtectionEnabled: true})
		switch {
		case cerr != nil:
			return 9
		case res.Reason == FilteredBlockList:
			return 1
		case res.Reason == NotFilteredAllowList:
			return 2
		}
		return 0
	}
	verdicts := func() (vs []string) {
		for _, p := range c15Probes {
			vs = append(vs, vfN(uint64(verdictOf(p))))
		}
		return vs
	}
	var defs []vfDef
	obsTerms := func(prev, cur map[int64]c15Obs) []string {
		return []string{c15ObsTerm(&defs, 1, prev[1], cur[1]), c15ObsTerm(&defs, 11, prev[11], cur[11])}
	}
	body := func(s string) string { return vfApp("OBody", vfBytes(s), vfBool(false)) }
	setScripts := func(m map[string]c15Script) {
		srv.mu.Lock()
		for k := range srv.scripts {
			delete(srv.scripts, k)
		}
		for k, v := range m {
			srv.scripts[k] = v
		}
		srv.stalled, srv.resume = make(chan struct{}, 1), make(chan struct{})
		srv.mu.Unlock()
	}

	var steps []string
	prev := observe()

	// Step 1: both arrays, forced.
	setScripts(map[string]c15Script{"1": {Kind: "ok", Content: oldA}, "11": {Kind: "ok", Content: oldB}})
	upd, netErr, _ := d.tryRefreshFilters(true, true, true)
	cur := observe()
	steps = append(steps, vfApp("RStep", vfBool(true), vfBool(true), vfBool(true), vfList("N", nil),
		vfList("N * outcome", []string{vfPair(vfN(1), body(oldA)), vfPair(vfN(11), body(oldB))}),
		vfN(uint64(upd)), vfBool(netErr), vfList("lobs", obsTerms(prev, cur)), vfList("N", verdicts())))
	prev = cur

	// Step 2 and 3: the refresh of the block array stalls; set_url on the allow
	// list meanwhile; the refresh goes on.
	newKey := int64(11)
	if urlChange {
		newKey = 111
	}
	setScripts(map[string]c15Script{"1": {Kind: "ok", Content: newA, gateAt: cutA}, fmt.Sprint(newKey): {Kind: "ok", Content: txtB}})
	type refreshRes struct {
		upd    int
		netErr bool
		ok     bool
	}
	done := make(chan refreshRes, 1)
	go func() {
		var r refreshRes
		r.upd, r.netErr, r.ok = d.tryRefreshFilters(true, false, true)
		done <- r
	}()
	select {
	case <-srv.stalled:
	case <-time.After(60 * time.Second):
		t.Fatal("the refresh has not reached its source")
	}
	// Let the refreshing goroutine take what has arrived (nothing is judged by
	// this pause; without it the overlap is merely less likely to be the one
	// intended).
	for i := 0; i < 20; i++ {
		runtime.Gosched()
		time.Sleep(10 * time.Millisecond)
	}
	restart, serr := d.filterSetProperties(srv.url+"/l/11", FilterYAML{Enabled: true, Name: "list 11", URL: fmt.Sprintf("%s/l/%d", srv.url, newKey)}, true)
	if serr == nil && restart {
		d.EnableFilters(false)
	}
	cur = observe()
	if serr != nil || !restart {
		bad("C15/overlap-set-failed", fmt.Sprintf("set_url on the allow list while a refresh of the block list is in flight: restart %v, error %v", restart, serr))
	}
	if o := cur[11]; !o.exists || string(o.file) != txtB || o.count != 2 || !o.enabled {
		bad("C15/overlap-stored-not-own-body", fmt.Sprintf("allow list 11 downloaded %q while the refresh of list 1 was in flight; stored %q (exists %v), count %d, enabled %v", txtB, o.file, o.exists, o.count, o.enabled))
	}
	if o := cur[1]; string(o.file) != oldA || o.ino != prev[1].ino || o.count != prev[1].count {
		bad("C15/overlap-unfinished-refresh-visible", fmt.Sprintf("the refresh of list 1 has not finished, but its file is %q, count %d (was %q, %d)", o.file, o.count, oldA, prev[1].count))
	}
	steps = append(steps, vfApp("RSet", vfBool(true), vfN(11), vfBytes("list 11"), vfN(uint64(newKey)), vfBool(true),
		body(txtB), vfBool(restart), vfBool(serr != nil), vfList("lobs", obsTerms(prev, cur)), vfList("N", verdicts())))
	prev = cur

	close(srv.resume)
	var rr refreshRes
	select {
	case rr = <-done:
	case <-time.After(60 * time.Second):
		t.Fatal("the refresh has not finished")
	}
	cur = observe()
	if !rr.ok || rr.netErr || rr.upd != 1 {
		bad("C15/overlap-refresh-failed", fmt.Sprintf("the stalled refresh of list 1: ok %v, network error %v, updated %d", rr.ok, rr.netErr, rr.upd))
	}
	if o := cur[1]; !o.exists || string(o.file) != newA || o.count != 3 {
		bad("C15/overlap-stored-not-own-body", fmt.Sprintf("block list 1: its source delivered %q (30 bytes, a pause during which list 11 was downloaded, the rest); stored %q (exists %v), count %d", newA, o.file, o.exists, o.count))
	} else if res, norm, perr := func() (*rulelist.ParseResult, []byte, error) {
		var sink bytes.Buffer
		res, perr := rulelist.NewParser().Parse(&sink, bytes.NewReader(o.file), make([]byte, rulelist.DefaultRuleBufSize))
		return res, sink.Bytes(), perr
	}(); perr != nil || !bytes.Equal(norm, o.file) || res.Checksum != o.sum || res.RulesCount != o.count {
		bad("C15/stored-meta-mismatch", fmt.Sprintf("block list 1: stored %q, count %d, checksum %08x do not agree (%v)", o.file, o.count, o.sum, perr))
	}
	if o := cur[11]; string(o.file) != txtB || o.ino != prev[11].ino {
		bad("C15/overlap-changed-other-list", fmt.Sprintf("the refresh of the block array changed allow list 11: %q", o.file))
	}
	if v := verdictOf(hostA); v != 1 {
		bad("C15/overlap-rules-not-in-force", fmt.Sprintf("%s is a rule of the refreshed block list but its verdict is %d", hostA, v))
	}
	if v := verdictOf(hostB); v != 2 {
		bad("C15/overlap-rules-not-in-force", fmt.Sprintf("%s is a rule of the downloaded allow list but its verdict is %d", hostB, v))
	}
	steps = append(steps, vfApp("RStep", vfBool(true), vfBool(false), vfBool(true), vfList("N", nil),
		vfList("N * outcome", []string{vfPair(vfN(1), body(newA)), vfPair(vfN(11), body(txtB))}),
		vfN(uint64(rr.upd)), vfBool(rr.netErr), vfList("lobs", obsTerms(prev, cur)), vfList("N", verdicts())))

	var probes []string
	for _, p := range c15Probes {
		probes = append(probes, vfBytes(p))
	}
	cls := []string{"overlap", "overlap-refresh-stalled-mid-line", "overlap-set-enable"}
	if urlChange {
		cls[2] = "overlap-set-url-change"
	}
	out.Emit(vfCase{
		Coq: vfApp("CRefresh",
			vfList("N * bool * list N", []string{vfPair(vfPair(vfN(1), vfBool(true)), vfBytes("list 1"))}),
			vfList("N * bool * list N", []string{vfPair(vfPair(vfN(11), vfBool(urlChange)), vfBytes("list 11"))}),
			vfList("list N", probes), vfList("rstep", steps)),
		Nontrivial: true,
		Classes:    cls,
		MonitorOK:  monOK,
		MonitorMsg: monMsg,
		FindingKey: monKey,
		Desc: map[string]any{"overlap": "forced refresh of block list 1 stalled after 30 bytes (mid-line) while set_url downloads allow list 11; GOMAXPROCS(1)",
			"url_change": urlChange, "body_1": newA, "body_11": txtB},
		Defs: defs,
	})
}

// c15BigBody is one padding line followed by numbered rule lines of 24 bytes,
// size bytes in all, already in normal form.
func c15BigBody(size int) (body string, lines int) {
	lines = (size - 40) / 24
	pad := size - 24*lines
	var b strings.Builder
	b.Grow(size)
	b.WriteString("||")
	b.WriteString(strings.Repeat("a", pad-12))
	b.WriteString(".invalid^\n")
	var ln [24]byte
	copy(ln[:], "||h0000000.example.org^\n")
	for i := 0; i < lines; i++ {
		v := i
		for k := 9; k >= 3; k-- {
			ln[k] = byte('0' + v%10)
			v /= 10
		}
		b.Write(ln[:])
	}
	return b.String(), lines
}

// c15BigBodies: a block list refreshed (forced) from a source that delivers,
// completely and with the right Content-Length, bodies around the sizes at
// which a reader might stop.  Monitor, by streaming over the stored file: it
// has the size of the body and its bytes, its last line is the body's last
// rule, the rule count is the body's, the checksum is the IEEE CRC of the
// body's lines.
func c15BigBodies(t *testing.T, out *vfOut, srv *c15Server) {
	const mib = 1 << 20
	// N+1 alone would not do: a reader that stops at N takes only the final
	// newline of a body of N+1 bytes, and the normal form is the same; N+25
	// loses a rule and leaves a fragment.
	sizes := []int{mib - 1, mib, mib + 1, mib + 25, 32*mib - 1, 32*mib + 25}
	if out.Thorough() {
		sizes = append(sizes, 16*mib-1, 16*mib, 16*mib+1, 16*mib+25, 32*mib, 32*mib+1, 64*mib-1, 64*mib, 64*mib+1, 64*mib+25, 64*mib+24000)
	} else {
		sizes = append(sizes, 64*mib+24000)
	}
	dir := t.TempDir()
	conf := &Config{
		DataDir:                    dir,
		HTTPClient:                 &http.Client{Timeout: 5 * time.Minute, Transport: &http.Transport{DisableKeepAlives: true}},
		FiltersUpdateIntervalHours: 24,
		FilteringEnabled:           true,
		Filters:                    []FilterYAML{{Enabled: true, URL: srv.url + "/l/1", Name: "big", Filter: Filter{ID: 1}}},
	}
	d, err := New(conf, nil)
	if err != nil {
		t.Fatal(err)
	}
	defer d.Close()
	for _, size := range sizes {
		body, lines := c15BigBody(size)
		srv.mu.Lock()
		for k := range srv.scripts {
			delete(srv.scripts, k)
		}
		srv.scripts["1"] = c15Script{Kind: "ok", Content: body}
		srv.mu.Unlock()
		upd, netErr, _ := d.tryRefreshFilters(true, false, true)
		f := &d.conf.Filters[0]

		monOK, monMsg, monKey := true, "", ""
		bad := func(key, msg string) {
			if monOK {
				monOK, monMsg, monKey = false, msg, key
			}
		}
		lastRule := body[len(body)-24 : len(body)-1]
		var storedSize int
		var storedLast string
		if upd != 1 || netErr {
			bad("C15/clean-body-rejected", fmt.Sprintf("a body of %d bytes (%d rule lines, normal form) delivered completely: updated %d, network error %v", size, lines+1, upd, netErr))
		}
		if fh, oerr := os.Open(f.Path(dir)); oerr != nil {
			bad("C15/successful-refresh-not-stored", fmt.Sprintf("body of %d bytes: %v", size, oerr))
		} else {
			buf := make([]byte, 1<<20)
			same := true
			var tail []byte
			for {
				n, rerr := io.ReadFull(fh, buf)
				if n > 0 {
					if storedSize+n > len(body) || body[storedSize:storedSize+n] != string(buf[:n]) {
						same = false
					}
					storedSize += n
					tail = append(tail, buf[:n]...)
					if len(tail) > 200 {
						tail = append([]byte(nil), tail[len(tail)-200:]...)
					}
				}
				if rerr != nil {
					break
				}
			}
			_ = fh.Close()
			ls := strings.Split(strings.TrimSuffix(string(tail), "\n"), "\n")
			storedLast = ls[len(ls)-1]
			if storedSize != size || !same || storedLast != lastRule {
				bad("C15/stored-not-whole-body", fmt.Sprintf("the source delivered %d bytes, %d rules, the last one %q, completely and in normal form; the stored file has %d bytes, its last line is %q, the list has %d rules", size, lines+1, lastRule, storedSize, storedLast, f.RulesCount))
			}
		}
		if f.RulesCount != lines+1 {
			bad("C15/stored-not-whole-body", fmt.Sprintf("the source delivered %d rules in %d bytes; the list has %d rules", lines+1, size, f.RulesCount))
		}
		if want := crc32.ChecksumIEEE([]byte(strings.ReplaceAll(body, "\n", ""))); f.checksum != want {
			bad("C15/stored-meta-mismatch", fmt.Sprintf("body of %d bytes: checksum %08x, the lines of the body give %08x", size, f.checksum, want))
		}
		cls := []string{"big-body", fmt.Sprintf("big-body-%dMiB", (size+mib/2)/mib)}
		if size > 64*mib {
			cls = append(cls, "big-body-over-64MiB")
		}
		out.Emit(vfCase{
			Coq:        vfApp("CBig", vfN(uint64(lines)), vfN(uint64(size)), vfBool(upd == 1 && !netErr), vfN(uint64(f.RulesCount)), vfN(uint64(storedSize)), vfBytes(storedLast)),
			Nontrivial: true,
			Classes:    cls,
			MonitorOK:  monOK,
			MonitorMsg: monMsg,
			FindingKey: monKey,
			Desc:       map[string]any{"big_body_bytes": size, "numbered_rule_lines": lines, "last_rule": lastRule},
		})
	}
}

// c15OverlapAdd (round 8): the forced refresh of block list 1 is stalled by its
// source in the middle of a line, its working copies taken; meanwhile block
// list 2 is added to the SAME array as add_url does it (update, then the real
// filterAdd, which appends; the array is full, so the append moves it to new
// memory; engine rebuilt); the source goes on with changed content, and the
// copy-back of the refresh has to reach the live entry.  Then the same content
// again: nothing may be rewritten.  For the model the added list is one that
// was there, disabled and never stored, and is enabled by set_url (the same
// download into the entry, the same rebuild); the later pass finds it
// unchanged, so the serialised history has the same outcome.
func c15OverlapAdd(t *testing.T, out *vfOut, srv *c15Server) {
	prevProcs := runtime.GOMAXPROCS(1)
	defer runtime.GOMAXPROCS(prevProcs)

	oldA := "||p3.example^\n"
	newA := "||" + strings.Repeat("a", 40) + ".example^\n||p2.example^\n||p1.example^\n"
	txtC := "! Title: Added\n||p3.example^\n||" + strings.Repeat("c", 50) + ".example^\n"
	normC := "||p3.example^\n||" + strings.Repeat("c", 50) + ".example^\n"
	const cutA = 30

	dir := t.TempDir()
	conf := &Config{
		DataDir:                    dir,
		HTTPClient:                 &http.Client{Timeout: 30 * time.Second, Transport: &http.Transport{DisableKeepAlives: true}},
		FiltersUpdateIntervalHours: 24,
		FilteringEnabled:           true,
		Filters:                    []FilterYAML{{Enabled: true, URL: srv.url + "/l/1", Name: "list 1", Filter: Filter{ID: 1}}},
	}
	d, err := New(conf, nil)
	if err != nil {
		t.Fatal(err)
	}
	defer d.Close()
	d.EnableFilters(false)

	monOK, monMsg, monKey := true, "", ""
	bad := func(key, msg string) {
		if monOK {
			monOK, monMsg, monKey = false, msg, key
		}
	}
	observe := func() map[int64]c15Obs {
		m := map[int64]c15Obs{}
		for i := range d.conf.Filters {
			f := &d.conf.Filters[i]
			o := c15Obs{count: f.RulesCount, sum: f.checksum, name: f.Name, enabled: f.Enabled, url: int64(f.ID)}
			if b, rerr := os.ReadFile(f.Path(dir)); rerr == nil {
				o.file, o.exists = b, true
				if fi, serr := os.Stat(f.Path(dir)); serr == nil {
					o.ino = fi.Sys().(*syscall.Stat_t).Ino
				}
			}
			m[int64(f.ID)] = o
		}
		return m
	}
	verdicts := func() (vs []string) {
		for _, p := range c15Probes {
			res, cerr := d.CheckHost(p, dns.TypeA, &Settings{FilteringEnabled: true, ProtectionEnabled: true})
			v := 0
			switch {
			case cerr != nil:
				v = 9
			case res.Reason == FilteredBlockList:
				v = 1
			case res.Reason == NotFilteredAllowList:
				v = 2
			}
			vs = append(vs, vfN(uint64(v)))
		}
		return vs
	}
	var defs []vfDef
	obsTerms := func(prev, cur map[int64]c15Obs) (ts []string) {
		for _, id := range []int64{1, 2} {
			if _, ok := cur[id]; ok {
				ts = append(ts, c15ObsTerm(&defs, id, prev[id], cur[id]))
			}
		}
		return ts
	}
	body := func(s string) string { return vfApp("OBody", vfBytes(s), vfBool(false)) }
	setScripts := func(m map[string]c15Script) {
		srv.mu.Lock()
		for k := range srv.scripts {
			delete(srv.scripts, k)
		}
		for k, v := range m {
			srv.scripts[k] = v
		}
		srv.stalled, srv.resume = make(chan struct{}, 1), make(chan struct{})
		srv.mu.Unlock()
	}
	pass := func(prev map[int64]c15Obs, a string) (step string, cur map[int64]c15Obs, upd int) {
		upd, netErr, _ := d.tryRefreshFilters(true, false, true)
		cur = observe()
		return vfApp("RStep", vfBool(true), vfBool(false), vfBool(true), vfList("N", nil),
			vfList("N * outcome", []string{vfPair(vfN(1), body(a)), vfPair(vfN(2), body(txtC))}),
			vfN(uint64(upd)), vfBool(netErr), vfList("lobs", obsTerms(prev, cur)), vfList("N", verdicts())), cur, upd
	}

	var steps []string
	prev := observe()
	setScripts(map[string]c15Script{"1": {Kind: "ok", Content: oldA}})
	st, cur, _ := pass(prev, oldA)
	steps, prev = append(steps, st), cur

	// The array is full: the append of filterAdd moves it.
	d.conf.Filters = slices.Clip(d.conf.Filters)
	setScripts(map[string]c15Script{"1": {Kind: "ok", Content: newA, gateAt: cutA}, "2": {Kind: "ok", Content: txtC}})
	type refreshRes struct {
		upd    int
		netErr bool
	}
	done := make(chan refreshRes, 1)
	go func() {
		var r refreshRes
		r.upd, r.netErr, _ = d.tryRefreshFilters(true, false, true)
		done <- r
	}()
	select {
	case <-srv.stalled:
	case <-time.After(60 * time.Second):
		t.Fatal("the refresh has not reached its source")
	}
	for i := 0; i < 10; i++ {
		runtime.Gosched()
		time.Sleep(10 * time.Millisecond)
	}
	// add_url, as handleFilteringAddURL does it after its checks.
	filt := FilterYAML{Enabled: true, URL: srv.url + "/l/2", Name: "list 2", Filter: Filter{ID: 2}}
	okAdd, aerr := d.update(&filt)
	if aerr == nil && okAdd {
		aerr = d.filterAdd(filt)
	}
	d.EnableFilters(false)
	cur = observe()
	if aerr != nil || !okAdd {
		bad("C15/overlap-add-failed", fmt.Sprintf("adding list 2 while a refresh of the same array is in flight: updated %v, error %v", okAdd, aerr))
	}
	if o := cur[2]; !o.exists || string(o.file) != normC || o.count != 2 {
		bad("C15/overlap-stored-not-own-body", fmt.Sprintf("added list 2: its source delivered %q; stored %q (exists %v), count %d", txtC, o.file, o.exists, o.count))
	}
	steps = append(steps, vfApp("RSet", vfBool(false), vfN(2), vfBytes("list 2"), vfN(2), vfBool(true),
		body(txtC), vfBool(true), vfBool(aerr != nil || !okAdd), vfList("lobs", obsTerms(prev, cur)), vfList("N", verdicts())))
	prev = cur

	close(srv.resume)
	var rr refreshRes
	select {
	case rr = <-done:
	case <-time.After(60 * time.Second):
		t.Fatal("the refresh has not finished")
	}
	cur = observe()
	if rr.netErr || rr.upd != 1 {
		bad("C15/overlap-refresh-failed", fmt.Sprintf("the stalled refresh of list 1: network error %v, updated %d", rr.netErr, rr.upd))
	}
	if o := cur[1]; !o.exists || string(o.file) != newA {
		bad("C15/overlap-stored-not-own-body", fmt.Sprintf("block list 1: its source delivered %q; stored %q (exists %v)", newA, o.file, o.exists))
	} else if want := crc32.ChecksumIEEE([]byte(strings.ReplaceAll(newA, "\n", ""))); o.count != 3 || o.sum != want {
		bad("C15/overlap-copy-back-lost", fmt.Sprintf("the refresh of list 1, in flight while list 2 was added to the same array, stored %q (3 rules, checksum %08x) and reported %d update(s), but the list's entry has %d rules, checksum %08x", newA, want, rr.upd, o.count, o.sum))
	}
	steps = append(steps, vfApp("RStep", vfBool(true), vfBool(false), vfBool(true), vfList("N", nil),
		vfList("N * outcome", []string{vfPair(vfN(1), body(newA)), vfPair(vfN(2), body(txtC))}),
		vfN(uint64(rr.upd)), vfBool(rr.netErr), vfList("lobs", obsTerms(prev, cur)), vfList("N", verdicts())))
	prev = cur

	// The same content again: unchanged checksums, nothing is rewritten.
	setScripts(map[string]c15Script{"1": {Kind: "ok", Content: newA}, "2": {Kind: "ok", Content: txtC}})
	st, cur, upd := pass(prev, newA)
	if upd != 0 || cur[1].ino != prev[1].ino || cur[2].ino != prev[2].ino {
		bad("C15/same-checksum-rewritten", fmt.Sprintf("both sources deliver what is stored, but the pass reports %d update(s); file of list 1 replaced: %v, of list 2: %v (entry of list 1: %d rules, checksum %08x)", upd, cur[1].ino != prev[1].ino, cur[2].ino != prev[2].ino, prev[1].count, prev[1].sum))
	}
	steps = append(steps, st)

	var probes []string
	for _, p := range c15Probes {
		probes = append(probes, vfBytes(p))
	}
	out.Emit(vfCase{
		Coq: vfApp("CRefresh",
			vfList("N * bool * list N", []string{vfPair(vfPair(vfN(1), vfBool(true)), vfBytes("list 1")), vfPair(vfPair(vfN(2), vfBool(false)), vfBytes("list 2"))}),
			vfList("N * bool * list N", nil),
			vfList("list N", probes), vfList("rstep", steps)),
		Nontrivial: true,
		Classes:    []string{"overlap", "overlap-refresh-stalled-mid-line", "overlap-add-same-array", "overlap-then-same-content"},
		MonitorOK:  monOK,
		MonitorMsg: monMsg,
		FindingKey: monKey,
		Desc: map[string]any{"overlap": "forced refresh of block list 1 stalled after 30 bytes while list 2 is added to the same (full) array by update + filterAdd; then the same content again; GOMAXPROCS(1)",
			"body_1": newA, "body_2": txtC},
		Defs: defs,
	})
}

// c15OverlapRemove (round 8): block lists 1 and 2 are stored; the forced
// refresh of the block array is stalled by the source of list 1, the working
// copies of both lists taken; meanwhile list 2 is removed through the real
// handleFilteringRemoveURL (the updates loop is running for its asynchronous
// rebuild; a synchronous rebuild follows for the observation); the source goes
// on with changed content for list 1 (list 2's source still serves what was
// stored, so its orphaned working copy writes nothing).  The copy-back has to
// reach list 1 in the shortened array; the same content again is not
// rewritten.  For the model the removal is set_url disabling list 2 (no rules
// of it in force, not refreshed any more); list 2 is not observed afterwards.
func c15OverlapRemove(t *testing.T, out *vfOut, srv *c15Server) {
	prevProcs := runtime.GOMAXPROCS(1)
	defer runtime.GOMAXPROCS(prevProcs)

	oldA := "||p3.example^\n"
	newA := "||" + strings.Repeat("a", 40) + ".example^\n||p2.example^\n"
	txtB := "||p1.example^\n||" + strings.Repeat("b", 50) + ".example^\n"
	const cutA = 30

	dir := t.TempDir()
	conf := &Config{
		DataDir:                    dir,
		HTTPClient:                 &http.Client{Timeout: 30 * time.Second, Transport: &http.Transport{DisableKeepAlives: true}},
		FiltersUpdateIntervalHours: 24,
		FilteringEnabled:           true,
		ConfigModified:             func() {},
		Filters: []FilterYAML{
			{Enabled: true, URL: srv.url + "/l/1", Name: "list 1", Filter: Filter{ID: 1}},
			{Enabled: true, URL: srv.url + "/l/2", Name: "list 2", Filter: Filter{ID: 2}},
		},
	}
	d, err := New(conf, nil)
	if err != nil {
		t.Fatal(err)
	}
	defer d.Close()
	d.EnableFilters(false)
	d.Start()

	monOK, monMsg, monKey := true, "", ""
	bad := func(key, msg string) {
		if monOK {
			monOK, monMsg, monKey = false, msg, key
		}
	}
	observe := func() map[int64]c15Obs {
		m := map[int64]c15Obs{}
		for i := range d.conf.Filters {
			f := &d.conf.Filters[i]
			o := c15Obs{count: f.RulesCount, sum: f.checksum, name: f.Name, enabled: f.Enabled, url: int64(f.ID)}
			if b, rerr := os.ReadFile(f.Path(dir)); rerr == nil {
				o.file, o.exists = b, true
				if fi, serr := os.Stat(f.Path(dir)); serr == nil {
					o.ino = fi.Sys().(*syscall.Stat_t).Ino
				}
			}
			m[int64(f.ID)] = o
		}
		return m
	}
	verdicts := func() (vs []string) {
		for _, p := range c15Probes {
			res, cerr := d.CheckHost(p, dns.TypeA, &Settings{FilteringEnabled: true, ProtectionEnabled: true})
			v := 0
			switch {
			case cerr != nil:
				v = 9
			case res.Reason == FilteredBlockList:
				v = 1
			case res.Reason == NotFilteredAllowList:
				v = 2
			}
			vs = append(vs, vfN(uint64(v)))
		}
		return vs
	}
	var defs []vfDef
	obsTerms := func(prev, cur map[int64]c15Obs) (ts []string) {
		for _, id := range []int64{1, 2} {
			if _, ok := cur[id]; ok {
				ts = append(ts, c15ObsTerm(&defs, id, prev[id], cur[id]))
			}
		}
		return ts
	}
	body := func(s string) string { return vfApp("OBody", vfBytes(s), vfBool(false)) }
	setScripts := func(m map[string]c15Script) {
		srv.mu.Lock()
		for k := range srv.scripts {
			delete(srv.scripts, k)
		}
		for k, v := range m {
			srv.scripts[k] = v
		}
		srv.stalled, srv.resume = make(chan struct{}, 1), make(chan struct{})
		srv.mu.Unlock()
	}
	pass := func(prev map[int64]c15Obs, a string) (step string, cur map[int64]c15Obs, upd int) {
		upd, netErr, _ := d.tryRefreshFilters(true, false, true)
		cur = observe()
		return vfApp("RStep", vfBool(true), vfBool(false), vfBool(true), vfList("N", nil),
			vfList("N * outcome", []string{vfPair(vfN(1), body(a)), vfPair(vfN(2), body(txtB))}),
			vfN(uint64(upd)), vfBool(netErr), vfList("lobs", obsTerms(prev, cur)), vfList("N", verdicts())), cur, upd
	}

	var steps []string
	prev := observe()
	setScripts(map[string]c15Script{"1": {Kind: "ok", Content: oldA}, "2": {Kind: "ok", Content: txtB}})
	st, cur, _ := pass(prev, oldA)
	steps, prev = append(steps, st), cur

	setScripts(map[string]c15Script{"1": {Kind: "ok", Content: newA, gateAt: cutA}, "2": {Kind: "ok", Content: txtB}})
	type refreshRes struct {
		upd    int
		netErr bool
	}
	done := make(chan refreshRes, 1)
	go func() {
		var r refreshRes
		r.upd, r.netErr, _ = d.tryRefreshFilters(true, false, true)
		done <- r
	}()
	select {
	case <-srv.stalled:
	case <-time.After(60 * time.Second):
		t.Fatal("the refresh has not reached its source")
	}
	for i := 0; i < 10; i++ {
		runtime.Gosched()
		time.Sleep(10 * time.Millisecond)
	}
	rec := httptest.NewRecorder()
	d.handleFilteringRemoveURL(rec, httptest.NewRequest(http.MethodPost, "/control/filtering/remove_url",
		strings.NewReader(fmt.Sprintf(`{"url":%q,"whitelist":false}`, srv.url+"/l/2"))))
	d.EnableFilters(false)
	cur = observe()
	if _, still := cur[2]; rec.Code != http.StatusOK || still || len(d.conf.Filters) != 1 {
		bad("C15/overlap-remove-failed", fmt.Sprintf("remove_url of list 2 while a refresh of the same array is in flight: status %d, %d lists left", rec.Code, len(d.conf.Filters)))
	}
	steps = append(steps, vfApp("RSet", vfBool(false), vfN(2), vfBytes("list 2"), vfN(2), vfBool(false),
		"OOpenErr", vfBool(true), vfBool(false), vfList("lobs", obsTerms(prev, cur)), vfList("N", verdicts())))
	prev = cur

	close(srv.resume)
	var rr refreshRes
	select {
	case rr = <-done:
	case <-time.After(60 * time.Second):
		t.Fatal("the refresh has not finished")
	}
	cur = observe()
	if rr.netErr || rr.upd != 1 {
		bad("C15/overlap-refresh-failed", fmt.Sprintf("the stalled refresh of list 1: network error %v, updated %d", rr.netErr, rr.upd))
	}
	if o := cur[1]; !o.exists || string(o.file) != newA {
		bad("C15/overlap-stored-not-own-body", fmt.Sprintf("block list 1: its source delivered %q; stored %q (exists %v)", newA, o.file, o.exists))
	} else if want := crc32.ChecksumIEEE([]byte(strings.ReplaceAll(newA, "\n", ""))); o.count != 2 || o.sum != want {
		bad("C15/overlap-copy-back-lost", fmt.Sprintf("the refresh of list 1, in flight while list 2 was removed from the same array, stored %q (2 rules, checksum %08x) and reported %d update(s), but the list's entry has %d rules, checksum %08x", newA, want, rr.upd, o.count, o.sum))
	}
	if _, rerr := os.Stat(filepath.Join(dir, filterDir, "2.txt")); rerr == nil {
		bad("C15/overlap-removed-list-stored-again", "the file of the removed list 2 is back after the refresh whose working copy outlived it, although its source served unchanged content")
	}
	steps = append(steps, vfApp("RStep", vfBool(true), vfBool(false), vfBool(true), vfList("N", nil),
		vfList("N * outcome", []string{vfPair(vfN(1), body(newA)), vfPair(vfN(2), body(txtB))}),
		vfN(uint64(rr.upd)), vfBool(rr.netErr), vfList("lobs", obsTerms(prev, cur)), vfList("N", verdicts())))
	prev = cur

	setScripts(map[string]c15Script{"1": {Kind: "ok", Content: newA}, "2": {Kind: "ok", Content: txtB}})
	st, cur, upd := pass(prev, newA)
	if upd != 0 || cur[1].ino != prev[1].ino {
		bad("C15/same-checksum-rewritten", fmt.Sprintf("the source of list 1 delivers what is stored, but the pass reports %d update(s); file replaced: %v (entry: %d rules, checksum %08x)", upd, cur[1].ino != prev[1].ino, prev[1].count, prev[1].sum))
	}
	steps = append(steps, st)

	var probes []string
	for _, p := range c15Probes {
		probes = append(probes, vfBytes(p))
	}
	out.Emit(vfCase{
		Coq: vfApp("CRefresh",
			vfList("N * bool * list N", []string{vfPair(vfPair(vfN(1), vfBool(true)), vfBytes("list 1")), vfPair(vfPair(vfN(2), vfBool(true)), vfBytes("list 2"))}),
			vfList("N * bool * list N", nil),
			vfList("list N", probes), vfList("rstep", steps)),
		Nontrivial: true,
		Classes:    []string{"overlap", "overlap-refresh-stalled-mid-line", "overlap-remove-same-array", "overlap-then-same-content"},
		MonitorOK:  monOK,
		MonitorMsg: monMsg,
		FindingKey: monKey,
		Desc: map[string]any{"overlap": "forced refresh of block lists 1 and 2 stalled in list 1's download while list 2 is removed through handleFilteringRemoveURL; then the same content again; GOMAXPROCS(1)",
			"body_1": newA, "body_2": txtB},
		Defs: defs,
	})
}

// c15OverlapDisable (after round 8; /repo fix 7322afe): list T (block list 1 or
// allow list 11) is stored and enabled; a forced pass over its array takes its
// working copies and starts the download, which the list server holds back
// after gate bytes; meanwhile set_url DISABLES the list (the real
// filterSetProperties, then the rebuild the handler asks for); the server goes
// on, the pass stores the download and copies rule count and checksum back into
// the entry, which is disabled by now; then set_url ENABLES the list, its
// source delivering the same content (same = true) or other content; then a
// forced pass with that content again.  The Coq side replays the overlapped
// pass as ROver (Model/Refresh.v refresh_over).  The monitor judges directly:
// after the enabling call the stored file is the normal form of what the
// source delivers, the rule count is its number of rules, and the probe name
// that only this content has gets the list's verdict.  With other = true a
// second list of the same array is downloaded by the same pass (not gated).
func c15OverlapDisable(t *testing.T, out *vfOut, srv *c15Server, allow, other, same bool, gate int) {
	prevProcs := runtime.GOMAXPROCS(1)
	defer runtime.GOMAXPROCS(prevProcs)

	T := int64(1)
	if allow {
		T = 11
	}
	O := T + 1
	oldA := "||p3.example^\n"
	newA := "! Title: Gated\n||p1.example^\r\n  ||p2.example^\n"
	normA := "||p1.example^\n||p2.example^\n"
	nextA, normNext := newA, normA
	if !same {
		nextA, normNext = "||p2.example^\n# c\n", "||p2.example^\n"
	}
	oldC, newC := "||c-old.invalid^\n", "||c-new.invalid^\n||c-more.invalid^\n"

	dir := t.TempDir()
	conf := &Config{
		DataDir:                    dir,
		HTTPClient:                 &http.Client{Timeout: 30 * time.Second, Transport: &http.Transport{DisableKeepAlives: true}},
		FiltersUpdateIntervalHours: 24,
		FilteringEnabled:           true,
	}
	mk := func(id int64) FilterYAML {
		return FilterYAML{Enabled: true, URL: fmt.Sprintf("%s/l/%d", srv.url, id), Name: fmt.Sprintf("list %d", id), Filter: Filter{ID: rulelist.URLFilterID(id)}, white: allow}
	}
	ids := []int64{T}
	if other {
		ids = append(ids, O)
	}
	for _, id := range ids {
		if allow {
			conf.WhitelistFilters = append(conf.WhitelistFilters, mk(id))
		} else {
			conf.Filters = append(conf.Filters, mk(id))
		}
	}
	d, err := New(conf, nil)
	if err != nil {
		t.Fatal(err)
	}
	defer d.Close()
	d.EnableFilters(false)

	monOK, monMsg, monKey := true, "", ""
	bad := func(key, msg string) {
		if monOK {
			monOK, monMsg, monKey = false, msg, key
		}
	}
	arr := &d.conf.Filters
	if allow {
		arr = &d.conf.WhitelistFilters
	}
	observe := func() map[int64]c15Obs {
		m := map[int64]c15Obs{}
		for i := range *arr {
			f := &(*arr)[i]
			o := c15Obs{count: f.RulesCount, sum: f.checksum, name: f.Name, enabled: f.Enabled, url: int64(f.ID)}
			if b, rerr := os.ReadFile(f.Path(dir)); rerr == nil {
				o.file, o.exists = b, true
				if fi, serr := os.Stat(f.Path(dir)); serr == nil {
					o.ino = fi.Sys().(*syscall.Stat_t).Ino
				}
			}
			m[int64(f.ID)] = o
		}
		return m
	}
	verdictOf := func(host string) int {
		res, cerr := d.CheckHost(host, dns.TypeA, &Settings{FilteringEnabled: true, ProtectionEnabled: true})
		switch {
		case cerr != nil:
			return 9
		case res.Reason == FilteredBlockList:
			return 1
		case res.Reason == NotFilteredAllowList:
			return 2
		}
		return 0
	}
	verdicts := func() (vs []string) {
		for _, p := range c15Probes {
			vs = append(vs, vfN(uint64(verdictOf(p))))
		}
		return vs
	}
	var defs []vfDef
	obsTerms := func(prev, cur map[int64]c15Obs) (ts []string) {
		for _, id := range ids {
			ts = append(ts, c15ObsTerm(&defs, id, prev[id], cur[id]))
		}
		return ts
	}
	body := func(s string) string { return vfApp("OBody", vfBytes(s), vfBool(false)) }
	ocs := func(a, c string) string {
		l := []string{vfPair(vfN(uint64(T)), body(a))}
		if other {
			l = append(l, vfPair(vfN(uint64(O)), body(c)))
		}
		return vfList("N * outcome", l)
	}
	setScripts := func(a c15Script, c string) {
		srv.mu.Lock()
		for k := range srv.scripts {
			delete(srv.scripts, k)
		}
		srv.scripts[fmt.Sprint(T)] = a
		srv.scripts[fmt.Sprint(O)] = c15Script{Kind: "ok", Content: c}
		srv.stalled, srv.resume = make(chan struct{}, 1), make(chan struct{})
		srv.mu.Unlock()
	}
	want := 1
	if allow {
		want = 2
	}
	listURL := fmt.Sprintf("%s/l/%d", srv.url, T)
	listName := fmt.Sprintf("list %d", T)

	var steps []string
	prev := observe()

	// Step 1: the list is stored.
	setScripts(c15Script{Kind: "ok", Content: oldA}, oldC)
	upd, netErr, _ := d.tryRefreshFilters(!allow, allow, true)
	cur := observe()
	steps = append(steps, vfApp("RStep", vfBool(!allow), vfBool(allow), vfBool(true), vfList("N", nil), ocs(oldA, oldC),
		vfN(uint64(upd)), vfBool(netErr), vfList("lobs", obsTerms(prev, cur)), vfList("N", verdicts())))
	prev = cur

	// Step 2: the pass, held back in the download of list T; the list is
	// disabled meanwhile; the pass goes on.
	setScripts(c15Script{Kind: "ok", Content: newA, gateAt: gate}, newC)
	type refreshRes struct {
		upd    int
		netErr bool
		ok     bool
	}
	done := make(chan refreshRes, 1)
	go func() {
		var r refreshRes
		r.upd, r.netErr, r.ok = d.tryRefreshFilters(!allow, allow, true)
		done <- r
	}()
	select {
	case <-srv.stalled:
	case <-time.After(60 * time.Second):
		t.Fatal("the refresh has not reached its source")
	}
	for i := 0; i < 10; i++ {
		runtime.Gosched()
		time.Sleep(5 * time.Millisecond)
	}
	restart, serr := d.filterSetProperties(listURL, FilterYAML{Enabled: false, Name: listName, URL: listURL}, allow)
	if serr == nil && restart {
		d.EnableFilters(false)
	}
	if serr != nil || !restart {
		bad("C15/overlap-set-failed", fmt.Sprintf("set_url disabling list %d while its refresh is in flight: restart %v, error %v", T, restart, serr))
	}
	if v := verdictOf("p3.example"); v != 0 {
		bad("C15/disable-wrong", fmt.Sprintf("list %d has been disabled (its refresh still in flight) but p3.example, a rule of its stored file, has verdict %d", T, v))
	}
	close(srv.resume)
	var rr refreshRes
	select {
	case rr = <-done:
	case <-time.After(60 * time.Second):
		t.Fatal("the refresh has not finished")
	}
	cur = observe()
	if !rr.ok || rr.netErr {
		bad("C15/overlap-refresh-failed", fmt.Sprintf("the refresh of list %d held back by its source: ok %v, network error %v, updated %d", T, rr.ok, rr.netErr, rr.upd))
	}
	if o := cur[T]; o.enabled {
		bad("C15/disable-wrong", fmt.Sprintf("list %d was disabled during its refresh but is enabled after it", T))
	}
	if v := verdictOf("p1.example"); v != 0 {
		bad("C15/disable-wrong", fmt.Sprintf("list %d is disabled but p1.example, a rule of the download that finished after the call, has verdict %d", T, v))
	}
	overObs := cur[T]
	steps = append(steps, vfApp("ROver", vfBool(allow), vfBool(true), vfList("N", nil), ocs(newA, newC),
		vfN(uint64(T)), vfBytes(listName), vfN(uint64(T)), vfBool(false), "OOpenErr",
		vfN(uint64(rr.upd)), vfBool(rr.netErr), vfList("lobs", obsTerms(prev, cur)), vfList("N", verdicts())))
	prev = cur

	// Step 3: the list is enabled again.
	setScripts(c15Script{Kind: "ok", Content: nextA}, newC)
	restart, serr = d.filterSetProperties(listURL, FilterYAML{Enabled: true, Name: listName, URL: listURL}, allow)
	if serr == nil && restart {
		d.EnableFilters(false)
	}
	cur = observe()
	probe := "p1.example"
	if !same {
		probe = "p2.example"
	}
	switch o := cur[T]; {
	case serr != nil || !restart:
		bad("C15/enable-failed", fmt.Sprintf("set_url enabling list %d, its source delivering %q: restart %v, error %v", T, nextA, restart, serr))
	case !o.enabled || !o.exists || string(o.file) != normNext || o.count != strings.Count(normNext, "\n"):
		bad("C15/reenable-after-overlap-lost-file", fmt.Sprintf("list %d: refresh in flight (source held back after %d bytes of %q), set_url disables the list, the refresh finishes (file %q, count %d, checksum %08x, enabled %v), set_url enables it, the source delivering %q: enabled %v, count %d, checksum %08x, stored file %q (exists %v); want %q",
			T, gate, newA, overObs.file, overObs.count, overObs.sum, overObs.enabled, nextA, o.enabled, o.count, o.sum, o.file, o.exists, normNext))
	case verdictOf(probe) != want:
		bad("C15/reenable-after-overlap-rules-not-in-force", fmt.Sprintf("list %d enabled again after a refresh that overlapped its disabling; %s is a rule of its source (%q) and of its file %q, but its verdict is %d, want %d", T, probe, nextA, o.file, verdictOf(probe), want))
	}
	steps = append(steps, vfApp("RSet", vfBool(allow), vfN(uint64(T)), vfBytes(listName), vfN(uint64(T)), vfBool(true),
		body(nextA), vfBool(restart), vfBool(serr != nil), vfList("lobs", obsTerms(prev, cur)), vfList("N", verdicts())))
	prev = cur

	// Step 4: the same content again: nothing is rewritten, the rules stay.
	setScripts(c15Script{Kind: "ok", Content: nextA}, newC)
	upd, netErr, _ = d.tryRefreshFilters(!allow, allow, true)
	cur = observe()
	if monOK && (upd != 0 || cur[T].ino != prev[T].ino || !cur[T].exists) {
		bad("C15/same-checksum-rewritten", fmt.Sprintf("list %d: the source delivers what is stored (%q), but the pass reports %d update(s), file replaced: %v, exists: %v", T, normNext, upd, cur[T].ino != prev[T].ino, cur[T].exists))
	}
	if monOK && verdictOf(probe) != want {
		bad("C15/reenable-after-overlap-rules-not-in-force", fmt.Sprintf("list %d: after the next refresh %s has verdict %d, want %d", T, probe, verdictOf(probe), want))
	}
	steps = append(steps, vfApp("RStep", vfBool(!allow), vfBool(allow), vfBool(true), vfList("N", nil), ocs(nextA, newC),
		vfN(uint64(upd)), vfBool(netErr), vfList("lobs", obsTerms(prev, cur)), vfList("N", verdicts())))

	var probes, ls []string
	for _, p := range c15Probes {
		probes = append(probes, vfBytes(p))
	}
	for _, id := range ids {
		ls = append(ls, vfPair(vfPair(vfN(uint64(id)), vfBool(true)), vfBytes(fmt.Sprintf("list %d", id))))
	}
	bl, al := vfList("N * bool * list N", ls), vfList("N * bool * list N", nil)
	if allow {
		bl, al = al, bl
	}
	cls := []string{"overlap", "overlap-disable-during-refresh", "overlap-disable-gate-mid-line"}
	if newA[gate-1] == '\n' {
		cls[2] = "overlap-disable-gate-at-line-boundary"
	}
	if same {
		cls = append(cls, "overlap-reenable-same-content")
	} else {
		cls = append(cls, "overlap-reenable-other-content")
	}
	if other {
		cls = append(cls, "overlap-disable-beside-updated-list")
	}
	if allow {
		cls = append(cls, "allow-list")
	}
	out.Emit(vfCase{
		Coq:        vfApp("CRefresh", bl, al, vfList("list N", probes), vfList("rstep", steps)),
		Nontrivial: true,
		Classes:    cls,
		MonitorOK:  monOK,
		MonitorMsg: monMsg,
		FindingKey: monKey,
		Desc: map[string]any{"overlap": "forced refresh of the list held back by its source; set_url disables the list meanwhile; the refresh finishes; set_url enables the list; a forced refresh with the same content; GOMAXPROCS(1)",
			"list": T, "allow": allow, "second_list_in_the_array": other, "gate_after_bytes": gate, "body_of_the_pass": newA, "body_at_enabling": nextA},
		Defs: defs,
	})
}

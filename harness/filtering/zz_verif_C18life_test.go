//go:build verif

package filtering

// C18, life cycle of the blocked-services configuration (round 6): accepted
// request -> ConfigModified callback -> what the callback can read
// (DNSFilter.WriteDiskConfig) -> YAML as home writes it -> restart
// (filtering.New from the decoded file) -> the schedule in force.
//
// A real *DNSFilter whose ConfigModified callback does what
// home.configuration.write does for the filtering section: it calls the real
// WriteDiskConfig into a fresh Config AT THAT MOMENT and encodes it with
// yaml.v3 (indent 2) under the key "filtering".  A restart closes the filter,
// decodes that document over home's defaults and builds a second filter with
// the real filtering.New.  One case per history of update / legacy set / get /
// restart; after every step the HTTP observation of the first HTTP harness,
// the blocked_services section found in the file (read with yaml.v3 as a
// tokeniser, durations with time.ParseDuration), and ApplyBlockedServices at
// the instant of the run (schedules are constructed around that instant).
//
// Monitor, without the model: after every step the file carries what GET
// reports (after an accepted request: what was sent); a rejected request
// leaves the file as it was; a restart is refused only when the file holds an
// id outside the service table; after a restart GET and every Contains probe
// are as before it, and the services blocked now are those of the last
// accepted request read by the wall clock in its zone.

import (
	"bytes"
	"fmt"
	"net/http"
	"net/http/httptest"
	"sort"
	"strings"
	"testing"
	"time"

	"github.com/AdguardTeam/AdGuardHome/internal/schedule"
	"gopkg.in/yaml.v3"
)

// c18lFile is the part of home's configuration the filter owns.
type c18lFile struct {
	Filtering *Config `yaml:"filtering"`
}

// c18lProc is one running "process": a filter and the file its callback wrote.
type c18lProc struct {
	d     *DNSFilter
	snap  []byte
	saves int
	err   string
}

// onModified is home.configuration.write as far as the filter is concerned.
func (p *c18lProc) onModified() {
	c := &Config{}
	p.d.WriteDiskConfig(c)
	buf := &bytes.Buffer{}
	enc := yaml.NewEncoder(buf)
	enc.SetIndent(2)
	if err := enc.Encode(c18lFile{Filtering: c}); err != nil {
		p.err = "encoding the configuration: " + err.Error()

		return
	}
	p.snap = buf.Bytes()
	p.saves++
}

func c18lStart(conf *Config, dataDir string, snap []byte) (p *c18lProc, err error) {
	p = &c18lProc{snap: snap}
	conf.DataDir = dataDir
	conf.ConfigModified = p.onModified
	p.d, err = New(conf, nil)
	if err != nil {
		return nil, err
	}
	return p, nil
}

// c18lRestart reads the file over home's defaults and starts a new filter.
func c18lRestart(snap []byte, dataDir string) (p *c18lProc, err error) {
	file := c18lFile{Filtering: &Config{
		BlockedServices: &BlockedServices{Schedule: schedule.EmptyWeekly(), IDs: []string{}},
	}}
	err = yaml.Unmarshal(snap, &file)
	if err != nil {
		return nil, fmt.Errorf("reading the configuration: %w", err)
	}
	return c18lStart(file.Filtering, dataDir, snap)
}

// c18lDisk is the blocked_services section found in the file.
type c18lDisk struct {
	ok     bool
	ids    []string
	zone   string
	days   [7]*[2]string
	ranges [7][2]int64
	exact  bool
}

func c18lReadDisk(snap []byte) (o *c18lDisk) {
	o = &c18lDisk{}
	var v struct {
		Filtering struct {
			BS struct {
				Schedule map[string]yaml.Node `yaml:"schedule"`
				IDs      []string             `yaml:"ids"`
			} `yaml:"blocked_services"`
		} `yaml:"filtering"`
	}
	if yaml.Unmarshal(snap, &v) != nil || v.Filtering.BS.Schedule == nil {
		return o
	}
	o.ok, o.exact = true, true
	o.ids = v.Filtering.BS.IDs
	if n, has := v.Filtering.BS.Schedule["time_zone"]; has {
		o.zone = n.Value
	}
	for i, k := range c18hDayKeys {
		n, has := v.Filtering.BS.Schedule[k]
		if !has {
			continue
		}
		var dm map[string]yaml.Node
		if n.Decode(&dm) != nil {
			o.ok = false
			return o
		}
		o.days[i] = &[2]string{dm["start"].Value, dm["end"].Value}
		for j := 0; j < 2; j++ {
			dur, err := time.ParseDuration(o.days[i][j])
			if err != nil {
				o.exact = false
			}
			o.ranges[i][j] = int64(dur)
		}
	}
	return o
}

func (o *c18lDisk) coq() string {
	return "(" + c18hCoqIDs(o.ids) + ", " + vfBytes(o.zone) + ", " + c18hCoqTextDays(o.days) + ")"
}

// c18lNow is ApplyBlockedServices at the instant of the run, bracketed by two
// clock readings.
type c18lNow struct {
	t1, t2  time.Time
	applied []string
}

func c18lApplyNow(d *DNSFilter) (n *c18lNow) {
	n = &c18lNow{applied: []string{}}
	setts := &Settings{}
	n.t1 = time.Now()
	d.ApplyBlockedServices(setts)
	n.t2 = time.Now()
	for _, e := range setts.ServicesRules {
		n.applied = append(n.applied, e.Name)
	}
	return n
}

// c18lSameMinute: both readings show, in loc, the same day, hour, minute and
// offset; ranges are whole minutes, so no verdict changes in between.
func c18lSameMinute(loc *time.Location, a, b time.Time) bool {
	la, lb := a.In(loc), b.In(loc)
	_, oa := la.Zone()
	_, ob := lb.Zone()
	return oa == ob && la.Year() == lb.Year() && la.YearDay() == lb.YearDay() &&
		la.Hour() == lb.Hour() && la.Minute() == lb.Minute()
}

func (n *c18lNow) coq(zone string, out *vfOut) string {
	loc, err := c18hLoc(zone)
	if err != nil || !c18lSameMinute(loc, n.t1, n.t2) {
		out.Class("skipped-life-clock")
		return vfOpt("Z * Z * list bytes", false, "")
	}
	_, off := n.t1.In(loc).Zone()
	return vfOpt("Z * Z * list bytes", true, "("+vfZ(n.t1.UnixNano())+", "+vfZ(int64(off))+", "+c18hCoqIDs(n.applied)+")")
}

// c18lExpect is what the property says is in force: the schedule of the last
// accepted update (or the configured one) and the ids of the last accepted
// request.
type c18lExpect struct {
	zone   string
	ranges [7][2]int64
	ids    []string
	from   string
}

func c18lKnownOf(ids []string) (out []string) {
	out = []string{}
	for _, id := range ids {
		if c18hKnown(id) {
			out = append(out, id)
		}
	}
	return out
}

// c18lAround builds seven whole-minute ranges for a schedule in loc whose
// range of the CURRENT local weekday stands in the given relation to the
// current wall clock (margins of 30 minutes and more).
func c18lAround(r *vfRand, loc *time.Location, ref time.Time, mode string) (rs [7][2]int64) {
	const mn = int64(time.Minute)
	lt := ref.In(loc)
	wd := int(lt.Weekday())
	h, mi, _ := lt.Clock()
	m := int64(h*60 + mi)
	clamp := func(x int64) int64 { return max(0, min(1440, x)) }
	for d := range rs {
		rs[d][0], rs[d][1] = c18hRandRange(r)
	}
	set := func(d int, a, b int64) {
		a, b = clamp(a), clamp(b)
		if a >= b {
			rs[d] = [2]int64{}
			return
		}
		rs[d] = [2]int64{a * mn, b * mn}
	}
	switch mode {
	case "paused":
		set(wd, m-120-int64(r.Intn(240)), m+120+int64(r.Intn(240)))
		if m+30 >= 1440 {
			set((wd+1)%7, 0, 120)
		}
	case "active":
		if r.Bool() && m+90 <= 1440 {
			set(wd, m+30, m+90+int64(r.Intn(120)))
		} else if m >= 90 {
			set(wd, m-90-int64(r.Intn(120)), m-30)
		} else {
			set(wd, m+30, m+90+int64(r.Intn(120)))
		}
		if m+30 >= 1440 {
			rs[(wd+1)%7] = [2]int64{}
		}
	case "empty-today": // another weekday would say the opposite
		rs = c18hWeek(0, c18hDayNs)
		rs[wd] = [2]int64{}
	case "full-today":
		rs = [7][2]int64{}
		rs[wd] = [2]int64{0, c18hDayNs}
	case "full":
		rs = c18hWeek(0, c18hDayNs)
	case "none":
		rs = [7][2]int64{}
	}
	return rs
}

var c18lModes = []string{"paused", "paused", "active", "active", "empty-today", "full-today", "full", "none", "random"}

var c18lZones = []string{
	"Asia/Kolkata", "Asia/Kathmandu", "Pacific/Apia", "Pacific/Kiritimati", "Pacific/Pago_Pago",
	"America/St_Johns", "America/New_York", "Europe/Berlin", "UTC", "Etc/GMT+5", "Etc/GMT-14",
	"America/Argentina/Buenos_Aires", "Australia/Lord_Howe", "Local",
}

// c18lStep is a request or a restart.
type c18lStep struct {
	op      *c18hOp // nil: restart
	mode    string  // how the schedule of an update stands to the current wall clock
	restart bool
}

func c18lUpdateAround(r *vfRand, zone, mode string, ids []string) c18lStep {
	loc, err := c18hLoc(zone)
	if err != nil {
		loc, zone = time.UTC, "UTC"
	}
	sc := c18hValidSched(r, zone, c18lAround(r, loc, time.Now(), mode))
	op, ok := c18hUpdate(r, sc, "doc", ids, "http-update-ok")
	if !ok {
		panic("c18l: constructed update not usable")
	}
	return c18lStep{op: op, mode: mode}
}

func c18lHandler(d *DNSFilter, kind string) (h func(http.ResponseWriter, *http.Request), method, path string) {
	switch kind {
	case "update":
		return d.handleBlockedServicesUpdate, http.MethodPut, "/control/blocked_services/update"
	case "set":
		return d.handleBlockedServicesSet, http.MethodPost, "/control/blocked_services/set"
	default:
		return d.handleBlockedServicesGet, http.MethodGet, "/control/blocked_services/get"
	}
}

func c18lSchedText(zone string, ranges [7][2]int64) string {
	var parts []string
	for d, rg := range ranges {
		if rg != [2]int64{} {
			parts = append(parts, fmt.Sprintf("%s %s-%s", c18hDayKeys[d], time.Duration(rg[0]), time.Duration(rg[1])))
		}
	}
	if len(parts) == 0 {
		return fmt.Sprintf("zone %q, no pause", zone)
	}
	return fmt.Sprintf("zone %q, pause %s", zone, strings.Join(parts, " "))
}

// c18lDiskVsExpect: the file carries what the property says is in force.
func c18lDiskVsExpect(dk *c18lDisk, exp *c18lExpect) string {
	switch {
	case !dk.ok:
		return "has no readable blocked_services section"
	case dk.zone != exp.zone || !dk.exact || dk.ranges != exp.ranges:
		return fmt.Sprintf("carries the schedule {%s}, in force since %s is {%s}: a restart now loses the accepted schedule",
			c18lSchedText(dk.zone, dk.ranges), exp.from, c18lSchedText(exp.zone, exp.ranges))
	case !c18hSameIDs(dk.ids, exp.ids):
		return fmt.Sprintf("carries the ids %q, in force since %s are %q", dk.ids, exp.from, exp.ids)
	}
	return ""
}

// c18lRunHistory runs one life-cycle history and emits its case.
func c18lRunHistory(t *testing.T, out *vfOut, r *vfRand, in *c18hInit, steps []c18lStep, extra ...string) {
	bs, err := in.build()
	if err != nil {
		c18hInitFailed(out, in, err)
		return
	}
	dataDir := t.TempDir()
	p, err := c18lStart(&Config{BlockedServices: bs}, dataDir, nil)
	if err != nil {
		out.Class("skipped-life-new-error")
		return
	}
	defer func() {
		if p != nil {
			p.d.Close()
		}
	}()
	// the process has written its configuration once (home does so at start-up)
	p.onModified()

	involved := []c18hInvolved{{zone: in.zone, ranges: in.ranges}}
	for _, st := range steps {
		if st.op != nil && st.op.sched != nil && st.op.want == http.StatusOK {
			involved = append(involved, c18hInvolved{zone: st.op.zone, ranges: st.op.ranges})
		}
	}
	instants := c18hProbeInstants(r, involved, 4)

	classes := map[string]bool{}
	for _, e := range extra {
		classes[e] = true
	}
	// The first failure is the finding; the first failure seen at or after a
	// restart (where the loss becomes observable) is appended to it.
	monMsg, monKey, monThen := "", "", ""
	fail := func(step int, msg, key string) {
		if msg == "" {
			return
		}
		if monMsg == "" {
			monMsg, monKey = fmt.Sprintf("step %d: %s", step, msg), key
		} else if monThen == "" && strings.Contains(key, "restart") && !strings.Contains(monKey, "restart") {
			monThen = fmt.Sprintf("; then step %d: %s", step, msg)
		}
	}
	known := map[string]bool{}
	note := func(ids []string) {
		for _, id := range ids {
			if c18hKnown(id) {
				known[id] = true
			}
		}
	}
	note(in.ids)

	exp := &c18lExpect{zone: in.zone, ranges: in.ranges, ids: in.ids, from: "the start (initial configuration)"}

	// judgeNow: the services blocked at the instant of the run are those of
	// the schedule in force, read by the wall clock in its zone.
	judgeNow := func(step int, n *c18lNow, what string) {
		loc, lerr := c18hLoc(exp.zone)
		if lerr != nil || !c18lSameMinute(loc, n.t1, n.t2) {
			return
		}
		paused := c18hWall(loc, exp.ranges, n.t1)
		want := []string{}
		if !paused {
			want = c18lKnownOf(exp.ids)
		}
		lt := n.t1.In(loc)
		if n.t1.UTC().Weekday() != lt.Weekday() {
			classes["life-zone-other-weekday"] = true
		}
		if what == "restart" {
			if paused {
				classes["life-restart-paused"] = true
			} else if len(want) > 0 {
				classes["life-restart-active"] = true
			}
		}
		if !c18hSameIDs(want, n.applied) {
			rg := exp.ranges[int(lt.Weekday())]
			fail(step, fmt.Sprintf("after the %s the services blocked now are %q, the property says %q: in force since %s is {%s} with ids %q, and it is %s there (that day's pause %s-%s)",
				what, n.applied, want, exp.from, c18lSchedText(exp.zone, exp.ranges), exp.ids,
				lt.Format("Mon 15:04:05"), time.Duration(rg[0]), time.Duration(rg[1])), "life-now-"+what)
		}
	}

	observe := func(status int) (*c18hObs, *c18lDisk, *c18lNow) {
		o := c18hObserve(p.d, status, instants)
		return o, c18lReadDisk(p.snap), c18lApplyNow(p.d)
	}
	// the file's section is left out when it is textually the one of the
	// previous observation
	lastDisk := ""
	obsCoq := func(o *c18hObs, prev *c18hObs, dk *c18lDisk, n *c18lNow) string {
		disk := vfOpt("persisted_obs", false, "")
		if cur := dk.coq(); cur != lastDisk {
			disk, lastDisk = vfOpt("persisted_obs", true, cur), cur
		}
		return "(" + o.coq(prev) + ", " + disk + ", " + n.coq(o.zone, out) + ")"
	}

	prev, pdk, pn := observe(http.StatusOK)
	if prev.getOK && (prev.zone != in.zone || !prev.exact || prev.ranges != in.ranges) {
		fail(0, fmt.Sprintf("configured zone %q ranges %v, GET reports %q %v", in.zone, in.ranges, prev.zone, prev.ranges), "http-init-reported")
	}
	m, k := c18hMonitor(nil, nil, prev, instants)
	fail(0, m, k)
	if d := c18lDiskVsExpect(pdk, exp); d != "" {
		fail(0, "the configuration written at start-up "+d, "life-init-file")
	}
	judgeNow(0, pn, "start")
	obs0 := obsCoq(prev, nil, pdk, pn)

	coqSteps := make([]string, 0, len(steps))
	descSteps := make([]map[string]any, 0, len(steps))
	nontrivial := false
	sinceRestart := "" // the accepted requests since the last restart
	restarts := 0
	for i, st := range steps {
		if st.restart {
			restarts++
			disk := c18lReadDisk(p.snap)
			_, zerr := time.LoadLocation(disk.zone)
			p.d.Close()
			np, nerr := c18lRestart(p.snap, dataDir)
			switch sinceRestart {
			case "":
				classes["life-restart-no-request"] = true
			default:
				classes["life-"+sinceRestart+"-then-restart"] = true
				nontrivial = true
			}
			if restarts > 1 {
				classes["life-restart-again"] = true
			}
			sinceRestart = ""
			if nerr != nil {
				p = nil
				coqSteps = append(coqSteps, vfApp("LsRestart", vfBool(zerr == nil), vfOpt("life_obs", false, "")))
				descSteps = append(descSteps, map[string]any{"restart": "refused", "err": nerr.Error(), "file_blocked_services": fmt.Sprintf("%q {%s}", disk.ids, c18lSchedText(disk.zone, disk.ranges))})
				if c18hAllKnown(exp.ids) {
					fail(i+1, fmt.Sprintf("the restart is refused (%v) although every id in force (%q) is in the service table; file: ids %q {%s}",
						nerr, exp.ids, disk.ids, c18lSchedText(disk.zone, disk.ranges)), "life-restart-refused")
				} else {
					// Recorded, not judged: only the deprecated set endpoint
					// stores an id outside the table, and filtering.New
					// validates the ids.
					classes["life-restart-refused-unknown-id"] = true
				}
				break
			}
			p = np
			cur, dk, n := observe(http.StatusOK)
			if cur.panicked == "" && cur.getOK {
				if d := c18hSameSched(prev, cur); d != "" {
					fail(i+1, "the restart changed the pause schedule: "+d+fmt.Sprintf("; in force since %s is {%s}", exp.from, c18lSchedText(exp.zone, exp.ranges)), "life-restart-changed-schedule")
				}
				if !c18hSameIDs(cur.ids, prev.ids) {
					fail(i+1, fmt.Sprintf("the restart changed the ids %q to %q", prev.ids, cur.ids), "life-restart-changed-ids")
				}
			}
			m, k := c18hMonitor(nil, nil, cur, instants)
			fail(i+1, m, k)
			if d := c18lDiskVsExpect(dk, exp); d != "" {
				fail(i+1, "after the restart the configuration file "+d, "life-restart-file")
			}
			judgeNow(i+1, n, "restart")
			coqSteps = append(coqSteps, vfApp("LsRestart", vfBool(zerr == nil), vfOpt("life_obs", true, obsCoq(cur, prev, dk, n))))
			descSteps = append(descSteps, map[string]any{"restart": "ok", "get_zone": cur.zone, "get_ids": cur.ids,
				"get_days_ns": fmt.Sprint(cur.ranges), "contains": fmt.Sprint(cur.probes), "applied_now": n.applied,
				"now": n.t1.UTC().Format(time.RFC3339)})
			prev = cur
			continue
		}

		op := st.op
		note(op.ids)
		h, method, path := c18lHandler(p.d, op.kind)
		w := httptest.NewRecorder()
		pan := ""
		savesBefore := p.saves
		func() {
			defer func() {
				if pv := recover(); pv != nil {
					pan = fmt.Sprint(pv)
				}
			}()
			h(w, httptest.NewRequest(method, path, strings.NewReader(op.body)))
		}()
		cur, dk, n := observe(w.Code)
		if pan != "" && cur.panicked == "" {
			cur.panicked = pan
		}
		m, k := c18hMonitor(op, prev, cur, instants)
		fail(i+1, m, k)
		if p.err != "" {
			fail(i+1, p.err, "life-encode")
		}
		classes[op.label] = true
		accepted := cur.status == http.StatusOK && op.want == http.StatusOK
		switch {
		case accepted && op.kind == "update":
			exp = &c18lExpect{zone: op.zone, ranges: op.ranges, ids: op.ids,
				from: fmt.Sprintf("step %d (PUT update %s, answered 200)", i+1, op.body)}
			sinceRestart = "update"
			classes["life-persisted-after-update"] = true
			if st.mode != "" {
				classes["life-update-"+st.mode] = true
			}
		case accepted && op.kind == "set":
			exp = &c18lExpect{zone: exp.zone, ranges: exp.ranges, ids: op.ids,
				from: exp.from + fmt.Sprintf(", ids since step %d (POST set %s)", i+1, op.body)}
			if sinceRestart == "" {
				sinceRestart = "set"
			}
			classes["life-persisted-after-set"] = true
		case cur.status != http.StatusOK:
			if p.saves != savesBefore {
				classes["life-rejected-wrote-file"] = true
			}
			if sinceRestart == "" {
				sinceRestart = "rejected"
			}
		}
		if d := c18lDiskVsExpect(dk, exp); d != "" {
			what := "after the request the configuration file (written by the ConfigModified callback of the last accepted request) "
			if cur.status != http.StatusOK {
				what = fmt.Sprintf("after the rejected request (status %d) the configuration file ", cur.status)
			}
			fail(i+1, what+d, "life-file-"+op.kind)
		}
		judgeNow(i+1, n, "request")
		coqSteps = append(coqSteps, vfApp("LsReq", op.coq, obsCoq(cur, prev, dk, n)))
		descSteps = append(descSteps, map[string]any{"req": method + " " + path, "body": op.body, "status": cur.status,
			"get_zone": cur.zone, "get_ids": cur.ids, "get_days_ns": fmt.Sprint(cur.ranges), "contains": fmt.Sprint(cur.probes),
			"file_blocked_services": fmt.Sprintf("%q {%s}", dk.ids, c18lSchedText(dk.zone, dk.ranges)),
			"applied_now": n.applied, "now": n.t1.UTC().Format(time.RFC3339)})
		prev = cur
		if p == nil {
			break
		}
	}

	kn := make([]string, 0, len(known))
	for id := range known {
		kn = append(kn, id)
	}
	sort.Strings(kn)
	initDays := make([]string, 7)
	for i, rg := range in.ranges {
		initDays[i] = vfPair(vfZ(rg[0]), vfZ(rg[1]))
	}
	cls := make([]string, 0, len(classes))
	for c := range classes {
		cls = append(cls, c)
	}
	sort.Strings(cls)
	ins := make([]string, len(instants))
	insCoq := make([]string, len(instants))
	for i, ti := range instants {
		ins[i] = ti.Format(time.RFC3339Nano)
		insCoq[i] = vfZ(ti.UnixNano())
	}
	out.Emit(vfCase{
		Coq: vfApp("C18.CLife", c18hCoqIDs(kn), c18hCoqIDs(in.ids), vfBytes(in.zone), vfList("Z * Z", initDays),
			vfList("Z", insCoq), obs0, vfList("life_step", coqSteps)),
		Nontrivial: nontrivial, Classes: cls,
		MonitorOK: monMsg == "", MonitorMsg: monMsg + monThen, FindingKey: monKey,
		Desc: map[string]any{"kind": "life-cycle-history", "init": in.how, "init_doc": in.doc, "init_zone": in.zone,
			"init_ids": in.ids, "init_ranges_ns": fmt.Sprint(in.ranges), "instants": ins, "steps": descSteps},
	})
}

// c18lInitAround: an initial configuration document whose schedule stands in
// the given relation to the current wall clock.
func c18lInitAround(r *vfRand, how, zone, mode string, ids []string) *c18hInit {
	loc, err := c18hLoc(zone)
	if err != nil {
		loc, zone = time.UTC, "UTC"
	}
	return &c18hInit{how: how, zone: zone, ranges: c18lAround(r, loc, time.Now(), mode), ids: ids}
}

func c18lLifeHistories(t *testing.T, out *vfOut, pool, unknown []string) {
	a, b := pool[0], pool[1]
	restart := c18lStep{restart: true}
	req := func(op *c18hOp) c18lStep { return c18lStep{op: op} }

	// ---- prelude (seed-independent): one constructed history per class
	pr := vfNewRand(181806)
	mustUpd := func(sc *c18hSched, mode string, ids []string, label string) c18lStep {
		op, ok := c18hUpdate(pr, sc, mode, ids, label)
		if !ok {
			t.Fatalf("life prelude update not usable: %+v", sc)
		}
		return req(op)
	}
	empty := func() *c18hInit { return &c18hInit{how: "empty", zone: "Local", ids: []string{}} }

	// the scenario of seeded change C18-L: block a service with no pause, then
	// pause it all week in a zone with a half-hour offset, then restart
	c18lRunHistory(t, out, pr, empty(), []c18lStep{
		mustUpd(c18hValidSched(pr, "UTC", [7][2]int64{}), "doc", []string{a}, "http-update-ok"),
		mustUpd(c18hValidSched(pr, "Asia/Kolkata", c18hWeek(0, c18hDayNs)), "doc", []string{a}, "http-update-ok"),
		restart, req(c18hGet())})
	// a pause around the current wall clock (not a constant week), restart
	c18lRunHistory(t, out, pr, empty(), []c18lStep{
		c18lUpdateAround(pr, "Asia/Kathmandu", "paused", []string{a, b}), restart})
	c18lRunHistory(t, out, pr, c18lInitAround(pr, "yaml", "America/St_Johns", "paused", []string{a}), []c18lStep{
		c18lUpdateAround(pr, "Pacific/Apia", "active", []string{b}), restart, req(c18hGet())})
	for _, zn := range []string{"Pacific/Kiritimati", "Pacific/Pago_Pago"} {
		c18lRunHistory(t, out, pr, empty(), []c18lStep{
			c18lUpdateAround(pr, zn, "empty-today", []string{a}), restart,
			c18lUpdateAround(pr, zn, "full-today", []string{a}), restart})
	}
	// ids through the deprecated endpoint, schedule kept across the restart
	c18lRunHistory(t, out, pr, empty(), []c18lStep{
		c18lUpdateAround(pr, "Europe/Berlin", "paused", []string{a}), req(c18hSet([]string{b})), restart,
		req(c18hSet([]string{a, b})), restart})
	c18lRunHistory(t, out, pr, c18lInitAround(pr, "json", "Etc/GMT+5", "active", []string{a}), []c18lStep{
		req(c18hSet([]string{b})), restart})
	// a rejected update, restart: the configured schedule stays
	{
		sc := c18hValidSched(pr, "Europe/London", c18hWeek(0, c18hDayNs))
		sc.days[2] = &[2]string{"7200000", "3600000"}
		c18lRunHistory(t, out, pr, c18lInitAround(pr, "yaml", "America/New_York", "active", []string{a}), []c18lStep{
			mustUpd(sc, "doc", []string{a}, "http-update-bad-schedule"), restart})
		c18lRunHistory(t, out, pr, c18lInitAround(pr, "yaml", "Asia/Kolkata", "paused", []string{a}), []c18lStep{
			mustUpd(c18hValidSched(pr, "UTC", [7][2]int64{}), "doc", []string{a, "verif_unknown_svc"}, "http-update-bad-id"),
			req(c18hBadSet(pr)), req(c18hBadUpdate(pr)), restart})
	}
	// an update without a schedule member (empty week, Local), restart
	c18lRunHistory(t, out, pr, &c18hInit{how: "full", zone: "Local", ranges: c18hWeek(0, c18hDayNs), ids: []string{b}}, []c18lStep{
		mustUpd(nil, "none", []string{a}, "http-update-no-schedule"), restart})
	// restart with no request at all, twice
	c18lRunHistory(t, out, pr, c18lInitAround(pr, "json", "America/Argentina/Buenos_Aires", "paused", []string{a, b}),
		[]c18lStep{restart, restart, req(c18hGet())})
	// an id outside the service table through the deprecated endpoint: the
	// restart is refused (recorded, not judged)
	c18lRunHistory(t, out, pr, empty(), []c18lStep{
		c18lUpdateAround(pr, "Etc/GMT-14", "paused", []string{a}), req(c18hSet([]string{"verif_unknown_svc", a})), restart})
	// several updates and restarts
	c18lRunHistory(t, out, pr, empty(), []c18lStep{
		c18lUpdateAround(pr, "Australia/Lord_Howe", "active", []string{a}), restart,
		c18lUpdateAround(pr, "UTC", "paused", []string{b}), c18lUpdateAround(pr, "Local", "active", []string{a, b}), restart,
		req(c18hSet([]string{})), restart, c18lUpdateAround(pr, "Asia/Kolkata", "none", []string{a}), restart})

	// ---- random histories
	rnd := vfNewRand(out.Seed).Fork(1806)
	n := out.Scale(40, 600)
	for i := 0; i < n; i++ {
		r := rnd.Fork(uint64(i))
		var in *c18hInit
		if r.Chance(1, 3) {
			in = c18hRandInit(r, pool)
		} else {
			in = c18lInitAround(r, vfPick(r, []string{"yaml", "json"}), vfPick(r, c18lZones), vfPick(r, c18lModes), c18hRandIDs(r, pool, nil, false))
		}
		steps := make([]c18lStep, 0, 9)
		for j, m := 0, 2+r.Intn(6); j < m; j++ {
			k := r.Intn(100)
			switch {
			case k < 40:
				steps = append(steps, c18lUpdateAround(r, vfPick(r, c18lZones), vfPick(r, c18lModes), c18hRandIDs(r, pool, nil, false)))
			case k < 52:
				steps = append(steps, req(c18hSet(c18hRandIDs(r, pool, unknown, r.Chance(1, 8)))))
			case k < 72:
				op := c18hRandOp(r, pool, unknown)
				if op.kind == "set" && !c18hAllKnown(op.ids) && !r.Chance(1, 4) {
					op = c18hGet()
				}
				steps = append(steps, req(op))
			default:
				steps = append(steps, restart)
			}
		}
		steps = append(steps, restart)
		if r.Chance(1, 3) {
			steps = append(steps, req(c18hGet()))
		}
		c18lRunHistory(t, out, r, in, steps)
	}
}

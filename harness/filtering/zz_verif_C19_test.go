//go:build verif

package filtering

import (
	"crypto/sha256"
	"encoding/hex"
	"fmt"
	"sort"
	"strings"
	"testing"
	"time"

	"github.com/AdguardTeam/AdGuardHome/internal/filtering/hashprefix"
	"github.com/miekg/dns"
	"golang.org/x/net/publicsuffix"
)

// Correspondence harness for the caller's side of C19: a name, in any
// spelling of its letters, goes through DNSFilter.CheckHost to the real
// safe-browsing / parental-control Checker (fresh, so every check is a
// lookup); observed are the question sent to the lookup service and the
// verdict.  The model lower-cases the name (the caller's part) and runs the
// same check the hashprefix harness ties to the Checker.

type c19vUpstream struct {
	suffix string
	db     []string
	lastQ  string
	asked  int
}

func (u *c19vUpstream) Address() string { return "verif" }
func (u *c19vUpstream) Close() error    { return nil }
func (u *c19vUpstream) Exchange(req *dns.Msg) (*dns.Msg, error) {
	u.asked++
	u.lastQ = req.Question[0].Name
	want := map[string]bool{}
	for _, l := range strings.Split(strings.TrimSuffix(u.lastQ, u.suffix), ".") {
		if len(l) >= 4 {
			want[strings.ToLower(l[:4])] = true
		}
	}
	resp := (&dns.Msg{}).SetReply(req)
	txt := &dns.TXT{Hdr: dns.RR_Header{Name: u.lastQ, Rrtype: dns.TypeTXT, Class: dns.ClassINET}}
	for _, s := range u.db {
		if len(s) >= 4 && !want[strings.ToLower(s[:4])] {
			continue
		}
		txt.Txt = append(txt.Txt, s)
	}
	resp.Answer = append(resp.Answer, txt)
	return resp, nil
}

type c19vCase struct {
	Host      string   `json:"host"`
	Filtering bool     `json:"filtering_enabled"`
	Parental  bool     `json:"parental"`
	DB        []string `json:"db"`
}

func c19vSubnames(host string) (names []string) {
	names = append(names, host)
	for i := 0; i < len(host); i++ {
		if host[i] == '.' {
			names = append(names, host[i+1:])
		}
	}
	return names
}

// c19vEnum: the names the property allows to be hashed, for a lower-case
// host without empty labels.
func c19vEnum(host string) (names []string) {
	ps, icann := publicsuffix.PublicSuffix(host)
	labels := strings.Split(host, ".")
	if len(labels) > 4 {
		labels = labels[len(labels)-4:]
	}
	for i := range labels {
		n := strings.Join(labels[i:], ".")
		if icann && (n == ps || strings.HasSuffix(ps, "."+n)) {
			continue
		}
		names = append(names, n)
	}
	return names
}

func c19vRun(t *testing.T, out *vfOut, c c19vCase) {
	suffix := "sb.dns.adguard.com."
	if c.Parental {
		suffix = "pc.dns.adguard.com."
	}
	ups := &c19vUpstream{suffix: suffix, db: c.DB}
	chk := hashprefix.New(&hashprefix.Config{Upstream: ups, ServiceName: "verif", TXTSuffix: suffix, CacheTime: time.Hour, CacheSize: 0})
	conf := &Config{FilteringEnabled: true, DataDir: t.TempDir()}
	if c.Parental {
		conf.ParentalControlChecker, conf.ParentalEnabled = chk, true
	} else {
		conf.SafeBrowsingChecker, conf.SafeBrowsingEnabled = chk, true
	}
	d, err := New(conf, nil)
	if err != nil {
		t.Fatal(err)
	}
	defer d.Close()
	res, cerr := d.CheckHost(c.Host, dns.TypeA, &Settings{
		FilteringEnabled: c.Filtering, ProtectionEnabled: true,
		SafeBrowsingEnabled: !c.Parental, ParentalEnabled: c.Parental,
	})
	blocked := cerr == nil && ((c.Parental && res.Reason == FilteredParental) || (!c.Parental && res.Reason == FilteredSafeBrowsing))

	low := strings.ToLower(c.Host)
	classes := []string{"via-checkhost"}
	if c.Filtering {
		classes = append(classes, "via-filtering-on")
	} else {
		classes = append(classes, "via-filtering-off")
	}
	if c.Parental {
		classes = append(classes, "via-parental")
	} else {
		classes = append(classes, "via-safebrowsing")
	}
	if low != c.Host {
		classes = append(classes, "via-mixed-case")
	}
	if blocked {
		classes = append(classes, "via-blocked")
	}

	// Monitor: only prefixes of the lower-case enumerated names leave, and
	// the name is blocked exactly when the service holds one of their hashes.
	monOK, monMsg, monKey := true, "", ""
	bad := func(key, msg string) {
		if monOK {
			monOK, monMsg, monKey = false, msg, key
		}
	}
	enum := c19vEnum(low)
	var wantQ strings.Builder
	want := false
	held := map[string]bool{}
	for _, s := range c.DB {
		if b, derr := hex.DecodeString(s); derr == nil && len(s) == 64 {
			held[string(b)] = true
		}
	}
	for _, n := range enum {
		h := sha256.Sum256([]byte(n))
		wantQ.WriteString(hex.EncodeToString(h[:2]) + ".")
		if held[string(h[:])] {
			want = true
		}
	}
	wantQ.WriteString(suffix)
	switch {
	case cerr != nil:
		bad("C19/checkhost-error", fmt.Sprintf("CheckHost(%q): %v", c.Host, cerr))
	case len(enum) > 0 && (ups.asked != 1 || ups.lastQ != wantQ.String()):
		bad("C19/caller-question", fmt.Sprintf("CheckHost(%q, filtering=%v): question %q asked %d times, want %q once (prefixes of the lower-case names %v)", c.Host, c.Filtering, ups.lastQ, ups.asked, wantQ.String(), enum))
	case blocked != want:
		bad("C19/caller-verdict", fmt.Sprintf("CheckHost(%q, filtering=%v): blocked %v, but the service holds a hash of %v: %v", c.Host, c.Filtering, blocked, enum, want))
	}

	// Tables for the model: sha256 and public suffix of the lower-case names.
	var shaT, psT, db []string
	for _, n := range c19vSubnames(low) {
		h := sha256.Sum256([]byte(n))
		shaT = append(shaT, vfPair(vfBytes(n), vfBytes(string(h[:]))))
	}
	ps, icann := publicsuffix.PublicSuffix(low)
	psT = append(psT, vfPair(vfBytes(low), vfPair(vfBytes(ps), vfBool(icann))))
	for _, s := range c.DB {
		db = append(db, vfBytes(s))
	}
	sort.Strings(classes)
	out.Emit(vfCase{
		Coq: vfApp("CaseVia", vfBytes(suffix), vfList("list N * list N", shaT), vfList("list N * (list N * bool)", psT),
			vfList("list N", db), vfBytes(c.Host), vfOpt("list N", ups.asked > 0, vfBytes(ups.lastQ)), vfBool(blocked)),
		Nontrivial: low != c.Host || blocked,
		Classes:    classes,
		MonitorOK:  monOK,
		MonitorMsg: monMsg,
		FindingKey: monKey,
		Desc:       c,
	})
}

// c19vSpell changes the case of some letters.
func c19vSpell(r *vfRand, s string) string {
	b := []byte(s)
	for i := range b {
		if b[i] >= 'a' && b[i] <= 'z' && r.Chance(1, 2) {
			b[i] -= 32
		}
	}
	return string(b)
}

func TestVerifC19(t *testing.T) {
	out := vfOpen(t, "C19")
	defer out.Close()
	hx := func(n string) string { h := sha256.Sum256([]byte(n)); return hex.EncodeToString(h[:]) }

	// Prelude: the listed name in lower, upper and mixed case, rule-list
	// filtering on and off, both services; an upper-case ICANN suffix.
	for _, host := range []string{"www.malware.example.org", "WWW.MalWare.Example.ORG", "WWW.MALWARE.EXAMPLE.ORG", "Shop.Co.UK", "a.B.c.D.e.Evil.COM", "clean.example.NET"} {
		for _, filt := range []bool{true, false} {
			for _, par := range []bool{false, true} {
				c19vRun(t, out, c19vCase{Host: host, Filtering: filt, Parental: par,
					DB: []string{hx("malware.example.org"), hx("shop.co.uk"), hx("evil.com"), hx("ORG"), hx("org"), hx("MalWare.Example.ORG")}})
			}
		}
	}

	r := vfNewRand(out.Seed)
	labels := []string{"www", "mail", "evil", "good", "shop", "a", "b", "cdn", "x1"}
	tlds := []string{"com", "org", "net", "co.uk", "blogspot.com", "lan", "pvt.k12.ma.us", "example"}
	n := out.Scale(150, 2000)
	for i := 0; i < n; i++ {
		rr := r.Fork(uint64(i))
		var ls []string
		for k := int(rr.Range(1, 5)); k > 0; k-- {
			ls = append(ls, vfPick(rr, labels))
		}
		low := strings.Join(ls, ".") + "." + vfPick(rr, tlds)
		var db []string
		for _, s := range c19vSubnames(low) {
			if rr.Chance(1, 4) {
				db = append(db, hx(s))
			}
			if rr.Chance(1, 6) {
				// the hash of a mixed-case spelling is no hash of the name
				db = append(db, hx(c19vSpell(rr, s)))
			}
		}
		host := low
		if rr.Chance(4, 5) {
			host = c19vSpell(rr, low)
		}
		c19vRun(t, out, c19vCase{Host: host, Filtering: rr.Chance(1, 2), Parental: rr.Chance(1, 2), DB: db})
	}
}

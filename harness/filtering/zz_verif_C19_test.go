//go:build verif

package filtering

import (
	"crypto/sha256"
	"encoding/hex"
	"errors"
	"fmt"
	"sort"
	"strconv"
	"strings"
	"testing"
	"time"

	"github.com/AdguardTeam/AdGuardHome/internal/filtering/hashprefix"
	"github.com/miekg/dns"
	"golang.org/x/net/publicsuffix"
)

// Correspondence harness for the caller's side of C19: a name, in any
// spelling of its letters, goes through DNSFilter.CheckHost to the real
// safe-browsing / parental-control Checker (fresh, so every check is a
// lookup); observed are the question sent to the lookup service and the
// verdict.  The model lower-cases the name (the caller's part) and runs the
// same check the hashprefix harness ties to the Checker.

type c19vUpstream struct {
	suffix string
	db     []string
	lastQ  string
	asked  int
}

func (u *c19vUpstream) Address() string { return "verif" }
func (u *c19vUpstream) Close() error    { return nil }
func (u *c19vUpstream) Exchange(req *dns.Msg) (*dns.Msg, error) {
	u.asked++
	u.lastQ = req.Question[0].Name
	want := map[string]bool{}
	for _, l := range strings.Split(strings.TrimSuffix(u.lastQ, u.suffix), ".") {
		if len(l) >= 4 {
			want[strings.ToLower(l[:4])] = true
		}
	}
	resp := (&dns.Msg{}).SetReply(req)
	txt := &dns.TXT{Hdr: dns.RR_Header{Name: u.lastQ, Rrtype: dns.TypeTXT, Class: dns.ClassINET}}
	for _, s := range u.db {
		if len(s) >= 4 && !want[strings.ToLower(s[:4])] {
			continue
		}
		txt.Txt = append(txt.Txt, s)
	}
	resp.Answer = append(resp.Answer, txt)
	return resp, nil
}

// c19QTypes: the question types every generated request is drawn from
// (round 6): the three the blocking host is an answer to, the other common
// ones, ANY and a private-use number.
var c19QTypes = []uint16{dns.TypeA, dns.TypeAAAA, dns.TypeHTTPS, dns.TypeTXT, dns.TypeMX, dns.TypeCNAME,
	dns.TypeSRV, dns.TypeSVCB, dns.TypeNS, dns.TypePTR, dns.TypeANY, 65280}

func c19QTypeName(qt uint16) string {
	if n, ok := dns.TypeToString[qt]; ok {
		return n
	}
	return fmt.Sprintf("TYPE%d", qt)
}

// c19QTNext hands out the types in turn to the constructed (seed-independent)
// requests that do not name one.
var c19QTCount int

func c19QTNext() uint16 {
	c19QTCount++
	return c19QTypes[c19QTCount%len(c19QTypes)]
}

type c19vCase struct {
	QType     uint16   `json:"qtype"`
	Host      string   `json:"host"`
	Filtering bool     `json:"filtering_enabled"`
	Parental  bool     `json:"parental"`
	DB        []string `json:"db"`
}

func c19vSubnames(host string) (names []string) {
	names = append(names, host)
	for i := 0; i < len(host); i++ {
		if host[i] == '.' {
			names = append(names, host[i+1:])
		}
	}
	return names
}

// c19vEnum: the names the property allows to be hashed, for a lower-case
// host without empty labels.
func c19vEnum(host string) (names []string) {
	ps, icann := publicsuffix.PublicSuffix(host)
	labels := strings.Split(host, ".")
	if len(labels) > 4 {
		labels = labels[len(labels)-4:]
	}
	for i := range labels {
		n := strings.Join(labels[i:], ".")
		if icann && (n == ps || strings.HasSuffix(ps, "."+n)) {
			continue
		}
		names = append(names, n)
	}
	return names
}

func c19vRun(t *testing.T, out *vfOut, c c19vCase) {
	suffix := "sb.dns.adguard.com."
	if c.Parental {
		suffix = "pc.dns.adguard.com."
	}
	ups := &c19vUpstream{suffix: suffix, db: c.DB}
	chk := hashprefix.New(&hashprefix.Config{Upstream: ups, ServiceName: "verif", TXTSuffix: suffix, CacheTime: time.Hour, CacheSize: 0})
	conf := &Config{FilteringEnabled: true, DataDir: t.TempDir()}
	if c.Parental {
		conf.ParentalControlChecker, conf.ParentalEnabled = chk, true
	} else {
		conf.SafeBrowsingChecker, conf.SafeBrowsingEnabled = chk, true
	}
	d, err := New(conf, nil)
	if err != nil {
		t.Fatal(err)
	}
	defer d.Close()
	if c.QType == 0 {
		c.QType = c19QTNext()
	}
	res, cerr := d.CheckHost(c.Host, c.QType, &Settings{
		FilteringEnabled: c.Filtering, ProtectionEnabled: true,
		SafeBrowsingEnabled: !c.Parental, ParentalEnabled: c.Parental,
	})
	blocked := cerr == nil && ((c.Parental && res.Reason == FilteredParental) || (!c.Parental && res.Reason == FilteredSafeBrowsing))

	low := strings.ToLower(c.Host)
	classes := []string{"via-checkhost", "via-qtype-" + c19QTypeName(c.QType)}
	if c.Filtering {
		classes = append(classes, "via-filtering-on")
	} else {
		classes = append(classes, "via-filtering-off")
	}
	if c.Parental {
		classes = append(classes, "via-parental")
	} else {
		classes = append(classes, "via-safebrowsing")
	}
	if low != c.Host {
		classes = append(classes, "via-mixed-case")
	}
	if blocked {
		classes = append(classes, "via-blocked")
	}

	// Monitor: only prefixes of the lower-case enumerated names leave, and
	// the name is blocked exactly when the service holds one of their hashes.
	monOK, monMsg, monKey := true, "", ""
	bad := func(key, msg string) {
		if monOK {
			monOK, monMsg, monKey = false, msg, key
		}
	}
	enum := c19vEnum(low)
	var wantQ strings.Builder
	want := false
	held := map[string]bool{}
	for _, s := range c.DB {
		if b, derr := hex.DecodeString(s); derr == nil && len(s) == 64 {
			held[string(b)] = true
		}
	}
	for _, n := range enum {
		h := sha256.Sum256([]byte(n))
		wantQ.WriteString(hex.EncodeToString(h[:2]) + ".")
		if held[string(h[:])] {
			want = true
		}
	}
	wantQ.WriteString(suffix)
	switch {
	case cerr != nil:
		bad("C19/checkhost-error", fmt.Sprintf("CheckHost(%q, %s): %v", c.Host, c19QTypeName(c.QType), cerr))
	case want && !blocked:
		bad("C19/listed-name-not-blocked", fmt.Sprintf("CheckHost(%q, %s, filtering=%v): not blocked although the service lists one of the names %v enumerated for the host; questions sent: %d (%q)", c.Host, c19QTypeName(c.QType), c.Filtering, enum, ups.asked, ups.lastQ))
	case len(enum) > 0 && (ups.asked != 1 || ups.lastQ != wantQ.String()):
		bad("C19/caller-question", fmt.Sprintf("CheckHost(%q, "+c19QTypeName(c.QType)+", filtering=%v): question %q asked %d times, want %q once (prefixes of the lower-case names %v)", c.Host, c.Filtering, ups.lastQ, ups.asked, wantQ.String(), enum))
	case blocked != want:
		bad("C19/caller-verdict", fmt.Sprintf("CheckHost(%q, "+c19QTypeName(c.QType)+", filtering=%v): blocked %v, but the service holds a hash of %v: %v", c.Host, c.Filtering, blocked, enum, want))
	}

	// Tables for the model: sha256 and public suffix of the lower-case names.
	var shaT, psT, db []string
	for _, n := range c19vSubnames(low) {
		h := sha256.Sum256([]byte(n))
		shaT = append(shaT, vfPair(vfBytes(n), vfBytes(string(h[:]))))
	}
	ps, icann := publicsuffix.PublicSuffix(low)
	psT = append(psT, vfPair(vfBytes(low), vfPair(vfBytes(ps), vfBool(icann))))
	for _, s := range c.DB {
		db = append(db, vfBytes(s))
	}
	sort.Strings(classes)
	out.Emit(vfCase{
		Coq: vfApp("CaseVia", vfBytes(suffix), vfList("list N * list N", shaT), vfList("list N * (list N * bool)", psT),
			vfList("list N", db), vfBytes(c.Host), vfOpt("list N", ups.asked > 0, vfBytes(ups.lastQ)), vfBool(blocked)),
		Nontrivial: low != c.Host || blocked,
		Classes:    classes,
		MonitorOK:  monOK,
		MonitorMsg: monMsg,
		FindingKey: monKey,
		Desc:       c,
	})
}

// c19vSpell changes the case of some letters.
func c19vSpell(r *vfRand, s string) string {
	b := []byte(s)
	for i := range b {
		if b[i] >= 'a' && b[i] <= 'z' && r.Chance(1, 2) {
			b[i] -= 32
		}
	}
	return string(b)
}

func TestVerifC19(t *testing.T) {
	out := vfOpen(t, "C19")
	defer out.Close()
	hx := func(n string) string { h := sha256.Sum256([]byte(n)); return hex.EncodeToString(h[:]) }

	// Prelude: the listed name in lower, upper and mixed case, rule-list
	// filtering on and off, both services; an upper-case ICANN suffix.
	for _, host := range []string{"www.malware.example.org", "WWW.MalWare.Example.ORG", "WWW.MALWARE.EXAMPLE.ORG", "Shop.Co.UK", "a.B.c.D.e.Evil.COM", "clean.example.NET"} {
		for _, filt := range []bool{true, false} {
			for _, par := range []bool{false, true} {
				c19vRun(t, out, c19vCase{Host: host, Filtering: filt, Parental: par,
					DB: []string{hx("malware.example.org"), hx("shop.co.uk"), hx("evil.com"), hx("ORG"), hx("org"), hx("MalWare.Example.ORG")}})
			}
		}
	}

	r := vfNewRand(out.Seed)
	labels := []string{"www", "mail", "evil", "good", "shop", "a", "b", "cdn", "x1"}
	tlds := []string{"com", "org", "net", "co.uk", "blogspot.com", "lan", "pvt.k12.ma.us", "example"}
	n := out.Scale(150, 2000)
	for i := 0; i < n; i++ {
		rr := r.Fork(uint64(i))
		var ls []string
		for k := int(rr.Range(1, 5)); k > 0; k-- {
			ls = append(ls, vfPick(rr, labels))
		}
		low := strings.Join(ls, ".") + "." + vfPick(rr, tlds)
		var db []string
		for _, s := range c19vSubnames(low) {
			if rr.Chance(1, 4) {
				db = append(db, hx(s))
			}
			if rr.Chance(1, 6) {
				// the hash of a mixed-case spelling is no hash of the name
				db = append(db, hx(c19vSpell(rr, s)))
			}
		}
		host := low
		if rr.Chance(4, 5) {
			host = c19vSpell(rr, low)
		}
		c19vRun(t, out, c19vCase{QType: vfPick(rr, c19QTypes), Host: host, Filtering: rr.Chance(1, 2), Parental: rr.Chance(1, 2), DB: db})
	}

	c19gAll(t, out)
}

// ---------------------------------------------------------------------------
// Round 5: the glue.  Which hosts reach Checker.Check at all, over the whole
// host space of the property (1..8 labels; ICANN, private-section and
// default-rule suffixes; names EQUAL to a suffix of either section; single
// labels; trailing dots, empty labels, the root query; mixed case), for every
// combination of the per-request switches.  One case = a short history of
// CheckHost calls through ONE DNSFilter with a real Checker per service, each
// on its own scripted upstream with its own database, behind a wrapper that
// records what the glue called it with.

type c19gUpstream struct {
	suffix string
	db     []string
	fail   bool
	qs     []string
	failed int
}

func (u *c19gUpstream) Address() string { return "verif" }
func (u *c19gUpstream) Close() error    { return nil }
func (u *c19gUpstream) Exchange(req *dns.Msg) (*dns.Msg, error) {
	q := req.Question[0].Name
	u.qs = append(u.qs, q)
	if u.fail {
		u.failed++
		return nil, errors.New("verif: scripted upstream failure")
	}
	want := map[string]bool{}
	for _, l := range strings.Split(strings.TrimSuffix(q, u.suffix), ".") {
		if len(l) >= 4 {
			want[strings.ToLower(l[:4])] = true
		}
	}
	resp := (&dns.Msg{}).SetReply(req)
	txt := &dns.TXT{Hdr: dns.RR_Header{Name: q, Rrtype: dns.TypeTXT, Class: dns.ClassINET}}
	for _, s := range u.db {
		if len(s) >= 4 && !want[strings.ToLower(s[:4])] {
			continue
		}
		txt.Txt = append(txt.Txt, s)
	}
	resp.Answer = append(resp.Answer, txt)
	return resp, nil
}

// c19gChecker records what the glue hands to the real Checker.
type c19gChecker struct {
	inner   Checker
	calls   []string
	blocked []bool
	errs    []error
}

func (c *c19gChecker) Check(host string) (block bool, err error) {
	c.calls = append(c.calls, host)
	block, err = c.inner.Check(host)
	c.blocked, c.errs = append(c.blocked, block), append(c.errs, err)
	return block, err
}

type c19gReq struct {
	// QType is the type of the question handed to CheckHost; 0 = the next one
	// of c19QTypes in turn.
	QType      uint16 `json:"qtype"`
	Host       string `json:"host"`
	Protection bool   `json:"protection_enabled"`
	Filtering  bool   `json:"filtering_enabled"`
	SB         bool   `json:"safebrowsing_enabled"`
	PC         bool   `json:"parental_enabled"`
	// FromConf: the settings are what DNSFilter.Settings() derives from the
	// configuration (as dnsforward and the check_host handler do) plus
	// ProtectionEnabled; SB, PC and Filtering are then the configuration's.
	FromConf bool `json:"settings_from_conf"`
	FailSB   bool `json:"fail_sb,omitempty"`
	FailPC   bool `json:"fail_pc,omitempty"`
}

type c19gCase struct {
	Note                     string    `json:"note,omitempty"`
	ConfSB, ConfPC, ConfFilt bool      `json:"-"`
	DBSB                     []string  `json:"db_safebrowsing"`
	DBPC                     []string  `json:"db_parental"`
	ListedSB                 []string  `json:"listed_safebrowsing,omitempty"`
	ListedPC                 []string  `json:"listed_parental,omitempty"`
	Reqs                     []c19gReq `json:"requests"`
}

// c19gB packs a byte string seven bytes to a primitive integer (Run/C19.v ub).
func c19gB(s string) string {
	if len(s) == 0 {
		return "(@nil N)"
	}
	var b strings.Builder
	b.WriteString("(ub ")
	n := 0
	for i := 0; i < len(s); i += 7 {
		j := i + 7
		if j > len(s) {
			j = len(s)
		}
		var w uint64
		for k := j - 1; k >= i; k-- {
			w = w<<8 | uint64(s[k])
		}
		w = w<<3 | uint64(j-i)
		b.WriteString("(IC ")
		b.WriteString(strconv.FormatUint(w, 10))
		b.WriteString(" ")
		n++
	}
	b.WriteString("I0")
	b.WriteString(strings.Repeat(")", n+1))
	return b.String()
}

func c19gWellFormed(h string) bool {
	if h == "" {
		return false
	}
	for _, l := range strings.Split(h, ".") {
		if l == "" {
			return false
		}
	}
	return true
}

func c19gUniq(ss []string) (res []string) {
	res = append(res, ss...)
	sort.Strings(res)
	n := 0
	for i, x := range res {
		if i == 0 || x != res[n-1] {
			res[n] = x
			n++
		}
	}
	return res[:n]
}

func c19gHex(n string) string  { h := sha256.Sum256([]byte(n)); return hex.EncodeToString(h[:]) }
func c19gPref(n string) string { return c19gHex(n)[:4] }

// c19gSection: how the pinned public-suffix table sees the host.
func c19gSection(low string) (section string, isSuffix bool) {
	ps, icann := publicsuffix.PublicSuffix(low)
	switch {
	case icann:
		section = "icann"
	case strings.Contains(ps, "."):
		section = "private"
	default:
		// A one-label suffix outside the ICANN section: the default rule "*".
		section = "default-rule"
	}
	return section, ps == low
}

func c19gRun(t *testing.T, out *vfOut, c c19gCase) {
	const sfxSB, sfxPC = "sb.dns.adguard.com.", "pc.dns.adguard.com."
	upSB := &c19gUpstream{suffix: sfxSB, db: c.DBSB}
	upPC := &c19gUpstream{suffix: sfxPC, db: c.DBPC}
	mk := func(u *c19gUpstream, sfx string) *c19gChecker {
		return &c19gChecker{inner: hashprefix.New(&hashprefix.Config{Upstream: u, ServiceName: "verif", TXTSuffix: sfx, CacheTime: time.Hour, CacheSize: 0})}
	}
	chkSB, chkPC := mk(upSB, sfxSB), mk(upPC, sfxPC)
	conf := &Config{
		FilteringEnabled: c.ConfFilt, DataDir: t.TempDir(),
		SafeBrowsingChecker: chkSB, SafeBrowsingEnabled: c.ConfSB,
		ParentalControlChecker: chkPC, ParentalEnabled: c.ConfPC,
	}
	d, err := New(conf, nil)
	if err != nil {
		t.Fatal(err)
	}
	defer d.Close()
	d.SetEnabled(c.ConfFilt)

	held := func(db []string) map[string]bool {
		m := map[string]bool{}
		for _, s := range db {
			if b, derr := hex.DecodeString(s); derr == nil && len(s) == 64 {
				m[string(b)] = true
			}
		}
		return m
	}
	heldSB, heldPC := held(c.DBSB), held(c.DBPC)
	listedIn := func(m map[string]bool, n string) bool { h := sha256.Sum256([]byte(n)); return m[string(h[:])] }

	classes := map[string]bool{"via-checkhost": true, "glue": true}
	monOK, monMsg, monKey := true, "", ""
	bad := func(key, msg string) {
		if monOK {
			monOK, monMsg, monKey = false, msg, key
		}
	}
	// The monitor's own account of what each Checker's cache can answer: the
	// prefixes of every question that was answered (unlimited cache, one hour
	// of cache time, a constant database).
	knownSB, knownPC := map[string]bool{}, map[string]bool{}
	shaNames, psNames := map[string]bool{}, map[string]bool{}
	var greqs []string
	nontrivial := false

	for ri := range c.Reqs {
		rq := &c.Reqs[ri]
		var setts *Settings
		if rq.FromConf {
			setts = d.Settings()
			setts.ProtectionEnabled = rq.Protection
			if setts.SafeBrowsingEnabled != c.ConfSB || setts.ParentalEnabled != c.ConfPC || setts.FilteringEnabled != c.ConfFilt {
				bad("C19/settings-from-conf", fmt.Sprintf("Settings() = %+v for a configuration with safe browsing %v, parental %v, filtering %v", *setts, c.ConfSB, c.ConfPC, c.ConfFilt))
			}
			rq.SB, rq.PC, rq.Filtering = setts.SafeBrowsingEnabled, setts.ParentalEnabled, setts.FilteringEnabled
			classes["glue-settings-from-conf"] = true
		} else {
			setts = &Settings{FilteringEnabled: rq.Filtering, ProtectionEnabled: rq.Protection, SafeBrowsingEnabled: rq.SB, ParentalEnabled: rq.PC}
		}
		upSB.fail, upPC.fail = rq.FailSB, rq.FailPC
		nSB, nPC, qSB, qPC, fSB, fPC := len(chkSB.calls), len(chkPC.calls), len(upSB.qs), len(upPC.qs), upSB.failed, upPC.failed
		if rq.QType == 0 {
			rq.QType = c19QTNext()
		}
		qtName := c19QTypeName(rq.QType)
		res, cerr := d.CheckHost(rq.Host, rq.QType, setts)
		callsSB, callsPC := chkSB.calls[nSB:], chkPC.calls[nPC:]
		asksSB, asksPC := upSB.qs[qSB:], upPC.qs[qPC:]
		upFailed := upSB.failed > fSB || upPC.failed > fPC

		reason := 0
		switch {
		case cerr != nil:
		case res.Reason == FilteredSafeBrowsing:
			reason = 1
		case res.Reason == FilteredParental:
			reason = 2
		case res.Reason != NotFilteredNotFound:
			reason = 9
		}

		low := strings.ToLower(rq.Host)
		wf := c19gWellFormed(low)
		var enum []string
		if wf {
			enum = c19vEnum(low)
		}
		sbOn := rq.Host != "" && rq.Protection && rq.SB
		pcOn := rq.Host != "" && rq.Protection && rq.PC

		// ---- classes
		if low != rq.Host {
			classes["via-mixed-case"] = true
		}
		switch {
		case rq.Host == "":
			classes["glue-host-root-query"] = true
		case !wf && strings.HasSuffix(low, ".") && c19gWellFormed(strings.TrimSuffix(low, ".")):
			classes["glue-host-trailing-dot"] = true
		case !wf:
			classes["glue-host-empty-label"] = true
		default:
			section, isSuffix := c19gSection(low)
			k := strings.Count(low, ".") + 1
			if k > 8 {
				k = 8
			}
			classes[fmt.Sprintf("glue-labels-%d-%s", k, section)] = true
			if isSuffix {
				classes["glue-host-is-"+section+"-suffix"] = true
				if k == 1 {
					classes["glue-host-single-label-"+section] = true
				}
			}
			if len(enum) == 0 {
				classes["glue-nothing-enumerated"] = true
				if !isSuffix {
					classes["glue-nothing-enumerated-host-not-a-suffix"] = true
				}
			}
			own, parent := false, false
			for i, n := range enum {
				if listedIn(heldSB, n) || listedIn(heldPC, n) {
					if i == 0 && n == low {
						own = true
					} else {
						parent = true
					}
				}
			}
			switch {
			case own:
				classes["glue-own-name-listed"] = true
			case parent:
				classes["glue-parent-listed"] = true
			case len(c.DBSB)+len(c.DBPC) > 0:
				classes["glue-only-unenumerated-names-listed"] = true
			default:
				classes["glue-nothing-listed"] = true
			}
			if isSuffix && section != "icann" && own && (reason == 1 || reason == 2) {
				classes["glue-non-icann-suffix-itself-blocked"] = true
			}
		}
		switch {
		case !rq.Protection:
			classes["glue-protection-off"] = true
		case rq.SB && rq.PC:
			classes["glue-both-services-on"] = true
		case rq.SB:
			classes["via-safebrowsing"] = true
		case rq.PC:
			classes["via-parental"] = true
		default:
			classes["glue-both-services-off"] = true
		}
		if rq.Filtering {
			classes["via-filtering-on"] = true
		} else {
			classes["via-filtering-off"] = true
		}
		if len(callsSB) > 0 && len(asksSB) == 0 || len(callsPC) > 0 && len(asksPC) == 0 {
			classes["glue-checker-called-nothing-asked"] = true
		}
		if reason == 1 && pcOn {
			classes["glue-safebrowsing-blocks-parental-not-asked"] = true
		}
		classes["glue-qtype-"+qtName] = true
		if reason == 1 || reason == 2 {
			classes["via-blocked"] = true
			classes["glue-qtype-"+qtName+"-blocked"] = true
			nontrivial = true
		}
		if len(callsSB)+len(callsPC) > 0 && rq.QType != dns.TypeA && rq.QType != dns.TypeAAAA && rq.QType != dns.TypeHTTPS {
			classes["glue-checker-called-for-non-address-qtype"] = true
		}
		if cerr != nil {
			classes["glue-upstream-error"] = true
		}
		if ri > 0 {
			classes["glue-later-request-of-history"] = true
		}
		if low != rq.Host || len(callsSB)+len(callsPC) > 0 {
			nontrivial = true
		}

		// ---- monitor
		who := fmt.Sprintf("request %d: CheckHost(%q, "+qtName+") with protection %v, safe browsing %v, parental %v, filtering %v", ri+1, rq.Host, rq.Protection, rq.SB, rq.PC, rq.Filtering)
		type svcT struct {
			name   string
			on     bool
			held   map[string]bool
			known  map[string]bool
			calls  []string
			asks   []string
			suffix string
			code   int
			fail   bool
		}
		svcs := []*svcT{
			{"safe browsing", sbOn, heldSB, knownSB, callsSB, asksSB, sfxSB, 1, rq.FailSB},
			{"parental control", pcOn, heldPC, knownPC, callsPC, asksPC, sfxPC, 2, rq.FailPC},
		}
		// the verdict the property asks for
		want, wantName := 0, ""
		for _, sv := range svcs {
			if want != 0 || !sv.on {
				continue
			}
			for _, n := range enum {
				if listedIn(sv.held, n) {
					want, wantName = sv.code, n
					break
				}
			}
		}
		switch {
		case reason == 9:
			bad("C19/caller-verdict", fmt.Sprintf("%s: reason %v", who, res.Reason))
		case cerr != nil && !upFailed:
			bad("C19/checkhost-error", fmt.Sprintf("%s: %v although no upstream failed", who, cerr))
		case cerr != nil:
		case wf && want != 0 && reason == 0:
			sv := svcs[want-1]
			how := "the checker was called"
			if len(sv.calls) == 0 {
				how = "the checker was never called"
			}
			bad("C19/listed-name-not-blocked", fmt.Sprintf("%s: not blocked although the %s service lists %q, one of the names %v enumerated for the host; %s, questions sent: %q", who, sv.name, wantName, enum, how, sv.asks))
		case wf && reason != want:
			bad("C19/caller-verdict", fmt.Sprintf("%s: reason code %d (1 safe browsing, 2 parental, 0 none), the databases and switches give %d (enumerated names %v)", who, reason, want, enum))
		case !wf && reason != 0:
			// names with empty labels: blocked only by a listed dot-aligned suffix
			sv, ok := svcs[reason-1], false
			for _, n := range c19vSubnames(low) {
				ok = ok || listedIn(sv.held, n)
			}
			if !ok || !sv.on {
				bad("C19/caller-verdict", fmt.Sprintf("%s: blocked by %s although it is off or lists no suffix of the name", who, sv.name))
			}
		}
		for _, sv := range svcs {
			switch {
			case len(sv.calls) > 1 || len(sv.asks) > 1:
				bad("C19/caller-question", fmt.Sprintf("%s: %s checker called %d times, %d questions", who, sv.name, len(sv.calls), len(sv.asks)))
			case len(sv.calls) == 1 && !sv.on:
				bad("C19/glue-asked-although-disabled", fmt.Sprintf("%s: the %s checker was called with %q", who, sv.name, sv.calls[0]))
			case len(sv.calls) == 1 && sv.calls[0] != low:
				bad("C19/glue-checker-argument", fmt.Sprintf("%s: the %s checker was called with %q, not with the lower-case name", who, sv.name, sv.calls[0]))
			case len(sv.calls) == 0 && len(sv.asks) > 0:
				bad("C19/caller-question", fmt.Sprintf("%s: %s question %q without a call of the checker", who, sv.name, sv.asks))
			}
			if len(sv.calls) != 1 {
				continue
			}
			// privacy clause: the question carries exactly the prefixes of the
			// enumerated names the cache cannot answer
			got := ""
			if len(sv.asks) == 1 {
				got = sv.asks[0]
			}
			if wf {
				fromCache := false
				var unknown []string
				for _, n := range enum {
					p := c19gPref(n)
					if sv.known[p] && listedIn(sv.held, n) {
						fromCache = true
					}
					if !sv.known[p] {
						unknown = append(unknown, p)
					}
				}
				wantQ := ""
				if !fromCache && len(unknown) > 0 {
					wantQ = strings.Join(unknown, ".") + "." + sv.suffix
				}
				// The labels as a set: two enumerated names with the same prefix
				// (round 6) give the label twice in the code's question, which is
				// the model's business, not the property's.
				sameLabels := got == wantQ
				if !sameLabels && got != "" && wantQ != "" && strings.HasSuffix(got, "."+sv.suffix) {
					gl := c19gUniq(strings.Split(strings.TrimSuffix(got, "."+sv.suffix), "."))
					sameLabels = strings.Join(gl, ".") == strings.Join(c19gUniq(unknown), ".")
				}
				if !sameLabels {
					bad("C19/caller-question", fmt.Sprintf("%s: %s question %q, want %q (prefixes of the enumerated names %v without a cache entry)", who, sv.name, got, wantQ, enum))
				}
				if len(c19gUniq(unknown)) < len(unknown) && got != "" {
					classes["glue-collision-in-chain"] = true
				}
				if got != "" && !sv.fail {
					for _, p := range unknown {
						sv.known[p] = true
					}
				}
				if ri > 0 && got == "" && len(enum) > 0 {
					classes["glue-answered-from-cache"] = true
				}
			} else if got != "" {
				allowed := map[string]bool{}
				for _, n := range c19vSubnames(low) {
					allowed[c19gPref(n)] = true
				}
				for _, l := range strings.Split(strings.TrimSuffix(got, "."+sv.suffix), ".") {
					if !allowed[l] {
						bad("C19/caller-question", fmt.Sprintf("%s: %s question %q has the label %q, no prefix of a dot-aligned suffix of the name", who, sv.name, got, l))
					}
					if !sv.fail {
						sv.known[l] = true
					}
				}
			}
		}

		// ---- the request for the model
		for _, n := range c19vSubnames(low) {
			shaNames[n] = true
		}
		psNames[low] = true
		seen := func(calls, asks []string) string {
			if len(calls) == 0 {
				return vfOpt("list N * option (list N)", false, "")
			}
			q := vfOpt("list N", len(asks) > 0, "")
			if len(asks) > 0 {
				q = vfOpt("list N", true, c19gB(asks[0]))
			}
			return vfOpt("list N * option (list N)", true, vfPair(c19gB(calls[0]), q))
		}
		greqs = append(greqs, vfApp("GReq", vfBool(rq.Protection), vfBool(rq.Filtering), vfBool(rq.SB), vfBool(rq.PC),
			vfZ(int64(rq.QType)), vfBool(rq.FailSB), vfBool(rq.FailPC), c19gB(rq.Host), seen(callsSB, asksSB), seen(callsPC, asksPC),
			vfZ(int64(reason)), vfBool(cerr != nil)))
	}

	// Tables: sha256 of every dot-aligned suffix of every lower-case host,
	// PublicSuffix (suffix, section flag) of every lower-case host: a name
	// that is a private-section suffix is in it with the flag false.
	var shaT, psT, dbSB, dbPC []string
	names := make([]string, 0, len(shaNames))
	for n := range shaNames {
		names = append(names, n)
	}
	sort.Strings(names)
	for _, n := range names {
		h := sha256.Sum256([]byte(n))
		shaT = append(shaT, vfPair(c19gB(n), c19gB(string(h[:]))))
	}
	names = names[:0]
	for n := range psNames {
		names = append(names, n)
	}
	sort.Strings(names)
	for _, n := range names {
		ps, icann := publicsuffix.PublicSuffix(n)
		psT = append(psT, vfPair(c19gB(n), vfPair(c19gB(ps), vfBool(icann))))
	}
	for _, s := range c.DBSB {
		dbSB = append(dbSB, c19gB(s))
	}
	for _, s := range c.DBPC {
		dbPC = append(dbPC, c19gB(s))
	}
	var cls []string
	for k := range classes {
		cls = append(cls, k)
	}
	sort.Strings(cls)
	out.Emit(vfCase{
		Coq: vfApp("CaseGlue", c19gB(sfxSB), c19gB(sfxPC), vfList("list N * list N", shaT),
			vfList("list N * (list N * bool)", psT), vfList("list N", dbSB), vfList("list N", dbPC), vfList("greq", greqs)),
		Nontrivial: nontrivial,
		Classes:    cls,
		MonitorOK:  monOK,
		MonitorMsg: monMsg,
		FindingKey: monKey,
		Desc:       c,
	})
}

// c19gPools: suffixes by the section the pinned table puts them in; checked
// against the table at run time (a suffix in the wrong pool stops the run).
var c19gPools = map[string][]string{
	"icann":        {"com", "org", "io", "co.uk", "foo.ck", "pvt.k12.ma.us"},
	"private":      {"github.io", "blogspot.com", "s3.amazonaws.com", "dyndns.org", "cloudfront.net"},
	"default-rule": {"intranet", "localhost", "lan", "corp"},
}

func c19gAll(t *testing.T, out *vfOut) {
	for sec, pool := range c19gPools {
		for _, s := range pool {
			got, isSuffix := c19gSection(s)
			if got != sec || !isSuffix {
				t.Fatalf("C19 glue harness: %q is expected to be a suffix of section %s; the pinned table says section %s, suffix itself: %v", s, sec, got, isSuffix)
			}
		}
	}
	on := func(host string) c19gReq { return c19gReq{Host: host, Protection: true, Filtering: true, SB: true} }
	hx := c19gHex

	// ---- Prelude 1: names EQUAL to a suffix of either section, single
	// labels, odd names; the name itself listed; each service alone and both.
	for _, host := range []string{
		"github.io", "GitHub.IO", "blogspot.com", "s3.amazonaws.com", "dyndns.org", "cloudfront.net",
		"intranet", "LocalHost", "lan",
		"com", "io", "co.uk", "foo.ck", "pvt.k12.ma.us", "ck",
		"www.ck", "x.foo.ck", "evil.pvt.k12.ma.us", "a.evil.pvt.k12.ma.us", "x.github.io", "a.b.c.d.github.io",
		"github.io.", "example.com.", "com.", "a..com", ".com", ".", "",
	} {
		low := strings.ToLower(host)
		for mode := 0; mode < 4; mode++ {
			c := c19gCase{Note: "suffix itself / single label / odd name, own name listed", DBSB: []string{hx(low)}, DBPC: []string{hx(low)}, ListedSB: []string{low}, ListedPC: []string{low}}
			rq := c19gReq{Host: host, Protection: true, Filtering: mode%2 == 0}
			switch mode {
			case 0:
				rq.SB = true
			case 1:
				rq.PC = true
			case 2:
				rq.SB, rq.PC = true, true
				c.DBSB, c.ListedSB = nil, nil
			case 3:
				c.ConfSB, c.ConfPC, c.ConfFilt = true, false, true
				rq.FromConf = true
			}
			// asked twice: the second answer comes from the cache
			c.Reqs = []c19gReq{rq, rq}
			c19gRun(t, out, c)
		}
	}

	// ---- Prelude 2: every number of labels 1..8 on every kind of suffix:
	// own name listed, a parent listed, only names outside the enumeration
	// listed (a child, the ICANN suffix, the name beyond the four-label cut).
	pre := []string{"a", "b", "c", "d", "e", "f", "g"}
	for _, sec := range []string{"icann", "private", "default-rule"} {
		for _, suf := range c19gPools[sec] {
			m := strings.Count(suf, ".") + 1
			for k := m; k <= 8; k++ {
				host := suf
				if k > m {
					host = strings.Join(pre[:k-m], ".") + "." + suf
				}
				enum := c19vEnum(host)
				// never enumerated: a child; the ICANN suffix itself; the whole
				// name when it is longer than the four-label cut
				outside := []string{"zz." + host}
				if sec == "icann" {
					outside = append(outside, suf)
				}
				if k > 4 {
					outside = append(outside, host)
				}
				cs := []c19gCase{{Note: "only names outside the enumeration listed", DBSB: c19gHexes(outside), ListedSB: outside, Reqs: []c19gReq{on(host)}}}
				if len(enum) > 0 {
					cs = append(cs,
						c19gCase{Note: "first enumerated name listed", DBSB: []string{hx(enum[0])}, ListedSB: enum[:1], Reqs: []c19gReq{on(host)}},
						c19gCase{Note: "last enumerated name listed, parental", DBPC: []string{hx(enum[len(enum)-1])}, ListedPC: enum[len(enum)-1:],
							Reqs: []c19gReq{{Host: host, Protection: true, PC: true}}})
				}
				for _, c := range cs {
					c19gRun(t, out, c)
				}
			}
		}
	}

	// ---- Prelude 3: the switches, for one listed ordinary name and one
	// listed private suffix: all sixteen settings; safe browsing blocks before
	// parental is asked; an upstream failure; the failure of one service does
	// not reach the other.
	for _, host := range []string{"www.evil.example.org", "github.io"} {
		db := []string{hx(host)}
		for bits := 0; bits < 16; bits++ {
			c19gRun(t, out, c19gCase{Note: "all settings", DBSB: db, DBPC: db, ListedSB: []string{host}, ListedPC: []string{host},
				Reqs: []c19gReq{{Host: host, Protection: bits&1 != 0, Filtering: bits&2 != 0, SB: bits&4 != 0, PC: bits&8 != 0}}})
		}
		both := c19gReq{Host: host, Protection: true, SB: true, PC: true}
		failSB, failPC := both, both
		failSB.FailSB, failPC.FailPC = true, true
		c19gRun(t, out, c19gCase{Note: "safe browsing fails, then answers", DBSB: db, DBPC: db, ListedSB: []string{host}, ListedPC: []string{host}, Reqs: []c19gReq{failSB, both, failSB}})
		c19gRun(t, out, c19gCase{Note: "parental fails, then answers", DBPC: db, ListedPC: []string{host}, Reqs: []c19gReq{failPC, both, failPC, both}})
		c19gRun(t, out, c19gCase{Note: "parental fails behind a blocking safe browsing", DBSB: db, DBPC: db, ListedSB: []string{host}, ListedPC: []string{host}, Reqs: []c19gReq{failPC, failPC}})
	}

	// ---- Prelude 4 (round 6): the type of the question.  A listed ordinary
	// name, a name whose parent is listed, a listed private suffix: every type
	// on a fresh DNSFilter (a fresh lookup each), safe browsing and parental;
	// then the types one after the other through ONE DNSFilter (the first is a
	// lookup, the others are answered from the cache), starting with an
	// address type and starting with TXT.
	for hi, hl := range [][2]string{{"www.evil.example.org", "www.evil.example.org"}, {"cdn.shop.example.net", "example.net"}, {"github.io", "github.io"}} {
		host, listed := hl[0], hl[1]
		db := []string{hx(listed)}
		for qi, qt := range c19QTypes {
			rq := c19gReq{QType: qt, Host: host, Protection: true, Filtering: qi%2 == 0, SB: true}
			c19gRun(t, out, c19gCase{Note: "every question type, fresh lookup", DBSB: db, ListedSB: []string{listed}, Reqs: []c19gReq{rq}})
			rq.SB, rq.PC = false, true
			c19gRun(t, out, c19gCase{Note: "every question type, fresh lookup, parental", DBPC: db, ListedPC: []string{listed}, Reqs: []c19gReq{rq}})
			if hi == 0 {
				// not listed: never blocked, whatever the type
				rq.SB = true
				c19gRun(t, out, c19gCase{Note: "every question type, nothing listed", DBSB: []string{hx("other.example")}, ListedSB: []string{"other.example"}, Reqs: []c19gReq{rq}})
			}
		}
		for start := 0; start < len(c19QTypes); start += 3 {
			var reqs []c19gReq
			for k := range c19QTypes {
				qt := c19QTypes[(start+k)%len(c19QTypes)]
				reqs = append(reqs, c19gReq{QType: qt, Host: host, Protection: true, Filtering: true, SB: hi != 1, PC: hi != 0})
			}
			c19gRun(t, out, c19gCase{Note: "the question types in turn through one DNSFilter", DBSB: db, DBPC: db, ListedSB: []string{listed}, ListedPC: []string{listed}, Reqs: reqs})
		}
	}

	// ---- Prelude 5 (round 6): a name whose hash shares its 2-byte prefix with
	// the hash of its own parent (checked here), the parent listed / the name
	// listed / neither; asked twice, different types.
	for _, pair := range [][2]string{{"h86390.example.org", "example.org"}, {"h74882.github.io", "github.io"}, {"h34316.sub.example.org", "example.org"}} {
		host, parent := pair[0], pair[1]
		if c19gPref(host) != c19gPref(parent) {
			t.Fatalf("C19 glue harness: %q and %q were expected to share the hash prefix", host, parent)
		}
		for _, listed := range []string{parent, host, "zz." + host} {
			for _, svcPC := range []bool{false, true} {
				c := c19gCase{Note: "prefix collision inside the chain"}
				rq := c19gReq{Host: host, Protection: true, Filtering: true, SB: !svcPC, PC: svcPC}
				if svcPC {
					c.DBPC, c.ListedPC = []string{hx(listed)}, []string{listed}
				} else {
					c.DBSB, c.ListedSB = []string{hx(listed)}, []string{listed}
				}
				par := rq
				par.Host = parent
				c.Reqs = []c19gReq{rq, rq, par, rq}
				c19gRun(t, out, c)
			}
		}
	}

	// ---- Random histories.
	r := vfNewRand(out.Seed ^ 0x19c5)
	labels := []string{"www", "mail", "evil", "good", "shop", "a", "b", "cdn", "x1"}
	secs := []string{"icann", "private", "default-rule"}
	n := out.Scale(260, 5000)
	for i := 0; i < n; i++ {
		rr := r.Fork(uint64(i))
		c := c19gCase{ConfSB: rr.Bool(), ConfPC: rr.Bool(), ConfFilt: rr.Bool()}
		suf := vfPick(rr, c19gPools[vfPick(rr, secs)])
		m := strings.Count(suf, ".") + 1
		base := suf
		// 1 in 3: the suffix itself (a single label for the default rule)
		if !rr.Chance(1, 3) {
			var ls []string
			for k := int(rr.Range(1, int64(9-m))); k > 0; k-- {
				ls = append(ls, vfPick(rr, labels))
			}
			base = strings.Join(ls, ".") + "." + suf
		}
		// the database: each dot-aligned suffix of the base name, a child and
		// a mixed-case spelling, in either service
		cands := append(c19vSubnames(base), "zz."+base)
		for _, s := range cands {
			if rr.Chance(1, 4) {
				c.DBSB, c.ListedSB = append(c.DBSB, hx(s)), append(c.ListedSB, s)
			}
			if rr.Chance(1, 4) {
				c.DBPC, c.ListedPC = append(c.DBPC, hx(s)), append(c.ListedPC, s)
			}
			if rr.Chance(1, 10) {
				c.DBSB = append(c.DBSB, hx(c19vSpell(rr, s)))
			}
		}
		if rr.Chance(1, 8) {
			c.DBSB = append(c.DBSB, "zz"+hx(base)[2:], hx(base)[:40])
		}
		for k := int(rr.Range(1, 3)); k > 0; k-- {
			host := base
			switch rr.Intn(8) {
			case 0: // a parent of the base name
				subs := c19vSubnames(base)
				host = vfPick(rr, subs)
			case 1: // a child
				host = vfPick(rr, labels) + "." + base
			case 2: // trailing dot
				host = base + "."
			}
			if rr.Chance(2, 3) {
				host = c19vSpell(rr, host)
			}
			rq := c19gReq{QType: vfPick(rr, c19QTypes), Host: host, Protection: !rr.Chance(1, 6), Filtering: rr.Bool(), SB: rr.Chance(2, 3), PC: rr.Chance(1, 2)}
			if rr.Chance(1, 4) {
				rq.FromConf = true
			}
			if rr.Chance(1, 12) {
				rq.FailSB = true
			}
			if rr.Chance(1, 12) {
				rq.FailPC = true
			}
			c.Reqs = append(c.Reqs, rq)
		}
		c19gRun(t, out, c)
	}
}

func c19gHexes(names []string) (db []string) {
	for _, n := range names {
		db = append(db, c19gHex(n))
	}
	return db
}

//go:build verif

package filtering

import (
	"bytes"
	"encoding/json"
	"errors"
	"fmt"
	"io"
	"io/fs"
	"net/http"
	"net/http/httptest"
	"net/url"
	"os"
	"path"
	"path/filepath"
	"regexp"
	"sort"
	"strconv"
	"strings"
	"syscall"
	"testing"
	"time"

	"github.com/AdguardTeam/AdGuardHome/internal/filtering/rulelist"
	"github.com/AdguardTeam/golibs/netutil/urlutil"
)

// ---- C17: local files are read as filter lists only when matching safe patterns.

// c17Tree is the temporary file tree: marker files inside and outside the
// "safe" area.  The rule text of a marker file identifies it.
type c17Tree struct {
	root   string
	files  map[string]int // clean absolute path -> marker
	order  []string       // file paths, sorted
	dirs   []string       // directories (and other things that exist), incl. ancestors of root
	byMark map[int]string
	rel    []string // file paths relative to root, marker i+1
	mask   uint64   // which of c17HostExtras exist
}

// c17HostExtras are things outside the tree that may exist on the host and
// must never be read (Run/C17.v has the same list).
var c17HostExtras = []string{"/etc/passwd", "/etc/hostname", "/etc", "/proc/self/environ", "/proc/self", "/proc"}

func c17Content(m int) string { return fmt.Sprintf("||marker%d.example^\n", m) }

var c17MarkRe = regexp.MustCompile(`marker(\d+)\.example`)

func c17Marker(b []byte) int {
	if len(b) == 0 {
		return 0 // an empty list file counts as "nothing loaded"
	}
	m := c17MarkRe.FindSubmatch(b)
	if m == nil {
		return 999
	}
	n, _ := strconv.Atoi(string(m[1]))
	return n
}

func c17MakeTree(t testing.TB, root string) *c17Tree {
	_ = os.RemoveAll(root)
	tr := &c17Tree{root: root, files: map[string]int{}, byMark: map[int]string{}}
	rel := []string{
		"safe/a.txt", "safe/b.lst", "safe/sub/c.txt", "safe2/d.txt", "secret/s.txt", "other.txt",
		"safe/[x].txt", "safe/\xc3\xbc.txt", "safe/sub/deep/e.txt", "safe/-.txt",
		// the same names in another letter case: separate files on a
		// case-sensitive file system, which no lower-case pattern matches in a
		// literal position
		"SAFE/a.txt", "safe/A.txt", "safe/a.TXT", "safe/sub/C.txt",
		// names that are the text of a glob (class, escape, negated class) which
		// does not match its own text, and a name with a literal star, which the
		// escaped pattern does match
		"safe/[ab].txt", "safe/\\*.txt", "safe/[^a].txt", "safe/*.txt",
		// (round 8) names that literally contain percent sequences: regular
		// files inside safe/ whose percent-DECODED names would be other files
		// (other.txt, secret/s.txt, safe/a.txt): a location is used as spelled
		"safe/..%2Fother.txt", "safe/..%2fsecret%2Fs.txt", "safe/%2E%2E%2Fother.txt", "safe/..%252Fother.txt",
		"safe/%61.txt", "safe/b%00.lst", "safe/..%5Cother.txt",
	}
	tr.rel = rel
	for i, r := range rel {
		p := filepath.Join(root, r)
		if err := os.MkdirAll(filepath.Dir(p), 0o755); err != nil {
			t.Fatal(err)
		}
		if err := os.WriteFile(p, []byte(c17Content(i+1)), 0o644); err != nil {
			t.Fatal(err)
		}
		tr.files[p] = i + 1
		tr.byMark[i+1] = p
		tr.order = append(tr.order, p)
	}
	sort.Strings(tr.order)
	// the tree must be on a case-sensitive file system: every marker file is
	// still its own file after all of them were written
	for p, m := range tr.files {
		if b, err := os.ReadFile(p); err != nil || c17Marker(b) != m {
			t.Fatalf("C17 needs a case-sensitive temporary file system: %q holds marker %d, want %d (%v)", p, c17Marker(b), m, err)
		}
	}
	seen := map[string]bool{}
	addDir := func(d string) {
		if !seen[d] {
			seen[d] = true
			tr.dirs = append(tr.dirs, d)
		}
	}
	for _, p := range tr.order {
		for d := filepath.Dir(p); ; d = filepath.Dir(d) {
			addDir(d)
			if d == "/" {
				break
			}
		}
	}
	// things outside the tree that exist on the host and must never be read
	for i, p := range c17HostExtras {
		if _, err := os.Stat(p); err == nil {
			tr.mask |= 1 << uint(i)
			addDir(p)
		}
	}
	sort.Strings(tr.dirs)
	return tr
}

// ---- HTTP side: a stub transport for http(s), the real transport for any
// other scheme (so that its refusal of file:, ftp: ... is the real one).

var c17Served = map[string]int{
	"http://lists.example/a.txt":           101,
	"https://lists.example/b.txt":          102,
	"http://lists.example/safe/../a.txt":   103,
	"http://lists.example/etc/passwd":      104,
	"https://lists.example/%2e%2e/b.txt":   105,
	"http://lists.example/blank.txt":       -1,
	"http://lists.example:8080/a.txt?x=/y": 106,
}

type c17RT struct{ real http.RoundTripper }

func (rt c17RT) RoundTrip(req *http.Request) (*http.Response, error) {
	if req.URL.Scheme != "http" && req.URL.Scheme != "https" {
		return rt.real.RoundTrip(req)
	}
	m, ok := c17Served[req.URL.String()]
	status, body := 200, ""
	switch {
	case !ok:
		status = 404
	case m == -1:
		body = ""
	case m == -2:
		body = "<html><body>no</body></html>"
	default:
		body = c17Content(m)
	}
	return &http.Response{StatusCode: status, Status: http.StatusText(status), Proto: "HTTP/1.1", ProtoMajor: 1, ProtoMinor: 1,
		Header: http.Header{}, Body: io.NopCloser(strings.NewReader(body)), Request: req, ContentLength: int64(len(body))}, nil
}

// c17HTTPMarker says what the HTTP client can fetch for loc (0: nothing),
// computed without the code under test.
func c17HTTPMarker(loc string) (m int, ok bool) {
	u, err := url.Parse(loc)
	if err != nil || (u.Scheme != "http" && u.Scheme != "https") || u.Host == "" {
		return 0, false
	}
	switch m = c17Served[u.String()]; {
	case m > 0:
		return m, true
	case m == -1:
		return 0, true // blank body: readable, empty
	}
	return 0, false
}

func c17URLOk(loc string) bool {
	u, err := url.ParseRequestURI(loc)
	if err != nil {
		return false
	}
	return urlutil.ValidateHTTPURL(u) == nil
}

// ---- the object under test

type c17Plant struct {
	URL     string `json:"url"`
	Enabled bool   `json:"enabled"`
	Loaded  int    `json:"loaded"`
}

func c17New(t testing.TB, dataDir string, pats []string, block, allow []c17Plant) (d *DNSFilter, err error) {
	_ = os.RemoveAll(dataDir)
	if err = os.MkdirAll(filepath.Join(dataDir, filterDir), 0o755); err != nil {
		t.Fatal(err)
	}
	id := 1000
	mk := func(ps []c17Plant, white bool) (fs []FilterYAML) {
		for _, p := range ps {
			id++
			f := FilterYAML{Enabled: p.Enabled, URL: p.URL, Name: "n" + strconv.Itoa(id), white: white}
			f.Filter.ID = rulelist.URLFilterID(id)
			fs = append(fs, f)
			if p.Loaded != 0 {
				fp := fs[len(fs)-1].Path(dataDir)
				if werr := os.WriteFile(fp, []byte(c17Content(p.Loaded)), 0o644); werr != nil {
					t.Fatal(werr)
				}
			}
		}
		return fs
	}
	conf := &Config{
		DataDir:          dataDir,
		FilteringEnabled: true,
		SafeFSPatterns:   pats,
		// non-zero, so that the periodic path does something; which entries
		// are due is set by the harness before each periodic step
		FiltersUpdateIntervalHours: 24,
		Filters:                    mk(block, false),
		WhitelistFilters:           mk(allow, true),
		HTTPClient:                 &http.Client{Timeout: 5 * time.Second, Transport: c17RT{real: &http.Transport{}}},
		ConfigModified:             func() {},
	}
	d, err = New(conf, nil)
	if err != nil {
		return nil, err
	}
	d.filtersInitializerChan = make(chan filtersInitializerParams, 1)
	return d, nil
}

type c17Row struct {
	URL     string `json:"url"`
	Enabled bool   `json:"enabled"`
	Loaded  int    `json:"loaded"`
}

func c17Rows(d *DNSFilter, fs []FilterYAML) (rows []c17Row) {
	for i := range fs {
		b, err := os.ReadFile(fs[i].Path(d.conf.DataDir))
		m := 0
		if err == nil {
			m = c17Marker(b)
		}
		rows = append(rows, c17Row{URL: fs[i].URL, Enabled: fs[i].Enabled, Loaded: m})
	}
	return rows
}

// c17ValidateCode classifies validateFilterURL's result without reading text.
func c17ValidateCode(d *DNSFilter, loc string) (code int) {
	defer func() {
		if r := recover(); r != nil {
			code = 7
		}
	}()
	err := d.validateFilterURL(loc)
	switch {
	case err == nil:
		return 0
	case !filepath.IsAbs(loc):
		return 3
	default:
		var pe *fs.PathError
		if errors.As(err, &pe) {
			return 1
		}
		return 2
	}
}

type c17Op struct {
	Kind    string `json:"kind"`
	Loc     string `json:"loc,omitempty"`
	Old     string `json:"old,omitempty"`
	Enabled bool   `json:"enabled,omitempty"`
	White   bool   `json:"white"`
	// Due: for "periodic", the locations whose entries are due for an update
	Due []string `json:"due,omitempty"`
	// Raw: for "add", the request body as sent (another JSON spelling of the
	// same request: Loc and White are what encoding/json makes of it); for
	// "probe", a body the handler named in Old must refuse without any effect
	// (probes are not steps of the model's history)
	Raw string `json:"raw,omitempty"`
}

// c17RawAdd spells the add request {url: loc, whitelist: white} in JSON forms
// that encoding/json reads as the same request: key case, duplicate keys (the
// last one counts), a second value after the first (not read), escapes, null
// for the flag, leading blanks.
func c17RawAdd(variant int, loc string, white bool) string {
	l, _ := json.Marshal(loc)
	L, w := string(l), strconv.FormatBool(white)
	switch variant % 8 {
	case 0:
		return `{"URL":` + L + `,"NAME":"x","WhiteList":` + w + `}`
	case 1:
		return `{"url":"http://lists.example/a.txt","name":"x","url":` + L + `,"whitelist":` + w + `}`
	case 2:
		return `{"name":"x","url":` + L + `,"whitelist":` + w + `} {"url":"http://lists.example/a.txt","whitelist":false}`
	case 3:
		// every '/' escaped
		return `{"name":"x","url":` + strings.ReplaceAll(L, "/", "\\/") + `,"whitelist":` + w + `}`
	case 4:
		if !white {
			return `{"name":"x","url":` + L + `,"whitelist":null}`
		}
		return `{"whitelist":true,"url":` + L + `}`
	case 5:
		return "\n\t {\"name\" : \"x\" ,\n \"url\" : " + L + " , \"whitelist\" : " + w + " }\n"
	case 6:
		return `{"name":"x","url":` + L + `,"whitelist":` + w + `,"enabled":false,"id":1,"data":{"url":"http://lists.example/a.txt"}}`
	default:
		// every byte below 0x80 of the URL as a \u escape
		var b strings.Builder
		for _, r := range loc {
			if r < 0x80 {
				fmt.Fprintf(&b, "\\u%04x", r)
			} else {
				b.WriteRune(r)
			}
		}
		return `{"name":"x","url":"` + b.String() + `","whitelist":` + w + `}`
	}
}

// c17Probes are bodies the add / set_url handlers must refuse without effect,
// whatever location they carry.
func c17Probes(loc, old string) (ops []c17Op) {
	l, _ := json.Marshal(loc)
	o, _ := json.Marshal(old)
	L, O := string(l), string(o)
	for _, b := range []string{`{"name":"x","url":` + L + `,"whitelist":"true"}`, `[` + L + `]`, L, `{"url":5}`, `{"name":"x","url":` + L, ``, `{"url":[` + L + `]}`, `{"name":{},"url":` + L + `}`} {
		ops = append(ops, c17Op{Kind: "probe", Old: "add", Loc: loc, Raw: b})
	}
	for _, b := range []string{`{"url":` + O + `,"whitelist":false}`, `{"url":` + O + `,"data":null}`, `{"url":` + O + `,"data":{"url":` + L + `,"enabled":"yes"}}`,
		`{"url":` + O + `,"data":[` + L + `]}`, `{"url":` + O + `,"whitelist":0,"data":{"url":` + L + `,"enabled":true}}`, `{"url":` + O + `,"data":{"url":` + L + `,"enabled":true}`} {
		ops = append(ops, c17Op{Kind: "probe", Old: "set", Loc: loc, Raw: b})
	}
	return ops
}

type c17Obs struct {
	Code    int      `json:"code"`
	Updated int      `json:"updated"`
	Block   []c17Row `json:"block"`
	Allow   []c17Row `json:"allow"`
}

func c17Do(d *DNSFilter, op c17Op) (code, updated int) {
	defer func() {
		if r := recover(); r != nil {
			code, updated = 7, 0
		}
	}()
	switch op.Kind {
	case "add":
		vc := c17ValidateCode(d, op.Loc)
		exists := d.filterExists(op.Loc)
		body, _ := json.Marshal(filterAddJSON{Name: "x", URL: op.Loc, Whitelist: op.White})
		if op.Raw != "" {
			body = []byte(op.Raw)
		}
		w := httptest.NewRecorder()
		r := httptest.NewRequest(http.MethodPost, "/control/filtering/add_url", bytes.NewReader(body))
		d.handleFilteringAddURL(w, r)
		switch {
		case w.Code == http.StatusOK && vc == 0 && !exists:
			return 0, 0
		case w.Code == http.StatusOK:
			return 90, 0 // the handler accepted what its own checks reject
		case vc != 0:
			return vc, 0
		case exists:
			return 4, 0
		default:
			return 6, 0
		}
	case "set":
		vc := c17ValidateCode(d, op.Loc)
		if vc != 0 {
			// the handler stops here; make sure it does
			body, _ := json.Marshal(filterURLReq{URL: op.Old, Whitelist: op.White, Data: &filterURLReqData{Name: "y", URL: op.Loc, Enabled: op.Enabled}})
			w := httptest.NewRecorder()
			d.handleFilteringSetURL(w, httptest.NewRequest(http.MethodPost, "/control/filtering/set_url", bytes.NewReader(body)))
			if w.Code == http.StatusOK {
				return 90, 0
			}
			return vc, 0
		}
		_, err := d.filterSetProperties(op.Old, FilterYAML{Enabled: op.Enabled, Name: "y", URL: op.Loc}, op.White)
		switch {
		case err == nil:
			return 0, 0
		case errors.Is(err, errFilterNotExist):
			return 5, 0
		case errors.Is(err, errFilterExists):
			return 4, 0
		default:
			return 6, 0
		}
	case "probe":
		w := httptest.NewRecorder()
		if op.Old == "add" {
			d.handleFilteringAddURL(w, httptest.NewRequest(http.MethodPost, "/control/filtering/add_url", strings.NewReader(op.Raw)))
		} else {
			d.handleFilteringSetURL(w, httptest.NewRequest(http.MethodPost, "/control/filtering/set_url", strings.NewReader(op.Raw)))
		}
		if w.Code == http.StatusOK {
			return 92, 0
		}
		return 0, 0
	case "periodic":
		// What the timer of updatesLoop does, without the goroutine and the
		// waiting: the entries named in op.Due get a LastUpdated long ago, the
		// others one of now, and periodicallyRefreshFilters is called as the
		// loop calls it.
		due := map[string]bool{}
		for _, u := range op.Due {
			due[u] = true
		}
		func() {
			d.conf.filtersMu.Lock()
			defer d.conf.filtersMu.Unlock()
			for _, arr := range []*[]FilterYAML{&d.conf.Filters, &d.conf.WhitelistFilters} {
				for i := range *arr {
					if due[(*arr)[i].URL] {
						(*arr)[i].LastUpdated = time.Time{}
					} else {
						(*arr)[i].LastUpdated = time.Now()
					}
				}
			}
		}()
		_ = d.periodicallyRefreshFilters(5 * time.Second)
		return 0, 0
	default:
		body, _ := json.Marshal(map[string]bool{"whitelist": op.White})
		w := httptest.NewRecorder()
		d.handleFilteringRefresh(w, httptest.NewRequest(http.MethodPost, "/control/filtering/refresh", bytes.NewReader(body)))
		if w.Code != http.StatusOK {
			return 91, 0
		}
		resp := struct {
			Updated int `json:"updated"`
		}{}
		_ = json.Unmarshal(w.Body.Bytes(), &resp)
		return 0, resp.Updated
	}
}

// c17WatchFifos: named pipes that lie outside every configured pattern and are
// locations of lists of the history being run.  Nobody writes to them: whoever
// opens one for reading blocks in open(2).  (Round 8: "opens a local file only
// if a pattern matches" as an observation of opens, not of content.)
var c17WatchFifos []string

// c17FifoDone: set to skip the pipe cases (never, at present).
var c17FifoDone bool

// c17DoWatched runs c17Do while watching the pipes.  The verdict does not
// depend on the clock: opening a FIFO for writing without blocking succeeds
// if and only if some reader has it open or is blocked opening it (ENXIO
// otherwise); that success also releases the reader.
func c17DoWatched(d *DNSFilter, op c17Op) (code, updated int, opened string) {
	if len(c17WatchFifos) == 0 {
		code, updated = c17Do(d, op)
		return code, updated, ""
	}
	done := make(chan struct{})
	go func() {
		defer close(done)
		code, updated = c17Do(d, op)
	}()
	tick := time.NewTicker(20 * time.Millisecond)
	defer tick.Stop()
	for {
		select {
		case <-done:
			return code, updated, opened
		case <-tick.C:
			for _, p := range c17WatchFifos {
				w, err := os.OpenFile(p, os.O_WRONLY|syscall.O_NONBLOCK, 0)
				if err == nil {
					if opened == "" {
						opened = p
					}
					_ = w.Close()
				}
			}
		}
	}
}

// c17SafeByMatch is the property's predicate, evaluated with the standard
// library only: p is absolute, clean, and some pattern matches it.
func c17SafeByMatch(pats []string, p string) bool {
	if !filepath.IsAbs(p) || filepath.Clean(p) != p {
		return false
	}
	for _, g := range pats {
		if ok, err := filepath.Match(g, p); err == nil && ok {
			return true
		}
	}
	return false
}

// c17CheckLoad: marker m appeared for a list whose location is loc.
func c17CheckLoad(tr *c17Tree, pats []string, loc string, m int) (ok bool, msg string) {
	return c17CheckLoadX(tr, nil, pats, loc, m)
}

// c17CheckLoadX: extra maps the markers of files created for one history only
// to their paths.
func c17CheckLoadX(tr *c17Tree, extra map[int]string, pats []string, loc string, m int) (ok bool, msg string) {
	switch {
	case m == 0:
		return true, ""
	case m >= 998:
		return false, fmt.Sprintf("content that is no marker file was stored for %q", loc)
	case m >= 100:
		l := strings.ToLower(loc)
		if filepath.IsAbs(loc) || !(strings.HasPrefix(l, "http://") || strings.HasPrefix(l, "https://")) {
			return false, fmt.Sprintf("HTTP content stored for non-http location %q", loc)
		}
		return true, ""
	}
	p, known := tr.byMark[m]
	if ep, isExtra := extra[m]; isExtra {
		p, known = ep, true
	}
	if !known {
		return true, "" // pre-planted content
	}
	if !filepath.IsAbs(loc) {
		return false, fmt.Sprintf("file %q read for the non-absolute location %q", p, loc)
	}
	if filepath.Clean(loc) != p {
		return false, fmt.Sprintf("file %q read for location %q", p, loc)
	}
	if !c17SafeByMatch(pats, p) {
		return false, fmt.Sprintf("file %q read but no safe pattern matches it", p)
	}
	return true, ""
}

// ---- Gallina printers

// c17P prints a string relative to the tree root (Run/C17.v: pstr).
func (tr *c17Tree) P(x string) string {
	if strings.HasPrefix(x, tr.root) {
		return "(true, " + vfBytes(x[len(tr.root):]) + ")"
	}
	return "(false, " + vfBytes(x) + ")"
}

func (tr *c17Tree) PList(xs []string) string {
	items := make([]string, len(xs))
	for i, x := range xs {
		items[i] = tr.P(x)
	}
	return vfList("pstr", items)
}

func c17BytesList(xs []string) string {
	items := make([]string, len(xs))
	for i, x := range xs {
		items[i] = vfBytes(x)
	}
	return vfList("bytes", items)
}

func (tr *c17Tree) Rows2Coq(rows []c17Row) string {
	items := make([]string, len(rows))
	for i, r := range rows {
		items[i] = "(" + tr.P(r.URL) + ", " + vfBool(r.Enabled) + ", " + vfN(uint64(r.Loaded)) + ")"
	}
	return vfList("prow", items)
}

func c17PlantRows(ps []c17Plant) []c17Row {
	rows := make([]c17Row, len(ps))
	for i, p := range ps {
		rows[i] = c17Row{URL: p.URL, Enabled: p.Enabled, Loaded: p.Loaded}
	}
	return rows
}

// coqTree prints the tree itself (relative names, markers) and the host
// candidates, for the CTree case.
func (tr *c17Tree) coqTree() string {
	items := make([]string, len(tr.rel))
	for i, r := range tr.rel {
		items[i] = "(" + vfBytes(r) + ", " + vfN(uint64(i+1)) + ")"
	}
	return vfApp("CTree", vfList("bytes * N", items), c17BytesList(c17HostExtras))
}

func c17CoqHTTP(locs []string) (httpL, urlok string) {
	seen := map[string]bool{}
	var hs, us []string
	for _, l := range locs {
		if seen[l] {
			continue
		}
		seen[l] = true
		if m, ok := c17HTTPMarker(l); ok {
			hs = append(hs, "("+vfBytes(l)+", "+vfN(uint64(m))+")")
		}
		if c17URLOk(l) {
			us = append(us, vfBytes(l))
		}
	}
	return vfList("bytes * N", hs), vfList("bytes", us)
}

// ---- generators

func c17PatternSets(R string) [][]string {
	return [][]string{
		{},
		{R + "/safe/*"},
		{R + "/safe/a.txt"},
		{R + "/safe/*.txt", R + "/safe2/?.txt"},
		{R + "/safe/*/*"},
		{R + "/s*/*.txt"},
		{R + "/safe/[a-b].*"},
		{R + "/*"},
		{"*"},
		{R + "/safe/\\[x\\].txt", R + "/safe/[^a].txt"},
		{R + "/secret/../safe/*"},
		{R + "/safe/", R + "/safe"},
		{R + "/safe/**", R + "/safe/*/*/*"},
		{R + "/*/?.txt", R + "/safe/?.txt"},
		{R + "/safe/*["},                     // malformed, but not noticed by the configuration check
		{R + "/safe/a.txt", R + "/safe/[b-"}, // same, second pattern
		{R + "/safe/[]"},                     // malformed and noticed: New fails
		{R + "/s*e/*"},
		{R + "/safe/?????", R + "/safe/\xc3\xbc.txt"},
		// letter case: lower-case class and extension, upper-case literals
		{R + "/safe/[a-z].txt", R + "/safe/sub/c.txt"},
		{R + "/SAFE/*", R + "/safe/A.*"},
		{R + "/safe/*.TXT", R + "/safe/[A-Z].txt"},
		// the glob space: classes, negated classes, escapes; for the first three
		// a file named exactly like the pattern exists and is not matched by it,
		// the last two match the file whose name contains the brackets
		{R + "/safe/[ab].txt"},
		{R + "/safe/\\*.txt"},
		{R + "/safe/[^a].txt", R + "/safe/[a-b].txt"},
		{R + "/safe/[[]ab].txt"},
		{R + "/safe/\\[ab\\].txt", R + "/safe/\\[^a].txt"},
	}
}

// c17CaseVariants are spellings of the file rel (relative to the root R) that
// differ from it in letter case only.  Some exist as separate marker files
// (SAFE/a.txt, safe/A.txt, safe/a.TXT, safe/sub/C.txt), most do not.
func c17CaseVariants(R, rel string) []string {
	dir, base := filepath.Split(rel)
	ext := filepath.Ext(base)
	stem := strings.TrimSuffix(base, ext)
	first := func(x string) string {
		if x == "" {
			return x
		}
		return strings.ToUpper(x[:1]) + x[1:]
	}
	swap := strings.Map(func(c rune) rune {
		switch {
		case 'a' <= c && c <= 'z':
			return c - 32
		case 'A' <= c && c <= 'Z':
			return c + 32
		}
		return c
	}, rel)
	vs := []string{
		R + "/" + strings.ToUpper(dir) + base,                                 // directory names
		R + "/" + dir + stem + strings.ToUpper(ext),                           // extension
		R + "/" + dir + strings.ToUpper(stem) + ext,                           // file name
		R + "/" + dir + first(base),                                           // first letter
		R + "/" + first(rel),                                                  // first letter of the first element
		R + "/" + strings.ToUpper(rel),                                        // everything
		R + "/" + swap,                                                        // every letter swapped
		filepath.Dir(R) + "/" + strings.ToUpper(filepath.Base(R)) + "/" + rel, // the root's own name
		R + "/" + strings.ToLower(rel),                                        // all lower (for the upper-case files)
	}
	return vs
}

// c17Loc builds a hostile or benign location.
// c17Percent puts percent sequences into a location, at random positions: an
// encoded separator, dot, letter, backslash, NUL, a doubly encoded separator,
// or a malformed escape.  (Round 8: a local location is used as spelled.)
func c17Percent(r *vfRand, loc string) string {
	idx := func(set string) []int {
		var is []int
		for i := 0; i < len(loc); i++ {
			if strings.IndexByte(set, loc[i]) >= 0 {
				is = append(is, i)
			}
		}
		return is
	}
	sub := func(is []int, encs ...string) string {
		if len(is) == 0 {
			return loc + vfPick(r, encs)
		}
		i := vfPick(r, is)
		return loc[:i] + vfPick(r, encs) + loc[i+1:]
	}
	switch r.Intn(8) {
	case 0, 1:
		return sub(idx("/"), "%2F", "%2f", "%252F", "%5C", "%5c", "%2F%2F")
	case 2:
		return sub(idx("."), "%2E", "%2e", "%252E")
	case 3:
		// every dot of one dot-dot, and the separator behind it
		if i := strings.Index(loc, "/../"); i >= 0 {
			return loc[:i] + vfPick(r, []string{"/%2E%2E/", "/..%2F", "/%2e%2e%2f", "/.%2E/", "/..%252F", "/..%5C", "/%2E%2E%2F"}) + loc[i+4:]
		}
		return sub(idx("/"), "/..%2F", "/%2E%2E%2F")
	case 4:
		is := idx("abcdefghijklmnopqrstuvwxyz")
		if len(is) == 0 {
			return loc + "%61"
		}
		i := vfPick(r, is)
		return loc[:i] + fmt.Sprintf("%%%02X", loc[i]) + loc[i+1:]
	case 5:
		i := r.Intn(len(loc) + 1)
		return loc[:i] + vfPick(r, []string{"%00", "%", "%zz", "%2", "%20", "%0A"}) + loc[i:]
	default:
		// a dot-dot step made of encoded pieces, after a random separator
		is := idx("/")
		if len(is) == 0 {
			return "..%2F" + loc
		}
		i := vfPick(r, is)
		return loc[:i+1] + vfPick(r, []string{"..%2F", "%2E%2E%2F", "..%2f", "x%2F..%2F..%2F", "..%252F", "..%5C"}) + loc[i+1:]
	}
}

// c17Loc: a location; one in seven gets percent sequences on top of its
// spelling.
func c17Loc(r *vfRand, tr *c17Tree) (loc, class string) {
	loc, class = c17LocBase(r, tr)
	if r.Chance(1, 7) && loc != "" {
		return c17Percent(r, loc), "loc-percent"
	}
	return loc, class
}

func c17LocBase(r *vfRand, tr *c17Tree) (loc, class string) {
	R := tr.root
	target := vfPick(r, tr.order)
	relT := strings.TrimPrefix(target, R+"/")
	switch r.Intn(29) {
	case 0, 1, 2:
		return target, "loc-plain"
	case 26, 27:
		// a letter-case variant of a marker file; 1 in 2 of one of the files
		// that have an existing variant
		if r.Bool() {
			relT = vfPick(r, []string{"safe/a.txt", "safe/sub/c.txt", "safe/b.lst", "other.txt"})
		}
		return vfPick(r, c17CaseVariants(R, relT)), "loc-case"
	case 28:
		// case variant combined with another spelling
		v := vfPick(r, c17CaseVariants(R, vfPick(r, []string{"safe/a.txt", "safe/sub/c.txt"})))
		relV := strings.TrimPrefix(v, R+"/")
		return vfPick(r, []string{R + "/safe/../" + relV, R + "//" + relV, R + "/./" + relV + "/", "file://" + v, relV}), "loc-case"
	case 3:
		return R + "/safe/../" + relT, "loc-dotdot"
	case 4:
		return R + "/safe/sub/../../" + relT, "loc-dotdot"
	case 5:
		return R + "/safe/x/../../secret/s.txt", "loc-dotdot-escape"
	case 6:
		return R + "/safe/../secret/s.txt", "loc-dotdot-escape"
	case 7:
		return R + "/./" + strings.ReplaceAll(relT, "/", "/./"), "loc-dot"
	case 8:
		return R + "//" + strings.ReplaceAll(relT, "/", "//"), "loc-doubled"
	case 9:
		return target + "/", "loc-trailing"
	case 10:
		return target + "/..", "loc-dir"
	case 11:
		return vfPick(r, tr.dirs), "loc-dir"
	case 12:
		return relT, "loc-relative"
	case 13:
		return "./" + relT, "loc-relative"
	case 14:
		return vfPick(r, []string{"../" + relT, "safe/../../etc/passwd", "etc/passwd", "..", "."}), "loc-relative"
	case 15:
		return "file://" + target, "loc-scheme-file"
	case 16:
		return vfPick(r, []string{"file:" + target, "file:///etc/passwd", "FILE://" + target, "file://localhost" + target}), "loc-scheme-file"
	case 17:
		return vfPick(r, []string{"ftp://lists.example/a.txt", "gopher://x/y", "data:text/plain,||a^", "javascript:1", "unix:///tmp/x", "ssh://h" + target}), "loc-scheme-other"
	case 18, 19:
		return vfPick(r, []string{"http://lists.example/a.txt", "https://lists.example/b.txt", "http://lists.example/safe/../a.txt",
			"http://lists.example/etc/passwd", "https://lists.example/%2e%2e/b.txt", "http://lists.example:8080/a.txt?x=/y"}), "loc-http"
	case 20:
		return vfPick(r, []string{"http://lists.example/missing.txt", "http://lists.example/blank.txt",
			"HTTP://lists.example/a.txt", "http://", "http:/lists.example/a.txt", "https:lists.example/b.txt", "http://lists.example/a.txt#" + target}), "loc-http-odd"
	case 21:
		return vfPick(r, []string{"/etc/passwd", "/etc/hostname", "/proc/self/environ", R + "/../../../../../../../../etc/passwd", "/etc/../etc/passwd"}), "loc-host-file"
	case 22:
		return vfPick(r, []string{R + "/safe/*", R + "/safe/missing.txt", R + "/safe/a.txt/x", R + "/nope/../safe/a.txt", "/", "//", "", " " + target, target + " ", target + "\x00", "\\" + target}), "loc-odd"
	case 23:
		return R + "/safe/../safe/./sub//../" + vfPick(r, []string{"a.txt", "b.lst", "sub/c.txt", "../secret/s.txt", "../other.txt"}), "loc-mixed"
	case 24:
		return R + "/secret/../" + relT, "loc-dotdot"
	default:
		// random walk over segments
		segs := []string{"safe", "safe2", "secret", "sub", "deep", "..", ".", "", "a.txt", "s.txt", "c.txt", "other.txt"}
		n := 1 + r.Intn(6)
		var b strings.Builder
		b.WriteString(R)
		for i := 0; i < n; i++ {
			b.WriteString("/")
			b.WriteString(vfPick(r, segs))
		}
		return b.String(), "loc-walk"
	}
}

// c17GoodLoc is a location that is usually acceptable: a plain file path or a
// served URL.
func c17GoodLoc(r *vfRand, tr *c17Tree) (loc, class string) {
	if r.Chance(1, 3) {
		return vfPick(r, []string{"http://lists.example/a.txt", "https://lists.example/b.txt", "http://lists.example:8080/a.txt?x=/y"}), "loc-http"
	}
	return vfPick(r, tr.order), "loc-plain"
}

func (tr *c17Tree) OpsCoq(ops []c17Op) string {
	items := make([]string, 0, len(ops))
	for _, o := range ops {
		switch o.Kind {
		case "probe":
			// not a step of the model's history
		case "add":
			items = append(items, vfApp("op_add", tr.P(o.Loc), vfBool(o.White)))
		case "set":
			items = append(items, vfApp("op_set", tr.P(o.Old), tr.P(o.Loc), vfBool(o.Enabled), vfBool(o.White)))
		case "periodic":
			items = append(items, vfApp("op_periodic", tr.PList(o.Due)))
		default:
			items = append(items, vfApp("op_refresh", vfBool(o.White)))
		}
	}
	return vfList("eop", items)
}

func (tr *c17Tree) ObsCoq(obs []c17Obs) string {
	items := make([]string, len(obs))
	for i, o := range obs {
		items[i] = "(" + vfN(uint64(o.Code)) + ", " + vfN(uint64(o.Updated)) + ", " + tr.Rows2Coq(o.Block) + ", " + tr.Rows2Coq(o.Allow) + ")"
	}
	return vfList("eobs", items)
}

// c17Extra is a file that exists for one history only (name relative to the
// root, marker of its content).
type c17Extra struct {
	Rel    string `json:"rel"`
	Marker int    `json:"marker"`
}

// c17History runs one history and emits one case.
func c17History(t *testing.T, out *vfOut, tr *c17Tree, dataDir string, pats []string, block, allow []c17Plant, ops []c17Op, classes []string) {
	c17HistoryX(t, out, tr, dataDir, nil, pats, block, allow, ops, classes)
}

// c17HistoryX is c17History with files created for this history only.
func c17HistoryX(t *testing.T, out *vfOut, tr *c17Tree, dataDir string, extra []c17Extra, pats []string, block, allow []c17Plant, ops []c17Op, classes []string) {
	extraByMark := map[int]string{}
	for _, e := range extra {
		p := filepath.Join(tr.root, e.Rel)
		if err := os.MkdirAll(filepath.Dir(p), 0o755); err != nil {
			t.Fatal(err)
		}
		if err := os.WriteFile(p, []byte(c17Content(e.Marker)), 0o644); err != nil {
			t.Fatal(err)
		}
		extraByMark[e.Marker] = p
	}
	if len(extra) > 0 {
		defer func() {
			for _, e := range extra {
				_ = os.Remove(filepath.Join(tr.root, e.Rel))
			}
			// the directories of the extra files (never one of the tree's own)
			for _, e := range extra {
				_ = os.Remove(filepath.Dir(filepath.Join(tr.root, e.Rel)))
			}
		}()
	}
	d, err := c17New(t, dataDir, pats, block, allow)
	if err != nil {
		out.Class("pattern-rejected-at-config")
		return
	}
	defer d.Close()

	monOK, monMsg := true, ""
	fail := func(msg string) {
		if monOK {
			monOK, monMsg = false, msg
		}
	}
	prev := map[string]int{} // "b3"/"a0" -> marker
	snapshot := func() (b, a []c17Row) {
		b, a = c17Rows(d, d.conf.Filters), c17Rows(d, d.conf.WhitelistFilters)
		return b, a
	}
	pb, pa := snapshot()
	for i, r := range pb {
		prev[fmt.Sprintf("b%d", i)] = r.Loaded
	}
	for i, r := range pa {
		prev[fmt.Sprintf("a%d", i)] = r.Loaded
	}
	var obs []c17Obs
	nontrivial := false
	locs := []string{}
	for _, p := range append(append([]c17Plant{}, block...), allow...) {
		locs = append(locs, p.URL)
	}
	for _, op := range ops {
		if op.Kind == "probe" {
			// a body the handler must refuse: nothing may change
			b0, a0 := snapshot()
			code, _ := c17Do(d, op)
			b1, a1 := snapshot()
			classes = append(classes, "probe-"+op.Old)
			if code != 0 {
				fail(fmt.Sprintf("%s handler accepted the body %q", op.Old, op.Raw))
			}
			if fmt.Sprint(b0, a0) != fmt.Sprint(b1, a1) {
				fail(fmt.Sprintf("%s handler refused the body %q but the lists changed", op.Old, op.Raw))
			}
			continue
		}
		if op.Raw != "" {
			classes = append(classes, "add-raw-json")
		}
		locs = append(locs, op.Loc)
		code, upd, opened := c17DoWatched(d, op)
		if opened != "" {
			fail(fmt.Sprintf("%s: the named pipe %q, which no safe pattern matches, was opened for reading (a reader was waiting on it)", op.Kind, opened))
			classes = append(classes, "fifo-opened")
		}
		b, a := snapshot()
		obs = append(obs, c17Obs{Code: code, Updated: upd, Block: b, Allow: a})
		classes = append(classes, fmt.Sprintf("%s-code-%d", op.Kind, code))
		if code == 90 || code == 91 {
			fail(fmt.Sprintf("%s: handler status disagrees with its own checks (code %d)", op.Kind, code))
		}
		chk := func(tag string, rows []c17Row) {
			for i, r := range rows {
				k := fmt.Sprintf("%s%d", tag, i)
				if old, seen := prev[k]; !seen || old != r.Loaded {
					if r.Loaded != 0 {
						nontrivial = true
						if r.Loaded < 100 {
							classes = append(classes, "file-loaded", op.Kind+"-file-loaded")
						} else {
							classes = append(classes, "http-loaded")
						}
					}
					if ok, msg := c17CheckLoadX(tr, extraByMark, pats, r.URL, r.Loaded); !ok {
						fail(op.Kind + ": " + msg)
					}
				}
				prev[k] = r.Loaded
			}
		}
		chk("b", b)
		chk("a", a)
		if code != 0 {
			nontrivial = true
		}
	}
	httpL, urlok := c17CoqHTTP(locs)
	coq := vfApp("CHist", vfBytes(tr.root), vfN(tr.mask), tr.PList(pats), httpL, urlok,
		tr.Rows2Coq(c17PlantRows(block)), tr.Rows2Coq(c17PlantRows(allow)), tr.OpsCoq(ops), tr.ObsCoq(obs))
	desc := map[string]any{"op": "history", "patterns": pats, "block": block, "allow": allow, "ops": ops, "obs": obs}
	if len(extra) > 0 {
		items := make([]string, len(extra))
		for i, e := range extra {
			items[i] = "(" + vfBytes(e.Rel) + ", " + vfN(uint64(e.Marker)) + ")"
		}
		coq = vfApp("CHistF", vfBytes(tr.root), vfN(tr.mask), vfList("bytes * N", items), tr.PList(pats), httpL, urlok,
			tr.Rows2Coq(c17PlantRows(block)), tr.Rows2Coq(c17PlantRows(allow)), tr.OpsCoq(ops), tr.ObsCoq(obs))
		desc["extra_files"] = extra
	}
	c := vfCase{
		Coq:        coq,
		Nontrivial: nontrivial,
		Classes:    classes,
		MonitorOK:  monOK, MonitorMsg: monMsg,
		Desc: desc,
	}
	if !monOK {
		c.FindingKey = "C17-" + vfHash(monMsg, pats, ops)
	}
	out.Emit(c)
}

func c17GenPlant(r *vfRand, tr *c17Tree, used map[string]bool) (p c17Plant, ok bool) {
	loc, _ := c17Loc(r, tr)
	if used[loc] {
		return p, false
	}
	used[loc] = true
	p = c17Plant{URL: loc, Enabled: !r.Chance(1, 4)}
	switch r.Intn(4) {
	case 0:
		p.Loaded = 77
	case 1:
		p.Loaded = 1 + r.Intn(len(tr.order))
	}
	return p, true
}

func c17GenHistory(r *vfRand, tr *c17Tree, n int) (block, allow []c17Plant, ops []c17Op, classes []string) {
	used := map[string]bool{}
	for i, k := 0, r.Intn(4); i < k; i++ {
		if p, ok := c17GenPlant(r, tr, used); ok {
			if r.Chance(1, 4) {
				allow = append(allow, p)
			} else {
				block = append(block, p)
			}
			classes = append(classes, "planted")
		}
	}
	known := []string{}
	for u := range used {
		known = append(known, u)
	}
	sort.Strings(known)
	for i := 0; i < n; i++ {
		switch r.Intn(8) {
		case 7:
			// the periodic path with a random subset of the known locations due
			var due []string
			for _, u := range known {
				if r.Chance(2, 3) {
					due = append(due, u)
				}
			}
			ops = append(ops, c17Op{Kind: "periodic", Due: due})
			classes = append(classes, "periodic")
		case 0, 1, 2:
			loc, cl := c17Loc(r, tr)
			if r.Chance(1, 3) {
				loc, cl = c17GoodLoc(r, tr)
			}
			op := c17Op{Kind: "add", Loc: loc, White: r.Chance(1, 4)}
			if r.Chance(1, 4) {
				op.Raw = c17RawAdd(r.Intn(8), op.Loc, op.White)
			}
			ops = append(ops, op)
			known = append(known, loc)
			classes = append(classes, cl)
		case 3, 4:
			loc, cl := c17Loc(r, tr)
			old := "http://nobody.example/x"
			if len(known) > 0 && !r.Chance(1, 8) {
				old = vfPick(r, known)
			}
			switch r.Intn(8) {
			case 0:
				loc = old
			case 1:
				if len(known) > 0 {
					loc = vfPick(r, known) // often an existing one: "already exists"
				}
			case 2, 3, 4:
				loc, cl = c17GoodLoc(r, tr)
			}
			ops = append(ops, c17Op{Kind: "set", Old: old, Loc: loc, Enabled: !r.Chance(1, 3), White: r.Chance(1, 4)})
			known = append(known, loc)
			classes = append(classes, cl)
		default:
			ops = append(ops, c17Op{Kind: "refresh", White: r.Chance(1, 4)})
		}
	}
	return block, allow, ops, classes
}

// c17GlobNames are file names that are also the text of a glob: classes,
// negated classes, ranges, escapes, malformed ones.
var c17GlobNames = []string{"[ab]", "[a-b]x", "[^a]", "[^a-b]b", "\\*", "\\a", "\\[a\\]", "[\\]]", "a[b]", "[a]*", "?[x]", "[*]", "[?]", "[a-]",
	"[]a]", "[a", "a\\", "[^]", "[-]", "[a]", "[[]", "\\\\", "[b-a]", "[a][b]", "*[a]", "[x].?", "\\?", "[\\a]", "[^^]", "^a", "a]"}

func c17GenGlobName(r *vfRand) string {
	if r.Chance(1, 2) {
		return vfPick(r, c17GlobNames)
	}
	const al = "ab[]^-\\*?x."
	for {
		n := 1 + r.Intn(6)
		b := make([]byte, n)
		for i := range b {
			b[i] = al[r.Intn(len(al))]
		}
		if s := string(b); s != "." && s != ".." {
			return s
		}
	}
}

// c17GenGlobHistory: one to three generated patterns in the directory g of the
// tree; for every pattern a file named exactly like the pattern's text, plus
// candidates the patterns may match; the locations of the history are those
// files in several spellings, planted and through add / set_url / refresh /
// periodic.
func c17GenGlobHistory(r *vfRand, tr *c17Tree) (pats []string, extra []c17Extra, block, allow []c17Plant, ops []c17Op, classes []string) {
	R := tr.root
	have := map[string]bool{}
	addFile := func(name string, m int) {
		if !have[name] {
			have[name] = true
			extra = append(extra, c17Extra{Rel: "g/" + name, Marker: m})
		}
	}
	for i, k := 0, 1+r.Intn(3); i < k; i++ {
		name := c17GenGlobName(r)
		pats = append(pats, R+"/g/"+name)
		addFile(name, 21+i)
	}
	for i, name := range []string{"a", "b", "ab", "x", "*", "[", "ax", "bb", "^"} {
		addFile(name, 31+i)
	}
	if r.Chance(1, 6) {
		pats = append(pats, R+"/safe/*.txt")
	}
	pool := []string{}
	for _, e := range extra {
		p := R + "/" + e.Rel
		pool = append(pool, p)
		if r.Chance(1, 4) {
			pool = append(pool, vfPick(r, []string{R + "/g/../" + e.Rel, R + "//" + e.Rel, p + "/", "file://" + p, e.Rel, R + "/safe/../g/./" + strings.TrimPrefix(e.Rel, "g/")}))
		}
	}
	pool = append(pool, R+"/g/missing", R+"/safe/a.txt", "http://lists.example/a.txt")
	used := map[string]bool{}
	for i, k := 0, r.Intn(4); i < k; i++ {
		loc := vfPick(r, pool)
		if used[loc] {
			continue
		}
		used[loc] = true
		p := c17Plant{URL: loc, Enabled: !r.Chance(1, 5)}
		if r.Chance(1, 4) {
			p.Loaded = 77
		}
		if r.Chance(1, 4) {
			allow = append(allow, p)
		} else {
			block = append(block, p)
		}
		classes = append(classes, "planted")
	}
	known := []string{}
	for u := range used {
		known = append(known, u)
	}
	sort.Strings(known)
	for i, n := 0, 2+r.Intn(5); i < n; i++ {
		switch r.Intn(8) {
		case 0, 1, 2:
			loc := vfPick(r, pool)
			ops = append(ops, c17Op{Kind: "add", Loc: loc, White: r.Chance(1, 4)})
			known = append(known, loc)
		case 3, 4:
			loc := vfPick(r, pool)
			old := "http://nobody.example/x"
			if len(known) > 0 && !r.Chance(1, 8) {
				old = vfPick(r, known)
			}
			ops = append(ops, c17Op{Kind: "set", Old: old, Loc: loc, Enabled: !r.Chance(1, 4), White: r.Chance(1, 4)})
			known = append(known, loc)
		case 5:
			var due []string
			for _, u := range known {
				if r.Chance(2, 3) {
					due = append(due, u)
				}
			}
			ops = append(ops, c17Op{Kind: "periodic", Due: due})
			classes = append(classes, "periodic")
		default:
			ops = append(ops, c17Op{Kind: "refresh", White: r.Chance(1, 4)})
		}
	}
	classes = append(classes, "glob-space")
	for _, g := range pats {
		if ok, err := filepath.Match(g, g); err == nil && !ok {
			classes = append(classes, "pattern-not-matching-own-text")
		} else if err != nil {
			classes = append(classes, "pattern-malformed")
		}
	}
	return pats, extra, block, allow, ops, classes
}

func c17EmitValidate(out *vfOut, tr *c17Tree, d *DNSFilter, pats []string, loc, cl string) {
	code := c17ValidateCode(d, loc)
	ok, msg := true, ""
	if code == 0 && filepath.IsAbs(loc) && !c17SafeByMatch(pats, filepath.Clean(loc)) {
		ok, msg = false, fmt.Sprintf("validateFilterURL accepted %q which no safe pattern matches", loc)
	}
	if code == 0 && !filepath.IsAbs(loc) {
		l := strings.ToLower(loc)
		if !(strings.HasPrefix(l, "http:") || strings.HasPrefix(l, "https:")) {
			ok, msg = false, fmt.Sprintf("validateFilterURL accepted %q: neither absolute path nor http(s)", loc)
		}
	}
	_, urlok := c17CoqHTTP([]string{loc})
	c := vfCase{
		Coq:        vfApp("CValidate", vfBytes(tr.root), vfN(tr.mask), tr.PList(pats), urlok, tr.P(loc), vfN(uint64(code))),
		Nontrivial: code != 3, Classes: []string{"validate", cl, fmt.Sprintf("validate-code-%d", code)},
		MonitorOK: ok, MonitorMsg: msg,
		Desc: map[string]any{"op": "validateFilterURL", "patterns": pats, "loc": loc, "code": code},
	}
	if !ok {
		c.FindingKey = "C17-" + vfHash("validate", pats, loc)
	}
	out.Emit(c)
}

func c17EmitReader(out *vfOut, tr *c17Tree, d *DNSFilter, pats []string, loc, cl string) {
	code, m := 0, 0
	func() {
		defer func() {
			if r := recover(); r != nil {
				code, m = 7, 0
			}
		}()
		rc, err := d.reader(loc)
		if err != nil {
			code = 1
			return
		}
		b, rerr := io.ReadAll(rc)
		_ = rc.Close()
		if rerr != nil {
			code = 1
			return
		}
		m = c17Marker(b)
	}()
	ok, msg := true, ""
	if code == 0 {
		ok, msg = c17CheckLoad(tr, pats, loc, m)
	}
	httpL, _ := c17CoqHTTP([]string{loc})
	c := vfCase{
		Coq:        vfApp("CReader", vfBytes(tr.root), tr.PList(pats), httpL, tr.P(loc), vfN(uint64(code)), vfN(uint64(m))),
		Nontrivial: filepath.IsAbs(loc), Classes: []string{"reader", cl, fmt.Sprintf("reader-code-%d", code)},
		MonitorOK: ok, MonitorMsg: msg,
		Desc: map[string]any{"op": "reader", "patterns": pats, "loc": loc, "code": code, "marker": m},
	}
	if code == 0 && m > 0 && m < 100 {
		c.Classes = append(c.Classes, "reader-file")
	}
	if !ok {
		c.FindingKey = "C17-" + vfHash("reader", pats, loc)
	}
	out.Emit(c)
}

// ---- differential streams: Glob / PathClean models against the standard library

func c17GenPattern(r *vfRand) string {
	if r.Chance(1, 3) {
		return vfPick(r, []string{"*", "**", "a*", "*a", "a*b", "*/*", "/a/*", "/a/?", "[a-c]", "[^a-c]x", "[a-c", "[]", "[]a]", "[^]", "[-]", "a[", "\\", "a\\", "\\*", "\\[a]",
			"[\\]]", "[a-]", "[a-\\-]", "/a/*/b", "/a/*b*", "?*", "*?", "a?b", "[/]", "/a[/]b", "[!a]", "*[", "a*[", "/a/*[", "\xc3\xbc", "[\xc3\xa0-\xc3\xbf]", "[\xff]", "?", "", "/",
			"A*", "[A-Z]", "[a-z]x", "/a/*.x", "/A/?", "aB", "[^A-Z]b", "\\A"})
	}
	const al = "abA/*?[]^-\\x\xc3\xbc."
	n := r.Intn(9)
	b := make([]byte, n)
	for i := range b {
		b[i] = al[r.Intn(len(al))]
	}
	return string(b)
}

func c17GenName(r *vfRand) string {
	if r.Chance(1, 4) {
		return vfPick(r, []string{"", "a", "b", "ab", "/", "/a/b", "/a/", "/a/b/c", "a/b", "\xc3\xbc", "a\xc3\xbcb", "\xff", "-", "]", "^", "*", "[a]", "\\", "test", "/a/x", "abx", "A", "Ab", "aB", "/A/b", "/a/B.x", "/a/b.X", "AX"})
	}
	const al = "abxAB/-]^*\\\xc3\xbc\xff."
	n := r.Intn(7)
	b := make([]byte, n)
	for i := range b {
		b[i] = al[r.Intn(len(al))]
	}
	return string(b)
}

// c17Cur is the tree of the running test (for the compact printers).
var c17Cur *c17Tree

func c17EmitGlob(out *vfOut, pat, name string) {
	ok, err := filepath.Match(pat, name)
	code := 0
	switch {
	case err != nil:
		code = 2
	case ok:
		code = 1
	}
	// the property-level fact: without a class, a match never changes the number of separators
	mok, msg := true, ""
	if code == 1 && !strings.ContainsAny(pat, "[\\") && strings.Count(pat, "/") != strings.Count(name, "/") {
		mok, msg = false, "a class-free pattern matched a name with a different number of separators"
	}
	coq := vfApp("CGlob", vfBytes(pat), vfBytes(name), vfN(uint64(code)))
	if tr := c17Cur; tr != nil && (strings.HasPrefix(pat, tr.root) || strings.HasPrefix(name, tr.root)) {
		coq = vfApp("CGlobR", vfBytes(tr.root), tr.P(pat), tr.P(name), vfN(uint64(code)))
	}
	c := vfCase{Coq: coq, Nontrivial: code != 0,
		Classes: []string{"glob", fmt.Sprintf("glob-%d", code)}, MonitorOK: mok, MonitorMsg: msg,
		Desc: map[string]any{"op": "filepath.Match", "pattern": pat, "name": name, "code": code}}
	if !mok {
		c.FindingKey = "C17-" + vfHash("glob", pat, name)
	}
	out.Emit(c)
}

func c17EmitClean(out *vfOut, p string) {
	a, b := path.Clean(p), filepath.Clean(p)
	mok, msg := a == b, ""
	if !mok {
		msg = "path.Clean and filepath.Clean differ"
	}
	if mok && filepath.IsAbs(p) {
		for _, s := range strings.Split(a, "/")[1:] {
			if (s == "" && a != "/") || s == "." || s == ".." {
				mok, msg = false, "cleaned absolute path has an empty, dot or dot-dot element"
			}
		}
	}
	coq := vfApp("CClean", vfBytes(p), vfBytes(b))
	if tr := c17Cur; tr != nil && strings.HasPrefix(p, tr.root) {
		coq = vfApp("CCleanR", vfBytes(tr.root), tr.P(p), tr.P(b))
	}
	c := vfCase{Coq: coq, Nontrivial: a != p,
		Classes: []string{"clean"}, MonitorOK: mok, MonitorMsg: msg,
		Desc: map[string]any{"op": "Clean", "in": p, "out": b}}
	if !mok {
		c.FindingKey = "C17-" + vfHash("clean", p)
	}
	out.Emit(c)
}

func TestVerifC17(t *testing.T) {
	out := vfOpen(t, "C17")
	defer out.Close()

	// A short root keeps the printed cases small; it is derived from the output
	// directory so that concurrent runs do not share a tree.
	base := filepath.Join(os.TempDir(), "v17-"+vfHash(os.Getenv("VERIF_OUT"))[:6])
	t.Cleanup(func() { _ = os.RemoveAll(base) })
	tr := c17MakeTree(t, filepath.Join(base, "t"))
	dataDir := filepath.Join(base, "data")
	R := tr.root
	sets := c17PatternSets(R)
	out.Note("root", R)
	c17Cur = tr
	// the tree itself, checked against the constants of Run/C17.v
	out.Emit(vfCase{Coq: tr.coqTree(), Nontrivial: true, Classes: []string{"tree"}, MonitorOK: true,
		Desc: map[string]any{"op": "tree", "files": tr.rel, "host": c17HostExtras}})

	// Prelude: constructed histories, one per entry point and hostile spelling.
	safe := []string{R + "/safe/*"}
	hostile := []string{
		R + "/secret/s.txt", R + "/safe/../secret/s.txt", R + "/safe/x/../../secret/s.txt", R + "/safe/sub/c.txt",
		"file://" + R + "/secret/s.txt", "secret/s.txt", "/etc/passwd", R + "/safe/a.txt/../../other.txt",
	}
	benign := []string{R + "/safe/a.txt", R + "/safe/./sub/../b.lst", R + "//safe//a.txt/", "http://lists.example/a.txt"}
	for _, h := range hostile {
		c17History(t, out, tr, dataDir, safe, nil, nil, []c17Op{{Kind: "add", Loc: h}}, []string{"pre-add-hostile"})
		c17History(t, out, tr, dataDir, safe, []c17Plant{{URL: R + "/safe/a.txt", Enabled: true}}, nil,
			[]c17Op{{Kind: "refresh"}, {Kind: "set", Old: R + "/safe/a.txt", Loc: h, Enabled: true}, {Kind: "refresh"}}, []string{"pre-set-hostile"})
		// the URL edited while the list is disabled (nothing is downloaded, so
		// only the validation stands in the way), then enabled
		c17History(t, out, tr, dataDir, safe, []c17Plant{{URL: "http://lists.example/a.txt", Enabled: true}}, nil,
			[]c17Op{{Kind: "set", Old: "http://lists.example/a.txt", Loc: h, Enabled: false}, {Kind: "refresh"}, {Kind: "set", Old: h, Loc: h, Enabled: true}, {Kind: "refresh"}}, []string{"pre-set-hostile-disabled"})
		c17History(t, out, tr, dataDir, safe, []c17Plant{{URL: h, Enabled: true}}, []c17Plant{{URL: h + "/.", Enabled: true, Loaded: 77}},
			[]c17Op{{Kind: "refresh"}, {Kind: "refresh", White: true}}, []string{"pre-refresh-planted-hostile"})
		c17History(t, out, tr, dataDir, nil, []c17Plant{{URL: h, Enabled: true}}, nil,
			[]c17Op{{Kind: "refresh"}, {Kind: "add", Loc: h}}, []string{"pre-no-patterns"})
		// the periodic path: nothing due, the hostile entries due, everything due
		c17History(t, out, tr, dataDir, safe, []c17Plant{{URL: h, Enabled: true}, {URL: R + "/safe/a.txt", Enabled: true}}, []c17Plant{{URL: h + "/.", Enabled: true, Loaded: 77}},
			[]c17Op{{Kind: "periodic"}, {Kind: "periodic", Due: []string{h, h + "/."}}, {Kind: "periodic", Due: []string{h, h + "/.", R + "/safe/a.txt"}}, {Kind: "periodic", Due: []string{R + "/safe/a.txt"}}},
			[]string{"pre-periodic-planted-hostile", "periodic"})
	}
	for _, b := range benign {
		c17History(t, out, tr, dataDir, safe, nil, nil, []c17Op{{Kind: "add", Loc: b}, {Kind: "add", Loc: b}, {Kind: "refresh"}}, []string{"pre-add-benign"})
		c17History(t, out, tr, dataDir, safe, []c17Plant{{URL: "http://lists.example/a.txt", Enabled: false}}, nil,
			[]c17Op{{Kind: "set", Old: "http://lists.example/a.txt", Loc: b, Enabled: false}, {Kind: "refresh"},
				{Kind: "set", Old: b, Loc: b, Enabled: true}, {Kind: "refresh"}}, []string{"pre-set-disabled-then-enable"})
		c17History(t, out, tr, dataDir, nil, nil, nil, []c17Op{{Kind: "add", Loc: b}}, []string{"pre-no-patterns"})
	}
	// set_url whose download says "no changes" (a source without rules): the
	// stored file is removed; and a failed set_url leaves everything, the
	// remembered checksum included, so the next refresh of the same content
	// updates nothing.
	for _, src := range []string{"http://lists.example/a.txt", R + "/safe/a.txt"} {
		c17History(t, out, tr, dataDir, safe, []c17Plant{{URL: src, Enabled: true, Loaded: 77}}, nil,
			[]c17Op{{Kind: "set", Old: src, Loc: "http://lists.example/blank.txt", Enabled: true}, {Kind: "refresh"}}, []string{"pre-set-no-rules-removes-file"})
		c17History(t, out, tr, dataDir, safe, []c17Plant{{URL: src, Enabled: false, Loaded: 77}}, nil,
			[]c17Op{{Kind: "set", Old: src, Loc: "http://lists.example/blank.txt", Enabled: false}, {Kind: "set", Old: "http://lists.example/blank.txt", Loc: "http://lists.example/blank.txt", Enabled: true}}, []string{"pre-set-no-rules-removes-file"})
		c17History(t, out, tr, dataDir, safe, []c17Plant{{URL: src, Enabled: true}}, nil,
			[]c17Op{{Kind: "refresh"}, {Kind: "set", Old: src, Loc: "http://lists.example/missing.txt", Enabled: true}, {Kind: "refresh"},
				{Kind: "set", Old: src, Loc: R + "/safe/missing.txt", Enabled: true}, {Kind: "periodic", Due: []string{src}}}, []string{"pre-set-failed-keeps-checksum"})
	}
	// a malformed pattern that the configuration check does not notice
	c17History(t, out, tr, dataDir, []string{R + "/safe/*["}, []c17Plant{{URL: R + "/safe/a.txt", Enabled: true}, {URL: "http://lists.example/a.txt", Enabled: true}}, nil,
		[]c17Op{{Kind: "add", Loc: R + "/safe/a.txt"}, {Kind: "refresh"}, {Kind: "add", Loc: R + "/secret/s.txt"}}, []string{"pre-unnoticed-bad-pattern"})
	c17History(t, out, tr, dataDir, []string{R + "/safe/*["}, []c17Plant{{URL: "http://lists.example/a.txt", Enabled: true}, {URL: R + "/safe/a.txt", Enabled: true}}, []c17Plant{{URL: R + "/safe/b.lst", Enabled: true}},
		[]c17Op{{Kind: "periodic", Due: []string{"http://lists.example/a.txt"}}, {Kind: "periodic", Due: []string{R + "/safe/b.lst"}}, {Kind: "periodic", Due: []string{"http://lists.example/a.txt", R + "/safe/a.txt", R + "/safe/b.lst"}}},
		[]string{"pre-unnoticed-bad-pattern", "periodic"})

	// Letter case: for each kind of lower-case pattern (extension after a star,
	// exact path, class) the spellings of a safe file in another letter case,
	// existing as separate marker files, at add / set_url / refresh; and the
	// converse for an upper-case pattern.
	type c17CasePre struct {
		pats    []string
		good    string   // matches: may be read
		hostile []string // differ from something matched in letter case only
	}
	for _, cp := range []c17CasePre{
		{[]string{R + "/safe/*.txt"}, R + "/safe/a.txt", []string{R + "/SAFE/a.txt", R + "/safe/a.TXT", R + "/safe/../SAFE/a.txt", R + "/Safe/a.txt"}},
		{[]string{R + "/safe/a.txt", R + "/safe/sub/c.txt"}, R + "/safe/a.txt", []string{R + "/safe/A.txt", R + "/safe/a.TXT", R + "/SAFE/a.txt", R + "/safe/sub/C.txt"}},
		{[]string{R + "/safe/[a-z].txt"}, R + "/safe/a.txt", []string{R + "/safe/A.txt", R + "/SAFE/a.txt"}},
		{[]string{R + "/s?fe/?.txt", R + "/safe/sub/*"}, R + "/safe/sub/C.txt", []string{R + "/SAFE/a.txt", R + "/safe/a.TXT"}},
		{[]string{R + "/SAFE/*", R + "/safe/A.*"}, R + "/SAFE/a.txt", []string{R + "/safe/a.txt", R + "/safe/a.TXT", R + "/safe/b.lst"}},
	} {
		for _, h := range cp.hostile {
			c17History(t, out, tr, dataDir, cp.pats, nil, nil,
				[]c17Op{{Kind: "add", Loc: h}, {Kind: "add", Loc: cp.good}, {Kind: "add", Loc: h, White: true}}, []string{"pre-add-case", "loc-case"})
			c17History(t, out, tr, dataDir, cp.pats, []c17Plant{{URL: cp.good, Enabled: true}}, nil,
				[]c17Op{{Kind: "refresh"}, {Kind: "set", Old: cp.good, Loc: h, Enabled: true}, {Kind: "refresh"}}, []string{"pre-set-case", "loc-case"})
			c17History(t, out, tr, dataDir, cp.pats, []c17Plant{{URL: h, Enabled: true}, {URL: cp.good, Enabled: true}}, []c17Plant{{URL: h + "/.", Enabled: true, Loaded: 77}},
				[]c17Op{{Kind: "refresh"}, {Kind: "refresh", White: true}}, []string{"pre-refresh-case", "loc-case"})
			c17History(t, out, tr, dataDir, cp.pats, []c17Plant{{URL: h, Enabled: true}}, []c17Plant{{URL: cp.good, Enabled: true}, {URL: h + "/", Enabled: true}},
				[]c17Op{{Kind: "periodic", Due: []string{cp.good}}, {Kind: "periodic", Due: []string{h, h + "/"}}}, []string{"pre-periodic-case", "loc-case", "periodic"})
		}
	}
	// Patterns that are not in cleaned form match no cleaned path as they are
	// written: nothing may be read under them, at any entry point (a
	// constructor that cleans them would widen "lists/../*.txt" to the parent).
	for _, up := range [][]string{
		{R + "/safe/../*.txt"}, {R + "/secret/../safe/*"}, {R + "/safe//*"}, {R + "/safe/./*"}, {R + "/safe/sub/../*.txt", R + "/safe/"},
		{R + "/safe/sub/"}, {R + "//other.txt"},
	} {
		for _, loc := range []string{R + "/other.txt", R + "/safe/a.txt", R + "/safe/sub"} {
			c17History(t, out, tr, dataDir, up, []c17Plant{{URL: loc, Enabled: true}}, []c17Plant{{URL: "http://lists.example/a.txt", Enabled: true}},
				[]c17Op{{Kind: "add", Loc: loc + "/."}, {Kind: "refresh"}, {Kind: "set", Old: "http://lists.example/a.txt", Loc: loc + "/", Enabled: true, White: true}, {Kind: "refresh", White: true},
					{Kind: "periodic", Due: []string{loc, loc + "/", "http://lists.example/a.txt"}}},
				[]string{"pre-unclean-pattern"})
		}
	}

	// The JSON side of add / set_url: other spellings of the same request
	// (key case, duplicate keys, a second value, escapes) for hostile and benign
	// locations, in both arrays; and bodies that must be refused without effect.
	for v := 0; v < 8; v++ {
		var ops []c17Op
		for i, loc := range []string{R + "/secret/s.txt", "file://" + R + "/secret/s.txt", R + "/safe/a.txt", R + "/safe/../safe/b.lst ", R + "/safe/a.txt\x00", "", "http://lists.example/a.txt", R + "/safe/\xc3\xbc.txt"} {
			white := (i+v)%3 == 0
			ops = append(ops, c17Op{Kind: "add", Loc: loc, White: white, Raw: c17RawAdd(v, loc, white)})
		}
		ops = append(ops, c17Op{Kind: "refresh"}, c17Op{Kind: "refresh", White: true})
		c17History(t, out, tr, dataDir, safe, nil, nil, ops, []string{"pre-add-raw-json"})
	}
	for _, loc := range []string{R + "/secret/s.txt", R + "/safe/a.txt", "http://lists.example/a.txt"} {
		ops := []c17Op{{Kind: "refresh"}}
		ops = append(ops, c17Probes(loc, R+"/safe/b.lst")...)
		ops = append(ops, c17Op{Kind: "refresh"}, c17Op{Kind: "refresh", White: true})
		c17History(t, out, tr, dataDir, safe, []c17Plant{{URL: R + "/safe/b.lst", Enabled: true}}, []c17Plant{{URL: "http://lists.example/a.txt", Enabled: true}}, ops, []string{"pre-json-probes"})
	}

	// The glob space: a file named exactly like a configured pattern that does
	// not match its own text (class, escape, negated class) must not be read at
	// any entry point, the file the pattern does match may; and patterns that
	// legitimately match a name with brackets in it.
	type c17TextPre struct {
		pats          []string
		good, hostile string
	}
	for _, tp := range []c17TextPre{
		{[]string{R + "/safe/[ab].txt"}, R + "/safe/a.txt", R + "/safe/[ab].txt"},
		{[]string{R + "/safe/\\*.txt"}, R + "/safe/*.txt", R + "/safe/\\*.txt"},
		{[]string{R + "/safe/[^a].txt", R + "/safe/[a-b].txt"}, R + "/safe/A.txt", R + "/safe/[^a].txt"},
		{[]string{R + "/safe/?[!a-b].txt", R + "/safe/[ab].tx[t]"}, R + "/safe/a.txt", R + "/safe/[ab].txt"},
		{[]string{R + "/safe/[[]ab].txt"}, R + "/safe/[ab].txt", R + "/safe/a.txt"},
		{[]string{R + "/safe/\\[ab\\].txt", R + "/safe/\\[^a].txt"}, R + "/safe/[^a].txt", R + "/safe/\\*.txt"},
	} {
		h := tp.hostile
		c17History(t, out, tr, dataDir, tp.pats, nil, nil,
			[]c17Op{{Kind: "add", Loc: h}, {Kind: "add", Loc: tp.good}, {Kind: "add", Loc: h + "/.", White: true}}, []string{"pre-add-pattern-text", "glob-space"})
		c17History(t, out, tr, dataDir, tp.pats, []c17Plant{{URL: tp.good, Enabled: true}}, nil,
			[]c17Op{{Kind: "refresh"}, {Kind: "set", Old: tp.good, Loc: h, Enabled: true}, {Kind: "refresh"}}, []string{"pre-set-pattern-text", "glob-space"})
		c17History(t, out, tr, dataDir, tp.pats, []c17Plant{{URL: h, Enabled: true}, {URL: tp.good, Enabled: true}}, []c17Plant{{URL: R + "/safe/../safe/" + filepath.Base(h), Enabled: true, Loaded: 77}},
			[]c17Op{{Kind: "refresh"}, {Kind: "refresh", White: true}}, []string{"pre-refresh-pattern-text", "glob-space"})
		c17History(t, out, tr, dataDir, tp.pats, []c17Plant{{URL: h, Enabled: true}}, []c17Plant{{URL: tp.good, Enabled: true}, {URL: h + "/", Enabled: true}},
			[]c17Op{{Kind: "periodic", Due: []string{tp.good}}, {Kind: "periodic", Due: []string{h, h + "/"}}}, []string{"pre-periodic-pattern-text", "glob-space", "periodic"})
	}

	// every curated glob text alone as the pattern R/g/<text>, with the file of
	// that name (and the candidates) on disk: planted and refreshed, offered to
	// add in another spelling, set as the URL of an http list
	for _, name := range c17GlobNames {
		own := R + "/g/" + name
		extra := []c17Extra{{Rel: "g/" + name, Marker: 21}}
		for i, cand := range []string{"a", "b", "ab", "x", "*", "[", "ax", "bb", "^"} {
			if cand != name {
				extra = append(extra, c17Extra{Rel: "g/" + cand, Marker: 31 + i})
			}
		}
		c17HistoryX(t, out, tr, dataDir, extra, []string{own},
			[]c17Plant{{URL: own, Enabled: true}, {URL: "http://lists.example/a.txt", Enabled: true}}, []c17Plant{{URL: R + "/g/a", Enabled: true}},
			[]c17Op{{Kind: "refresh"}, {Kind: "add", Loc: R + "/g/../g/" + name}, {Kind: "set", Old: "http://lists.example/a.txt", Loc: own + "/", Enabled: true}, {Kind: "refresh", White: true}, {Kind: "periodic", Due: []string{own, own + "/", R + "/g/a"}}},
			[]string{"pre-glob-name", "glob-space"})
	}

	// (round 8) Percent signs in local locations.  A location is used as
	// spelled: what is checked against the patterns and what is opened is the
	// same string, clean(loc); no decoding in between.  The tree has files
	// whose names literally contain the sequences, inside safe/: under
	// safe/* they are read (their own content), never the file their decoded
	// name would be; spellings without such a file are refused.
	pctLocs := []string{
		R + "/safe/..%2Fother.txt", R + "/safe/..%2fsecret%2Fs.txt", R + "/safe/%2E%2E%2Fother.txt", R + "/safe/..%252Fother.txt",
		R + "/safe/%61.txt", R + "/safe/b%00.lst", R + "/safe/..%5Cother.txt",
		// no file of that literal name
		R + "/safe/..%2Fsecret%2Fs.txt", R + "/safe/..%2Fsecret/s.txt", R + "/safe/%2E%2E/other.txt", R + "/safe/%2e%2e%2fother.txt",
		R + "/safe/sub%2F..%2F..%2Fother.txt", R + "/safe%2F..%2Fother.txt", R + "%2Fsafe%2Fa.txt", R + "/safe/a%2Etxt", R + "/safe/%61%2Etxt",
		R + "/safe/a.txt%00", R + "/safe/a.txt%", R + "/safe/%zz/../a.txt", R + "/safe/..%2F..%2F..%2F..%2F..%2F..%2Fetc%2Fpasswd",
		R + "/safe/./..%2Fother.txt/", R + "/safe/x/../..%2Fother.txt", "file://" + R + "/safe/..%2Fother.txt", R + "/secret/..%2Fsafe%2Fa.txt",
	}
	for _, pats := range [][]string{safe, {R + "/safe/*.txt", R + "/safe/*.lst"}, {R + "/safe/..%2Fother.txt"}, {R + "/*/*"}, nil} {
		for _, l := range pctLocs {
			c17History(t, out, tr, dataDir, pats, nil, nil, []c17Op{{Kind: "add", Loc: l}, {Kind: "refresh"}}, []string{"pre-add-percent", "loc-percent"})
			c17History(t, out, tr, dataDir, pats, []c17Plant{{URL: R + "/safe/a.txt", Enabled: true}, {URL: l, Enabled: true}}, []c17Plant{{URL: l + "/.", Enabled: true, Loaded: 77}},
				[]c17Op{{Kind: "refresh"}, {Kind: "refresh", White: true}, {Kind: "set", Old: R + "/safe/a.txt", Loc: l + "/", Enabled: true}, {Kind: "periodic", Due: []string{l, l + "/", l + "/."}}},
				[]string{"pre-refresh-percent", "pre-set-percent", "pre-periodic-percent", "loc-percent"})
		}
	}

	// (round 8) Opens, not content: a named pipe outside every pattern is the
	// location of enabled lists of the configuration.  Refresh and the periodic
	// path must refuse it without opening it (a reader that opens first blocks
	// in open(2); c17DoWatched sees the waiting reader and releases it).
	if !c17FifoDone {
		for i, pats := range [][]string{safe, nil, {R + "/safe/*", R + "/safe2/*.txt", R + "/secret/*.txt"}} {
			pipe := R + "/secret/pipe"
			_ = os.Remove(pipe)
			if err := syscall.Mkfifo(pipe, 0o644); err != nil {
				t.Fatalf("mkfifo: %v", err)
			}
			c17WatchFifos = []string{pipe}
			spelled := R + "/safe/../secret/./pipe"
			c17History(t, out, tr, dataDir, pats, []c17Plant{{URL: pipe, Enabled: true}, {URL: R + "/safe/a.txt", Enabled: true}}, []c17Plant{{URL: spelled, Enabled: true, Loaded: 77}},
				[]c17Op{{Kind: "refresh"}, {Kind: "refresh", White: true}, {Kind: "periodic", Due: []string{pipe, spelled}}},
				[]string{"pre-fifo-outside-patterns", fmt.Sprintf("pre-fifo-%d", i)})
			c17WatchFifos = nil
			_ = os.Remove(pipe)
		}
	}

	rnd := vfNewRand(out.Seed)
	// generated patterns, each with a file named like its own text
	rgl := rnd.Fork(5)
	for i, n := 0, out.Scale(70, 1500); i < n; i++ {
		pats, extra, block, allow, ops, cls := c17GenGlobHistory(rgl, tr)
		c17HistoryX(t, out, tr, dataDir, extra, pats, block, allow, ops, cls)
	}
	rh := rnd.Fork(1)
	n := out.Scale(400, 4000)
	for i := 0; i < n; i++ {
		pats := sets[rh.Intn(len(sets))]
		if rh.Chance(1, 3) {
			pats = sets[1+rh.Intn(7)]
		}
		block, allow, ops, cls := c17GenHistory(rh, tr, 2+rh.Intn(6))
		c17History(t, out, tr, dataDir, pats, block, allow, ops, cls)
	}

	// validateFilterURL and reader alone, every pattern set.
	rv := rnd.Fork(2)
	per := out.Scale(40, 300)
	for _, pats := range sets {
		d, err := c17New(t, dataDir, pats, nil, nil)
		if err != nil {
			out.Class("pattern-rejected-at-config")
			continue
		}
		for i := 0; i < per; i++ {
			loc, cl := c17Loc(rv, tr)
			c17EmitValidate(out, tr, d, pats, loc, cl)
			loc, cl = c17Loc(rv, tr)
			c17EmitReader(out, tr, d, pats, loc, cl)
		}
		d.Close()
	}

	// differential streams
	rg := rnd.Fork(3)
	n = out.Scale(3000, 60000)
	for i := 0; i < n; i++ {
		pat := c17GenPattern(rg)
		c17EmitGlob(out, pat, c17GenName(rg))
		// the pattern's own text as a name: equal text is not a match
		c17EmitGlob(out, pat, pat)
	}
	for _, name := range c17GlobNames {
		c17EmitGlob(out, R+"/g/"+name, R+"/g/"+name)
		c17EmitGlob(out, name, name)
	}
	for _, pats := range sets {
		for _, g := range pats {
			for _, p := range append(append([]string{}, tr.order...), "test", R+"/safe", R+"/safe/sub") {
				c17EmitGlob(out, g, p)
			}
		}
	}
	rc := rnd.Fork(4)
	n = out.Scale(800, 15000)
	for i := 0; i < n; i++ {
		loc, _ := c17Loc(rc, tr)
		if rc.Bool() {
			loc = strings.TrimPrefix(loc, R)
		}
		c17EmitClean(out, loc)
	}
}

//go:build verif

package filtering

// C14, round 5: list files under OVERLAPPING downloads and under set_url.
//
// (I) Several list downloads of one DNSFilter overlap in time, started through
// the real entry points (periodic/forced refresh, add_url handler, set_url
// handler), which call DNSFilter.update without a common lock and draw their
// scanner buffers from the one bufPool.  The bodies are delivered by an
// http.RoundTripper chunk by chunk; in the gated mode every Read (and every
// RoundTrip) waits for the harness, so that exactly one download moves at a
// time and the order of the moves is the schedule of the case: deterministic,
// no sleeps, nothing judged on time.  Rules are split across chunk boundaries
// and every line of a body names its list.  Monitor: when all calls have
// returned, each list's file is the normal form of ITS OWN complete body or
// the previous version; no line of another list, no partial line.  In the
// free-running mode (no gates, runtime.Gosched between chunks) the same
// entry points race for real; the thorough tier runs under -race.
//
// (J) filterSetProperties on a list that was downloaded before: URL change /
// re-enable / both / disable / a URL that is taken, against sources that work,
// serve the same contents, serve no rules, answer 404, are down, serve HTML /
// a binary character / a cut body, or while no temporary file can be created.
// Monitor: a call that reports an error, and every call whose download cannot
// produce a complete list, leaves the stored file byte-identical and present.
//
// (L, round 6) The HTTP status space of a list download: see
// zz_verif_C14status_test.go (same test entry).  The set_url matrix of (J)
// gets sources with the statuses 203 / 204 / 206.

import (
	"bytes"
	"encoding/json"
	"errors"
	"fmt"
	"io"
	"net/http"
	"net/http/httptest"
	"os"
	"path/filepath"
	"runtime"
	"sort"
	"strings"
	"sync"
	"syscall"
	"testing"
	"time"

	"github.com/AdguardTeam/AdGuardHome/internal/filtering/rulelist"
)

// c14lStall bounds every wait of the harness on the code under test.  It is a
// guard against a hung run (reported as a harness failure), not a verdict.
const c14lStall = 3 * time.Minute

type c14lEv struct {
	src  *c14lSrc
	kind string // "arrive" (RoundTrip entered), "want" (Read entered), "closed" (body closed)
}

// c14lSrc is one source of a list: what the server of its host does.
type c14lSrc struct {
	host   string
	status int // 0 / 200: the body is served
	// bodyAnyStatus: the chunks are served whatever the status is
	bodyAnyStatus bool
	down          bool // the connection cannot be made
	chunks        [][]byte
	cut           bool // after the chunks the body ends in an error instead of EOF
	gated         bool
	yield         bool // free-running: runtime.Gosched() before every chunk
	ev            chan c14lEv
	start         chan struct{}
	rel           chan struct{}
}

func (s *c14lSrc) body() []byte { return bytes.Join(s.chunks, nil) }

type c14lBody struct {
	src *c14lSrc
	idx int
	cur []byte
	off int
}

func (b *c14lBody) Read(p []byte) (n int, err error) {
	s := b.src
	if b.off < len(b.cur) {
		// the rest of a chunk that did not fit the caller's buffer: same step
		n = copy(p, b.cur[b.off:])
		b.off += n
		return n, nil
	}
	if s.gated {
		s.ev <- c14lEv{s, "want"}
		<-s.rel
	} else if s.yield {
		runtime.Gosched()
	}
	if b.idx >= len(s.chunks) {
		if s.cut {
			return 0, io.ErrUnexpectedEOF
		}
		return 0, io.EOF
	}
	b.cur = s.chunks[b.idx]
	b.idx++
	n = copy(p, b.cur)
	b.off = n
	return n, nil
}

func (b *c14lBody) Close() error {
	if b.src.gated {
		b.src.ev <- c14lEv{b.src, "closed"}
	}
	return nil
}

// c14lRT serves the sources by host name.
type c14lRT struct {
	mu   sync.Mutex
	srcs map[string]*c14lSrc
}

func (rt *c14lRT) set(s *c14lSrc) {
	rt.mu.Lock()
	rt.srcs[s.host] = s
	rt.mu.Unlock()
}

func (rt *c14lRT) RoundTrip(r *http.Request) (*http.Response, error) {
	rt.mu.Lock()
	s := rt.srcs[r.URL.Host]
	rt.mu.Unlock()
	if s == nil {
		return nil, fmt.Errorf("c14: no such host %q", r.URL.Host)
	}
	if s.gated {
		s.ev <- c14lEv{s, "arrive"}
		<-s.start
	}
	if s.down {
		return nil, &c14lDialErr{host: s.host}
	}
	st := s.status
	if st == 0 {
		st = 200
	}
	resp := &http.Response{
		Status: fmt.Sprintf("%d %s", st, http.StatusText(st)), StatusCode: st,
		Proto: "HTTP/1.1", ProtoMajor: 1, ProtoMinor: 1, Header: http.Header{}, Request: r,
		ContentLength: -1,
	}
	if st == 200 || s.bodyAnyStatus {
		// round 6: a source may send its chunks with any status (206 with a
		// part of the list, 203 with all of it, 204 with nothing)
		resp.Body = &c14lBody{src: s}
	} else {
		resp.Body = io.NopCloser(strings.NewReader("not here\n"))
	}
	return resp, nil
}

type c14lDialErr struct{ host string }

func (e *c14lDialErr) Error() string { return "dial tcp " + e.host + ": connect: connection refused" }

// c14lChunks cuts body into pieces of 1..maxLen bytes.
func c14lChunks(r *vfRand, body []byte, maxLen int) (chunks [][]byte) {
	for len(body) > 0 {
		n := 1 + r.Intn(maxLen)
		if n > len(body) {
			n = len(body)
		}
		chunks = append(chunks, body[:n])
		body = body[n:]
	}
	return chunks
}

// c14lBodyOf makes a list body whose every line names the list: rules,
// comments of both kinds, blank lines; no white space but the newline.
func c14lBodyOf(r *vfRand, tag string, rules int, lastNL bool) []byte {
	var b bytes.Buffer
	for k := 0; k < rules; k++ {
		switch r.Intn(9) {
		case 0:
			fmt.Fprintf(&b, "#comment-%d-of-%s\n", k, tag)
		case 1:
			fmt.Fprintf(&b, "!note-%d-of-%s\n", k, tag)
		case 2:
			b.WriteString("\n")
		}
		switch r.Intn(3) {
		case 0:
			fmt.Fprintf(&b, "||r%d.%s.example^\n", k, tag)
		case 1:
			fmt.Fprintf(&b, "0.0.0.0\tr%d.%s.example\n", k, tag)
		default:
			fmt.Fprintf(&b, "||r%d.%s.example^$client=%s\n", k, tag, strings.Repeat("c", r.Intn(40)))
		}
	}
	out := b.Bytes()
	if !lastNL && len(out) > 0 {
		out = out[:len(out)-1] // the scanner terminates the last line itself
	}
	return out
}

// c14lStored is the normal form of a complete body of the generated fragment,
// stated without the parser: rule lines, each followed by a newline.
func c14lStored(body []byte) []byte {
	var b bytes.Buffer
	for _, ln := range bytes.Split(body, []byte("\n")) {
		if len(ln) == 0 || ln[0] == '!' || ln[0] == '#' {
			continue
		}
		b.Write(ln)
		b.WriteByte('\n')
	}
	return b.Bytes()
}

func c14lData(b []byte) string { return vfBytes(string(b)) }

func c14lOptData(present bool, b []byte) string {
	return vfOpt("list N", present, c14lData(b))
}

func c14lChunkList(chunks [][]byte) string {
	items := make([]string, len(chunks))
	for i, c := range chunks {
		items[i] = c14lData(c)
	}
	return vfList("list N", items)
}

func c14lReadFile(p string) (b []byte, present bool, err error) {
	b, err = os.ReadFile(p)
	if errors.Is(err, os.ErrNotExist) {
		return nil, false, nil
	}
	if err != nil {
		return nil, false, err
	}
	if b == nil {
		b = []byte{}
	}
	return b, true, nil
}

func c14lShort(b []byte) string {
	s := string(b)
	if len(s) > 160 {
		s = s[:160] + "..."
	}
	return fmt.Sprintf("%q", s)
}

// one list of an overlap scenario
type c14lList struct {
	n      int // Coq id, 1-based
	kind   int // 0 refresh, 1 add_url, 2 set_url with a new URL
	tag    string
	src    *c14lSrc
	old    []byte
	hasOld bool
	fid    int64
	// control
	arrived, started, closed bool
}

func TestVerifC14Lists(t *testing.T) {
	out := vfOpen(t, "C14lists")
	defer out.Close()
	rnd := vfNewRand(out.Seed)

	c14lOverlap(t, out, rnd)
	c14lSetURL(t, out, rnd)
	c14lStatus(t, out, rnd)
	c14lIDs(t, out, rnd)
	c14lRemove(t, out, rnd)
}

// ---------------------------------------------------------------- (I)

type c14lScenario struct {
	name     string
	lists    []*c14lList
	gated    bool
	oneP     bool  // GOMAXPROCS(1): sync.Pool hands a buffer put back to the next Get
	sched    []int // list numbers, gated mode
	classes  []string
	nontrivl bool
}

func c14lOverlap(t *testing.T, out *vfOut, rnd *vfRand) {
	// ---- prelude: one constructed scenario per pair of entry points; the first
	// list is stalled in the middle of a rule while the second one runs from its
	// start to its end, then the first one goes on.
	mk := func(n, kind int, tag string, chunks []string, cut bool, old string) *c14lList {
		l := &c14lList{n: n, kind: kind, tag: tag, src: &c14lSrc{host: tag + ".c14.example", cut: cut}}
		for _, c := range chunks {
			l.src.chunks = append(l.src.chunks, []byte(c))
		}
		if old != "" {
			l.old, l.hasOld = []byte(old), true
		}
		return l
	}
	slow := []string{"||one.slow.example^\n||tw", "o.slow.example^\n||three.slow.example^\n"}
	fast := []string{strings.Repeat("||rule.fast.example^\n", 16)}
	stalled := []int{1, 1, 2, 2, 2, 1, 1}
	kinds := []string{"refresh", "add_url", "set_url"}
	for a := 0; a < 3; a++ {
		for b := 0; b < 3; b++ {
			if a == 2 && b == 2 {
				continue // two set_url calls exclude each other (filtersMu)
			}
			if a == 0 && b == 0 {
				continue // one refresh downloads its lists one after another
			}
			la := mk(1, a, "slow", slow, false, "||old.slow.example^\n")
			lb := mk(2, b, "fast", fast, false, "||old.fast.example^\n")
			for _, l := range []*c14lList{la, lb} {
				if l.kind == 1 {
					l.old, l.hasOld = nil, false
				}
			}
			sc := &c14lScenario{name: "stalled-" + kinds[a] + "-vs-" + kinds[b], lists: []*c14lList{la, lb}, gated: true, oneP: true,
				sched: stalled, classes: []string{"overlap-prelude"}}
			c14lRun(t, out, sc)
		}
	}
	// three lists, the third one cut in the middle of a rule; a body of comments only
	{
		l1 := mk(1, 0, "la", []string{"||a1.la.example^\n||a2.l", "a.example^\n#c.la\n||a3.la.exam", "ple^"}, false, "||old.la.example^\n")
		l2 := mk(2, 1, "lb", []string{"||b1.lb.ex", "ample^\n||b2.lb.example^\n"}, false, "")
		l3 := mk(3, 2, "lc", []string{"||c1.lc.example^\n||c2.lc.ex", "ample^\n||c3.l"}, true, "||old.lc.example^\n")
		c14lRun(t, out, &c14lScenario{name: "three-lists-one-cut", lists: []*c14lList{l1, l2, l3}, gated: true, oneP: true,
			sched: []int{1, 2, 3, 1, 3, 2, 1, 2, 3, 3, 1, 2, 1}, classes: []string{"overlap-prelude", "overlap-cut"}})
		l4 := mk(1, 0, "ld", []string{"#only.ld\n!comm", "ents.ld\n"}, false, "||old.ld.example^\n")
		l5 := mk(2, 2, "le", []string{"#only.le\n", "\n!nothing.le\n"}, false, "||old.le.example^\n")
		c14lRun(t, out, &c14lScenario{name: "no-rules", lists: []*c14lList{l4, l5}, gated: true, oneP: false,
			sched: []int{1, 2, 1, 2, 2, 1, 1, 2}, classes: []string{"overlap-prelude", "overlap-no-rules"}})
	}

	// ---- random scenarios
	gen := func(k int, gated bool) *c14lScenario {
		r := rnd.Fork(uint64(1000 + k))
		sc := &c14lScenario{name: fmt.Sprintf("random-%d", k), gated: gated, oneP: r.Chance(2, 3)}
		nref, nadd, nset := r.Intn(3), r.Intn(3), r.Intn(2)
		if nref+nadd+nset < 2 {
			nref, nadd = 1, 1
		}
		n := 0
		add := func(kind int) {
			n++
			tag := fmt.Sprintf("l%d-%d", k, n)
			l := &c14lList{n: n, kind: kind, tag: tag, src: &c14lSrc{host: tag + ".c14.example"}}
			rules := 1 + r.Intn(8)
			if r.Chance(1, 12) {
				rules = 0
			}
			body := c14lBodyOf(r, tag, rules, r.Chance(3, 4))
			if rules == 0 {
				body = []byte("#nothing-in-" + tag + "\n")
			}
			maxc := 1 + r.Intn(60)
			l.src.chunks = c14lChunks(r, body, maxc)
			l.src.cut = r.Chance(1, 6)
			if kind != 1 && r.Chance(3, 4) {
				l.old, l.hasOld = []byte("||old."+tag+".example^\n"), true
				if r.Chance(1, 8) && !l.src.cut {
					l.old = c14lStored(body) // the refresh brings the same contents
					l.hasOld = len(l.old) > 0
				}
			}
			if kind == 2 && !l.hasOld {
				l.old, l.hasOld = []byte("||old."+tag+".example^\n"), true
			}
			sc.lists = append(sc.lists, l)
		}
		for i := 0; i < nref; i++ {
			add(0)
		}
		for i := 0; i < nadd; i++ {
			add(1)
		}
		for i := 0; i < nset; i++ {
			add(2)
		}
		// threads: the refresh downloads its lists one after another; every handler call is a thread
		var threads [][]int
		var ref []int
		for _, l := range sc.lists {
			steps := make([]int, 2+len(l.src.chunks))
			for i := range steps {
				steps[i] = l.n
			}
			if l.kind == 0 {
				ref = append(ref, steps...)
			} else {
				threads = append(threads, steps)
			}
		}
		if len(ref) > 0 {
			threads = append(threads, ref)
		}
		for {
			var live []int
			for i, th := range threads {
				if len(th) > 0 {
					live = append(live, i)
				}
			}
			if len(live) == 0 {
				break
			}
			i := live[r.Intn(len(live))]
			// runs of steps, so that a download is sometimes stalled for long
			for run := 1 + r.Intn(4); run > 0 && len(threads[i]) > 0; run-- {
				sc.sched = append(sc.sched, threads[i][0])
				threads[i] = threads[i][1:]
			}
		}
		sc.classes = []string{"overlap-random"}
		return sc
	}
	for k := 0; k < out.Scale(14, 250); k++ {
		c14lRun(t, out, gen(k, true))
	}
	for k := 0; k < out.Scale(6, 150); k++ {
		sc := gen(500+k, false)
		sc.name = fmt.Sprintf("free-%d", k)
		c14lRun(t, out, sc)
	}
}

func c14lRun(t *testing.T, out *vfOut, sc *c14lScenario) {
	if sc.oneP {
		prev := runtime.GOMAXPROCS(1)
		defer runtime.GOMAXPROCS(prev)
	}
	dataDir := t.TempDir()
	if err := os.MkdirAll(filepath.Join(dataDir, filterDir), 0o755); err != nil {
		t.Fatal(err)
	}
	ev := make(chan c14lEv, 4096)
	rt := &c14lRT{srcs: map[string]*c14lSrc{}}
	conf := &Config{
		DataDir:                    dataDir,
		FilteringEnabled:           true,
		FiltersUpdateIntervalHours: 24,
		HTTPClient:                 &http.Client{Transport: rt},
		ConfigModified:             func() {},
	}
	var setOldURL string
	for _, l := range sc.lists {
		l.src.gated, l.src.yield, l.src.ev = sc.gated, !sc.gated, ev
		l.src.start, l.src.rel = make(chan struct{}), make(chan struct{})
		rt.set(l.src)
		l.fid = int64(1400000 + l.n)
		url := "http://" + l.src.host + "/list.txt"
		switch l.kind {
		case 0:
			conf.Filters = append(conf.Filters, FilterYAML{Enabled: true, URL: url, Name: l.tag, Filter: Filter{ID: rulelist.URLFilterID(l.fid)}})
		case 2:
			setOldURL = "http://former-" + l.src.host + "/list.txt"
			conf.WhitelistFilters = append(conf.WhitelistFilters, FilterYAML{Enabled: true, URL: setOldURL, Name: l.tag, Filter: Filter{ID: rulelist.URLFilterID(l.fid)}, white: true})
		}
		if l.hasOld {
			if err := os.WriteFile(filepath.Join(dataDir, filterDir, fmt.Sprintf("%d.txt", l.fid)), l.old, 0o644); err != nil {
				t.Fatal(err)
			}
		}
	}
	d, err := New(conf, nil)
	if err != nil {
		t.Fatal(err)
	}
	defer d.Close()
	d.filtersInitializerChan = make(chan filtersInitializerParams, 1)

	var wg sync.WaitGroup
	var panics sync.Map
	launch := func(name string, f func()) {
		wg.Add(1)
		go func() {
			defer wg.Done()
			defer func() {
				if p := recover(); p != nil {
					panics.Store(name, fmt.Sprint(p))
				}
			}()
			f()
		}()
	}
	codes := map[int]int{}
	var codesMu sync.Mutex
	refresh := func() { d.tryRefreshFilters(true, false, true) }
	addURL := func(l *c14lList) func() {
		return func() {
			body, _ := json.Marshal(filterAddJSON{Name: l.tag, URL: "http://" + l.src.host + "/list.txt"})
			w := httptest.NewRecorder()
			d.handleFilteringAddURL(w, httptest.NewRequest(http.MethodPost, "/control/filtering/add_url", bytes.NewReader(body)))
			codesMu.Lock()
			codes[l.n] = w.Code
			codesMu.Unlock()
		}
	}
	setURL := func(l *c14lList) func() {
		return func() {
			body, _ := json.Marshal(filterURLReq{URL: setOldURL, Whitelist: true,
				Data: &filterURLReqData{Name: l.tag, URL: "http://" + l.src.host + "/list.txt", Enabled: true}})
			w := httptest.NewRecorder()
			d.handleFilteringSetURL(w, httptest.NewRequest(http.MethodPost, "/control/filtering/set_url", bytes.NewReader(body)))
			codesMu.Lock()
			codes[l.n] = w.Code
			codesMu.Unlock()
		}
	}

	byNum := map[int]*c14lList{}
	for _, l := range sc.lists {
		byNum[l.n] = l
	}
	stallMsg := ""
	// next waits for an event of l among kinds; arrivals of other lists are noted
	next := func(l *c14lList, kinds ...string) string {
		for {
			select {
			case e := <-ev:
				var el *c14lList
				for _, x := range sc.lists {
					if x.src == e.src {
						el = x
					}
				}
				if e.kind == "arrive" {
					el.arrived = true
				}
				if e.kind == "closed" {
					el.closed = true
				}
				if el == l {
					for _, k := range kinds {
						if k == e.kind {
							return k
						}
					}
				}
			case <-time.After(c14lStall):
				stallMsg = fmt.Sprintf("%s: no %v from list %d within %s", sc.name, kinds, l.n, c14lStall)
				return ""
			}
		}
	}

	hasRefresh := false
	for _, l := range sc.lists {
		if l.kind == 0 {
			hasRefresh = true
		}
	}
	if sc.gated {
		// launch in an order that lets every call reach its download: the refresh
		// collects its lists and add_url checks for duplicates before set_url
		// takes filtersMu for the whole of its download
		if hasRefresh {
			launch("refresh", refresh)
			for _, l := range sc.lists {
				if l.kind == 0 {
					if next(l, "arrive") == "" {
						t.Fatal(stallMsg)
					}
					break
				}
			}
		}
		for _, k := range []int{1, 2} {
			for _, l := range sc.lists {
				if l.kind == k {
					if k == 1 {
						launch(fmt.Sprintf("add_url-%d", l.n), addURL(l))
					} else {
						launch(fmt.Sprintf("set_url-%d", l.n), setURL(l))
					}
					if next(l, "arrive") == "" {
						t.Fatal(stallMsg)
					}
				}
			}
		}
		for _, n := range sc.sched {
			l := byNum[n]
			if l.closed {
				t.Fatalf("%s: schedule has a step for list %d after its end", sc.name, n)
			}
			if !l.started {
				if !l.arrived && next(l, "arrive") == "" {
					t.Fatal(stallMsg)
				}
				l.started = true
				l.src.start <- struct{}{}
			} else {
				l.src.rel <- struct{}{}
			}
			if next(l, "want", "closed") == "" {
				t.Fatal(stallMsg)
			}
		}
		for _, l := range sc.lists {
			if !l.closed {
				t.Fatalf("%s: list %d has not ended with the schedule", sc.name, l.n)
			}
		}
	} else {
		if hasRefresh {
			launch("refresh", refresh)
		}
		for _, l := range sc.lists {
			switch l.kind {
			case 1:
				launch(fmt.Sprintf("add_url-%d", l.n), addURL(l))
			case 2:
				launch(fmt.Sprintf("set_url-%d", l.n), setURL(l))
			}
		}
		// a nominal schedule for the model: the result does not depend on it
		// (C14_overlapping_saves_independent)
		sc.sched = nil
		for _, l := range sc.lists {
			for i := 0; i < 2+len(l.src.chunks); i++ {
				sc.sched = append(sc.sched, l.n)
			}
		}
	}
	done := make(chan struct{})
	go func() { wg.Wait(); close(done) }()
	select {
	case <-done:
	case <-time.After(c14lStall):
		t.Fatalf("%s: the calls have not returned within %s", sc.name, c14lStall)
	}

	// ---- observe and judge
	var fails []string
	fail := func(key, format string, a ...any) { fails = append(fails, key+"\x00"+fmt.Sprintf(format, a...)) }
	panics.Range(func(k, v any) bool {
		fail("C14/list-call-panicked", "%s panicked: %v", k, v)
		return true
	})
	known := map[string]bool{}
	var obsItems, listItems []string
	desc := map[string]any{"scenario": sc.name, "gated": sc.gated, "one_P": sc.oneP, "schedule": sc.sched}
	var dl []any
	for _, l := range sc.lists {
		if l.kind == 1 {
			// the id add_url gave the list, if it was added
			l.fid = 0
			d.conf.filtersMu.RLock()
			for _, f := range d.conf.Filters {
				if f.URL == "http://"+l.src.host+"/list.txt" {
					l.fid = int64(f.ID)
				}
			}
			d.conf.filtersMu.RUnlock()
		}
		var got []byte
		present := false
		if l.fid != 0 {
			name := fmt.Sprintf("%d.txt", l.fid)
			known[name] = true
			var rerr error
			got, present, rerr = c14lReadFile(filepath.Join(dataDir, filterDir, name))
			if rerr != nil {
				t.Fatal(rerr)
			}
		}
		body := l.src.body()
		want := c14lStored(body)
		// the lines a file of this list may hold
		own := map[string]bool{}
		for _, ln := range bytes.Split(want, []byte("\n")) {
			own[string(ln)] = true
		}
		for _, ln := range bytes.Split(l.old, []byte("\n")) {
			own[string(ln)] = true
		}
		kind := kinds3[l.kind]
		if present {
			for _, ln := range bytes.Split(got, []byte("\n")) {
				if !own[string(ln)] {
					fail("C14/list-file-mixed", "%s: the file of list %d (%s, %s) holds the line %q, which is neither a rule of its own body nor of its previous version: a MIXED or truncated file was put in place (file: %s)",
						sc.name, l.n, l.tag, kind, ln, c14lShort(got))
					break
				}
			}
		}
		oldSame := func() bool { return present == l.hasOld && bytes.Equal(got, l.old) }
		switch {
		case l.src.cut:
			if !oldSame() {
				fail("C14/failed-download-changed-file", "%s: the download of list %d (%s) was cut, but its file changed: present=%v %s (before: present=%v %s)",
					sc.name, l.n, kind, present, c14lShort(got), l.hasOld, c14lShort(l.old))
			}
		case l.kind == 2 && len(want) == 0:
			if present {
				fail("C14/list-file-not-own-version", "%s: list %d (set_url) got a body without rules and still has a file: %s", sc.name, l.n, c14lShort(got))
			}
		case l.kind != 2 && ((l.hasOld && bytes.Equal(want, l.old)) || (!l.hasOld && len(want) == 0)):
			if !oldSame() {
				fail("C14/list-file-not-own-version", "%s: list %d (%s) was served what it had, but its file changed: present=%v %s", sc.name, l.n, kind, present, c14lShort(got))
			}
		default:
			if !present || !bytes.Equal(got, want) {
				fail("C14/list-file-not-own-version", "%s: the file of list %d (%s, %s) is not the normal form of its own complete body: present=%v, %d bytes %s; want %d bytes %s",
					sc.name, l.n, l.tag, kind, present, len(got), c14lShort(got), len(want), c14lShort(want))
			}
		}
		obsItems = append(obsItems, vfPair(vfN(uint64(l.n)), c14lOptData(present, got)))
		listItems = append(listItems, fmt.Sprintf("(%s, %s, %s, %s, %s)", vfN(uint64(l.n)), c14lChunkList(l.src.chunks), vfBool(l.src.cut),
			vfN(uint64(l.kind)), c14lOptData(l.hasOld, l.old)))
		dl = append(dl, map[string]any{"list": l.n, "entry": kind, "host": l.src.host, "chunks": c14lStrs(l.src.chunks), "cut": l.src.cut,
			"file_before": string(l.old), "file_after": string(got), "present_after": present, "http_code": codes[l.n]})
	}
	// nothing else may appear beside the list files (a download that was refused leaves nothing)
	ents, _ := os.ReadDir(filepath.Join(dataDir, filterDir))
	var stray []string
	for _, e := range ents {
		if !known[e.Name()] {
			stray = append(stray, e.Name())
		}
	}
	sort.Strings(stray)
	if len(stray) > 0 {
		b, _ := os.ReadFile(filepath.Join(dataDir, filterDir, stray[0]))
		fail("C14/list-stray-file", "%s: files beside the lists' own after all calls returned: %v (first: %s)", sc.name, stray, c14lShort(b))
	}
	desc["lists"] = dl
	sitems := make([]string, len(sc.sched))
	for i, n := range sc.sched {
		sitems[i] = vfN(uint64(n))
	}
	cls := append([]string{"lists", "overlap"}, sc.classes...)
	if sc.gated {
		cls = append(cls, "overlap-gated")
	} else {
		cls = append(cls, "overlap-free-running")
	}
	if sc.oneP {
		cls = append(cls, "overlap-one-P")
	}
	seen := map[int]bool{}
	for _, l := range sc.lists {
		if !seen[l.kind] {
			cls = append(cls, "overlap-"+kinds3[l.kind])
			seen[l.kind] = true
		}
		if l.src.cut {
			cls = append(cls, "overlap-cut")
		}
	}
	c := vfCase{
		Coq:        vfApp("COverlap", vfList("N * list (list N) * bool * N * option (list N)", listItems), vfList("N", sitems), vfList("N * option (list N)", obsItems)),
		Nontrivial: len(sc.lists) >= 2,
		Classes:    cls,
		MonitorOK:  len(fails) == 0,
		Desc:       desc,
	}
	if len(fails) > 0 {
		p := strings.SplitN(fails[0], "\x00", 2)
		c.FindingKey, c.MonitorMsg = p[0], p[1]
	}
	out.Emit(c)
}

var kinds3 = []string{"refresh", "add_url", "set_url"}

func c14lStrs(chunks [][]byte) []string {
	s := make([]string, len(chunks))
	for i, c := range chunks {
		s[i] = string(c)
	}
	return s
}

// ---------------------------------------------------------------- (J)

type c14lSource struct {
	name     string
	status   int
	down     bool
	body     func(old []byte) []byte
	cutAt    func(body []byte) int // >= 0: the body is cut after this many bytes
	cleanEnd bool                  // the cut body ends with a plain EOF (the range of a 206), not a broken connection
	nofile   bool                  // the temporary file cannot be created (EMFILE)
	fails    bool                  // cannot produce a complete new list
}

func c14lSetURL(t *testing.T, out *vfOut, rnd *vfRand) {
	good := func([]byte) []byte { return []byte("||new1.example^\n#c\n||new2.example^\n0.0.0.0\tnew3.example") }
	sources := []c14lSource{
		{name: "ok", body: good},
		{name: "same-contents", body: func(old []byte) []byte { return append([]byte("#again\n"), old...) }},
		{name: "no-rules", body: func([]byte) []byte { return []byte("#nothing\n\n!here\n") }},
		{name: "status-404", status: 404, fails: true},
		// round 6: 2xx statuses that are not 200, with the body they typically carry
		{name: "status-206-partial", status: 206, body: good, cutAt: func(b []byte) int { return len(b)/2 + 3 }, cleanEnd: true, fails: true},
		{name: "status-204-empty", status: 204, body: func([]byte) []byte { return []byte{} }, fails: true},
		{name: "status-203-complete", status: 203, body: good, fails: true},
		{name: "host-down", down: true, fails: true},
		{name: "html", body: func([]byte) []byte { return []byte("<!DOCTYPE html>\n<html><body>captive-portal</body></html>\n") }, fails: true},
		{name: "binary-char", body: func([]byte) []byte { return []byte("||b1.example^\n||b2\x01.example^\n||b3.example^\n") }, fails: true},
		{name: "cut-mid-rule", body: good, cutAt: func(b []byte) int { return len(b)/2 + 3 }, fails: true},
		{name: "cut-at-line-end", body: good, cutAt: func(b []byte) int { return bytes.IndexByte(b, '\n') + 1 }, fails: true},
		{name: "cut-at-start", body: good, cutAt: func([]byte) int { return 0 }, fails: true},
		{name: "no-temp-file", body: good, nofile: true, fails: true},
	}
	type request struct {
		name                   string
		wasEnabled             bool
		urlChanges, taken, enb bool
		// restart (round 7, M): the filtering module is started anew (the real
		// New over the same data directory and the entries as the configuration
		// file would carry them) between the preparation and the judged call
		restart bool
	}
	requests := []request{
		{"url-change", true, true, false, true, false},
		{"re-enable", false, false, false, true, false},
		{"re-enable-new-url", false, true, false, true, false},
		{"rename-only", true, false, false, true, false},
		{"disable", true, false, false, false, false},
		{"disable-new-url", true, true, false, false, false},
		{"url-taken", true, true, true, true, false},
		{"stay-disabled-new-url", false, true, false, false, false},
		{"re-enable-after-restart", false, false, false, true, true},
		{"re-enable-new-url-after-restart", false, true, false, true, true},
		{"url-change-after-restart", true, true, false, true, true},
		{"rename-only-after-restart", true, false, false, true, true},
	}
	k := 0
	for _, rq := range requests {
		for _, src := range sources {
			k++
			r := rnd.Fork(uint64(7000 + k))
			allow := k%2 == 0
			name := fmt.Sprintf("set-url/%s/%s", rq.name, src.name)

			dataDir := t.TempDir()
			rt := &c14lRT{srcs: map[string]*c14lSrc{}}
			first := &c14lSrc{host: "first.c14.example", chunks: [][]byte{[]byte("||stored1.example^\n||sto"), []byte("red2.example^\n")}}
			other := &c14lSrc{host: "other.c14.example", chunks: [][]byte{[]byte("||other.example^\n")}}
			rt.set(first)
			rt.set(other)
			firstURL, otherURL := "http://first.c14.example/list.txt", "http://other.c14.example/list.txt"
			entry := FilterYAML{Enabled: true, URL: firstURL, Name: "first", Filter: Filter{ID: 1400001}, white: allow}
			otherEntry := FilterYAML{Enabled: true, URL: otherURL, Name: "other", Filter: Filter{ID: 1400002}}
			conf := &Config{DataDir: dataDir, FilteringEnabled: true, FiltersUpdateIntervalHours: 24,
				HTTPClient: &http.Client{Transport: rt}, ConfigModified: func() {}}
			if allow {
				conf.WhitelistFilters = []FilterYAML{entry}
				conf.Filters = []FilterYAML{otherEntry}
			} else {
				conf.Filters = []FilterYAML{entry, otherEntry}
			}
			d, err := New(conf, nil)
			if err != nil {
				t.Fatal(err)
			}
			d.filtersInitializerChan = make(chan filtersInitializerParams, 1)
			// the list is downloaded for real first
			if n, _, ok := d.tryRefreshFilters(true, true, true); !ok || n != 2 {
				t.Fatalf("%s: preparing the stored lists: updated %d ok=%v", name, n, ok)
			}
			dst := entry.Path(dataDir)
			old, present, rerr := c14lReadFile(dst)
			if rerr != nil || !present || !bytes.Equal(old, c14lStored(first.body())) {
				t.Fatalf("%s: preparing the stored list: %v present=%v %q", name, rerr, present, old)
			}
			if !rq.wasEnabled {
				if _, err := d.filterSetProperties(firstURL, FilterYAML{Enabled: false, Name: "first", URL: firstURL}, allow); err != nil {
					t.Fatalf("%s: disabling the list: %v", name, err)
				}
			}
			if rq.restart {
				// what the configuration file carries of an entry: no checksum, no rule count
				plain := func(in []FilterYAML) (out []FilterYAML) {
					for _, f := range in {
						out = append(out, FilterYAML{Enabled: f.Enabled, URL: f.URL, Name: f.Name, Filter: Filter{ID: f.ID}, white: f.white})
					}
					return out
				}
				d.conf.filtersMu.RLock()
				fl, wl := plain(d.conf.Filters), plain(d.conf.WhitelistFilters)
				d.conf.filtersMu.RUnlock()
				d.Close()
				d, err = New(&Config{DataDir: dataDir, FilteringEnabled: true, FiltersUpdateIntervalHours: 24,
					HTTPClient: &http.Client{Transport: rt}, ConfigModified: func() {}, Filters: fl, WhitelistFilters: wl}, nil)
				if err != nil {
					t.Fatal(err)
				}
				d.filtersInitializerChan = make(chan filtersInitializerParams, 1)
			}
			// the source of the judged call
			newURL := firstURL
			host := first.host
			if rq.urlChanges {
				host = "second.c14.example"
				newURL = "http://second.c14.example/list.txt"
				if rq.taken {
					newURL, host = otherURL, other.host
				}
			}
			var body []byte
			if src.body != nil {
				body = src.body(old)
			}
			s := &c14lSrc{host: host, status: src.status, down: src.down, bodyAnyStatus: src.status != 0 && src.body != nil}
			sent := body
			if src.cutAt != nil {
				sent = body[:src.cutAt(body)]
				s.cut = !src.cleanEnd
			}
			if !(rq.urlChanges && rq.taken) {
				s.chunks = c14lChunks(r, sent, 1+r.Intn(30))
				rt.set(s)
			} else {
				s = other
			}
			var (
				restart bool
				serr    error
				pan     any
			)
			call := func() {
				defer func() { pan = recover() }()
				restart, serr = d.filterSetProperties(firstURL, FilterYAML{Enabled: rq.enb, Name: "renamed", URL: newURL}, allow)
			}
			if src.nofile {
				c14lNoFile(t, call)
			} else {
				call()
			}
			got, presentAfter, rerr := c14lReadFile(dst)
			if rerr != nil {
				t.Fatal(rerr)
			}
			d.Close()

			downloads := rq.enb && !(rq.urlChanges && rq.taken) && (rq.urlChanges || !rq.wasEnabled)
			// the final status of the source as the model gets it (0: no answer)
			status := 200
			if src.status != 0 {
				status = src.status
			}
			if src.down {
				status = 0
			}
			var fails []string
			fail := func(key, format string, a ...any) { fails = append(fails, key+"\x00"+fmt.Sprintf(format, a...)) }
			same := presentAfter && bytes.Equal(got, old)
			switch {
			case pan != nil:
				fail("C14/list-call-panicked", "%s: filterSetProperties panicked: %v", name, pan)
			case serr != nil && !same:
				fail("C14/failed-set-url-changed-file", "%s: filterSetProperties reported %q and the stored list, which held %d bytes, is %s afterwards: after a failed save the path holds neither the previous nor a complete new version",
					name, serr, len(old), c14lAfter(presentAfter, got))
			case downloads && src.fails && serr == nil:
				fail("C14/failed-set-url-unreported", "%s: the download cannot produce a complete list (%s) and filterSetProperties reported success; the stored list is %s", name, src.name, c14lAfter(presentAfter, got))
			case downloads && src.fails && !same:
				fail("C14/failed-set-url-changed-file", "%s: the download failed and the stored list is %s afterwards", name, c14lAfter(presentAfter, got))
			case !downloads && !same:
				fail("C14/set-url-without-download-changed-file", "%s: no download is made for this request and the stored list is %s afterwards", name, c14lAfter(presentAfter, got))
			case downloads && !src.fails && serr == nil:
				want := c14lStored(body)
				if len(want) == 0 && presentAfter {
					fail("C14/set-url-file-not-new-version", "%s: the new source has no rules and the stored list is still there: %s", name, c14lShort(got))
				}
				if len(want) > 0 && (!presentAfter || !bytes.Equal(got, want)) {
					fail("C14/set-url-file-not-new-version", "%s: the call succeeded and the stored list is %s, want %s", name, c14lAfter(presentAfter, got), c14lShort(want))
				}
			case downloads && !src.fails && serr != nil:
				fail("C14/set-url-failed-without-cause", "%s: a working source and filterSetProperties reported %q", name, serr)
			}
			fault := 0
			if src.nofile {
				fault = 1
			}
			cls := []string{"lists", "set-url", "set-url-" + rq.name, "set-url-src-" + src.name}
			if downloads && src.fails {
				cls = append(cls, "set-url-failed-download")
			}
			if downloads && !src.fails && len(c14lStored(body)) == 0 {
				cls = append(cls, "set-url-file-removed")
			}
			if allow {
				cls = append(cls, "set-url-allowlist")
			}
			coq := vfApp("CSetUrl", c14lOptData(true, old), vfBool(rq.wasEnabled), vfBool(rq.wasEnabled),
				vfBool(rq.urlChanges), vfBool(rq.taken), vfBool(rq.enb), vfN(uint64(status)), c14lChunkList(s.chunks), vfBool(s.cut),
				vfN(uint64(fault)), vfBool(serr != nil), vfBool(restart), c14lOptData(presentAfter, got))
			if rq.restart {
				// the checksum in memory is the model's business (what a start leaves)
				cls = append(cls, "set-url-after-restart")
				coq = vfApp("CSetUrlR", c14lOptData(true, old), vfBool(rq.wasEnabled),
					vfBool(rq.urlChanges), vfBool(rq.taken), vfBool(rq.enb), vfN(uint64(status)), c14lChunkList(s.chunks), vfBool(s.cut),
					vfN(uint64(fault)), vfBool(serr != nil), vfBool(restart), c14lOptData(presentAfter, got))
			}
			c := vfCase{
				Coq:        coq,
				Nontrivial: true,
				Classes:    cls,
				MonitorOK:  len(fails) == 0,
				Desc: map[string]any{"scenario": name, "allowlist": allow, "was_enabled": rq.wasEnabled, "new_url": newURL, "enabled": rq.enb,
					"source": src.name, "status": status, "served": string(sent), "cut": s.cut, "error": fmt.Sprint(serr), "restart": restart,
					"file_before": string(old), "file_after": string(got), "present_after": presentAfter},
			}
			if len(fails) > 0 {
				p := strings.SplitN(fails[0], "\x00", 2)
				c.FindingKey, c.MonitorMsg = p[0], p[1]
			}
			out.Emit(c)
		}
	}
}

func c14lAfter(present bool, b []byte) string {
	if !present {
		return "ABSENT"
	}
	return fmt.Sprintf("%d bytes %s", len(b), c14lShort(b))
}

// c14lNoFile runs f while the process cannot get a new file descriptor.
func c14lNoFile(t *testing.T, f func()) {
	var old syscall.Rlimit
	if e := syscall.Getrlimit(syscall.RLIMIT_NOFILE, &old); e != nil {
		t.Fatalf("getrlimit: %v", e)
	}
	lim := old
	lim.Cur = 0
	if e := syscall.Setrlimit(syscall.RLIMIT_NOFILE, &lim); e != nil {
		t.Fatalf("setrlimit: %v", e)
	}
	defer func() {
		if e := syscall.Setrlimit(syscall.RLIMIT_NOFILE, &old); e != nil {
			t.Fatalf("setrlimit back: %v", e)
		}
	}()
	f()
}

//go:build verif

package filtering

import (
	"bufio"
	"bytes"
	"fmt"
	"net/http"
	"net/http/httptest"
	"os"
	"path/filepath"
	"strings"
	"sync"
	"testing"
	"time"

	"github.com/AdguardTeam/AdGuardHome/internal/verifc14"
)

// c14List builds a rule list of about size bytes (rules of ruleLen bytes,
// with comments sprinkled in, which the parser drops).
func c14List(r *vfRand, size, ruleLen int, tag string) string {
	var b strings.Builder
	b.WriteString("! Title: list " + tag + "\n")
	for i := 0; b.Len() < size; i++ {
		if i%17 == 3 {
			b.WriteString("# comment " + tag + "\n")
		}
		rule := fmt.Sprintf("||h%d-%s-%d.example^", i, tag, r.Intn(1000000))
		if len(rule) < ruleLen {
			rule += "$client=" + strings.Repeat("c", ruleLen-len(rule))
		}
		b.WriteString(rule + "\n")
	}
	return b.String()
}

// c14Stored is what a complete, successful download of body must leave on
// disk, stated without the parser: every line that is a rule (not empty, not
// a comment) trimmed, each followed by a newline.
func c14Stored(body string) []byte {
	var b strings.Builder
	for _, ln := range strings.Split(body, "\n") {
		ln = strings.TrimSpace(ln)
		if ln == "" || ln[0] == '!' || ln[0] == '#' {
			continue
		}
		b.WriteString(ln + "\n")
	}
	return []byte(b.String())
}

// c14Numbered is a rule list of EXACTLY size bytes made of numbered rule lines
// ("||n000000007.example^$client=ccc...\n", lineLen bytes each, the last one
// longer or shorter), with no comment and no blank line, so that what must be
// stored is the body itself and completeness can be judged from the file alone:
// line k carries number k, there are `lines` of them, size bytes in all.
func c14Numbered(size, lineLen int) (body []byte, lines int) {
	const minLine = 22 // "||n000000000.example^\n"
	line := func(k, n int) []byte {
		b := []byte(fmt.Sprintf("||n%09d.example^", k))
		if n-1 > len(b) {
			pad := n - 1 - len(b)
			if pad >= 8 {
				b = append(b, "$client="...)
				pad -= 8
			}
			b = append(b, bytes.Repeat([]byte("c"), pad)...)
		}
		return append(b, '\n')
	}
	switch {
	case size == 0:
		return nil, 0
	case size == 1:
		return []byte("x"), 1 // no newline: the parser adds one
	case size < minLine:
		return append(bytes.Repeat([]byte("x"), size-1), '\n'), 1
	}
	if lineLen < minLine {
		lineLen = minLine
	}
	n, rem := size/lineLen, size%lineLen
	body = make([]byte, 0, size)
	for k := 0; k < n; k++ {
		l := lineLen
		if k == n-1 && rem > 0 && rem < minLine {
			l += rem // the last full line takes the rest
		}
		body = append(body, line(k, l)...)
	}
	if rem >= minLine || n == 0 {
		body = append(body, line(n, size-len(body))...)
		n++
	}
	if len(body) != size {
		panic(fmt.Sprintf("c14Numbered(%d, %d) built %d bytes", size, lineLen, len(body)))
	}
	return body, n
}

// c14CheckNumbered judges the stored file on its own: size bytes, `lines`
// lines, line k numbered k (first, last and every one in between).
func c14CheckNumbered(path string, size, lines int) (bad string) {
	f, err := os.Open(path)
	if err != nil {
		return fmt.Sprintf("stored list unreadable: %v", err)
	}
	defer f.Close()
	sc := bufio.NewScanner(f)
	sc.Buffer(make([]byte, 1<<20), 1<<20)
	k, total := 0, 0
	last := ""
	for sc.Scan() {
		ln := sc.Bytes()
		total += len(ln) + 1
		if size >= 22 && !bytes.HasPrefix(ln, []byte(fmt.Sprintf("||n%09d.example^", k))) {
			return fmt.Sprintf("line %d of the stored list is %.40q, want the rule numbered %d (of %d)", k, ln, k, lines)
		}
		last = string(ln[:min(len(ln), 24)])
		k++
	}
	if err := sc.Err(); err != nil {
		return fmt.Sprintf("reading the stored list: %v", err)
	}
	want := size
	if size == 1 {
		want = 2
	}
	if k != lines || total != want {
		return fmt.Sprintf("the stored list has %d lines / %d bytes, the served one %d lines / %d bytes: last line %q", k, total, lines, want, last)
	}
	return ""
}

func TestVerifC14(t *testing.T) {
	s := verifc14.Start(t, "filtering")
	if s == nil {
		return
	}
	r := vfNewRand(s.Seed)

	// local HTTP server: what it answers per path is set by the scenario
	type answer struct {
		status int
		body   string
		cutAt  int    // >0: announce the full length, send this many bytes, drop the connection
		raw    []byte // served as it is (large generated lists)
	}
	var (
		mu  sync.Mutex
		ans = map[string]answer{}
	)
	srv := httptest.NewServer(http.HandlerFunc(func(w http.ResponseWriter, rq *http.Request) {
		mu.Lock()
		a := ans[rq.URL.Path]
		mu.Unlock()
		if a.cutAt > 0 {
			w.Header().Set("Content-Length", fmt.Sprint(len(a.body)))
			w.WriteHeader(200)
			w.Write([]byte(a.body[:a.cutAt]))
			if fl, ok := w.(http.Flusher); ok {
				fl.Flush()
			}
			if hj, ok := w.(http.Hijacker); ok {
				if c, _, err := hj.Hijack(); err == nil {
					c.Close()
				}
			}
			return
		}
		if a.status != 0 && a.status != 200 {
			if a.status == 206 {
				w.Header().Set("Content-Range", fmt.Sprintf("bytes 0-%d/%d", len(a.body)-1, 2*len(a.body)))
			}
			w.WriteHeader(a.status)
			if a.body != "" && a.status != 204 && a.status != 304 {
				// round 6 (L): a status other than 200 may carry a body (a part of
				// the list with 206, all of it with 203)
				w.Write([]byte(a.body))
			}
			return
		}
		if a.raw != nil {
			w.Write(a.raw)
			return
		}
		w.Write([]byte(a.body))
	}))
	defer srv.Close()
	serve := func(path string, a answer) {
		mu.Lock()
		ans[path] = a
		mu.Unlock()
	}

	nd := 0
	newFilter := func() (d *DNSFilter, f *FilterYAML) {
		nd++
		d, err := New(&Config{
			DataDir:    s.Dir(fmt.Sprintf("f%d", nd)),
			HTTPClient: &http.Client{Timeout: 5 * time.Minute},
		}, nil)
		if err != nil {
			t.Fatal(err)
		}
		t.Cleanup(d.Close)
		f = &FilterYAML{URL: srv.URL + fmt.Sprintf("/l%d", nd), Name: "verif"}
		f.ID = 1700000000 + nd
		return d, f
	}
	path := func(f *FilterYAML) string { return strings.TrimPrefix(f.URL, srv.URL) }
	upd := func(c *verifc14.Case, d *DNSFilter, f *FilterYAML, label string, expectErr bool) (bool, error) {
		mu.Lock()
		a := ans[path(f)]
		mu.Unlock()
		if !expectErr {
			if a.raw != nil {
				c.Want(a.raw)
			} else {
				c.Want(c14Stored(a.body))
			}
		}
		c.Kind = "update"
		return c.SaveB(label, expectErr, func() (bool, error) { return d.update(f) })
	}
	// stored puts a small list at the destination through the real update
	stored := func(d *DNSFilter, f *FilterYAML, what string) {
		serve(path(f), answer{body: "||before-" + what + ".example^\n||second.example^\n"})
		if ok, err := d.update(f); !ok || err != nil {
			t.Fatalf("%s: preparing the stored list: %v %v", what, ok, err)
		}
	}

	if s.Inject != "" {
		// ---- every fsync (resp. every rename) of the process fails: the refresh
		// must report the error and leave the stored list as it was.  The stored
		// list is put there directly (no save can succeed in this run).
		for i, present := range []bool{true, false, true} {
			d, f := newFilter()
			dst := f.Path(d.conf.DataDir)
			cls := []string{"filtering", "failed-save", "fail-" + s.Inject}
			if present {
				if err := os.WriteFile(dst, []byte("||stored-before.example^\n"), 0o644); err != nil {
					t.Fatal(err)
				}
				cls = append(cls, "dst-present")
			} else {
				cls = append(cls, "dst-absent")
			}
			if i == 2 {
				s.TmpShared()
				cls = append(cls, "tmp-in-tmpdir")
			} else {
				s.TmpInDstDir()
				cls = append(cls, "tmp-in-dstdir")
			}
			body, _ := c14Numbered(300+40000*i, 40)
			serve(path(f), answer{raw: body})
			s.Case(fmt.Sprintf("inject-%s-%d", s.Inject, i), dst, nil, cls, func(c *verifc14.Case) {
				c.Kind = "update"
				c.SaveInjected("update", func() error {
					ok, err := d.update(f)
					if ok {
						c.Fail("update reported the list as replaced although every %s fails", s.Inject)
					}
					return err
				})
			})
		}
		return
	}

	// ---- prelude: one representative per class, small lists (byte mode)
	s.TmpInDstDir()
	d, f := newFilter()
	dst := f.Path(d.conf.DataDir)
	serve(path(f), answer{body: "||a.example^\n# c\n0.0.0.0 b.example\n"})
	s.Case("download-first", dst, nil, []string{"filtering", "dst-absent", "tmp-in-dstdir", "bytes", "updated"}, func(c *verifc14.Case) {
		upd(c, d, f, "update", false)
	})
	s.Case("refresh-unchanged", dst, nil, []string{"filtering", "dst-present", "bytes", "unchanged-cleanup"}, func(c *verifc14.Case) {
		upd(c, d, f, "update-same", false)
	})
	serve(path(f), answer{body: "||c.example^\n||d.example^\n||e.example^\n"})
	s.Case("refresh-changed", dst, nil, []string{"filtering", "dst-present", "bytes", "updated"}, func(c *verifc14.Case) {
		upd(c, d, f, "update-new", false)
	})
	serve(path(f), answer{status: 500})
	s.Case("fail-status", dst, nil, []string{"filtering", "dst-present", "bytes", "failed-download", "fail-status"}, func(c *verifc14.Case) {
		upd(c, d, f, "update-500", true)
	})
	// round 6 (L): 2xx statuses that are not 200, with the bodies they carry: a
	// part of the new list (206, cut in the middle of a rule), nothing (204),
	// the whole new list (203): the stored list must stay, byte for byte
	for _, sa := range []answer{
		{status: 206, body: "||p1.example^\n||p2.example^\n||p3.exa"},
		{status: 204},
		{status: 203, body: "||q1.example^\n||q2.example^\n"},
		{status: 304},
	} {
		serve(path(f), sa)
		s.Case(fmt.Sprintf("fail-status-%d", sa.status), dst, nil, []string{"filtering", "dst-present", "bytes", "failed-download", "fail-status", "fail-status-not-200"}, func(c *verifc14.Case) {
			c.Info["status"], c.Info["body_sent_with_it"] = sa.status, sa.body
			upd(c, d, f, fmt.Sprintf("update-%d", sa.status), true)
		})
	}
	serve(path(f), answer{body: "||x.example^\n||y.example^\n||bad\x01char.example^\n||z.example^\n"})
	s.Case("fail-binary", dst, nil, []string{"filtering", "dst-present", "bytes", "failed-download", "refresh-fails-after-first-rule", "fail-binary-char"}, func(c *verifc14.Case) {
		upd(c, d, f, "update-binary", true)
	})
	serve(path(f), answer{body: "<!DOCTYPE html><html>captive portal</html>\n"})
	s.Case("fail-html", dst, nil, []string{"filtering", "dst-present", "bytes", "failed-download", "fail-html"}, func(c *verifc14.Case) {
		upd(c, d, f, "update-html", true)
	})
	{
		// longer Content-Length announced, connection dropped in the middle of a line
		body := c14List(r.Fork(1), 300, 30, "cut")
		serve(path(f), answer{body: body, cutAt: len(body)/2 + 7})
		s.Case("fail-cut-midline", dst, nil, []string{"filtering", "dst-present", "bytes", "failed-download", "refresh-fails-after-first-rule", "fail-connection-cut"}, func(c *verifc14.Case) {
			upd(c, d, f, "update-cut", true)
		})
		// ... and exactly at a line boundary
		at := strings.Index(body[len(body)/2:], "\n") + len(body)/2 + 1
		serve(path(f), answer{body: body, cutAt: at})
		s.Case("fail-cut-boundary", dst, nil, []string{"filtering", "dst-present", "bytes", "failed-download", "refresh-fails-after-first-rule", "fail-connection-cut"}, func(c *verifc14.Case) {
			upd(c, d, f, "update-cut-boundary", true)
		})
		// fully transferred list with a NUL byte / an over-long line after the first rules
		serve(path(f), answer{body: "||n1.example^\n||n2.example^\n||n3\x00.example^\n||n4.example^\n"})
		s.Case("fail-nul", dst, nil, []string{"filtering", "dst-present", "bytes", "failed-download", "refresh-fails-after-first-rule", "fail-binary-char"}, func(c *verifc14.Case) {
			upd(c, d, f, "update-nul", true)
		})
		serve(path(f), answer{body: "||l1.example^\n||l2.example^\n||" + strings.Repeat("y", 70000) + ".example^\n||l4.example^\n"})
		s.Case("fail-long-line", dst, nil, []string{"filtering", "dst-present", "failed-download", "refresh-fails-after-first-rule", "fail-long-line"}, func(c *verifc14.Case) {
			upd(c, d, f, "update-long-line", true)
		})
	}
	s.TmpShared()
	serve(path(f), answer{body: "||again.example^\n"})
	s.Case("after-failures", dst, nil, []string{"filtering", "dst-present", "tmp-in-tmpdir", "bytes", "updated"}, func(c *verifc14.Case) {
		upd(c, d, f, "update-ok", false)
	})
	s.TmpInDstDir()
	// empty list: checksum equals the initial one, nothing is stored
	d0, f0 := newFilter()
	serve(path(f0), answer{body: ""})
	s.Case("empty-list", f0.Path(d0.conf.DataDir), nil, []string{"filtering", "dst-absent", "bytes", "size-0", "unchanged-cleanup"}, func(c *verifc14.Case) {
		upd(c, d0, f0, "update-empty", false)
	})
	// whole refresh entry point with two lists (one failing)
	{
		d2, fa := newFilter()
		fb := &FilterYAML{URL: srv.URL + "/second", Name: "second"}
		fb.ID = fa.ID + 500
		fa.Enabled, fb.Enabled = true, true
		serve(path(fa), answer{body: "||one.example^\n"})
		serve("/second", answer{status: 404})
		d2.conf.Filters = []FilterYAML{*fa, *fb}
		s.Case("refresh-entry", fa.Path(d2.conf.DataDir), nil, []string{"filtering", "dst-absent", "bytes", "refreshFiltersIntl", "updated"}, func(c *verifc14.Case) {
			c.SaveB("tryRefreshFilters", false, func() (bool, error) {
				n, _, _ := d2.tryRefreshFilters(true, false, true)
				return n > 0, nil
			})
		})
	}

	// ---- start-up: a new DNSFilter over a data directory that already holds
	// the list.  New loads it (read only); the first periodic refresh decides by
	// the file's age and replaces it (atomically), touches it, or leaves it alone.
	for i, sc := range []struct {
		name    string
		age     time.Duration
		ans     func(old string) answer
		replace bool
		fails   bool
		limit   int // >= 0: the refresh runs under this file size limit
		cls     []string
	}{
		{"start-up-due-changed", 3 * time.Hour, func(string) answer { return answer{body: "||fresh1.example^\n||fresh2.example^\n"} }, true, false, -1, []string{"updated"}},
		{"start-up-due-unchanged", 3 * time.Hour, func(old string) answer { return answer{body: old} }, false, false, -1, []string{"unchanged-cleanup"}},
		{"start-up-not-due", time.Minute, func(string) answer { return answer{body: "||never-fetched.example^\n"} }, false, false, -1, []string{"not-due"}},
		{"start-up-due-unreachable", 3 * time.Hour, func(string) answer { return answer{status: 502} }, false, true, -1, []string{"failed-download", "fail-status"}},
		{"start-up-due-cut", 3 * time.Hour, func(string) answer {
			b := c14List(vfNewRand(uint64(5)), 400, 30, "su")
			return answer{body: b, cutAt: len(b) / 2}
		}, false, true, -1, []string{"failed-download", "fail-connection-cut", "refresh-fails-after-first-rule"}},
		{"start-up-due-disk-full", 3 * time.Hour, func(string) answer { return answer{body: c14List(vfNewRand(uint64(6)), 3000, 40, "sf")} }, false, true, 1000, []string{"failed-save"}},
	} {
		d0, f0 := newFilter()
		dst := f0.Path(d0.conf.DataDir)
		old := "||stored-before-restart.example^\n||second.example^\n"
		serve(path(f0), answer{body: old})
		if ok, err := d0.update(f0); !ok || err != nil {
			t.Fatalf("%s: preparing the stored list: %v %v", sc.name, ok, err)
		}
		then := time.Now().Add(-sc.age)
		if err := os.Chtimes(dst, then, then); err != nil {
			t.Fatal(err)
		}
		a := sc.ans(old)
		serve(path(f0), a)
		if i%2 == 0 {
			s.TmpInDstDir()
		} else {
			s.TmpShared()
		}
		cls := append([]string{"filtering", "dst-present", "bytes", "upgrade-on-start", "refreshFiltersIntl"}, sc.cls...)
		s.Case(sc.name, dst, nil, cls, func(c *verifc14.Case) {
			run := func() (bool, error) {
				d1, err := New(&Config{
					DataDir:                    d0.conf.DataDir,
					HTTPClient:                 &http.Client{Timeout: 5 * time.Minute},
					FiltersUpdateIntervalHours: 1,
					Filters:                    []FilterYAML{{Enabled: true, URL: f0.URL, Name: "verif", Filter: Filter{ID: f0.ID}}},
				}, nil)
				if err != nil {
					return false, err
				}
				defer d1.Close()
				if got := d1.conf.Filters[0].RulesCount; got != 2 {
					c.Fail("start-up: New loaded %d rules from the stored list, want 2", got)
				}
				d1.periodicallyRefreshFilters(5 * time.Second)
				return sc.replace, nil
			}
			if sc.limit >= 0 {
				c.SaveLimited("start-refresh-limited", uint64(sc.limit), func() error { _, err := run(); return err })
				return
			}
			if sc.replace {
				c.Want(c14Stored(a.body))
			}
			c.SaveB("start-refresh", sc.fails, run)
		})
	}
	s.TmpInDstDir()

	// ---- injected write failures (RLIMIT_FSIZE: the write is cut short, then
	// EFBIG, as with a full disk): the list file must be byte-identical afterwards
	for i, sc := range []struct {
		name    string
		present bool
		size    int
		limit   func(size int) uint64
		shared  bool
	}{
		{"fail-write-first-absent", false, 200, func(int) uint64 { return 0 }, false},
		{"fail-write-first-present", true, 200, func(int) uint64 { return 0 }, false},
		{"fail-write-mid-present", true, 30000, func(sz int) uint64 { return uint64(sz / 2) }, false},
		{"fail-write-last-byte-present", true, 2000, func(sz int) uint64 { return uint64(sz - 1) }, true},
		{"fail-write-mid-absent", false, 30000, func(sz int) uint64 { return uint64(sz / 3) }, true},
	} {
		d, f := newFilter()
		dst := f.Path(d.conf.DataDir)
		cls := []string{"filtering", "failed-save"}
		if sc.shared {
			s.TmpShared()
			cls = append(cls, "tmp-in-tmpdir")
		} else {
			s.TmpInDstDir()
			cls = append(cls, "tmp-in-dstdir")
		}
		if sc.present {
			serve(path(f), answer{body: "||before-the-failure.example^\n"})
			if ok, err := d.update(f); !ok || err != nil {
				t.Fatalf("%s: preparing the stored list: %v %v", sc.name, ok, err)
			}
			cls = append(cls, "dst-present")
		} else {
			cls = append(cls, "dst-absent")
		}
		body := c14List(vfNewRand(uint64(300+i)), sc.size, 50, fmt.Sprintf("w%d", i))
		serve(path(f), answer{body: body})
		s.Case(sc.name, dst, nil, cls, func(c *verifc14.Case) {
			stored := len(c14Stored(body))
			lim := sc.limit(stored)
			c.Info["limit"], c.Info["size"] = lim, stored
			c.Kind = "update"
			if err := c.SaveLimited("update-limited", lim, func() error { _, err := d.update(f); return err }); err == nil {
				c.Fail("update storing %d bytes under a file size limit of %d reported success", stored, lim)
			}
			// the next refresh, with room again, stores the list
			upd(c, d, f, "update-after-failure", false)
		})
	}
	s.TmpInDstDir()

	// ---- concurrent updates of ONE list file (a URL change through the HTTP API
	// downloads under its own lock while the periodic refresh holds refreshLock):
	// every writer has a pending file of its own, only complete lists may appear
	{
		d, f := newFilter()
		dst := f.Path(d.conf.DataDir)
		serve(path(f), answer{body: "||before-the-race.example^\n"})
		if ok, err := d.update(f); !ok || err != nil {
			t.Fatalf("concurrent-updates: preparing the stored list: %v %v", ok, err)
		}
		s.Case("concurrent-updates", dst, nil, []string{"filtering", "dst-present", "tmp-in-dstdir", "updated"}, func(c *verifc14.Case) {
			for k := 0; k < s.Scale(3, 10); k++ {
				var jobs []verifc14.Job
				for w := 0; w < 3; w++ {
					fw := &FilterYAML{URL: fmt.Sprintf("%s-%d-%d", f.URL, k, w), Name: "verif", Filter: Filter{ID: f.ID}}
					body := c14List(vfNewRand(uint64(400+10*k+w)), 2000+20000*w, 40+30*w, fmt.Sprintf("r%d-%d", k, w))
					serve(path(fw), answer{body: body})
					jobs = append(jobs, verifc14.Job{Want: c14Stored(body), F: func() error {
						ok, err := d.update(fw)
						if err == nil && !ok {
							err = fmt.Errorf("update of a changed list reported no change")
						}
						return err
					}})
				}
				c.SaveConcurrent(fmt.Sprintf("triple-%d", k), jobs)
			}
		})
	}

	// ---- creation of the temporary file fails (no descriptor to be had: EMFILE)
	for i, present := range []bool{true, false} {
		d, f := newFilter()
		dst := f.Path(d.conf.DataDir)
		cls := []string{"filtering", "failed-save", "tmp-in-dstdir"}
		if present {
			stored(d, f, "nofile")
			cls = append(cls, "dst-present")
		} else {
			cls = append(cls, "dst-absent")
		}
		body, _ := c14Numbered(500+3000*i, 40)
		serve(path(f), answer{raw: body})
		s.Case(fmt.Sprintf("fail-open-%d", i), dst, nil, cls, func(c *verifc14.Case) {
			c.Kind = "update"
			c.SaveNoFile("update-nofile", func() error {
				ok, err := d.update(f)
				if ok {
					c.Fail("update reported the list as replaced although no temporary file could be created")
				}
				return err
			})
			upd(c, d, f, "update-after-failure", false)
		})
	}

	// ---- exact content sizes, from empty to tens of megabytes: the served list is
	// generated (numbered rules), replaces a small stored list, and the stored
	// file must be the WHOLE list: same length, same bytes, every rule from
	// number 0 to the last.  One size above 32 MiB also runs in the quick tier
	// (not 32 MiB + 1: a list cut just before its final newline is stored
	// complete, the parser terminates the last line itself).
	exact := []int{0, 1, 4095, 4096, 4097, 65535, 65536, 65537, 1600000, 32<<20 + 4099}
	if s.Tier == "thorough" {
		exact = append(exact, 16<<20-1, 16<<20, 16<<20+1, 32<<20-1, 32<<20, 32<<20+1, 32<<20+2, 40<<20)
	}
	for _, sz := range exact {
		d, f := newFilter()
		dst := f.Path(d.conf.DataDir)
		stored(d, f, "exact")
		ll := 24 + sz%17
		if sz >= 1<<20 {
			ll = 900 + sz%7
		}
		if sz >= 32<<20-1 {
			ll = 4000 + sz%7 // the largest lists: fewer, longer rules (one write call and one element of the case per rule)
		}
		body, lines := c14Numbered(sz, ll)
		serve(path(f), answer{raw: body})
		cls := []string{"filtering", "dst-present", "tmp-in-dstdir", "updated", "exact-size", fmt.Sprintf("size>=%dKiB", sz>>10)}
		if sz > 32<<20 {
			cls = append(cls, "size>32MiB")
		}
		s.Case(fmt.Sprintf("exact-size-%d", sz), dst, nil, cls, func(c *verifc14.Case) {
			c.Info["served_bytes"], c.Info["served_rules"] = sz, lines
			if sz == 1 {
				c.Want([]byte("x\n"))
			} else {
				c.Want(body)
			}
			c.Kind = "update"
			// a download size limit that REFUSES a large list (error, previous
			// version kept) is within the property; one that stores part of it is not
			c.MayFail = sz > 32<<20
			ok, err := c.SaveB("update-exact", false, func() (bool, error) { return d.update(f) })
			if err != nil && !ok && sz > 32<<20 {
				c.Class("large-list-refused")
				c.Info["refused"] = err.Error()
				return
			}
			if !ok || err != nil {
				c.Fail("refresh with a list of %d bytes (%d rules): updated=%v err=%v", sz, lines, ok, err)
				return
			}
			bad := c14CheckNumbered(dst, sz, lines)
			c.Info["stored_list_check"] = bad
			if bad != "" {
				c.Fail("refresh with a list of %d bytes reported success but %s holds neither the previous nor the complete new version: %s",
					sz, filepath.Base(dst), bad)
			}
			if f.RulesCount != lines {
				c.Fail("refresh with a list of %d rules reports %d rules", lines, f.RulesCount)
			}
		})
		serve(path(f), answer{})
	}

	// ---- sizes, each: download, changed refresh, failed refresh, unchanged refresh
	sizes := []int{1 << 10, 64 << 10, 1 << 20}
	if s.Tier == "thorough" {
		sizes = append(sizes, 8<<20, 32<<20)
	}
	for _, sz := range sizes {
		d, f := newFilter()
		dst := f.Path(d.conf.DataDir)
		rl := 120
		if sz >= 1<<20 {
			rl = 900
		}
		a, b := c14List(r.Fork(2), sz, rl, "A"), c14List(r.Fork(3), sz/2, rl, "B")
		s.Case(fmt.Sprintf("size-%d", sz), dst, nil, []string{"filtering", "multi-save", "updated", "failed-download", "refresh-fails-after-first-rule", fmt.Sprintf("size>=%dKiB", sz>>10)}, func(c *verifc14.Case) {
			serve(path(f), answer{body: a})
			upd(c, d, f, "download", false)
			serve(path(f), answer{body: b})
			upd(c, d, f, "refresh-smaller", false)
			serve(path(f), answer{body: a, cutAt: len(a) / 3})
			upd(c, d, f, "refresh-cut", true)
			serve(path(f), answer{body: b})
			upd(c, d, f, "refresh-same", false)
			serve(path(f), answer{body: a})
			upd(c, d, f, "refresh-bigger", false)
		})
	}

	// ---- random histories
	for k := 0; k < s.Scale(12, 30); k++ {
		d, f := newFilter()
		dst := f.Path(d.conf.DataDir)
		cls := []string{"filtering", "random", "multi-save"}
		if r.Bool() {
			s.TmpShared()
			cls = append(cls, "tmp-in-tmpdir")
		} else {
			s.TmpInDstDir()
			cls = append(cls, "tmp-in-dstdir")
		}
		small := r.Chance(1, 2)
		if small {
			cls = append(cls, "bytes")
		}
		steps := 1 + r.Intn(6)
		s.Case(fmt.Sprintf("random-%d", k), dst, nil, cls, func(c *verifc14.Case) {
			prev := ""
			for j := 0; j < steps; j++ {
				sz, rl := r.Intn(120), 12+r.Intn(20)
				if !small {
					sz, rl = r.Intn(s.Scale(300000, 1500000)), 60+r.Intn(800)
				}
				body := c14List(r.Fork(uint64(j)), sz, rl, fmt.Sprint(j))
				switch r.Intn(7) {
				case 6:
					if stored := len(c14Stored(body)); stored > 0 {
						serve(path(f), answer{body: body})
						lim := uint64(r.Intn(stored))
						c.Kind = "update"
						c.SaveLimited(fmt.Sprintf("%d-limited(%d of %d)", j, lim, stored), lim, func() error { _, err := d.update(f); return err })
						c.Class("failed-save")
					}
				case 0:
					serve(path(f), answer{status: 503})
					upd(c, d, f, fmt.Sprintf("%d-status", j), true)
					c.Class("failed-download")
				case 1:
					cut := 1 + r.Intn(len(body)-1)
					serve(path(f), answer{body: body, cutAt: cut})
					upd(c, d, f, fmt.Sprintf("%d-cut", j), true)
					c.Class("failed-download")
					if len(c14Stored(body[:cut])) > 0 {
						c.Class("refresh-fails-after-first-rule")
					}
				case 2:
					if prev != "" {
						serve(path(f), answer{body: prev})
						upd(c, d, f, fmt.Sprintf("%d-same", j), false)
						c.Class("unchanged-cleanup")
						break
					}
					fallthrough
				default:
					serve(path(f), answer{body: body})
					upd(c, d, f, fmt.Sprintf("%d-ok(%d bytes)", j, len(body)), false)
					prev = body
				}
			}
		})
	}
}

//go:build verif

package hashprefix

import (
	"crypto/sha256"
	"encoding/binary"
	"encoding/hex"
	"errors"
	"fmt"
	"reflect"
	"regexp"
	"sort"
	"strconv"
	"strings"
	"testing"
	"time"
	"unsafe"

	"github.com/AdguardTeam/AdGuardHome/internal/aghtest"
	"github.com/AdguardTeam/golibs/cache"
	"github.com/miekg/dns"
	"golang.org/x/net/publicsuffix"
)

// Correspondence harness for C19: the real Checker against a scripted lookup
// service, one case per history of checks / clock advances / evictions that
// share one cache and one database.

const (
	c19CacheTimeSec = 3650 // ages are multiples of 100 s: never within 50 s of expiry
)

// c19Txt is one TXT string the scripted service holds; Brk makes it the first
// string of a new TXT record of the answer (the model sees the flat list).
type c19Txt struct {
	S   string `json:"s"`
	Brk bool   `json:"brk,omitempty"`
}

type c19Step struct {
	Kind  string   `json:"kind"` // check, advance, evict, db
	Host  string   `json:"host,omitempty"`
	Fail  bool     `json:"fail,omitempty"`
	Secs  int64    `json:"secs,omitempty"`
	Evict []string `json:"evict,omitempty"`
	// db: the service's database changes between two checks.
	Add []c19Txt `json:"add,omitempty"`
	Del []string `json:"del,omitempty"`
}

// c19SetEv is one cache.Set made during a Check.
type c19SetEv struct {
	key     string
	evicted []string
	stored  bool
}

// c19Cache wraps the golibs cache of the Checker (same configuration as
// hashprefix.New gives it, plus OnDelete) and records what every Set did.
type c19Cache struct {
	inner   cache.Cache
	maxSize uint
	events  []c19SetEv
	cur     *c19SetEv
	stray   int
	// sizes is the harness' own account of what is stored: key -> bytes of key
	// and value; bad is the first disagreement with what the cache reports.
	sizes map[string]int
	bad   string
}

// audit compares the harness' account with the Stats of the real cache.
func (w *c19Cache) audit(when string) {
	sum := 0
	for _, n := range w.sizes {
		sum += n
	}
	st := w.inner.Stats()
	if w.bad == "" && (st.Size != sum || st.Count != len(w.sizes)) {
		w.bad = fmt.Sprintf("%s: the cache reports %d bytes in %d elements, the stored keys and values make %d bytes in %d elements", when, st.Size, st.Count, sum, len(w.sizes))
	}
	if w.bad == "" && w.maxSize != 0 && uint(st.Size) > w.maxSize {
		w.bad = fmt.Sprintf("%s: the cache holds %d bytes, configured size %d", when, st.Size, w.maxSize)
	}
}

func c19NewCache(maxSize uint) *c19Cache {
	w := &c19Cache{maxSize: maxSize, sizes: map[string]int{}}
	w.inner = cache.New(cache.Config{EnableLRU: true, MaxSize: maxSize, OnDelete: func(k, v []byte) {
		if n, ok := w.sizes[string(k)]; !ok || n != len(k)+len(v) {
			if w.bad == "" {
				w.bad = fmt.Sprintf("evicted element %x of %d bytes, stored with %d", k, len(k)+len(v), n)
			}
		}
		delete(w.sizes, string(k))
		if w.cur != nil {
			w.cur.evicted = append(w.cur.evicted, string(k))
		} else {
			w.stray++
		}
	}})
	return w
}

func (w *c19Cache) Set(k, v []byte) bool {
	ev := c19SetEv{key: string(k), stored: w.maxSize == 0 || uint(len(k)+len(v)) <= w.maxSize}
	// A stored value is 8 bytes of expiry and 32 bytes per hash.
	if w.bad == "" && (len(k) != prefixLen || len(v) < expirySize || (len(v)-expirySize)%hashSize != 0) {
		w.bad = fmt.Sprintf("Set(%x): key of %d bytes, value of %d bytes", k, len(k), len(v))
	}
	w.cur = &ev
	r := w.inner.Set(k, v)
	w.cur = nil
	w.events = append(w.events, ev)
	if ev.stored {
		w.sizes[string(k)] = len(k) + len(v)
	}
	w.audit(fmt.Sprintf("after Set(%x, %d bytes)", k, len(v)))
	return r
}
func (w *c19Cache) Get(k []byte) []byte { return w.inner.Get(k) }
func (w *c19Cache) Del(k []byte) {
	w.inner.Del(k)
	delete(w.sizes, string(k))
	w.audit(fmt.Sprintf("after Del(%x)", k))
}
func (w *c19Cache) Clear()             { w.inner.Clear() }
func (w *c19Cache) Stats() cache.Stats { return w.inner.Stats() }

// c19Elem is one element of the golibs cache as c19Peek reads it.
type c19Elem struct {
	key string
	val []byte // the stored slice itself, not a copy
}

// c19Peek reads the usage list of a golibs cache, least recently used element
// first, without calling Get (which would move the element read to the hot
// end): cache.usage is the sentinel of a ring of listItem{next, prev} embedded
// as field used in item{key, value []byte; used listItem}.  Field offsets come
// from reflection on the library's own types.
func c19Peek(cc cache.Cache) (elems []c19Elem, size uint, count int) {
	v := reflect.ValueOf(cc).Elem()
	usage := v.FieldByName("usage")
	itemT := v.FieldByName("items").Type().Elem().Elem()
	usedF, _ := itemT.FieldByName("used")
	keyF, _ := itemT.FieldByName("key")
	valF, _ := itemT.FieldByName("value")
	nextF, _ := usage.Type().FieldByName("next")
	sentinel := unsafe.Pointer(usage.UnsafeAddr())
	next := func(p unsafe.Pointer) unsafe.Pointer { return *(*unsafe.Pointer)(unsafe.Add(p, nextF.Offset)) }
	for p := next(sentinel); p != sentinel; p = next(p) {
		it := unsafe.Add(p, -int(usedF.Offset))
		elems = append(elems, c19Elem{
			key: string(*(*[]byte)(unsafe.Add(it, keyF.Offset))),
			val: *(*[]byte)(unsafe.Add(it, valF.Offset)),
		})
	}
	return elems, uint(v.FieldByName("size").Uint()), v.FieldByName("items").Len()
}

// c19PeekGet is the value stored under key, or nil; no effect on the cache.
func c19PeekGet(cc cache.Cache, key []byte) []byte {
	elems, _, _ := c19Peek(cc)
	for _, e := range elems {
		if e.key == string(key) {
			return e.val
		}
	}
	return nil
}

// c19Conf reads the configuration newCache derived for a golibs cache.
func c19Conf(cc cache.Cache) (lru bool, maxSize, maxElem, maxCount uint64) {
	conf := reflect.ValueOf(cc).Elem().FieldByName("conf")
	return conf.FieldByName("EnableLRU").Bool(), conf.FieldByName("MaxSize").Uint(),
		conf.FieldByName("MaxElementSize").Uint(), conf.FieldByName("MaxCount").Uint()
}

// c19ProbeCache asks the cache that New configured whether it is what the
// property's "cache" is taken to be: limited to size bytes of keys and values
// (0 = unlimited), dropping the least recently used elements when full.  The
// harness then replaces it by an instrumented cache of the same configuration.
func c19ProbeCache(cc cache.Cache, size uint) string {
	// The configuration the model of the library cache assumes
	// (Model/HashPrefixLRU.v): LRU, size in bytes, no limit on the number of
	// elements, no smaller limit for one element.
	lru, maxSize, maxElem, maxCount := c19Conf(cc)
	wantSize := uint64(size)
	if size == 0 {
		wantSize = ^uint64(0)
	}
	if !lru || maxSize != wantSize || maxElem != wantSize || maxCount != ^uint64(0) {
		return fmt.Sprintf("CacheSize %d: the cache is configured EnableLRU=%v MaxSize=%d MaxElementSize=%d MaxCount=%d",
			size, lru, maxSize, maxElem, maxCount)
	}
	k1, k2 := []byte{1, 1}, []byte{2, 2}
	if size == 0 {
		cc.Set(k1, make([]byte, 1<<16))
		cc.Set(k2, make([]byte, 1<<16))
		if cc.Get(k1) == nil || cc.Get(k2) == nil {
			return "CacheSize 0: the cache does not keep two elements of 64 KiB"
		}
		return ""
	}
	cc.Set(k1, make([]byte, size-2))
	if cc.Get(k1) == nil {
		return fmt.Sprintf("CacheSize %d: an element of exactly %d bytes is refused", size, size)
	}
	cc.Set(k2, make([]byte, size-1))
	if cc.Get(k2) != nil {
		return fmt.Sprintf("CacheSize %d: an element of %d bytes is kept", size, size+1)
	}
	if cc.Get(k1) == nil {
		return fmt.Sprintf("CacheSize %d: a refused element made the cache drop another one", size)
	}
	cc.Set(k2, make([]byte, 1))
	if cc.Get(k2) == nil {
		return fmt.Sprintf("CacheSize %d: the full cache refuses a new element instead of dropping the least recently used one", size)
	}
	if cc.Get(k1) != nil {
		return fmt.Sprintf("CacheSize %d: the cache holds %d bytes", size, size+3)
	}
	if st := cc.Stats(); st.Size != 3 || st.Count != 1 {
		return fmt.Sprintf("CacheSize %d: %d bytes in %d elements after the probe, want 3 in 1", size, st.Size, st.Count)
	}
	return ""
}

type c19Hist struct {
	// CacheSize is Config.CacheSize in bytes; 0 = unlimited.
	CacheSize uint   `json:"cache_size"`
	Suffix    string `json:"suffix"`
	// DB is the database the scripted service starts with; db steps change it.
	DB    []c19Txt  `json:"db"`
	Steps []c19Step `json:"steps"`
}

func c19Strs(ss ...string) (db []c19Txt) {
	for _, s := range ss {
		db = append(db, c19Txt{S: s})
	}
	return db
}

// c19Enum is the monitor's own reading of the property: the trailing-label
// sub-domains of the last four labels, ICANN public suffix (and anything
// inside it) excluded.  Only used for hosts without empty labels.
func c19Enum(host string) (names []string) {
	ps, icann := publicsuffix.PublicSuffix(host)
	labels := strings.Split(host, ".")
	if len(labels) > 4 {
		labels = labels[len(labels)-4:]
	}
	for i := range labels {
		n := strings.Join(labels[i:], ".")
		if icann && (n == ps || strings.HasSuffix(ps, "."+n)) {
			continue
		}
		names = append(names, n)
	}
	return names
}

func c19WellFormedHost(h string) bool {
	if h == "" {
		return false
	}
	for _, l := range strings.Split(h, ".") {
		if l == "" {
			return false
		}
	}
	return true
}

// c19Subnames lists every dot-aligned suffix of host (and host itself): a
// superset of anything the code can hash; used for the sha / suffix tables.
func c19Subnames(host string) (names []string) {
	names = append(names, host)
	for i := 0; i < len(host); i++ {
		if host[i] == '.' {
			names = append(names, host[i+1:])
		}
	}
	return names
}

var c19QuestionRe = regexp.MustCompile(`^([0-9a-f]{4}\.)+$`)

// c19Collide finds a label x such that sha256(x+"."+tld) shares its 2-byte
// prefix with sha256(target).
func c19Collide(target, tld string) string {
	want := sha256.Sum256([]byte(target))
	for i := 0; ; i++ {
		n := fmt.Sprintf("z%dq.%s", i, tld)
		h := sha256.Sum256([]byte(n))
		if h[0] == want[0] && h[1] == want[1] && n != target {
			return n
		}
	}
}

// ---- Round 6: names whose OWN chain has two hashes with the same 2-byte
// prefix (one name in 65536 shares the prefix with its parent).

// c19Coll is a queried name whose enumerated names A (earlier in the chain)
// and B (later: a parent of A) have hashes with equal 2-byte prefixes.
type c19Coll struct {
	Host, A, B string
}

// c19CollSpecs: the name made from pattern with the number n shares its prefix
// with target, a parent of it.  The numbers were found by c19FindColl from 0
// and are verified when the world is built; the thorough tier searches fresh
// ones from a seed-dependent start as well.
var c19CollSpecs = []struct {
	pattern, target string
	n               int
}{
	{"h%d.example.org", "example.org", 86390},         // chain of 2: name / parent
	{"h%d.sub.example.org", "sub.example.org", 53931}, // chain of 3: name / parent
	{"h%d.sub.example.org", "example.org", 34316},     // chain of 3: name / grandparent
	{"h%d.a.b.example.org", "a.b.example.org", 92184}, // chain of 4: name / parent
	{"h%d.a.b.example.org", "b.example.org", 86531},   // chain of 4: name / grandparent
	{"h%d.a.b.example.org", "example.org", 9988},      // chain of 4: name / last name
	{"h%d.github.io", "github.io", 74882},             // private suffix, itself enumerated
	{"h%d.github.io", "io", 39068},                    // ... and its parent io
	{"h%d.lan", "lan", 133398},                        // default rule
	{"h%d.evil.co.uk", "evil.co.uk", 39470},           // two-label ICANN suffix
	{"h%d.blogspot.com", "blogspot.com", 90066},       // private suffix under an ICANN one
}

// c19FindColl hashes the names made from pattern with start, start+1, .. until
// one shares its 2-byte prefix with target (about 65536 hashes).
func c19FindColl(pattern, target string, start int) (name string) {
	want := sha256.Sum256([]byte(target))
	for i := start; ; i++ {
		n := fmt.Sprintf(pattern, i)
		h := sha256.Sum256([]byte(n))
		if h[0] == want[0] && h[1] == want[1] {
			return n
		}
	}
}

// c19PrefixPairs lists the pairs i < j of names whose hashes share the prefix.
func c19PrefixPairs(names []string) (pairs [][2]int) {
	for i := range names {
		for j := i + 1; j < len(names); j++ {
			a, b := c19Sum(names[i]), c19Sum(names[j])
			if a[0] == b[0] && a[1] == b[1] {
				pairs = append(pairs, [2]int{i, j})
			}
		}
	}
	return pairs
}

func c19UniqSorted(ss []string) (res []string) {
	res = append(res, ss...)
	sort.Strings(res)
	n := 0
	for i, s := range res {
		if i == 0 || s != res[n-1] {
			res[n] = s
			n++
		}
	}
	return res[:n]
}

type c19World struct {
	labels   []string
	suffixes []string
	collide  map[string]string // name -> another name with the same prefix
	// colls: names with a prefix collision inside their own chain; the first
	// len(c19CollSpecs) are the constant ones, in the order of the specs.
	colls  []c19Coll
	collOf map[string]c19Coll // by Host
}

func c19NewWorld(t *testing.T, seed uint64, thorough bool) *c19World {
	w := &c19World{
		labels: []string{"www", "mail", "evil", "shop", "good", "xn--g", "x", "y", "k9", "pvt"},
		suffixes: []string{
			// ICANN
			"com", "org", "co.uk", "net", "pvt.k12.ma.us", "ck", "kobe.jp", "city.kobe.jp", "www.ck",
			// private section
			"blogspot.com", "dyndns.org", "github.io", "s3.amazonaws.com",
			// not in the list
			"lan", "internal",
		},
		collide: map[string]string{},
	}
	for _, n := range []string{"evil.com", "good.org", "shop.co.uk", "evil.github.io", "mail.lan", "example.org"} {
		w.collide[n] = c19Collide(n, "org")
	}
	w.collOf = map[string]c19Coll{}
	add := func(name, target string) {
		a, b := c19Sum(name), c19Sum(target)
		if a[0] != b[0] || a[1] != b[1] || !strings.HasSuffix(name, "."+target) {
			t.Fatalf("C19 harness: %q and %q were expected to have hashes with the same 2-byte prefix", name, target)
		}
		for _, c := range []c19Coll{{Host: name, A: name, B: target}, {Host: "www." + name, A: name, B: target}} {
			w.colls = append(w.colls, c)
			w.collOf[c.Host] = c
		}
	}
	for _, sp := range c19CollSpecs {
		add(fmt.Sprintf(sp.pattern, sp.n), sp.target)
	}
	if thorough {
		// Fresh ones for this seed.
		start := int(seed%1000)*1000000 + 200000
		for _, sp := range c19CollSpecs {
			add(c19FindColl(sp.pattern, sp.target, start), sp.target)
		}
	}
	return w
}

func (w *c19World) host(r *vfRand) string {
	if r.Chance(1, 8) {
		// A name with a prefix collision inside its own chain, the later one of
		// the pair on its own, or a child of the name.
		c := vfPick(r, w.colls)
		switch r.Intn(6) {
		case 0:
			return c.B
		case 1:
			return vfPick(r, w.labels) + "." + c.Host
		default:
			return c.Host
		}
	}
	if r.Chance(1, 10) {
		// A name with a prefix twin.
		keys := make([]string, 0, len(w.collide))
		for k := range w.collide {
			keys = append(keys, k)
		}
		sort.Strings(keys)
		k := vfPick(r, keys)
		switch r.Intn(4) {
		case 0:
			return k
		case 1:
			return w.collide[k]
		case 2:
			return vfPick(r, w.labels) + "." + k
		default:
			return vfPick(r, w.labels) + "." + w.collide[k]
		}
	}
	suf := vfPick(r, w.suffixes)
	nsuf := strings.Count(suf, ".") + 1
	total := int(r.Range(1, 8))
	n := total - nsuf
	if n < 0 {
		n = 0
	}
	if n > 3 && r.Chance(2, 3) {
		n = int(r.Range(0, 3))
	}
	parts := make([]string, 0, n+1)
	for i := 0; i < n; i++ {
		parts = append(parts, vfPick(r, w.labels))
	}
	parts = append(parts, suf)
	h := strings.Join(parts, ".")
	switch r.Intn(24) {
	case 0:
		h += "."
	case 1:
		h = "." + h
	case 2:
		h = strings.Replace(h, ".", "..", 1)
	case 3:
		h = "\xc3\xa9" + h
	case 4, 5, 6:
		b := []byte(h)
		for i := range b {
			if b[i] >= 'a' && b[i] <= 'z' && r.Chance(1, 3) {
				b[i] -= 32
			}
		}
		h = string(b)
	}
	return h
}

// c19TxtKinds are the ways a TXT string can fail to be a full hash.
var c19TxtKinds = []string{"nonhex64", "nonascii64", "tiny", "short-hex", "short-nonhex", "long-hex", "long-nonhex"}

// c19TxtPositions are the places of a malformed string relative to a string
// of the same answer that is the full hash of an enumerated name.
var c19TxtPositions = []string{"before", "after", "earlier-record", "later-record"}

// c19TxtKind classifies a TXT string by its bytes alone: "" for a full hash
// (64 hexadecimal digits, either case), otherwise the kind of malformation.
func c19TxtKind(s string) string {
	_, derr := hex.DecodeString(s)
	switch {
	case len(s) == 64 && derr == nil:
		return ""
	case len(s) == 64:
		for i := 0; i < len(s); i++ {
			if s[i] >= 0x80 {
				return "nonascii64"
			}
		}
		return "nonhex64"
	case len(s) < 4:
		return "tiny"
	case len(s) < 64 && derr == nil:
		return "short-hex"
	case len(s) < 64:
		return "short-nonhex"
	case derr == nil:
		return "long-hex"
	default:
		return "long-nonhex"
	}
}

// c19Malformed makes a string of the given kind out of a hash; all but "tiny"
// start with the four digits of the hash's prefix, so that the scripted
// service serves them when that prefix is asked.  v selects a variant.
func c19Malformed(kind string, h [32]byte, v int) string {
	s := hex.EncodeToString(h[:])
	switch kind {
	case "nonhex64":
		b := []byte(s)
		b[4+v%60] = "gG zx-"[v%6]
		return string(b)
	case "nonascii64":
		return s[:62] + "\xc3\xa9"
	case "tiny":
		return []string{"", "zz", "00", "0"}[v%4]
	case "short-hex":
		return []string{s[:4], s[:62], s[:32]}[v%3]
	case "short-nonhex":
		return []string{s[:63], s[:5], s[:60] + "xyz"}[v%3]
	case "long-hex":
		o := sha256.Sum256([]byte(s))
		return []string{s + "00", s + "ff", s + "0000", s + hex.EncodeToString(o[:]), s + s, strings.ToUpper(s) + "FF"}[v%6]
	default: // long-nonhex
		return []string{s + "0", s + "g", s + s[:3], s + "zz"}[v%4]
	}
}

// c19Mangle makes a TXT string out of a hash: mostly well-formed.
func c19Mangle(r *vfRand, h [32]byte) (s string, valid bool) {
	switch k := r.Intn(16); {
	case k == 0:
		return strings.ToUpper(hex.EncodeToString(h[:])), true
	case k <= 7 && k-1 < len(c19TxtKinds):
		if kind := c19TxtKinds[k-1]; kind != "tiny" {
			return c19Malformed(kind, h, r.Intn(60)), false
		}
	}
	return hex.EncodeToString(h[:]), true
}

func (w *c19World) history(r *vfRand, nOps int) (h c19Hist) {
	h.Suffix = vfPick(r, []string{"sb.dns.adguard.com.", "pc.dns.adguard.com.", "x."})
	if r.Chance(1, 3) {
		// A cache that holds a few elements, one answer only just, or not even
		// that: elements are 10 bytes (no hash), 42, 74, ..
		h.CacheSize = vfPick(r, []uint{45, 60, 64, 90, 100, 130, 200, 300, 500})
	}
	nHosts := int(r.Range(1, 4))
	hosts := make([]string, 0, nHosts)
	for i := 0; i < nHosts; i++ {
		hosts = append(hosts, w.host(r))
	}
	if r.Chance(1, 2) {
		// A sibling sharing parents with the first host.
		if i := strings.IndexByte(hosts[0], '.'); i > 0 {
			hosts = append(hosts, vfPick(r, w.labels)+hosts[0][i:])
		}
	}
	if r.Chance(1, 2) {
		// The parent on its own: its entry is then older (or younger) than the
		// child's.
		if i := strings.IndexByte(hosts[0], '.'); i > 0 && strings.Contains(hosts[0][i+1:], ".") {
			hosts = append(hosts, hosts[0][i+1:])
		}
	}
	txt := func(s string) c19Txt { return c19Txt{S: s, Brk: r.Chance(1, 3)} }
	// Database.
	var splicedHosts []string
	var names []string // every name a db step may list later
	for _, host := range hosts {
		if chain := c19Chain(host); len(chain) >= 2 && r.Chance(1, 3) {
			// A hash made of one chain member's prefix and another member's
			// remaining 30 bytes: served, equal to no chain hash.
			i := r.Intn(len(chain))
			j := (i + 1 + r.Intn(len(chain)-1)) % len(chain)
			sp := c19Splice(chain[i], chain[j])
			t := hex.EncodeToString(sp[:])
			if r.Chance(1, 8) {
				t, _ = c19Mangle(r, sp)
			}
			h.DB = append(h.DB, txt(t))
			splicedHosts = append(splicedHosts, host)
		}
		if c, ok := w.collOf[host]; ok {
			// The pair of the chain that shares a prefix: mostly the LATER name
			// (a parent) is listed, sometimes the earlier one, both, or neither.
			switch r.Intn(8) {
			case 0, 1, 2, 3:
				h.DB = append(h.DB, txt(hex.EncodeToString(c19Sum(c.B))))
			case 4:
				h.DB = append(h.DB, txt(hex.EncodeToString(c19Sum(c.A))))
			case 5:
				h.DB = append(h.DB, txt(hex.EncodeToString(c19Sum(c.A))), txt(hex.EncodeToString(c19Sum(c.B))))
			}
			if r.Chance(1, 2) {
				hosts = append(hosts, c.B)
			}
		}
		subs := c19Subnames(host)
		names = append(names, subs...)
		for _, s := range subs {
			sum := sha256.Sum256([]byte(s))
			if r.Chance(1, 5) {
				t, _ := c19Mangle(r, sum)
				h.DB = append(h.DB, txt(t))
			}
			if r.Chance(1, 4) {
				// Another hash with the same prefix.
				o := sha256.Sum256([]byte(s + "#" + fmt.Sprint(r.Intn(1000))))
				o[0], o[1] = sum[0], sum[1]
				t, _ := c19Mangle(r, o)
				h.DB = append(h.DB, txt(t))
			}
			if r.Chance(1, 6) {
				// A malformed string under the same prefix, wherever the shuffle
				// puts it relative to the hash itself.
				kind := vfPick(r, c19TxtKinds)
				h.DB = append(h.DB, txt(c19Malformed(kind, sum, r.Intn(60))))
			}
			if tw, ok := w.collide[s]; ok && r.Chance(1, 2) {
				h.DB = append(h.DB, txt(hex.EncodeToString(c19Sum(tw))))
			}
			if tw, ok := w.collide[s]; ok {
				hosts = append(hosts, tw)
			}
		}
	}
	if r.Chance(1, 6) {
		h.DB = append(h.DB, txt(vfPick(r, []string{"", "zz", "00", "not a hash"})))
	}
	vfShuffle(r, h.DB)
	// What the database holds at this point of the generated history, for the
	// removals.
	cur := make([]string, 0, len(h.DB))
	for _, e := range h.DB {
		cur = append(cur, e.S)
	}
	for i := 0; i < nOps; i++ {
		switch k := r.Intn(12); {
		case k < 2 && len(splicedHosts) > 0:
			// Twice in a row: the second one is answered from the cache.
			sh := vfPick(r, splicedHosts)
			h.Steps = append(h.Steps, c19Step{Kind: "check", Host: sh}, c19Step{Kind: "check", Host: sh})
			i++
		case k < 7:
			h.Steps = append(h.Steps, c19Step{Kind: "check", Host: vfPick(r, hosts), Fail: r.Chance(1, 12)})
		case k < 9:
			h.Steps = append(h.Steps, c19Step{Kind: "advance",
				Secs: vfPick(r, []int64{100, 500, 1800, 1900, 3600, 3700, 4000})})
		case k == 9 && r.Chance(1, 2):
			// A listed name is delisted and the entry for its own prefix goes:
			// no other entry may go on carrying its verdict.
			var listed []string
			for _, n := range names {
				for _, s := range cur {
					if s == hex.EncodeToString(c19Sum(n)) {
						listed = append(listed, n)
					}
				}
			}
			if len(listed) == 0 {
				h.Steps = append(h.Steps, c19Step{Kind: "advance", Secs: 100})
				break
			}
			n := vfPick(r, listed)
			st := c19Step{Kind: "db", Del: []string{hex.EncodeToString(c19Sum(n))}}
			cur = c19DBStrings(c19ChangeDB(c19Strs(cur...), nil, st.Del))
			h.Steps = append(h.Steps, st, c19Step{Kind: "evict", Evict: []string{string(c19Sum(n)[:2])}})
			i++
		case k < 11:
			// The service's database changes: names of the hosts (their parents
			// included) get listed or delisted, foreign hashes come and go.
			st := c19Step{Kind: "db"}
			for n := int(r.Range(1, 2)); n > 0; n-- {
				name := vfPick(r, names)
				sum := sha256.Sum256([]byte(name))
				switch r.Intn(6) {
				case 0:
					o := sha256.Sum256([]byte(name + "#" + fmt.Sprint(r.Intn(1000))))
					o[0], o[1] = sum[0], sum[1]
					st.Add = append(st.Add, txt(hex.EncodeToString(o[:])))
				case 1:
					t, _ := c19Mangle(r, sum)
					st.Add = append(st.Add, txt(t))
				case 2, 3:
					st.Add = append(st.Add, txt(hex.EncodeToString(sum[:])))
				default:
					if len(cur) > 0 {
						st.Del = append(st.Del, vfPick(r, cur))
					} else {
						st.Add = append(st.Add, txt(hex.EncodeToString(sum[:])))
					}
				}
			}
			cur = c19DBStrings(c19ChangeDB(c19Strs(cur...), st.Add, st.Del))
			h.Steps = append(h.Steps, st)
		default:
			var ev []string
			for _, host := range hosts {
				for _, s := range c19Subnames(host) {
					if r.Chance(1, 3) {
						ev = append(ev, string(c19Sum(s)[:2]))
					}
				}
			}
			h.Steps = append(h.Steps, c19Step{Kind: "evict", Evict: ev})
		}
	}
	return h
}

// c19ChangeDB is the database after a db step: the strings in del removed
// (every occurrence), the strings of add appended.
func c19ChangeDB(db []c19Txt, add []c19Txt, del []string) (res []c19Txt) {
	gone := map[string]bool{}
	for _, s := range del {
		gone[s] = true
	}
	for _, e := range db {
		if !gone[e.S] {
			res = append(res, e)
		}
	}
	return append(res, add...)
}

func c19DBStrings(db []c19Txt) (ss []string) {
	for _, e := range db {
		ss = append(ss, e.S)
	}
	return ss
}

// c19ValidSet is the set of full hashes (decoded) among the strings of db.
func c19ValidSet(db []c19Txt) map[string]bool {
	m := map[string]bool{}
	for _, e := range db {
		if c19TxtKind(e.S) == "" {
			b, _ := hex.DecodeString(e.S)
			m[string(b)] = true
		}
	}
	return m
}

// c19B prints a byte string for Run/C19.v: seven bytes to a primitive integer
// (first byte lowest, the count in the three lowest bits), decoded by [ub].
func c19B(s string) string {
	if len(s) == 0 {
		return "(@nil N)"
	}
	var b strings.Builder
	b.WriteString("(ub ")
	n := 0
	for i := 0; i < len(s); i += 7 {
		j := i + 7
		if j > len(s) {
			j = len(s)
		}
		var w uint64
		for k := j - 1; k >= i; k-- {
			w = w<<8 | uint64(s[k])
		}
		w = w<<3 | uint64(j-i)
		b.WriteString("(IC ")
		b.WriteString(strconv.FormatUint(w, 10))
		b.WriteString(" ")
		n++
	}
	b.WriteString("I0")
	b.WriteString(strings.Repeat(")", n+1))
	return b.String()
}

func c19Sum(s string) []byte { h := sha256.Sum256([]byte(s)); return h[:] }

// c19Splice is the 2-byte prefix of the hash of name a followed by the
// remaining 30 bytes of the hash of name b: for a != b a hash that the service
// serves whenever the prefix of a is asked, that shares its prefix with one
// hash and everything else with another, and is equal to neither.
func c19Splice(a, b string) (h [32]byte) {
	copy(h[:], c19Sum(b))
	copy(h[:2], c19Sum(a)[:2])
	return h
}

// c19Chain is what the generator takes for the names hashed for host: the
// monitor's enumeration for well-formed hosts, every dot-aligned suffix of the
// last four labels otherwise.
func c19Chain(host string) (names []string) {
	if c19WellFormedHost(host) {
		return c19Enum(host)
	}
	names = c19Subnames(host)
	if len(names) > 4 {
		names = names[len(names)-4:]
	}
	return names
}

// c19SplicedOf tells whether d is made of the prefix of one chain hash and the
// remaining bytes of another one without being a chain hash itself.
func c19SplicedOf(d string, chain []string) bool {
	pre, rest := false, false
	for _, c := range chain {
		if d == c {
			return false
		}
		pre = pre || d[:2] == c[:2]
		rest = rest || d[2:] == c[2:]
	}
	return pre && rest
}

func c19FloorDiv(a, b int64) int64 {
	q := a / b
	if (a%b != 0) && ((a < 0) != (b < 0)) {
		q--
	}
	return q
}

// c19Run executes one history on a fresh Checker and emits the case.
func c19Run(out *vfOut, h c19Hist, forced []string) {
	var (
		lastQ      string
		asked      bool
		failNow    bool
		served     []string
		servedRecs [][]string
		classes    = map[string]bool{}
	)
	for _, f := range forced {
		classes[f] = true
	}
	// The database of the scripted service as it is now.
	db := append([]c19Txt(nil), h.DB...)
	ups := &aghtest.UpstreamMock{
		OnAddress: func() string { return "verif" },
		OnClose:   func() error { return nil },
	}
	ups.OnExchange = func(req *dns.Msg) (*dns.Msg, error) {
		asked = true
		lastQ = req.Question[0].Name
		if failNow {
			return nil, errors.New("scripted failure")
		}
		body := strings.TrimSuffix(lastQ, h.Suffix)
		want := map[string]bool{}
		for _, l := range strings.Split(body, ".") {
			if len(l) >= 4 {
				want[strings.ToLower(l[:4])] = true
			}
		}
		resp := (&dns.Msg{}).SetReply(req)
		served, servedRecs = served[:0], nil
		var cur *dns.TXT
		for i, e := range db {
			s := e.S
			if len(s) >= 4 && !want[strings.ToLower(s[:4])] {
				continue
			}
			served = append(served, s)
			if cur == nil || e.Brk {
				if i%4 == 1 {
					resp.Answer = append(resp.Answer, &dns.A{Hdr: dns.RR_Header{Name: lastQ, Rrtype: dns.TypeA, Class: dns.ClassINET}})
				}
				cur = &dns.TXT{Hdr: dns.RR_Header{Name: lastQ, Rrtype: dns.TypeTXT, Class: dns.ClassINET}}
				resp.Answer = append(resp.Answer, cur)
				servedRecs = append(servedRecs, nil)
			}
			cur.Txt = append(cur.Txt, s)
			servedRecs[len(servedRecs)-1] = append(servedRecs[len(servedRecs)-1], s)
		}
		return resp, nil
	}
	c := New(&Config{
		Upstream:    ups,
		ServiceName: "verif",
		TXTSuffix:   h.Suffix,
		CacheTime:   c19CacheTimeSec * time.Second,
		CacheSize:   h.CacheSize,
	})
	probe := c19ProbeCache(c.cache, h.CacheSize)
	wc := c19NewCache(h.CacheSize)
	c.cache = wc
	if h.CacheSize != 0 {
		classes["small-cache"] = true
	}

	// Valid database hashes as the database is now, for the monitor.
	dbValid := c19ValidSet(db)
	// Universe of names.
	shaTbl := map[string]bool{}
	psTbl := map[string]bool{}
	for _, st := range h.Steps {
		if st.Kind != "check" {
			continue
		}
		psTbl[st.Host] = true
		for _, s := range c19Subnames(st.Host) {
			shaTbl[s] = true
		}
	}

	monOK, monMsg, monKey := true, "", ""
	fail := func(key, msg string) {
		if monOK {
			monOK, monMsg, monKey = false, msg, key
		}
	}

	if probe != "" {
		fail("C19/cache-configuration", probe)
	}

	// The cache as it is, in the order of the library's usage list (least
	// recently used first), read without touching that order.
	dump := func() string {
		now := time.Now().Unix()
		elems, _, _ := c19Peek(wc.inner)
		var items []string
		for _, e := range elems {
			it := toCacheItem(e.val)
			hs := make([]string, 0, len(it.hashes))
			for _, x := range it.hashes {
				hs = append(hs, c19B(string(x[:])))
			}
			sort.Strings(hs)
			cl := c19FloorDiv(it.expiry.Unix()-now+25, 100)
			items = append(items, vfPair(vfPair(c19B(e.key), vfZ(cl)), vfList("list N", hs)))
		}
		return vfList("list N * Z * list (list N)", items)
	}

	var ops []string
	nontrivial := false
	sinceAdvance, sinceEvict, sinceDB := false, false, false
	seen := map[string]bool{}
	// The monitor's own account of the cache, independent of what is stored in
	// it: virtual clock; for every 2-byte prefix the instant its entry was
	// stored, the valid hashes the database held at that moment, and the number
	// of the Set that stored it.
	vnow := int64(0)
	fetched := map[string]int64{}
	snap := map[string]map[string]bool{}
	setSeq := map[string]int{}
	nSets := 0
	hexp := func(n string) string { return hex.EncodeToString(c19Sum(n)[:2]) }
	present := func(n string) bool { _, ok := fetched[hexp(n)]; return ok }
	live := func(n string) bool {
		at, ok := fetched[hexp(n)]
		return ok && vnow-at <= c19CacheTimeSec
	}
	forget := func(hp string) {
		delete(fetched, hp)
		delete(snap, hp)
		delete(setSeq, hp)
	}
	for _, st := range h.Steps {
		switch st.Kind {
		case "advance":
			elems, _, _ := c19Peek(wc.inner)
			for _, e := range elems {
				// In place: a Set could evict other entries, a Get would make the
				// entry the most recently used one.
				exp := int64(binary.BigEndian.Uint64(e.val))
				binary.BigEndian.PutUint64(e.val, uint64(exp-st.Secs))
			}
			sinceAdvance = true
			vnow += st.Secs
			ops = append(ops, vfApp("CAdvance", vfZ(st.Secs)))
		case "evict":
			var ps []string
			for _, p := range st.Evict {
				c.cache.Del([]byte(p))
				forget(hex.EncodeToString([]byte(p)))
				ps = append(ps, c19B(p))
			}
			sinceEvict = true
			ops = append(ops, vfApp("CEvict", vfList("list N", ps)))
		case "db":
			db = c19ChangeDB(db, st.Add, st.Del)
			dbValid = c19ValidSet(db)
			sinceDB = true
			classes["db-change"] = true
			var add, del []string
			for _, e := range st.Add {
				add = append(add, c19B(e.S))
				classes["db-add"] = true
			}
			for _, s := range st.Del {
				del = append(del, c19B(s))
				classes["db-del"] = true
			}
			ops = append(ops, vfApp("CDb", vfList("list N", add), vfList("list N", del)))
		case "check":
			asked, lastQ, failNow = false, "", st.Fail
			wc.events = nil
			wf := c19WellFormedHost(st.Host)
			var enum, chain []string
			if wf {
				enum = c19Enum(st.Host)
			} else {
				classes["odd-host"] = true
			}
			// What the cache holds under the prefixes of the chain before the
			// check: all a cached verdict can come from.
			cachedBefore := map[string]bool{}
			before := map[string][]byte{}
			elemsBefore, _, _ := c19Peek(wc.inner)
			for _, e := range elemsBefore {
				before[e.key] = e.val
			}
			for _, n := range enum {
				sum := c19Sum(n)
				chain = append(chain, string(sum))
				if data := before[string(sum[:2])]; data != nil {
					for _, x := range toCacheItem(data).hashes {
						cachedBefore[string(x[:])] = true
					}
				}
				if present(n) != (before[string(sum[:2])] != nil) {
					fail("C19/harness-account", fmt.Sprintf("before Check(%q): the monitor's account and the cache disagree about an entry for %q", st.Host, n))
				}
			}
			// The verdict the property asks for: every enumerated name is judged
			// by the database as it was when the still valid entry for its prefix
			// was stored, or, without such an entry, by the database as it is now;
			// the prefixes of the latter are what must be asked.
			var expectAsk []string
			want, wantNow, listedUnanswered := false, false, ""
			behindValid, someLive := false, false
			for _, n := range enum {
				sum := string(c19Sum(n))
				wantNow = wantNow || dbValid[sum]
				if live(n) {
					someLive = true
					want = want || snap[hexp(n)][sum]
				} else {
					expectAsk = append(expectAsk, hexp(n))
					want = want || dbValid[sum]
					if dbValid[sum] && listedUnanswered == "" {
						listedUnanswered = n
					}
					if present(n) && someLive {
						behindValid = true
					}
				}
			}
			var (
				blocked bool
				err     error
				pan     any
			)
			func() {
				defer func() { pan = recover() }()
				blocked, err = c.Check(st.Host)
			}()
			if pan != nil {
				fail("C19/panic", fmt.Sprintf("Check(%q) panicked: %v", st.Host, pan))
				classes["panic"] = true
			}
			// Round 6: two enumerated names of this host share the prefix.
			collPairs := c19PrefixPairs(enum)
			if len(collPairs) > 0 {
				classes["collision-in-chain"] = true
				classes[fmt.Sprintf("collision-chain-of-%d", len(enum))] = true
				nontrivial = true
				for _, pr := range collPairs {
					if pr[1] == pr[0]+1 {
						classes["collision-adjacent-names"] = true
					} else {
						classes["collision-non-adjacent-names"] = true
					}
					// the LATER name of the pair is what the service lists, the
					// earlier one is not listed
					if dbValid[string(c19Sum(enum[pr[1]]))] && !dbValid[string(c19Sum(enum[pr[0]]))] && err == nil && pan == nil {
						switch {
						case asked && !st.Fail && !live(enum[pr[1]]):
							classes["collision-later-name-listed-fresh"] = true
						case !asked:
							classes["collision-later-name-listed-cached"] = true
						}
					}
					if dbValid[string(c19Sum(enum[pr[0]]))] && dbValid[string(c19Sum(enum[pr[1]]))] && err == nil && asked && !st.Fail {
						classes["collision-both-names-listed"] = true
					}
				}
				if h.CacheSize != 0 {
					classes["collision-small-cache"] = true
				}
			}
			// Monitor: privacy of the outgoing question.
			if asked {
				body := strings.TrimSuffix(lastQ, h.Suffix)
				if !strings.HasSuffix(lastQ, h.Suffix) || !c19QuestionRe.MatchString(body) {
					fail("C19/question-shape", fmt.Sprintf("question %q for host %q is not 4-hex-digit labels + suffix", lastQ, st.Host))
				} else if wf {
					okp := map[string]bool{}
					for _, n := range enum {
						okp[hexp(n)] = true
					}
					got := strings.Split(strings.TrimSuffix(body, "."), ".")
					for _, l := range got {
						if !okp[l] {
							fail("C19/question-foreign-label", fmt.Sprintf("question %q for host %q carries %q, not a prefix of an enumerated name", lastQ, st.Host, l))
						}
					}
					// Monitor: exactly the prefixes of the enumerated names without a
					// valid entry are sent.  (As a SET: when two such names share a
					// prefix the code repeats the label, which the property does not
					// ask for; the model states the repetition and the evaluator
					// compares the question byte by byte.)
					g, e := c19UniqSorted(got), c19UniqSorted(expectAsk)
					if strings.Join(g, ".") != strings.Join(e, ".") {
						fail("C19/question-prefix-set", fmt.Sprintf("Check(%q) asked %q; the enumerated names without a valid cache entry have the prefixes %v", st.Host, lastQ, expectAsk))
					}
					if len(got) > len(g) {
						classes["collision-question-repeats-prefix"] = true
					}
				}
				if strings.ContainsAny(st.Host, "ghijklmnopqrstuvwxyzGHIJKLMNOPQRSTUVWXYZ") && strings.Contains(body, st.Host) {
					fail("C19/question-has-name", fmt.Sprintf("question %q contains the host %q", lastQ, st.Host))
				}
			}
			// The full hashes this check had before it: the well-formed strings of
			// the answer, or the cached entries of the chain's prefixes.
			had, src := cachedBefore, "cache"
			if asked {
				had, src = map[string]bool{}, "fresh lookup"
				if !st.Fail {
					for _, s := range served {
						if b, derr := hex.DecodeString(s); len(s) == 64 && derr == nil {
							had[string(b)] = true
						}
					}
				}
			}
			// Monitor: blocked only if a full hash it had is the full hash of an
			// enumerated name (all 32 bytes: sharing the prefix with one chain
			// hash and the rest with another does not count).
			eq := false
			for _, ch := range chain {
				eq = eq || had[ch]
			}
			if wf && blocked {
				if !eq {
					fail("C19/blocked-without-full-hash", fmt.Sprintf("Check(%q) = blocked from %s although none of the %d full hashes it had equals the hash of an enumerated name", st.Host, src, len(had)))
				}
			}
			if wf && err == nil && pan == nil && !eq {
				for d := range had {
					if c19SplicedOf(d, chain) {
						classes["spliced-hash-"+map[bool]string{true: "fresh", false: "cached"}[asked]] = true
						nontrivial = true
					}
				}
			}
			// Monitor: verdict.
			if st.Fail && asked {
				if err == nil || blocked {
					fail("C19/error-verdict", fmt.Sprintf("upstream failed but Check(%q) = %v, %v", st.Host, blocked, err))
				}
				classes["upstream-error"] = true
			} else if err != nil {
				fail("C19/unexpected-error", fmt.Sprintf("Check(%q): %v", st.Host, err))
			} else if wf {
				// Monitor: a name the service lists NOW, with no valid entry for
				// its prefix in the cache, blocks the host.
				if listedUnanswered != "" && !blocked {
					fail("C19/listed-name-not-blocked", fmt.Sprintf("Check(%q) = not blocked (%s, asked %q) although the service lists %q and the cache holds no valid entry for its prefix %s", st.Host, src, lastQ, listedUnanswered, hexp(listedUnanswered)))
				}
				if want != blocked {
					fail("C19/verdict-"+strings.ReplaceAll(src, " ", "-"), fmt.Sprintf("Check(%q) = %v from %s, database says %v (every name judged by the database as it was when the valid entry for its prefix was stored, else as it is now)", st.Host, blocked, src, want))
				}
				if want && !wantNow {
					classes["blocked-by-entry-older-than-delisting"] = true
				}
				if !want && wantNow {
					classes["clean-by-entry-older-than-listing"] = true
				}
			}
			// Monitor: the cache answers only from entries that are still alive.
			if wf && !asked && err == nil && len(enum) > 0 {
				if blocked {
					any := false
					for _, n := range enum {
						any = any || live(n)
					}
					if !any {
						fail("C19/stale-cache-answer", fmt.Sprintf("Check(%q) = blocked from cache although no entry for it is alive", st.Host))
					}
				} else {
					for _, n := range enum {
						if !live(n) {
							fail("C19/stale-cache-answer", fmt.Sprintf("Check(%q) answered from cache although the entry for %q expired or was evicted", st.Host, n))
						}
					}
				}
			}
			for _, ev := range wc.events {
				nSets++
				oldest, oldestSeq := "", 0
				for k, s := range setSeq {
					if oldest == "" || s < oldestSeq {
						oldest, oldestSeq = k, s
					}
				}
				for i, k := range ev.evicted {
					hk := hex.EncodeToString([]byte(k))
					if i == 0 && hk != oldest {
						// A Get in between saved the element stored longest ago.
						classes["lru-evicted-not-the-oldest-set"] = true
					}
					forget(hk)
				}
				hk := hex.EncodeToString([]byte(ev.key))
				if ev.stored {
					fetched[hk] = vnow
					snap[hk] = dbValid
					setSeq[hk] = nSets
				} else {
					classes["lru-element-refused"] = true
				}
				if len(ev.evicted) > 0 || !ev.stored {
					classes["eviction-inside-store"] = true
				}
				if len(ev.evicted) > 1 {
					classes["lru-set-evicts-several"] = true
				}
				for _, k := range ev.evicted {
					if k == ev.key {
						classes["lru-set-evicts-own-key"] = true
					}
				}
			}
			// Monitor (round 6): an entry written by this check and still in the
			// cache holds every full hash of the answer that has its prefix, and
			// nothing else; however many of the requested hashes share the prefix.
			if asked && !st.Fail && err == nil && pan == nil {
				servedBy := map[string]map[string]bool{}
				for _, sv := range served {
					if c19TxtKind(sv) == "" {
						b, _ := hex.DecodeString(sv)
						if servedBy[string(b[:2])] == nil {
							servedBy[string(b[:2])] = map[string]bool{}
						}
						servedBy[string(b[:2])][string(b)] = true
					}
				}
				written := map[string]bool{}
				for _, ev := range wc.events {
					if ev.stored {
						written[ev.key] = true
					}
				}
				elemsAfter, _, _ := c19Peek(wc.inner)
				for _, e := range elemsAfter {
					if !written[e.key] {
						continue
					}
					have := map[string]bool{}
					for _, x := range toCacheItem(e.val).hashes {
						have[string(x[:])] = true
					}
					wantH := servedBy[e.key]
					okE := len(have) == len(wantH)
					for x := range wantH {
						okE = okE && have[x]
					}
					if !okE {
						fail("C19/cache-entry-not-the-answer", fmt.Sprintf("Check(%q) (asked %q) stored under the prefix %x an entry with %d hashes; the answer had %d full hashes with that prefix", st.Host, lastQ, e.key, len(have), len(wantH)))
					}
					if len(collPairs) > 0 {
						nChain := 0
						for _, ch := range chain {
							if have[ch] {
								nChain++
							}
						}
						if nChain >= 2 {
							classes["collision-entry-holds-two-chain-hashes"] = true
						}
					}
				}
			}
			if wc.stray > 0 {
				fail("C19/harness-stray-eviction", "the cache evicted entries outside a Set")
			}
			if wc.bad != "" {
				fail("C19/cache-bytes", wc.bad)
			}
			// Is the usage order something else than the order of the Sets?
			{
				elems, _, _ := c19Peek(wc.inner)
				last := 0
				for _, e := range elems {
					s := setSeq[hex.EncodeToString([]byte(e.key))]
					if s < last {
						classes["lru-get-reordered"] = true
					}
					last = s
				}
				if len(elems) != len(fetched) {
					fail("C19/harness-account", fmt.Sprintf("after Check(%q): the cache holds %d elements, the monitor's account %d", st.Host, len(elems), len(fetched)))
				}
			}
			// Classes.
			if err == nil {
				switch {
				case asked && blocked:
					classes["blocked-fresh"] = true
				case asked && !blocked:
					classes["clean-fresh"] = true
				case blocked:
					classes["blocked-from-cache"] = true
					nontrivial = true
				default:
					if wf && len(enum) == 0 {
						classes["public-suffix-host"] = true
					} else {
						classes["clean-from-cache"] = true
						nontrivial = true
					}
				}
				if blocked {
					nontrivial = true
				}
				if asked {
					nq := strings.Count(strings.TrimSuffix(lastQ, h.Suffix), ".")
					if wf && nq < len(enum) {
						classes["partial-cache"] = true
						nontrivial = true
						if behindValid {
							// An expired entry is looked up again although an entry
							// earlier in the chain answered from the cache.
							classes["expired-behind-valid"] = true
							if listedUnanswered != "" {
								classes["expired-behind-valid-now-listed"] = true
							}
						}
					}
					if seen[st.Host] && sinceAdvance {
						classes["relookup-after-advance"] = true
					}
					if seen[st.Host] && sinceEvict {
						classes["relookup-after-evict"] = true
					}
					if seen[st.Host] && sinceDB {
						classes["relookup-after-db-change"] = true
					}
					own := map[string]bool{}
					for _, n := range c19Subnames(st.Host) {
						own[string(c19Sum(n))] = true
					}
					for _, s := range served {
						b, derr := hex.DecodeString(s)
						if len(s) != 64 || derr != nil {
							classes["malformed-txt-served"] = true
						} else if !own[string(b)] {
							classes["shared-prefix-other-hash"] = true
							if !blocked {
								classes["positive-entry-for-clean-host"] = true
							}
						}
						if s != strings.ToLower(s) && derr == nil && len(s) == 64 {
							classes["uppercase-hex-served"] = true
						}
					}
					// Every malformed string of the answer, by kind and by position
					// relative to each string that is the hash of an enumerated name.
					if len(servedRecs) > 1 {
						classes["several-txt-records"] = true
					}
					inChain := map[string]bool{}
					for _, ch := range chain {
						inChain[ch] = true
					}
					for ri, rec := range servedRecs {
						for si, s := range rec {
							if c19TxtKind(s) != "" {
								continue
							}
							if b, _ := hex.DecodeString(s); !inChain[string(b)] {
								continue
							}
							for rj, rec2 := range servedRecs {
								for sj, s2 := range rec2 {
									kind := c19TxtKind(s2)
									if kind == "" {
										continue
									}
									pos := "later-record"
									switch {
									case rj < ri:
										pos = "earlier-record"
									case rj == ri && sj < si:
										pos = "before"
									case rj == ri:
										pos = "after"
									}
									classes["txt-"+kind+"-"+pos] = true
								}
							}
						}
					}
				}
				seen[st.Host] = true
			}
			if wf {
				_, icann := publicsuffix.PublicSuffix(st.Host)
				ps, _ := publicsuffix.PublicSuffix(st.Host)
				kind := "default-rule"
				switch {
				case icann:
					kind = "icann"
				case strings.Contains(ps, "."):
					kind = "private"
				}
				classes[kind+"-suffix"] = true
				if nl := strings.Count(st.Host, ".") + 1; nl <= 8 {
					classes[fmt.Sprintf("labels-%d-%s", nl, kind)] = true
				}
				if strings.Count(st.Host, ".") >= 4 {
					classes["more-than-4-labels"] = true
				}
				if st.Host != strings.ToLower(st.Host) {
					classes["mixed-case"] = true
				}
			}
			var sets []string
			for _, ev := range wc.events {
				var evs []string
				for _, k := range ev.evicted {
					evs = append(evs, c19B(k))
				}
				sets = append(sets, vfPair(vfPair(c19B(ev.key), vfList("list N", evs)), vfBool(ev.stored)))
			}
			_, size, _ := c19Peek(wc.inner)
			ops = append(ops, vfApp("CCheck", c19B(st.Host), vfBool(st.Fail),
				vfList("list N * list (list N) * bool", sets),
				vfBool(blocked), vfBool(err != nil), vfOpt("list N", asked, c19B(lastQ)), dump(),
				vfZ(int64(size))))
			if int(size) != wc.inner.Stats().Size {
				fail("C19/harness-account", "cache.size read by reflection differs from Stats().Size")
			}
		}
	}

	if wc.bad != "" {
		fail("C19/cache-bytes", wc.bad)
	}
	var shaItems, psItems []string
	names := make([]string, 0, len(shaTbl))
	for n := range shaTbl {
		names = append(names, n)
	}
	sort.Strings(names)
	for _, n := range names {
		shaItems = append(shaItems, vfPair(c19B(n), c19B(string(c19Sum(n)))))
	}
	hostsS := make([]string, 0, len(psTbl))
	for n := range psTbl {
		hostsS = append(hostsS, n)
	}
	sort.Strings(hostsS)
	for _, n := range hostsS {
		ps, icann := publicsuffix.PublicSuffix(n)
		psItems = append(psItems, vfPair(c19B(n), vfPair(c19B(ps), vfBool(icann))))
	}
	var dbItems []string
	for _, e := range h.DB {
		dbItems = append(dbItems, c19B(e.S))
	}
	cls := make([]string, 0, len(classes))
	for k := range classes {
		cls = append(cls, k)
	}
	sort.Strings(cls)
	out.Emit(vfCase{
		Coq: vfApp("Case", c19B(h.Suffix), vfZ(c19CacheTimeSec), vfZ(int64(h.CacheSize)),
			vfList("list N * list N", shaItems),
			vfList("list N * (list N * bool)", psItems),
			vfList("list N", dbItems),
			vfList("cop", ops)),
		Nontrivial: nontrivial,
		Classes:    cls,
		MonitorOK:  monOK,
		MonitorMsg: monMsg,
		FindingKey: monKey,
		Desc:       h,
	})
}

func TestVerifC19(t *testing.T) {
	out := vfOpen(t, "C19")
	defer out.Close()
	w := c19NewWorld(t, out.Seed, out.Thorough())

	hx := func(n string) string { return hex.EncodeToString(c19Sum(n)) }
	sum := func(n string) (h [32]byte) { copy(h[:], c19Sum(n)); return h }
	chk := func(h string) c19Step { return c19Step{Kind: "check", Host: h} }
	adv := func(s int64) c19Step { return c19Step{Kind: "advance", Secs: s} }
	dbAdd := func(ss ...string) c19Step { return c19Step{Kind: "db", Add: c19Strs(ss...)} }
	dbDel := func(ss ...string) c19Step { return c19Step{Kind: "db", Del: ss} }
	evict := func(names ...string) c19Step {
		st := c19Step{Kind: "evict"}
		for _, n := range names {
			st.Evict = append(st.Evict, string(c19Sum(n)[:2]))
		}
		return st
	}
	const sb, pc = "sb.dns.adguard.com.", "pc.dns.adguard.com."
	twin := w.collide["evil.com"]
	other := sha256.Sum256([]byte("other"))
	copy(other[:2], c19Sum("good.org")[:2])
	// Seed-independent prelude: one constructed history per branch class.
	prelude := []c19Hist{
		// blocked fresh, then from cache, then expired and looked up again
		{Suffix: sb, DB: c19Strs(hx("evil.com")),
			Steps: []c19Step{chk("www.evil.com"), chk("www.evil.com"), adv(1800), chk("mail.evil.com"), adv(1900), chk("www.evil.com")}},
		// clean fresh, clean from cache, partial cache for a sibling
		{Suffix: pc, DB: c19Strs(hx("evil.com")),
			Steps: []c19Step{chk("www.good.org"), chk("www.good.org"), chk("mail.good.org"), chk("good.org")}},
		// prefix twin: a clean name whose prefix carries another name's hash; the twin is then blocked from cache
		{Suffix: sb, DB: c19Strs(hx(twin)),
			Steps: []c19Step{chk("evil.com"), chk(twin), chk("evil.com")}},
		// the other way round: the blocked twin first
		{Suffix: sb, DB: c19Strs(hx(twin)),
			Steps: []c19Step{chk(twin), chk("evil.com"), adv(3700), chk("evil.com"), chk(twin)}},
		// malformed and upper-case TXT strings, foreign hash with a shared prefix
		{Suffix: sb, DB: c19Strs(strings.ToUpper(hx("shop.co.uk")), hx("good.org")[:63], hx("good.org")+"0",
			hex.EncodeToString(other[:]), "zz", ""),
			Steps: []c19Step{chk("a.shop.co.uk"), chk("good.org"), chk("www.good.org"), chk("good.org")}},
		// over-long TXT strings that decode and start with the hash of the queried name or of a parent: not a hash
		{Suffix: sb, DB: c19Strs(hx("www.good.org")+"00", hx("good.org")+hx("other.example"), hx("shop.co.uk")+hx("shop.co.uk"),
			strings.ToUpper(hx("a.shop.co.uk"))+"FF"),
			Steps: []c19Step{chk("www.good.org"), chk("good.org"), chk("www.good.org"), chk("a.shop.co.uk"), chk("shop.co.uk"), adv(3700), chk("www.good.org")}},
		// upstream failure leaves the cache alone
		{Suffix: sb, DB: c19Strs(hx("evil.com")),
			Steps: []c19Step{{Kind: "check", Host: "evil.com", Fail: true}, chk("evil.com"), {Kind: "check", Host: "evil.com", Fail: true},
				evict("evil.com"), {Kind: "check", Host: "evil.com", Fail: true}, chk("evil.com")}},
		// suffix kinds, long names, mixed case, public suffixes themselves, odd names
		{Suffix: "x.", DB: c19Strs(hx("d.e.f.com"), hx("blogspot.com"), hx("COM"), hx("k12.ma.us"), hx("foo.ck")),
			Steps: []c19Step{chk("a.b.c.d.e.f.com"), chk("x.blogspot.com"), chk("Evil.COM"), chk("co.uk"), chk("com"),
				chk("x.pvt.k12.ma.us"), chk("y.x.pvt.k12.ma.us"), chk("foo.ck"), chk("a.foo.ck"), chk("www.ck"), chk("mail.lan"),
				chk(""), chk("a."), chk(".com"), chk("a..com"), chk("."), chk("a.b.c.d.")}},
	}
	spx := func(a, b string) string { x := c19Splice(a, b); return hex.EncodeToString(x[:]) }
	prelude = append(prelude,
		// spliced hashes, fresh path only: prefix of one chain member + the other
		// 30 bytes of another, both ways and over a chain of three; every check
		// goes upstream (evictions in between), nothing is blocked
		c19Hist{Suffix: sb,
			DB: c19Strs(spx("good.org", "www.good.org"), spx("www.good.org", "good.org"),
				spx("evil.com", "a.b.evil.com"), spx("b.evil.com", "evil.com")),
			Steps: []c19Step{chk("www.good.org"),
				evict("good.org", "www.good.org"),
				chk("www.good.org"), chk("a.b.evil.com"),
				evict("evil.com", "b.evil.com", "a.b.evil.com"),
				chk("b.evil.com")}},
		// spliced hashes, cached path: the second check of each name is answered
		// from the entries that hold the spliced hashes; a real hash beside them
		// still blocks its own name only
		c19Hist{Suffix: pc,
			DB: c19Strs(spx("good.org", "www.good.org"), spx("www.good.org", "good.org"),
				spx("evil.com", "a.b.evil.com"), spx("a.b.evil.com", "b.evil.com"), hx("mail.evil.com")),
			Steps: []c19Step{chk("www.good.org"), chk("www.good.org"), chk("good.org"),
				chk("a.b.evil.com"), chk("a.b.evil.com"), chk("b.evil.com"), chk("mail.evil.com"), chk("mail.evil.com"),
				adv(3700), chk("www.good.org"), chk("www.good.org")}},
	)
	// The same answers into caches that cannot hold them: three prefixes per
	// answer, entries of 42 bytes.
	for _, size := range []uint{45, 60, 100, 130} {
		prelude = append(prelude, c19Hist{CacheSize: size, Suffix: sb,
			DB: c19Strs(hx("a.b.evil.com"), hx("b.evil.com"), hx("evil.com")),
			Steps: []c19Step{chk("a.b.evil.com"), chk("a.b.evil.com"), chk("a.b.evil.com"), chk("evil.com"), chk("b.evil.com"),
				adv(3700), chk("a.b.evil.com"), chk("www.good.org"), chk("evil.com")}})
	}

	// ---- Round 4: the database changes between checks.
	prelude = append(prelude,
		// The parent's entry is older than the child's and expires first; the
		// service has listed the parent meanwhile: the parent's prefix, and only
		// that one, is looked up again and the child is blocked.
		c19Hist{Suffix: sb,
			Steps: []c19Step{chk("example.com"), adv(1800), chk("sub.example.com"), dbAdd(hx("example.com")),
				chk("sub.example.com"), adv(1900), chk("sub.example.com"), chk("sub.example.com"), chk("example.com")}},
		// A chain of three with three ages: first the grandparent expires (not
		// listed), then the listed parent in the middle, the child's own entry
		// staying valid throughout.
		c19Hist{Suffix: pc,
			Steps: []c19Step{chk("c.com"), adv(1000), chk("b.c.com"), adv(1000), chk("a.b.c.com"), dbAdd(hx("b.c.com")),
				adv(1700), chk("a.b.c.com"), adv(1000), chk("a.b.c.com"), chk("b.c.com"), chk("c.com")}},
		// The name itself is listed while its entries are valid: clean from the
		// cache until the entry goes, then blocked by asking its prefix alone.
		c19Hist{Suffix: sb,
			Steps: []c19Step{chk("sub.example.com"), dbAdd(hx("sub.example.com")), chk("sub.example.com"),
				evict("sub.example.com"), chk("sub.example.com"), chk("sub.example.com")}},
		// Delisting: blocked from the cache for as long as the entry lives.
		c19Hist{Suffix: sb, DB: c19Strs(hx("evil.com"), hx("www.evil.com")),
			Steps: []c19Step{chk("www.evil.com"), dbDel(hx("evil.com")), chk("www.evil.com"), chk("mail.evil.com"),
				dbDel(hx("www.evil.com")), adv(3700), chk("www.evil.com"), chk("mail.evil.com")}},
		// A foreign hash under the prefix comes and goes; an expired empty entry
		// that gets no hashes is not rewritten and is asked about every time.
		c19Hist{Suffix: "x.",
			Steps: []c19Step{chk("good.org"), dbAdd(hex.EncodeToString(other[:])), chk("good.org"), adv(3700), chk("good.org"),
				dbDel(hex.EncodeToString(other[:])), chk("good.org"), adv(3700), chk("good.org"), chk("good.org"),
				dbAdd(hx("good.org")), chk("good.org"), chk("good.org")}},
	)

	// An entry holds the hashes of its own prefix only: the entry for the
	// child's prefix (a foreign hash) must not go on blocking for the parent
	// once the parent is delisted and its own entry is gone.
	{
		foreign := sha256.Sum256([]byte("foreign"))
		copy(foreign[:2], c19Sum("www.evil.com")[:2])
		prelude = append(prelude, c19Hist{Suffix: sb, DB: c19Strs(hex.EncodeToString(foreign[:]), hx("evil.com")),
			Steps: []c19Step{chk("www.evil.com"), chk("www.evil.com"), evict("evil.com"), dbDel(hx("evil.com")),
				chk("www.evil.com"), chk("www.evil.com"), chk("evil.com")}})
	}

	// ---- Round 4: the usage order of the library cache.  Names with a chain
	// of one (x.com) store elements of 10 bytes; 45 bytes hold four of them.
	prelude = append(prelude,
		// A Get moves the element to the hot end: n2, not n1, goes for n5.
		c19Hist{CacheSize: 45, Suffix: sb,
			Steps: []c19Step{chk("n1.com"), chk("n2.com"), chk("n3.com"), chk("n4.com"), chk("n1.com"), chk("n5.com"),
				chk("n1.com"), chk("n2.com"), chk("n3.com")}},
		// One element of 42 bytes pushes out four of 10.
		c19Hist{CacheSize: 45, Suffix: sb, DB: c19Strs(hx("evil.com")),
			Steps: []c19Step{chk("n1.com"), chk("n2.com"), chk("n3.com"), chk("n4.com"), chk("evil.com"), chk("evil.com"),
				chk("n4.com"), chk("evil.com")}},
		// A Set deletes the element of its own key on the way: three expired
		// elements of the chain, all just read; the answer has a hash for the
		// first.
		c19Hist{CacheSize: 45, Suffix: sb,
			Steps: []c19Step{chk("a.b.evil.com"), adv(3700), dbAdd(hx("a.b.evil.com")), chk("a.b.evil.com"), chk("a.b.evil.com"),
				chk("b.evil.com")}},
		// An element larger than the whole cache (two hashes under one prefix,
		// 76 bytes) is refused: no entry, above all no empty one.
		c19Hist{CacheSize: 45, Suffix: sb, DB: c19Strs(hx("evil.com"), hex.EncodeToString(func() []byte {
			o := sha256.Sum256([]byte("another"))
			copy(o[:2], c19Sum("evil.com")[:2])
			return o[:]
		}())),
			Steps: []c19Step{chk("evil.com"), chk("evil.com"), chk("www.evil.com"), chk("www.evil.com")}},
	)

	// ---- Round 4: every kind of malformed TXT string in every position
	// relative to the string that is the hash of an enumerated name (the name
	// itself or its parent), in one TXT record or in another one.
	for ki, kind := range c19TxtKinds {
		for pi, pos := range c19TxtPositions {
			host, listed := "www.good.org", "good.org"
			if (ki+pi)%2 == 1 {
				host, listed = "mail.evil.com", "mail.evil.com"
			}
			mal := c19Txt{S: c19Malformed(kind, sum(listed), ki+pi)}
			match := c19Txt{S: hx(listed)}
			var db []c19Txt
			switch pos {
			case "before":
				db = []c19Txt{mal, match}
			case "after":
				db = []c19Txt{match, mal}
			case "earlier-record":
				match.Brk = true
				db = []c19Txt{mal, match}
			default:
				mal.Brk = true
				db = []c19Txt{match, mal}
			}
			prelude = append(prelude, c19Hist{Suffix: sb, DB: db, Steps: []c19Step{chk(host), chk(host)}})
		}
	}
	// All kinds around one hash, three records.
	{
		var db []c19Txt
		all := func(v int, brk bool) {
			for i, kind := range c19TxtKinds {
				db = append(db, c19Txt{S: c19Malformed(kind, sum("good.org"), v+i), Brk: brk && i == 0})
			}
		}
		all(0, false)
		all(1, true)
		db = append(db, c19Txt{S: hx("good.org")})
		all(2, false)
		all(3, true)
		prelude = append(prelude, c19Hist{Suffix: pc, DB: db, Steps: []c19Step{chk("www.good.org"), chk("good.org"), chk("good.org")}})
	}

	// ---- Round 4: 1..8 labels on ICANN, private and unlisted suffixes.
	for _, suf := range []string{"com", "blogspot.com", "s3.amazonaws.com", "lan", "co.uk"} {
		hst := c19Hist{Suffix: "x.", DB: c19Strs(hx("k9."+suf), hx(suf), hx("x.y.k9."+suf))}
		name := suf
		for n, j := strings.Count(suf, ".")+1, 0; n <= 8; n, j = n+1, j+1 {
			hst.Steps = append(hst.Steps, chk(name))
			name = []string{"k9", "y", "x", "www", "mail", "shop", "good", "pvt"}[j%8] + "." + name
		}
		hst.Steps = append(hst.Steps, dbDel(hx(suf)), adv(3700))
		for _, st := range append([]c19Step(nil), hst.Steps...) {
			if st.Kind == "check" {
				hst.Steps = append(hst.Steps, st)
			}
		}
		prelude = append(prelude, hst)
	}

	// ---- Round 6: prefix collisions inside one name's chain.  For every
	// constant pair (A earlier in the chain, B a parent of A, equal prefixes):
	for i, c := range w.colls {
		if i >= 2*len(c19CollSpecs) {
			break // the fresh ones of the thorough tier go through the generator
		}
		foreign := sha256.Sum256([]byte("foreign/" + c.B))
		copy(foreign[:2], c19Sum(c.B)[:2])
		fx := hex.EncodeToString(foreign[:])
		if c.Host != c.A {
			// a child of the colliding name: parent and grandparent (or further
			// up) share the prefix, the name itself has its own
			prelude = append(prelude,
				c19Hist{Suffix: sb, DB: c19Strs(hx(c.B)),
					Steps: []c19Step{chk(c.Host), chk(c.Host), chk(c.A), chk(c.B), adv(3700), chk(c.A), chk(c.Host)}},
				c19Hist{Suffix: pc, DB: c19Strs(hx(c.A)),
					Steps: []c19Step{chk(c.Host), chk(c.B), chk(c.Host), evict(c.B), chk(c.B), chk(c.Host)}})
			continue
		}
		prelude = append(prelude,
			// the LATER name of the pair (the parent) is listed: blocked on the
			// fresh lookup, from the cache, after expiry; the parent alone too
			c19Hist{Suffix: sb, DB: c19Strs(hx(c.B)),
				Steps: []c19Step{chk(c.Host), chk(c.Host), adv(3700), chk(c.Host), chk(c.B), chk(c.Host)}},
			// the earlier name is listed: the shared entry holds its hash, the
			// parent on its own is clean from that entry and on a fresh lookup
			c19Hist{Suffix: pc, DB: c19Strs(hx(c.A)),
				Steps: []c19Step{chk(c.Host), chk(c.Host), chk(c.B), evict(c.B), chk(c.B), chk(c.Host)}},
			// both listed and a foreign hash under the same prefix: one entry
			// with three hashes (106 bytes) in a cache of 130 / of 100 bytes
			c19Hist{CacheSize: []uint{130, 100}[i/2%2], Suffix: sb, DB: c19Strs(fx, hx(c.A), hx(c.B)),
				Steps: []c19Step{chk(c.Host), chk(c.Host), chk(c.B), chk(c.Host)}},
			// nothing listed: ONE empty entry for the pair; the parent gets listed
			// while it lives, is seen when it is gone, is delisted while the
			// positive entry lives
			c19Hist{Suffix: sb,
				Steps: []c19Step{chk(c.Host), dbAdd(hx(c.B)), chk(c.Host), adv(3700), chk(c.Host), chk(c.Host),
					dbDel(hx(c.B)), chk(c.Host), evict(c.B), chk(c.Host), chk(c.Host)}},
			// only a foreign hash under the shared prefix: never blocked
			c19Hist{Suffix: "x.", DB: c19Strs(fx),
				Steps: []c19Step{chk(c.Host), chk(c.Host), chk(c.B), dbAdd(hx(c.B)), evict(c.B), chk(c.Host)}},
			// a cache of one element: the parent's hash is stored (42 bytes) and
			// pushed out by the other names of the chain, or kept
			c19Hist{CacheSize: 45, Suffix: sb, DB: c19Strs(hx(c.B)),
				Steps: []c19Step{chk(c.Host), chk(c.Host), chk(c.B), chk(c.Host)}},
		)
	}
	// A third, different name with the same prefix as the colliding pair:
	// asked before and after it.
	{
		c := w.colls[0]
		tw := w.collide[c.B]
		prelude = append(prelude,
			c19Hist{Suffix: sb, DB: c19Strs(hx(c.B)), Steps: []c19Step{chk(tw), chk(c.Host), chk(tw), adv(3700), chk(c.Host), chk(tw)}},
			c19Hist{Suffix: sb, DB: c19Strs(hx(tw)), Steps: []c19Step{chk(c.Host), chk(tw), chk(c.Host), chk(c.B)}},
			c19Hist{Suffix: pc, DB: c19Strs(hx(tw), hx(c.B)), Steps: []c19Step{chk(tw), chk(c.B), evict(c.B), chk(c.Host), chk(tw)}})
	}

	for _, h := range prelude {
		c19Run(out, h, nil)
	}

	r := vfNewRand(out.Seed)
	n := out.Scale(700, 5000)
	for i := 0; i < n; i++ {
		rr := r.Fork(uint64(i))
		c19Run(out, w.history(rr, int(rr.Range(3, 14))), nil)
	}
}

//go:build verif

package hashprefix

import (
	"crypto/sha256"
	"encoding/binary"
	"encoding/hex"
	"errors"
	"fmt"
	"regexp"
	"sort"
	"strconv"
	"strings"
	"testing"
	"time"

	"github.com/AdguardTeam/AdGuardHome/internal/aghtest"
	"github.com/AdguardTeam/golibs/cache"
	"github.com/miekg/dns"
	"golang.org/x/net/publicsuffix"
)

// Correspondence harness for C19: the real Checker against a scripted lookup
// service, one case per history of checks / clock advances / evictions that
// share one cache and one database.

const (
	c19CacheTimeSec = 3650 // ages are multiples of 100 s: never within 50 s of expiry
)

type c19Step struct {
	Kind  string   `json:"kind"` // check, advance, evict
	Host  string   `json:"host,omitempty"`
	Fail  bool     `json:"fail,omitempty"`
	Secs  int64    `json:"secs,omitempty"`
	Evict []string `json:"evict,omitempty"`
}

// c19SetEv is one cache.Set made during a Check.
type c19SetEv struct {
	key     string
	evicted []string
	stored  bool
}

// c19Cache wraps the golibs cache of the Checker (same configuration as
// hashprefix.New gives it, plus OnDelete) and records what every Set did.
type c19Cache struct {
	inner   cache.Cache
	maxSize uint
	events  []c19SetEv
	cur     *c19SetEv
	stray   int
	// sizes is the harness' own account of what is stored: key -> bytes of key
	// and value; bad is the first disagreement with what the cache reports.
	sizes map[string]int
	bad   string
}

// audit compares the harness' account with the Stats of the real cache.
func (w *c19Cache) audit(when string) {
	sum := 0
	for _, n := range w.sizes {
		sum += n
	}
	st := w.inner.Stats()
	if w.bad == "" && (st.Size != sum || st.Count != len(w.sizes)) {
		w.bad = fmt.Sprintf("%s: the cache reports %d bytes in %d elements, the stored keys and values make %d bytes in %d elements", when, st.Size, st.Count, sum, len(w.sizes))
	}
	if w.bad == "" && w.maxSize != 0 && uint(st.Size) > w.maxSize {
		w.bad = fmt.Sprintf("%s: the cache holds %d bytes, configured size %d", when, st.Size, w.maxSize)
	}
}

func c19NewCache(maxSize uint) *c19Cache {
	w := &c19Cache{maxSize: maxSize, sizes: map[string]int{}}
	w.inner = cache.New(cache.Config{EnableLRU: true, MaxSize: maxSize, OnDelete: func(k, v []byte) {
		if n, ok := w.sizes[string(k)]; !ok || n != len(k)+len(v) {
			if w.bad == "" {
				w.bad = fmt.Sprintf("evicted element %x of %d bytes, stored with %d", k, len(k)+len(v), n)
			}
		}
		delete(w.sizes, string(k))
		if w.cur != nil {
			w.cur.evicted = append(w.cur.evicted, string(k))
		} else {
			w.stray++
		}
	}})
	return w
}

func (w *c19Cache) Set(k, v []byte) bool {
	ev := c19SetEv{key: string(k), stored: w.maxSize == 0 || uint(len(k)+len(v)) <= w.maxSize}
	// A stored value is 8 bytes of expiry and 32 bytes per hash.
	if w.bad == "" && (len(k) != prefixLen || len(v) < expirySize || (len(v)-expirySize)%hashSize != 0) {
		w.bad = fmt.Sprintf("Set(%x): key of %d bytes, value of %d bytes", k, len(k), len(v))
	}
	w.cur = &ev
	r := w.inner.Set(k, v)
	w.cur = nil
	w.events = append(w.events, ev)
	if ev.stored {
		w.sizes[string(k)] = len(k) + len(v)
	}
	w.audit(fmt.Sprintf("after Set(%x, %d bytes)", k, len(v)))
	return r
}
func (w *c19Cache) Get(k []byte) []byte { return w.inner.Get(k) }
func (w *c19Cache) Del(k []byte) {
	w.inner.Del(k)
	delete(w.sizes, string(k))
	w.audit(fmt.Sprintf("after Del(%x)", k))
}
func (w *c19Cache) Clear()              { w.inner.Clear() }
func (w *c19Cache) Stats() cache.Stats  { return w.inner.Stats() }

// c19ProbeCache asks the cache that New configured whether it is what the
// property's "cache" is taken to be: limited to size bytes of keys and values
// (0 = unlimited), dropping the least recently used elements when full.  The
// harness then replaces it by an instrumented cache of the same configuration.
func c19ProbeCache(cc cache.Cache, size uint) string {
	k1, k2 := []byte{1, 1}, []byte{2, 2}
	if size == 0 {
		cc.Set(k1, make([]byte, 1<<16))
		cc.Set(k2, make([]byte, 1<<16))
		if cc.Get(k1) == nil || cc.Get(k2) == nil {
			return "CacheSize 0: the cache does not keep two elements of 64 KiB"
		}
		return ""
	}
	cc.Set(k1, make([]byte, size-2))
	if cc.Get(k1) == nil {
		return fmt.Sprintf("CacheSize %d: an element of exactly %d bytes is refused", size, size)
	}
	cc.Set(k2, make([]byte, size-1))
	if cc.Get(k2) != nil {
		return fmt.Sprintf("CacheSize %d: an element of %d bytes is kept", size, size+1)
	}
	if cc.Get(k1) == nil {
		return fmt.Sprintf("CacheSize %d: a refused element made the cache drop another one", size)
	}
	cc.Set(k2, make([]byte, 1))
	if cc.Get(k2) == nil {
		return fmt.Sprintf("CacheSize %d: the full cache refuses a new element instead of dropping the least recently used one", size)
	}
	if cc.Get(k1) != nil {
		return fmt.Sprintf("CacheSize %d: the cache holds %d bytes", size, size+3)
	}
	if st := cc.Stats(); st.Size != 3 || st.Count != 1 {
		return fmt.Sprintf("CacheSize %d: %d bytes in %d elements after the probe, want 3 in 1", size, st.Size, st.Count)
	}
	return ""
}

type c19Hist struct {
	// CacheSize is Config.CacheSize in bytes; 0 = unlimited.
	CacheSize uint   `json:"cache_size"`
	Suffix string    `json:"suffix"`
	DB     []string  `json:"db"`
	Steps  []c19Step `json:"steps"`
}

// c19Enum is the monitor's own reading of the property: the trailing-label
// sub-domains of the last four labels, ICANN public suffix (and anything
// inside it) excluded.  Only used for hosts without empty labels.
func c19Enum(host string) (names []string) {
	ps, icann := publicsuffix.PublicSuffix(host)
	labels := strings.Split(host, ".")
	if len(labels) > 4 {
		labels = labels[len(labels)-4:]
	}
	for i := range labels {
		n := strings.Join(labels[i:], ".")
		if icann && (n == ps || strings.HasSuffix(ps, "."+n)) {
			continue
		}
		names = append(names, n)
	}
	return names
}

func c19WellFormedHost(h string) bool {
	if h == "" {
		return false
	}
	for _, l := range strings.Split(h, ".") {
		if l == "" {
			return false
		}
	}
	return true
}

// c19Subnames lists every dot-aligned suffix of host (and host itself): a
// superset of anything the code can hash; used for the sha / suffix tables.
func c19Subnames(host string) (names []string) {
	names = append(names, host)
	for i := 0; i < len(host); i++ {
		if host[i] == '.' {
			names = append(names, host[i+1:])
		}
	}
	return names
}

var c19QuestionRe = regexp.MustCompile(`^([0-9a-f]{4}\.)+$`)

// c19Collide finds a label x such that sha256(x+"."+tld) shares its 2-byte
// prefix with sha256(target).
func c19Collide(target, tld string) string {
	want := sha256.Sum256([]byte(target))
	for i := 0; ; i++ {
		n := fmt.Sprintf("z%dq.%s", i, tld)
		h := sha256.Sum256([]byte(n))
		if h[0] == want[0] && h[1] == want[1] && n != target {
			return n
		}
	}
}

type c19World struct {
	labels   []string
	suffixes []string
	collide  map[string]string // name -> another name with the same prefix
}

func c19NewWorld() *c19World {
	w := &c19World{
		labels: []string{"www", "mail", "evil", "shop", "good", "xn--g", "x", "y", "k9", "pvt"},
		suffixes: []string{
			// ICANN
			"com", "org", "co.uk", "net", "pvt.k12.ma.us", "ck", "kobe.jp", "city.kobe.jp", "www.ck",
			// private section
			"blogspot.com", "dyndns.org", "github.io", "s3.amazonaws.com",
			// not in the list
			"lan", "internal",
		},
		collide: map[string]string{},
	}
	for _, n := range []string{"evil.com", "good.org", "shop.co.uk", "evil.github.io", "mail.lan"} {
		w.collide[n] = c19Collide(n, "org")
	}
	return w
}

func (w *c19World) host(r *vfRand) string {
	if r.Chance(1, 10) {
		// A name with a prefix twin.
		keys := make([]string, 0, len(w.collide))
		for k := range w.collide {
			keys = append(keys, k)
		}
		sort.Strings(keys)
		k := vfPick(r, keys)
		switch r.Intn(4) {
		case 0:
			return k
		case 1:
			return w.collide[k]
		case 2:
			return vfPick(r, w.labels) + "." + k
		default:
			return vfPick(r, w.labels) + "." + w.collide[k]
		}
	}
	suf := vfPick(r, w.suffixes)
	nsuf := strings.Count(suf, ".") + 1
	total := int(r.Range(1, 8))
	n := total - nsuf
	if n < 0 {
		n = 0
	}
	if n > 3 && r.Chance(2, 3) {
		n = int(r.Range(0, 3))
	}
	parts := make([]string, 0, n+1)
	for i := 0; i < n; i++ {
		parts = append(parts, vfPick(r, w.labels))
	}
	parts = append(parts, suf)
	h := strings.Join(parts, ".")
	switch r.Intn(24) {
	case 0:
		h += "."
	case 1:
		h = "." + h
	case 2:
		h = strings.Replace(h, ".", "..", 1)
	case 3:
		h = "\xc3\xa9" + h
	case 4, 5, 6:
		b := []byte(h)
		for i := range b {
			if b[i] >= 'a' && b[i] <= 'z' && r.Chance(1, 3) {
				b[i] -= 32
			}
		}
		h = string(b)
	}
	return h
}

// c19Mangle makes a TXT string out of a hash: mostly well-formed.
func c19Mangle(r *vfRand, h [32]byte) (s string, valid bool) {
	s = hex.EncodeToString(h[:])
	switch r.Intn(15) {
	case 12:
		// over-long, even length, decodes: the first 32 bytes are the hash
		return s + vfPick(r, []string{"00", "ff", "0000"}), false
	case 13:
		// two hashes glued together
		o := sha256.Sum256([]byte(s))
		return s + hex.EncodeToString(o[:]), false
	case 14:
		return s + s, false
	case 0:
		return strings.ToUpper(s), true
	case 1:
		return s[:63], false
	case 2:
		return s + "0", false
	case 3:
		b := []byte(s)
		b[int(r.Range(4, 63))] = 'g'
		return string(b), false
	case 4:
		return s[:62] + "\xc3\xa9", false
	case 5:
		return s[:4], false
	}
	return s, true
}

func (w *c19World) history(r *vfRand, nOps int) (h c19Hist) {
	h.Suffix = vfPick(r, []string{"sb.dns.adguard.com.", "pc.dns.adguard.com.", "x."})
	if r.Chance(1, 4) {
		// A cache that cannot hold one answer, or only just.
		h.CacheSize = vfPick(r, []uint{45, 60, 100, 130, 200, 300})
	}
	nHosts := int(r.Range(1, 4))
	hosts := make([]string, 0, nHosts)
	for i := 0; i < nHosts; i++ {
		hosts = append(hosts, w.host(r))
	}
	if r.Chance(1, 2) {
		// A sibling sharing parents with the first host.
		if i := strings.IndexByte(hosts[0], '.'); i > 0 {
			hosts = append(hosts, vfPick(r, w.labels)+hosts[0][i:])
		}
	}
	// Database.
	var splicedHosts []string
	for _, host := range hosts {
		if chain := c19Chain(host); len(chain) >= 2 && r.Chance(1, 3) {
			// A hash made of one chain member's prefix and another member's
			// remaining 30 bytes: served, equal to no chain hash.
			i := r.Intn(len(chain))
			j := (i + 1 + r.Intn(len(chain)-1)) % len(chain)
			sp := c19Splice(chain[i], chain[j])
			t := hex.EncodeToString(sp[:])
			if r.Chance(1, 8) {
				t, _ = c19Mangle(r, sp)
			}
			h.DB = append(h.DB, t)
			splicedHosts = append(splicedHosts, host)
		}
		subs := c19Subnames(host)
		for _, s := range subs {
			sum := sha256.Sum256([]byte(s))
			if r.Chance(1, 5) {
				t, _ := c19Mangle(r, sum)
				h.DB = append(h.DB, t)
			}
			if r.Chance(1, 4) {
				// Another hash with the same prefix.
				o := sha256.Sum256([]byte(s + "#" + fmt.Sprint(r.Intn(1000))))
				o[0], o[1] = sum[0], sum[1]
				t, _ := c19Mangle(r, o)
				h.DB = append(h.DB, t)
			}
			if tw, ok := w.collide[s]; ok && r.Chance(1, 2) {
				h.DB = append(h.DB, hex.EncodeToString(c19Sum(tw)))
			}
			if tw, ok := w.collide[s]; ok {
				hosts = append(hosts, tw)
			}
		}
	}
	if r.Chance(1, 6) {
		h.DB = append(h.DB, vfPick(r, []string{"", "zz", "00", "not a hash"}))
	}
	vfShuffle(r, h.DB)
	for i := 0; i < nOps; i++ {
		switch k := r.Intn(10); {
		case k < 2 && len(splicedHosts) > 0:
			// Twice in a row: the second one is answered from the cache.
			sh := vfPick(r, splicedHosts)
			h.Steps = append(h.Steps, c19Step{Kind: "check", Host: sh}, c19Step{Kind: "check", Host: sh})
			i++
		case k < 7:
			h.Steps = append(h.Steps, c19Step{Kind: "check", Host: vfPick(r, hosts), Fail: r.Chance(1, 12)})
		case k < 9:
			h.Steps = append(h.Steps, c19Step{Kind: "advance",
				Secs: vfPick(r, []int64{100, 500, 1800, 3600, 3700, 4000})})
		default:
			var ev []string
			for _, host := range hosts {
				for _, s := range c19Subnames(host) {
					if r.Chance(1, 3) {
						ev = append(ev, string(c19Sum(s)[:2]))
					}
				}
			}
			h.Steps = append(h.Steps, c19Step{Kind: "evict", Evict: ev})
		}
	}
	return h
}

// c19B prints a byte string for Run/C19.v: seven bytes to a primitive integer
// (first byte lowest, the count in the three lowest bits), decoded by [ub].
func c19B(s string) string {
	if len(s) == 0 {
		return "(@nil N)"
	}
	var b strings.Builder
	b.WriteString("(ub ")
	n := 0
	for i := 0; i < len(s); i += 7 {
		j := i + 7
		if j > len(s) {
			j = len(s)
		}
		var w uint64
		for k := j - 1; k >= i; k-- {
			w = w<<8 | uint64(s[k])
		}
		w = w<<3 | uint64(j-i)
		b.WriteString("(IC ")
		b.WriteString(strconv.FormatUint(w, 10))
		b.WriteString(" ")
		n++
	}
	b.WriteString("I0")
	b.WriteString(strings.Repeat(")", n+1))
	return b.String()
}

func c19Sum(s string) []byte { h := sha256.Sum256([]byte(s)); return h[:] }

// c19Splice is the 2-byte prefix of the hash of name a followed by the
// remaining 30 bytes of the hash of name b: for a != b a hash that the service
// serves whenever the prefix of a is asked, that shares its prefix with one
// hash and everything else with another, and is equal to neither.
func c19Splice(a, b string) (h [32]byte) {
	copy(h[:], c19Sum(b))
	copy(h[:2], c19Sum(a)[:2])
	return h
}

// c19Chain is what the generator takes for the names hashed for host: the
// monitor's enumeration for well-formed hosts, every dot-aligned suffix of the
// last four labels otherwise.
func c19Chain(host string) (names []string) {
	if c19WellFormedHost(host) {
		return c19Enum(host)
	}
	names = c19Subnames(host)
	if len(names) > 4 {
		names = names[len(names)-4:]
	}
	return names
}

// c19SplicedOf tells whether d is made of the prefix of one chain hash and the
// remaining bytes of another one without being a chain hash itself.
func c19SplicedOf(d string, chain []string) bool {
	pre, rest := false, false
	for _, c := range chain {
		if d == c {
			return false
		}
		pre = pre || d[:2] == c[:2]
		rest = rest || d[2:] == c[2:]
	}
	return pre && rest
}

func c19FloorDiv(a, b int64) int64 {
	q := a / b
	if (a%b != 0) && ((a < 0) != (b < 0)) {
		q--
	}
	return q
}

// c19Run executes one history on a fresh Checker and emits the case.
func c19Run(out *vfOut, h c19Hist, forced []string) {
	var (
		lastQ   string
		asked   bool
		failNow bool
		served  []string
		classes = map[string]bool{}
	)
	for _, f := range forced {
		classes[f] = true
	}
	ups := &aghtest.UpstreamMock{
		OnAddress: func() string { return "verif" },
		OnClose:   func() error { return nil },
	}
	ups.OnExchange = func(req *dns.Msg) (*dns.Msg, error) {
		asked = true
		lastQ = req.Question[0].Name
		if failNow {
			return nil, errors.New("scripted failure")
		}
		body := strings.TrimSuffix(lastQ, h.Suffix)
		want := map[string]bool{}
		for _, l := range strings.Split(body, ".") {
			if len(l) >= 4 {
				want[strings.ToLower(l[:4])] = true
			}
		}
		resp := (&dns.Msg{}).SetReply(req)
		served = served[:0]
		var cur *dns.TXT
		for i, s := range h.DB {
			if len(s) >= 4 && !want[strings.ToLower(s[:4])] {
				continue
			}
			served = append(served, s)
			if cur == nil || i%3 == 0 {
				if i%4 == 1 {
					resp.Answer = append(resp.Answer, &dns.A{Hdr: dns.RR_Header{Name: lastQ, Rrtype: dns.TypeA, Class: dns.ClassINET}})
				}
				cur = &dns.TXT{Hdr: dns.RR_Header{Name: lastQ, Rrtype: dns.TypeTXT, Class: dns.ClassINET}}
				resp.Answer = append(resp.Answer, cur)
			}
			cur.Txt = append(cur.Txt, s)
		}
		return resp, nil
	}
	c := New(&Config{
		Upstream:    ups,
		ServiceName: "verif",
		TXTSuffix:   h.Suffix,
		CacheTime:   c19CacheTimeSec * time.Second,
		CacheSize:   h.CacheSize,
	})
	probe := c19ProbeCache(c.cache, h.CacheSize)
	wc := c19NewCache(h.CacheSize)
	c.cache = wc

	// Valid database hashes, for the monitor.
	dbValid := map[string]bool{}
	for _, s := range h.DB {
		if len(s) == 64 {
			if b, err := hex.DecodeString(s); err == nil {
				dbValid[string(b)] = true
			}
		}
	}
	// Universe of names and prefixes.
	shaTbl := map[string]bool{}
	psTbl := map[string]bool{}
	prefSet := map[string]bool{}
	for _, st := range h.Steps {
		if st.Kind != "check" {
			continue
		}
		psTbl[st.Host] = true
		for _, s := range c19Subnames(st.Host) {
			shaTbl[s] = true
			prefSet[string(c19Sum(s)[:2])] = true
		}
	}
	for k := range dbValid {
		prefSet[k[:2]] = true
	}
	prefs := make([]string, 0, len(prefSet))
	for p := range prefSet {
		prefs = append(prefs, p)
	}
	sort.Strings(prefs)

	monOK, monMsg, monKey := true, "", ""
	fail := func(key, msg string) {
		if monOK {
			monOK, monMsg, monKey = false, msg, key
		}
	}

	if probe != "" {
		fail("C19/cache-configuration", probe)
	}

	dump := func() string {
		now := time.Now().Unix()
		var items []string
		for _, p := range prefs {
			data := c.cache.Get([]byte(p))
			if data == nil {
				continue
			}
			it := toCacheItem(data)
			hs := make([]string, 0, len(it.hashes))
			for _, x := range it.hashes {
				hs = append(hs, c19B(string(x[:])))
			}
			sort.Strings(hs)
			cl := c19FloorDiv(it.expiry.Unix()-now+25, 100)
			items = append(items, vfPair(vfPair(c19B(p), vfZ(cl)), vfList("list N", hs)))
		}
		return vfList("list N * Z * list (list N)", items)
	}

	var ops []string
	nontrivial := false
	sinceAdvance, sinceEvict := false, false
	seen := map[string]bool{}
	// Monitor state for "only until the entry expires": virtual clock and the
	// instant each prefix was last answered by the service.
	vnow := int64(0)
	fetched := map[string]int64{}
	live := func(n string) bool {
		at, ok := fetched[hex.EncodeToString(c19Sum(n)[:2])]
		return ok && vnow-at <= c19CacheTimeSec
	}
	for _, st := range h.Steps {
		switch st.Kind {
		case "advance":
			for _, p := range prefs {
				data := c.cache.Get([]byte(p))
				if data == nil {
					continue
				}
				// In place: a Set could evict other entries.
				exp := int64(binary.BigEndian.Uint64(data))
				binary.BigEndian.PutUint64(data, uint64(exp-st.Secs))
			}
			sinceAdvance = true
			vnow += st.Secs
			ops = append(ops, vfApp("CAdvance", vfZ(st.Secs)))
		case "evict":
			var ps []string
			for _, p := range st.Evict {
				c.cache.Del([]byte(p))
				delete(fetched, hex.EncodeToString([]byte(p)))
				ps = append(ps, c19B(p))
			}
			sinceEvict = true
			ops = append(ops, vfApp("CEvict", vfList("list N", ps)))
		case "check":
			asked, lastQ, failNow = false, "", st.Fail
			wc.events = nil
			wf := c19WellFormedHost(st.Host)
			var enum, chain []string
			if wf {
				enum = c19Enum(st.Host)
			} else {
				classes["odd-host"] = true
			}
			// What the cache holds under the prefixes of the chain before the
			// check: all a cached verdict can come from.
			cachedBefore := map[string]bool{}
			for _, n := range enum {
				sum := c19Sum(n)
				chain = append(chain, string(sum))
				if data := c.cache.Get(sum[:2]); data != nil {
					for _, x := range toCacheItem(data).hashes {
						cachedBefore[string(x[:])] = true
					}
				}
			}
			var (
				blocked bool
				err     error
				pan     any
			)
			func() {
				defer func() { pan = recover() }()
				blocked, err = c.Check(st.Host)
			}()
			if pan != nil {
				fail("C19/panic", fmt.Sprintf("Check(%q) panicked: %v", st.Host, pan))
				classes["panic"] = true
			}
			// Monitor: privacy of the outgoing question.
			if asked {
				body := strings.TrimSuffix(lastQ, h.Suffix)
				if !strings.HasSuffix(lastQ, h.Suffix) || !c19QuestionRe.MatchString(body) {
					fail("C19/question-shape", fmt.Sprintf("question %q for host %q is not 4-hex-digit labels + suffix", lastQ, st.Host))
				} else if wf {
					okp := map[string]bool{}
					for _, n := range enum {
						okp[hex.EncodeToString(c19Sum(n)[:2])] = true
					}
					for _, l := range strings.Split(strings.TrimSuffix(body, "."), ".") {
						if !okp[l] {
							fail("C19/question-foreign-label", fmt.Sprintf("question %q for host %q carries %q, not a prefix of an enumerated name", lastQ, st.Host, l))
						}
					}
				}
				if strings.ContainsAny(st.Host, "ghijklmnopqrstuvwxyzGHIJKLMNOPQRSTUVWXYZ") && strings.Contains(body, st.Host) {
					fail("C19/question-has-name", fmt.Sprintf("question %q contains the host %q", lastQ, st.Host))
				}
			}
			// The full hashes this check had before it: the well-formed strings of
			// the answer, or the cached entries of the chain's prefixes.
			had, src := cachedBefore, "cache"
			if asked {
				had, src = map[string]bool{}, "fresh lookup"
				if !st.Fail {
					for _, s := range served {
						if b, derr := hex.DecodeString(s); len(s) == 64 && derr == nil {
							had[string(b)] = true
						}
					}
				}
			}
			// Monitor: blocked only if a full hash it had is the full hash of an
			// enumerated name (all 32 bytes: sharing the prefix with one chain
			// hash and the rest with another does not count).
			eq := false
			for _, ch := range chain {
				eq = eq || had[ch]
			}
			if wf && blocked {
				if !eq {
					fail("C19/blocked-without-full-hash", fmt.Sprintf("Check(%q) = blocked from %s although none of the %d full hashes it had equals the hash of an enumerated name", st.Host, src, len(had)))
				}
			}
			if wf && err == nil && pan == nil && !eq {
				for d := range had {
					if c19SplicedOf(d, chain) {
						classes["spliced-hash-"+map[bool]string{true: "fresh", false: "cached"}[asked]] = true
						nontrivial = true
					}
				}
			}
			// Monitor: verdict.
			if st.Fail && asked {
				if err == nil || blocked {
					fail("C19/error-verdict", fmt.Sprintf("upstream failed but Check(%q) = %v, %v", st.Host, blocked, err))
				}
				classes["upstream-error"] = true
			} else if err != nil {
				fail("C19/unexpected-error", fmt.Sprintf("Check(%q): %v", st.Host, err))
			} else if wf {
				want := false
				for _, n := range enum {
					if dbValid[string(c19Sum(n))] {
						want = true
					}
				}
				if want != blocked {
					fail("C19/verdict-"+strings.ReplaceAll(src, " ", "-"), fmt.Sprintf("Check(%q) = %v from %s, database says %v", st.Host, blocked, src, want))
				}
			}
			// Monitor: the cache answers only from entries that are still alive.
			if wf && !asked && err == nil && len(enum) > 0 {
				if blocked {
					any := false
					for _, n := range enum {
						any = any || live(n)
					}
					if !any {
						fail("C19/stale-cache-answer", fmt.Sprintf("Check(%q) = blocked from cache although no entry for it is alive", st.Host))
					}
				} else {
					for _, n := range enum {
						if !live(n) {
							fail("C19/stale-cache-answer", fmt.Sprintf("Check(%q) answered from cache although the entry for %q expired or was evicted", st.Host, n))
						}
					}
				}
			}
			for _, ev := range wc.events {
				for _, k := range ev.evicted {
					delete(fetched, hex.EncodeToString([]byte(k)))
				}
				if ev.stored {
					fetched[hex.EncodeToString([]byte(ev.key))] = vnow
				}
				if len(ev.evicted) > 0 || !ev.stored {
					classes["eviction-inside-store"] = true
				}
			}
			if wc.stray > 0 {
				fail("C19/harness-stray-eviction", "the cache evicted entries outside a Set")
			}
			if wc.bad != "" {
				fail("C19/cache-bytes", wc.bad)
			}
			// Classes.
			if err == nil {
				switch {
				case asked && blocked:
					classes["blocked-fresh"] = true
				case asked && !blocked:
					classes["clean-fresh"] = true
				case blocked:
					classes["blocked-from-cache"] = true
					nontrivial = true
				default:
					if wf && len(enum) == 0 {
						classes["public-suffix-host"] = true
					} else {
						classes["clean-from-cache"] = true
						nontrivial = true
					}
				}
				if blocked {
					nontrivial = true
				}
				if asked {
					nq := strings.Count(strings.TrimSuffix(lastQ, h.Suffix), ".")
					if wf && nq < len(enum) {
						classes["partial-cache"] = true
						nontrivial = true
					}
					if seen[st.Host] && sinceAdvance {
						classes["relookup-after-advance"] = true
					}
					if seen[st.Host] && sinceEvict {
						classes["relookup-after-evict"] = true
					}
					own := map[string]bool{}
					for _, n := range c19Subnames(st.Host) {
						own[string(c19Sum(n))] = true
					}
					for _, s := range served {
						b, derr := hex.DecodeString(s)
						if len(s) != 64 || derr != nil {
							classes["malformed-txt-served"] = true
						} else if !own[string(b)] {
							classes["shared-prefix-other-hash"] = true
							if !blocked {
								classes["positive-entry-for-clean-host"] = true
							}
						}
						if s != strings.ToLower(s) && derr == nil && len(s) == 64 {
							classes["uppercase-hex-served"] = true
						}
					}
				}
				seen[st.Host] = true
			}
			if wf {
				_, icann := publicsuffix.PublicSuffix(st.Host)
				ps, _ := publicsuffix.PublicSuffix(st.Host)
				switch {
				case icann:
					classes["icann-suffix"] = true
				case strings.Contains(ps, "."):
					classes["private-suffix"] = true
				default:
					classes["default-rule-suffix"] = true
				}
				if strings.Count(st.Host, ".") >= 4 {
					classes["more-than-4-labels"] = true
				}
				if st.Host != strings.ToLower(st.Host) {
					classes["mixed-case"] = true
				}
			}
			var sets []string
			for _, ev := range wc.events {
				var evs []string
				for _, k := range ev.evicted {
					evs = append(evs, c19B(k))
				}
				sets = append(sets, vfPair(vfPair(c19B(ev.key), vfList("list N", evs)), vfBool(ev.stored)))
			}
			ops = append(ops, vfApp("CCheck", c19B(st.Host), vfBool(st.Fail),
				vfList("list N * list (list N) * bool", sets),
				vfBool(blocked), vfBool(err != nil), vfOpt("list N", asked, c19B(lastQ)), dump(),
				vfZ(int64(wc.inner.Stats().Size))))
		}
	}

	if wc.bad != "" {
		fail("C19/cache-bytes", wc.bad)
	}
	var shaItems, psItems []string
	names := make([]string, 0, len(shaTbl))
	for n := range shaTbl {
		names = append(names, n)
	}
	sort.Strings(names)
	for _, n := range names {
		shaItems = append(shaItems, vfPair(c19B(n), c19B(string(c19Sum(n)))))
	}
	hostsS := make([]string, 0, len(psTbl))
	for n := range psTbl {
		hostsS = append(hostsS, n)
	}
	sort.Strings(hostsS)
	for _, n := range hostsS {
		ps, icann := publicsuffix.PublicSuffix(n)
		psItems = append(psItems, vfPair(c19B(n), vfPair(c19B(ps), vfBool(icann))))
	}
	var dbItems []string
	for _, s := range h.DB {
		dbItems = append(dbItems, c19B(s))
	}
	cls := make([]string, 0, len(classes))
	for k := range classes {
		cls = append(cls, k)
	}
	sort.Strings(cls)
	out.Emit(vfCase{
		Coq: vfApp("Case", c19B(h.Suffix), vfZ(c19CacheTimeSec), vfZ(int64(h.CacheSize)),
			vfList("list N * list N", shaItems),
			vfList("list N * (list N * bool)", psItems),
			vfList("list N", dbItems),
			vfList("cop", ops)),
		Nontrivial: nontrivial,
		Classes:    cls,
		MonitorOK:  monOK,
		MonitorMsg: monMsg,
		FindingKey: monKey,
		Desc:       h,
	})
}

func TestVerifC19(t *testing.T) {
	out := vfOpen(t, "C19")
	defer out.Close()
	w := c19NewWorld()

	hx := func(n string) string { return hex.EncodeToString(c19Sum(n)) }
	chk := func(h string) c19Step { return c19Step{Kind: "check", Host: h} }
	adv := func(s int64) c19Step { return c19Step{Kind: "advance", Secs: s} }
	twin := w.collide["evil.com"]
	other := sha256.Sum256([]byte("other"))
	copy(other[:2], c19Sum("good.org")[:2])
	// Seed-independent prelude: one constructed history per branch class.
	prelude := []c19Hist{
		// blocked fresh, then from cache, then expired and looked up again
		{Suffix: "sb.dns.adguard.com.", DB: []string{hx("evil.com")},
			Steps: []c19Step{chk("www.evil.com"), chk("www.evil.com"), adv(1800), chk("mail.evil.com"), adv(1900), chk("www.evil.com")}},
		// clean fresh, clean from cache, partial cache for a sibling
		{Suffix: "pc.dns.adguard.com.", DB: []string{hx("evil.com")},
			Steps: []c19Step{chk("www.good.org"), chk("www.good.org"), chk("mail.good.org"), chk("good.org")}},
		// prefix twin: a clean name whose prefix carries another name's hash; the twin is then blocked from cache
		{Suffix: "sb.dns.adguard.com.", DB: []string{hx(twin)},
			Steps: []c19Step{chk("evil.com"), chk(twin), chk("evil.com")}},
		// the other way round: the blocked twin first
		{Suffix: "sb.dns.adguard.com.", DB: []string{hx(twin)},
			Steps: []c19Step{chk(twin), chk("evil.com"), adv(3700), chk("evil.com"), chk(twin)}},
		// malformed and upper-case TXT strings, foreign hash with a shared prefix
		{Suffix: "sb.dns.adguard.com.", DB: []string{strings.ToUpper(hx("shop.co.uk")), hx("good.org")[:63], hx("good.org") + "0",
			hex.EncodeToString(other[:]), "zz", ""},
			Steps: []c19Step{chk("a.shop.co.uk"), chk("good.org"), chk("www.good.org"), chk("good.org")}},
		// over-long TXT strings that decode and start with the hash of the queried name or of a parent: not a hash
		{Suffix: "sb.dns.adguard.com.", DB: []string{hx("www.good.org") + "00", hx("good.org") + hx("other.example"), hx("shop.co.uk") + hx("shop.co.uk"),
			strings.ToUpper(hx("a.shop.co.uk")) + "FF"},
			Steps: []c19Step{chk("www.good.org"), chk("good.org"), chk("www.good.org"), chk("a.shop.co.uk"), chk("shop.co.uk"), adv(3700), chk("www.good.org")}},
		// upstream failure leaves the cache alone
		{Suffix: "sb.dns.adguard.com.", DB: []string{hx("evil.com")},
			Steps: []c19Step{{Kind: "check", Host: "evil.com", Fail: true}, chk("evil.com"), {Kind: "check", Host: "evil.com", Fail: true},
				{Kind: "evict", Evict: []string{string(c19Sum("evil.com")[:2])}}, {Kind: "check", Host: "evil.com", Fail: true}, chk("evil.com")}},
		// suffix kinds, long names, mixed case, public suffixes themselves, odd names
		{Suffix: "x.", DB: []string{hx("d.e.f.com"), hx("blogspot.com"), hx("COM"), hx("k12.ma.us"), hx("foo.ck")},
			Steps: []c19Step{chk("a.b.c.d.e.f.com"), chk("x.blogspot.com"), chk("Evil.COM"), chk("co.uk"), chk("com"),
				chk("x.pvt.k12.ma.us"), chk("y.x.pvt.k12.ma.us"), chk("foo.ck"), chk("a.foo.ck"), chk("www.ck"), chk("mail.lan"),
				chk(""), chk("a."), chk(".com"), chk("a..com"), chk("."), chk("a.b.c.d.")}},
	}
	spx := func(a, b string) string { x := c19Splice(a, b); return hex.EncodeToString(x[:]) }
	prelude = append(prelude,
		// spliced hashes, fresh path only: prefix of one chain member + the other
		// 30 bytes of another, both ways and over a chain of three; every check
		// goes upstream (evictions in between), nothing is blocked
		c19Hist{Suffix: "sb.dns.adguard.com.",
			DB: []string{spx("good.org", "www.good.org"), spx("www.good.org", "good.org"),
				spx("evil.com", "a.b.evil.com"), spx("b.evil.com", "evil.com")},
			Steps: []c19Step{chk("www.good.org"),
				{Kind: "evict", Evict: []string{string(c19Sum("good.org")[:2]), string(c19Sum("www.good.org")[:2])}},
				chk("www.good.org"), chk("a.b.evil.com"),
				{Kind: "evict", Evict: []string{string(c19Sum("evil.com")[:2]), string(c19Sum("b.evil.com")[:2]), string(c19Sum("a.b.evil.com")[:2])}},
				chk("b.evil.com")}},
		// spliced hashes, cached path: the second check of each name is answered
		// from the entries that hold the spliced hashes; a real hash beside them
		// still blocks its own name only
		c19Hist{Suffix: "pc.dns.adguard.com.",
			DB: []string{spx("good.org", "www.good.org"), spx("www.good.org", "good.org"),
				spx("evil.com", "a.b.evil.com"), spx("a.b.evil.com", "b.evil.com"), hx("mail.evil.com")},
			Steps: []c19Step{chk("www.good.org"), chk("www.good.org"), chk("good.org"),
				chk("a.b.evil.com"), chk("a.b.evil.com"), chk("b.evil.com"), chk("mail.evil.com"), chk("mail.evil.com"),
				adv(3700), chk("www.good.org"), chk("www.good.org")}},
	)
	// The same answers into caches that cannot hold them: three prefixes per
	// answer, entries of 42 bytes.
	for _, size := range []uint{45, 60, 100, 130} {
		prelude = append(prelude, c19Hist{CacheSize: size, Suffix: "sb.dns.adguard.com.",
			DB: []string{hx("a.b.evil.com"), hx("b.evil.com"), hx("evil.com")},
			Steps: []c19Step{chk("a.b.evil.com"), chk("a.b.evil.com"), chk("a.b.evil.com"), chk("evil.com"), chk("b.evil.com"),
				adv(3700), chk("a.b.evil.com"), chk("www.good.org"), chk("evil.com")}})
	}
	for _, h := range prelude {
		c19Run(out, h, nil)
	}

	r := vfNewRand(out.Seed)
	n := out.Scale(700, 5000)
	for i := 0; i < n; i++ {
		rr := r.Fork(uint64(i))
		c19Run(out, w.history(rr, int(rr.Range(3, 14))), nil)
	}
}

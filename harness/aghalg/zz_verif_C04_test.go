//go:build verif

package aghalg

import (
	"fmt"
	"net/netip"
	"sort"
	"strings"
	"testing"
)

// C04, fourth harness (round 4): aghalg.SortedMap on its own, the structure
// behind client.index.subnetToUID.  Sequences of Set / Del / Clear calls with
// MANY repeated keys (the key equal to the current last one, to the current
// first one, keys arriving in sorted order, keys deleted twice) run on the real
// SortedMap[netip.Prefix, uint64] with a comparator that is persistent.go's
// subnetCompare; after every call: did it panic, everything Range shows, Get
// of every key of the universe, and what a Range that stops at the first
// prefix containing an address finds (index.findByIP's use of Range).  One
// case per sequence; Model/SortedMap.v (key slice + map, binary search)
// replays it in Coq.  The monitor is independent of the model: a plain Go map
// is the reference;
//   - the keys Range shows are STRICTLY increasing under the comparator (so
//     no key is shown twice);
//   - Range shows exactly the reference's pairs; Get agrees with the
//     reference for every key (after Del k: none);
//   - the stopping Range finds the longest containing prefix present;
//   - no call panics.

// c04sCompare is subnetCompare of internal/client/persistent.go, which this
// package cannot import (the registry harness in package client drives the
// map through the original).
func c04sCompare(x, y netip.Prefix) (cmp int) {
	if x == y {
		return 0
	}

	xAddr, xBits := x.Addr(), x.Bits()
	yAddr, yBits := y.Addr(), y.Bits()
	if xBits == yBits {
		return xAddr.Compare(yAddr)
	}

	if xBits > yBits {
		return -1
	}

	return 1
}

var c04sUniverse = []string{"10.0.0.0/8", "10.2.0.0/8", "10.1.0.0/16", "10.1.0.0/17", "10.1.2.0/24", "10.1.2.3/24", "10.1.2.3/32",
	"0.0.0.0/0", "192.168.1.0/24", "192.168.1.1/24", "172.16.0.0/16", "2001:db8::/32", "2001:db8:1::/48", "::/0", "fe80::/64"}

var c04sAddrs = []string{"10.1.2.3", "10.1.2.77", "10.1.200.1", "10.200.0.1", "192.168.1.77", "8.8.8.8", "2001:db8:1::99",
	"2001:db8:ffff::1", "fe80::1"}

func c04sPrefix(p netip.Prefix) string {
	return vfPair(vfBytes(string(p.Addr().AsSlice())), vfN(uint64(p.Bits())))
}

type c04sSeq struct {
	m      SortedMap[netip.Prefix, uint64]
	ref    map[netip.Prefix]uint64
	univ   []netip.Prefix
	addrs  []netip.Addr
	steps  []string
	desc   []string
	cls    map[string]bool
	monMsg string
	monKey string
	nVal   uint64
	dead   bool // a call panicked: the sequence ends
	nOver  int
	nDel   int
}

func c04sNew(univ []netip.Prefix) *c04sSeq {
	s := &c04sSeq{m: NewSortedMap[netip.Prefix, uint64](c04sCompare), ref: map[netip.Prefix]uint64{}, univ: univ, cls: map[string]bool{}}
	for _, a := range c04sAddrs {
		s.addrs = append(s.addrs, netip.MustParseAddr(a))
	}
	return s
}

func (s *c04sSeq) fail(key, msg string) {
	if s.monMsg == "" {
		s.monKey = key
		s.monMsg = msg + " || calls: " + strings.Join(s.desc, "; ")
	}
}

// sorted lists the reference's keys in comparator order.
func (s *c04sSeq) sorted() (keys []netip.Prefix) {
	for k := range s.ref {
		keys = append(keys, k)
	}
	sort.Slice(keys, func(i, j int) bool { return c04sCompare(keys[i], keys[j]) < 0 })
	return keys
}

func (s *c04sSeq) call(coq, desc string, f func()) {
	if s.dead {
		return
	}
	s.desc = append(s.desc, desc)
	panicked := false
	func() {
		defer func() {
			if rec := recover(); rec != nil {
				panicked = true
				s.fail("sortedmap-panic", fmt.Sprintf("%s panicked: %v", desc, rec))
			}
		}()
		f()
	}()
	if panicked {
		s.dead = true
		s.steps = append(s.steps, "("+coq+", (true, "+vfList("prefix * N", nil)+", "+vfList("option N", nil)+", "+vfList("option N", nil)+"))")
		return
	}
	// observations
	var rngK []netip.Prefix
	var rngV []uint64
	var rng []string
	s.m.Range(func(k netip.Prefix, v uint64) bool {
		rngK, rngV = append(rngK, k), append(rngV, v)
		rng = append(rng, vfPair(c04sPrefix(k), vfN(v)))
		return true
	})
	gets := make([]string, len(s.univ))
	for i, k := range s.univ {
		v, ok := s.m.Get(k)
		gets[i] = vfOpt("N", ok, vfN(v))
		if rv, rok := s.ref[k]; ok != rok || (ok && v != rv) {
			s.fail("get-differs", fmt.Sprintf("after %s Get(%v) = (%d, %v), the map holds (%d, %v)", desc, k, v, ok, rv, rok))
		}
	}
	firsts := make([]string, len(s.addrs))
	for i, a := range s.addrs {
		var got netip.Prefix
		var gv uint64
		found := false
		s.m.Range(func(k netip.Prefix, v uint64) bool {
			if k.Contains(a) {
				got, gv, found = k, v, true
				return false
			}
			return true
		})
		firsts[i] = vfOpt("N", found, vfN(gv))
		if found {
			s.cls["sm-range-stop"] = true
		}
		best, have := netip.Prefix{}, false
		for k := range s.ref {
			if k.Contains(a) && (!have || c04sCompare(k, best) < 0) {
				best, have = k, true
			}
		}
		if have != found || (have && (got != best || gv != s.ref[best])) {
			s.fail("first-differs", fmt.Sprintf("after %s the first prefix containing %v shown by Range is (%v, %d, found=%v); the most specific one present is (%v, %d, present=%v)",
				desc, a, got, gv, found, best, s.ref[best], have))
		}
	}
	// monitor: strictly sorted, exactly the reference
	for i := 1; i < len(rngK); i++ {
		if c04sCompare(rngK[i-1], rngK[i]) >= 0 {
			s.fail("keys-not-strictly-sorted", fmt.Sprintf("after %s Range shows %v before %v", desc, rngK[i-1], rngK[i]))
		}
	}
	want := s.sorted()
	same := len(want) == len(rngK)
	for i := 0; same && i < len(want); i++ {
		same = want[i] == rngK[i] && s.ref[want[i]] == rngV[i]
	}
	if !same {
		s.fail("range-differs", fmt.Sprintf("after %s Range shows %v %v, the map holds %v", desc, rngK, rngV, s.ref))
	}
	s.steps = append(s.steps, "("+coq+", (false, "+vfList("prefix * N", rng)+", "+vfList("option N", gets)+", "+vfList("option N", firsts)+"))")
}

func (s *c04sSeq) set(k netip.Prefix) {
	s.nVal++
	v := s.nVal
	keys := s.sorted()
	_, present := s.ref[k]
	switch {
	case present:
		s.cls["sm-set-present"] = true
		s.nOver++
		if keys[len(keys)-1] == k {
			s.cls["sm-set-equal-last"] = true
		}
		if keys[0] == k {
			s.cls["sm-set-equal-first"] = true
		}
	case len(keys) == 0:
		s.cls["sm-set-empty"] = true
	case c04sCompare(keys[len(keys)-1], k) < 0:
		s.cls["sm-set-after-last"] = true
	case c04sCompare(k, keys[0]) < 0:
		s.cls["sm-set-before-first"] = true
	default:
		s.cls["sm-set-middle"] = true
	}
	s.ref[k] = v
	s.call(vfApp("MSet", c04sPrefix(k), vfN(v)), fmt.Sprintf("Set(%v, %d)", k, v), func() { s.m.Set(k, v) })
}

func (s *c04sSeq) del(k netip.Prefix) {
	if _, present := s.ref[k]; present {
		s.cls["sm-del-present"] = true
		s.nDel++
	} else {
		s.cls["sm-del-absent"] = true
	}
	delete(s.ref, k)
	s.call(vfApp("MDel", c04sPrefix(k)), fmt.Sprintf("Del(%v)", k), func() { s.m.Del(k) })
}

func (s *c04sSeq) clear() {
	s.cls["sm-clear"] = true
	s.ref = map[netip.Prefix]uint64{}
	s.call("MClear", "Clear()", func() { s.m.Clear() })
}

func (s *c04sSeq) emit(out *vfOut, tag string) {
	univ := make([]string, len(s.univ))
	for i, k := range s.univ {
		univ[i] = c04sPrefix(k)
	}
	addrs := make([]string, len(s.addrs))
	for i, a := range s.addrs {
		addrs[i] = vfBytes(string(a.AsSlice()))
	}
	coq := vfApp("CSMap", vfList("prefix", univ), vfList("bytes", addrs), vfList("pmop * smobs", s.steps))
	var classes []string
	for c := range s.cls {
		classes = append(classes, c)
	}
	sort.Strings(classes)
	c := vfCase{Coq: coq, Classes: classes, Nontrivial: s.nOver > 0 && s.nDel > 0, MonitorOK: s.monMsg == "", MonitorMsg: s.monMsg,
		Desc: map[string]any{"kind": "sortedmap " + tag, "calls": s.desc}}
	if s.monMsg != "" {
		c.FindingKey = "C04-" + s.monKey
	}
	out.Emit(c)
}

func c04sParse(xs []string) (ps []netip.Prefix) {
	for _, x := range xs {
		ps = append(ps, netip.MustParsePrefix(x))
	}
	return ps
}

func TestVerifC04(t *testing.T) {
	out := vfOpen(t, "C04")
	defer out.Close()
	all := c04sParse(c04sUniverse)

	// prelude: every key set twice in a row in ascending, descending and
	// universe order (the second Set is always of a present key; in ascending
	// order it is the current LAST key, in descending order the current first),
	// every key deleted twice, then the same through a Clear
	for _, order := range []string{"ascending", "descending", "as-listed"} {
		keys := append([]netip.Prefix{}, all...)
		switch order {
		case "ascending":
			sort.Slice(keys, func(i, j int) bool { return c04sCompare(keys[i], keys[j]) < 0 })
		case "descending":
			sort.Slice(keys, func(i, j int) bool { return c04sCompare(keys[i], keys[j]) > 0 })
		}
		s := c04sNew(all)
		for _, k := range keys {
			s.set(k)
			s.set(k)
		}
		for i, k := range keys {
			if i%2 == 0 {
				s.del(k)
				s.del(k)
			}
		}
		for _, k := range keys {
			s.set(k)
		}
		s.clear()
		for _, k := range keys[:4] {
			s.set(k)
			s.set(k)
			s.del(k)
		}
		s.emit(out, "prelude-"+order)
	}
	// the registry's pattern: one owner lists a subnet twice, is removed, a
	// broader one arrives
	s := c04sNew(all)
	k16, k8 := netip.MustParsePrefix("10.1.0.0/16"), netip.MustParsePrefix("10.0.0.0/8")
	s.set(k16)
	s.set(k16)
	s.del(k16)
	s.del(k16)
	s.set(k8)
	s.set(k8)
	s.set(k16)
	s.del(k8)
	s.del(k8)
	s.emit(out, "prelude-duplicate-subnet")

	r := vfNewRand(out.Seed)
	for i := out.Scale(120, 1200); i > 0; i-- {
		hr := r.Fork(uint64(i))
		sub := append([]netip.Prefix{}, all...)
		vfShuffle(hr, sub)
		sub = sub[:2+hr.Intn(7)]
		s = c04sNew(all)
		mode := hr.Intn(3) // 0 uniform, 1 biased to the extremes, 2 keys arrive sorted
		if mode == 2 {
			sort.Slice(sub, func(a, b int) bool { return c04sCompare(sub[a], sub[b]) < 0 })
		}
		next := 0
		for n := 8 + hr.Intn(33); n > 0 && !s.dead; n-- {
			k := vfPick(hr, sub)
			keys := s.sorted()
			if mode == 1 && len(keys) > 0 && hr.Chance(1, 2) {
				if hr.Bool() {
					k = keys[len(keys)-1]
				} else {
					k = keys[0]
				}
			}
			if mode == 2 && hr.Chance(2, 3) {
				// the next key in order, or the one just set again
				if hr.Bool() && next > 0 {
					k = sub[(next-1)%len(sub)]
				} else {
					k = sub[next%len(sub)]
					next++
				}
			}
			switch x := hr.Intn(100); {
			case x < 60:
				s.set(k)
			case x < 96:
				s.del(k)
			default:
				s.clear()
			}
		}
		s.emit(out, "random")
	}
}

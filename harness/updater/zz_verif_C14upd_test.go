//go:build verif

package updater

// C14, round 8 (P): the updater copies "supporting files" of an update package
// over the files of the working directory IN PLACE (copyFile = os.WriteFile:
// no temporary file, no fsync, no rename).  The working directory holds the
// live configuration file, so that copy must never have AdGuardHome.yaml as
// its destination: copySupportingFiles skips the names of the executable and
// of the configuration file.  Scenarios: the real copySupportingFiles over a
// package directory and a working directory that both hold a file of the
// name (as entries by name and by path, alone and as a whole package).
// Monitor (no model): the live configuration file keeps its inode and its
// bytes.  Model (Run.C14 CSupport): which names are skipped.

import (
	"bytes"
	"fmt"
	"os"
	"path/filepath"
	"syscall"
	"testing"
)

func c14uIno(t *testing.T, p string) uint64 {
	fi, err := os.Stat(p)
	if err != nil {
		t.Fatal(err)
	}
	return fi.Sys().(*syscall.Stat_t).Ino
}

func TestVerifC14Upd(t *testing.T) {
	out := vfOpen(t, "C14upd")
	defer out.Close()
	rnd := vfNewRand(out.Seed)

	names := []string{"AdGuardHome", "AdGuardHome.exe", "AdGuardHome.yaml", "LICENSE.txt", "README.md", "CHANGELOG.md", "AdGuardHome.yaml.bak", "adguardhome.yaml", "AdGuardHome.sig"}
	for k := 0; k < out.Scale(4, 60); k++ {
		names = append(names, fmt.Sprintf("extra-%d.txt", rnd.Intn(1000)))
	}
	code := func(name string) int {
		switch name {
		case "AdGuardHome":
			return 0
		case "AdGuardHome.exe":
			return 1
		case "AdGuardHome.yaml":
			return 2
		}
		return 3
	}
	type scenario struct {
		name    string
		entries []string // as the unpacked-files list has them
		judged  string   // base name judged
	}
	var scs []scenario
	for _, n := range names {
		scs = append(scs, scenario{"by-name/" + n, []string{n}, n})
		scs = append(scs, scenario{"by-path/" + n, []string{filepath.Join("AdGuardHome", n)}, n})
	}
	// a whole package, the configuration file in the middle of it
	whole := []string{"AdGuardHome/LICENSE.txt", "AdGuardHome/AdGuardHome.yaml", "AdGuardHome/AdGuardHome", "AdGuardHome/README.md"}
	scs = append(scs, scenario{"whole-package/AdGuardHome.yaml", whole, "AdGuardHome.yaml"})
	scs = append(scs, scenario{"whole-package/README.md", whole, "README.md"})

	for _, sc := range scs {
		src, dst := t.TempDir(), t.TempDir()
		for _, e := range sc.entries {
			_, base := filepath.Split(e)
			stale := []byte("stale snapshot of " + base + " from the update package\n")
			live := []byte("live " + base + " of the running installation: users, clients, filters\n")
			if err := os.WriteFile(filepath.Join(src, base), stale, 0o644); err != nil {
				t.Fatal(err)
			}
			if err := os.WriteFile(filepath.Join(dst, base), live, 0o644); err != nil {
				t.Fatal(err)
			}
		}
		livePath := filepath.Join(dst, sc.judged)
		before, _ := os.ReadFile(livePath)
		inoBefore := c14uIno(t, livePath)
		var pan any
		var cerr error
		func() {
			defer func() { pan = recover() }()
			cerr = copySupportingFiles(sc.entries, src, dst)
		}()
		after, rerr := os.ReadFile(livePath)
		present := rerr == nil
		copied := !present || !bytes.Equal(before, after)
		inoSame := present && c14uIno(t, livePath) == inoBefore

		c := vfCase{
			Coq:        vfApp("CSupport", vfN(uint64(code(sc.judged))), vfBool(copied)),
			Nontrivial: true,
			Classes:    []string{"updater", "supporting-" + map[bool]string{true: "copied", false: "skipped"}[copied], fmt.Sprintf("supporting-name-code-%d", code(sc.judged))},
			MonitorOK:  true,
			Desc: map[string]any{"scenario": "supporting/" + sc.name, "package_entries": sc.entries, "live_file": sc.judged,
				"live_before": string(before), "live_after": string(after), "same_inode": inoSame, "error": fmt.Sprint(cerr)},
		}
		switch {
		case pan != nil:
			c.MonitorOK, c.FindingKey, c.MonitorMsg = false, "C14/updater-copy-panicked", fmt.Sprintf("supporting/%s: copySupportingFiles panicked: %v", sc.name, pan)
		case code(sc.judged) == 2 && (copied || !inoSame):
			c.MonitorOK, c.FindingKey = false, "C14/updater-overwrote-live-config"
			c.MonitorMsg = fmt.Sprintf("supporting/%s: the update package has an entry %q and copySupportingFiles wrote it over the LIVE configuration file in place (os.WriteFile: no temporary file, no fsync, no rename; same inode: %v): the file now holds %q, it held %q",
				sc.name, sc.judged, inoSame, string(after), string(before))
		case code(sc.judged) < 2 && copied:
			c.MonitorOK, c.FindingKey = false, "C14/updater-overwrote-executable"
			c.MonitorMsg = fmt.Sprintf("supporting/%s: copySupportingFiles wrote over the executable %q in place", sc.name, sc.judged)
		}
		out.Emit(c)
	}
}
